// mat_reuse.go — reused (non-empty) receivers and destinations (eighth round):
// every view-of / extractor / solve-into method with a receiver- or
// destination-shape check is called with a destination that is empty, of the
// documented shape, of the transposed shape, of the shape of the factored
// matrix, and one row / one column larger, for square AND non-square operands.
// Empty or exactly shaped ⇒ accepted, result has the documented shape (and, for
// the views, the documented content); anything else ⇒ mat's own error before
// the destination or any operand is modified.
package main

import (
	"fmt"

	"gonum.org/v1/gonum/internal/verif/vlib"
	"gonum.org/v1/gonum/mat"
)

// dstShapes lists destination shapes around the documented one (er×ec) for an r×c operand; {0,0} is the empty destination.
func dstShapes(er, ec, r, c int) [][2]int {
	cand := [][2]int{{0, 0}, {er, ec}, {ec, er}, {r, c}, {c, r}, {er + 1, ec}, {er, ec + 1}}
	if er > 1 {
		cand = append(cand, [2]int{er - 1, ec})
	}
	if ec > 1 {
		cand = append(cand, [2]int{er, ec - 1})
	}
	var out [][2]int
	seen := map[[2]int]bool{}
	for _, s := range cand {
		if (s[0] == 0) != (s[1] == 0) || seen[s] {
			continue
		}
		seen[s] = true
		out = append(out, s)
	}
	return out
}

func wellCond(r, c, salt int) *mat.Dense {
	a := mkDense(r, c, salt)
	for i := 0; i < imin(r, c); i++ {
		a.Set(i, i, 11+float64(i))
	}
	return a
}

func spd(n int) *mat.SymDense {
	s := mat.NewSymDense(n, nil)
	for i := 0; i < n; i++ {
		for j := i; j < n; j++ {
			x := 0.5
			if i == j {
				x = 5 + float64(i)
			}
			s.SetSym(i, j, x)
		}
	}
	return s
}

// denseDst is one method that writes into a *mat.Dense of a documented shape.
type denseDst struct {
	name string
	ok   func(r, c int) bool                                                // operand shapes the factorization accepts
	mk   func(r, c int) (er, ec int, call func(dst *mat.Dense), objs []any) // factorize an r×c operand
}

func genMatReuse(g *vlib.G) {
	shapes := [][2]int{{2, 2}, {3, 3}, {2, 3}, {3, 2}, {4, 2}, {2, 4}, {1, 3}, {3, 1}}
	if g.Thorough() {
		shapes = append(shapes, [2]int{5, 3}, [2]int{3, 5}, [2]int{4, 4}, [2]int{1, 1})
	}
	// ---- VecDense.ColViewOf / RowViewOf ----
	for _, sh := range shapes {
		r, c := sh[0], sh[1]
		g.Case(fmt.Sprintf("VecDense.ColViewOf/RowViewOf %dx%d", r, c), func(t *vlib.T) {
			st := &matStats{errs: map[string]bool{}}
			lens := []int{0, r, c, r + 1, c + 1, imax(1, r-1)}
			for _, view := range []bool{false, true} {
				mkM := func() *mat.Dense {
					if view {
						return mkDenseView(r, c, 1)
					}
					return mkDense(r, c, 1)
				}
				for _, ln := range lens {
					for _, strided := range []bool{false, true} {
						mkV := func() *mat.VecDense {
							switch {
							case ln == 0:
								return &mat.VecDense{}
							case strided:
								return mkVecInc(ln, 5)
							}
							return mkVec(ln, 5)
						}
						for idx := -1; idx <= imax(r, c); idx++ {
							idx := idx
							// ColViewOf
							{
								m, v := mkM(), mkV()
								var want []mat.Error
								switch {
								case idx < 0 || idx >= c:
									want = []mat.Error{mat.ErrColAccess}
								case ln != 0 && ln != r:
									want = errShape
								}
								name := fmt.Sprintf("VecDense(len %d).ColViewOf(Dense %dx%d view=%v, %d)", ln, r, c, view, idx)
								runMatCheck(t, matCheck{name: name, objs: []any{v, m}, call: func() { v.ColViewOf(m, idx) }, valid: want == nil, want: want}, st)
								if want == nil {
									if v.Len() != r {
										t.FailClass("mat-reused-receiver", "%s: receiver has length %d afterwards, want %d", name, v.Len(), r)
									} else {
										for i := 0; i < r; i++ {
											if v.AtVec(i) != m.At(i, idx) {
												t.FailClass("mat-reused-receiver", "%s: element %d = %v, want %v", name, i, v.AtVec(i), m.At(i, idx))
												break
											}
										}
									}
								}
							}
							// RowViewOf
							{
								m, v := mkM(), mkV()
								var want []mat.Error
								switch {
								case idx < 0 || idx >= r:
									want = []mat.Error{mat.ErrRowAccess}
								case ln != 0 && ln != c:
									want = errShape
								}
								name := fmt.Sprintf("VecDense(len %d).RowViewOf(Dense %dx%d view=%v, %d)", ln, r, c, view, idx)
								runMatCheck(t, matCheck{name: name, objs: []any{v, m}, call: func() { v.RowViewOf(m, idx) }, valid: want == nil, want: want}, st)
								if want == nil {
									if v.Len() != c {
										t.FailClass("mat-reused-receiver", "%s: receiver has length %d afterwards, want %d", name, v.Len(), c)
									} else {
										for j := 0; j < c; j++ {
											if v.AtVec(j) != m.At(idx, j) {
												t.FailClass("mat-reused-receiver", "%s: element %d = %v, want %v", name, j, v.AtVec(j), m.At(idx, j))
												break
											}
										}
									}
								}
							}
						}
					}
				}
			}
			finishMat(t, st, "ColViewOf/RowViewOf")
		})
	}
	// ---- extractors and solves into a *mat.Dense ----
	tall := func(r, c int) bool { return r >= c }
	wide := func(r, c int) bool { return r <= c }
	square := func(r, c int) bool { return r == c }
	anyShape := func(r, c int) bool { return true }
	dd := []denseDst{
		{"QR.RTo", tall, func(r, c int) (int, int, func(*mat.Dense), []any) {
			var f mat.QR
			f.Factorize(wellCond(r, c, 1))
			return r, c, func(d *mat.Dense) { f.RTo(d) }, nil
		}},
		{"QR.QTo", tall, func(r, c int) (int, int, func(*mat.Dense), []any) {
			var f mat.QR
			f.Factorize(wellCond(r, c, 1))
			return r, r, func(d *mat.Dense) { f.QTo(d) }, nil
		}},
		{"LQ.LTo", wide, func(r, c int) (int, int, func(*mat.Dense), []any) {
			var f mat.LQ
			f.Factorize(wellCond(r, c, 1))
			return r, c, func(d *mat.Dense) { f.LTo(d) }, nil
		}},
		{"LQ.QTo", wide, func(r, c int) (int, int, func(*mat.Dense), []any) {
			var f mat.LQ
			f.Factorize(wellCond(r, c, 1))
			return c, c, func(d *mat.Dense) { f.QTo(d) }, nil
		}},
		{"SVD(thin).UTo", anyShape, func(r, c int) (int, int, func(*mat.Dense), []any) {
			var f mat.SVD
			f.Factorize(wellCond(r, c, 1), mat.SVDThin)
			return r, imin(r, c), func(d *mat.Dense) { f.UTo(d) }, nil
		}},
		{"SVD(thin).VTo", anyShape, func(r, c int) (int, int, func(*mat.Dense), []any) {
			var f mat.SVD
			f.Factorize(wellCond(r, c, 1), mat.SVDThin)
			return c, imin(r, c), func(d *mat.Dense) { f.VTo(d) }, nil
		}},
		{"SVD(full).UTo", anyShape, func(r, c int) (int, int, func(*mat.Dense), []any) {
			var f mat.SVD
			f.Factorize(wellCond(r, c, 1), mat.SVDFull)
			return r, r, func(d *mat.Dense) { f.UTo(d) }, nil
		}},
		{"SVD(full).VTo", anyShape, func(r, c int) (int, int, func(*mat.Dense), []any) {
			var f mat.SVD
			f.Factorize(wellCond(r, c, 1), mat.SVDFull)
			return c, c, func(d *mat.Dense) { f.VTo(d) }, nil
		}},
		{"EigenSym.VectorsTo", square, func(r, c int) (int, int, func(*mat.Dense), []any) {
			var f mat.EigenSym
			f.Factorize(spd(r), true)
			return r, r, func(d *mat.Dense) { f.VectorsTo(d) }, nil
		}},
		{"QR.SolveTo(trans=false)", tall, func(r, c int) (int, int, func(*mat.Dense), []any) {
			var f mat.QR
			f.Factorize(wellCond(r, c, 1))
			b := mkDense(r, 2, 3)
			return c, 2, func(d *mat.Dense) { _ = f.SolveTo(d, false, b) }, []any{b}
		}},
		{"QR.SolveTo(trans=true)", tall, func(r, c int) (int, int, func(*mat.Dense), []any) {
			var f mat.QR
			f.Factorize(wellCond(r, c, 1))
			b := mkDense(c, 2, 3)
			return r, 2, func(d *mat.Dense) { _ = f.SolveTo(d, true, b) }, []any{b}
		}},
		{"LQ.SolveTo(trans=false)", wide, func(r, c int) (int, int, func(*mat.Dense), []any) {
			var f mat.LQ
			f.Factorize(wellCond(r, c, 1))
			b := mkDense(r, 2, 3)
			return c, 2, func(d *mat.Dense) { _ = f.SolveTo(d, false, b) }, []any{b}
		}},
		{"LQ.SolveTo(trans=true)", wide, func(r, c int) (int, int, func(*mat.Dense), []any) {
			var f mat.LQ
			f.Factorize(wellCond(r, c, 1))
			b := mkDense(c, 2, 3)
			return r, 2, func(d *mat.Dense) { _ = f.SolveTo(d, true, b) }, []any{b}
		}},
		{"LU.SolveTo", square, func(r, c int) (int, int, func(*mat.Dense), []any) {
			var f mat.LU
			f.Factorize(wellCond(r, c, 1))
			b := mkDense(r, 2, 3)
			return r, 2, func(d *mat.Dense) { _ = f.SolveTo(d, false, b) }, []any{b}
		}},
		{"Cholesky.SolveTo", square, func(r, c int) (int, int, func(*mat.Dense), []any) {
			var f mat.Cholesky
			f.Factorize(spd(r))
			b := mkDense(r, 2, 3)
			return r, 2, func(d *mat.Dense) { _ = f.SolveTo(d, b) }, []any{b}
		}},
		{"SVD.SolveTo", anyShape, func(r, c int) (int, int, func(*mat.Dense), []any) {
			var f mat.SVD
			f.Factorize(wellCond(r, c, 1), mat.SVDThin)
			b := mkDense(r, 2, 3)
			return c, 2, func(d *mat.Dense) { f.SolveTo(d, b, imin(r, c)) }, []any{b}
		}},
		{"TriDense.SolveTo", square, func(r, c int) (int, int, func(*mat.Dense), []any) {
			tr := mkTri(r, mat.Upper, 1)
			b := mkDense(r, 2, 3)
			return r, 2, func(d *mat.Dense) { _ = tr.SolveTo(d, false, b) }, []any{tr, b}
		}},
		{"Dense.Solve(receiver)", anyShape, func(r, c int) (int, int, func(*mat.Dense), []any) {
			a := wellCond(r, c, 1)
			b := mkDense(r, 2, 3)
			return c, 2, func(d *mat.Dense) { _ = d.Solve(a, b) }, []any{a, b}
		}},
		{"Dense.CloneFrom is exempt; Dense.Inverse(receiver)", square, func(r, c int) (int, int, func(*mat.Dense), []any) {
			a := wellCond(r, c, 1)
			return r, r, func(d *mat.Dense) { _ = d.Inverse(a) }, []any{a}
		}},
	}
	for _, m := range dd {
		for _, sh := range shapes {
			r, c := sh[0], sh[1]
			if !m.ok(r, c) {
				continue
			}
			m := m
			g.Case(fmt.Sprintf("%s of %dx%d", m.name, r, c), func(t *vlib.T) {
				st := &matStats{errs: map[string]bool{}}
				er, ec, _, _ := m.mk(r, c)
				for _, ds := range dstShapes(er, ec, r, c) {
					for _, view := range []bool{false, true} {
						if view && ds[0] == 0 {
							continue
						}
						_, _, call, objs := m.mk(r, c)
						dst := &mat.Dense{}
						if ds[0] > 0 {
							dst = mkDense(ds[0], ds[1], 7)
							if view {
								dst = mkDenseView(ds[0], ds[1], 7)
							}
						}
						valid := ds[0] == 0 || (ds[0] == er && ds[1] == ec)
						name := fmt.Sprintf("%s of a %dx%d matrix into a %dx%d destination (view=%v), documented %dx%d", m.name, r, c, ds[0], ds[1], view, er, ec)
						runMatCheck(t, matCheck{name: name, objs: append([]any{dst}, objs...), call: func() { call(dst) }, valid: valid, want: errShape}, st)
						if valid {
							if gr, gc := dst.Dims(); gr != er || gc != ec {
								t.FailClass("mat-reused-receiver", "%s: destination is %dx%d afterwards", name, gr, gc)
							}
						}
					}
				}
				finishMat(t, st, "extractors and solves into a sized Dense")
			})
		}
	}
	// ---- triangular / symmetric destinations ----
	for _, n := range []int{1, 2, 3} {
		n := n
		g.Case(fmt.Sprintf("LU/Cholesky extractors n=%d", n), func(t *vlib.T) {
			st := &matStats{errs: map[string]bool{}}
			type triDst struct {
				name string
				kind mat.TriKind
				call func(dst *mat.TriDense)
			}
			var lu mat.LU
			lu.Factorize(wellCond(n, n, 1))
			var ch mat.Cholesky
			ch.Factorize(spd(n))
			tds := []triDst{
				{"LU.LTo", mat.Lower, func(d *mat.TriDense) { lu.LTo(d) }}, {"LU.UTo", mat.Upper, func(d *mat.TriDense) { lu.UTo(d) }},
				{"Cholesky.LTo", mat.Lower, func(d *mat.TriDense) { ch.LTo(d) }}, {"Cholesky.UTo", mat.Upper, func(d *mat.TriDense) { ch.UTo(d) }},
			}
			for _, td := range tds {
				td := td
				for _, dn := range []int{0, n, n + 1, imax(1, n-1)} {
					for _, kind := range []mat.TriKind{mat.Upper, mat.Lower} {
						dst := &mat.TriDense{}
						if dn > 0 {
							dst = mkTri(dn, kind, 3)
						} else if kind == mat.Lower {
							continue
						}
						valid := dn == 0 || (dn == n && kind == td.kind)
						want := errShape
						if dn == n && kind != td.kind {
							want = []mat.Error{mat.ErrTriangle}
						} else if kind != td.kind {
							want = []mat.Error{mat.ErrShape, mat.ErrTriangle} // two clauses broken
						}
						name := fmt.Sprintf("%s (n=%d) into TriDense(n=%d, upper=%v)", td.name, n, dn, bool(kind))
						runMatCheck(t, matCheck{name: name, objs: []any{dst}, call: func() { td.call(dst) }, valid: valid, want: want}, st)
						if valid {
							if gn, gk := dst.Triangle(); gn != n || gk != td.kind {
								t.FailClass("mat-reused-receiver", "%s: destination is n=%d upper=%v afterwards", name, gn, bool(gk))
							}
						}
					}
				}
			}
			for _, dn := range []int{0, n, n + 1, imax(1, n-1)} {
				dst := &mat.SymDense{}
				if dn > 0 {
					dst = mkSym(dn, 3)
				}
				valid := dn == 0 || dn == n
				name := fmt.Sprintf("Cholesky.InverseTo (n=%d) into SymDense(n=%d)", n, dn)
				runMatCheck(t, matCheck{name: name, objs: []any{dst}, call: func() { _ = ch.InverseTo(dst) }, valid: valid, want: errShape}, st)
			}
			// vector destinations
			b := mkVec(n, 2)
			for _, dn := range []int{0, n, n + 1, imax(1, n-1)} {
				for _, f := range []struct {
					name string
					call func(d *mat.VecDense)
				}{
					{"LU.SolveVecTo", func(d *mat.VecDense) { _ = lu.SolveVecTo(d, false, b) }},
					{"Cholesky.SolveVecTo", func(d *mat.VecDense) { _ = ch.SolveVecTo(d, b) }},
				} {
					f := f
					dst := &mat.VecDense{}
					if dn > 0 {
						dst = mkVec(dn, 4)
					}
					valid := dn == 0 || dn == n
					name := fmt.Sprintf("%s (n=%d) into VecDense(len %d)", f.name, n, dn)
					runMatCheck(t, matCheck{name: name, objs: []any{dst, b}, call: func() { f.call(dst) }, valid: valid, want: errShape}, st)
				}
			}
			finishMat(t, st, "tri/sym/vec destinations")
		})
	}
}
