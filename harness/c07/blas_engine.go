// blas_engine.go — the BLAS contract model of C07 and the execution of one base
// tuple: valid call, guard-page calls, every single fault, every pair of faults.
//
// MinLd, need and the reflection calling convention are adapted from
// harness/c01/engine.go (MinLd, newOp, methodInvoker).
package main

import (
	"fmt"
	"reflect"
	"strings"

	"gonum.org/v1/gonum/blas"
)

func imin(a, b int) int {
	if a < b {
		return a
	}
	return b
}
func imax(a, b int) int {
	if a > b {
		return a
	}
	return b
}
func iabs(a int) int {
	if a < 0 {
		return -a
	}
	return a
}

// blasMsgs is the complete list of blas/gonum/errors.go (the package's own
// panic strings). The `table` case compares it with the file when /repo is readable.
var blasMsgs = map[string]bool{
	"blas: zero x index increment": true, "blas: zero y index increment": true,
	"blas: m < 0": true, "blas: n < 0": true, "blas: k < 0": true, "blas: kL < 0": true, "blas: kU < 0": true,
	"blas: illegal triangle": true, "blas: illegal transpose": true, "blas: illegal diagonal": true,
	"blas: illegal side": true, "blas: illegal rotm flag": true,
	"blas: bad leading dimension of A": true, "blas: bad leading dimension of B": true, "blas: bad leading dimension of C": true,
	"blas: insufficient length of x": true, "blas: insufficient length of y": true, "blas: insufficient length of ap": true,
	"blas: insufficient length of a": true, "blas: insufficient length of b": true, "blas: insufficient length of c": true,
}

func isBlasMsg(s string) bool { return blasMsgs[s] }

// MinLd returns the smallest legal leading dimension of operand i for call c (0 if it has none).
func MinLd(c *Call, i int) int {
	od := &c.R.Ops[i]
	switch od.Kind {
	case General, Sym, Herm, Tri:
		return imax(1, od.Cols(c))
	case GenBand:
		return c.KL + c.KU + 1
	case SymBand, HermBand, TriBand:
		return c.K + 1
	}
	return 0
}

// need returns the minimal length of the slice of operand k (the documented
// extent of the storage scheme; see the header of spec.go). gonum demands
// (rows-1)*ld+cols elements of a dense operand even when cols == 0.
func need(c *Call, k int) int {
	od := &c.R.Ops[k]
	rows := od.Rows(c)
	cols := 0
	if od.Cols != nil {
		cols = od.Cols(c)
	}
	switch od.Kind {
	case Vector:
		if rows > 0 {
			return 1 + (rows-1)*iabs(c.Inc[k])
		}
	case General, Sym, Herm, Tri:
		if rows > 0 {
			return (rows-1)*c.Ld[k] + cols
		}
	case GenBand:
		if rows > 0 && cols > 0 {
			return c.Ld[k]*(imin(rows, cols+c.KL)-1) + c.KL + c.KU + 1
		}
	case SymBand, HermBand, TriBand:
		if rows > 0 {
			return c.Ld[k]*(rows-1) + c.K + 1
		}
	default:
		return rows * (rows + 1) / 2
	}
	return 0
}

// nonEmpty reports whether the problem is outside the documented quick-return
// zone in which no slice length is demanded: every one of m and n the routine
// takes is positive (k, kL, kU do not make a problem empty).
func nonEmpty(c *Call) bool {
	if c.R.Has("m") && c.M == 0 {
		return false
	}
	if c.R.Has("n") && c.N == 0 {
		return false
	}
	return true
}

// oneVector reports the Level 1 routines with a single vector argument, for
// which the increment "may only be positive" (doc.go) and each method documents
// a quiet return for incX < 0.
func oneVector(r *Routine) bool { return r.Level == 1 && len(r.Ops) == 1 }

// ---- faults ---------------------------------------------------------------

type faultKind int

const (
	fkFlag faultKind = iota
	fkDim
	fkLd
	fkInc
	fkShort
	fkRotm
)

var fkNames = [...]string{"flag", "dim", "ld", "inc", "short", "rotmflag"}

// fault is one single-argument perturbation of a valid base.
type fault struct {
	kind  faultKind
	pos   int           // index of the argument in Routine.Args
	val   reflect.Value // the replacement argument
	op    int           // operand whose slice is shortened (fkShort), else -1
	n     int           // new slice length (fkShort)
	msg   string        // the message errors.go assigns to the violated clause
	label string        // e.g. "lda=2", "len(x)=4", "tA=0"
	first bool          // member of the pair menu (one value per argument)
	// optional marks a don't-care clause: the documentation does not say whether
	// the value is rejected, so a normal return is accepted as well as the panic
	// (which, if it happens, must carry msg and precede every write).
	optional bool
}

var dimMsg = map[string]string{"m": "blas: m < 0", "n": "blas: n < 0", "k": "blas: k < 0", "kl": "blas: kL < 0", "ku": "blas: kU < 0"}
var flagMsg = map[string]string{"tA": "blas: illegal transpose", "tB": "blas: illegal transpose", "uplo": "blas: illegal triangle",
	"diag": "blas: illegal diagonal", "side": "blas: illegal side"}

func shortMsg(od *Operand) string {
	if od.Kind.Packed() {
		return "blas: insufficient length of ap"
	}
	return "blas: insufficient length of " + strings.ToLower(od.Name)
}

// illegalFlags returns the illegal values tried for a flag argument: 0, and
// for the transpose of routines with a restricted menu the excluded value.
func illegalFlags(r *Routine, p Prec, tok string) []reflect.Value {
	switch tok {
	case "tA", "tB":
		out := []reflect.Value{reflect.ValueOf(blas.Transpose(0))}
		for _, t := range transNTC {
			legal := false
			for _, u := range r.Trans(p) {
				legal = legal || u == t
			}
			if !legal {
				out = append(out, reflect.ValueOf(t))
			}
		}
		return append(out, reflect.ValueOf(blas.Transpose('X')))
	case "uplo":
		return []reflect.Value{reflect.ValueOf(blas.All), reflect.ValueOf(blas.Uplo(0))}
	case "diag":
		return []reflect.Value{reflect.ValueOf(blas.Diag(0)), reflect.ValueOf(blas.Diag('L'))}
	case "side":
		return []reflect.Value{reflect.ValueOf(blas.Side(0)), reflect.ValueOf(blas.Side('U'))}
	}
	panic("harness: not a flag " + tok)
}

// ---- one prepared method ----------------------------------------------------

type blasMethod struct {
	r    *Routine
	p    Prec
	name string
	m    reflect.Value
	mt   reflect.Type
	pos  map[string]int
}

func newBlasMethod(impl reflect.Value, r *Routine, p Prec) *blasMethod {
	name := r.Method(p)
	m := impl.MethodByName(name)
	if !m.IsValid() {
		panic("harness: no method " + name)
	}
	bm := &blasMethod{r: r, p: p, name: name, m: m, mt: m.Type(), pos: map[string]int{}}
	if bm.mt.NumIn() != len(r.Args) {
		panic(fmt.Sprintf("harness: %s takes %d arguments, spec lists %d", name, bm.mt.NumIn(), len(r.Args)))
	}
	for i, tok := range r.Args {
		bm.pos[tok] = i
	}
	return bm
}

func scalarValue(v complex128, t reflect.Type) reflect.Value {
	x := reflect.New(t).Elem()
	switch t.Kind() {
	case reflect.Float32, reflect.Float64:
		x.SetFloat(real(v))
	case reflect.Complex64, reflect.Complex128:
		x.SetComplex(v)
	default:
		panic("harness: scalar parameter of kind " + t.Kind().String())
	}
	return x
}

func rotmValue(flag blas.Flag, t reflect.Type) reflect.Value {
	x := reflect.New(t).Elem()
	x.FieldByName("Flag").SetInt(int64(flag))
	h := x.FieldByName("H")
	for i := 0; i < 4; i++ {
		h.Index(i).SetFloat([4]float64{2, -1, 1, 3}[i])
	}
	return x
}

// buildIn assembles the argument list for call c with the given slices.
func (bm *blasMethod) buildIn(c *Call, slices []reflect.Value) []reflect.Value {
	in := make([]reflect.Value, len(bm.r.Args))
	for i, tok := range bm.r.Args {
		pt := bm.mt.In(i)
		switch tok {
		case "tA":
			in[i] = reflect.ValueOf(c.TA)
		case "tB":
			in[i] = reflect.ValueOf(c.TB)
		case "uplo":
			in[i] = reflect.ValueOf(c.UL)
		case "diag":
			in[i] = reflect.ValueOf(c.DG)
		case "side":
			in[i] = reflect.ValueOf(c.SD)
		case "m":
			in[i] = reflect.ValueOf(c.M)
		case "n":
			in[i] = reflect.ValueOf(c.N)
		case "k":
			in[i] = reflect.ValueOf(c.K)
		case "kl":
			in[i] = reflect.ValueOf(c.KL)
		case "ku":
			in[i] = reflect.ValueOf(c.KU)
		case "alpha", "c":
			in[i] = scalarValue(c.Alpha, pt)
		case "beta", "s":
			in[i] = scalarValue(c.Beta, pt)
		case "P":
			in[i] = rotmValue(c.RotmFlag, pt)
		default:
			if len(tok) > 2 && tok[:2] == "ld" {
				in[i] = reflect.ValueOf(c.Ld[c.R.Op(tok[2:])])
			} else if len(tok) > 3 && tok[:3] == "inc" {
				in[i] = reflect.ValueOf(c.Inc[c.R.Op(tok[3:])])
			} else if k := c.R.Op(tok); k >= 0 {
				in[i] = slices[k]
			} else {
				panic("harness: unknown token " + tok)
			}
		}
		if in[i].Type() != pt {
			panic(fmt.Sprintf("harness: %s argument %d (%s) has type %v, want %v", bm.name, i, tok, in[i].Type(), pt))
		}
	}
	return in
}

// describe renders the call for messages (flags, extents, strides, slice lengths).
func (bm *blasMethod) describe(in []reflect.Value) string {
	var sb strings.Builder
	sb.WriteString(bm.name)
	sb.WriteByte('(')
	for i, tok := range bm.r.Args {
		if i > 0 {
			sb.WriteString(", ")
		}
		v := in[i]
		switch v.Kind() {
		case reflect.Slice:
			fmt.Fprintf(&sb, "len(%s)=%d", strings.ToLower(tok), v.Len())
		case reflect.Uint8:
			if u := v.Uint(); u >= 'A' && u <= 'Z' {
				fmt.Fprintf(&sb, "%s='%c'", tok, rune(u))
			} else {
				fmt.Fprintf(&sb, "%s=%d", tok, u)
			}
		case reflect.Int:
			fmt.Fprintf(&sb, "%s=%d", tok, v.Int())
		case reflect.Struct:
			fmt.Fprintf(&sb, "%s.Flag=%d", tok, v.FieldByName("Flag").Int())
		default:
			fmt.Fprintf(&sb, "%s=%v", tok, v.Interface())
		}
	}
	sb.WriteByte(')')
	return sb.String()
}

// faults lists every single fault of the valid base c (need = minimal lengths).
func (bm *blasMethod) faults(c *Call, nd []int, regs []*region) []fault {
	r := bm.r
	var fs []fault
	add := func(f fault) { fs = append(fs, f) }
	negOne := oneVector(r) && c.Inc[0] < 0
	for i, tok := range r.Args {
		switch tok {
		case "tA", "tB", "uplo", "diag", "side":
			for j, v := range illegalFlags(r, bm.p, tok) {
				add(fault{kind: fkFlag, pos: i, val: v, op: -1, msg: flagMsg[tok], label: fmt.Sprintf("%s=%d", tok, v.Uint()), first: j == 0})
			}
		case "m", "n", "k", "kl", "ku":
			if negOne {
				continue // don't-care zone: n < 0 together with the documented quiet return for incX < 0
			}
			add(fault{kind: fkDim, pos: i, val: reflect.ValueOf(-1), op: -1, msg: dimMsg[tok], label: tok + "=-1", first: true})
		case "P":
			// Don't-care: errors.go has "illegal rotm flag", but neither the doc comment of
			// ?rotm nor the reference BLAS says that a flag outside {-2,-1,0,1} is rejected
			// (gonum: silent no-op). Either the panic (before any write) or a return.
			add(fault{kind: fkRotm, pos: i, val: rotmValue(2, bm.mt.In(i)), op: -1, msg: "blas: illegal rotm flag", label: "P.Flag=2", first: true, optional: true})
			add(fault{kind: fkRotm, pos: i, val: rotmValue(-3, bm.mt.In(i)), op: -1, msg: "blas: illegal rotm flag", label: "P.Flag=-3", optional: true})
		default:
			if len(tok) > 2 && tok[:2] == "ld" {
				k := r.Op(tok[2:])
				min := MinLd(c, k)
				msg := "blas: bad leading dimension of " + tok[2:]
				add(fault{kind: fkLd, pos: i, val: reflect.ValueOf(min - 1), op: -1, msg: msg, label: fmt.Sprintf("%s=%d", tok, min-1), first: true})
				if min-1 != 0 {
					add(fault{kind: fkLd, pos: i, val: reflect.ValueOf(0), op: -1, msg: msg, label: tok + "=0"})
				}
			} else if len(tok) > 3 && tok[:3] == "inc" {
				add(fault{kind: fkInc, pos: i, val: reflect.ValueOf(0), op: -1, msg: "blas: zero " + strings.ToLower(tok[3:]) + " index increment", label: tok + "=0", first: true})
			} else if k := r.Op(tok); k >= 0 {
				if negOne || !nonEmpty(c) || nd[k] == 0 {
					continue
				}
				add(fault{kind: fkShort, pos: i, val: regs[k].slice(nd[k] - 1), op: k, n: nd[k] - 1, msg: shortMsg(&r.Ops[k]),
					label: fmt.Sprintf("len(%s)=%d", strings.ToLower(tok), nd[k]-1), first: true})
			}
		}
	}
	return fs
}

// ---- running one base ---------------------------------------------------------

// stats of one vlib case
type blasStats struct {
	valid, guard, single, pair int64
	kinds                      [6]bool
	pairFirst, pairSecond      int64
	optionalQuiet              int64
}

type failer interface {
	Failf(format string, a ...any)
	FailClass(class, format string, a ...any)
}

// runBase performs all calls of one valid base tuple.
func (bm *blasMethod) runBase(t failer, c *Call, regs []*region, pairs bool, st *blasStats) {
	r := bm.r
	nops := len(r.Ops)
	nd := make([]int, nops)
	slices := make([]reflect.Value, nops)
	for k := range r.Ops {
		nd[k] = need(c, k)
		if nd[k]+2*padElems > regs[k].total {
			panic("harness: operand larger than its region")
		}
		slices[k] = regs[k].slice(nd[k])
	}
	in := bm.buildIn(c, slices)

	unchanged := func(what string, lens []int) {
		for k := range r.Ops {
			if d := regs[k].changed(lens[k]); d != "" {
				t.FailClass("write-before-validate", "%s: operand %s was modified although the call panicked: %s", what, r.Ops[k].Name, d)
				regs[k].restore()
			}
		}
	}

	// 1. the valid call: no panic of any kind.
	_, e := invoke(bm.m, in)
	st.valid++
	if o := classify(e, isBlasMsg); o.class != pcNone {
		cl := "valid-call-panics"
		if o.class == pcFault {
			cl = "memory-fault"
		}
		t.FailClass(cl, "%s: all arguments satisfy the contract (slices exactly minimal, cap == len) but the call %s", bm.describe(in), o)
	}
	for k := range r.Ops {
		// outside the slice nothing may change even in a valid call.
		reg := regs[k]
		pre, post := reg.off*reg.es, (reg.off+nd[k])*reg.es
		if string(reg.bytes[:pre]) != string(reg.snap[:pre]) || string(reg.bytes[post:]) != string(reg.snap[post:]) {
			t.FailClass("write-outside-slice", "%s: memory outside the slice of %s (len=cap=%d) was written", bm.describe(in), r.Ops[k].Name, nd[k])
		}
		reg.restore()
	}

	// 2. the same call with every operand on guard pages: every combination of
	// "ends exactly at a PROT_NONE page" (E) and "starts right after one" (S)
	// per operand, so that an over-read of one operand is caught whatever
	// alignment-dependent path the placement of the others selects.
	for mask := 0; mask < 1<<nops; mask++ {
		gin := append([]reflect.Value(nil), in...)
		place := make([]byte, nops)
		for k := range r.Ops {
			atEnd := mask>>k&1 == 0
			place[k] = 'S'
			if atEnd {
				place[k] = 'E'
			}
			gin[bm.pos[r.Ops[k].Name]] = getGuard(k).guardedSlice(bm.p, nd[k], atEnd, k)
		}
		_, e := invoke(bm.m, gin)
		st.guard++
		if o := classify(e, isBlasMsg); o.class != pcNone {
			cl := "valid-call-panics"
			if o.class == pcFault {
				cl = "memory-fault"
			}
			t.FailClass(cl, "%s with the operands on guard pages (placement %s: E = slice ends at a PROT_NONE page, S = starts right after one): %s", bm.describe(gin), place, o)
		}
	}

	// 3. single faults.
	fs := bm.faults(c, nd, regs)
	lens := make([]int, nops)
	for i := range fs {
		f := &fs[i]
		st.kinds[f.kind] = true
		old := in[f.pos]
		in[f.pos] = f.val
		copy(lens, nd)
		if f.op >= 0 {
			lens[f.op] = f.n
		}
		_, e := invoke(bm.m, in)
		st.single++
		o := classify(e, isBlasMsg)
		what := fmt.Sprintf("%s [single fault %s, valid otherwise]", bm.describe(in), f.label)
		switch {
		case o.class == pcNone && f.optional:
			st.optionalQuiet++
			for k := range r.Ops {
				regs[k].restore()
			}
		case o.class == pcNone:
			t.FailClass("invalid-accepted", "%s: returned normally, want panic %q", what, f.msg)
		case o.class == pcFault:
			t.FailClass("memory-fault", "%s: %s, want panic %q", what, o, f.msg)
		case o.class == pcRuntime:
			t.FailClass("runtime-error-for-invalid", "%s: %s, want panic %q", what, o, f.msg)
		case o.class == pcOther:
			t.FailClass("foreign-panic", "%s: %s, want panic %q", what, o, f.msg)
		case o.msg != f.msg:
			t.FailClass("wrong-message", "%s: %s, want %q", what, o, f.msg)
		}
		unchanged(what, lens)
		in[f.pos] = old
	}

	// 4. all pairs of faults on different arguments (one value per argument).
	if !pairs {
		return
	}
	for i := range fs {
		if !fs[i].first {
			continue
		}
		for j := i + 1; j < len(fs); j++ {
			if !fs[j].first || fs[j].pos == fs[i].pos {
				continue
			}
			f, g := &fs[i], &fs[j]
			oldf, oldg := in[f.pos], in[g.pos]
			in[f.pos], in[g.pos] = f.val, g.val
			copy(lens, nd)
			if f.op >= 0 {
				lens[f.op] = f.n
			}
			if g.op >= 0 {
				lens[g.op] = g.n
			}
			_, e := invoke(bm.m, in)
			st.pair++
			o := classify(e, isBlasMsg)
			what := fmt.Sprintf("%s [double fault %s, %s]", bm.describe(in), f.label, g.label)
			switch {
			case o.class == pcNone && f.optional && g.optional:
				for k := range r.Ops {
					regs[k].restore()
				}
			case o.class == pcNone:
				t.FailClass("invalid-accepted", "%s: returned normally, want a package panic", what)
			case o.class == pcFault:
				t.FailClass("memory-fault", "%s: %s, want a package panic", what, o)
			case o.class == pcRuntime:
				t.FailClass("runtime-error-for-invalid", "%s: %s, want a package panic", what, o)
			case o.class == pcOther:
				t.FailClass("foreign-panic", "%s: %s, want a package panic", what, o)
			case o.msg == f.msg:
				st.pairFirst++
			case o.msg == g.msg:
				st.pairSecond++
			default:
				t.FailClass("pair-third-message", "%s: %s is the message of neither fault (%q, %q)", what, o, f.msg, g.msg)
			}
			unchanged(what, lens)
			in[f.pos], in[g.pos] = oldf, oldg
		}
	}
}
