// Harness C07: invalid arguments panic before any write; valid arguments never
// fault. See NOTES.md.
package main

import "gonum.org/v1/gonum/internal/verif/vlib"

func main() {
	groups := []vlib.Group{
		{Name: "blas-table", Gen: genBlasTable},
		{Name: "blas-l1", Gen: genBlas(1)},
		{Name: "blas-l2", Gen: genBlas(2)},
		{Name: "blas-l3", Gen: genBlas(3)},
		{Name: "blas-wrap", Gen: genBlasWrap},
		{Name: "blas-wrap-struct", Gen: genBlasWrapStruct},
		{Name: "lapack64", Gen: genLapack64},
		{Name: "lapack", Gen: genLapack},
		{Name: "lapack-blocked", Gen: genLapackBlocked},
		{Name: "mat-index", Gen: genMatIndex},
		{Name: "mat-views", Gen: genMatViews},
		{Name: "mat-ctor", Gen: genMatCtor},
		{Name: "mat-shape", Gen: genMatShape},
		{Name: "mat-band", Gen: genMatBand},
		{Name: "mat-cap", Gen: genMatCap},
		{Name: "mat-reuse", Gen: genMatReuse},
	}
	vlib.Main("C07", groups...)
}
