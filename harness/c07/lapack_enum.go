// lapack_enum.go — enumeration of the valid LAPACK bases: one vlib case per
// routine × flag tuple × dimension tuple; leading dimensions and lwork modes
// are enumerated inside the case.
package main

import (
	"fmt"
	"reflect"
	"sort"
	"strings"

	lgonum "gonum.org/v1/gonum/lapack/gonum"

	"gonum.org/v1/gonum/internal/verif/vhook"
	"gonum.org/v1/gonum/internal/verif/vlib"
)

// lapackNoContract lists the exported methods without an argument contract:
// pure scalar routines (no dimension, stride, slice or flag argument), Dlasy2
// ("these conditions are not checked") and the tuning-parameter functions.
var lapackNoContract = []string{"Dlae2", "Dlaev2", "Dlag2", "Dlags2", "Dlanv2", "Dlapy2", "Dlartg", "Dlas2", "Dlasv2", "Dlasy2", "Ilaenv", "Iparmq"}

// seamProfile is an answer set for Ilaenv (block size nb, minimal block size
// nbmin, crossover nx) and Iparmq (nmin) installed while a case runs.
type seamProfile struct {
	name          string
	nb, nbmin, nx int
	nmin          int   // Iparmq ispec 12: below this order Dhseqr uses Dlahqr
	answers       int64 // number of Ilaenv questions answered in the current case (vacuity guard)
}

func (p *seamProfile) install() (restore func()) {
	if p == nil {
		return func() {}
	}
	vhook.IlaenvFunc = func(ispec int, name, opts string, n1, n2, n3, n4 int) (int, bool) {
		p.answers++
		switch ispec {
		case 1:
			return p.nb, true
		case 2:
			return p.nbmin, true
		case 3:
			return p.nx, true
		}
		return 0, false
	}
	vhook.IparmqFunc = func(ispec int, name, opts string, n, ilo, ihi, lwork int) (int, bool) {
		if ispec == 12 && p.nmin > 0 {
			return p.nmin, true
		}
		return 0, false
	}
	return func() { vhook.IlaenvFunc, vhook.IparmqFunc = nil, nil }
}

// blockedRoutines are the rows whose implementation (directly or through a
// nested routine) asks Ilaenv for a block size and has a blocked/unblocked split.
var blockedRoutines = map[string]bool{}

func init() {
	for _, n := range strings.Fields(`Dgebrd Dgeev Dgehrd Dgelqf Dgels Dgeqp3 Dgeqrf Dgerqf Dgesvd Dgetrf Dgetri Dhseqr Dlaqr04 Dlaqr23 Dlauum
		Dorghr Dorglq Dorgql Dorgqr Dorgtr Dormbr Dormhr Dormlq Dormqr Dpbtrf Dpotrf Dpstrf Dpttrs Dsyev Dsytrd Dtrevc3 Dtrtri
		Dgesv Dpotri Dorgbr Dggsvd3 Dggsvp3 Dptsv Dpbtrs`) {
		blockedRoutines[n] = true
	}
}

// genLapackBlocked runs the rows that have a blocked code path once more with
// tiny block sizes answered through the ilaenv seam, so that dimensions <= 7
// take the blocked path (and the hand-over to the unblocked remainder) for the
// whole fault grid and for every legal lwork.
func genLapackBlocked(g *vlib.G) {
	profiles := []*seamProfile{{name: "nb2-nx0", nb: 2, nbmin: 2, nx: 0, nmin: 12}, {name: "nb2-nx3", nb: 2, nbmin: 2, nx: 3, nmin: 12}}
	if g.Thorough() {
		profiles = append(profiles, &seamProfile{name: "nb3-nx1", nb: 3, nbmin: 2, nx: 1, nmin: 12}, &seamProfile{name: "nb2-nbmin3-nx0", nb: 2, nbmin: 3, nx: 0, nmin: 12})
	}
	for _, p := range profiles {
		genLapackWith(g, p, vlib.Pick(g, []int{0, 3, 5, 7}, []int{0, 2, 3, 5, 6, 8}))
	}
}

func genLapack(g *vlib.G) {
	genLapackWith(g, nil, vlib.Pick(g, []int{0, 1, 2, 3, 5}, []int{0, 1, 2, 3, 4, 6}))
}

func genLapackWith(g *vlib.G, prof *seamProfile, defMenu []int) {
	if vlib.Env("VERIF_CONFIG", "default") == "bounds" {
		return // the bounds tag only affects mat
	}
	impl := reflect.ValueOf(lgonum.Implementation{})
	rows := lapackRows()
	prefix := ""
	if prof != nil {
		prefix = prof.name + " "
	}
	if prof == nil {
		g.Case("table", func(t *vlib.T) {
			// every exported method of lapack/gonum.Implementation is either a row of the
			// table or listed as having no argument contract.
			seen := map[string]int{}
			for _, r := range rows {
				seen[r.name]++
			}
			for _, n := range lapackNoContract {
				seen[n]++
			}
			ty := impl.Type()
			var bad []string
			for i := 0; i < ty.NumMethod(); i++ {
				n := ty.Method(i).Name
				if seen[n] != 1 {
					bad = append(bad, n)
				}
				delete(seen, n)
			}
			for n := range seen {
				bad = append(bad, "+"+n)
			}
			sort.Strings(bad)
			if len(bad) > 0 {
				t.Failf("contract table and lapack/gonum.Implementation disagree: %v", bad)
			}
			t.Count("lapack_methods", int64(ty.NumMethod()))
			t.Count("lapack_rows", int64(len(rows)))
			t.Outcome(fmt.Sprintf("methods=%d rows=%d", ty.NumMethod(), len(rows)))
			t.Nontrivial()
		})
	}
	for _, r := range rows {
		if prof != nil && !blockedRoutines[r.name] {
			continue
		}
		lm := newLMethod(impl, r)
		type axis struct {
			name string
			vals []int
		}
		var axes []axis
		for _, a := range r.args {
			switch a.kind {
			case lkFlag:
				vals := make([]int, len(a.legal))
				for i, b := range a.legal {
					vals[i] = int(b)
				}
				axes = append(axes, axis{a.name, vals})
			case lkBool:
				if a.enum {
					axes = append(axes, axis{a.name, []int{0, 1}})
				}
			case lkDim:
				menu := defMenu
				if r.dims != nil && prof == nil {
					menu = r.dims
				}
				if r.dims != nil && prof != nil {
					menu = []int{0, 3, 6} // rows with a reduced menu of their own
				}
				if a.menu != nil {
					menu = a.menu
				}
				axes = append(axes, axis{a.name, menu})
			}
		}
		rad := make([]int, len(axes))
		for i, a := range axes {
			rad[i] = len(a.vals)
		}
		vlib.Product(rad, func(idx []int) bool {
			vals := map[string]int{}
			var key strings.Builder
			key.WriteString(prefix + r.name)
			for i, a := range axes {
				x := a.vals[idx[i]]
				vals[a.name] = x
				if r.args[r.pos[a.name]].kind == lkFlag && x > 32 {
					fmt.Fprintf(&key, " %s=%c", a.name, rune(x))
				} else {
					fmt.Fprintf(&key, " %s=%d", a.name, x)
				}
			}
			if r.ok != nil && !r.ok(&lenv{v: vals}) {
				return true
			}
			g.Case(key.String(), func(t *vlib.T) {
				defer prof.install()()
				if prof != nil {
					prof.answers = 0
				}
				runLapackCase(t, lm, vals, prof != nil)
				if prof != nil {
					t.Count("ilaenv_seam_answers", prof.answers)
				}
			})
			return !g.Stopped()
		})
		if g.Stopped() {
			return
		}
	}
}

func runLapackCase(t *vlib.T, lm *lmethod, vals map[string]int, blocked bool) {
	r := lm.r
	st := lstats{kinds: map[string]bool{}}
	nld := 0
	for _, a := range r.args {
		if a.kind == lkLd {
			nld++
		}
	}
	deltas := [][]int{{0}, {2}}
	if nld >= 2 {
		deltas = append(deltas, []int{0, 2}, []int{2, 0})
	}
	if nld == 0 {
		deltas = deltas[:1]
	}
	modes := []int{lwNone}
	if _, ok := r.pos["lwork"]; ok {
		modes = []int{lwMin, lwOpt, lwQuery}
		if r.noMinLwork {
			modes = []int{lwOpt, lwQuery}
		}
	}
	// scalar variants: the default values, then each quick-return value of each float scalar alone
	variants := []map[string]float64{nil}
	for _, a := range r.args {
		for _, x := range a.fvals {
			variants = append(variants, map[string]float64{a.name: x})
		}
	}
	ninit := imax(1, r.variants)
	for _, a := range r.args {
		ninit = imax(ninit, len(a.inits))
	}
	// modes with the full fault menu, and the intermediate legal lwork values that are
	// run as valid calls (heap and guard pages) only; the blocked group faults them all.
	var extra []int
	if _, ok := r.pos["lwork"]; ok {
		extra = []int{lwMinPlus1, lwMid, lwOptMinus1, lwOptPlus3}
	}
	if blocked && len(deltas) > 2 {
		deltas = [][]int{{0}, {0, 2}}
	}
	for init := 0; init < ninit; init++ {
		for iv, fv := range variants {
			for id, d := range deltas {
				if (iv > 0 || init > 0) && id > 0 {
					break // thin grid for the scalar / content variants: minimal leading dimensions, single faults only
				}
				run := func(mode int, faults, pairs bool) {
					e := &lenv{v: map[string]int{"#init": init}, fv: fv}
					for k, x := range vals {
						e.v[k] = x
					}
					lm.runBase(debugFailer{t}, e, d, mode, faults, pairs, &st)
				}
				for _, mode := range modes {
					run(mode, true, iv == 0 && init == 0 && (!blocked || mode == lwOpt || mode == lwNone))
				}
				if iv == 0 && id == 0 {
					for _, mode := range extra {
						run(mode, blocked, false)
					}
				}
			}
		}
	}
	t.Count("lapack_valid_calls", st.valid)
	t.Count("lapack_guard_page_calls", st.guard)
	t.Count("lapack_single_fault_calls", st.single)
	t.Count("lapack_double_fault_calls", st.pair)
	var ks []string
	for k := range st.kinds {
		ks = append(ks, k)
	}
	sort.Strings(ks)
	e := &lenv{v: vals}
	if lm.isEmpty(e) {
		t.Outcome("zero-sized problem: " + strings.Join(ks, "+"))
	} else {
		t.Outcome(r.name + ": " + strings.Join(ks, "+"))
	}
	if st.kinds["short"] {
		t.Nontrivial()
	}
}
