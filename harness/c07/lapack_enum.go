// lapack_enum.go — enumeration of the valid LAPACK bases: one vlib case per
// routine × flag tuple × dimension tuple; leading dimensions and lwork modes
// are enumerated inside the case.
package main

import (
	"fmt"
	"reflect"
	"sort"
	"strings"

	lgonum "gonum.org/v1/gonum/lapack/gonum"

	"gonum.org/v1/gonum/internal/verif/vlib"
)

// lapackNoContract lists the exported methods without an argument contract:
// pure scalar routines (no dimension, stride, slice or flag argument), Dlasy2
// ("these conditions are not checked") and the tuning-parameter functions.
var lapackNoContract = []string{"Dlae2", "Dlaev2", "Dlag2", "Dlags2", "Dlanv2", "Dlapy2", "Dlartg", "Dlas2", "Dlasv2", "Dlasy2", "Ilaenv", "Iparmq"}

func genLapack(g *vlib.G) {
	if vlib.Env("VERIF_CONFIG", "default") == "bounds" {
		return // the bounds tag only affects mat
	}
	impl := reflect.ValueOf(lgonum.Implementation{})
	rows := lapackRows()
	g.Case("table", func(t *vlib.T) {
		// every exported method of lapack/gonum.Implementation is either a row of the
		// table or listed as having no argument contract.
		seen := map[string]int{}
		for _, r := range rows {
			seen[r.name]++
		}
		for _, n := range lapackNoContract {
			seen[n]++
		}
		ty := impl.Type()
		var bad []string
		for i := 0; i < ty.NumMethod(); i++ {
			n := ty.Method(i).Name
			if seen[n] != 1 {
				bad = append(bad, n)
			}
			delete(seen, n)
		}
		for n := range seen {
			bad = append(bad, "+"+n)
		}
		sort.Strings(bad)
		if len(bad) > 0 {
			t.Failf("contract table and lapack/gonum.Implementation disagree: %v", bad)
		}
		t.Count("lapack_methods", int64(ty.NumMethod()))
		t.Count("lapack_rows", int64(len(rows)))
		t.Outcome(fmt.Sprintf("methods=%d rows=%d", ty.NumMethod(), len(rows)))
		t.Nontrivial()
	})
	defMenu := vlib.Pick(g, []int{0, 1, 2, 3, 5}, []int{0, 1, 2, 3, 4, 6})
	for _, r := range rows {
		lm := newLMethod(impl, r)
		type axis struct {
			name string
			vals []int
		}
		var axes []axis
		for _, a := range r.args {
			switch a.kind {
			case lkFlag:
				vals := make([]int, len(a.legal))
				for i, b := range a.legal {
					vals[i] = int(b)
				}
				axes = append(axes, axis{a.name, vals})
			case lkBool:
				if a.enum {
					axes = append(axes, axis{a.name, []int{0, 1}})
				}
			case lkDim:
				menu := defMenu
				if r.dims != nil {
					menu = r.dims
				}
				if a.menu != nil {
					menu = a.menu
				}
				axes = append(axes, axis{a.name, menu})
			}
		}
		rad := make([]int, len(axes))
		for i, a := range axes {
			rad[i] = len(a.vals)
		}
		vlib.Product(rad, func(idx []int) bool {
			vals := map[string]int{}
			var key strings.Builder
			key.WriteString(r.name)
			for i, a := range axes {
				x := a.vals[idx[i]]
				vals[a.name] = x
				if r.args[r.pos[a.name]].kind == lkFlag && x > 32 {
					fmt.Fprintf(&key, " %s=%c", a.name, rune(x))
				} else {
					fmt.Fprintf(&key, " %s=%d", a.name, x)
				}
			}
			if r.ok != nil && !r.ok(&lenv{v: vals}) {
				return true
			}
			g.Case(key.String(), func(t *vlib.T) { runLapackCase(t, lm, vals) })
			return !g.Stopped()
		})
		if g.Stopped() {
			return
		}
	}
}

func runLapackCase(t *vlib.T, lm *lmethod, vals map[string]int) {
	r := lm.r
	st := lstats{kinds: map[string]bool{}}
	nld := 0
	for _, a := range r.args {
		if a.kind == lkLd {
			nld++
		}
	}
	deltas := [][]int{{0}, {2}}
	if nld >= 2 {
		deltas = append(deltas, []int{0, 2}, []int{2, 0})
	}
	if nld == 0 {
		deltas = deltas[:1]
	}
	modes := []int{lwNone}
	if _, ok := r.pos["lwork"]; ok {
		modes = []int{lwMin, lwOpt, lwQuery}
		if r.noMinLwork {
			modes = []int{lwOpt, lwQuery}
		}
	}
	// scalar variants: the default values, then each quick-return value of each float scalar alone
	variants := []map[string]float64{nil}
	for _, a := range r.args {
		for _, x := range a.fvals {
			variants = append(variants, map[string]float64{a.name: x})
		}
	}
	for iv, fv := range variants {
		for id, d := range deltas {
			if iv > 0 && id > 0 {
				break // thin grid for the scalar variants: minimal leading dimensions, single faults only
			}
			for _, mode := range modes {
				e := &lenv{v: map[string]int{}, fv: fv}
				for k, x := range vals {
					e.v[k] = x
				}
				lm.runBase(debugFailer{t}, e, d, mode, iv == 0, &st)
			}
		}
	}
	t.Count("lapack_valid_calls", st.valid)
	t.Count("lapack_guard_page_calls", st.guard)
	t.Count("lapack_single_fault_calls", st.single)
	t.Count("lapack_double_fault_calls", st.pair)
	var ks []string
	for k := range st.kinds {
		ks = append(ks, k)
	}
	sort.Strings(ks)
	e := &lenv{v: vals}
	if lm.isEmpty(e) {
		t.Outcome("zero-sized problem: " + strings.Join(ks, "+"))
	} else {
		t.Outcome(r.name + ": " + strings.Join(ks, "+"))
	}
	if st.kinds["short"] {
		t.Nontrivial()
	}
}
