// lapack_subrange.go — sub-range variants: routines that take a window
// (ilo, ihi) of an order-n problem but whose slice-length requirements depend
// on n only are also run with the window strictly inside the full range
// (ilo = 1, ihi = n-2, for n >= 4), so that a length check written against the
// window size (nh = ihi-ilo) instead of n is exposed by the "one short" fault.
package main

// subRangeRoutines lists the rows with two variants: full window and inner window.
var subRangeRoutines = map[string]bool{"Dgehrd": true, "Dgehd2": true, "Dorghr": true, "Dormhr": true, "Dgebak": true, "Dgghrd": true}

func innerWindow(e *lenv, order int) bool { return e.v["#init"] == 1 && order >= 4 }

// subLo / subHi give ilo / ihi of the variant selected by e.v["#init"].
func subLo(order efn) efn {
	return func(e *lenv) int {
		if innerWindow(e, order(e)) {
			return 1
		}
		return 0
	}
}

func subHi(order efn) efn {
	return func(e *lenv) int {
		if innerWindow(e, order(e)) {
			return order(e) - 2
		}
		return order(e) - 1
	}
}
