// mat_cap.go — views with offsets followed by capacity-dependent operations
// (seventh round): for every view V = P.Slice(i,k,j,l) of a parent P (compact,
// or itself an offset view of a larger root), Caps, Grow within and beyond the
// capacity, and Slice beyond Dims up to Caps must be accepted without a
// runtime fault, address exactly the root elements (ai+a, aj+b) the
// documentation assigns to them, and never write a root element outside the
// view's capacity region; arguments beyond Caps / negative growth must panic
// with mat's own error. Same for CDense, SymDense (SliceSym/GrowSym), TriDense
// (SliceTri) and VecDense (SliceVec/Cap, unit and non-unit increment).
//
// Not provoked: Reset followed by ReuseAs on a view ("Reset should not be used
// when the matrix shares backing data", documented misuse).
package main

import (
	"fmt"
	"runtime"

	"gonum.org/v1/gonum/internal/verif/vlib"
	"gonum.org/v1/gonum/mat"
)

// capMat abstracts Dense and CDense (real parts) for the capacity checks.
type capMat struct {
	at    func(a, b int) float64
	set   func(a, b int, v float64)
	dims  func() (int, int)
	caps  func() (int, int)
	slice func(i, k, j, l int) capMat
	grow  func(r, c int) capMat
}

func denseCap(m *mat.Dense) capMat {
	return capMat{at: m.At, set: m.Set, dims: m.Dims, caps: m.Caps,
		slice: func(i, k, j, l int) capMat { return denseCap(m.Slice(i, k, j, l).(*mat.Dense)) },
		grow:  func(r, c int) capMat { return denseCap(m.Grow(r, c).(*mat.Dense)) }}
}

func cdenseCap(m *mat.CDense) capMat {
	return capMat{at: func(a, b int) float64 { return real(m.At(a, b)) }, set: func(a, b int, v float64) { m.Set(a, b, complex(v, 0)) },
		dims: m.Dims, caps: m.Caps,
		slice: func(i, k, j, l int) capMat { return cdenseCap(m.Slice(i, k, j, l).(*mat.CDense)) },
		grow:  func(r, c int) capMat { return cdenseCap(m.Grow(r, c).(*mat.CDense)) }}
}

// rootVal is the value of root element (i,j): pairwise distinct, never zero.
func rootVal(i, j int) float64 { return float64(100*(i+1) + j + 1) }

func mkRootDense(r, c int) capMat {
	m := mat.NewDense(r, c, nil)
	for i := 0; i < r; i++ {
		for j := 0; j < c; j++ {
			m.Set(i, j, rootVal(i, j))
		}
	}
	return denseCap(m)
}

func mkRootCDense(r, c int) capMat {
	m := mat.NewCDense(r, c, nil)
	for i := 0; i < r; i++ {
		for j := 0; j < c; j++ {
			m.Set(i, j, complex(rootVal(i, j), 0))
		}
	}
	return cdenseCap(m)
}

type capStats struct{ valid, invalid int64 }

// guarded runs f; a panic of a valid call is reported under class.
func guarded(t *vlib.T, class, what string, f func()) (ok bool) {
	defer func() {
		if e := recover(); e != nil {
			cl := class
			if _, isRT := e.(runtime.Error); isRT {
				cl = class + "-runtime-error"
			}
			debugLog(cl, "%s: valid call panicked: %v", what, e)
			t.FailClass(cl, "%s: the arguments are within the documented capacity but the call panicked: %v", what, e)
			ok = false
		}
	}()
	f()
	return true
}

// wantMatError runs f and requires a panic with a mat.Error.
func wantMatError(t *vlib.T, what string, f func()) { wantMatErrorKnown(t, what, "", f) }

// wantMatErrorKnown is wantMatError; a "returned normally" / runtime.Error failure of a
// call that is an instance of the triaged defect known is reported under that class.
func wantMatErrorKnown(t *vlib.T, what, known string, f func()) {
	cls := func(generic string) string {
		if known != "" {
			return known
		}
		return generic
	}
	e := run(f)
	switch v := e.(type) {
	case nil:
		debugLog(cls("mat-invalid-accepted"), "%s: returned normally", what)
		t.FailClass(cls("mat-invalid-accepted"), "%s: beyond the capacity / negative / empty, but returned normally; want a mat.Error", what)
	case mat.Error:
	case runtime.Error:
		debugLog(cls("mat-runtime-error-for-invalid"), "%s: %v", what, v)
		t.FailClass(cls("mat-runtime-error-for-invalid"), "%s: panicked with runtime.Error %q, want a mat.Error", what, v.Error())
	default:
		if s, ok := e.(string); !ok || len(s) < 5 || s[:5] != "mat: " {
			t.FailClass("mat-foreign-panic", "%s: panicked with %v, want a mat.Error", what, e)
		}
	}
}

// genMatCapGeneral checks Dense or CDense.
func genMatCapGeneral(g *vlib.G, typ string, mkRoot func(r, c int) capMat) {
	type rootSpec struct{ R, C, oi, oj, pr, pc int }
	roots := []rootSpec{{4, 4, 0, 0, 4, 4}, {3, 5, 0, 0, 3, 5}, {6, 5, 1, 1, 4, 3}}
	if g.Thorough() {
		roots = append(roots, rootSpec{5, 3, 0, 0, 5, 3}, rootSpec{6, 6, 2, 1, 3, 4})
	}
	for _, rs := range roots {
		rs := rs
		g.Case(fmt.Sprintf("%s root %dx%d parent [%d:%d,%d:%d]", typ, rs.R, rs.C, rs.oi, rs.oi+rs.pr, rs.oj, rs.oj+rs.pc), func(t *vlib.T) {
			var st capStats
			// parent returns a fresh root and the parent view of it.
			parent := func() (root, p capMat) {
				root = mkRoot(rs.R, rs.C)
				if rs.oi == 0 && rs.oj == 0 && rs.pr == rs.R && rs.pc == rs.C {
					return root, root
				}
				return root, root.slice(rs.oi, rs.oi+rs.pr, rs.oj, rs.oj+rs.pc)
			}
			// rootUnchangedExcept verifies every root element outside the rectangle.
			rootCheck := func(what string, root capMat, ai, aj, nr, nc int, sentinel float64) {
				for i := 0; i < rs.R; i++ {
					for j := 0; j < rs.C; j++ {
						in := i >= ai && i < ai+nr && j >= aj && j < aj+nc
						got := root.at(i, j)
						if in && got != sentinel {
							t.FailClass("mat-view-capacity", "%s: writing element (%d,%d) of the result did not reach root element (%d,%d) (= %v)", what, i-ai, j-aj, i, j, got)
							return
						}
						if !in && got != rootVal(i, j) {
							debugLog("mat-view-capacity", "%s: root (%d,%d) overwritten", what, i, j)
							t.FailClass("mat-view-capacity", "%s: root element (%d,%d), which lies outside the region of the result, was overwritten: %v -> %v", what, i, j, rootVal(i, j), got)
							return
						}
					}
				}
			}
			for i := 0; i < rs.pr; i++ {
				for k := i + 1; k <= rs.pr; k++ {
					for j := 0; j < rs.pc; j++ {
						for l := j + 1; l <= rs.pc; l++ {
							ai, aj, r, c := rs.oi+i, rs.oj+j, k-i, l-j
							capR, capC := rs.R-ai, rs.C-aj
							vname := fmt.Sprintf("%s(root %dx%d)[%d:%d,%d:%d] (dims %dx%d, caps %dx%d)", typ, rs.R, rs.C, ai, ai+r, aj, aj+c, r, c, capR, capC)
							// Caps
							{
								_, p := parent()
								v := p.slice(i, k, j, l)
								if cr, cc := v.caps(); cr != capR || cc != capC {
									t.FailClass("mat-view-capacity", "%s: Caps() = %d,%d, want %d,%d", vname, cr, cc, capR, capC)
								}
							}
							// Grow
							for dr := -1; dr <= capR-r+1; dr++ {
								for dc := -1; dc <= capC-c+1; dc++ {
									root, p := parent()
									v := p.slice(i, k, j, l)
									what := fmt.Sprintf("%s.Grow(%d,%d)", vname, dr, dc)
									if dr < 0 || dc < 0 {
										st.invalid++
										wantMatError(t, what, func() { v.grow(dr, dc) })
										continue
									}
									st.valid++
									guarded(t, "mat-view-grow-panics", what, func() {
										gm := v.grow(dr, dc)
										nr, nc := r+dr, c+dc
										if gr, gc := gm.dims(); gr != nr || gc != nc {
											t.FailClass("mat-view-capacity", "%s: result is %dx%d, want %dx%d", what, gr, gc, nr, nc)
											return
										}
										inPlace := nr <= capR && nc <= capC
										for a := 0; a < nr; a++ {
											for b := 0; b < nc; b++ {
												want := 0.0
												if ai+a < rs.R && aj+b < rs.C {
													want = rootVal(ai+a, aj+b) // visible or "not currently visible" element of the capacity region
												}
												got := gm.at(a, b)
												if !inPlace && (a >= r || b >= c) && got == 0 {
													continue // don't-care: a reallocating Grow may or may not carry over the not yet visible elements
												}
												if got != want {
													t.FailClass("mat-view-capacity", "%s: element (%d,%d) of the result = %v, want %v (root element (%d,%d) or 0)", what, a, b, got, want, ai+a, aj+b)
													return
												}
											}
										}
										for a := 0; a < nr; a++ {
											for b := 0; b < nc; b++ {
												gm.set(a, b, -7)
											}
										}
										if inPlace {
											rootCheck(what+" (within the capacity: shares the data)", root, ai, aj, nr, nc, -7)
										} else {
											rootCheck(what+" (beyond the capacity: a new allocation)", root, 0, 0, 0, 0, -7)
										}
									})
								}
							}
							// Slice of the view, beyond its Dims up to its Caps
							for i2 := 0; i2 <= capR; i2++ {
								for k2 := i2; k2 <= capR+1; k2++ {
									for j2 := 0; j2 <= capC; j2++ {
										for l2 := j2; l2 <= capC+1; l2++ {
											if !g.Thorough() && (k2-i2 > 2 && k2 != capR && k2 != capR+1) && (l2-j2 > 2 && l2 != capC && l2 != capC+1) {
												continue // quick: small windows and the windows that touch or pass the capacity
											}
											root, p := parent()
											v := p.slice(i, k, j, l)
											what := fmt.Sprintf("%s.Slice(%d,%d,%d,%d)", vname, i2, k2, j2, l2)
											if i2 >= k2 || j2 >= l2 || k2 > capR || l2 > capC {
												st.invalid++
												known := ""
												if typ == "CDense" && (i2 == k2 || j2 == l2) && i2 < capR && j2 < capC && k2 <= capR && l2 <= capC {
													// triaged defect: CDense.slice tests k < i / l < j (the Dense copy was repaired)
													known = "cdense-slice-empty-range-not-rejected"
												}
												wantMatErrorKnown(t, what, known, func() { v.slice(i2, k2, j2, l2) })
												continue
											}
											st.valid++
											guarded(t, "mat-view-slice-panics", what, func() {
												s := v.slice(i2, k2, j2, l2)
												if sr, sc := s.dims(); sr != k2-i2 || sc != l2-j2 {
													t.FailClass("mat-view-capacity", "%s: result is %dx%d", what, sr, sc)
													return
												}
												if cr, cc := s.caps(); cr != capR-i2 || cc != capC-j2 {
													t.FailClass("mat-view-capacity", "%s: Caps() of the result = %d,%d, want %d,%d", what, cr, cc, capR-i2, capC-j2)
													return
												}
												for a := 0; a < k2-i2; a++ {
													for b := 0; b < l2-j2; b++ {
														if got, want := s.at(a, b), rootVal(ai+i2+a, aj+j2+b); got != want {
															t.FailClass("mat-view-capacity", "%s: element (%d,%d) = %v, want root element (%d,%d) = %v", what, a, b, got, ai+i2+a, aj+j2+b, want)
															return
														}
														s.set(a, b, -7)
													}
												}
												rootCheck(what, root, ai+i2, aj+j2, k2-i2, l2-j2, -7)
											})
										}
									}
								}
							}
						}
					}
				}
			}
			t.Count("mat_valid_calls", st.valid)
			t.Count("mat_invalid_calls", st.invalid)
			t.Outcome(typ + " offset views: Caps/Grow/Slice")
			t.Nontrivial()
		})
	}
}

func genMatCap(g *vlib.G) {
	genMatCapGeneral(g, "Dense", mkRootDense)
	genMatCapGeneral(g, "CDense", mkRootCDense)
	// SymDense: SliceSym with an offset, then GrowSym and SliceSym up to the capacity
	for _, n := range vlib.Pick(g, []int{4, 5}, []int{3, 4, 5, 6}) {
		n := n
		g.Case(fmt.Sprintf("SymDense n=%d", n), func(t *vlib.T) {
			var st capStats
			sval := func(i, j int) float64 {
				if i > j {
					i, j = j, i
				}
				return rootVal(i, j)
			}
			mk := func() *mat.SymDense {
				s := mat.NewSymDense(n, nil)
				for i := 0; i < n; i++ {
					for j := i; j < n; j++ {
						s.SetSym(i, j, rootVal(i, j))
					}
				}
				return s
			}
			check := func(what string, root *mat.SymDense, off, m int) {
				for i := 0; i < n; i++ {
					for j := i; j < n; j++ {
						in := i >= off && j < off+m
						got := root.At(i, j)
						if in && got != -7 {
							t.FailClass("mat-view-capacity", "%s: writing the result did not reach root element (%d,%d)", what, i, j)
							return
						}
						if !in && got != sval(i, j) {
							debugLog("mat-view-capacity", "%s: root (%d,%d) overwritten", what, i, j)
							t.FailClass("mat-view-capacity", "%s: root element (%d,%d) outside the region of the result was overwritten: %v -> %v", what, i, j, sval(i, j), got)
							return
						}
					}
				}
			}
			for i := 0; i < n; i++ {
				for k := i + 1; k <= n; k++ {
					capN := n - i
					m := k - i
					vname := fmt.Sprintf("SymDense(%d)[%d:%d] (n %d, cap %d)", n, i, k, m, capN)
					for dn := -1; dn <= capN-m+1; dn++ {
						root := mk()
						v := root.SliceSym(i, k).(*mat.SymDense)
						what := fmt.Sprintf("%s.GrowSym(%d)", vname, dn)
						if dn < 0 {
							st.invalid++
							wantMatError(t, what, func() { v.GrowSym(dn) })
							continue
						}
						st.valid++
						guarded(t, "mat-view-grow-panics", what, func() {
							gm := v.GrowSym(dn).(*mat.SymDense)
							nn := m + dn
							if gm.SymmetricDim() != nn {
								t.FailClass("mat-view-capacity", "%s: result has order %d, want %d", what, gm.SymmetricDim(), nn)
								return
							}
							for a := 0; a < nn; a++ {
								for b := a; b < nn; b++ {
									want := 0.0
									if i+b < n {
										want = sval(i+a, i+b)
									}
									got := gm.At(a, b)
									if nn > capN && b >= m && got == 0 {
										continue // don't-care, as for Dense.Grow
									}
									if got != want {
										t.FailClass("mat-view-capacity", "%s: element (%d,%d) = %v, want %v", what, a, b, got, want)
										return
									}
								}
							}
							for a := 0; a < nn; a++ {
								for b := a; b < nn; b++ {
									gm.SetSym(a, b, -7)
								}
							}
							if nn <= capN {
								check(what+" (within the capacity)", root, i, nn)
							} else {
								check(what+" (beyond the capacity: a new allocation)", root, 0, 0)
							}
						})
					}
					for i2 := 0; i2 <= capN; i2++ {
						for k2 := i2; k2 <= capN+1; k2++ {
							root := mk()
							v := root.SliceSym(i, k).(*mat.SymDense)
							what := fmt.Sprintf("%s.SliceSym(%d,%d)", vname, i2, k2)
							if i2 >= k2 || k2 > capN {
								st.invalid++
								wantMatError(t, what, func() { v.SliceSym(i2, k2) })
								continue
							}
							st.valid++
							guarded(t, "mat-view-slice-panics", what, func() {
								s := v.SliceSym(i2, k2).(*mat.SymDense)
								for a := 0; a < k2-i2; a++ {
									for b := a; b < k2-i2; b++ {
										if got, want := s.At(a, b), sval(i+i2+a, i+i2+b); got != want {
											t.FailClass("mat-view-capacity", "%s: element (%d,%d) = %v, want %v", what, a, b, got, want)
											return
										}
										s.SetSym(a, b, -7)
									}
								}
								check(what, root, i+i2, k2-i2)
							})
						}
					}
				}
			}
			t.Count("mat_valid_calls", st.valid)
			t.Count("mat_invalid_calls", st.invalid)
			t.Outcome("SymDense offset views: GrowSym/SliceSym")
			t.Nontrivial()
		})
	}
	// TriDense: SliceTri with an offset, then SliceTri up to the capacity
	for _, kind := range []mat.TriKind{mat.Upper, mat.Lower} {
		kind := kind
		g.Case(fmt.Sprintf("TriDense upper=%v n=4", bool(kind)), func(t *vlib.T) {
			const n = 4
			var st capStats
			inTri := func(i, j int) bool { return (kind == mat.Upper && i <= j) || (kind == mat.Lower && j <= i) }
			mk := func() *mat.TriDense {
				tr := mat.NewTriDense(n, kind, nil)
				for i := 0; i < n; i++ {
					for j := 0; j < n; j++ {
						if inTri(i, j) {
							tr.SetTri(i, j, rootVal(i, j))
						}
					}
				}
				return tr
			}
			for i := 0; i < n; i++ {
				for k := i + 1; k <= n; k++ {
					capN := n - i
					for i2 := 0; i2 <= capN; i2++ {
						for k2 := i2; k2 <= capN+1; k2++ {
							root := mk()
							v := root.SliceTri(i, k).(*mat.TriDense)
							what := fmt.Sprintf("TriDense(%d)[%d:%d].SliceTri(%d,%d)", n, i, k, i2, k2)
							if i2 >= k2 || k2 > capN {
								st.invalid++
								wantMatError(t, what, func() { v.SliceTri(i2, k2) })
								continue
							}
							st.valid++
							guarded(t, "mat-view-slice-panics", what, func() {
								s := v.SliceTri(i2, k2).(*mat.TriDense)
								off, m := i+i2, k2-i2
								for a := 0; a < m; a++ {
									for b := 0; b < m; b++ {
										want := 0.0
										if inTri(a, b) {
											want = rootVal(off+a, off+b)
										}
										if got := s.At(a, b); got != want {
											t.FailClass("mat-view-capacity", "%s: element (%d,%d) = %v, want %v", what, a, b, got, want)
											return
										}
										if inTri(a, b) {
											s.SetTri(a, b, -7)
										}
									}
								}
								for a := 0; a < n; a++ {
									for b := 0; b < n; b++ {
										if !inTri(a, b) {
											continue
										}
										in := a >= off && a < off+m && b >= off && b < off+m
										got := root.At(a, b)
										if (in && got != -7) || (!in && got != rootVal(a, b)) {
											t.FailClass("mat-view-capacity", "%s: root element (%d,%d) = %v after writing the result (inside the result: %v)", what, a, b, got, in)
											return
										}
									}
								}
							})
						}
					}
				}
			}
			t.Count("mat_valid_calls", st.valid)
			t.Count("mat_invalid_calls", st.invalid)
			t.Outcome("TriDense offset views: SliceTri")
			t.Nontrivial()
		})
	}
	// VecDense: SliceVec with an offset, then Cap and SliceVec up to the capacity (unit and non-unit increment)
	for _, inc := range []int{1, 2, 3} {
		inc := inc
		g.Case(fmt.Sprintf("VecDense inc=%d n=5", inc), func(t *vlib.T) {
			const n = 5
			var st capStats
			mk := func() (*mat.Dense, *mat.VecDense) {
				d := mat.NewDense(n, inc, nil)
				for i := 0; i < n; i++ {
					for j := 0; j < inc; j++ {
						d.Set(i, j, rootVal(i, j))
					}
				}
				return d, d.ColView(0).(*mat.VecDense) // increment inc; for inc == 1 a contiguous vector
			}
			for i := 0; i < n; i++ {
				for k := i + 1; k <= n; k++ {
					capN := n - i
					{
						_, p := mk()
						if got := p.SliceVec(i, k).(*mat.VecDense).Cap(); got != capN {
							t.FailClass("mat-view-capacity", "VecDense(inc %d, n %d)[%d:%d].Cap() = %d, want %d", inc, n, i, k, got, capN)
						}
					}
					for i2 := 0; i2 <= capN; i2++ {
						for k2 := i2; k2 <= capN+1; k2++ {
							root, p := mk()
							v := p.SliceVec(i, k).(*mat.VecDense)
							what := fmt.Sprintf("VecDense(inc %d, n %d)[%d:%d].SliceVec(%d,%d)", inc, n, i, k, i2, k2)
							if i2 >= k2 || k2 > capN {
								st.invalid++
								wantMatError(t, what, func() { v.SliceVec(i2, k2) })
								continue
							}
							st.valid++
							guarded(t, "mat-view-slice-panics", what, func() {
								s := v.SliceVec(i2, k2).(*mat.VecDense)
								for a := 0; a < k2-i2; a++ {
									if got, want := s.AtVec(a), rootVal(i+i2+a, 0); got != want {
										t.FailClass("mat-view-capacity", "%s: element %d = %v, want %v", what, a, got, want)
										return
									}
									s.SetVec(a, -7)
								}
								for a := 0; a < n; a++ {
									for b := 0; b < inc; b++ {
										in := b == 0 && a >= i+i2 && a < i+k2
										got := root.At(a, b)
										if (in && got != -7) || (!in && got != rootVal(a, b)) {
											t.FailClass("mat-view-capacity", "%s: root element (%d,%d) = %v after writing the result (inside the result: %v)", what, a, b, got, in)
											return
										}
									}
								}
							})
						}
					}
				}
			}
			t.Count("mat_valid_calls", st.valid)
			t.Count("mat_invalid_calls", st.invalid)
			t.Outcome("VecDense offset views: SliceVec/Cap")
			t.Nontrivial()
		})
	}
}
