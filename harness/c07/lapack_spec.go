// lapack_spec.go — the contract rows of the LAPACK routines covered by C07,
// transcribed from the doc comments of lapack/gonum (and the LAPACK
// conventions the package documents: dimensions >= 0, leading dimension >=
// max(1, columns), len(work) >= max(1,lwork), lwork >= minimum or -1).
package main

import (
	"gonum.org/v1/gonum/blas"
	"gonum.org/v1/gonum/lapack"
)

const (
	msgBadLenIpiv = "lapack: bad length of ipiv"
	msgBadLenTau  = "lapack: bad length of tau"
	msgBadLenJpvt = "lapack: bad length of jpvt"
	msgBadLenPiv  = "lapack: bad length of piv"
	msgBadLenK    = "lapack: bad length of k"
	msgShortIWork = "lapack: insufficient length of iwork"
	msgBadLdA     = "lapack: bad leading dimension of A"
)

func fUplo() []larg { return lflag("uplo", blas.Upper, "lapack: bad Uplo", 'U', 'L') }
func fTrans3() []larg {
	return lflag("trans", blas.NoTrans, "lapack: bad Trans", 'N', 'T', 'C')
}
func fTrans2() []larg { return lflag("trans", blas.NoTrans, "lapack: bad Trans", 'N', 'T') }
func fSide() []larg   { return lflag("side", blas.Left, "lapack: bad Side", 'L', 'R') }
func fDiag() []larg   { return lflag("diag", blas.Unit, "lapack: bad Diag", 'N', 'U') }
func fNorm4() []larg {
	return lflag("norm", lapack.MaxAbs, "lapack: bad Norm", byte(lapack.MaxAbs), byte(lapack.MaxColumnSum), byte(lapack.MaxRowSum), byte(lapack.Frobenius))
}
func fNorm2() []larg {
	return lflag("norm", lapack.MaxAbs, "lapack: bad Norm", byte(lapack.MaxColumnSum), byte(lapack.MaxRowSum))
}
func fDirect() []larg {
	return lflag("direct", lapack.Forward, "lapack: bad Direct", byte(lapack.Forward), byte(lapack.Backward))
}
func fStoreV() []larg {
	return lflag("store", lapack.ColumnWise, "lapack: bad StoreV", byte(lapack.ColumnWise), byte(lapack.RowWise))
}

func isFlag(name string, vals ...byte) func(e *lenv) bool {
	return func(e *lenv) bool {
		for _, b := range vals {
			if e.g(name) == int(b) {
				return true
			}
		}
		return false
	}
}

// lapackRows builds the table.
func lapackRows() []*lroutine {
	m, n, k, nrhs, kd := v("m"), v("n"), v("k"), v("nrhs"), v("kd")
	mn := minOf(m, n)
	left := func(a, b efn) efn { return ifEq("side", 'L', a, b) }
	nq, nw := left(m, n), left(n, m)
	kLeNq := func(e *lenv) bool { return e.g("k") <= nq(e) }
	var rs []*lroutine
	add := func(r *lroutine) { rs = append(rs, r) }

	// ---- LU ----
	add(row("Dgetrf", ldim("m", "n"), lmat("a", m, n), ivecEq("ipiv", mn, msgBadLenIpiv)))
	add(row("Dgetf2", ldim("m", "n"), lmat("a", m, n), ivecEq("ipiv", mn, msgBadLenIpiv)))
	add(row("Dgetrs", fTrans3(), ldim("n", "nrhs"), lmat("a", n, n), ivecEq("ipiv", n, msgBadLenIpiv), lmat("b", n, nrhs)))
	add(row("Dgetri", ldim("n"), lmat("a", n, n), ivecEq("ipiv", n, msgBadLenIpiv), lwork(n)))
	add(row("Dgesv", ldim("n", "nrhs"), lmat("a", n, n), ivecEq("ipiv", n, msgBadLenIpiv), lmat("b", n, nrhs)))
	add(row("Dgecon", fNorm2(), ldim("n"), lmat("a", n, n), lscalar("anorm", 1), lvec("work", times(4, n)), ivec("iwork", n, msgShortIWork)).also("anorm", 0))

	// ---- Cholesky ----
	for _, name := range []string{"Dpotrf", "Dpotf2", "Dpotri", "Dlauum", "Dlauu2"} {
		add(row(name, fUplo(), ldim("n"), lmat("a", n, n)))
	}
	add(row("Dpotrs", fUplo(), ldim("n", "nrhs"), lmat("a", n, n), lmat("b", n, nrhs)))
	add(row("Dpocon", fUplo(), ldim("n"), lmat("a", n, n), lscalar("anorm", 1), lvec("work", times(3, n)), ivec("iwork", n, msgShortIWork)).also("anorm", 0))
	add(row("Dpbtrf", fUplo(), ldim("n", "kd"), lband("ab", n, plus(kd, 1), msgBadLdA)))
	add(row("Dpbtf2", fUplo(), ldim("n", "kd"), lband("ab", n, plus(kd, 1), msgBadLdA)))
	add(row("Dpbtrs", fUplo(), ldim("n", "kd", "nrhs"), lband("ab", n, plus(kd, 1), msgBadLdA), lmat("b", n, nrhs)))
	add(row("Dpbcon", fUplo(), ldim("n", "kd"), lband("ab", n, plus(kd, 1), msgBadLdA), lscalar("anorm", 1), lvec("work", times(3, n)), ivec("iwork", n, msgShortIWork)).also("anorm", 0))
	for _, name := range []string{"Dpstrf", "Dpstf2"} {
		add(row(name, fUplo(), ldim("n"), lmat("a", n, n), ivecEq("piv", n, msgBadLenPiv), lscalar("tol", -1), lvec("work", times(2, n))))
	}

	// ---- QR, LQ, RQ, QL ----
	add(row("Dgeqrf", ldim("m", "n"), lmat("a", m, n), lvecEq("tau", mn, msgBadLenTau), lwork(n)))
	add(row("Dgeqr2", ldim("m", "n"), lmat("a", m, n), lvecEq("tau", mn, msgBadLenTau), lvec("work", n)))
	add(row("Dgelqf", ldim("m", "n"), lmat("a", m, n), lvec("tau", mn), lwork(m)))
	add(row("Dgelq2", ldim("m", "n"), lmat("a", m, n), lvec("tau", mn), lvec("work", m)))
	add(row("Dgerqf", ldim("m", "n"), lmat("a", m, n), lvecEq("tau", mn, msgBadLenTau), lwork(m)))
	add(row("Dgerq2", ldim("m", "n"), lmat("a", m, n), lvec("tau", mn), lvec("work", m)))
	add(row("Dgeql2", ldim("m", "n"), lmat("a", m, n), lvec("tau", mn), lvec("work", n)))
	add(row("Dgeqp3", ldim("m", "n"), lmat("a", m, n), ivecEq("jpvt", n, msgBadLenJpvt), lvec("tau", mn),
		lwork(func(e *lenv) int {
			if mn(e) == 0 {
				return 1
			}
			return 3*e.g("n") + 1
		})).mod("jpvt", func(a *larg) {
		// jpvt[j] >= 0 marks a fixed (leading) column, -1 a free one: all fixed, all free,
		// the first two fixed, every second one fixed.
		a.inits = []func(e *lenv, i int) int{
			func(_ *lenv, i int) int { return i },
			func(*lenv, int) int { return -1 },
			func(_ *lenv, i int) int {
				if i < 2 {
					return i
				}
				return -1
			},
			func(_ *lenv, i int) int {
				if i%2 == 1 {
					return i
				}
				return -1
			},
		}
	}))

	// ---- generate / apply Q ----
	kn := func(e *lenv) bool { return e.g("k") <= e.g("n") && e.g("n") <= e.g("m") } // 0 <= k <= n <= m
	km := func(e *lenv) bool { return e.g("k") <= e.g("m") && e.g("m") <= e.g("n") } // 0 <= k <= m <= n
	add(row("Dorgqr", ldim("m", "n", "k"), lmat("a", m, n), lvecEq("tau", k, msgBadLenTau), lwork(n)).where(kn).
		mod("lda", func(a *larg) { a.skipQuery = true }))
	add(row("Dorg2r", ldim("m", "n", "k"), lmat("a", m, n), lvecEq("tau", k, msgBadLenTau), lvec("work", n)).where(kn))
	add(row("Dorglq", ldim("m", "n", "k"), lmat("a", m, n), lvec("tau", k), lwork(m)).where(km).altMsg("n", "lapack: n < m"))
	add(row("Dorgl2", ldim("m", "n", "k"), lmat("a", m, n), lvec("tau", k), lvec("work", m)).where(km).altMsg("n", "lapack: n < m"))
	add(row("Dorgql", ldim("m", "n", "k"), lmat("a", m, n), lvec("tau", k), lwork(n)).where(kn))
	add(row("Dorg2l", ldim("m", "n", "k"), lmat("a", m, n), lvec("tau", k), lvec("work", n)).where(kn))
	add(row("Dorgr2", ldim("m", "n", "k"), lmat("a", m, n), lvecEq("tau", k, msgBadLenTau), lvec("work", m)).where(km).
		altMsg("m", "lapack: k > m").altMsg("n", "lapack: m > n"))
	add(row("Dormqr", fSide(), fTrans2(), ldim("m", "n", "k"), lmat("a", nq, k), lvecEq("tau", k, msgBadLenTau), lmat("c", m, n), lwork(nw)).where(kLeNq))
	add(row("Dorm2r", fSide(), fTrans2(), ldim("m", "n", "k"), lmat("a", nq, k), lvecEq("tau", k, msgBadLenTau), lmat("c", m, n), lvec("work", nw)).where(kLeNq))
	add(row("Dormlq", fSide(), fTrans2(), ldim("m", "n", "k"), lmat("a", k, nq), lvec("tau", k), lmat("c", m, n), lwork(nw)).where(kLeNq))
	add(row("Dorml2", fSide(), fTrans2(), ldim("m", "n", "k"), lmat("a", k, nq), lvec("tau", k), lmat("c", m, n), lvec("work", nw)).where(kLeNq))
	add(row("Dormr2", fSide(), fTrans2(), ldim("m", "n", "k"), lmat("a", k, nq), lvec("tau", k), lmat("c", m, n), lvec("work", nw)).where(kLeNq))

	// ---- elementary reflectors ----
	add(row("Dlarf", fSide(), ldim("m", "n"), lvec("v", func(e *lenv) int { return 1 + (left(m, n)(e)-1)*e.g("incv") }),
		intv("incv", cst(2)), lscalar("tau", 0.5), lmat("c", m, n), lvec("work", left(n, m))).
		mod("incv", func(a *larg) {
			a.extra = func(*lenv) []lextra { return []lextra{{val: 0, msg: "lapack: incv == 0"}} }
		}).also("tau", 0))
	add(row("Dlarfx", fSide(), ldim("m", "n"), lvec("v", left(m, n)), lscalar("tau", 0.5), lmat("c", m, n), lvec("work", left(n, m))).
		mod("work", func(a *larg) { a.onlyIf = func(e *lenv) bool { return left(m, n)(e) > 10 } }). // the special-cased orders 1..10 need no workspace
		also("tau", 0))
	add(row("Dlarft", fDirect(), fStoreV(), ldim("n", "k"),
		lmat("v", ifEq("store", byte(lapack.ColumnWise), n, k), ifEq("store", byte(lapack.ColumnWise), k, n)),
		lvec("tau", k), lmat("t", k, k)).
		mod("k", func(a *larg) { a.menu = []int{1, 2, 3}; a.msg = "lapack: k < 1" }).
		where(func(e *lenv) bool { return e.g("k") <= e.g("n") || e.g("n") == 0 })) // a block of k reflectors of order n
	add(row("Dlarfb", fSide(), fTrans2(), fDirect(), fStoreV(), ldim("m", "n", "k"),
		lmat("v", ifEq("store", byte(lapack.ColumnWise), nq, k), ifEq("store", byte(lapack.ColumnWise), k, nq)),
		lmat("t", k, k), lmat("c", m, n), lmat("work", nw, k)).
		mod("ldwork", func(a *larg) { a.msg = "lapack: bad leading dimension of Work" }).menu(0, 1, 3).where(kLeNq))

	// ---- least squares, triangular ----
	add(row("Dgels", fTrans3(), ldim("m", "n", "nrhs"), lmat("a", m, n), lmat("b", maxOf(m, n), nrhs),
		lwork(func(e *lenv) int { return mn(e) + imax(mn(e), e.g("nrhs")) })).menu(0, 1, 3))
	add(row("Dtrtri", fUplo(), fDiag(), ldim("n"), lmat("a", n, n)))
	add(row("Dtrti2", fUplo(), fDiag(), ldim("n"), lmat("a", n, n)))
	add(row("Dtrtrs", fUplo(), fTrans3(), fDiag(), ldim("n", "nrhs"), lmat("a", n, n), lmat("b", n, nrhs)))
	add(row("Dtrcon", fNorm2(), fUplo(), fDiag(), ldim("n"), lmat("a", n, n), lvec("work", times(3, n)), ivec("iwork", n, msgShortIWork)))
	add(row("Dtbtrs", fUplo(), fTrans3(), fDiag(), ldim("n", "kd", "nrhs"), lband("a", n, plus(kd, 1), msgBadLdA), lmat("b", n, nrhs)))
	add(row("Dlatrs", fUplo(), fTrans3(), fDiag(), boolv("normin", false), ldim("n"), lmat("a", n, n), lvec("x", n), lvec("cnorm", n)))

	// ---- tridiagonal ----
	n1 := plus(n, -1)
	add(row("Dgtsv", ldim("n", "nrhs"), lvec("dl", n1), lvec("d", n), lvec("du", n1), lmat("b", n, nrhs)))
	add(row("Dptsv", ldim("n", "nrhs"), lvec("d", n), lvec("e", n1), lmat("b", n, nrhs)))
	add(row("Dpttrf", ldim("n"), lvec("d", n), lvec("e", n1)))
	add(row("Dpttrs", ldim("n", "nrhs"), lvec("d", n), lvec("e", n1), lmat("b", n, nrhs)))
	add(row("Dptcon", ldim("n"), lvec("d", n), lvec("e", n1), lscalar("anorm", 1), lvec("work", n)).also("anorm", 0))
	add(row("Dsterf", ldim("n"), lvec("d", n), lvec("e", n1)))

	// ---- permutations ----
	add(row("Dlaswp", ldim("n"), lmat("a", plus(v("k2"), 1), n), intv("k1", cst(0)), ldim("k2"), ivecEq("ipiv", plus(v("k2"), 1), msgBadLenIpiv), intv("incX", cst(1))).
		mod("k2", func(a *larg) { a.noNeg = true; a.menu = []int{1, 2, 4} }).
		mod("incX", func(a *larg) {
			a.extra = func(*lenv) []lextra {
				return []lextra{{val: 0, msg: "lapack: increment not one or negative one"}, {val: 2, msg: "lapack: increment not one or negative one"}}
			}
		}))
	add(row("Dlapmt", boolv("forward", true), ldim("m", "n"), lmat("x", m, n), ivecEq("k", n, msgBadLenK)))
	add(row("Dlapmr", boolv("forward", true), ldim("m", "n"), lmat("x", m, n), ivecEq("k", m, msgBadLenK)))

	// ---- norms ----
	colSum := isFlag("norm", byte(lapack.MaxColumnSum))
	colRowSum := isFlag("norm", byte(lapack.MaxColumnSum), byte(lapack.MaxRowSum))
	add(row("Dlange", fNorm4(), ldim("m", "n"), lmat("a", m, n), usedIf(lvec("work", n), colSum)))
	add(row("Dlansy", fNorm4(), fUplo(), ldim("n"), lmat("a", n, n), usedIf(lvec("work", n), colRowSum)))
	add(row("Dlantr", fNorm4(), fUplo(), fDiag(), ldim("m", "n"), lmat("a", m, n), usedIf(lvec("work", n), colSum)))
	add(row("Dlanhs", fNorm4(), ldim("n"), lmat("a", n, n), usedIf(lvec("work", n), colSum)))
	add(row("Dlangb", fNorm4(), ldim("m", "n", "kl", "ku"),
		lband("ab", minOf(m, func(e *lenv) int { return e.g("n") + e.g("kl") }), func(e *lenv) int { return e.g("kl") + e.g("ku") + 1 }, msgBadLdA)).
		mod("ab", func(a *larg) { // gonum demands whole rows: min(m, n+kl)*ldab
			a.length = func(e *lenv) int { return imin(e.g("m"), e.g("n")+e.g("kl")) * e.g("ldab") }
		}).menu(0, 1, 3))
	add(row("Dlansb", fNorm4(), fUplo(), ldim("n", "kd"), lband("ab", n, plus(kd, 1), msgBadLdA), usedIf(lvec("work", n), colRowSum)))
	add(row("Dlantb", fNorm4(), fUplo(), fDiag(), ldim("n", "k"), lband("a", n, plus(k, 1), msgBadLdA), usedIf(lvec("work", n), colSum)))
	add(row("Dlangt", fNorm4(), ldim("n"), lvec("dl", n1), lvec("d", n), lvec("du", n1)))
	add(row("Dlanst", fNorm4(), ldim("n"), lvec("d", n), lvec("e", n1)))

	// ---- symmetric eigenproblem (C03) ----
	add(row("Dsyev", lflag("jobz", lapack.EVNone, "lapack: bad EVJob", byte(lapack.EVNone), byte(lapack.EVCompute)), fUplo(), ldim("n"),
		lmat("a", n, n), lvec("w", n), lwork(plus(times(3, n), -1))))
	add(row("Dsytrd", fUplo(), ldim("n"), lmat("a", n, n), lvec("d", n), lvec("e", n1), lvec("tau", n1), lwork(cst(1))))
	add(row("Dorgtr", fUplo(), ldim("n"), lmat("a", n, n), lvec("tau", n1), lwork(n1)))
	compz := isFlag("compz", byte(lapack.EVTridiag), byte(lapack.EVOrig))
	add(row("Dsteqr", lflag("compz", lapack.EVCompNone, "lapack: bad EVComp", byte(lapack.EVCompNone), byte(lapack.EVTridiag), byte(lapack.EVOrig)), ldim("n"),
		lvec("d", n), lvec("e", n1), usedIf(lmat("z", n, n), compz),
		usedIf(lvec("work", func(e *lenv) int { return imax(1, 2*e.g("n")-2) }), compz)).
		mod("ldz", func(a *larg) {
			a.min = func(e *lenv) int {
				if compz(e) {
					return imax(1, e.g("n"))
				}
				return 1
			}
		}))

	// ---- bidiagonal / Hessenberg reductions (C03) ----
	add(row("Dgebrd", ldim("m", "n"), lmat("a", m, n), lvec("d", mn), lvec("e", plus(mn, -1)), lvec("tauQ", mn), lvec("tauP", mn), lwork(maxOf(m, n))))
	add(row("Dgebd2", ldim("m", "n"), lmat("a", m, n), lvec("d", mn), lvec("e", plus(mn, -1)), lvec("tauQ", mn), lvec("tauP", mn), lvec("work", maxOf(m, n))))
	ihi := func(f efn) efn { return func(e *lenv) int { return f(e) - 1 } }
	add(row("Dgehrd", ldim("n"), intv("ilo", subLo(n)), intv("ihi", subHi(n)), lmat("a", n, n), lvecEq("tau", n1, msgBadLenTau), lwork(n)))
	add(row("Dgehd2", ldim("n"), intv("ilo", subLo(n)), intv("ihi", subHi(n)), lmat("a", n, n), lvecEq("tau", n1, msgBadLenTau), lvec("work", n)))
	add(row("Dorghr", ldim("n"), intv("ilo", subLo(n)), intv("ihi", subHi(n)), lmat("a", n, n), lvec("tau", n1), lwork(func(e *lenv) int { return e.g("ihi") - e.g("ilo") })).
		altMsg("n", "lapack: ihi out of range", "lapack: ilo out of range"))
	add(row("Dormhr", fSide(), fTrans2(), ldim("m", "n"), intv("ilo", subLo(nq)), intv("ihi", subHi(nq)), lmat("a", nq, nq), lvecEq("tau", plus(nq, -1), msgBadLenTau),
		lmat("c", m, n), lwork(nw)).
		emptyIf(func(e *lenv) bool { return e.g("m") == 0 || e.g("n") == 0 || nq(e) == 1 }).
		altMsg("m", "lapack: ihi out of range", "lapack: ilo out of range").altMsg("n", "lapack: ihi out of range", "lapack: ilo out of range"))
	jobNotNone := func(e *lenv) bool { return e.g("job") != int(lapack.BalanceNone) }
	fJob := func() []larg {
		return lflag("job", lapack.BalanceNone, "lapack: bad BalanceJob", byte(lapack.BalanceNone), byte(lapack.Permute), byte(lapack.Scale), byte(lapack.PermuteScale))
	}
	add(row("Dgebal", fJob(), ldim("n"), lmat("a", n, n), lvecEq("scale", n, "lapack: insufficient length of scale")).
		mod("a", func(a *larg) { a.onlyIf = jobNotNone }))
	add(row("Dgebak", fJob(), lflag("side", lapack.EVLeft, "lapack: bad EVSide", byte(lapack.EVLeft), byte(lapack.EVRight)), ldim("n"),
		intv("ilo", subLo(n)), intv("ihi", subHi(n)), lvec("scale", n), ldim("m"), lmat("v", n, m)).
		mod("scale", func(a *larg) {
			a.fill = func(e *lenv, s []float64) {
				for i := range s {
					s[i] = float64(i) // a valid permutation record: row i was swapped with itself
				}
			}
		}).altMsg("n", "lapack: ihi out of range", "lapack: ilo out of range"))
	wantv := func(name string, c byte) func(e *lenv) bool { return isFlag(name, c) }
	ldv := func(name string, c byte) func(a *larg) {
		return func(a *larg) {
			a.min = func(e *lenv) int {
				if e.g(name) == int(c) {
					return imax(1, e.g("n"))
				}
				return 1
			}
		}
	}
	add(row("Dgeev",
		lflag("jobvl", lapack.LeftEVNone, "lapack: bad LeftEVJob", byte(lapack.LeftEVNone), byte(lapack.LeftEVCompute)),
		lflag("jobvr", lapack.RightEVNone, "lapack: bad RightEVJob", byte(lapack.RightEVNone), byte(lapack.RightEVCompute)),
		ldim("n"), lmat("a", n, n), lvecEq("wr", n, "lapack: bad length of wr"), lvecEq("wi", n, "lapack: bad length of wi"),
		usedIf(lmat("vl", n, n), wantv("jobvl", byte(lapack.LeftEVCompute))), usedIf(lmat("vr", n, n), wantv("jobvr", byte(lapack.RightEVCompute))),
		lwork(func(e *lenv) int {
			if e.g("jobvl") == int(lapack.LeftEVCompute) || e.g("jobvr") == int(lapack.RightEVCompute) {
				return 4 * e.g("n")
			}
			return 3 * e.g("n")
		})).
		mod("ldvl", ldv("jobvl", byte(lapack.LeftEVCompute))).mod("ldvr", ldv("jobvr", byte(lapack.RightEVCompute))).menu(0, 1, 2, 3).
		// don't-care: the nested workspace query of Dtrevc3 examines a (its argument t) before Dgeev does.
		altMsg("a", "lapack: insufficient length of t"))
	// ---- routines added in the second round: SVD, Schur form, generalized problems ----
	// fillTri writes an upper triangular (sub = false) or upper Hessenberg matrix with a distinct, well separated diagonal.
	fillTri := func(rows, cols efn, ldname string, sub bool) func(e *lenv, s []float64) {
		return func(e *lenv, s []float64) {
			r, c, ld := rows(e), cols(e), e.g(ldname)
			for i := range s {
				s[i] = 0.5
			}
			for i := 0; i < r; i++ {
				for j := 0; j < c; j++ {
					x := 0.0
					switch {
					case i == j:
						x = float64(2 + 3*i)
					case i < j:
						x = 0.25 * float64((i+j)%3+1)
					case sub && i == j+1:
						x = 0.125
					}
					if p := i*ld + j; p < len(s) {
						s[p] = x
					}
				}
			}
		}
	}
	setFill := func(f func(e *lenv, s []float64)) func(a *larg) { return func(a *larg) { a.fill = f } }
	nonZero := func(name string) func(e *lenv) bool { return func(e *lenv) bool { return e.g(name) != 0 } }
	ldIf := func(cond func(e *lenv) bool, f efn) func(a *larg) {
		return func(a *larg) {
			a.min = func(e *lenv) int {
				if cond(e) {
					return imax(1, f(e))
				}
				return 1
			}
		}
	}
	fSVD := func(name string) []larg {
		return lflag(name, lapack.SVDAll, "lapack: bad SVDJob", byte(lapack.SVDAll), byte(lapack.SVDStore), byte(lapack.SVDNone))
	}
	uAll, uStore := isFlag("jobU", byte(lapack.SVDAll)), isFlag("jobU", byte(lapack.SVDStore))
	vAll, vStore := isFlag("jobVT", byte(lapack.SVDAll)), isFlag("jobVT", byte(lapack.SVDStore))
	add(row("Dgesvd", fSVD("jobU"), fSVD("jobVT"), ldim("m", "n"), lmat("a", m, n), lvec("s", mn),
		usedIf(lmat("u", m, func(e *lenv) int {
			if uAll(e) {
				return e.g("m")
			}
			return mn(e)
		}), func(e *lenv) bool { return uAll(e) || uStore(e) }),
		usedIf(lmat("vt", func(e *lenv) int {
			if vAll(e) {
				return e.g("n")
			}
			return mn(e)
		}, n), func(e *lenv) bool { return vAll(e) || vStore(e) }),
		lwork(func(e *lenv) int {
			if mn(e) == 0 {
				return 1
			}
			return imax(3*mn(e)+imax(e.g("m"), e.g("n")), 5*mn(e))
		})).
		mod("ldu", func(a *larg) {
			a.min = func(e *lenv) int {
				switch {
				case uAll(e):
					return imax(1, e.g("m"))
				case uStore(e):
					return imax(1, mn(e))
				}
				return 1
			}
		}).
		mod("ldvt", ldIf(func(e *lenv) bool { return vAll(e) || vStore(e) }, n)).menu(0, 1, 2, 4))
	add(row("Dbdsqr", fUplo(), ldim("n", "ncvt", "nru", "ncc"), lvec("d", n), lvec("e", n1),
		usedIf(lmat("vt", n, v("ncvt")), nonZero("ncvt")), usedIf(lmat("u", v("nru"), n), nonZero("nru")), usedIf(lmat("c", n, v("ncc")), nonZero("ncc")),
		lvec("work", times(4, n1))).
		mod("ldu", ldIf(nonZero("nru"), n)).
		emptyIf(func(e *lenv) bool { return e.g("n") == 0 }).menu(0, 1, 3))
	applyQ := isFlag("vect", byte(lapack.ApplyQ))
	nqk := minOf(nq, k)
	add(row("Dormbr", lflag("vect", lapack.ApplyQ, "lapack: bad ApplyOrtho", byte(lapack.ApplyQ), byte(lapack.ApplyP)), fSide(), fTrans2(), ldim("m", "n", "k"),
		lmat("a", func(e *lenv) int {
			if applyQ(e) {
				return nq(e)
			}
			return nqk(e)
		}, func(e *lenv) int {
			if applyQ(e) {
				return nqk(e)
			}
			return nq(e)
		}), lvec("tau", nqk), lmat("c", m, n), lwork(nw)).menu(0, 1, 3))
	wantQ := isFlag("vect", byte(lapack.GenerateQ))
	add(row("Dorgbr", lflag("vect", lapack.GenerateQ, "lapack: bad GenOrtho", byte(lapack.GenerateQ), byte(lapack.GeneratePT)), ldim("m", "n", "k"),
		lmat("a", m, n), lvec("tau", func(e *lenv) int {
			if wantQ(e) {
				return imin(e.g("m"), e.g("k"))
			}
			return imin(e.g("n"), e.g("k"))
		}), lwork(mn)).
		where(func(e *lenv) bool {
			mm, nn, kk := e.g("m"), e.g("n"), e.g("k")
			if wantQ(e) {
				return mm >= nn && nn >= imin(mm, kk)
			}
			return nn >= mm && mm >= imin(nn, kk)
		}).mod("lda", func(a *larg) { a.skipQuery = true }))
	wantz := isFlag("compz", byte(lapack.SchurHess), byte(lapack.SchurOrig))
	add(row("Dhseqr", lflag("job", lapack.EigenvaluesOnly, "lapack: bad SchurJob", byte(lapack.EigenvaluesOnly), byte(lapack.EigenvaluesAndSchur)),
		lflag("compz", lapack.SchurNone, "lapack: bad SchurComp", byte(lapack.SchurNone), byte(lapack.SchurHess), byte(lapack.SchurOrig)),
		ldim("n"), intv("ilo", cst(0)), intv("ihi", ihi(n)), lmat("h", n, n), lvec("wr", n), lvec("wi", n), usedIf(lmat("z", n, n), wantz), lwork(n)).
		mod("h", setFill(fillTri(n, n, "ldh", true))).mod("ldz", ldIf(wantz, n)))
	leftv, rightv := isFlag("side", byte(lapack.EVLeft), byte(lapack.EVBoth)), isFlag("side", byte(lapack.EVRight), byte(lapack.EVBoth))
	add(row("Dtrevc3", lflag("side", lapack.EVRight, "lapack: bad EVSide", byte(lapack.EVRight), byte(lapack.EVLeft), byte(lapack.EVBoth)),
		lflag("howmny", lapack.EVAll, "lapack: bad EVHowMany", byte(lapack.EVAll), byte(lapack.EVAllMulQ), byte(lapack.EVSelected)),
		usedIf(bvecEq("selected", n, "lapack: bad length of selected"), isFlag("howmny", byte(lapack.EVSelected))),
		ldim("n"), lmat("t", n, n), usedIf(lmat("vl", n, v("mm")), leftv), usedIf(lmat("vr", n, v("mm")), rightv), intv("mm", n), lwork(times(3, n))).
		mod("t", setFill(fillTri(n, n, "ldt", false))).
		mod("ldvl", ldIf(leftv, v("mm"))).mod("ldvl", func(a *larg) { a.skipQuery = true }).
		mod("ldvr", ldIf(rightv, v("mm"))).mod("ldvr", func(a *larg) { a.skipQuery = true }).
		mod("mm", func(a *larg) {
			a.extra = func(e *lenv) []lextra {
				x := []lextra{{val: -1, msg: "lapack: mm < 0"}}
				if e.g("n") > 0 {
					x = append(x, lextra{val: e.g("n") - 1, msg: "lapack: mm out of range", alt: []string{"lapack: mm < 0"}})
				}
				return x
			}
		}).menu(0, 1, 2, 3))
	updQ := isFlag("compq", byte(lapack.UpdateSchur))
	outOfRange := func(name, msg string) func(a *larg) {
		return func(a *larg) {
			a.extra = func(e *lenv) []lextra {
				if e.g("n") == 0 {
					return nil
				}
				return []lextra{{val: -1, msg: msg}, {val: e.g("n"), msg: msg}}
			}
		}
	}
	add(row("Dtrexc", lflag("compq", lapack.UpdateSchur, "lapack: bad UpdateSchurComp", byte(lapack.UpdateSchur), byte(lapack.UpdateSchurNone)), ldim("n"),
		lmat("t", n, n), usedIf(lmat("q", n, n), updQ), intv("ifst", cst(0)), intv("ilst", func(e *lenv) int { return imax(0, e.g("n")-1) }), lvec("work", n)).
		mod("t", setFill(fillTri(n, n, "ldt", false))).mod("ldq", ldIf(updQ, n)).
		mod("ifst", outOfRange("ifst", "lapack: ifst out of range")).mod("ilst", outOfRange("ilst", "lapack: ilst out of range")))
	add(row("Dlatbs", fUplo(), fTrans3(), fDiag(), boolv("normin", false), ldim("n", "kd"), lband("ab", n, plus(kd, 1), msgBadLdA), lvec("x", n), lvec("cnorm", n)))
	fOrtho := func(name string) []larg {
		return lflag(name, lapack.OrthoNone, "lapack: bad OrthoComp", byte(lapack.OrthoNone), byte(lapack.OrthoExplicit), byte(lapack.OrthoPostmul))
	}
	cq, cz := isFlag("compq", byte(lapack.OrthoExplicit), byte(lapack.OrthoPostmul)), isFlag("compz", byte(lapack.OrthoExplicit), byte(lapack.OrthoPostmul))
	add(row("Dgghrd", fOrtho("compq"), fOrtho("compz"), ldim("n"), intv("ilo", subLo(n)), intv("ihi", subHi(n)), lmat("a", n, n), lmat("b", n, n),
		usedIf(lmat("q", n, n), cq), usedIf(lmat("z", n, n), cz)).
		mod("b", setFill(fillTri(n, n, "ldb", false))).mod("ldq", ldIf(cq, n)).mod("ldz", ldIf(cz, n)))
	p := v("p")
	gsvdJob := func(name string, c byte, extra ...byte) []larg {
		return lflag(name, lapack.GSVDNone, "lapack: bad GSVDJob"+string(rune(c)), append([]byte{c, byte(lapack.GSVDNone)}, extra...)...)
	}
	wu, wv, wq := isFlag("jobU", 'U', 'I'), isFlag("jobV", 'V', 'I'), isFlag("jobQ", 'Q', 'I')
	add(row("Dggsvd3", gsvdJob("jobU", 'U'), gsvdJob("jobV", 'V'), gsvdJob("jobQ", 'Q'), ldim("m", "n", "p"), lmat("a", m, n), lmat("b", p, n),
		lvecEq("alpha", n, "lapack: bad length of alpha"), lvecEq("beta", n, "lapack: bad length of beta"),
		usedIf(lmat("u", m, m), wu), usedIf(lmat("v", p, p), wv), usedIf(lmat("q", n, n), wq), lwork(cst(1)), ivec("iwork", n, msgShortIWork)).
		mod("ldu", ldIf(wu, m)).mod("ldv", ldIf(wv, p)).mod("ldq", ldIf(wq, n)).optLworkOnly().menu(0, 1, 3))
	add(row("Dggsvp3", gsvdJob("jobU", 'U'), gsvdJob("jobV", 'V'), gsvdJob("jobQ", 'Q'), ldim("m", "p", "n"), lmat("a", m, n), lmat("b", p, n),
		lscalar("tola", 1e-10), lscalar("tolb", 1e-10),
		usedIf(lmat("u", m, m), wu), usedIf(lmat("v", p, p), wv), usedIf(lmat("q", n, n), wq), ivecEq("iwork", n, msgShortIWork), lvec("tau", n), lwork(cst(1))).
		mod("ldu", ldIf(wu, m)).mod("ldv", ldIf(wv, p)).mod("ldq", ldIf(wq, n)).optLworkOnly().menu(0, 1, 3))
	add(row("Dtgsja", gsvdJob("jobU", 'U', 'I'), gsvdJob("jobV", 'V', 'I'), gsvdJob("jobQ", 'Q', 'I'), ldim("m", "p", "n"), intv("k", cst(0)), intv("l", cst(0)),
		lmat("a", m, n), lmat("b", p, n), lscalar("tola", 1e-10), lscalar("tolb", 1e-10),
		lvecEq("alpha", n, "lapack: bad length of alpha"), lvecEq("beta", n, "lapack: bad length of beta"),
		usedIf(lmat("u", m, m), wu), usedIf(lmat("v", p, p), wv), usedIf(lmat("q", n, n), wq), lvec("work", times(2, n))).
		mod("ldu", ldIf(wu, m)).mod("ldv", ldIf(wv, p)).mod("ldq", ldIf(wq, n)).menu(0, 1, 3))
	for _, r := range rs {
		if subRangeRoutines[r.name] {
			r.variants = 2
		}
	}
	return append(rs, lapackRows3()...)
}
