// blas_wrap.go — the Level 1 wrappers of blas64, blas32, cblas128 and cblas64
// document two panics of their own: "vector length mismatch" when x.N != y.N
// and "negative vector increment" for the one-vector functions. Everything else
// is passed through to the Implementation (checked by the blas-l* groups).
package main

import (
	"fmt"
	"runtime"

	"gonum.org/v1/gonum/blas"
	"gonum.org/v1/gonum/blas/blas32"
	"gonum.org/v1/gonum/blas/blas64"
	"gonum.org/v1/gonum/blas/cblas128"
	"gonum.org/v1/gonum/blas/cblas64"
	"gonum.org/v1/gonum/internal/verif/vlib"
)

type wrapVecs struct {
	// two-vector functions called with lengths nx, ny and one-vector functions called with inc.
	two map[string]func(nx, ny, incx, incy int) (call func(), state func() string)
	one map[string]func(n, inc int) (call func(), state func() string)
}

func wrapTable(pkg string) wrapVecs {
	w := wrapVecs{two: map[string]func(nx, ny, incx, incy int) (func(), func() string){}, one: map[string]func(n, inc int) (func(), func() string){}}
	ln := func(n, inc int) int { return 1 + imax(0, n-1)*iabs(inc) }
	switch pkg {
	case "blas64":
		mk := func(n, inc, salt int) blas64.Vector {
			d := make([]float64, ln(n, inc))
			for i := range d {
				d[i] = float64(1 + (i+salt)%5)
			}
			return blas64.Vector{N: n, Inc: inc, Data: d}
		}
		two := map[string]func(x, y blas64.Vector){
			"Dot": func(x, y blas64.Vector) { blas64.Dot(x, y) }, "Swap": blas64.Swap, "Copy": blas64.Copy,
			"Axpy": func(x, y blas64.Vector) { blas64.Axpy(2, x, y) },
			"Rot":  func(x, y blas64.Vector) { blas64.Rot(x, y, 0.5, 0.5) },
			"Rotm": func(x, y blas64.Vector) {
				blas64.Rotm(x, y, blas.DrotmParams{Flag: blas.Rescaling, H: [4]float64{1, 2, 3, 4}})
			},
		}
		for name, f := range two {
			f := f
			w.two[name] = func(nx, ny, incx, incy int) (func(), func() string) {
				x, y := mk(nx, incx, 0), mk(ny, incy, 2)
				return func() { f(x, y) }, func() string { return fmt.Sprint(x, y) }
			}
		}
		one := map[string]func(x blas64.Vector){
			"Nrm2": func(x blas64.Vector) { blas64.Nrm2(x) }, "Asum": func(x blas64.Vector) { blas64.Asum(x) },
			"Iamax": func(x blas64.Vector) { blas64.Iamax(x) }, "Scal": func(x blas64.Vector) { blas64.Scal(2, x) },
		}
		for name, f := range one {
			f := f
			w.one[name] = func(n, inc int) (func(), func() string) {
				x := mk(n, inc, 0)
				return func() { f(x) }, func() string { return fmt.Sprint(x) }
			}
		}
	case "blas32":
		mk := func(n, inc, salt int) blas32.Vector {
			d := make([]float32, ln(n, inc))
			for i := range d {
				d[i] = float32(1 + (i+salt)%5)
			}
			return blas32.Vector{N: n, Inc: inc, Data: d}
		}
		two := map[string]func(x, y blas32.Vector){
			"Dot": func(x, y blas32.Vector) { blas32.Dot(x, y) }, "DDot": func(x, y blas32.Vector) { blas32.DDot(x, y) },
			"SDDot": func(x, y blas32.Vector) { blas32.SDDot(1, x, y) }, "Swap": blas32.Swap, "Copy": blas32.Copy,
			"Axpy": func(x, y blas32.Vector) { blas32.Axpy(2, x, y) },
		}
		for name, f := range two {
			f := f
			w.two[name] = func(nx, ny, incx, incy int) (func(), func() string) {
				x, y := mk(nx, incx, 0), mk(ny, incy, 2)
				return func() { f(x, y) }, func() string { return fmt.Sprint(x, y) }
			}
		}
		one := map[string]func(x blas32.Vector){
			"Nrm2": func(x blas32.Vector) { blas32.Nrm2(x) }, "Asum": func(x blas32.Vector) { blas32.Asum(x) },
			"Iamax": func(x blas32.Vector) { blas32.Iamax(x) }, "Scal": func(x blas32.Vector) { blas32.Scal(2, x) },
		}
		for name, f := range one {
			f := f
			w.one[name] = func(n, inc int) (func(), func() string) {
				x := mk(n, inc, 0)
				return func() { f(x) }, func() string { return fmt.Sprint(x) }
			}
		}
	case "cblas128":
		mk := func(n, inc, salt int) cblas128.Vector {
			d := make([]complex128, ln(n, inc))
			for i := range d {
				d[i] = complex(float64(1+(i+salt)%5), 1)
			}
			return cblas128.Vector{N: n, Inc: inc, Data: d}
		}
		two := map[string]func(x, y cblas128.Vector){
			"Dotu": func(x, y cblas128.Vector) { cblas128.Dotu(x, y) }, "Dotc": func(x, y cblas128.Vector) { cblas128.Dotc(x, y) },
			"Swap": cblas128.Swap, "Copy": cblas128.Copy, "Axpy": func(x, y cblas128.Vector) { cblas128.Axpy(2, x, y) },
		}
		for name, f := range two {
			f := f
			w.two[name] = func(nx, ny, incx, incy int) (func(), func() string) {
				x, y := mk(nx, incx, 0), mk(ny, incy, 2)
				return func() { f(x, y) }, func() string { return fmt.Sprint(x, y) }
			}
		}
		one := map[string]func(x cblas128.Vector){
			"Nrm2": func(x cblas128.Vector) { cblas128.Nrm2(x) }, "Asum": func(x cblas128.Vector) { cblas128.Asum(x) },
			"Iamax": func(x cblas128.Vector) { cblas128.Iamax(x) }, "Scal": func(x cblas128.Vector) { cblas128.Scal(2, x) },
			"Dscal": func(x cblas128.Vector) { cblas128.Dscal(2, x) },
		}
		for name, f := range one {
			f := f
			w.one[name] = func(n, inc int) (func(), func() string) {
				x := mk(n, inc, 0)
				return func() { f(x) }, func() string { return fmt.Sprint(x) }
			}
		}
	case "cblas64":
		mk := func(n, inc, salt int) cblas64.Vector {
			d := make([]complex64, ln(n, inc))
			for i := range d {
				d[i] = complex(float32(1+(i+salt)%5), 1)
			}
			return cblas64.Vector{N: n, Inc: inc, Data: d}
		}
		two := map[string]func(x, y cblas64.Vector){
			"Dotu": func(x, y cblas64.Vector) { cblas64.Dotu(x, y) }, "Dotc": func(x, y cblas64.Vector) { cblas64.Dotc(x, y) },
			"Swap": cblas64.Swap, "Copy": cblas64.Copy, "Axpy": func(x, y cblas64.Vector) { cblas64.Axpy(2, x, y) },
		}
		for name, f := range two {
			f := f
			w.two[name] = func(nx, ny, incx, incy int) (func(), func() string) {
				x, y := mk(nx, incx, 0), mk(ny, incy, 2)
				return func() { f(x, y) }, func() string { return fmt.Sprint(x, y) }
			}
		}
		one := map[string]func(x cblas64.Vector){
			"Nrm2": func(x cblas64.Vector) { cblas64.Nrm2(x) }, "Asum": func(x cblas64.Vector) { cblas64.Asum(x) },
			"Iamax": func(x cblas64.Vector) { cblas64.Iamax(x) }, "Scal": func(x cblas64.Vector) { cblas64.Scal(2, x) },
			"Dscal": func(x cblas64.Vector) { cblas64.Dscal(2, x) },
		}
		for name, f := range one {
			f := f
			w.one[name] = func(n, inc int) (func(), func() string) {
				x := mk(n, inc, 0)
				return func() { f(x) }, func() string { return fmt.Sprint(x) }
			}
		}
	}
	return w
}

func genBlasWrap(g *vlib.G) {
	if vlib.Env("VERIF_CONFIG", "default") == "bounds" {
		return
	}
	for _, pkg := range []string{"blas64", "blas32", "cblas128", "cblas64"} {
		pkg := pkg
		w := wrapTable(pkg)
		check := func(t *vlib.T, what string, call func(), state func() string, want string) (outcome string) {
			before := state()
			e := run(call)
			switch v := e.(type) {
			case nil:
				if want != "" {
					t.FailClass("invalid-accepted", "%s: returned normally, want panic %q", what, want)
				}
				return "ok"
			case runtime.Error:
				t.FailClass("runtime-error-for-invalid", "%s: runtime.Error %v, want %q", what, v, want)
			case string:
				if v != want {
					t.FailClass("wrong-message", "%s: panic %q, want %q", what, v, want)
				}
			default:
				t.FailClass("foreign-panic", "%s: panic %v, want %q", what, e, want)
			}
			if after := state(); after != before {
				t.FailClass("write-before-validate", "%s: an operand was modified although the call panicked", what)
			}
			return "panic"
		}
		for _, name := range vlib.SortedKeys(w.two) {
			name, mk := name, w.two[name]
			g.Case(pkg+"."+name, func(t *vlib.T) {
				var n int64
				for _, nx := range []int{0, 1, 2, 3} {
					for _, ny := range []int{0, 1, 2, 3} {
						for _, incx := range []int{-2, -1, 1, 2} {
							for _, incy := range []int{-1, 1, 2} {
								call, state := mk(nx, ny, incx, incy)
								want := ""
								if nx != ny {
									want = pkg + ": vector length mismatch"
								}
								check(t, fmt.Sprintf("%s.%s(x{N:%d,Inc:%d}, y{N:%d,Inc:%d})", pkg, name, nx, incx, ny, incy), call, state, want)
								n++
							}
						}
					}
				}
				t.Count("blas_wrapper_calls", n)
				t.Outcome("length-mismatch")
				t.Nontrivial()
			})
		}
		for _, name := range vlib.SortedKeys(w.one) {
			name, mk := name, w.one[name]
			g.Case(pkg+"."+name, func(t *vlib.T) {
				var n int64
				for _, nx := range []int{0, 1, 3} {
					for _, inc := range []int{-2, -1, 1, 2} {
						call, state := mk(nx, inc)
						want := ""
						if inc < 0 {
							want = pkg + ": negative vector increment"
						}
						check(t, fmt.Sprintf("%s.%s(x{N:%d,Inc:%d})", pkg, name, nx, inc), call, state, want)
						n++
					}
				}
				t.Count("blas_wrapper_calls", n)
				t.Outcome("negative-increment")
				t.Nontrivial()
			})
		}
	}
}
