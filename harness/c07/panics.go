// panics.go — running a call under recover and classifying what it panicked with.
package main

import (
	"fmt"
	"os"
	"reflect"
	"runtime"
	"strings"
)

// panic classes
const (
	pcNone    = iota // returned normally
	pcPackage        // a string (or error) carrying a message of the package's errors.go
	pcFault          // a memory fault turned into a panic by debug.SetPanicOnFault
	pcRuntime        // any other runtime.Error (index out of range, slice bounds, nil map, ...)
	pcOther          // anything else (foreign string, error of another package)
)

type outcome struct {
	class int
	msg   string // the panic message
	val   any
}

func (o outcome) String() string {
	switch o.class {
	case pcNone:
		return "returned normally"
	case pcPackage:
		return fmt.Sprintf("package panic %q", o.msg)
	case pcFault:
		return fmt.Sprintf("MEMORY FAULT (%s)", o.msg)
	case pcRuntime:
		return fmt.Sprintf("runtime.Error %q", o.msg)
	}
	return fmt.Sprintf("foreign panic %T %q", o.val, o.msg)
}

// classify sorts a recovered value. isPkg reports whether a message belongs
// to the errors.go of the package under test.
func classify(e any, isPkg func(string) bool) outcome {
	if e == nil {
		return outcome{class: pcNone}
	}
	if re, ok := e.(runtime.Error); ok {
		if _, isAddr := e.(interface{ Addr() uintptr }); isAddr {
			return outcome{class: pcFault, msg: re.Error(), val: e}
		}
		msg := re.Error()
		if strings.Contains(msg, "unexpected fault address") || strings.Contains(msg, "invalid memory address") {
			return outcome{class: pcFault, msg: msg, val: e}
		}
		return outcome{class: pcRuntime, msg: msg, val: e}
	}
	var msg string
	switch v := e.(type) {
	case string:
		msg = v
	case error:
		msg = v.Error()
	default:
		msg = fmt.Sprint(e)
	}
	if strings.HasPrefix(msg, "reflect:") || strings.HasPrefix(msg, "harness:") {
		panic(e) // a defect of the harness, not of the code under test
	}
	if isPkg(msg) {
		return outcome{class: pcPackage, msg: msg, val: e}
	}
	return outcome{class: pcOther, msg: msg, val: e}
}

// invoke calls m(in...) and returns the recovered panic value (nil if none)
// and the results.
func invoke(m reflect.Value, in []reflect.Value) (out []reflect.Value, e any) {
	defer func() { e = recover() }()
	out = m.Call(in)
	return out, nil
}

// debugFailer forwards to a vlib.T and, when the environment variable
// C07_DEBUG_LOG names a file, appends every failure to it (triage aid only).
type debugFailer struct {
	t failer
}

func (d debugFailer) Failf(format string, a ...any) {
	debugLog("", format, a...)
	d.t.Failf(format, a...)
}

func (d debugFailer) FailClass(class, format string, a ...any) {
	debugLog(class, format, a...)
	d.t.FailClass(class, format, a...)
}

func debugLog(class, format string, a ...any) {
	p := os.Getenv("C07_DEBUG_LOG")
	if p == "" {
		return
	}
	f, err := os.OpenFile(p, os.O_APPEND|os.O_CREATE|os.O_WRONLY, 0o644)
	if err != nil {
		return
	}
	fmt.Fprintf(f, "[%s] %s\n", class, fmt.Sprintf(format, a...))
	f.Close()
}

// run calls f and returns the recovered panic value.
func run(f func()) (e any) {
	defer func() { e = recover() }()
	f()
	return nil
}
