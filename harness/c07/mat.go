// mat.go — part (c) of C07: the mat package rejects mismatching shapes, index
// ranges, non-square / wrong-triangle / wrong-bandwidth / zero-length
// arguments with its own error values before writing anything, in the default
// and in the `bounds` build.
//
// Oracle for an invalid call: it panics; the value is a mat.Error (the one the
// documentation names where it names one) or a plain string of the package
// ("mat: ..."); it is not a runtime.Error and not a panic of a lower layer
// (blas:, lapack:); the receiver and every operand are unchanged (dimensions,
// stride and every element of the backing slice). Valid calls do not panic.
package main

import (
	"fmt"
	"math"
	"runtime"
	"strings"

	"gonum.org/v1/gonum/internal/verif/vlib"
	"gonum.org/v1/gonum/mat"
)

// ---- state snapshots ------------------------------------------------------------

// stateOf renders the complete observable state of a mat value: dimensions,
// stride, structure flags and the bit pattern of every backing element.
func stateOf(x any) string {
	bits := func(d []float64) string {
		var sb strings.Builder
		for _, v := range d {
			fmt.Fprintf(&sb, "%x,", math.Float64bits(v))
		}
		return sb.String()
	}
	switch m := x.(type) {
	case *mat.Dense:
		r := m.RawMatrix()
		cr, cc := m.Caps()
		return fmt.Sprintf("Dense %dx%d ld%d cap%dx%d %s", r.Rows, r.Cols, r.Stride, cr, cc, bits(r.Data))
	case *mat.VecDense:
		r := m.RawVector()
		return fmt.Sprintf("Vec n%d inc%d cap%d %s", r.N, r.Inc, m.Cap(), bits(r.Data))
	case *mat.SymDense:
		r := m.RawSymmetric()
		return fmt.Sprintf("Sym n%d ld%d %c %s", r.N, r.Stride, r.Uplo, bits(r.Data))
	case *mat.TriDense:
		r := m.RawTriangular()
		return fmt.Sprintf("Tri n%d ld%d %c %c %s", r.N, r.Stride, r.Uplo, r.Diag, bits(r.Data))
	case *mat.BandDense:
		r := m.RawBand()
		return fmt.Sprintf("Band %dx%d kl%d ku%d ld%d %s", r.Rows, r.Cols, r.KL, r.KU, r.Stride, bits(r.Data))
	case *mat.SymBandDense:
		r := m.RawSymBand()
		return fmt.Sprintf("SymBand n%d k%d ld%d %s", r.N, r.K, r.Stride, bits(r.Data))
	case *mat.TriBandDense:
		r := m.RawTriBand()
		return fmt.Sprintf("TriBand n%d k%d ld%d %c %s", r.N, r.K, r.Stride, r.Uplo, bits(r.Data))
	case *mat.DiagDense:
		r := m.RawBand()
		return fmt.Sprintf("Diag n%d %s", r.Rows, bits(r.Data))
	case *mat.Tridiag:
		r := m.RawTridiagonal()
		return fmt.Sprintf("Tridiag n%d %s|%s|%s", r.N, bits(r.DL), bits(r.D), bits(r.DU))
	case *mat.CDense:
		r := m.RawCMatrix()
		var sb strings.Builder
		for _, v := range r.Data {
			fmt.Fprintf(&sb, "%x+%xi,", math.Float64bits(real(v)), math.Float64bits(imag(v)))
		}
		return fmt.Sprintf("CDense %dx%d ld%d %s", r.Rows, r.Cols, r.Stride, sb.String())
	case []float64:
		return "slice " + bits(m)
	}
	panic(fmt.Sprintf("harness: stateOf(%T)", x))
}

// ---- one check --------------------------------------------------------------------

type matCheck struct {
	name  string
	objs  []any // values whose state must not change when the call panics
	call  func()
	valid bool        // the call satisfies the contract: no panic
	want  []mat.Error // the documented error(s); nil = any panic value of the package
	// wantStr are documented plain-string panics accepted besides want.
	wantStr []string
	// known names the triaged gonum defect (NOTES.md) this invalid call is an
	// instance of; a failure of the "not rejected / runtime.Error" kind is then
	// reported under that class instead of the generic one.
	known string
	// knownEmpty: as known, for the "empty receiver was sized by the rejected call" failure.
	knownEmpty string
}

const emptyState = "<empty>"

type matStats struct {
	valid, invalid int64
	errs           map[string]bool
}

func runMatCheck(t *vlib.T, c matCheck, st *matStats) {
	before := make([]string, len(c.objs))
	for i, o := range c.objs {
		// An empty receiver holds no data: being (re)allocated before the shape
		// check fails is not a write to an operand (don't-care, see NOTES.md).
		if em, ok := o.(interface{ IsEmpty() bool }); ok && em.IsEmpty() {
			before[i] = emptyState
			continue
		}
		before[i] = stateOf(o)
	}
	e := run(c.call)
	if c.valid {
		st.valid++
		if e != nil {
			cl := "mat-valid-call-panics"
			if _, ok := e.(runtime.Error); ok {
				cl = "mat-valid-call-runtime-error"
			}
			debugLog(cl, "%s: valid call panicked: %v", c.name, e)
			t.FailClass(cl, "%s: the call satisfies the documented contract but panicked: %v", c.name, e)
		}
		return
	}
	st.invalid++
	fail := func(class, format string, a ...any) {
		if c.known != "" && (class == "mat-invalid-accepted" || class == "mat-runtime-error-for-invalid") {
			class = c.known
		}
		debugLog(class, c.name+": "+format, a...)
		t.FailClass(class, c.name+": "+format, a...)
	}
	wantDesc := "a mat.Error"
	if len(c.want) > 0 {
		var ws []string
		for _, w := range c.want {
			ws = append(ws, fmt.Sprintf("%q", w.Error()))
		}
		wantDesc = "mat.Error " + strings.Join(ws, " or ")
	}
	switch v := e.(type) {
	case nil:
		fail("mat-invalid-accepted", "returned normally, want panic with %s", wantDesc)
		return
	case runtime.Error:
		cl := "mat-runtime-error-for-invalid"
		if _, isAddr := e.(interface{ Addr() uintptr }); isAddr {
			cl = "memory-fault"
		}
		fail(cl, "panicked with runtime.Error %q, want %s", v.Error(), wantDesc)
	case mat.Error:
		ok := len(c.want) == 0
		for _, w := range c.want {
			ok = ok || v == w
		}
		if !ok {
			fail("mat-wrong-error", "panicked with mat.Error %q, want %s", v.Error(), wantDesc)
		}
		st.errs[v.Error()] = true
	case string:
		ok := len(c.want) == 0 && strings.HasPrefix(v, "mat: ")
		for _, w := range c.wantStr {
			ok = ok || v == w
		}
		if !ok {
			cl := "mat-wrong-error"
			if !strings.HasPrefix(v, "mat: ") {
				cl = "mat-foreign-panic"
			}
			fail(cl, "panicked with string %q, want %s", v, wantDesc)
		}
		st.errs[v] = true
	default:
		fail("mat-foreign-panic", "panicked with %T %v, want %s", e, e, wantDesc)
	}
	for i, o := range c.objs {
		if before[i] == emptyState {
			// an empty receiver / destination must still be empty after a rejected call, so that
			// it can be reused for a valid call of any shape (its spare backing storage is a don't-care)
			if em := o.(interface{ IsEmpty() bool }); !em.IsEmpty() {
				cl := "mat-empty-receiver-sized-by-rejected-call"
				if c.knownEmpty != "" {
					cl = c.knownEmpty
				}
				debugLog(cl, "%s: empty operand %d (%T) was given a shape", c.name, i, o)
				t.FailClass(cl, c.name+": operand %d (%T) was empty before the call and has a shape after the call panicked: a rejected call must leave an empty receiver empty (reusable for any shape)", i, o)
			}
			continue
		}
		if after := stateOf(o); after != before[i] {
			fail("mat-write-before-validate", "operand %d (%T) was modified although the call panicked:\n before %s\n after  %s", i, o, before[i], after)
		}
	}
}

func finishMat(t *vlib.T, st *matStats, oc string) {
	t.Count("mat_valid_calls", st.valid)
	t.Count("mat_invalid_calls", st.invalid)
	es := vlib.SortedKeys(st.errs)
	for i := range es {
		es[i] = strings.TrimPrefix(es[i], "mat: ")
	}
	t.Outcome(oc + " -> " + strings.Join(es, "|"))
	if st.invalid > 0 {
		t.Nontrivial()
	}
}

// ---- constructors of operands -------------------------------------------------------

func mkDense(r, c, salt int) *mat.Dense {
	d := make([]float64, r*c)
	for i := range d {
		d[i] = float64(1 + (i*3+salt)%7)
	}
	return mat.NewDense(r, c, d)
}

// mkDenseView returns an r×c view with stride > c and spare capacity.
func mkDenseView(r, c, salt int) *mat.Dense {
	return mkDense(r+2, c+2, salt).Slice(1, 1+r, 1, 1+c).(*mat.Dense)
}

func mkVec(n, salt int) *mat.VecDense {
	d := make([]float64, n)
	for i := range d {
		d[i] = float64(1 + (i*5+salt)%7)
	}
	return mat.NewVecDense(n, d)
}

// mkVecInc returns a vector with increment 2 (a column view).
func mkVecInc(n, salt int) *mat.VecDense {
	return mkDense(n, 2, salt).ColView(1).(*mat.VecDense)
}

func mkSym(n, salt int) *mat.SymDense {
	s := mat.NewSymDense(n, nil)
	for i := 0; i < n; i++ {
		for j := i; j < n; j++ {
			s.SetSym(i, j, float64(1+(i+2*j+salt)%5))
		}
	}
	return s
}

func mkTri(n int, kind mat.TriKind, salt int) *mat.TriDense {
	tr := mat.NewTriDense(n, kind, nil)
	for i := 0; i < n; i++ {
		for j := 0; j < n; j++ {
			if (kind == mat.Upper && i <= j) || (kind == mat.Lower && j <= i) {
				tr.SetTri(i, j, float64(2+(i+j+salt)%3))
			}
		}
	}
	return tr
}

// shapes differing from r×c
func otherShapes(r, c int) [][2]int {
	out := [][2]int{{r + 1, c}, {r, c + 1}, {r + 1, c + 1}}
	if r > 1 {
		out = append(out, [2]int{r - 1, c})
	}
	if c > 1 {
		out = append(out, [2]int{r, c - 1})
	}
	if r != c {
		out = append(out, [2]int{c, r})
	}
	return out
}

var errShape = []mat.Error{mat.ErrShape}

// ---- group: element access ------------------------------------------------------------

func genMatIndex(g *vlib.G) {
	idx := func(n int) []int { return []int{-2, -1, 0, n - 1, n, n + 1, math.MaxInt64, math.MinInt64} }
	rowColErr := func(i, j, r, c int) []mat.Error {
		switch {
		case i < 0 || i >= r:
			return []mat.Error{mat.ErrRowAccess}
		case j < 0 || j >= c:
			return []mat.Error{mat.ErrColAccess}
		}
		return nil
	}
	type accessor struct {
		name string
		mk   func(r, c int) any
		at   func(x any, i, j int) float64
		set  func(x any, i, j int, v float64) // nil if the type has no setter with (i,j)
		// inStruct reports whether (i,j) may be set (inside triangle/band).
		inStruct  func(x any, i, j int) bool
		structErr []mat.Error
		square    bool
	}
	accs := []accessor{
		{name: "Dense", mk: func(r, c int) any { return mkDense(r, c, 0) },
			at:  func(x any, i, j int) float64 { return x.(*mat.Dense).At(i, j) },
			set: func(x any, i, j int, v float64) { x.(*mat.Dense).Set(i, j, v) }},
		{name: "DenseView", mk: func(r, c int) any { return mkDenseView(r, c, 0) },
			at:  func(x any, i, j int) float64 { return x.(*mat.Dense).At(i, j) },
			set: func(x any, i, j int, v float64) { x.(*mat.Dense).Set(i, j, v) }},
		{name: "CDense", mk: func(r, c int) any { return mat.NewCDense(r, c, nil) },
			at:  func(x any, i, j int) float64 { return real(x.(*mat.CDense).At(i, j)) },
			set: func(x any, i, j int, v float64) { x.(*mat.CDense).Set(i, j, complex(v, 1)) }},
		{name: "SymDense", square: true, mk: func(r, c int) any { return mkSym(r, 0) },
			at:  func(x any, i, j int) float64 { return x.(*mat.SymDense).At(i, j) },
			set: func(x any, i, j int, v float64) { x.(*mat.SymDense).SetSym(i, j, v) }},
		{name: "TriDenseUpper", square: true, mk: func(r, c int) any { return mkTri(r, mat.Upper, 0) },
			at:        func(x any, i, j int) float64 { return x.(*mat.TriDense).At(i, j) },
			set:       func(x any, i, j int, v float64) { x.(*mat.TriDense).SetTri(i, j, v) },
			inStruct:  func(_ any, i, j int) bool { return i <= j },
			structErr: []mat.Error{mat.ErrTriangleSet}},
		{name: "TriDenseLower", square: true, mk: func(r, c int) any { return mkTri(r, mat.Lower, 0) },
			at:        func(x any, i, j int) float64 { return x.(*mat.TriDense).At(i, j) },
			set:       func(x any, i, j int, v float64) { x.(*mat.TriDense).SetTri(i, j, v) },
			inStruct:  func(_ any, i, j int) bool { return j <= i },
			structErr: []mat.Error{mat.ErrTriangleSet}},
		{name: "BandDense", mk: func(r, c int) any { return mat.NewBandDense(r, c, imin(1, r-1), imin(1, c-1), nil) },
			at:  func(x any, i, j int) float64 { return x.(*mat.BandDense).At(i, j) },
			set: func(x any, i, j int, v float64) { x.(*mat.BandDense).SetBand(i, j, v) },
			inStruct: func(x any, i, j int) bool {
				kl, ku := x.(*mat.BandDense).Bandwidth()
				return j-i <= ku && i-j <= kl
			}, structErr: []mat.Error{mat.ErrBandSet}},
		{name: "SymBandDense", square: true, mk: func(r, c int) any { return mat.NewSymBandDense(r, imin(1, r-1), nil) },
			at:  func(x any, i, j int) float64 { return x.(*mat.SymBandDense).At(i, j) },
			set: func(x any, i, j int, v float64) { x.(*mat.SymBandDense).SetSymBand(i, j, v) },
			inStruct: func(x any, i, j int) bool {
				_, kk := x.(*mat.SymBandDense).SymBand()
				return iabs(i-j) <= kk
			}, structErr: []mat.Error{mat.ErrBandSet}},
		{name: "TriBandDenseUpper", square: true, mk: func(r, c int) any { return mat.NewTriBandDense(r, imin(1, r-1), mat.Upper, nil) },
			at:  func(x any, i, j int) float64 { return x.(*mat.TriBandDense).At(i, j) },
			set: func(x any, i, j int, v float64) { x.(*mat.TriBandDense).SetTriBand(i, j, v) },
			inStruct: func(x any, i, j int) bool {
				_, k, _ := x.(*mat.TriBandDense).TriBand()
				return i <= j && j-i <= k
			}, structErr: []mat.Error{mat.ErrTriangleSet, mat.ErrBandSet}},
		{name: "DiagDense", square: true, mk: func(r, c int) any { return mat.NewDiagDense(r, nil) },
			at: func(x any, i, j int) float64 { return x.(*mat.DiagDense).At(i, j) }},
		{name: "Tridiag", square: true, mk: func(r, c int) any { return mat.NewTridiag(r, nil, nil, nil) },
			at:        func(x any, i, j int) float64 { return x.(*mat.Tridiag).At(i, j) },
			set:       func(x any, i, j int, v float64) { x.(*mat.Tridiag).SetBand(i, j, v) },
			inStruct:  func(_ any, i, j int) bool { return iabs(i-j) <= 1 },
			structErr: []mat.Error{mat.ErrBandSet}},
	}
	shapes := [][2]int{{1, 1}, {2, 3}, {3, 2}, {3, 3}, {4, 4}}
	for _, a := range accs {
		for _, sh := range shapes {
			a, r, c := a, sh[0], sh[1]
			if a.square && r != c {
				continue
			}
			g.Case(fmt.Sprintf("%s %dx%d", a.name, r, c), func(t *vlib.T) {
				st := &matStats{errs: map[string]bool{}}
				var is, js []int
				for k := 0; k < imax(r, c)+1; k++ {
					is, js = append(is, k), append(js, k)
				}
				is, js = append(is, idx(r)...), append(js, idx(c)...)
				for _, i := range is {
					for _, j := range js {
						x := a.mk(r, c)
						want := rowColErr(i, j, r, c)
						name := fmt.Sprintf("%s(%dx%d).At(%d,%d)", a.name, r, c, i, j)
						runMatCheck(t, matCheck{name: name, objs: []any{x}, call: func() { a.at(x, i, j) }, valid: want == nil, want: want}, st)
						if a.set == nil {
							continue
						}
						wantSet := want
						if wantSet == nil && a.inStruct != nil && !a.inStruct(x, i, j) {
							wantSet = a.structErr
						}
						name = fmt.Sprintf("%s(%dx%d).Set(%d,%d)", a.name, r, c, i, j)
						runMatCheck(t, matCheck{name: name, objs: []any{x}, call: func() { a.set(x, i, j, 9) }, valid: wantSet == nil, want: wantSet}, st)
					}
				}
				finishMat(t, st, a.name)
			})
		}
	}
	// VecDense
	for _, n := range []int{1, 2, 4} {
		for _, inc := range []bool{false, true} {
			n, inc := n, inc
			g.Case(fmt.Sprintf("VecDense n=%d strided=%v", n, inc), func(t *vlib.T) {
				st := &matStats{errs: map[string]bool{}}
				mk := func() *mat.VecDense {
					if inc {
						return mkVecInc(n, 0)
					}
					return mkVec(n, 0)
				}
				for _, i := range append(idx(n), 1) {
					in := i >= 0 && i < n
					v := mk()
					nm := fmt.Sprintf("VecDense(n=%d).", n)
					runMatCheck(t, matCheck{name: nm + fmt.Sprintf("AtVec(%d)", i), objs: []any{v}, call: func() { v.AtVec(i) }, valid: in, want: []mat.Error{mat.ErrRowAccess}}, st)
					runMatCheck(t, matCheck{name: nm + fmt.Sprintf("SetVec(%d)", i), objs: []any{v}, call: func() { v.SetVec(i, 9) }, valid: in, want: []mat.Error{mat.ErrVectorAccess}}, st)
					for _, j := range []int{-1, 0, 1} {
						want := []mat.Error{mat.ErrRowAccess}
						if in {
							want = []mat.Error{mat.ErrColAccess}
						} else if j != 0 {
							// double fault: the order of the two tests differs between the builds (don't-care)
							want = []mat.Error{mat.ErrRowAccess, mat.ErrColAccess}
						}
						runMatCheck(t, matCheck{name: nm + fmt.Sprintf("At(%d,%d)", i, j), objs: []any{v}, call: func() { v.At(i, j) }, valid: in && j == 0, want: want}, st)
					}
				}
				finishMat(t, st, "VecDense")
			})
		}
	}
}

// ---- group: views, rows and columns ------------------------------------------------------

func genMatViews(g *vlib.G) {
	for _, sh := range [][2]int{{1, 1}, {2, 3}, {3, 2}, {3, 3}} {
		for _, view := range []bool{false, true} {
			r, c, view := sh[0], sh[1], view
			g.Case(fmt.Sprintf("Dense %dx%d view=%v", r, c, view), func(t *vlib.T) {
				st := &matStats{errs: map[string]bool{}}
				mk := func() *mat.Dense {
					if view {
						return mkDenseView(r, c, 1)
					}
					return mkDense(r, c, 1)
				}
				capR, capC := mk().Caps()
				nm := fmt.Sprintf("Dense(%dx%d cap %dx%d).", r, c, capR, capC)
				rowErr, colErr := []mat.Error{mat.ErrRowAccess}, []mat.Error{mat.ErrColAccess}
				for _, i := range []int{-1, 0, r - 1, r, r + 1} {
					m := mk()
					in := i >= 0 && i < r
					runMatCheck(t, matCheck{name: nm + fmt.Sprintf("RowView(%d)", i), objs: []any{m}, call: func() { m.RowView(i) }, valid: in, want: rowErr}, st)
					runMatCheck(t, matCheck{name: nm + fmt.Sprintf("RawRowView(%d)", i), objs: []any{m}, call: func() { m.RawRowView(i) }, valid: in, want: rowErr}, st)
					for _, l := range []int{c - 1, c, c + 1} {
						if l < 0 {
							continue
						}
						src := make([]float64, l)
						want := rowErr
						if in {
							want = []mat.Error{mat.ErrRowLength}
						}
						runMatCheck(t, matCheck{name: nm + fmt.Sprintf("SetRow(%d, len %d)", i, l), objs: []any{m, src}, call: func() { m.SetRow(i, src) }, valid: in && l == c, want: want}, st)
						m = mk()
					}
					dst := make([]float64, c+1)
					runMatCheck(t, matCheck{name: nm + fmt.Sprintf("mat.Row(len %d, %d)", c+1, i), objs: []any{m, dst}, call: func() { mat.Row(dst, i, m) }, want: nil}, st)
				}
				for _, j := range []int{-1, 0, c - 1, c, c + 1} {
					m := mk()
					in := j >= 0 && j < c
					runMatCheck(t, matCheck{name: nm + fmt.Sprintf("ColView(%d)", j), objs: []any{m}, call: func() { m.ColView(j) }, valid: in, want: colErr}, st)
					for _, l := range []int{r - 1, r, r + 1} {
						if l < 0 {
							continue
						}
						src := make([]float64, l)
						want := colErr
						if in {
							want = []mat.Error{mat.ErrColLength}
						}
						runMatCheck(t, matCheck{name: nm + fmt.Sprintf("SetCol(%d, len %d)", j, l), objs: []any{m, src}, call: func() { m.SetCol(j, src) }, valid: in && l == r, want: want}, st)
						m = mk()
					}
				}
				// Slice(i,k,j,l): valid iff 0 <= i < k <= capRows and 0 <= j < l <= capCols.
				vals := func(n, cp int) []int { return []int{-1, 0, 1, n, cp, cp + 1} }
				for _, i := range vals(r, capR) {
					for _, k := range vals(r, capR) {
						for _, j := range vals(c, capC) {
							for _, l := range vals(c, capC) {
								m := mk()
								ok := 0 <= i && i < k && k <= capR && 0 <= j && j < l && l <= capC
								want := []mat.Error{mat.ErrIndexOutOfRange}
								if i == k || j == l {
									// an empty range: the code has a dedicated ErrZeroLength for it
									want = []mat.Error{mat.ErrIndexOutOfRange, mat.ErrZeroLength}
								}
								c := matCheck{name: nm + fmt.Sprintf("Slice(%d,%d,%d,%d)", i, k, j, l), objs: []any{m},
									call: func() { m.Slice(i, k, j, l) }, valid: ok, want: want}
								if !ok && (i == k || j == l) && 0 <= i && i <= k && k <= capR && 0 <= j && j <= l && l <= capC {
									c.known = "mat-slice-empty-range-not-rejected"
								}
								runMatCheck(t, c, st)
							}
						}
					}
				}
				for _, dr := range []int{-1, 0, 1} {
					for _, dc := range []int{-1, 0, 1} {
						m := mk()
						runMatCheck(t, matCheck{name: nm + fmt.Sprintf("Grow(%d,%d)", dr, dc), objs: []any{m},
							call: func() { m.Grow(dr, dc) }, valid: dr >= 0 && dc >= 0, want: []mat.Error{mat.ErrIndexOutOfRange}}, st)
					}
				}
				finishMat(t, st, "Dense views")
			})
		}
	}
	for _, n := range []int{1, 3} {
		n := n
		g.Case(fmt.Sprintf("VecDense/SymDense/TriDense slices n=%d", n), func(t *vlib.T) {
			st := &matStats{errs: map[string]bool{}}
			oor := []mat.Error{mat.ErrIndexOutOfRange}
			for _, i := range []int{-1, 0, 1, n, n + 1} {
				for _, k := range []int{-1, 0, 1, n, n + 1} {
					ok := 0 <= i && i < k && k <= n
					v := mkVec(n, 2)
					runMatCheck(t, matCheck{name: fmt.Sprintf("VecDense(n=%d).SliceVec(%d,%d)", n, i, k), objs: []any{v}, call: func() { v.SliceVec(i, k) }, valid: ok, want: oor}, st)
					known := ""
					if i == k && 0 <= i && i <= n {
						known = "mat-slice-empty-range-not-rejected"
					}
					s := mkSym(n, 2)
					runMatCheck(t, matCheck{name: fmt.Sprintf("SymDense(n=%d).SliceSym(%d,%d)", n, i, k), objs: []any{s}, call: func() { s.SliceSym(i, k) }, valid: ok, want: oor, known: known}, st)
					for _, kind := range []mat.TriKind{mat.Upper, mat.Lower} {
						tr := mkTri(n, kind, 2)
						runMatCheck(t, matCheck{name: fmt.Sprintf("TriDense(n=%d).SliceTri(%d,%d)", n, i, k), objs: []any{tr}, call: func() { tr.SliceTri(i, k) }, valid: ok, want: oor, known: known}, st)
					}
				}
			}
			finishMat(t, st, "slices")
		})
	}
}

// ---- group: constructors, square/triangle/bandwidth ------------------------------------------

func genMatCtor(g *vlib.G) {
	g.Case("constructors", func(t *vlib.T) {
		st := &matStats{errs: map[string]bool{}}
		zl, neg, shp := []mat.Error{mat.ErrZeroLength}, []mat.Error{mat.ErrNegativeDimension}, errShape
		negStr := []string{"mat: negative dimension"}
		dimErr := func(dims ...int) (want []mat.Error, valid bool) {
			hasNeg, hasZero := false, false
			for _, d := range dims {
				hasNeg = hasNeg || d < 0
				hasZero = hasZero || d == 0
			}
			switch {
			case hasZero:
				return zl, false
			case hasNeg:
				return neg, false
			}
			return nil, true
		}
		for _, r := range []int{-1, 0, 1, 2} {
			for _, c := range []int{-1, 0, 1, 2} {
				r, c := r, c
				want, ok := dimErr(r, c)
				runMatCheck(t, matCheck{name: fmt.Sprintf("NewDense(%d,%d,nil)", r, c), call: func() { mat.NewDense(r, c, nil) }, valid: ok, want: want, wantStr: negStr}, st)
				runMatCheck(t, matCheck{name: fmt.Sprintf("NewCDense(%d,%d,nil)", r, c), call: func() { mat.NewCDense(r, c, nil) }, valid: ok, want: want, wantStr: negStr}, st)
				if ok {
					for _, dl := range []int{-1, 0, 1} {
						if r*c+dl < 0 || (r*c+dl == 0) {
							continue
						}
						data := make([]float64, r*c+dl)
						runMatCheck(t, matCheck{name: fmt.Sprintf("NewDense(%d,%d,len %d)", r, c, len(data)), objs: []any{data}, call: func() { mat.NewDense(r, c, data) }, valid: dl == 0, want: shp}, st)
					}
				}
				for _, kl := range []int{-1, 0, 1, 2} {
					for _, ku := range []int{-1, 0, 1, 2} {
						kl, ku := kl, ku
						var want []mat.Error
						valid := false
						switch {
						case r == 0 || c == 0:
							want = zl
						case r < 0 || c < 0 || kl < 0 || ku < 0:
							want = neg
						case kl+1 > r || ku+1 > c:
							want = []mat.Error{mat.ErrBandwidth}
						default:
							valid = true
						}
						runMatCheck(t, matCheck{name: fmt.Sprintf("NewBandDense(%d,%d,%d,%d,nil)", r, c, kl, ku), call: func() { mat.NewBandDense(r, c, kl, ku, nil) }, valid: valid, want: want}, st)
					}
				}
			}
		}
		for _, n := range []int{-1, 0, 1, 3} {
			n := n
			want, ok := dimErr(n)
			runMatCheck(t, matCheck{name: fmt.Sprintf("NewVecDense(%d,nil)", n), call: func() { mat.NewVecDense(n, nil) }, valid: ok, want: want, wantStr: negStr}, st)
			runMatCheck(t, matCheck{name: fmt.Sprintf("NewSymDense(%d,nil)", n), call: func() { mat.NewSymDense(n, nil) }, valid: ok, want: want, wantStr: negStr}, st)
			runMatCheck(t, matCheck{name: fmt.Sprintf("NewTriDense(%d,Upper,nil)", n), call: func() { mat.NewTriDense(n, mat.Upper, nil) }, valid: ok, want: want, wantStr: negStr}, st)
			runMatCheck(t, matCheck{name: fmt.Sprintf("NewDiagDense(%d,nil)", n), call: func() { mat.NewDiagDense(n, nil) }, valid: ok, want: want, wantStr: negStr}, st)
			if ok {
				for _, dl := range []int{-1, 1} {
					if n+dl == 0 {
						continue
					}
					d1 := make([]float64, n+dl)
					d2 := make([]float64, n*n+dl)
					runMatCheck(t, matCheck{name: fmt.Sprintf("NewVecDense(%d,len %d)", n, len(d1)), objs: []any{d1}, call: func() { mat.NewVecDense(n, d1) }, want: shp}, st)
					runMatCheck(t, matCheck{name: fmt.Sprintf("NewDiagDense(%d,len %d)", n, len(d1)), objs: []any{d1}, call: func() { mat.NewDiagDense(n, d1) }, want: shp}, st)
					if len(d2) > 0 {
						runMatCheck(t, matCheck{name: fmt.Sprintf("NewSymDense(%d,len %d)", n, len(d2)), objs: []any{d2}, call: func() { mat.NewSymDense(n, d2) }, want: shp}, st)
						runMatCheck(t, matCheck{name: fmt.Sprintf("NewTriDense(%d,Lower,len %d)", n, len(d2)), objs: []any{d2}, call: func() { mat.NewTriDense(n, mat.Lower, d2) }, want: shp}, st)
					}
				}
			}
			for _, k := range []int{-1, 0, 1, 3} {
				k := k
				var wantT []mat.Error
				var wantS []string
				valid := false
				switch {
				case n == 0:
					wantT = zl
				case n < 0 || k < 0:
					wantT, wantS = neg, negStr
				case k+1 > n:
					wantT, wantS = []mat.Error{mat.ErrBandwidth}, []string{"mat: band out of range"}
				default:
					valid = true
				}
				runMatCheck(t, matCheck{name: fmt.Sprintf("NewTriBandDense(%d,%d,Upper,nil)", n, k), call: func() { mat.NewTriBandDense(n, k, mat.Upper, nil) }, valid: valid, want: wantT, wantStr: wantS}, st)
				runMatCheck(t, matCheck{name: fmt.Sprintf("NewSymBandDense(%d,%d,nil)", n, k), call: func() { mat.NewSymBandDense(n, k, nil) }, valid: valid, want: wantT, wantStr: wantS}, st)
			}
		}
		finishMat(t, st, "constructors")
	})
	g.Case("square-triangle", func(t *vlib.T) {
		st := &matStats{errs: map[string]bool{}}
		sq := []mat.Error{mat.ErrSquare}
		for _, sh := range [][2]int{{2, 2}, {2, 3}, {3, 2}, {1, 3}} {
			r, c := sh[0], sh[1]
			square := r == c
			a := mkDense(r, c, 3)
			for i := 0; i < imin(r, c); i++ {
				a.Set(i, i, 9) // well conditioned
			}
			nm := fmt.Sprintf("(%dx%d)", r, c)
			runMatCheck(t, matCheck{name: "Dense" + nm + ".Trace()", objs: []any{a}, call: func() { a.Trace() }, valid: square, want: sq}, st)
			runMatCheck(t, matCheck{name: "mat.Det" + nm, objs: []any{a}, call: func() { mat.Det(a) }, valid: square, want: sq}, st)
			var recv mat.Dense
			runMatCheck(t, matCheck{name: "Dense.Inverse" + nm, objs: []any{a, &recv}, call: func() { _ = recv.Inverse(a) }, valid: square, want: sq}, st)
			var e1 mat.Dense
			runMatCheck(t, matCheck{name: "Dense.Exp" + nm, objs: []any{a, &e1}, call: func() { e1.Exp(a) }, valid: square, want: errShape}, st)
			var p1 mat.Dense
			runMatCheck(t, matCheck{name: "Dense.Pow" + nm, objs: []any{a, &p1}, call: func() { p1.Pow(a, 2) }, valid: square, want: errShape}, st)
			var lu mat.LU
			runMatCheck(t, matCheck{name: "LU.Factorize" + nm, objs: []any{a}, call: func() { lu.Factorize(a) }, valid: square, want: sq}, st)
			var eig mat.Eigen
			runMatCheck(t, matCheck{name: "Eigen.Factorize" + nm, objs: []any{a}, call: func() { eig.Factorize(a, mat.EigenRight) }, valid: square, want: nil}, st) // "panics if not square": ErrShape in fact
		}
		{
			a := mkDense(2, 2, 3)
			var p mat.Dense
			runMatCheck(t, matCheck{name: "Dense.Pow(a,-1)", objs: []any{a, &p}, call: func() { p.Pow(a, -1) }, want: nil}, st)
		}
		// triangular kinds
		for _, n := range []int{1, 2, 3} {
			for _, ka := range []mat.TriKind{mat.Upper, mat.Lower} {
				for _, kb := range []mat.TriKind{mat.Upper, mat.Lower} {
					a, b := mkTri(n, ka, 1), mkTri(n, kb, 2)
					var recv mat.TriDense
					runMatCheck(t, matCheck{name: fmt.Sprintf("TriDense.MulTri(n=%d %v,%v)", n, ka, kb), objs: []any{a, b, &recv},
						call: func() { recv.MulTri(a, b) }, valid: ka == kb, want: []mat.Error{mat.ErrTriangle}}, st)
					r2 := mkTri(n, kb, 3)
					runMatCheck(t, matCheck{name: fmt.Sprintf("TriDense(%v).ScaleTri(2, n=%d %v)", kb, n, ka), objs: []any{a, r2},
						call: func() { r2.ScaleTri(2, a) }, valid: ka == kb, want: []mat.Error{mat.ErrTriangle}}, st)
					r3 := mkTri(n, kb, 3)
					runMatCheck(t, matCheck{name: fmt.Sprintf("TriDense(%v).InverseTri(n=%d %v)", kb, n, ka), objs: []any{a, r3},
						call: func() { _ = r3.InverseTri(a) }, valid: ka == kb, want: []mat.Error{mat.ErrTriangle}}, st)
				}
				a := mkTri(n, ka, 1)
				b := mkTri(n+1, ka, 2)
				var recv mat.TriDense
				runMatCheck(t, matCheck{name: fmt.Sprintf("TriDense.MulTri(n=%d,n=%d)", n, n+1), objs: []any{a, b, &recv}, call: func() { recv.MulTri(a, b) }, want: errShape}, st)
				r2 := mkTri(n+1, ka, 3)
				runMatCheck(t, matCheck{name: fmt.Sprintf("TriDense(n=%d).ScaleTri(2, n=%d)", n+1, n), objs: []any{a, r2}, call: func() { r2.ScaleTri(2, a) }, want: errShape}, st)
				r3 := mkTri(n+1, ka, 3)
				runMatCheck(t, matCheck{name: fmt.Sprintf("TriDense(n=%d).InverseTri(n=%d)", n+1, n), objs: []any{a, r3}, call: func() { _ = r3.InverseTri(a) }, want: errShape}, st)
				r4 := mkTri(n+1, ka, 3)
				runMatCheck(t, matCheck{name: fmt.Sprintf("TriDense(n=%d).MulTri(n=%d,n=%d)", n+1, n, n), objs: []any{a, r4}, call: func() { r4.MulTri(a, a) }, want: errShape}, st)
			}
		}
		finishMat(t, st, "square/triangle")
	})
}

// ---- group: shape agreement of the binary methods ----------------------------------------------

// operand forms of a logical r×c matrix
func denseForms(r, c, salt int) []struct {
	name string
	m    mat.Matrix
	raw  any
} {
	d := mkDense(r, c, salt)
	tr := mkDense(c, r, salt+1)
	vw := mkDenseView(r, c, salt+2)
	out := []struct {
		name string
		m    mat.Matrix
		raw  any
	}{{"Dense", d, d}, {"Dense.T", tr.T(), tr}, {"View", vw, vw}}
	if r == c {
		s := mkSym(r, salt)
		out = append(out, struct {
			name string
			m    mat.Matrix
			raw  any
		}{"Sym", s, s})
	}
	if c == 1 {
		v := mkVec(r, salt)
		out = append(out, struct {
			name string
			m    mat.Matrix
			raw  any
		}{"Vec", v, v})
	}
	return out
}

func genMatShape(g *vlib.G) {
	dims := vlib.Pick(g, []int{1, 2, 3}, []int{1, 2, 3, 5})
	type binop struct {
		name string
		f    func(m *mat.Dense, a, b mat.Matrix)
	}
	elem := []binop{
		{"Add", func(m *mat.Dense, a, b mat.Matrix) { m.Add(a, b) }},
		{"Sub", func(m *mat.Dense, a, b mat.Matrix) { m.Sub(a, b) }},
		{"MulElem", func(m *mat.Dense, a, b mat.Matrix) { m.MulElem(a, b) }},
		{"DivElem", func(m *mat.Dense, a, b mat.Matrix) { m.DivElem(a, b) }},
	}
	for _, op := range elem {
		for _, r := range dims {
			for _, c := range dims {
				op, r, c := op, r, c
				g.Case(fmt.Sprintf("Dense.%s %dx%d", op.name, r, c), func(t *vlib.T) {
					st := &matStats{errs: map[string]bool{}}
					for _, fa := range denseForms(r, c, 1) {
						for _, fb := range denseForms(r, c, 2) {
							nm := fmt.Sprintf("Dense.%s(%s %dx%d, %s ", op.name, fa.name, r, c, fb.name)
							recv := mkDense(r, c, 3)
							runMatCheck(t, matCheck{name: nm + "same) recv same", objs: []any{fa.raw, fb.raw}, call: func() { op.f(recv, fa.m, fb.m) }, valid: true}, st)
							var empty mat.Dense
							runMatCheck(t, matCheck{name: nm + "same) recv empty", objs: []any{fa.raw, fb.raw}, call: func() { op.f(&empty, fa.m, fb.m) }, valid: true}, st)
							for _, o := range otherShapes(r, c) {
								recv := mkDense(o[0], o[1], 3)
								runMatCheck(t, matCheck{name: nm + fmt.Sprintf("same) recv %dx%d", o[0], o[1]), objs: []any{recv, fa.raw, fb.raw},
									call: func() { op.f(recv, fa.m, fb.m) }, want: errShape}, st)
							}
						}
						for _, o := range otherShapes(r, c) {
							for _, fb := range denseForms(o[0], o[1], 2) {
								for _, rs := range [][2]int{{r, c}, {o[0], o[1]}, {0, 0}} {
									recv := &mat.Dense{}
									if rs[0] > 0 {
										recv = mkDense(rs[0], rs[1], 3)
									}
									nm := fmt.Sprintf("Dense(%dx%d).%s(%s %dx%d, %s %dx%d)", rs[0], rs[1], op.name, fa.name, r, c, fb.name, o[0], o[1])
									runMatCheck(t, matCheck{name: nm, objs: []any{recv, fa.raw, fb.raw}, call: func() { op.f(recv, fa.m, fb.m) }, want: errShape}, st)
									nm = fmt.Sprintf("Dense(%dx%d).%s(%s %dx%d, %s %dx%d)", rs[0], rs[1], op.name, fb.name, o[0], o[1], fa.name, r, c)
									runMatCheck(t, matCheck{name: nm, objs: []any{recv, fa.raw, fb.raw}, call: func() { op.f(recv, fb.m, fa.m) }, want: errShape}, st)
								}
							}
						}
					}
					finishMat(t, st, "Dense."+op.name)
				})
			}
		}
	}
	// Mul, Product, Solve, Stack, Augment, Kronecker, Scale, Apply, Outer, RankOne
	for _, r := range dims {
		for _, k := range dims {
			for _, c := range dims {
				r, k, c := r, k, c
				g.Case(fmt.Sprintf("Dense.Mul %dx%d * %dx%d", r, k, k, c), func(t *vlib.T) {
					st := &matStats{errs: map[string]bool{}}
					for _, fa := range denseForms(r, k, 1) {
						for _, fb := range denseForms(k, c, 2) {
							recv := mkDense(r, c, 3)
							nm := fmt.Sprintf("Mul(%s %dx%d, %s %dx%d)", fa.name, r, k, fb.name, k, c)
							runMatCheck(t, matCheck{name: "Dense(same)." + nm, objs: []any{fa.raw, fb.raw}, call: func() { recv.Mul(fa.m, fb.m) }, valid: true}, st)
							for _, o := range otherShapes(r, c) {
								recv := mkDense(o[0], o[1], 3)
								runMatCheck(t, matCheck{name: fmt.Sprintf("Dense(%dx%d).", o[0], o[1]) + nm, objs: []any{recv, fa.raw, fb.raw}, call: func() { recv.Mul(fa.m, fb.m) }, want: errShape}, st)
							}
							var p mat.Dense
							runMatCheck(t, matCheck{name: "Dense(empty).Product " + nm, objs: []any{fa.raw, fb.raw}, call: func() { p.Product(fa.m, fb.m) }, valid: true}, st)
						}
						for _, k2 := range []int{k + 1, k - 1} {
							if k2 == 0 {
								continue
							}
							for _, fb := range denseForms(k2, c, 2) {
								for _, recv := range []*mat.Dense{mkDense(r, c, 3), {}} {
									nm := fmt.Sprintf("Dense(%v).Mul(%s %dx%d, %s %dx%d)", !recv.IsEmpty(), fa.name, r, k, fb.name, k2, c)
									runMatCheck(t, matCheck{name: nm, objs: []any{recv, fa.raw, fb.raw}, call: func() { recv.Mul(fa.m, fb.m) }, want: errShape}, st)
									nm = "Product " + nm
									runMatCheck(t, matCheck{name: nm, objs: []any{recv, fa.raw, fb.raw}, call: func() { recv.Product(fa.m, fb.m) }, want: errShape}, st)
								}
							}
						}
					}
					finishMat(t, st, "Dense.Mul")
				})
			}
		}
	}
	for _, r := range dims {
		for _, c := range dims {
			r, c := r, c
			g.Case(fmt.Sprintf("Dense unary/stack %dx%d", r, c), func(t *vlib.T) {
				st := &matStats{errs: map[string]bool{}}
				for _, fa := range denseForms(r, c, 1) {
					for _, o := range otherShapes(r, c) {
						recv := mkDense(o[0], o[1], 3)
						nm := fmt.Sprintf("Dense(%dx%d).", o[0], o[1])
						arg := fmt.Sprintf("(%s %dx%d)", fa.name, r, c)
						runMatCheck(t, matCheck{name: nm + "Scale" + arg, objs: []any{recv, fa.raw}, call: func() { recv.Scale(2, fa.m) }, want: errShape}, st)
						runMatCheck(t, matCheck{name: nm + "Apply" + arg, objs: []any{recv, fa.raw}, call: func() {
							recv.Apply(func(i, j int, v float64) float64 { return v + 1 }, fa.m)
						}, want: errShape}, st)
						kr := mkDense(2*r+1, 2*c, 3)
						runMatCheck(t, matCheck{name: fmt.Sprintf("Dense(%dx%d).Kronecker(%s %dx%d, 2x2)", 2*r+1, 2*c, fa.name, r, c), objs: []any{kr, fa.raw}, call: func() { kr.Kronecker(fa.m, mkDense(2, 2, 0)) }, want: errShape}, st)
					}
					same := mkDense(r, c, 3)
					runMatCheck(t, matCheck{name: fmt.Sprintf("Dense(%dx%d).Scale(%s same)", r, c, fa.name), objs: []any{fa.raw}, call: func() { same.Scale(2, fa.m) }, valid: true}, st)
					// Stack: equal column counts; Augment: equal row counts
					for _, fb := range denseForms(r+1, c, 2) {
						var s mat.Dense
						runMatCheck(t, matCheck{name: fmt.Sprintf("Stack(%s %dx%d, %s %dx%d)", fa.name, r, c, fb.name, r+1, c), objs: []any{fa.raw, fb.raw}, call: func() { s.Stack(fa.m, fb.m) }, valid: true}, st)
						var a mat.Dense
						runMatCheck(t, matCheck{name: fmt.Sprintf("Augment(%s %dx%d, %s %dx%d)", fa.name, r, c, fb.name, r+1, c), objs: []any{&a, fa.raw, fb.raw}, call: func() { a.Augment(fa.m, fb.m) }, want: errShape}, st)
						wrong := mkDense(2*r+1, c+1, 3)
						runMatCheck(t, matCheck{name: fmt.Sprintf("Dense(%dx%d).Stack(%dx%d, %dx%d)", 2*r+1, c+1, r, c, r+1, c), objs: []any{wrong, fa.raw, fb.raw}, call: func() { wrong.Stack(fa.m, fb.m) }, want: errShape}, st)
					}
					for _, fb := range denseForms(r, c+1, 2) {
						var s mat.Dense
						runMatCheck(t, matCheck{name: fmt.Sprintf("Stack(%s %dx%d, %s %dx%d)", fa.name, r, c, fb.name, r, c+1), objs: []any{&s, fa.raw, fb.raw}, call: func() { s.Stack(fa.m, fb.m) }, want: errShape}, st)
						var a mat.Dense
						runMatCheck(t, matCheck{name: fmt.Sprintf("Augment(%s %dx%d, %s %dx%d)", fa.name, r, c, fb.name, r, c+1), objs: []any{fa.raw, fb.raw}, call: func() { a.Augment(fa.m, fb.m) }, valid: true}, st)
						wrong := mkDense(r+1, 2*c+1, 3)
						runMatCheck(t, matCheck{name: fmt.Sprintf("Dense(%dx%d).Augment(%dx%d, %dx%d)", r+1, 2*c+1, r, c, r, c+1), objs: []any{wrong, fa.raw, fb.raw}, call: func() { wrong.Augment(fa.m, fb.m) }, want: errShape}, st)
					}
					// Solve: a r×c, b must have r rows
					b := mkDense(r+1, 2, 4)
					var x mat.Dense
					runMatCheck(t, matCheck{name: fmt.Sprintf("Solve(%s %dx%d, %dx2)", fa.name, r, c, r+1), objs: []any{&x, fa.raw, b}, call: func() { _ = x.Solve(fa.m, b) }, want: errShape}, st)
				}
				// Outer, RankOne
				for _, strided := range []bool{false, true} {
					mkv := mkVec
					if strided {
						mkv = mkVecInc
					}
					x, y := mkv(r, 1), mkv(c, 2)
					recv := mkDense(r, c, 3)
					runMatCheck(t, matCheck{name: "Outer same", objs: []any{x, y}, call: func() { recv.Outer(2, x, y) }, valid: true}, st)
					for _, o := range otherShapes(r, c) {
						recv := mkDense(o[0], o[1], 3)
						runMatCheck(t, matCheck{name: fmt.Sprintf("Dense(%dx%d).Outer(len %d, len %d)", o[0], o[1], r, c), objs: []any{recv, x, y}, call: func() { recv.Outer(2, x, y) }, want: errShape}, st)
						a := mkDense(r, c, 4)
						x2, y2 := mkv(o[0], 1), mkv(o[1], 2)
						var r1 mat.Dense
						runMatCheck(t, matCheck{name: fmt.Sprintf("RankOne(a %dx%d, x len %d, y len %d)", r, c, o[0], o[1]), objs: []any{&r1, a, x2, y2}, call: func() { r1.RankOne(a, 2, x2, y2) }, want: errShape}, st)
						r2 := mkDense(o[0], o[1], 3)
						runMatCheck(t, matCheck{name: fmt.Sprintf("Dense(%dx%d).RankOne(a %dx%d, x, y)", o[0], o[1], r, c), objs: []any{r2, a, x, y}, call: func() { r2.RankOne(a, 2, x, y) }, want: errShape}, st)
					}
				}
				finishMat(t, st, "Dense unary/stack")
			})
		}
	}
	// VecDense
	type vecop struct {
		name string
		f    func(v *mat.VecDense, a, b mat.Vector)
	}
	vops := []vecop{
		{"AddVec", func(v *mat.VecDense, a, b mat.Vector) { v.AddVec(a, b) }},
		{"SubVec", func(v *mat.VecDense, a, b mat.Vector) { v.SubVec(a, b) }},
		{"MulElemVec", func(v *mat.VecDense, a, b mat.Vector) { v.MulElemVec(a, b) }},
		{"DivElemVec", func(v *mat.VecDense, a, b mat.Vector) { v.DivElemVec(a, b) }},
		{"AddScaledVec", func(v *mat.VecDense, a, b mat.Vector) { v.AddScaledVec(a, 2, b) }},
	}
	for _, op := range vops {
		for _, n := range dims {
			op, n := op, n
			g.Case(fmt.Sprintf("VecDense.%s n=%d", op.name, n), func(t *vlib.T) {
				st := &matStats{errs: map[string]bool{}}
				mks := []func(int, int) *mat.VecDense{mkVec, mkVecInc}
				for ia, mka := range mks {
					for ib, mkb := range mks {
						a, b := mka(n, 1), mkb(n, 2)
						recv := mkVec(n, 3)
						nm := fmt.Sprintf("%s(inc%d len %d, inc%d ", op.name, ia+1, n, ib+1)
						runMatCheck(t, matCheck{name: nm + "same)", objs: []any{a, b}, call: func() { op.f(recv, a, b) }, valid: true}, st)
						for _, n2 := range []int{n + 1, n - 1} {
							if n2 == 0 {
								continue
							}
							b2 := mkb(n2, 2)
							for _, recv := range []*mat.VecDense{mkVec(n, 3), mkVec(n2, 3), {}} {
								runMatCheck(t, matCheck{name: fmt.Sprintf("VecDense(len %d).", recv.Len()) + nm + fmt.Sprintf("len %d)", n2), objs: []any{recv, a, b2}, call: func() { op.f(recv, a, b2) }, want: errShape}, st)
								runMatCheck(t, matCheck{name: fmt.Sprintf("VecDense(len %d).", recv.Len()) + nm + fmt.Sprintf("len %d) swapped", n2), objs: []any{recv, a, b2}, call: func() { op.f(recv, b2, a) }, want: errShape}, st)
							}
							recv2 := mkVec(n2, 3)
							runMatCheck(t, matCheck{name: fmt.Sprintf("VecDense(len %d).", n2) + nm + "same)", objs: []any{recv2, a, b}, call: func() { op.f(recv2, a, b) }, want: errShape}, st)
							recv3 := mkVecInc(n2, 3)
							runMatCheck(t, matCheck{name: fmt.Sprintf("VecDense(inc2 len %d).", n2) + nm + "same)", objs: []any{recv3, a, b}, call: func() { op.f(recv3, a, b) }, want: errShape}, st)
						}
					}
				}
				finishMat(t, st, "VecDense."+op.name)
			})
		}
	}
	for _, r := range dims {
		for _, c := range dims {
			r, c := r, c
			g.Case(fmt.Sprintf("VecDense.MulVec/ScaleVec/SolveVec %dx%d", r, c), func(t *vlib.T) {
				st := &matStats{errs: map[string]bool{}}
				for _, fa := range denseForms(r, c, 1) {
					for _, strided := range []bool{false, true} {
						mkv := mkVec
						if strided {
							mkv = mkVecInc
						}
						b := mkv(c, 2)
						recv := mkVec(r, 3)
						nm := fmt.Sprintf("MulVec(%s %dx%d, len ", fa.name, r, c)
						runMatCheck(t, matCheck{name: nm + "c)", objs: []any{fa.raw, b}, call: func() { recv.MulVec(fa.m, b) }, valid: true}, st)
						for _, c2 := range []int{c + 1, c - 1} {
							if c2 == 0 {
								continue
							}
							b2 := mkv(c2, 2)
							for _, recv := range []*mat.VecDense{mkVec(r, 3), {}} {
								runMatCheck(t, matCheck{name: nm + fmt.Sprintf("%d)", c2), objs: []any{recv, fa.raw, b2}, call: func() { recv.MulVec(fa.m, b2) }, want: errShape}, st)
							}
						}
						for _, r2 := range []int{r + 1, r - 1} {
							if r2 == 0 {
								continue
							}
							recv := mkv(r2, 3)
							runMatCheck(t, matCheck{name: fmt.Sprintf("VecDense(len %d).", r2) + nm + "c)", objs: []any{recv, fa.raw, b}, call: func() { recv.MulVec(fa.m, b) }, want: errShape}, st)
						}
						bs := mkv(r+1, 2)
						var x mat.VecDense
						runMatCheck(t, matCheck{name: fmt.Sprintf("SolveVec(%s %dx%d, len %d)", fa.name, r, c, r+1), objs: []any{&x, fa.raw, bs}, call: func() { _ = x.SolveVec(fa.m, bs) }, want: errShape,
							knownEmpty: "solvevec-empty-receiver-sized-before-shape-check"}, st)
					}
				}
				a := mkVec(r, 1)
				for _, n2 := range []int{r + 1, r - 1} {
					if n2 == 0 {
						continue
					}
					recv := mkVec(n2, 3)
					runMatCheck(t, matCheck{name: fmt.Sprintf("VecDense(len %d).ScaleVec(2, len %d)", n2, r), objs: []any{recv, a}, call: func() { recv.ScaleVec(2, a) }, want: errShape}, st)
				}
				finishMat(t, st, "VecDense.MulVec")
			})
		}
	}
	// SymDense
	for _, n := range dims {
		n := n
		g.Case(fmt.Sprintf("SymDense n=%d", n), func(t *vlib.T) {
			st := &matStats{errs: map[string]bool{}}
			a := mkSym(n, 1)
			for _, n2 := range []int{n + 1, n - 1} {
				if n2 == 0 {
					continue
				}
				b := mkSym(n2, 2)
				x2 := mkVec(n2, 3)
				xm2 := mkDense(n2, 2, 3)
				for _, recv := range []*mat.SymDense{mkSym(n, 4), mkSym(n2, 4), {}} {
					nm := fmt.Sprintf("SymDense(n=%d).", recv.SymmetricDim())
					runMatCheck(t, matCheck{name: nm + fmt.Sprintf("AddSym(n=%d, n=%d)", n, n2), objs: []any{recv, a, b}, call: func() { recv.AddSym(a, b) }, want: errShape}, st)
					runMatCheck(t, matCheck{name: nm + fmt.Sprintf("AddSym(n=%d, n=%d)", n2, n), objs: []any{recv, a, b}, call: func() { recv.AddSym(b, a) }, want: errShape}, st)
					runMatCheck(t, matCheck{name: nm + fmt.Sprintf("SymRankOne(n=%d, x len %d)", n, n2), objs: []any{recv, a, x2}, call: func() { recv.SymRankOne(a, 2, x2) }, want: errShape}, st)
					runMatCheck(t, matCheck{name: nm + fmt.Sprintf("SymRankK(n=%d, x %dx2)", n, n2), objs: []any{recv, a, xm2}, call: func() { recv.SymRankK(a, 2, xm2) }, want: errShape}, st)
					runMatCheck(t, matCheck{name: nm + fmt.Sprintf("RankTwo(n=%d, x len %d, y len %d)", n, n2, n), objs: []any{recv, a, x2}, call: func() { recv.RankTwo(a, 2, x2, mkVec(n, 5)) }, want: errShape}, st)
					runMatCheck(t, matCheck{name: nm + fmt.Sprintf("RankTwo(n=%d, x len %d, y len %d)", n, n, n2), objs: []any{recv, a, x2}, call: func() { recv.RankTwo(a, 2, mkVec(n, 5), x2) }, want: errShape}, st)
				}
				recv := mkSym(n2, 4)
				nm := fmt.Sprintf("SymDense(n=%d).", n2)
				runMatCheck(t, matCheck{name: nm + fmt.Sprintf("AddSym(n=%d, n=%d)", n, n), objs: []any{recv, a}, call: func() { recv.AddSym(a, a) }, want: errShape}, st)
				runMatCheck(t, matCheck{name: nm + fmt.Sprintf("ScaleSym(2, n=%d)", n), objs: []any{recv, a}, call: func() { recv.ScaleSym(2, a) }, want: errShape}, st)
				runMatCheck(t, matCheck{name: nm + fmt.Sprintf("SymRankOne(n=%d, x len %d)", n, n), objs: []any{recv, a}, call: func() { recv.SymRankOne(a, 2, mkVec(n, 5)) }, want: errShape}, st)
				runMatCheck(t, matCheck{name: nm + fmt.Sprintf("SymOuterK(2, x %dx2)", n), objs: []any{recv}, call: func() { recv.SymOuterK(2, mkDense(n, 2, 5)) }, want: errShape}, st)
				runMatCheck(t, matCheck{name: nm + fmt.Sprintf("SymRankK(n=%d, x %dx2)", n, n), objs: []any{recv, a}, call: func() { recv.SymRankK(a, 2, mkDense(n, 2, 5)) }, want: errShape}, st)
				runMatCheck(t, matCheck{name: nm + fmt.Sprintf("RankTwo(n=%d, x, y len %d)", n, n), objs: []any{recv, a}, call: func() { recv.RankTwo(a, 2, mkVec(n, 5), mkVec(n, 6)) }, want: errShape}, st)
			}
			ok := mkSym(n, 4)
			runMatCheck(t, matCheck{name: "AddSym same", objs: []any{a}, call: func() { ok.AddSym(a, a) }, valid: true}, st)
			runMatCheck(t, matCheck{name: "SymRankOne same", objs: []any{a}, call: func() { ok.SymRankOne(a, 2, mkVec(n, 5)) }, valid: true}, st)
			runMatCheck(t, matCheck{name: "RankTwo same", objs: []any{a}, call: func() { ok.RankTwo(a, 2, mkVec(n, 5), mkVec(n, 6)) }, valid: true}, st)
			finishMat(t, st, "SymDense")
		})
	}
}
