// wrap_struct.go — the struct wrappers blas32/blas64/cblas64/cblas128 and
// lapack64 called with one inconsistent field in one struct argument (Data one
// element short, Stride below the row length, Inc = 0) or one short slice:
// the call must panic with the wrapper's own or the underlying package's
// message, never a runtime.Error, and write nothing; the consistent call must
// not panic. The table `wrappers` is copied from harness/c01/wrap.go.
package main

import (
	"fmt"
	"reflect"
	"strings"

	"gonum.org/v1/gonum/blas"
	"gonum.org/v1/gonum/blas/blas32"
	"gonum.org/v1/gonum/blas/blas64"
	"gonum.org/v1/gonum/blas/cblas128"
	"gonum.org/v1/gonum/blas/cblas64"
	"gonum.org/v1/gonum/internal/verif/vlib"
)

var (
	tyTranspose = reflect.TypeOf(blas.NoTrans)
	tySide      = reflect.TypeOf(blas.Left)
)

// wrappers[p][name] is the wrapper function of precision p.
var wrappers = [4]map[string]any{
	S: {
		"Dot": blas32.Dot, "DDot": blas32.DDot, "SDDot": blas32.SDDot, "Nrm2": blas32.Nrm2, "Asum": blas32.Asum,
		"Iamax": blas32.Iamax, "Swap": blas32.Swap, "Copy": blas32.Copy, "Axpy": blas32.Axpy, "Rotg": blas32.Rotg,
		"Rotmg": blas32.Rotmg, "Rot": blas32.Rot, "Rotm": blas32.Rotm, "Scal": blas32.Scal,
		"Gemv": blas32.Gemv, "Gbmv": blas32.Gbmv, "Trmv": blas32.Trmv, "Tbmv": blas32.Tbmv, "Tpmv": blas32.Tpmv,
		"Trsv": blas32.Trsv, "Tbsv": blas32.Tbsv, "Tpsv": blas32.Tpsv, "Symv": blas32.Symv, "Sbmv": blas32.Sbmv,
		"Spmv": blas32.Spmv, "Ger": blas32.Ger, "Syr": blas32.Syr, "Spr": blas32.Spr, "Syr2": blas32.Syr2, "Spr2": blas32.Spr2,
		"Gemm": blas32.Gemm, "Symm": blas32.Symm, "Syrk": blas32.Syrk, "Syr2k": blas32.Syr2k, "Trmm": blas32.Trmm, "Trsm": blas32.Trsm,
	},
	D: {
		"Dot": blas64.Dot, "Nrm2": blas64.Nrm2, "Asum": blas64.Asum,
		"Iamax": blas64.Iamax, "Swap": blas64.Swap, "Copy": blas64.Copy, "Axpy": blas64.Axpy, "Rotg": blas64.Rotg,
		"Rotmg": blas64.Rotmg, "Rot": blas64.Rot, "Rotm": blas64.Rotm, "Scal": blas64.Scal,
		"Gemv": blas64.Gemv, "Gbmv": blas64.Gbmv, "Trmv": blas64.Trmv, "Tbmv": blas64.Tbmv, "Tpmv": blas64.Tpmv,
		"Trsv": blas64.Trsv, "Tbsv": blas64.Tbsv, "Tpsv": blas64.Tpsv, "Symv": blas64.Symv, "Sbmv": blas64.Sbmv,
		"Spmv": blas64.Spmv, "Ger": blas64.Ger, "Syr": blas64.Syr, "Spr": blas64.Spr, "Syr2": blas64.Syr2, "Spr2": blas64.Spr2,
		"Gemm": blas64.Gemm, "Symm": blas64.Symm, "Syrk": blas64.Syrk, "Syr2k": blas64.Syr2k, "Trmm": blas64.Trmm, "Trsm": blas64.Trsm,
	},
	C: {
		"Dotu": cblas64.Dotu, "Dotc": cblas64.Dotc, "Nrm2": cblas64.Nrm2, "Asum": cblas64.Asum, "Iamax": cblas64.Iamax,
		"Swap": cblas64.Swap, "Copy": cblas64.Copy, "Axpy": cblas64.Axpy, "Scal": cblas64.Scal, "Dscal": cblas64.Dscal,
		"Gemv": cblas64.Gemv, "Gbmv": cblas64.Gbmv, "Trmv": cblas64.Trmv, "Tbmv": cblas64.Tbmv, "Tpmv": cblas64.Tpmv,
		"Trsv": cblas64.Trsv, "Tbsv": cblas64.Tbsv, "Tpsv": cblas64.Tpsv, "Hemv": cblas64.Hemv, "Hbmv": cblas64.Hbmv,
		"Hpmv": cblas64.Hpmv, "Geru": cblas64.Geru, "Gerc": cblas64.Gerc, "Her": cblas64.Her, "Hpr": cblas64.Hpr,
		"Her2": cblas64.Her2, "Hpr2": cblas64.Hpr2,
		"Gemm": cblas64.Gemm, "Symm": cblas64.Symm, "Syrk": cblas64.Syrk, "Syr2k": cblas64.Syr2k, "Trmm": cblas64.Trmm,
		"Trsm": cblas64.Trsm, "Hemm": cblas64.Hemm, "Herk": cblas64.Herk, "Her2k": cblas64.Her2k,
	},
	Z: {
		"Dotu": cblas128.Dotu, "Dotc": cblas128.Dotc, "Nrm2": cblas128.Nrm2, "Asum": cblas128.Asum, "Iamax": cblas128.Iamax,
		"Swap": cblas128.Swap, "Copy": cblas128.Copy, "Axpy": cblas128.Axpy, "Scal": cblas128.Scal, "Dscal": cblas128.Dscal,
		"Gemv": cblas128.Gemv, "Gbmv": cblas128.Gbmv, "Trmv": cblas128.Trmv, "Tbmv": cblas128.Tbmv, "Tpmv": cblas128.Tpmv,
		"Trsv": cblas128.Trsv, "Tbsv": cblas128.Tbsv, "Tpsv": cblas128.Tpsv, "Hemv": cblas128.Hemv, "Hbmv": cblas128.Hbmv,
		"Hpmv": cblas128.Hpmv, "Geru": cblas128.Geru, "Gerc": cblas128.Gerc, "Her": cblas128.Her, "Hpr": cblas128.Hpr,
		"Her2": cblas128.Her2, "Hpr2": cblas128.Hpr2,
		"Gemm": cblas128.Gemm, "Symm": cblas128.Symm, "Syrk": cblas128.Syrk, "Syr2k": cblas128.Syr2k, "Trmm": cblas128.Trmm,
		"Trsm": cblas128.Trsm, "Hemm": cblas128.Hemm, "Herk": cblas128.Herk, "Her2k": cblas128.Her2k,
	},
}


var wrapPkg = map[Prec]string{S: "blas32", D: "blas64", C: "cblas64", Z: "cblas128"}

// wrapCall is one assembled wrapper call.
type wrapCall struct {
	fv   reflect.Value
	in   []reflect.Value
	opAt []int // parameter index of operand k
	name string
}

// operandStruct fills a blas64.General / Vector / Band / Triangular / ... value.
func operandStruct(c *Call, k int, data reflect.Value, pt reflect.Type) reflect.Value {
	od := &c.R.Ops[k]
	rows := od.Rows(c)
	cols := 0
	if od.Cols != nil {
		cols = od.Cols(c)
	}
	x := reflect.New(pt).Elem()
	for i := 0; i < pt.NumField(); i++ {
		f := x.Field(i)
		switch name := pt.Field(i).Name; name {
		case "N", "Rows":
			f.SetInt(int64(rows))
		case "Cols":
			f.SetInt(int64(cols))
		case "K":
			f.SetInt(int64(c.K))
		case "KL":
			f.SetInt(int64(c.KL))
		case "KU":
			f.SetInt(int64(c.KU))
		case "Stride":
			f.SetInt(int64(c.Ld[k]))
		case "Inc":
			f.SetInt(int64(c.Inc[k]))
		case "Uplo":
			f.Set(reflect.ValueOf(c.UL))
		case "Diag":
			f.Set(reflect.ValueOf(c.DG))
		case "Data":
			f.Set(data)
		default:
			panic("harness: unknown wrapper struct field " + name)
		}
	}
	return x
}

// withField returns a copy of struct value x with field name set to v.
func withField(x reflect.Value, name string, v reflect.Value) reflect.Value {
	y := reflect.New(x.Type()).Elem()
	y.Set(x)
	y.FieldByName(name).Set(v)
	return y
}

func describeWrap(name string, in []reflect.Value) string {
	var sb strings.Builder
	sb.WriteString(name + "(")
	for i, v := range in {
		if i > 0 {
			sb.WriteString(", ")
		}
		switch v.Kind() {
		case reflect.Struct:
			sb.WriteString(v.Type().Name() + "{")
			for j := 0; j < v.NumField(); j++ {
				f := v.Field(j)
				if j > 0 {
					sb.WriteString(" ")
				}
				fn := v.Type().Field(j).Name
				switch f.Kind() {
				case reflect.Slice:
					fmt.Fprintf(&sb, "len(%s)=%d", fn, f.Len())
				case reflect.Uint8:
					fmt.Fprintf(&sb, "%s='%c'", fn, rune(f.Uint()))
				case reflect.Array:
					// rotm H
				default:
					fmt.Fprintf(&sb, "%s=%v", fn, f.Interface())
				}
			}
			sb.WriteString("}")
		case reflect.Slice:
			fmt.Fprintf(&sb, "len=%d", v.Len())
		case reflect.Uint8:
			fmt.Fprintf(&sb, "'%c'", rune(v.Uint()))
		default:
			fmt.Fprint(&sb, v.Interface())
		}
	}
	sb.WriteString(")")
	return sb.String()
}

// buildWrap assembles the wrapper call of c (adapted from c01 wrapperInvoker).
func buildWrap(c *Call, slices []reflect.Value) *wrapCall {
	f, ok := wrappers[c.P][c.R.Wrapper]
	if !ok {
		panic(fmt.Sprintf("harness: no wrapper %s for precision %v", c.R.Wrapper, c.P))
	}
	fv := reflect.ValueOf(f)
	ft := fv.Type()
	w := &wrapCall{fv: fv, in: make([]reflect.Value, ft.NumIn()), opAt: make([]int, len(c.R.Ops)), name: wrapPkg[c.P] + "." + c.R.Wrapper}
	var trans []reflect.Value
	var scalarToks []string
	var opOrder []int
	for _, tok := range c.R.Args {
		switch tok {
		case "tA":
			trans = append(trans, reflect.ValueOf(c.TA))
		case "tB":
			trans = append(trans, reflect.ValueOf(c.TB))
		case "alpha", "c", "beta", "s":
			scalarToks = append(scalarToks, tok)
		}
		if k := c.R.Op(tok); k >= 0 {
			opOrder = append(opOrder, k)
		}
	}
	nextOp := 0
	for i := range w.in {
		pt := ft.In(i)
		switch {
		case pt == tyTranspose:
			w.in[i], trans = trans[0], trans[1:]
		case pt == tySide:
			w.in[i] = reflect.ValueOf(c.SD)
		case pt.Kind() == reflect.Int:
			w.in[i] = reflect.ValueOf(c.N)
		case pt.Kind() == reflect.Float32 || pt.Kind() == reflect.Float64 || pt.Kind() == reflect.Complex64 || pt.Kind() == reflect.Complex128:
			tok := scalarToks[0]
			scalarToks = scalarToks[1:]
			v := c.Alpha
			if tok == "beta" || tok == "s" {
				v = c.Beta
			}
			w.in[i] = scalarValue(v, pt)
		case pt.Kind() == reflect.Struct && strings.HasSuffix(pt.Name(), "rotmParams"):
			w.in[i] = rotmValue(c.RotmFlag, pt)
		case pt.Kind() == reflect.Struct:
			k := opOrder[nextOp]
			nextOp++
			w.opAt[k] = i
			w.in[i] = operandStruct(c, k, slices[k], pt)
		default:
			panic(fmt.Sprintf("harness: wrapper %s parameter %d of type %v", w.name, i, pt))
		}
	}
	if nextOp != len(opOrder) || len(trans) != 0 || len(scalarToks) != 0 {
		panic(fmt.Sprintf("harness: wrapper %s does not consume the arguments of the spec row", w.name))
	}
	return w
}

type wrapStats struct{ valid, faults int64 }

// runWrapBase runs the consistent call and every single-field fault.
func runWrapBase(t failer, c *Call, regs []*region, st *wrapStats) {
	r := c.R
	nops := len(r.Ops)
	nd := make([]int, nops)
	slices := make([]reflect.Value, nops)
	for k := range r.Ops {
		nd[k] = need(c, k)
		if nd[k]+2*padElems > regs[k].total {
			panic("harness: operand larger than its region")
		}
		slices[k] = regs[k].slice(nd[k])
	}
	w := buildWrap(c, slices)
	_, e := invoke(w.fv, w.in)
	st.valid++
	if o := classify(e, isBlasMsg); o.class != pcNone {
		t.FailClass("valid-call-panics", "%s: consistent arguments (Data exactly minimal) but the call %s", describeWrap(w.name, w.in), o)
	}
	for k := range r.Ops {
		reg := regs[k]
		pre, post := reg.off*reg.es, (reg.off+nd[k])*reg.es
		if string(reg.bytes[:pre]) != string(reg.snap[:pre]) || string(reg.bytes[post:]) != string(reg.snap[post:]) {
			t.FailClass("write-outside-slice", "%s: memory outside Data of operand %s was written", describeWrap(w.name, w.in), r.Ops[k].Name)
		}
		reg.restore()
	}
	type wf struct {
		k     int
		val   reflect.Value
		n     int
		msg   string
		label string
	}
	var fs []wf
	negOne := oneVector(r) && c.Inc[0] < 0
	for k := range r.Ops {
		od := &r.Ops[k]
		base := w.in[w.opAt[k]]
		lname := strings.ToLower(od.Name)
		if !negOne && nonEmpty(c) && nd[k] > 0 {
			fs = append(fs, wf{k, withField(base, "Data", regs[k].slice(nd[k] - 1)), nd[k] - 1, shortMsg(od), fmt.Sprintf("len(%s.Data)=%d", lname, nd[k]-1)})
		}
		if od.Kind.HasLD() {
			min := MinLd(c, k)
			fs = append(fs, wf{k, withField(base, "Stride", reflect.ValueOf(min - 1)), nd[k], "blas: bad leading dimension of " + od.Name, fmt.Sprintf("%s.Stride=%d", lname, min-1)})
		}
		if od.Kind == Vector {
			fs = append(fs, wf{k, withField(base, "Inc", reflect.ValueOf(0)), nd[k], "blas: zero " + lname + " index increment", lname + ".Inc=0"})
		}
	}
	lens := make([]int, nops)
	for _, f := range fs {
		old := w.in[w.opAt[f.k]]
		w.in[w.opAt[f.k]] = f.val
		copy(lens, nd)
		lens[f.k] = f.n
		_, e := invoke(w.fv, w.in)
		st.faults++
		o := classify(e, func(s string) bool { return isBlasMsg(s) || strings.HasPrefix(s, wrapPkg[c.P]+": ") })
		what := fmt.Sprintf("%s [single fault %s]", describeWrap(w.name, w.in), f.label)
		switch {
		case o.class == pcNone:
			t.FailClass("invalid-accepted", "%s: returned normally, want panic %q", what, f.msg)
		case o.class == pcFault:
			t.FailClass("memory-fault", "%s: %s, want panic %q", what, o, f.msg)
		case o.class == pcRuntime:
			t.FailClass("runtime-error-for-invalid", "%s: %s, want panic %q", what, o, f.msg)
		case o.class == pcOther:
			t.FailClass("foreign-panic", "%s: %s, want panic %q", what, o, f.msg)
		case o.msg != f.msg && !strings.HasPrefix(o.msg, wrapPkg[c.P]+": "):
			t.FailClass("wrong-message", "%s: %s, want %q", what, o, f.msg)
		}
		for k := range r.Ops {
			if d := regs[k].changed(lens[k]); d != "" {
				t.FailClass("write-before-validate", "%s: operand %s was modified although the call panicked: %s", what, r.Ops[k].Name, d)
				regs[k].restore()
			}
		}
		w.in[w.opAt[f.k]] = old
	}
}

func genBlasWrapStruct(g *vlib.G) {
	if vlib.Env("VERIF_CONFIG", "default") == "bounds" {
		return
	}
	dims := vlib.Pick(g, []int{0, 1, 3}, []int{0, 1, 2, 3, 5})
	band := []int{0, 2}
	for _, r := range Routines {
		if r.Wrapper == "" || len(r.Ops) == 0 {
			continue
		}
		for _, p := range Precs {
			if r.Method(p) == "" {
				continue
			}
			r, p := r, p
			g.Case(wrapPkg[p]+"."+r.Wrapper, func(t *vlib.T) {
				var st wrapStats
				nops := len(r.Ops)
				var dimToks []string
				for _, tok := range r.Args {
					switch tok {
					case "m", "n", "k", "kl", "ku":
						dimToks = append(dimToks, tok)
					}
				}
				rad := []int{1, 1, 1, 1, 1} // tA tB uplo diag side
				if r.Has("tA") {
					rad[0] = len(r.Trans(p))
				}
				if r.Has("tB") {
					rad[1] = len(r.Trans(p))
				}
				if r.Has("uplo") {
					rad[2] = 2
				}
				if r.Has("diag") {
					rad[3] = 2
				}
				if r.Has("side") {
					rad[4] = 2
				}
				for range dimToks {
					rad = append(rad, 0)
				}
				for i, tok := range dimToks {
					if tok == "kl" || tok == "ku" || (tok == "k" && r.Level == 2) {
						rad[5+i] = len(band)
					} else {
						rad[5+i] = len(dims)
					}
				}
				incs := [][2]int{{1, 1}, {-2, 2}, {2, -1}}
				if oneVector(r) {
					incs = [][2]int{{1, 1}, {2, 2}}
				}
				// regions for the largest operand
				regs := make([]*region, nops)
				for k := range regs {
					regs[k] = newHeapRegionN(p, 200)
					regs[k].fill(3 * k)
				}
				vlib.Product(rad, func(idx []int) bool {
					for _, inc := range incs {
						for _, dl := range []int{0, 2} {
							c := Call{R: r, P: p, TA: blas.NoTrans, TB: blas.NoTrans, UL: uplos[idx[2]], DG: diags[idx[3]], SD: sides[idx[4]], Alpha: 2, Beta: 3, RotmFlag: blas.Rescaling}
							if r.Has("tA") {
								c.TA = r.Trans(p)[idx[0]]
							}
							if r.Has("tB") {
								c.TB = r.Trans(p)[idx[1]]
							}
							for i, tok := range dimToks {
								var x int
								if tok == "kl" || tok == "ku" || (tok == "k" && r.Level == 2) {
									x = band[idx[5+i]]
								} else {
									x = dims[idx[5+i]]
								}
								switch tok {
								case "m":
									c.M = x
								case "n":
									c.N = x
								case "k":
									c.K = x
								case "kl":
									c.KL = x
								case "ku":
									c.KU = x
								}
							}
							c.Ld, c.Inc = make([]int, nops), make([]int, nops)
							nv := 0
							for k := range r.Ops {
								if r.Ops[k].Kind == Vector {
									c.Inc[k] = inc[nv%2]
									nv++
								} else if r.Ops[k].Kind.HasLD() {
									c.Ld[k] = MinLd(&c, k) + dl
								}
							}
							runWrapBase(debugFailer{t}, &c, regs, &st)
						}
					}
					return true
				})
				t.Count("wrapper_struct_valid_calls", st.valid)
				t.Count("wrapper_struct_fault_calls", st.faults)
				t.Outcome("blas wrapper L" + fmt.Sprint(r.Level))
				t.Nontrivial()
			})
		}
	}
}
