// wrap_struct.go — the struct wrappers blas32/blas64/cblas64/cblas128 and
// lapack64 called with one inconsistent field in one struct argument (Data one
// element short, Stride below the row length, Inc = 0) or one short slice:
// the call must panic with the wrapper's own or the underlying package's
// message, never a runtime.Error, and write nothing; the consistent call must
// not panic. The table `wrappers` is copied from harness/c01/wrap.go.
package main

import (
	"fmt"
	"reflect"
	"strings"

	"gonum.org/v1/gonum/blas"
	"gonum.org/v1/gonum/blas/blas32"
	"gonum.org/v1/gonum/blas/blas64"
	"gonum.org/v1/gonum/blas/cblas128"
	"gonum.org/v1/gonum/blas/cblas64"
	"gonum.org/v1/gonum/internal/verif/vlib"
	"gonum.org/v1/gonum/lapack"
	"gonum.org/v1/gonum/lapack/lapack64"
)

var (
	tyTranspose = reflect.TypeOf(blas.NoTrans)
	tySide      = reflect.TypeOf(blas.Left)
)

// wrappers[p][name] is the wrapper function of precision p.
var wrappers = [4]map[string]any{
	S: {
		"Dot": blas32.Dot, "DDot": blas32.DDot, "SDDot": blas32.SDDot, "Nrm2": blas32.Nrm2, "Asum": blas32.Asum,
		"Iamax": blas32.Iamax, "Swap": blas32.Swap, "Copy": blas32.Copy, "Axpy": blas32.Axpy, "Rotg": blas32.Rotg,
		"Rotmg": blas32.Rotmg, "Rot": blas32.Rot, "Rotm": blas32.Rotm, "Scal": blas32.Scal,
		"Gemv": blas32.Gemv, "Gbmv": blas32.Gbmv, "Trmv": blas32.Trmv, "Tbmv": blas32.Tbmv, "Tpmv": blas32.Tpmv,
		"Trsv": blas32.Trsv, "Tbsv": blas32.Tbsv, "Tpsv": blas32.Tpsv, "Symv": blas32.Symv, "Sbmv": blas32.Sbmv,
		"Spmv": blas32.Spmv, "Ger": blas32.Ger, "Syr": blas32.Syr, "Spr": blas32.Spr, "Syr2": blas32.Syr2, "Spr2": blas32.Spr2,
		"Gemm": blas32.Gemm, "Symm": blas32.Symm, "Syrk": blas32.Syrk, "Syr2k": blas32.Syr2k, "Trmm": blas32.Trmm, "Trsm": blas32.Trsm,
	},
	D: {
		"Dot": blas64.Dot, "Nrm2": blas64.Nrm2, "Asum": blas64.Asum,
		"Iamax": blas64.Iamax, "Swap": blas64.Swap, "Copy": blas64.Copy, "Axpy": blas64.Axpy, "Rotg": blas64.Rotg,
		"Rotmg": blas64.Rotmg, "Rot": blas64.Rot, "Rotm": blas64.Rotm, "Scal": blas64.Scal,
		"Gemv": blas64.Gemv, "Gbmv": blas64.Gbmv, "Trmv": blas64.Trmv, "Tbmv": blas64.Tbmv, "Tpmv": blas64.Tpmv,
		"Trsv": blas64.Trsv, "Tbsv": blas64.Tbsv, "Tpsv": blas64.Tpsv, "Symv": blas64.Symv, "Sbmv": blas64.Sbmv,
		"Spmv": blas64.Spmv, "Ger": blas64.Ger, "Syr": blas64.Syr, "Spr": blas64.Spr, "Syr2": blas64.Syr2, "Spr2": blas64.Spr2,
		"Gemm": blas64.Gemm, "Symm": blas64.Symm, "Syrk": blas64.Syrk, "Syr2k": blas64.Syr2k, "Trmm": blas64.Trmm, "Trsm": blas64.Trsm,
	},
	C: {
		"Dotu": cblas64.Dotu, "Dotc": cblas64.Dotc, "Nrm2": cblas64.Nrm2, "Asum": cblas64.Asum, "Iamax": cblas64.Iamax,
		"Swap": cblas64.Swap, "Copy": cblas64.Copy, "Axpy": cblas64.Axpy, "Scal": cblas64.Scal, "Dscal": cblas64.Dscal,
		"Gemv": cblas64.Gemv, "Gbmv": cblas64.Gbmv, "Trmv": cblas64.Trmv, "Tbmv": cblas64.Tbmv, "Tpmv": cblas64.Tpmv,
		"Trsv": cblas64.Trsv, "Tbsv": cblas64.Tbsv, "Tpsv": cblas64.Tpsv, "Hemv": cblas64.Hemv, "Hbmv": cblas64.Hbmv,
		"Hpmv": cblas64.Hpmv, "Geru": cblas64.Geru, "Gerc": cblas64.Gerc, "Her": cblas64.Her, "Hpr": cblas64.Hpr,
		"Her2": cblas64.Her2, "Hpr2": cblas64.Hpr2,
		"Gemm": cblas64.Gemm, "Symm": cblas64.Symm, "Syrk": cblas64.Syrk, "Syr2k": cblas64.Syr2k, "Trmm": cblas64.Trmm,
		"Trsm": cblas64.Trsm, "Hemm": cblas64.Hemm, "Herk": cblas64.Herk, "Her2k": cblas64.Her2k,
	},
	Z: {
		"Dotu": cblas128.Dotu, "Dotc": cblas128.Dotc, "Nrm2": cblas128.Nrm2, "Asum": cblas128.Asum, "Iamax": cblas128.Iamax,
		"Swap": cblas128.Swap, "Copy": cblas128.Copy, "Axpy": cblas128.Axpy, "Scal": cblas128.Scal, "Dscal": cblas128.Dscal,
		"Gemv": cblas128.Gemv, "Gbmv": cblas128.Gbmv, "Trmv": cblas128.Trmv, "Tbmv": cblas128.Tbmv, "Tpmv": cblas128.Tpmv,
		"Trsv": cblas128.Trsv, "Tbsv": cblas128.Tbsv, "Tpsv": cblas128.Tpsv, "Hemv": cblas128.Hemv, "Hbmv": cblas128.Hbmv,
		"Hpmv": cblas128.Hpmv, "Geru": cblas128.Geru, "Gerc": cblas128.Gerc, "Her": cblas128.Her, "Hpr": cblas128.Hpr,
		"Her2": cblas128.Her2, "Hpr2": cblas128.Hpr2,
		"Gemm": cblas128.Gemm, "Symm": cblas128.Symm, "Syrk": cblas128.Syrk, "Syr2k": cblas128.Syr2k, "Trmm": cblas128.Trmm,
		"Trsm": cblas128.Trsm, "Hemm": cblas128.Hemm, "Herk": cblas128.Herk, "Her2k": cblas128.Her2k,
	},
}

var wrapPkg = map[Prec]string{S: "blas32", D: "blas64", C: "cblas64", Z: "cblas128"}

// wrapCall is one assembled wrapper call.
type wrapCall struct {
	fv   reflect.Value
	in   []reflect.Value
	opAt []int // parameter index of operand k
	name string
}

// operandStruct fills a blas64.General / Vector / Band / Triangular / ... value.
func operandStruct(c *Call, k int, data reflect.Value, pt reflect.Type) reflect.Value {
	od := &c.R.Ops[k]
	rows := od.Rows(c)
	cols := 0
	if od.Cols != nil {
		cols = od.Cols(c)
	}
	x := reflect.New(pt).Elem()
	for i := 0; i < pt.NumField(); i++ {
		f := x.Field(i)
		switch name := pt.Field(i).Name; name {
		case "N", "Rows":
			f.SetInt(int64(rows))
		case "Cols":
			f.SetInt(int64(cols))
		case "K":
			f.SetInt(int64(c.K))
		case "KL":
			f.SetInt(int64(c.KL))
		case "KU":
			f.SetInt(int64(c.KU))
		case "Stride":
			f.SetInt(int64(c.Ld[k]))
		case "Inc":
			f.SetInt(int64(c.Inc[k]))
		case "Uplo":
			f.Set(reflect.ValueOf(c.UL))
		case "Diag":
			f.Set(reflect.ValueOf(c.DG))
		case "Data":
			f.Set(data)
		default:
			panic("harness: unknown wrapper struct field " + name)
		}
	}
	return x
}

// withField returns a copy of struct value x with field name set to v.
func withField(x reflect.Value, name string, v reflect.Value) reflect.Value {
	y := reflect.New(x.Type()).Elem()
	y.Set(x)
	y.FieldByName(name).Set(v)
	return y
}

func describeWrap(name string, in []reflect.Value) string {
	var sb strings.Builder
	sb.WriteString(name + "(")
	for i, v := range in {
		if i > 0 {
			sb.WriteString(", ")
		}
		switch v.Kind() {
		case reflect.Struct:
			sb.WriteString(v.Type().Name() + "{")
			for j := 0; j < v.NumField(); j++ {
				f := v.Field(j)
				if j > 0 {
					sb.WriteString(" ")
				}
				fn := v.Type().Field(j).Name
				switch f.Kind() {
				case reflect.Slice:
					fmt.Fprintf(&sb, "len(%s)=%d", fn, f.Len())
				case reflect.Uint8:
					fmt.Fprintf(&sb, "%s='%c'", fn, rune(f.Uint()))
				case reflect.Array:
					// rotm H
				default:
					fmt.Fprintf(&sb, "%s=%v", fn, f.Interface())
				}
			}
			sb.WriteString("}")
		case reflect.Slice:
			fmt.Fprintf(&sb, "len=%d", v.Len())
		case reflect.Uint8:
			fmt.Fprintf(&sb, "'%c'", rune(v.Uint()))
		default:
			fmt.Fprint(&sb, v.Interface())
		}
	}
	sb.WriteString(")")
	return sb.String()
}

// buildWrap assembles the wrapper call of c (adapted from c01 wrapperInvoker).
func buildWrap(c *Call, slices []reflect.Value) *wrapCall {
	f, ok := wrappers[c.P][c.R.Wrapper]
	if !ok {
		panic(fmt.Sprintf("harness: no wrapper %s for precision %v", c.R.Wrapper, c.P))
	}
	fv := reflect.ValueOf(f)
	ft := fv.Type()
	w := &wrapCall{fv: fv, in: make([]reflect.Value, ft.NumIn()), opAt: make([]int, len(c.R.Ops)), name: wrapPkg[c.P] + "." + c.R.Wrapper}
	var trans []reflect.Value
	var scalarToks []string
	var opOrder []int
	for _, tok := range c.R.Args {
		switch tok {
		case "tA":
			trans = append(trans, reflect.ValueOf(c.TA))
		case "tB":
			trans = append(trans, reflect.ValueOf(c.TB))
		case "alpha", "c", "beta", "s":
			scalarToks = append(scalarToks, tok)
		}
		if k := c.R.Op(tok); k >= 0 {
			opOrder = append(opOrder, k)
		}
	}
	nextOp := 0
	for i := range w.in {
		pt := ft.In(i)
		switch {
		case pt == tyTranspose:
			w.in[i], trans = trans[0], trans[1:]
		case pt == tySide:
			w.in[i] = reflect.ValueOf(c.SD)
		case pt.Kind() == reflect.Int:
			w.in[i] = reflect.ValueOf(c.N)
		case pt.Kind() == reflect.Float32 || pt.Kind() == reflect.Float64 || pt.Kind() == reflect.Complex64 || pt.Kind() == reflect.Complex128:
			tok := scalarToks[0]
			scalarToks = scalarToks[1:]
			v := c.Alpha
			if tok == "beta" || tok == "s" {
				v = c.Beta
			}
			w.in[i] = scalarValue(v, pt)
		case pt.Kind() == reflect.Struct && strings.HasSuffix(pt.Name(), "rotmParams"):
			w.in[i] = rotmValue(c.RotmFlag, pt)
		case pt.Kind() == reflect.Struct:
			k := opOrder[nextOp]
			nextOp++
			w.opAt[k] = i
			w.in[i] = operandStruct(c, k, slices[k], pt)
		default:
			panic(fmt.Sprintf("harness: wrapper %s parameter %d of type %v", w.name, i, pt))
		}
	}
	if nextOp != len(opOrder) || len(trans) != 0 || len(scalarToks) != 0 {
		panic(fmt.Sprintf("harness: wrapper %s does not consume the arguments of the spec row", w.name))
	}
	return w
}

type wrapStats struct{ valid, faults int64 }

// runWrapBase runs the consistent call and every single-field fault.
func runWrapBase(t failer, c *Call, regs []*region, st *wrapStats) {
	r := c.R
	nops := len(r.Ops)
	nd := make([]int, nops)
	slices := make([]reflect.Value, nops)
	for k := range r.Ops {
		nd[k] = need(c, k)
		if nd[k]+2*padElems > regs[k].total {
			panic("harness: operand larger than its region")
		}
		slices[k] = regs[k].slice(nd[k])
	}
	w := buildWrap(c, slices)
	_, e := invoke(w.fv, w.in)
	st.valid++
	if o := classify(e, isBlasMsg); o.class != pcNone {
		t.FailClass("valid-call-panics", "%s: consistent arguments (Data exactly minimal) but the call %s", describeWrap(w.name, w.in), o)
	}
	for k := range r.Ops {
		reg := regs[k]
		pre, post := reg.off*reg.es, (reg.off+nd[k])*reg.es
		if string(reg.bytes[:pre]) != string(reg.snap[:pre]) || string(reg.bytes[post:]) != string(reg.snap[post:]) {
			t.FailClass("write-outside-slice", "%s: memory outside Data of operand %s was written", describeWrap(w.name, w.in), r.Ops[k].Name)
		}
		reg.restore()
	}
	type wf struct {
		k     int
		val   reflect.Value
		n     int
		msg   string
		label string
	}
	var fs []wf
	negOne := oneVector(r) && c.Inc[0] < 0
	for k := range r.Ops {
		od := &r.Ops[k]
		base := w.in[w.opAt[k]]
		lname := strings.ToLower(od.Name)
		if !negOne && nonEmpty(c) && nd[k] > 0 {
			fs = append(fs, wf{k, withField(base, "Data", regs[k].slice(nd[k]-1)), nd[k] - 1, shortMsg(od), fmt.Sprintf("len(%s.Data)=%d", lname, nd[k]-1)})
		}
		if od.Kind.HasLD() {
			min := MinLd(c, k)
			fs = append(fs, wf{k, withField(base, "Stride", reflect.ValueOf(min-1)), nd[k], "blas: bad leading dimension of " + od.Name, fmt.Sprintf("%s.Stride=%d", lname, min-1)})
		}
		if od.Kind == Vector {
			fs = append(fs, wf{k, withField(base, "Inc", reflect.ValueOf(0)), nd[k], "blas: zero " + lname + " index increment", lname + ".Inc=0"})
		}
	}
	lens := make([]int, nops)
	for _, f := range fs {
		old := w.in[w.opAt[f.k]]
		w.in[w.opAt[f.k]] = f.val
		copy(lens, nd)
		lens[f.k] = f.n
		_, e := invoke(w.fv, w.in)
		st.faults++
		o := classify(e, func(s string) bool { return isBlasMsg(s) || strings.HasPrefix(s, wrapPkg[c.P]+": ") })
		what := fmt.Sprintf("%s [single fault %s]", describeWrap(w.name, w.in), f.label)
		switch {
		case o.class == pcNone:
			t.FailClass("invalid-accepted", "%s: returned normally, want panic %q", what, f.msg)
		case o.class == pcFault:
			t.FailClass("memory-fault", "%s: %s, want panic %q", what, o, f.msg)
		case o.class == pcRuntime:
			t.FailClass("runtime-error-for-invalid", "%s: %s, want panic %q", what, o, f.msg)
		case o.class == pcOther:
			t.FailClass("foreign-panic", "%s: %s, want panic %q", what, o, f.msg)
		case o.msg != f.msg && !strings.HasPrefix(o.msg, wrapPkg[c.P]+": "):
			t.FailClass("wrong-message", "%s: %s, want %q", what, o, f.msg)
		}
		for k := range r.Ops {
			if d := regs[k].changed(lens[k]); d != "" {
				t.FailClass("write-before-validate", "%s: operand %s was modified although the call panicked: %s", what, r.Ops[k].Name, d)
				regs[k].restore()
			}
		}
		w.in[w.opAt[f.k]] = old
	}
}

func genBlasWrapStruct(g *vlib.G) {
	if vlib.Env("VERIF_CONFIG", "default") == "bounds" {
		return
	}
	dims := vlib.Pick(g, []int{0, 1, 2, 3, 5}, []int{0, 1, 2, 3, 5, 9})
	band := []int{0, 1, 2}
	for _, r := range Routines {
		if r.Wrapper == "" || len(r.Ops) == 0 {
			continue
		}
		for _, p := range Precs {
			if r.Method(p) == "" {
				continue
			}
			r, p := r, p
			g.Case(wrapPkg[p]+"."+r.Wrapper, func(t *vlib.T) {
				var st wrapStats
				nops := len(r.Ops)
				var dimToks []string
				for _, tok := range r.Args {
					switch tok {
					case "m", "n", "k", "kl", "ku":
						dimToks = append(dimToks, tok)
					}
				}
				rad := []int{1, 1, 1, 1, 1} // tA tB uplo diag side
				if r.Has("tA") {
					rad[0] = len(r.Trans(p))
				}
				if r.Has("tB") {
					rad[1] = len(r.Trans(p))
				}
				if r.Has("uplo") {
					rad[2] = 2
				}
				if r.Has("diag") {
					rad[3] = 2
				}
				if r.Has("side") {
					rad[4] = 2
				}
				for range dimToks {
					rad = append(rad, 0)
				}
				for i, tok := range dimToks {
					if tok == "kl" || tok == "ku" || (tok == "k" && r.Level == 2) {
						rad[5+i] = len(band)
					} else {
						rad[5+i] = len(dims)
					}
				}
				incs := [][2]int{{1, 1}, {-2, 2}, {2, -1}}
				if oneVector(r) {
					incs = [][2]int{{1, 1}, {2, 2}}
				}
				// regions for the largest operand
				regs := make([]*region, nops)
				for k := range regs {
					regs[k] = newHeapRegionN(p, 200)
					regs[k].fill(3 * k)
				}
				vlib.Product(rad, func(idx []int) bool {
					for _, inc := range incs {
						for idl, dl := range []int{0, 2, 0, 0} {
							// the last two rounds repeat the minimal strides with the scalars that trigger quick returns
							sc := [][2]complex128{{2, 3}, {2, 3}, {0, 1}, {0, 0}}[idl]
							if idl >= 2 && !r.Has("alpha") && !r.Has("beta") {
								continue
							}
							c := Call{R: r, P: p, TA: blas.NoTrans, TB: blas.NoTrans, UL: uplos[idx[2]], DG: diags[idx[3]], SD: sides[idx[4]], Alpha: sc[0], Beta: sc[1], RotmFlag: blas.Rescaling}
							if r.Has("tA") {
								c.TA = r.Trans(p)[idx[0]]
							}
							if r.Has("tB") {
								c.TB = r.Trans(p)[idx[1]]
							}
							for i, tok := range dimToks {
								var x int
								if tok == "kl" || tok == "ku" || (tok == "k" && r.Level == 2) {
									x = band[idx[5+i]]
								} else {
									x = dims[idx[5+i]]
								}
								switch tok {
								case "m":
									c.M = x
								case "n":
									c.N = x
								case "k":
									c.K = x
								case "kl":
									c.KL = x
								case "ku":
									c.KU = x
								}
							}
							c.Ld, c.Inc = make([]int, nops), make([]int, nops)
							nv := 0
							for k := range r.Ops {
								if r.Ops[k].Kind == Vector {
									c.Inc[k] = inc[nv%2]
									nv++
								} else if r.Ops[k].Kind.HasLD() {
									c.Ld[k] = MinLd(&c, k) + dl
								}
							}
							runWrapBase(debugFailer{t}, &c, regs, &st)
						}
					}
					return true
				})
				t.Count("wrapper_struct_valid_calls", st.valid)
				t.Count("wrapper_struct_fault_calls", st.faults)
				t.Outcome("blas wrapper L" + fmt.Sprint(r.Level))
				t.Nontrivial()
			})
		}
	}
}

// ---- lapack64 -----------------------------------------------------------------

type l64func struct {
	name string
	f    any
	// flags overrides the default value of the flag parameters by parameter index.
	flags map[int]byte
	// derived lists slice parameters whose length the wrapper turns into a
	// dimension (k = len(tau)): a shorter slice is a different valid call.
	derived map[int]bool
}

var lapack64Funcs = []l64func{
	{"Potrf", lapack64.Potrf, nil, nil}, {"Potri", lapack64.Potri, nil, nil}, {"Potrs", lapack64.Potrs, nil, nil}, {"Pbcon", lapack64.Pbcon, nil, nil},
	{"Pbtrf", lapack64.Pbtrf, nil, nil}, {"Pbtrs", lapack64.Pbtrs, nil, nil}, {"Pstrf", lapack64.Pstrf, nil, nil}, {"Gecon", lapack64.Gecon, nil, nil},
	{"Gels", lapack64.Gels, nil, nil}, {"Geqp3", lapack64.Geqp3, nil, nil}, {"Geqrf", lapack64.Geqrf, nil, nil}, {"Gelqf", lapack64.Gelqf, nil, nil},
	{"Gesvd", lapack64.Gesvd, nil, nil}, {"Getrf", lapack64.Getrf, nil, nil}, {"Getri", lapack64.Getri, nil, nil}, {"Getrs", lapack64.Getrs, nil, nil},
	{"Ggsvd3", lapack64.Ggsvd3, map[int]byte{0: 'U', 1: 'V', 2: 'Q'}, nil}, {"Gtsv", lapack64.Gtsv, nil, nil}, {"Lagtm", lapack64.Lagtm, nil, nil},
	{"Lange", lapack64.Lange, nil, nil}, {"Langb", lapack64.Langb, nil, nil}, {"Langt", lapack64.Langt, nil, nil}, {"Lansb", lapack64.Lansb, nil, nil},
	{"Lansy", lapack64.Lansy, nil, nil}, {"Lantr", lapack64.Lantr, nil, nil}, {"Lantb", lapack64.Lantb, nil, nil}, {"Lapmr", lapack64.Lapmr, nil, nil},
	{"Lapmt", lapack64.Lapmt, nil, nil}, {"Orglq", lapack64.Orglq, nil, map[int]bool{1: true}}, {"Ormlq", lapack64.Ormlq, nil, nil}, {"Orgqr", lapack64.Orgqr, nil, map[int]bool{1: true}},
	{"Ormqr", lapack64.Ormqr, nil, map[int]bool{3: true}}, {"Pocon", lapack64.Pocon, nil, nil}, {"Syev", lapack64.Syev, nil, nil}, {"Tbtrs", lapack64.Tbtrs, nil, nil},
	{"Trcon", lapack64.Trcon, nil, nil}, {"Trtri", lapack64.Trtri, nil, nil}, {"Trtrs", lapack64.Trtrs, nil, nil}, {"Geev", lapack64.Geev, nil, nil},
}

// default legal value of a flag parameter by type name: one that makes the
// routine reference every operand.
var l64flagDefault = map[string]byte{
	"Transpose": 'N', "Side": 'L', "MatrixNorm": byte(lapack.MaxColumnSum), "SVDJob": byte(lapack.SVDAll), "EVJob": byte(lapack.EVCompute),
	"LeftEVJob": byte(lapack.LeftEVCompute), "RightEVJob": byte(lapack.RightEVCompute),
}

// l64slot is one slice handed to the call: a field of a struct parameter or a slice parameter.
type l64slot struct {
	param int
	field string // "" for a plain slice parameter
	reg   *region
	n     int
	work  bool // exempt from the unchanged comparison
	short bool // n is the exact minimum: one element less violates the contract
}

const l64work = 6000

// l64build instantiates a call with all matrices n×n (band widths 1) and every slice of its minimal length.
func l64build(fn l64func, n int) (fv reflect.Value, in []reflect.Value, slots []l64slot, strides [][3]int) {
	fv = reflect.ValueOf(fn.f)
	ft := fv.Type()
	in = make([]reflect.Value, ft.NumIn())
	hasLwork := false
	for i := 0; i < ft.NumIn(); i++ {
		if ft.In(i).Kind() == reflect.Int {
			hasLwork = true
		}
	}
	workIdx := -1
	if hasLwork {
		for i := 0; i+1 < ft.NumIn(); i++ {
			if ft.In(i).Kind() == reflect.Slice && ft.In(i).Elem().Kind() == reflect.Float64 && ft.In(i+1).Kind() == reflect.Int {
				workIdx = i
			}
		}
	}
	mkF := func(param int, field string, ln int, fill func(s []float64), work, short bool) reflect.Value {
		reg := newHeapRegionN(D, ln+1)
		reg.fill(param)
		sl := reg.slice(ln)
		s := sl.Interface().([]float64)
		for i := range s {
			s[i] = 0.5
		}
		if fill != nil {
			fill(s)
		}
		reg.snapshot()
		slots = append(slots, l64slot{param, field, reg, ln, work, short})
		return sl
	}
	dense := func(ld int) func(s []float64) {
		return func(s []float64) {
			for i := 0; i < n; i++ {
				for j := 0; j < n; j++ {
					x := 0.25 * float64((i+j)%3-1)
					if i == j {
						x = 4 + 0.5*float64(i)
					}
					if p := i*ld + j; p < len(s) {
						s[p] = x
					}
				}
			}
		}
	}
	for i := 0; i < ft.NumIn(); i++ {
		pt := ft.In(i)
		switch pt.Kind() {
		case reflect.Uint8:
			b, ok := fn.flags[i]
			if !ok {
				b, ok = l64flagDefault[pt.Name()]
			}
			if !ok {
				panic("harness: lapack64." + fn.name + ": no value for flag type " + pt.Name())
			}
			in[i] = flagValue(pt, b)
		case reflect.Bool:
			in[i] = reflect.ValueOf(true)
		case reflect.Float64:
			in[i] = reflect.ValueOf(1.0)
		case reflect.Int:
			in[i] = reflect.ValueOf(l64work)
		case reflect.Slice:
			if pt.Elem().Kind() == reflect.Int {
				reg := newHeapRegionN(I, n+1)
				reg.fill(i)
				sl := reg.slice(n)
				s := sl.Interface().([]int)
				for j := range s {
					s[j] = j
				}
				reg.snapshot()
				slots = append(slots, l64slot{i, "", reg, n, false, true})
				in[i] = sl
			} else if i == workIdx {
				in[i] = mkF(i, "", l64work, nil, true, true)
			} else if hasLwork {
				in[i] = mkF(i, "", n, nil, false, true)
			} else {
				in[i] = mkF(i, "", 4*n, nil, true, false) // workspace of a routine without lwork: 4n covers every documented minimum
			}
		case reflect.Struct:
			x := reflect.New(pt).Elem()
			stride := 0
			for j := 0; j < pt.NumField(); j++ {
				f := x.Field(j)
				switch fname := pt.Field(j).Name; fname {
				case "N", "Rows", "Cols":
					f.SetInt(int64(n))
				case "K", "KL", "KU":
					f.SetInt(1)
				case "Uplo":
					f.Set(reflect.ValueOf(blas.Upper))
				case "Diag":
					f.Set(reflect.ValueOf(blas.NonUnit))
				}
			}
			switch pt.Name() {
			case "General", "Symmetric", "Triangular":
				stride = n
				x.FieldByName("Stride").SetInt(int64(n))
				x.FieldByName("Data").Set(mkF(i, "Data", n*n, dense(n), false, true))
				strides = append(strides, [3]int{i, n - 1, 0})
			case "Band":
				stride = 3
				x.FieldByName("Stride").SetInt(3)
				x.FieldByName("Data").Set(mkF(i, "Data", 3*n, func(s []float64) {
					for r := 0; r < n; r++ {
						s[3*r+1] = 4
					}
				}, false, true))
				strides = append(strides, [3]int{i, 2, 0})
			case "SymmetricBand", "TriangularBand":
				stride = 2
				x.FieldByName("Stride").SetInt(2)
				x.FieldByName("Data").Set(mkF(i, "Data", 2*(n-1)+2, func(s []float64) {
					for r := 0; r < n; r++ {
						s[2*r] = 4 // upper band storage: the diagonal is the first column
					}
				}, false, true))
				strides = append(strides, [3]int{i, 1, 0})
			case "Tridiagonal":
				x.FieldByName("DL").Set(mkF(i, "DL", n-1, nil, false, true))
				x.FieldByName("D").Set(mkF(i, "D", n, func(s []float64) {
					for r := range s {
						s[r] = 4
					}
				}, false, true))
				x.FieldByName("DU").Set(mkF(i, "DU", n-1, nil, false, true))
			default:
				panic("harness: lapack64." + fn.name + ": struct type " + pt.Name())
			}
			_ = stride
			in[i] = x
		default:
			panic("harness: lapack64." + fn.name + ": parameter type " + pt.String())
		}
	}
	return fv, in, slots, strides
}

func genLapack64(g *vlib.G) {
	if vlib.Env("VERIF_CONFIG", "default") == "bounds" {
		return
	}
	isMsg := func(s string) bool {
		return isLapackMsg(s) || strings.HasPrefix(s, "lapack64: ") || strings.HasPrefix(s, "blas64: ") || s == "dgesvd: not coded for overwrite"
	}
	for _, fn := range lapack64Funcs {
		for _, n := range vlib.Pick(g, []int{2, 3}, []int{2, 3, 4, 6}) {
			fn, n := fn, n
			g.Case(fmt.Sprintf("lapack64.%s n=%d", fn.name, n), func(t *vlib.T) {
				name := "lapack64." + fn.name
				fv, in, slots, strides := l64build(fn, n)
				restore := func() {
					for _, s := range slots {
						s.reg.restore()
					}
				}
				var nvalid, nfault int64
				_, e := invoke(fv, in)
				nvalid++
				if o := classify(e, isMsg); o.class != pcNone {
					t.FailClass("valid-call-panics", "%s: consistent n×n arguments with minimal slices but the call %s", describeWrap(name, in), o)
				}
				restore()
				check := func(label string, known string, cur map[int]int) {
					_, e := invoke(fv, in)
					nfault++
					o := classify(e, isMsg)
					what := fmt.Sprintf("%s [single fault %s]", describeWrap(name, in), label)
					cls := func(generic string) string {
						if known != "" {
							return known
						}
						return generic
					}
					switch o.class {
					case pcNone:
						debugLog(cls("invalid-accepted"), "%s: returned normally", what)
						t.FailClass(cls("invalid-accepted"), "%s: returned normally, want a lapack panic", what)
					case pcFault:
						t.FailClass("memory-fault", "%s: %s", what, o)
					case pcRuntime:
						debugLog(cls("runtime-error-for-invalid"), "%s: %s", what, o)
						t.FailClass(cls("runtime-error-for-invalid"), "%s: %s, want a lapack panic", what, o)
					case pcOther:
						debugLog(cls("foreign-panic"), "%s: %s", what, o)
						t.FailClass(cls("foreign-panic"), "%s: %s, want a lapack panic", what, o)
					}
					for si, s := range slots {
						if s.work {
							continue
						}
						ln := s.n
						if v, ok := cur[si]; ok {
							ln = v
						}
						if d := s.reg.changed(ln); d != "" {
							debugLog(cls("write-before-validate"), "%s: slice %d modified: %s", what, si, d)
							t.FailClass(cls("write-before-validate"), "%s: the slice of parameter %d %s was modified although the call panicked: %s", what, s.param, s.field, d)
						}
					}
					restore()
				}
				// every slice one element short
				for si, s := range slots {
					if !s.short || s.n == 0 || (s.field == "" && fn.derived[s.param]) {
						continue
					}
					shortSl := s.reg.slice(s.n - 1)
					old := in[s.param]
					label := fmt.Sprintf("parameter %d one element short (len %d)", s.param, s.n-1)
					if s.field == "" {
						in[s.param] = shortSl
					} else {
						in[s.param] = withField(old, s.field, shortSl)
						label = fmt.Sprintf("parameter %d: len(%s)=%d", s.param, s.field, s.n-1)
					}
					check(label, "", map[int]int{si: s.n - 1})
					in[s.param] = old
				}
				// every stride one below the row length
				for _, sd := range strides {
					old := in[sd[0]]
					in[sd[0]] = withField(old, "Stride", reflect.ValueOf(sd[1]))
					known := ""
					if fn.name == "Ormlq" && sd[0] == 4 {
						known = "dormlq-dorml2-missing-ldc-check"
					}
					check(fmt.Sprintf("parameter %d: Stride=%d", sd[0], sd[1]), known, nil)
					in[sd[0]] = old
				}
				t.Count("wrapper_struct_valid_calls", nvalid)
				t.Count("wrapper_struct_fault_calls", nfault)
				t.Outcome("lapack64")
				t.Nontrivial()
			})
		}
	}
}
