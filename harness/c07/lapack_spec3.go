// lapack_spec3.go — third round: the remaining exported methods of
// lapack/gonum.Implementation that have an argument contract (auxiliary and
// "internal, exported for testing" routines). Pure scalar routines without a
// contract are listed in NOTES.md.
package main

import (
	"reflect"

	"gonum.org/v1/gonum/blas"
	"gonum.org/v1/gonum/lapack"
)

// hessFill writes an upper Hessenberg (sub) or upper triangular n×n matrix
// with a well separated real spectrum (real Schur form when !sub).
func hessFill(n efn, ldname string, sub bool) func(e *lenv, s []float64) {
	return func(e *lenv, s []float64) {
		nn, ld := n(e), e.g(ldname)
		for i := range s {
			s[i] = 0.5
		}
		for i := 0; i < nn; i++ {
			for j := 0; j < nn; j++ {
				x := 0.0
				switch {
				case i == j:
					x = float64(2 + 3*i)
				case i < j:
					x = 0.25 * float64((i+j)%3+1)
				case sub && i == j+1:
					x = 0.125
				}
				if p := i*ld + j; p < len(s) {
					s[p] = x
				}
			}
		}
	}
}

func withFill(f func(e *lenv, s []float64)) func(a *larg) { return func(a *larg) { a.fill = f } }

// enumInt turns a dimension-like argument into an integer with a small legal
// menu; the illegal values are added as extra faults with message msg.
func enumInt(legal []int, msg string, illegal ...int) func(a *larg) {
	return func(a *larg) {
		a.menu, a.noNeg, a.msg = legal, true, msg
		a.extra = func(*lenv) []lextra {
			var x []lextra
			for _, v := range illegal {
				x = append(x, lextra{val: v, msg: msg})
			}
			return x
		}
	}
}

func extras(msg string, vals ...int) func(a *larg) {
	return func(a *larg) {
		a.extra = func(*lenv) []lextra {
			var x []lextra
			for _, v := range vals {
				x = append(x, lextra{val: v, msg: msg})
			}
			return x
		}
	}
}

func never(*lenv) bool { return false }

func lapackRows3() []*lroutine {
	m, n, nb := v("m"), v("n"), v("nb")
	n1 := plus(n, -1)
	var rs []*lroutine
	add := func(r *lroutine) { rs = append(rs, r) }
	ldMinIf := func(cond func(e *lenv) bool, f efn) func(a *larg) {
		return func(a *larg) {
			a.min = func(e *lenv) int {
				if cond(e) {
					return imax(1, f(e))
				}
				return 1
			}
		}
	}
	strided := func(name, inc string, cnt efn) []larg { // vector of cnt elements with increment inc
		return lvec(name, func(e *lenv) int {
			if cnt(e) <= 0 {
				return 0
			}
			return 1 + (cnt(e)-1)*e.g(inc)
		})
	}
	incArg := func(name, msg string) []larg {
		a := intv(name, cst(2))
		extras(msg, 0, -1)(&a[0])
		return a
	}

	// ---- complete pivoting LU ----
	add(row("Dgetc2", ldim("n"), lmat("a", n, n), ivecEq("ipiv", n, msgBadLenIpiv), ivecEq("jpiv", n, "lapack: bad length of jpiv")))
	add(row("Dgesc2", ldim("n"), lmat("a", n, n), lvec("rhs", n), ivecEq("ipiv", n, msgBadLenIpiv), ivecEq("jpiv", n, "lapack: bad length of jpiv")))
	add(row("Dlatdf", lflag("job", lapack.LocalLookAhead, "lapack: bad MaximizeNormXJob", byte(lapack.LocalLookAhead), byte(lapack.NormalizedNullVector)), ldim("n"),
		lmat("z", n, n), lvec("rhs", n), lscalar("rdsum", 1), lscalar("rdscal", 1), ivecEq("ipiv", n, msgBadLenIpiv), ivecEq("jpiv", n, "lapack: bad length of jpiv")).
		mod("job", func(a *larg) { a.illegal = []byte{1, '?'} }).
		mod("n", func(a *larg) {
			a.menu = []int{0, 1, 2, 3, 8}
			a.extra = func(*lenv) []lextra { return []lextra{{val: 9, msg: "lapack: n > 8"}} }
		}))

	// ---- panel reductions ----
	add(row("Dlabrd", ldim("m", "n", "nb"), lmat("a", m, n), lvec("d", nb), lvec("e", nb), lvec("tauQ", nb), lvec("tauP", nb), lmat("x", m, nb), lmat("y", n, nb)).
		where(func(e *lenv) bool { return e.g("nb") <= imin(e.g("m"), e.g("n")) }).menu(0, 1, 2, 4))
	add(row("Dlatrd", fUplo(), ldim("n", "nb"), lmat("a", n, n), lvec("e", n1), lvec("tau", n1), lmat("w", n, nb)).
		where(func(e *lenv) bool { return e.g("nb") <= e.g("n") }).emptyIf(func(e *lenv) bool { return e.g("n") == 0 }))
	add(row("Dsytd2", fUplo(), ldim("n"), lmat("a", n, n), lvec("d", n), lvec("e", n1), lvec("tau", n1)))
	k := v("k")
	add(row("Dlahr2", ldim("n", "k", "nb"), lmat("a", n, func(e *lenv) int { return e.g("n") - e.g("k") + 1 }), lvec("tau", nb), lmat("t", nb, nb), lmat("y", n, nb)).
		where(func(e *lenv) bool { return e.g("k") >= 1 && e.g("k") <= e.g("n") && e.g("nb") <= e.g("n")-e.g("k") }).
		mod("n", func(a *larg) { a.menu = []int{1, 2, 3, 5} }).mod("k", func(a *larg) { a.menu = []int{1, 2, 3} }).mod("nb", func(a *larg) { a.menu = []int{0, 1, 2} }))
	_ = k
	off := v("offset")
	add(row("Dlaqp2", ldim("m", "n", "offset"), lmat("a", m, n), ivecEq("jpvt", n, msgBadLenJpvt),
		lvec("tau", minOf(func(e *lenv) int { return e.g("m") - e.g("offset") }, n)), lvec("vn1", n), lvec("vn2", n), lvec("work", n)).
		where(func(e *lenv) bool { return e.g("offset") <= e.g("m") }).
		emptyIf(func(e *lenv) bool { return e.g("m") == 0 || e.g("n") == 0 }).
		mod("offset", func(a *larg) { a.menu = []int{0, 1, 2} }).menu(0, 1, 2, 4))
	_ = off
	add(row("Dlaqps", ldim("m", "n", "offset", "nb"), lmat("a", m, n), ivecEq("jpvt", n, msgBadLenJpvt),
		lvec("tau", nb), lvec("vn1", n), lvec("vn2", n), lvec("auxv", nb), lmat("f", n, nb)).
		where(func(e *lenv) bool {
			return e.g("offset") <= e.g("m") && e.g("nb") <= e.g("n") && e.g("nb") <= e.g("m")-e.g("offset")
		}).
		mod("offset", func(a *larg) { a.menu = []int{0, 1} }).mod("nb", func(a *larg) { a.menu = []int{0, 1, 2} }).menu(0, 1, 2, 4))

	// ---- copies, scaling, plane rotations, small utilities ----
	add(row("Dlacpy", lflag("uplo", blas.Upper, "lapack: bad Uplo", 'U', 'L', 'A'), ldim("m", "n"), lmat("a", m, n), lmat("b", m, n)))
	add(row("Dlaset", lflag("uplo", blas.Upper, "lapack: bad Uplo", 'U', 'L', 'A'), ldim("m", "n"), lscalar("alpha", 2), lscalar("beta", 3), lmat("a", m, n)).
		mod("uplo", func(a *larg) { a.noFault = true }). // "if uplo is otherwise, all of the elements of A are set"
		also("alpha", 0).also("beta", 0))
	add(row("Dlascl", lflag("kind", lapack.General, "lapack: bad MatrixType", byte(lapack.General), byte(lapack.UpperTri), byte(lapack.LowerTri)),
		intv("kl", cst(0)), intv("ku", cst(0)), lscalar("cfrom", 2), lscalar("cto", 3), ldim("m", "n"), lmat("a", m, n)).also("cto", 2, 0))
	add(row("Iladlc", ldim("m", "n"), lmat("a", m, n)))
	add(row("Iladlr", ldim("m", "n"), lmat("a", m, n)))
	add(row("Dlagtm", fTrans3(), ldim("m", "n"), lscalar("alpha", 1), lvec("dl", plus(m, -1)), lvec("d", m), lvec("du", plus(m, -1)), lmat("b", m, n),
		lscalar("beta", 1), lmat("c", m, n)).also("alpha", 0, -1).also("beta", 0, -1))
	cs := ifEq("side", 'L', plus(m, -1), n1)
	add(row("Dlasr", fSide(), lflag("pivot", lapack.Variable, "lapack: bad Pivot", byte(lapack.Variable), byte(lapack.Top), byte(lapack.Bottom)), fDirect(),
		ldim("m", "n"), lvec("c", cs), lvec("s", cs), lmat("a", m, n)).menu(0, 1, 2, 4))
	add(row("Dlasrt", lflag("s", lapack.SortIncreasing, "lapack: bad Sort", byte(lapack.SortIncreasing), byte(lapack.SortDecreasing)), ldim("n"), lvec("d", n)))
	add(row("Dlapll", ldim("n"), strided("x", "incX", n), incArg("incX", "lapack: incX <= 0"), strided("y", "incY", n), incArg("incY", "lapack: incY <= 0")))
	add(row("Drscl", ldim("n"), lscalar("a", 2), strided("x", "incX", n), incArg("incX", "lapack: incX <= 0")).also("a", 1))
	add(row("Dlassq", ldim("n"), strided("x", "incx", n), incArg("incx", "lapack: incX <= 0"), lscalar("scale", 1), lscalar("sumsq", 1)).also("scale", 0))
	add(row("Dlarfg", ldim("n"), lscalar("alpha", 2), strided("x", "incX", n1), incArg("incX", "lapack: incX <= 0")).
		emptyIf(func(e *lenv) bool { return e.g("n") <= 1 }).also("alpha", 0))
	add(row("Dlacn2", ldim("n"), lvec("v", n), lvec("x", n), ivec("isgn", n, "lapack: insufficient length of isgn"), lscalar("est", 0), intv("kase", cst(0)),
		raw("isave", func(*lenv) reflect.Value { return reflect.ValueOf(&[3]int{}) })).
		mod("n", func(a *larg) {
			a.menu, a.msg = []int{1, 2, 3, 5}, "lapack: n < 1"
			a.extra = func(*lenv) []lextra { return []lextra{{val: 0, msg: "lapack: n < 1"}} }
		}))

	// ---- dqds (singular values of a bidiagonal matrix) ----
	add(row("Dlasq1", ldim("n"), lvec("d", n), lvec("e", n1), lvec("work", times(4, n))))
	add(row("Dlasq2", ldim("n"), lvec("z", times(4, n))))
	// Dlasq3..6: n0 is the index of the last element of the qd array, which therefore
	// holds 4*(n0+1) values (doc of Dlasq6). Valid states are generated for n0 >= 2 only
	// (positive qd array, i0 = 0): for n0 < 2 the callers (Dlasq2/Dlasq3) never reach Dlasq4.
	z4 := lvec("z", func(e *lenv) int { return 4 * (e.g("n0") + 1) })
	lasqDims := func(r *lroutine, ppLegal []int, ppBad ...int) *lroutine {
		return r.mod("i0", func(a *larg) { a.menu = []int{0} }).mod("n0", func(a *larg) { a.menu = []int{2, 3, 5} }).
			mod("pp", enumInt(ppLegal, "lapack: bad value of pp", ppBad...)).emptyIf(never)
	}
	sc := func(names ...string) []larg {
		var out []larg
		for _, nm := range names {
			out = append(out, lscalar(nm, 0.5)...)
		}
		return out
	}
	zi := func(names ...string) []larg {
		var out []larg
		for _, nm := range names {
			out = append(out, intv(nm, cst(0))...)
		}
		return out
	}
	add(lasqDims(row("Dlasq3", ldim("i0", "n0"), z4, ldim("pp"), sc("dmin"), lscalar("sigma", 0), lscalar("desig", 0), lscalar("qmax", 2),
		zi("nFail", "iter", "nDiv", "ttype"), sc("dmin1", "dmin2", "dn", "dn1", "dn2"), lscalar("g", 0), lscalar("tau", 0)), []int{0, 1, 2}, -1, 3))
	add(lasqDims(row("Dlasq4", ldim("i0", "n0"), z4, ldim("pp"), intv("n0in", v("n0")), sc("dmin", "dmin1", "dmin2", "dn", "dn1", "dn2"), lscalar("tau", 0),
		zi("ttype"), lscalar("g", 0)), []int{0, 1}, -1, 2))
	add(lasqDims(row("Dlasq5", ldim("i0", "n0"), z4, ldim("pp"), lscalar("tau", 0.1), lscalar("sigma", 0)), []int{0, 1}, -1, 2))
	add(lasqDims(row("Dlasq6", ldim("i0", "n0"), z4, ldim("pp")), []int{0, 1}, -1, 2))

	// ---- 2×2 / 3×3 building blocks of the Schur form machinery ----
	na, nw := v("na"), v("nw")
	add(row("Dlaln2", boolEnum("trans"), ldim("na", "nw"), lscalar("smin", 1e-3), lscalar("ca", 1), lmat("a", na, na), lscalar("d1", 1), lscalar("d2", 1),
		lmat("b", na, nw), lscalar("wr", 0.5), lscalar("wi", 0.25), lmat("x", na, nw)).
		mod("na", enumInt([]int{1, 2}, "lapack: bad value of na", 0, 3, -1)).mod("nw", enumInt([]int{1, 2}, "lapack: bad value of nw", 0, 3, -1)))
	add(row("Dlaqr1", ldim("n"), lmat("h", n, n), lscalar("sr1", 1), lscalar("si1", 0.5), lscalar("sr2", 1), lscalar("si2", -0.5), lvecEq("v", n, "lapack: insufficient length of v")).
		mod("n", enumInt([]int{2, 3}, "lapack: n must be 2 or 3", 1, 4, 0, -1)))
	wantq := isTrue("wantq")
	add(row("Dlaexc", boolEnum("wantq"), ldim("n"), lmat("t", n, n), usedIf(lmat("q", n, n), wantq), intv("j1", cst(0)), intv("n1", cst(1)), intv("n2", cst(1)), lvec("work", n)).
		mod("n", func(a *larg) { a.menu = []int{2, 3, 5} }).
		mod("t", withFill(hessFill(n, "ldt", false))).
		mod("ldq", ldMinIf(wantq, n)).mod("ldq", func(a *larg) { a.onlyIf = wantq }). // Q is not referenced otherwise
		mod("j1", func(a *larg) {
			a.extra = func(e *lenv) []lextra {
				return []lextra{{val: -1, msg: "lapack: j1 out of range"}, {val: e.g("n"), msg: "lapack: j1 out of range"}}
			}
		}).mod("n1", extras("lapack: bad value of n1", -1, 3)).mod("n2", extras("lapack: bad value of n2", -1, 3)))

	// ---- Hessenberg QR ----
	wantz := isTrue("wantz")
	nm1 := func(e *lenv) int { return e.g("n") - 1 }
	add(row("Dlahqr", boolEnum("wantt"), boolEnum("wantz"), ldim("n"), intv("ilo", cst(0)), intv("ihi", nm1), lmat("h", n, n),
		lvecEq("wr", n, "lapack: insufficient length of wr"), lvecEq("wi", n, "lapack: insufficient length of wi"),
		intv("iloz", cst(0)), intv("ihiz", nm1), usedIf(lmat("z", n, n), wantz)).
		mod("h", withFill(hessFill(n, "ldh", true))).mod("ldz", ldMinIf(wantz, n)).
		altMsg("n", "lapack: ihi out of range", "lapack: ilo out of range"))
	add(row("Dlaqr04", boolEnum("wantt"), boolEnum("wantz"), ldim("n"), intv("ilo", cst(0)), intv("ihi", nm1), lmat("h", n, n),
		lvecEq("wr", n, "lapack: bad length of wr"), lvecEq("wi", n, "lapack: bad length of wi"),
		intv("iloz", cst(0)), intv("ihiz", nm1), usedIf(lmat("z", n, n), wantz), lwork(cst(1)), intv("recur", cst(1))).
		mod("h", withFill(hessFill(n, "ldh", true))).mod("ldz", ldMinIf(wantz, n)).mod("recur", extras("lapack: recur < 0", -1)))
	nwv := func(e *lenv) int { return imin(e.g("n"), 2) } // deflation window
	add(row("Dlaqr23", boolEnum("wantt"), boolEnum("wantz"), ldim("n"), intv("ktop", cst(0)), intv("kbot", nm1), intv("nw", nwv), lmat("h", n, n),
		intv("iloz", cst(0)), intv("ihiz", nm1), usedIf(lmat("z", n, n), wantz),
		lvecEq("sr", n, "lapack: bad length of sr"), lvecEq("si", n, "lapack: bad length of si"),
		lmat("v", nwv, nwv), intv("nh", nwv), lmat("t", nwv, v("nh")), intv("nv", nwv), lmat("wv", v("nv"), nwv),
		lwork(func(e *lenv) int { return 2 * nwv(e) }), intv("recur", cst(1))).
		mod("h", withFill(hessFill(n, "ldh", true))).mod("ldz", ldMinIf(wantz, n)).mod("recur", extras("lapack: recur < 0", -1)).
		mod("nw", extras("lapack: bad value of nw", -1)).mod("nv", extras("lapack: nv < 0", -1)).
		emptyIf(func(e *lenv) bool { return e.g("n") == 0 }).
		altMsg("n", "lapack: ktop out of range", "lapack: kbot out of range"))
	ns := v("nshfts")
	add(row("Dlaqr5", boolEnum("wantt"), boolEnum("wantz"), ldim("kacc22", "n"), intv("ktop", cst(0)), intv("kbot", nm1), ldim("nshfts"),
		lvecEq("sr", ns, "lapack: bad length of sr"), lvecEq("si", ns, "lapack: bad length of si"), lmat("h", n, n),
		intv("iloz", cst(0)), intv("ihiz", nm1), usedIf(lmat("z", n, n), wantz),
		lmat("v", func(e *lenv) int { return e.g("nshfts") / 2 }, cst(3)), lmat("u", times(2, ns), times(2, ns)),
		intv("nv", n), lmat("wv", v("nv"), times(2, ns)), intv("nh", n), lmat("wh", times(2, ns), v("nh"))).
		mod("kacc22", enumInt([]int{0, 1, 2}, "lapack: invalid value of kacc22", -1, 3)).
		mod("n", func(a *larg) {
			a.menu = []int{1, 2, 3, 5}
			a.alt = []string{"lapack: ktop out of range", "lapack: kbot out of range"}
		}).
		mod("nshfts", func(a *larg) {
			a.menu = []int{0, 2}
			a.extra = func(*lenv) []lextra {
				return []lextra{{val: 1, msg: "lapack: nshfts must be even"}, {val: 3, msg: "lapack: nshfts must be even"}}
			}
		}).
		mod("h", withFill(hessFill(n, "ldh", true))).mod("ldz", ldMinIf(wantz, n)).
		mod("si", withFill(func(_ *lenv, s []float64) {
			for i := range s {
				s[i] = 0.5 - float64(i%2) // complex conjugate pairs
			}
		})).
		mod("sr", withFill(func(_ *lenv, s []float64) {
			for i := range s {
				s[i] = 1
			}
		})).
		mod("nv", extras("lapack: nv < 0", -1)).mod("nh", extras("lapack: nh < 0", -1)).emptyIf(never))
	return rs
}
