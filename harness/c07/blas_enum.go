// blas_enum.go — enumeration of the valid BLAS base tuples (one vlib case per
// method × flag tuple × extent tuple; leading dimensions, increments, scalars and
// rotm flags are enumerated inside the case).
package main

import (
	"fmt"
	"os"
	"reflect"
	"regexp"
	"sort"
	"strings"

	"gonum.org/v1/gonum/blas"
	"gonum.org/v1/gonum/blas/gonum"
	"gonum.org/v1/gonum/internal/verif/vlib"
)

type blasMenus struct {
	dims, band   []int
	dims1, dims2 []int // extents of Level 1 / Level 2 routines
	ldDelta      []int
	incs         []int
	scalars      [][2]complex128
	pairs        bool
	// The first fullScalars scalar pairs run on the full ld × inc grid, the others on
	// the thin grid (ld = min, inc ∈ {-2, 1}); the first pairScalars also run all
	// pairs of faults.
	fullScalars, pairScalars int
}

func menusFor(g *vlib.G) blasMenus {
	m := blasMenus{
		dims:    []int{0, 1, 2, 3, 5},
		dims1:   []int{0, 1, 2, 3, 5, 8, 9, 17},
		dims2:   []int{0, 1, 2, 3, 5},
		band:    []int{0, 1, 2, 3},
		ldDelta: []int{0, 2},
		incs:    []int{-2, -1, 1, 2},
		// (alpha, beta): the ordinary pair first, then every value that triggers a
		// quick return or a special path in some routine, alone and combined:
		// alpha == 0, beta == 1, beta == 0, alpha == 1; for the complex precisions
		// also a purely imaginary alpha and a beta with real part 1 (the last two).
		scalars:     [][2]complex128{{2, 3}, {0, 3}, {0, 1}, {2, 1}, {2, 0}, {0, 0}, {1, 1}, {1, 0}, {2i, 1}, {0, 1 + 1i}},
		fullScalars: 2,
		pairScalars: 1,
		pairs:       true,
	}
	if g.Thorough() {
		m.band = []int{0, 1, 2, 3, 5}
		m.dims1 = []int{0, 1, 2, 3, 5, 8, 9, 16, 17, 33, 64, 65}
		m.dims2 = []int{0, 1, 2, 3, 5, 9}
		m.dims = []int{0, 1, 2, 3, 5, 9}
		m.incs = []int{-3, -2, -1, 1, 2, 3}
		m.fullScalars = len(m.scalars)
		m.pairScalars = 4
	}
	return m
}

var (
	uplos = []blas.Uplo{blas.Upper, blas.Lower}
	diags = []blas.Diag{blas.NonUnit, blas.Unit}
	sides = []blas.Side{blas.Left, blas.Right}
	rotms = []blas.Flag{blas.Identity, blas.Rescaling, blas.OffDiagonal, blas.Diagonal}
)

// genBlas enumerates all rows of the given level.
func genBlas(level int) func(g *vlib.G) {
	return func(g *vlib.G) {
		if vlib.Env("VERIF_CONFIG", "default") == "bounds" {
			return // the bounds tag only affects mat
		}
		menus := menusFor(g)
		impl := reflect.ValueOf(gonum.Implementation{})
		for _, r := range Routines {
			if r.Level != level || len(r.Ops) == 0 {
				continue
			}
			for _, p := range Precs {
				if r.Method(p) == "" {
					continue
				}
				genMethod(g, menus, newBlasMethod(impl, r, p))
			}
		}
	}
}

func genMethod(g *vlib.G, menus blasMenus, bm *blasMethod) {
	r := bm.r
	// flag menus
	type flagAxis struct {
		tok string
		n   int
	}
	var axes []flagAxis
	for _, tok := range r.Args {
		switch tok {
		case "tA", "tB":
			axes = append(axes, flagAxis{tok, len(r.Trans(bm.p))})
		case "uplo", "diag", "side":
			axes = append(axes, flagAxis{tok, 2})
		}
	}
	var dimToks []string
	for _, tok := range r.Args {
		switch tok {
		case "m", "n", "k", "kl", "ku":
			dimToks = append(dimToks, tok)
		}
	}
	dimMenu := func(tok string) []int {
		switch {
		case tok == "kl" || tok == "ku" || (tok == "k" && r.Level == 2):
			return menus.band
		case r.Level == 1:
			return menus.dims1
		case r.Level == 2:
			return menus.dims2
		}
		return menus.dims
	}
	radF := make([]int, len(axes))
	for i, a := range axes {
		radF[i] = a.n
	}
	radD := make([]int, len(dimToks))
	for i, tok := range dimToks {
		radD[i] = len(dimMenu(tok))
	}
	vlib.Product(radF, func(fi []int) bool {
		fi = append([]int(nil), fi...)
		vlib.Product(radD, func(di []int) bool {
			di = append([]int(nil), di...)
			proto := Call{R: r, P: bm.p, TA: blas.NoTrans, TB: blas.NoTrans, UL: blas.Upper, DG: blas.NonUnit, SD: blas.Left}
			var key strings.Builder
			key.WriteString(bm.name)
			for i, a := range axes {
				var ch byte
				switch a.tok {
				case "tA":
					proto.TA = r.Trans(bm.p)[fi[i]]
					ch = byte(proto.TA)
				case "tB":
					proto.TB = r.Trans(bm.p)[fi[i]]
					ch = byte(proto.TB)
				case "uplo":
					proto.UL = uplos[fi[i]]
					ch = byte(proto.UL)
				case "diag":
					proto.DG = diags[fi[i]]
					ch = byte(proto.DG)
				case "side":
					proto.SD = sides[fi[i]]
					ch = byte(proto.SD)
				}
				fmt.Fprintf(&key, " %s=%c", a.tok, ch)
			}
			for i, tok := range dimToks {
				v := dimMenu(tok)[di[i]]
				switch tok {
				case "m":
					proto.M = v
				case "n":
					proto.N = v
				case "k":
					proto.K = v
				case "kl":
					proto.KL = v
				case "ku":
					proto.KU = v
				}
				fmt.Fprintf(&key, " %s=%d", tok, v)
			}
			g.Case(key.String(), func(t *vlib.T) { runBlasCase(t, bm, proto, menus) })
			return !g.Stopped()
		})
		return !g.Stopped()
	})
}

// runBlasCase enumerates leading dimensions × increments × scalars (× rotm
// flags) for fixed flags and extents and runs every base.
func runBlasCase(t *vlib.T, bm *blasMethod, proto Call, menus blasMenus) {
	r := bm.r
	nops := len(r.Ops)
	// regions sized for the largest operand of this case
	big := proto
	big.R = r
	big.Ld, big.Inc = make([]int, nops), make([]int, nops)
	for k := range r.Ops {
		if r.Ops[k].Kind == Vector {
			for _, inc := range menus.incs {
				big.Inc[k] = imax(big.Inc[k], iabs(inc))
			}
		} else if r.Ops[k].Kind.HasLD() {
			big.Ld[k] = MinLd(&big, k)
			for _, d := range menus.ldDelta {
				big.Ld[k] = imax(big.Ld[k], MinLd(&big, k)+d)
			}
		}
	}
	regs := make([]*region, nops)
	for k := range regs {
		regs[k] = newHeapRegionN(bm.p, need(&big, k))
		regs[k].fill(3 * k)
	}
	var st blasStats
	rad := make([]int, nops)
	for k := range r.Ops {
		switch {
		case r.Ops[k].Kind == Vector:
			rad[k] = len(menus.incs)
		case r.Ops[k].Kind.HasLD():
			rad[k] = len(menus.ldDelta)
		default:
			rad[k] = 1
		}
	}
	scal := menus.scalars
	if !r.Has("alpha") && !r.Has("beta") && !r.Has("c") {
		scal = scal[:1]
	}
	flags := []blas.Flag{0}
	if r.Has("P") {
		flags = rotms
	}
	thinIncs, thinLd := []int{-2, 1}, []int{0}
	for isc, sc := range scal {
		if isc >= len(scal)-2 && len(scal) > 2 && !bm.p.Complex() {
			continue // the complex-valued pairs
		}
		// Every single fault is crossed with every scalar pair (a quick return such as
		// alpha == 0 && beta == 1 must not precede a documented check); the pairs of
		// faults and the full ld × inc grid only with the first scalar pairs.
		pairs := menus.pairs && isc < menus.pairScalars
		incs, lds := menus.incs, menus.ldDelta
		if isc >= menus.fullScalars {
			incs, lds = thinIncs, thinLd
		}
		for k := range r.Ops {
			switch {
			case r.Ops[k].Kind == Vector:
				rad[k] = len(incs)
			case r.Ops[k].Kind.HasLD():
				rad[k] = len(lds)
			}
		}
		for _, fl := range flags {
			vlib.Product(rad, func(idx []int) bool {
				c := proto
				c.R = r
				c.Alpha, c.Beta = sc[0], sc[1]
				if r.AlphaReal || !bm.p.Complex() {
					c.Alpha = complex(real(c.Alpha), 0)
				}
				c.RotmFlag = fl
				c.Ld = make([]int, nops)
				c.Inc = make([]int, nops)
				for k := range r.Ops {
					switch {
					case r.Ops[k].Kind == Vector:
						c.Inc[k] = incs[idx[k]]
					case r.Ops[k].Kind.HasLD():
						c.Ld[k] = MinLd(&c, k) + lds[idx[k]]
					}
				}
				bm.runBase(debugFailer{t}, &c, regs, pairs, &st)
				return true
			})
		}
	}
	t.Count("blas_valid_calls", st.valid)
	t.Count("blas_guard_page_calls", st.guard)
	t.Count("blas_single_fault_calls", st.single)
	t.Count("blas_double_fault_calls", st.pair)
	t.Count("blas_pair_panicked_with_first_fault_message", st.pairFirst)
	t.Count("blas_pair_panicked_with_second_fault_message", st.pairSecond)
	t.Count("blas_dont_care_fault_returned_normally", st.optionalQuiet)
	var ks []string
	for i, b := range st.kinds {
		if b {
			ks = append(ks, fkNames[i])
		}
	}
	if !nonEmpty(&proto) {
		t.Outcome(fmt.Sprintf("L%d zero-sized problem: %s", r.Level, strings.Join(ks, "+")))
	} else {
		t.Outcome(fmt.Sprintf("L%d %s: %s", r.Level, r.Base, strings.Join(ks, "+")))
	}
	if st.kinds[fkShort] {
		t.Nontrivial()
	}
}

// genBlasTable asserts that the table names every method of
// gonum.Implementation exactly once and calls the array-free routines.
func genBlasTable(g *vlib.G) {
	g.Case("table", func(t *vlib.T) {
		seen := map[string]int{}
		for _, r := range Routines {
			for _, p := range Precs {
				if m := r.Method(p); m != "" {
					seen[m]++
				}
			}
		}
		ty := reflect.TypeOf(gonum.Implementation{})
		var missing []string
		for i := 0; i < ty.NumMethod(); i++ {
			n := ty.Method(i).Name
			if seen[n] != 1 {
				missing = append(missing, n)
			}
			delete(seen, n)
		}
		var extra []string
		for n := range seen {
			extra = append(extra, n)
		}
		sort.Strings(extra)
		if len(missing) > 0 || len(extra) > 0 {
			t.Failf("spec table and gonum.Implementation disagree: not exactly once %v, not methods %v", missing, extra)
		}
		// the hand-copied message lists must equal the errors.go files of the tree (when readable)
		for _, f := range []struct {
			path string
			have map[string]bool
			skip map[string]bool
		}{
			{"/repo/blas/gonum/errors.go", blasMsgs, nil},
			{"/repo/lapack/gonum/errors.go", lapackMsgs, map[string]bool{"lapack: n < min(m,k)": true, "lapack: m < min(n,k)": true, "lapack: bad GSVDJobU": true, "lapack: bad GSVDJobV": true, "lapack: bad GSVDJobQ": true, "lapack: n must be 2 or 3": true, "lapack: n > 8": true}},
		} {
			src, err := os.ReadFile(f.path)
			if err != nil {
				continue
			}
			inFile := map[string]bool{}
			for _, m := range regexp.MustCompile(`=\s*"((?:blas|lapack): [^"]+)"`).FindAllStringSubmatch(string(src), -1) {
				inFile[m[1]] = true
				if !f.have[m[1]] {
					t.Failf("%s defines %q, which the harness's copy of the list lacks", f.path, m[1])
				}
			}
			for m := range f.have {
				if !inFile[m] && !f.skip[m] {
					t.Failf("the harness lists %q, which %s does not define", m, f.path)
				}
			}
			t.Count("message_lists_compared_with_errors_go", 1)
		}
		t.Count("blas_methods_in_table", int64(ty.NumMethod()))
		t.Outcome(fmt.Sprintf("methods=%d", ty.NumMethod()))
		t.Nontrivial()
	})
	// rotg, rotmg take scalars only: there is no invalid argument; they must never panic.
	// (moderate magnitudes only: Drotmg(0,-1,0,1e-300) does not terminate, see NOTES.md by-catch)
	vals := []float64{0, 1, -1, 2, -0.5, 3, -4096 * 4096 * 2, 1.0 / (4096 * 4096 * 2), 4096 * 4096 * 4}
	g.Case("rotg-rotmg", func(t *vlib.T) {
		impl := gonum.Implementation{}
		var n int64
		for _, a := range vals {
			for _, b := range vals {
				a, b := a, b
				if e := run(func() { impl.Drotg(a, b) }); e != nil {
					t.FailClass("valid-call-panics", "Drotg(%v,%v) panicked: %v", a, b, e)
				}
				if e := run(func() { impl.Srotg(float32(a), float32(b)) }); e != nil {
					t.FailClass("valid-call-panics", "Srotg(%v,%v) panicked: %v", a, b, e)
				}
				n += 2
				for _, x := range vals {
					for _, y := range vals {
						x, y := x, y
						if e := run(func() { impl.Drotmg(a, b, x, y) }); e != nil {
							t.FailClass("valid-call-panics", "Drotmg(%v,%v,%v,%v) panicked: %v", a, b, x, y, e)
						}
						if e := run(func() { impl.Srotmg(float32(a), float32(b), float32(x), float32(y)) }); e != nil {
							t.FailClass("valid-call-panics", "Srotmg(%v,%v,%v,%v) panicked: %v", a, b, x, y, e)
						}
						n += 2
					}
				}
			}
		}
		t.Count("blas_valid_calls", n)
		t.Outcome("scalar-only")
		t.Nontrivial()
	})
}
