// spec.go — the BLAS specification table, COPIED from harness/c01/spec.go (author of C01)
// with the reference formulas (Ref/Prep/HermQuick) removed: C07 needs the argument order,
// the operand descriptors and the flag menus only.
//
// One row (Routine) per *base* BLAS routine. A row is precision-agnostic: it
// names the gonum.Implementation method of each precision (S = float32,
// D = float64, C = complex64, Z = complex128), the blas32/blas64/cblas64/
// cblas128 wrapper function, the order of the arguments of the raw method
// (Args), the operands with their storage scheme and extents (Ops), the flag
// menus.
//
// Nothing in this file depends on how a call is executed or checked; a
// consumer only needs Routines, Routine, Operand, Call, Kind, Prec.
//
// Conventions of gonum's BLAS (blas/gonum/doc.go), all ROW-MAJOR:
//
//	General r×c, stride ld ≥ max(1,c):  (i,j) at i*ld+j, needs (r-1)*ld+c elements
//	Sym/Herm/Tri n×n (full storage):    as General, only the uplo triangle is accessed
//	                                     (Tri with Unit diag: the diagonal is not accessed;
//	                                     Herm: imaginary parts of the diagonal are ignored)
//	GenBand m×n, kl sub/ku super-diag:  (i,j) at i*ld+kl+j-i, ld ≥ kl+ku+1,
//	                                     needs ld*(min(m,n+kl)-1)+kl+ku+1 elements
//	Sym/Herm/TriBand n×n, k diagonals:  Upper: (i,j) at i*ld+j-i   (i ≤ j ≤ i+k)
//	                                     Lower: (i,j) at i*ld+k+j-i (i-k ≤ j ≤ i), ld ≥ k+1,
//	                                     needs ld*(n-1)+k+1 elements
//	Sym/Herm/TriPacked n×n:             Upper: (i,j) at i*(2n-i+1)/2+j-i, Lower: i*(i+1)/2+j,
//	                                     needs n*(n+1)/2 elements
//	Vector n, increment inc ≠ 0:        element i at i*inc (inc>0) or (n-1-i)*|inc| (inc<0),
//	                                     needs 1+(n-1)*|inc| elements
package main

import (
	"strings"

	"gonum.org/v1/gonum/blas"
)

// Prec is one of the four BLAS precisions.
type Prec int

const (
	S Prec = iota // float32
	D             // float64
	C             // complex64
	Z             // complex128
)

// Precs lists all precisions in table order.
var Precs = []Prec{S, D, C, Z}

func (p Prec) String() string { return "SDCZ"[p : p+1] }

// Complex reports whether the precision is complex.
func (p Prec) Complex() bool { return p >= C }

// Single reports whether the precision is based on float32.
func (p Prec) Single() bool { return p == S || p == C }

// Kind is the storage scheme / structure of an operand.
type Kind int

const (
	Vector     Kind = iota // strided vector
	General                // dense r×c
	Sym                    // symmetric, full storage, one triangle accessed
	Herm                   // Hermitian, full storage, one triangle accessed
	Tri                    // triangular, full storage
	GenBand                // general band (kl, ku)
	SymBand                // symmetric band (k)
	HermBand               // Hermitian band (k)
	TriBand                // triangular band (k)
	SymPacked              // symmetric packed
	HermPacked             // Hermitian packed
	TriPacked              // triangular packed
)

var kindNames = [...]string{"Vector", "General", "Sym", "Herm", "Tri", "GenBand", "SymBand", "HermBand", "TriBand", "SymPacked", "HermPacked", "TriPacked"}

func (k Kind) String() string { return kindNames[k] }

// HasLD reports whether operands of this kind take a leading-dimension argument.
func (k Kind) HasLD() bool { return k >= General && k <= TriBand }

// Banded reports whether the kind uses band storage.
func (k Kind) Banded() bool { return k >= GenBand && k <= TriBand }

// Packed reports whether the kind uses packed storage.
func (k Kind) Packed() bool { return k >= SymPacked }

// Symmetric reports Sym, SymBand, SymPacked.
func (k Kind) Symmetric() bool { return k == Sym || k == SymBand || k == SymPacked }

// Hermitian reports Herm, HermBand, HermPacked.
func (k Kind) Hermitian() bool { return k == Herm || k == HermBand || k == HermPacked }

// Triangular reports Tri, TriBand, TriPacked.
func (k Kind) Triangular() bool { return k == Tri || k == TriBand || k == TriPacked }

// Access says whether the routine may write the operand.
type Access int

const (
	In    Access = iota // read-only: must be bitwise unchanged on return
	InOut               // read and written (write-only on entry when the routine has a beta and beta == 0)
)

// RetKind is the kind of value a routine returns.
type RetKind int

const (
	RetNone   RetKind = iota
	RetScalar         // a value of the element type (or its real type / float64 for Dsdot)
	RetIndex          // an int (i?amax)
)

// Call holds the concrete arguments of one invocation of a Routine in one
// precision. Extents of operands are functions of a Call.
type Call struct {
	R *Routine
	P Prec

	TA, TB blas.Transpose
	UL     blas.Uplo
	DG     blas.Diag
	SD     blas.Side

	M, N, K, KL, KU int

	// Alpha and Beta are the canonical scalar values; for rot they hold c and s.
	// Real-typed scalars (Routine.AlphaReal/BetaReal) have zero imaginary part.
	Alpha, Beta complex128

	// Rotm parameters (rotm only): Flag and H in column-major order, NaN in
	// the entries the flag says are not used.
	RotmFlag blas.Flag
	RotmH    [4]float64

	// Ld[i], Inc[i] are the leading dimension / increment of operand i of R.Ops.
	Ld, Inc []int
}

// Operand describes one array argument of a routine.
type Operand struct {
	Name   string // "A", "B", "C", "X", "Y": the token used in Routine.Args ("ld"+Name, "inc"+Name for its stride)
	Kind   Kind
	Access Access
	// Rows and Cols give the logical extents for a Call (Cols is nil for
	// vectors, Rows is the vector length).
	Rows, Cols func(c *Call) int
}

// Routine is one row of the specification table.
type Routine struct {
	Base    string    // base name: "gemv", "her2k", ...
	Level   int       // 1, 2 or 3
	Methods [4]string // gonum.Implementation method per precision ("" = the routine does not exist)
	Wrapper string    // function name in blas32/blas64/cblas64/cblas128 ("" = none)
	// Args is the argument list of the raw method, in order. Tokens:
	//   flags:   tA tB uplo diag side
	//   extents: m n k kl ku
	//   scalars: alpha beta (c s for rot; P = rotm parameter struct)
	//   arrays:  the operand name (A B C X Y), followed by ld<Name> / inc<Name>
	Args []string
	Ops  []Operand
	// TransReal/TransCmplx are the legal values of tA (and tB) per precision class.
	TransReal, TransCmplx []blas.Transpose
	AlphaReal, BetaReal   bool // the scalar has the real type of the precision even for C and Z
	Solve                 bool // triangular solve: diagonal from the unit/dyadic alphabet, right-hand side constructed by Prep
	Ret                   RetKind
	// DiagImagIgnored is set for the Hermitian rows whose gonum documentation
	// says the imaginary parts of the diagonal are "ignored" (hemv, hbmv,
	// hpmv, her, her2); the other Hermitian rows (hpr, hpr2, hemm, herk,
	// her2k) only say "assumed to be zero" (the reference BLAS says "need not
	// be set" for all of them).
	DiagImagIgnored bool
	// Special marks rows whose results are not exact in floating point
	// (nrm2) or that take no array (rotg, rotmg); they are checked by the
	// dedicated scalar groups, not by the generic engine.
	Special bool
}

// Has reports whether tok occurs in Args.
func (r *Routine) Has(tok string) bool {
	for _, a := range r.Args {
		if a == tok {
			return true
		}
	}
	return false
}

// Op returns the index of the operand called name, or -1.
func (r *Routine) Op(name string) int {
	for i := range r.Ops {
		if r.Ops[i].Name == name {
			return i
		}
	}
	return -1
}

// Trans returns the legal transpose values for precision p.
func (r *Routine) Trans(p Prec) []blas.Transpose {
	if p.Complex() {
		return r.TransCmplx
	}
	return r.TransReal
}

// Method returns the method name for precision p ("" if absent).
func (r *Routine) Method(p Prec) string { return r.Methods[p] }

// ---- extent helpers -------------------------------------------------------

func dM(c *Call) int { return c.M }
func dN(c *Call) int { return c.N }

// rows/cols of op(A) stored untransposed: (tA==NoTrans ? a : b).
func ifNoTransA(a, b func(*Call) int) func(*Call) int {
	return func(c *Call) int {
		if c.TA == blas.NoTrans {
			return a(c)
		}
		return b(c)
	}
}
func ifNoTransB(a, b func(*Call) int) func(*Call) int {
	return func(c *Call) int {
		if c.TB == blas.NoTrans {
			return a(c)
		}
		return b(c)
	}
}
func ifLeft(a, b func(*Call) int) func(*Call) int {
	return func(c *Call) int {
		if c.SD == blas.Left {
			return a(c)
		}
		return b(c)
	}
}
func dK(c *Call) int { return c.K }

func vec(name string, acc Access, n func(*Call) int) Operand {
	return Operand{Name: name, Kind: Vector, Access: acc, Rows: n}
}
func matOp(name string, kind Kind, acc Access, r, c func(*Call) int) Operand {
	return Operand{Name: name, Kind: kind, Access: acc, Rows: r, Cols: c}
}
func sq(name string, kind Kind, acc Access, n func(*Call) int) Operand {
	return Operand{Name: name, Kind: kind, Access: acc, Rows: n, Cols: n}
}

func args(s string) []string { return strings.Fields(s) }

var (
	transNTC = []blas.Transpose{blas.NoTrans, blas.Trans, blas.ConjTrans}
	transNT  = []blas.Transpose{blas.NoTrans, blas.Trans}
	transNC  = []blas.Transpose{blas.NoTrans, blas.ConjTrans}
)

// names builds the four method names from per-precision prefixes and a base.
func names(base string, precs string) [4]string {
	var out [4]string
	for _, p := range Precs {
		if strings.Contains(precs, p.String()) {
			out[p] = p.String() + base
		}
	}
	return out
}

// Routines is the specification table.
var Routines = buildRoutines()

func buildRoutines() []*Routine {
	var rs []*Routine
	add := func(r *Routine) { rs = append(rs, r) }

	// ---------------- Level 1 ----------------
	xy := func(accX, accY Access) []Operand { return []Operand{vec("X", accX, dN), vec("Y", accY, dN)} }

	// dot = Σ x[i]·y[i]
	add(&Routine{Base: "dot", Level: 1, Methods: names("dot", "SD"), Wrapper: "Dot",
		Args: args("n X incX Y incY"), Ops: xy(In, In), Ret: RetScalar})
	// dotu = Σ x[i]·y[i] (complex, unconjugated)
	add(&Routine{Base: "dotu", Level: 1, Methods: names("dotu", "CZ"), Wrapper: "Dotu",
		Args: args("n X incX Y incY"), Ops: xy(In, In), Ret: RetScalar})
	// dotc = Σ conj(x[i])·y[i]
	add(&Routine{Base: "dotc", Level: 1, Methods: names("dotc", "CZ"), Wrapper: "Dotc",
		Args: args("n X incX Y incY"), Ops: xy(In, In), Ret: RetScalar})
	// sdsdot = alpha + Σ x[i]·y[i] accumulated in float64, returned as float32
	add(&Routine{Base: "sdsdot", Level: 1, Methods: [4]string{S: "Sdsdot"}, Wrapper: "SDDot",
		Args: args("n alpha X incX Y incY"), Ops: xy(In, In), Ret: RetScalar})
	// dsdot = Σ x[i]·y[i] of float32 vectors accumulated and returned in float64
	add(&Routine{Base: "dsdot", Level: 1, Methods: [4]string{S: "Dsdot"}, Wrapper: "DDot",
		Args: args("n X incX Y incY"), Ops: xy(In, In), Ret: RetScalar})
	// nrm2 = sqrt(Σ |x[i]|²); 0 if incX < 0
	add(&Routine{Base: "nrm2", Level: 1, Methods: [4]string{"Snrm2", "Dnrm2", "Scnrm2", "Dznrm2"}, Wrapper: "Nrm2",
		Args: args("n X incX"), Ops: []Operand{vec("X", In, dN)}, Ret: RetScalar, Special: true})
	// asum = Σ |Re x[i]| + |Im x[i]|; 0 if incX < 0
	add(&Routine{Base: "asum", Level: 1, Methods: [4]string{"Sasum", "Dasum", "Scasum", "Dzasum"}, Wrapper: "Asum",
		Args: args("n X incX"), Ops: []Operand{vec("X", In, dN)}, Ret: RetScalar})
	// iamax = first index of max |Re x[i]| + |Im x[i]|; -1 if n == 0 or incX < 0
	add(&Routine{Base: "iamax", Level: 1, Methods: [4]string{"Isamax", "Idamax", "Icamax", "Izamax"}, Wrapper: "Iamax",
		Args: args("n X incX"), Ops: []Operand{vec("X", In, dN)}, Ret: RetIndex})
	// swap: x[i], y[i] = y[i], x[i]
	add(&Routine{Base: "swap", Level: 1, Methods: names("swap", "SDCZ"), Wrapper: "Swap",
		Args: args("n X incX Y incY"), Ops: xy(InOut, InOut)})
	// copy: y[i] = x[i]
	add(&Routine{Base: "copy", Level: 1, Methods: names("copy", "SDCZ"), Wrapper: "Copy",
		Args: args("n X incX Y incY"), Ops: xy(In, InOut)})
	// axpy: y[i] += alpha·x[i]
	add(&Routine{Base: "axpy", Level: 1, Methods: names("axpy", "SDCZ"), Wrapper: "Axpy",
		Args: args("n alpha X incX Y incY"), Ops: xy(In, InOut)})
	// scal: x[i] *= alpha; no effect if incX < 0
	add(&Routine{Base: "scal", Level: 1, Methods: names("scal", "SDCZ"), Wrapper: "Scal",
		Args: args("n alpha X incX"), Ops: []Operand{vec("X", InOut, dN)}})
	// rscal (Csscal, Zdscal): x[i] *= alpha with real alpha; no effect if incX < 0
	add(&Routine{Base: "rscal", Level: 1, Methods: [4]string{C: "Csscal", Z: "Zdscal"}, Wrapper: "Dscal",
		Args: args("n alpha X incX"), Ops: []Operand{vec("X", InOut, dN)}, AlphaReal: true})
	// rot: x[i], y[i] = c·x[i]+s·y[i], c·y[i]−s·x[i]   (c = Call.Alpha, s = Call.Beta)
	add(&Routine{Base: "rot", Level: 1, Methods: names("rot", "SD"), Wrapper: "Rot",
		Args: args("n X incX Y incY c s"), Ops: xy(InOut, InOut)})
	// rotm: (x[i], y[i]) = H·(x[i], y[i]) with H selected by the flag
	add(&Routine{Base: "rotm", Level: 1, Methods: names("rotm", "SD"), Wrapper: "Rotm",
		Args: args("n X incX Y incY P"), Ops: xy(InOut, InOut)})
	// rotg, rotmg: scalar-only, checked by invariants
	add(&Routine{Base: "rotg", Level: 1, Methods: names("rotg", "SD"), Wrapper: "Rotg", Special: true})
	add(&Routine{Base: "rotmg", Level: 1, Methods: names("rotmg", "SD"), Wrapper: "Rotmg", Special: true})

	// ---------------- Level 2 ----------------
	lenX := ifNoTransA(dN, dM) // length of x in gemv/gbmv
	lenY := ifNoTransA(dM, dN)

	// gemv: y = alpha·op(A)·x + beta·y, A m×n
	add(&Routine{Base: "gemv", Level: 2, Methods: names("gemv", "SDCZ"), Wrapper: "Gemv",
		Args: args("tA m n alpha A ldA X incX beta Y incY"), TransReal: transNTC, TransCmplx: transNTC,
		Ops: []Operand{matOp("A", General, In, dM, dN), vec("X", In, lenX), vec("Y", InOut, lenY)}})
	// gbmv: same with A an m×n band matrix
	add(&Routine{Base: "gbmv", Level: 2, Methods: names("gbmv", "SDCZ"), Wrapper: "Gbmv",
		Args: args("tA m n kl ku alpha A ldA X incX beta Y incY"), TransReal: transNTC, TransCmplx: transNTC,
		Ops: []Operand{matOp("A", GenBand, In, dM, dN), vec("X", In, lenX), vec("Y", InOut, lenY)}})

	// trmv/tbmv/tpmv: x = op(A)·x, A triangular n×n
	// trsv/tbsv/tpsv: solve op(A)·x = b, b passed in x
	for _, v := range []struct {
		stem string
		kind Kind
		a    string
	}{
		{"tr", Tri, "uplo tA diag n A ldA X incX"},
		{"tb", TriBand, "uplo tA diag n k A ldA X incX"},
		{"tp", TriPacked, "uplo tA diag n A X incX"},
	} {
		ops := []Operand{sq("A", v.kind, In, dN), vec("X", InOut, dN)}
		wr := strings.ToUpper(v.stem[:1]) + v.stem[1:]
		add(&Routine{Base: v.stem + "mv", Level: 2, Methods: names(v.stem+"mv", "SDCZ"), Wrapper: wr + "mv",
			Args: args(v.a), TransReal: transNTC, TransCmplx: transNTC, Ops: ops})
		add(&Routine{Base: v.stem + "sv", Level: 2, Methods: names(v.stem+"sv", "SDCZ"), Wrapper: wr + "sv",
			Args: args(v.a), TransReal: transNTC, TransCmplx: transNTC, Ops: ops, Solve: true})
	}

	// symv/sbmv/spmv (real), hemv/hbmv/hpmv (complex): y = alpha·A·x + beta·y, A symmetric/Hermitian n×n
	for _, v := range []struct {
		base, precs, wr string
		kind            Kind
		a               string
	}{
		{"symv", "SD", "Symv", Sym, "uplo n alpha A ldA X incX beta Y incY"},
		{"sbmv", "SD", "Sbmv", SymBand, "uplo n k alpha A ldA X incX beta Y incY"},
		{"spmv", "SD", "Spmv", SymPacked, "uplo n alpha A X incX beta Y incY"},
		{"hemv", "CZ", "Hemv", Herm, "uplo n alpha A ldA X incX beta Y incY"},
		{"hbmv", "CZ", "Hbmv", HermBand, "uplo n k alpha A ldA X incX beta Y incY"},
		{"hpmv", "CZ", "Hpmv", HermPacked, "uplo n alpha A X incX beta Y incY"},
	} {
		add(&Routine{Base: v.base, Level: 2, Methods: names(v.base, v.precs), Wrapper: v.wr, Args: args(v.a),
			Ops:             []Operand{sq("A", v.kind, In, dN), vec("X", In, dN), vec("Y", InOut, dN)},
			DiagImagIgnored: v.kind.Hermitian()})
	}

	// ger (real), geru: A += alpha·x·yᵀ; gerc: A += alpha·x·yᴴ; A m×n
	gerOps := []Operand{vec("X", In, dM), vec("Y", In, dN), matOp("A", General, InOut, dM, dN)}
	add(&Routine{Base: "ger", Level: 2, Methods: names("ger", "SD"), Wrapper: "Ger",
		Args: args("m n alpha X incX Y incY A ldA"), Ops: gerOps})
	add(&Routine{Base: "geru", Level: 2, Methods: names("geru", "CZ"), Wrapper: "Geru",
		Args: args("m n alpha X incX Y incY A ldA"), Ops: gerOps})
	add(&Routine{Base: "gerc", Level: 2, Methods: names("gerc", "CZ"), Wrapper: "Gerc",
		Args: args("m n alpha X incX Y incY A ldA"), Ops: gerOps})

	// rank-1 and rank-2 updates of the stored triangle of a symmetric/Hermitian A
	for _, v := range []struct {
		base, precs, wr string
		kind            Kind
		a               string
		two, areal      bool
	}{
		{"syr", "SD", "Syr", Sym, "uplo n alpha X incX A ldA", false, false},         // A += alpha·x·xᵀ
		{"spr", "SD", "Spr", SymPacked, "uplo n alpha X incX A", false, false},       //
		{"syr2", "SD", "Syr2", Sym, "uplo n alpha X incX Y incY A ldA", true, false}, // A += alpha·x·yᵀ + alpha·y·xᵀ
		{"spr2", "SD", "Spr2", SymPacked, "uplo n alpha X incX Y incY A", true, false},
		{"her", "CZ", "Her", Herm, "uplo n alpha X incX A ldA", false, true}, // A += alpha·x·xᴴ, alpha real
		{"hpr", "CZ", "Hpr", HermPacked, "uplo n alpha X incX A", false, true},
		{"her2", "CZ", "Her2", Herm, "uplo n alpha X incX Y incY A ldA", true, false}, // A += alpha·x·yᴴ + conj(alpha)·y·xᴴ
		{"hpr2", "CZ", "Hpr2", HermPacked, "uplo n alpha X incX Y incY A", true, false},
	} {
		ops := []Operand{vec("X", In, dN)}
		if v.two {
			ops = append(ops, vec("Y", In, dN))
		}
		ops = append(ops, sq("A", v.kind, InOut, dN))
		r := &Routine{Base: v.base, Level: 2, Methods: names(v.base, v.precs), Wrapper: v.wr, Args: args(v.a),
			Ops: ops, AlphaReal: v.areal}
		if v.kind.Hermitian() {
			r.DiagImagIgnored = v.base == "her" || v.base == "her2"
		}
		add(r)
	}

	// ---------------- Level 3 ----------------
	// gemm: C = alpha·op(A)·op(B) + beta·C; op(A) m×k, op(B) k×n, C m×n
	add(&Routine{Base: "gemm", Level: 3, Methods: names("gemm", "SDCZ"), Wrapper: "Gemm",
		Args: args("tA tB m n k alpha A ldA B ldB beta C ldC"), TransReal: transNTC, TransCmplx: transNTC,
		Ops: []Operand{
			matOp("A", General, In, ifNoTransA(dM, dK), ifNoTransA(dK, dM)),
			matOp("B", General, In, ifNoTransB(dK, dN), ifNoTransB(dN, dK)),
			matOp("C", General, InOut, dM, dN)}})
	// symm/hemm: C = alpha·A·B + beta·C (Left, A m×m) or alpha·B·A + beta·C (Right, A n×n)
	for _, v := range []struct {
		base, precs, wr string
		kind            Kind
	}{{"symm", "SDCZ", "Symm", Sym}, {"hemm", "CZ", "Hemm", Herm}} {
		add(&Routine{Base: v.base, Level: 3, Methods: names(v.base, v.precs), Wrapper: v.wr,
			Args: args("side uplo m n alpha A ldA B ldB beta C ldC"),
			Ops:  []Operand{sq("A", v.kind, In, ifLeft(dM, dN)), matOp("B", General, In, dM, dN), matOp("C", General, InOut, dM, dN)}})
	}
	// syrk: C = alpha·A·Aᵀ + beta·C (NoTrans, A n×k) or alpha·Aᵀ·A + beta·C (A k×n); triangle of C
	// herk: same with ᴴ, alpha and beta real
	akRows, akCols := ifNoTransA(dN, dK), ifNoTransA(dK, dN)
	add(&Routine{Base: "syrk", Level: 3, Methods: names("syrk", "SDCZ"), Wrapper: "Syrk",
		Args: args("uplo tA n k alpha A ldA beta C ldC"), TransReal: transNTC, TransCmplx: transNT,
		Ops: []Operand{matOp("A", General, In, akRows, akCols), sq("C", Sym, InOut, dN)}})
	add(&Routine{Base: "herk", Level: 3, Methods: names("herk", "CZ"), Wrapper: "Herk",
		Args: args("uplo tA n k alpha A ldA beta C ldC"), TransCmplx: transNC, AlphaReal: true, BetaReal: true,
		Ops: []Operand{matOp("A", General, In, akRows, akCols), sq("C", Herm, InOut, dN)}})
	// syr2k: C = alpha·A·Bᵀ + alpha·B·Aᵀ + beta·C (NoTrans) or alpha·Aᵀ·B + alpha·Bᵀ·A + beta·C
	// her2k: C = alpha·A·Bᴴ + conj(alpha)·B·Aᴴ + beta·C (NoTrans) or alpha·Aᴴ·B + conj(alpha)·Bᴴ·A + beta·C, beta real
	add(&Routine{Base: "syr2k", Level: 3, Methods: names("syr2k", "SDCZ"), Wrapper: "Syr2k",
		Args: args("uplo tA n k alpha A ldA B ldB beta C ldC"), TransReal: transNTC, TransCmplx: transNT,
		Ops: []Operand{matOp("A", General, In, akRows, akCols), matOp("B", General, In, akRows, akCols), sq("C", Sym, InOut, dN)}})
	add(&Routine{Base: "her2k", Level: 3, Methods: names("her2k", "CZ"), Wrapper: "Her2k",
		Args: args("uplo tA n k alpha A ldA B ldB beta C ldC"), TransCmplx: transNC, BetaReal: true,
		Ops: []Operand{matOp("A", General, In, akRows, akCols), matOp("B", General, In, akRows, akCols), sq("C", Herm, InOut, dN)}})
	// trmm: B = alpha·op(A)·B (Left, A m×m) or alpha·B·op(A) (Right, A n×n)
	// trsm: solve op(A)·X = alpha·B (Left) or X·op(A) = alpha·B (Right), X overwrites B
	trOps := []Operand{sq("A", Tri, In, ifLeft(dM, dN)), matOp("B", General, InOut, dM, dN)}
	add(&Routine{Base: "trmm", Level: 3, Methods: names("trmm", "SDCZ"), Wrapper: "Trmm",
		Args: args("side uplo tA diag m n alpha A ldA B ldB"), TransReal: transNTC, TransCmplx: transNTC, Ops: trOps})
	add(&Routine{Base: "trsm", Level: 3, Methods: names("trsm", "SDCZ"), Wrapper: "Trsm",
		Args: args("side uplo tA diag m n alpha A ldA B ldB"), TransReal: transNTC, TransCmplx: transNTC, Ops: trOps,
		Solve: true})
	return rs
}

// RoutineByBase returns the row with the given base name.
func RoutineByBase(base string) *Routine {
	for _, r := range Routines {
		if r.Base == base {
			return r
		}
	}
	return nil
}
