// mem.go — operand storage of C07: typed slices carved out of byte regions
// (Go heap or guard-page bracketed mmap blocks), fill, snapshot, bytewise compare.
package main

import (
	"bytes"
	"fmt"
	"reflect"
	"unsafe"

	"gonum.org/v1/gonum/internal/verif/vlib"
)

const padElems = 4 // elements before and after the slice that must stay unchanged

// I is the pseudo-precision of []int operands (LAPACK pivot and index arrays).
const I Prec = 4

// Bo is the pseudo-precision of []bool operands (Dtrevc3's selected).
const Bo Prec = 5

func (p Prec) elemSize() int { return [...]int{4, 8, 8, 16, 8, 1}[p] }

// region is a block of memory holding one operand: padElems elements, the
// slice handed to the routine (starting at element off), then the rest.
type region struct {
	keep  []uint64 // keeps heap memory alive (nil for guarded memory)
	ptr   unsafe.Pointer
	total int // elements
	p     Prec
	es    int
	bytes []byte
	snap  []byte
	off   int // element offset of the slice
}

// newHeapRegionN returns a region with room for a slice of n elements.
func newHeapRegionN(p Prec, n int) *region {
	es := p.elemSize()
	total := n + 2*padElems
	keep := make([]uint64, (total*es+7)/8)
	r := &region{keep: keep, ptr: unsafe.Pointer(&keep[0]), total: total, p: p, es: es, off: padElems}
	r.bytes = unsafe.Slice((*byte)(r.ptr), total*es)
	r.snap = make([]byte, total*es)
	return r
}

// fill writes finite, non-zero, pairwise different-looking values into every
// element of the region and takes the snapshot.
func (r *region) fill(salt int) {
	switch r.p {
	case S:
		s := unsafe.Slice((*float32)(r.ptr), r.total)
		for i := range s {
			s[i] = float32(1 + (i+salt)%5)
		}
	case D:
		s := unsafe.Slice((*float64)(r.ptr), r.total)
		for i := range s {
			s[i] = float64(1 + (i+salt)%5)
		}
	case C:
		s := unsafe.Slice((*complex64)(r.ptr), r.total)
		for i := range s {
			s[i] = complex(float32(1+(i+salt)%5), float32((i+salt)%3-1))
		}
	case Z:
		s := unsafe.Slice((*complex128)(r.ptr), r.total)
		for i := range s {
			s[i] = complex(float64(1+(i+salt)%5), float64((i+salt)%3-1))
		}
	case I:
		s := unsafe.Slice((*int)(r.ptr), r.total)
		for i := range s {
			s[i] = 0
		}
	case Bo:
		s := unsafe.Slice((*bool)(r.ptr), r.total)
		for i := range s {
			s[i] = true
		}
	}
	copy(r.snap, r.bytes)
}

// snapshot records the current contents as the reference for changed.
func (r *region) snapshot() { copy(r.snap, r.bytes) }

func (r *region) restore() { copy(r.bytes, r.snap) }

// slice returns the []T of n elements (cap n) starting at element r.off.
func (r *region) slice(n int) reflect.Value {
	return typedSlice(r.p, unsafe.Add(r.ptr, r.off*r.es), n)
}

func typedSlice(p Prec, ptr unsafe.Pointer, n int) reflect.Value {
	switch p {
	case S:
		return reflect.ValueOf(unsafe.Slice((*float32)(ptr), n))
	case D:
		return reflect.ValueOf(unsafe.Slice((*float64)(ptr), n))
	case C:
		return reflect.ValueOf(unsafe.Slice((*complex64)(ptr), n))
	case I:
		return reflect.ValueOf(unsafe.Slice((*int)(ptr), n))
	case Bo:
		return reflect.ValueOf(unsafe.Slice((*bool)(ptr), n))
	}
	return reflect.ValueOf(unsafe.Slice((*complex128)(ptr), n))
}

// changed returns "" if every byte of the region equals the snapshot, else a
// description of the first changed element relative to a slice of n elements.
func (r *region) changed(n int) string {
	if bytes.Equal(r.bytes, r.snap) {
		return ""
	}
	for i := 0; i < r.total; i++ {
		if !bytes.Equal(r.bytes[i*r.es:(i+1)*r.es], r.snap[i*r.es:(i+1)*r.es]) {
			k := i - r.off
			where := fmt.Sprintf("slice element %d of %d", k, n)
			if k < 0 {
				where = fmt.Sprintf("%d element(s) BEFORE the slice", -k)
			} else if k >= n {
				where = fmt.Sprintf("element len+%d BEYOND the slice (len=cap=%d)", k-n, n)
			}
			return fmt.Sprintf("%s: bytes %x -> %x", where, r.snap[i*r.es:(i+1)*r.es], r.bytes[i*r.es:(i+1)*r.es])
		}
	}
	return "changed"
}

// ---- guard-page storage ------------------------------------------------------

// guardBlock is a process-wide mmap block bracketed by PROT_NONE pages. Its
// contents are rewritten before every use, nothing is carried between cases.
type guardBlock struct {
	g          *vlib.Guarded
	start, end unsafe.Pointer
	size       int
}

var guardBlocks [16]*guardBlock

func getGuard(i int) *guardBlock { return getGuardN(i, 4096) }

// getGuardN returns the i-th block, (re)mapped so that it holds at least n bytes.
func getGuardN(i, n int) *guardBlock {
	if b := guardBlocks[i]; b != nil {
		if b.size >= n {
			return b
		}
		b.g.Free()
		guardBlocks[i] = nil
	}
	g := vlib.NewGuarded(n)
	s := g.StartF64(1)
	e := g.EndF64(1)
	b := &guardBlock{g: g, start: unsafe.Pointer(&s[0])}
	b.size = int(uintptr(unsafe.Pointer(&e[0]))-uintptr(b.start)) + 8
	b.end = unsafe.Add(b.start, b.size)
	guardBlocks[i] = b
	return b
}

// place returns the address of a slice of n elements of precision p that ends
// exactly at the trailing PROT_NONE page (atEnd) or starts right after the leading one.
func (b *guardBlock) place(p Prec, n int, atEnd bool) unsafe.Pointer {
	if atEnd && n > 0 {
		return unsafe.Add(b.start, b.size-n*p.elemSize())
	}
	return b.start
}

// guardedSlice returns a []T of n elements at place(p, n, atEnd), filled with
// finite values.
func (b *guardBlock) guardedSlice(p Prec, n int, atEnd bool, salt int) reflect.Value {
	ptr := b.place(p, n, atEnd)
	if n == 0 {
		// an empty slice: the pointer is never dereferenced by a correct routine;
		// keep it inside the mapped block.
		return typedSlice(p, b.start, 0)
	}
	v := typedSlice(p, ptr, n)
	switch p {
	case S:
		s := v.Interface().([]float32)
		for i := range s {
			s[i] = float32(1 + (i+salt)%5)
		}
	case D:
		s := v.Interface().([]float64)
		for i := range s {
			s[i] = float64(1 + (i+salt)%5)
		}
	case C:
		s := v.Interface().([]complex64)
		for i := range s {
			s[i] = complex(float32(1+(i+salt)%5), float32((i+salt)%3-1))
		}
	case Z:
		s := v.Interface().([]complex128)
		for i := range s {
			s[i] = complex(float64(1+(i+salt)%5), float64((i+salt)%3-1))
		}
	}
	return v
}
