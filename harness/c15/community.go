package main

// community.Q / QMultiplex against the defining double sums for every set
// partition, and the Louvain output (Modularize, ModularizeMultiplex) against
// its structural postconditions at every level.

import (
	"fmt"
	"math"
	"math/rand/v2"
	"sort"
	"strings"

	"gonum.org/v1/gonum/graph"
	"gonum.org/v1/gonum/graph/community"
	"gonum.org/v1/gonum/graph/simple"
	"gonum.org/v1/gonum/internal/verif/vlib"
	"gonum.org/v1/gonum/internal/verif/vrand"
)

var resolutions = []float64{0.5, 1, 2}

const qTol = 1e-12

// commsOf turns a community assignment into the [][]graph.Node argument. The
// order of the communities and of their members is varied with variant.
func commsOf(ids []int64, comm []int, variant int) [][]graph.Node {
	k := 0
	for _, c := range comm {
		if c+1 > k {
			k = c + 1
		}
	}
	cs := make([][]graph.Node, k)
	for i := range comm {
		j := i
		if variant&1 == 1 {
			j = len(comm) - 1 - i
		}
		cs[comm[j]] = append(cs[comm[j]], simple.Node(ids[j]))
	}
	if variant&2 == 2 {
		for i, j := 0, len(cs)-1; i < j; i, j = i+1, j-1 {
			cs[i], cs[j] = cs[j], cs[i]
		}
	}
	return cs
}

func qRef(sp *spec, comm []int, gamma float64) float64 {
	a := func(i, j int) float64 { return math.Abs(sp.a(i, j)) }
	if sp.directed {
		return qDirectedRef(sp.n, a, comm, gamma)
	}
	return qUndirectedRef(sp.n, a, comm, gamma)
}

// checkQ evaluates Q for every set partition; with allGamma for every
// resolution, otherwise (the two largest spaces in the quick tier) for one
// resolution per partition, rotating with the partition and graph index.
func checkQ(t *vlib.T, b *built, allGamma bool, rot int) {
	sp := b.sp
	n := sp.n
	// Degenerate: with zero total weight the formula is 0/0; its IEEE evaluation
	// (the reference computes exactly the documented double sum) is NaN, and
	// that is what is required.
	single := make([]int, n)
	for i := range single {
		single[i] = i
	}
	seen := map[string]bool{}
	for pi, comm := range partitions(n) {
		for gi, gamma := range resolutions {
			if !allGamma && (pi+rot)%len(resolutions) != gi {
				continue
			}
			want := qRef(sp, comm, gamma)
			got := community.Q(b.g, commsOf(b.ids, comm, pi+gi), gamma)
			t.Count("q_evaluations", 1)
			if !near(got, want, qTol) {
				t.Failf("Q(%s, partition %v, resolution %v) = %v, defining double sum gives %v (diff %.3g)", sp, comm, gamma, got, want, got-want)
			}
			seen[fmt.Sprintf("%.6f", want)] = true
		}
	}
	for _, gamma := range resolutions {
		want := qRef(sp, single, gamma)
		if got := community.Q(b.g, nil, gamma); !near(got, want, qTol) {
			t.Failf("Q(%s, nil, resolution %v) = %v, singleton partition gives %v", sp, gamma, got, want)
		}
	}
	if n >= 2 {
		t.Nontrivial()
	}
	t.Outcome(fmt.Sprintf("n=%d directed=%v weighted=%v self=%v distinctQ>=%d", n, sp.directed, sp.weighted, sp.self, pow2floor(len(seen))))
	t.Detail(map[string]any{"graph": sp.String(), "ids": b.ids})
}

// near reports |got-want| <= tol, or both NaN (the IEEE value of a formula
// that is 0/0 on a degenerate graph).
func near(got, want, tol float64) bool {
	return math.Abs(got-want) <= tol || (math.IsNaN(got) && math.IsNaN(want))
}

func pow2floor(x int) int {
	p := 1
	for p*2 <= x {
		p *= 2
	}
	return p
}

func genQ(g *vlib.G, large bool) {
	spaces := []graphSpace{
		{n: 0}, {n: 1}, {n: 2}, {n: 3}, {n: 4},
		{n: 2, weighted: true}, {n: 3, weighted: true}, {n: 4, weighted: true},
		{n: 0, directed: true}, {n: 1, directed: true}, {n: 2, directed: true}, {n: 3, directed: true},
		{n: 2, directed: true, weighted: true}, {n: 3, directed: true, weighted: true},
		// every node carries the self weight 1 resp. 2 (A_ii of the formula)
		{n: 2, weighted: true, self: 1}, {n: 3, weighted: true, self: 2}, {n: 4, weighted: true, self: 1},
		{n: 2, directed: true, weighted: true, self: 2}, {n: 3, directed: true, weighted: true, self: 1},
		// zero-weight edges
		{n: 2, weighted: true, alpha: alpha012}, {n: 3, weighted: true, alpha: alpha012},
		{n: 4, weighted: true, alpha: alpha01, rotate: true},
		{n: 2, directed: true, weighted: true, alpha: alpha012},
		{n: 3, directed: true, weighted: true, alpha: alpha012, rotate: true},
		{n: 5, large: true},
		{n: 4, directed: true, large: true},
		{n: 5, weighted: true, rotate: true, large: true},
		{n: 4, directed: true, weighted: true, stride: vlib.Pick(g, 8, 1), offset: vlib.Pick(g, 1, 0), rotate: true, large: true},
		{n: 5, weighted: true, self: 2, stride: vlib.Pick(g, 23, 3), offset: 2, large: true},
		{n: 5, weighted: true, zeroOut: true, stride: vlib.Pick(g, 11, 1), offset: 4, rotate: true, large: true},
		{n: 4, directed: true, weighted: true, zeroOut: true, stride: vlib.Pick(g, 37, 3), offset: 9, large: true},
		{n: 4, directed: true, weighted: true, alpha: alpha01, stride: vlib.Pick(g, 37, 3), offset: 8, large: true},
	}
	eachSpace(g, large, spaces, func(s graphSpace, key string, mk func() *built) {
		allGamma := g.Thorough() || !(s.rotate && s.large && s.self == 0)
		rot := keySum(key)
		g.Case(key, func(t *vlib.T) { checkQ(t, mk(), allGamma, rot) })
	})
}

// ---- multiplex ----

var layerWeights = []float64{-1, 0.5, 1}

// weightOptions are the layer weight vectors for L layers: nil and every
// vector over {-1, 0.5, 1}.
func weightOptions(L int) [][]float64 {
	out := [][]float64{nil}
	total := ipow(len(layerWeights), L)
	for k := 0; k < total; k++ {
		ws := make([]float64, L)
		d := k
		for l := L - 1; l >= 0; l-- {
			ws[l] = layerWeights[d%len(layerWeights)]
			d /= len(layerWeights)
		}
		out = append(out, ws)
	}
	return out
}

// resolutionOptions are nil (all 1), a global value, per-layer values, [1].
func resolutionOptions(L int) [][]float64 {
	return [][]float64{nil, {2}, []float64{0.5, 2, 1}[:L], []float64{2, 0.5, 3}[:L], []float64{1, 3, 0.5}[:L], {1}}
}

func layerRes(res []float64, l int) float64 {
	switch len(res) {
	case 0:
		return 1
	case 1:
		return res[0]
	}
	return res[l]
}

func layerW(ws []float64, l int) float64 {
	if ws == nil {
		return 1
	}
	return ws[l]
}

// signed returns a copy of sp whose edge weights have the given sign (layers
// with a negative layer weight must have non-positive edge weights).
func signed(sp *spec, sign float64) *spec {
	if sign >= 0 {
		return sp
	}
	c := *sp
	for i := range c.w {
		for j := range c.w[i] {
			c.w[i][j] = -c.w[i][j]
		}
	}
	return &c
}

// multiplex is a multiplex graph of two or three layers built for one weight vector.
type multiplex struct {
	n        int
	directed bool
	ids      []int64
	sp       []*spec // with signed weights
	layers   []*built
	g        community.Multiplex
}

func (m *multiplex) String() string {
	var parts []string
	for _, sp := range m.sp {
		parts = append(parts, sp.String())
	}
	return strings.Join(parts, " | ")
}

func buildMultiplex(s graphSpace, idxs []int, ws []float64, idKind, order int) *multiplex {
	m := &multiplex{n: s.n, directed: s.directed, ids: idMap(idKind, s.n)}
	var dl []graph.Directed
	var ul []graph.Undirected
	for l, idx := range idxs {
		sp := signed(s.spec(idx), layerW(ws, l))
		// the containers rotate over the layers
		b := build(sp, idKind, (order+l)%nOrders, (idx+l)%nContainers)
		m.sp = append(m.sp, sp)
		m.layers = append(m.layers, b)
		if s.directed {
			dl = append(dl, b.g.(graph.Directed))
		} else {
			ul = append(ul, b.g.(graph.Undirected))
		}
	}
	var err error
	if s.directed {
		m.g, err = community.NewDirectedLayers(dl...)
	} else {
		m.g, err = community.NewUndirectedLayers(ul...)
	}
	if err != nil {
		panic("harness: " + err.Error())
	}
	return m
}

// qLayerRef is the documented Q_layer = w_layer sum_ij [A*_ij - gamma k_i k_j/2m] delta
// (undirected) or w_layer sum_ij [A*_ij - gamma k_i^out k_j^in/m] delta (directed), not
// scaled by the total layer weight, with A* the absolute edge weights.
func qLayerRef(sp *spec, w, gamma float64, comm []int) float64 {
	if w == 0 {
		return 0
	}
	n := sp.n
	a := func(i, j int) float64 { return math.Abs(sp.a(i, j)) }
	var total float64
	for i := 0; i < n; i++ {
		for j := 0; j < n; j++ {
			total += a(i, j)
		}
	}
	if sp.directed {
		return w * total * qDirectedRef(n, a, comm, gamma)
	}
	return w * total * qUndirectedRef(n, a, comm, gamma)
}

func checkQMultiplex(t *vlib.T, s graphSpace, idxs []int, idKind, order int) {
	evals := 0
	L := len(idxs)
	for wi, ws := range weightOptions(L) {
		if L == 3 && wi > 0 && (wi+idxs[0]+idxs[1]+idxs[2])%3 != 0 {
			continue // three layers: nil and a rotating third of the 27 weight vectors
		}
		m := buildMultiplex(s, idxs, ws, idKind, order)
		for pi, comm := range partitions(s.n) {
			for ri, res := range resolutionOptions(L) {
				if (pi+ri+wi)%2 == 1 && len(res) == 1 && res[0] == 1 {
					continue
				}
				got := community.QMultiplex(m.g, commsOf(m.ids, comm, pi+ri), ws, res)
				evals++
				if len(got) != L {
					t.Failf("QMultiplex returned %d values for %d layers", len(got), L)
					return
				}
				for l := 0; l < L; l++ {
					want := qLayerRef(m.sp[l], layerW(ws, l), layerRes(res, l), comm) // NaN (0/0) for a layer without weight
					if !near(got[l], want, 1e-11) {
						t.Failf("QMultiplex(layers %s, partition %v, weights %v, resolutions %v)[%d] = %v, definition gives %v", m, comm, ws, res, l, got[l], want)
					}
				}
			}
		}
		// nil communities = singletons
		single := make([]int, s.n)
		for i := range single {
			single[i] = i
		}
		// (for every resolution option: the nil-communities path of QMultiplex is separate code and
		// has to honour per-layer resolutions exactly like the explicit singleton partition.)
		for _, res := range resolutionOptions(L) {
			got := community.QMultiplex(m.g, nil, ws, res)
			evals++
			if len(got) != L {
				t.Failf("QMultiplex(nil communities) returned %d values for %d layers", len(got), L)
				return
			}
			for l := 0; l < L; l++ {
				if want := qLayerRef(m.sp[l], layerW(ws, l), layerRes(res, l), single); !near(got[l], want, 1e-11) {
					t.Failf("QMultiplex(layers %s, nil, weights %v, resolutions %v)[%d] = %v, singleton partition gives %v", m, ws, res, l, got[l], want)
				}
			}
		}
	}
	t.Count("qmultiplex_evaluations", int64(evals))
	if s.n >= 2 {
		t.Nontrivial()
	}
	empty := 0
	detail := map[string]any{}
	for l, idx := range idxs {
		sp := s.spec(idx)
		empty += b2i(sp.totalWeight() == 0)
		detail[fmt.Sprintf("layer%d", l)] = sp.String()
	}
	t.Outcome(fmt.Sprintf("%s layers=%d emptylayers=%d", s.name(), L, empty))
	t.Detail(detail)
}

func b2i(b bool) int {
	if b {
		return 1
	}
	return 0
}

// forLayerTuples enumerates L-tuples of layers of the space with the tuple
// index running over total^L; stride/offset apply to the tuple index.
func forLayerTuples(s graphSpace, L, stride, offset int, f func(key string, idxs []int, idKind, order int)) {
	total := s.count()
	if stride == 0 {
		stride = 1
	}
	for p := offset; p < ipow(total, L); p += stride {
		idxs := make([]int, L)
		d := p
		for l := L - 1; l >= 0; l-- {
			idxs[l] = d % total
			d /= total
		}
		idKind := p % 3
		order := (p / 3) % nOrders
		key := s.name() + "#"
		for l, i := range idxs {
			if l > 0 {
				key += "|"
			}
			key += fmt.Sprint(i)
		}
		f(fmt.Sprintf("%s %s %s", key, idMapNames[idKind], orderNames[order]), idxs, idKind, order)
	}
}

type tupleSpace struct {
	s                 graphSpace
	L, stride, offset int
	maxDev, maxRuns   int // louvain-multiplex only
	large             bool
}

func genQMultiplex(g *vlib.G, large bool) {
	for _, x := range []tupleSpace{
		{s: graphSpace{n: 2}, L: 2}, {s: graphSpace{n: 3}, L: 2},
		{s: graphSpace{n: 2, weighted: true}, L: 2},
		{s: graphSpace{n: 2, directed: true}, L: 2},
		{s: graphSpace{n: 2, directed: true, weighted: true}, L: 2},
		{s: graphSpace{n: 3, directed: true}, L: 2, stride: 7, offset: 3},
		{s: graphSpace{n: 2, weighted: true, alpha: alpha012}, L: 2},
		{s: graphSpace{n: 2, directed: true, weighted: true, alpha: alpha012}, L: 2},
		{s: graphSpace{n: 3, weighted: true, alpha: alpha01}, L: 2, stride: 3, offset: 1},
		// three layers
		{s: graphSpace{n: 2}, L: 3}, {s: graphSpace{n: 2, weighted: true}, L: 3},
		{s: graphSpace{n: 2, directed: true}, L: 3},
		// second phase
		{s: graphSpace{n: 3, weighted: true}, L: 2, stride: vlib.Pick(g, 3, 1), large: true},
		{s: graphSpace{n: 4}, L: 2, stride: vlib.Pick(g, 5, 1), offset: vlib.Pick(g, 1, 0), large: true},
		{s: graphSpace{n: 3, directed: true}, L: 2, stride: vlib.Pick(g, 3, 1), offset: vlib.Pick(g, 2, 0), large: true},
		{s: graphSpace{n: 3, directed: true, weighted: true}, L: 2, stride: vlib.Pick(g, 499, 29), offset: 17, large: true},
		{s: graphSpace{n: 4, weighted: true}, L: 2, stride: vlib.Pick(g, 1999, 101), offset: 101, large: true},
		{s: graphSpace{n: 3, directed: true, weighted: true, alpha: alpha012}, L: 2, stride: vlib.Pick(g, 9973, 997), offset: 55, large: true},
		{s: graphSpace{n: 3}, L: 3, large: true},
		{s: graphSpace{n: 3, weighted: true}, L: 3, stride: vlib.Pick(g, 37, 5), offset: 4, large: true},
		{s: graphSpace{n: 3, directed: true}, L: 3, stride: vlib.Pick(g, 499, 61), offset: 9, large: true},
		{s: graphSpace{n: 4}, L: 3, stride: vlib.Pick(g, 997, 101), offset: 33, large: true},
	} {
		if x.large != large {
			continue
		}
		x := x
		forLayerTuples(x.s, x.L, x.stride, x.offset, func(key string, idxs []int, idKind, order int) {
			g.Case(key, func(t *vlib.T) { checkQMultiplex(t, x.s, idxs, idKind, order) })
		})
		if g.Stopped() {
			return
		}
	}
}

// ---- Louvain ----

// level is what the harness needs from one level of a modularization,
// whatever the concrete reduced type.
type level struct {
	nodes       int
	communities [][]graph.Node // in original nodes
	structure   [][]graph.Node // in nodes of this level
	// weight returns the reduced edge weight of layer l and whether the graph reports an edge.
	weight func(l int, x, y int64) (float64, bool)
	from   func(l int, x int64) []int64
	to     func(l int, x int64) []int64 // nil for undirected
	q      func(cs [][]graph.Node) []float64
	// Size/Weight (SizeMultiplex/WeightMultiplex) of the level, set for the top level only.
	sizeScore, weightScore float64
	scored                 bool
}

func idsOf(it graph.Nodes) []int64 {
	var out []int64
	for it.Next() {
		out = append(out, it.Node().ID())
	}
	sort.Slice(out, func(i, j int) bool { return out[i] < out[j] })
	return out
}

func levelsOfReduced(top community.ReducedGraph, gamma float64) []level {
	var ls []level
	for top != nil {
		r := top
		lv := level{
			nodes:       r.Nodes().Len(),
			communities: r.Communities(),
			structure:   r.Structure(),
			weight:      func(_ int, x, y int64) (float64, bool) { return r.(graph.Weighted).Weight(x, y) },
			from:        func(_ int, x int64) []int64 { return idsOf(r.From(x)) },
			q:           func(cs [][]graph.Node) []float64 { return []float64{community.Q(r, cs, gamma)} },
		}
		if d, ok := r.(graph.Directed); ok {
			lv.to = func(_ int, x int64) []int64 { return idsOf(d.To(x)) }
		}
		ls = append(ls, lv)
		e := r.Expanded()
		// a typed nil pointer in the interface marks the lowest level
		if e == nil || isNilReduced(e) {
			break
		}
		top = e
	}
	return ls
}

func isNilReduced(e any) bool {
	switch e := e.(type) {
	case *community.ReducedUndirected:
		return e == nil
	case *community.ReducedDirected:
		return e == nil
	case *community.ReducedUndirectedMultiplex:
		return e == nil
	case *community.ReducedDirectedMultiplex:
		return e == nil
	}
	return false
}

func levelsOfMultiplex(top community.ReducedMultiplex, ws, res []float64) []level {
	var ls []level
	for top != nil {
		r := top
		layer := func(l int) graph.Graph {
			switch m := r.(type) {
			case *community.ReducedUndirectedMultiplex:
				return m.Layer(l)
			case *community.ReducedDirectedMultiplex:
				return m.Layer(l)
			}
			panic("harness: unexpected reduced multiplex type")
		}
		lv := level{
			nodes:       r.Nodes().Len(),
			communities: r.Communities(),
			structure:   r.Structure(),
			weight:      func(l int, x, y int64) (float64, bool) { return layer(l).(graph.Weighted).Weight(x, y) },
			from:        func(l int, x int64) []int64 { return idsOf(layer(l).From(x)) },
			q:           func(cs [][]graph.Node) []float64 { return community.QMultiplex(r, cs, ws, res) },
		}
		if _, ok := r.(*community.ReducedDirectedMultiplex); ok {
			lv.to = func(l int, x int64) []int64 { return idsOf(layer(l).(graph.Directed).To(x)) }
		}
		ls = append(ls, lv)
		e := r.Expanded()
		if e == nil || isNilReduced(e) {
			break
		}
		top = e
	}
	return ls
}

// louvainInput is the original graph as the checks see it.
type louvainInput struct {
	n        int
	directed bool
	ids      []int64
	layers   []*spec   // signed weights
	ws       []float64 // layer weights (nil: all one); single layer: nil
	res      []float64 // per-layer resolutions
	multi    bool
}

func (in *louvainInput) layerWeight(l int) float64 { return layerW(in.ws, l) }

// qTotal is the objective: sum of the layer scores over the layers that have
// edges and a non-zero weight (the others are ignored by the algorithm and
// have an undefined score).
func (in *louvainInput) qTotal(comm []int) float64 {
	var q float64
	for l, sp := range in.layers {
		if sp.totalWeight() == 0 || in.layerWeight(l) == 0 {
			continue
		}
		if in.multi {
			q += qLayerRef(sp, in.layerWeight(l), in.res[l], comm)
		} else {
			q += qRef(sp, comm, in.res[l])
		}
	}
	return q
}

// checkLevels validates a modularization; it returns "" or a description of
// the first violated postcondition.
func checkLevels(in *louvainInput, ls []level) (msg string, depth int) {
	n := in.n
	if len(ls) == 0 {
		return "no levels", 0
	}
	sorted := append([]int64(nil), in.ids...)
	sort.Slice(sorted, func(i, j int) bool { return sorted[i] < sorted[j] })
	idxOf := make(map[int64]int, n)
	for i, id := range in.ids {
		idxOf[id] = i
	}
	single := make([]int, n)
	for i := range single {
		single[i] = i
	}
	qPrev := in.qTotal(single)
	qSingle := qPrev
	// walk from the lowest level up
	for k := len(ls) - 1; k >= 0; k-- {
		lv := ls[k]
		where := fmt.Sprintf("level %d of %d (0 = top)", k, len(ls))
		// 1. communities partition the original nodes
		comm := make([]int, n)
		for i := range comm {
			comm[i] = -1
		}
		cnt := 0
		for ci, c := range lv.communities {
			if len(c) == 0 {
				return fmt.Sprintf("%s: empty community %d in Communities() %v", where, ci, lv.communities), len(ls)
			}
			for _, nd := range c {
				i, ok := idxOf[nd.ID()]
				if !ok {
					return fmt.Sprintf("%s: Communities() contains %d which is not a node", where, nd.ID()), len(ls)
				}
				if comm[i] != -1 {
					return fmt.Sprintf("%s: node %d is in two communities: %v", where, nd.ID(), lv.communities), len(ls)
				}
				comm[i] = ci
				cnt++
			}
		}
		if cnt != n {
			return fmt.Sprintf("%s: Communities() %v covers %d of %d nodes", where, lv.communities, cnt, n), len(ls)
		}
		// 2. the nodes of this level are the communities of the level below
		// (the ID-sorted original nodes at the lowest level).
		var members [][]int // original node indices per level node
		if k == len(ls)-1 {
			if lv.nodes != n {
				return fmt.Sprintf("%s: %d nodes for %d original nodes", where, lv.nodes, n), len(ls)
			}
			for _, id := range sorted {
				members = append(members, []int{idxOf[id]})
			}
		} else {
			below := ls[k+1]
			if lv.nodes != len(below.communities) || lv.nodes != len(below.structure) {
				return fmt.Sprintf("%s: %d nodes but the level below has %d communities / %d structure entries", where, lv.nodes, len(below.communities), len(below.structure)), len(ls)
			}
			for _, c := range below.communities {
				var ms []int
				for _, nd := range c {
					ms = append(ms, idxOf[nd.ID()])
				}
				members = append(members, ms)
			}
		}
		// 3. Structure() partitions the nodes of this level and expands to Communities().
		seen := make([]bool, lv.nodes)
		if len(lv.structure) != len(lv.communities) {
			return fmt.Sprintf("%s: %d structure entries, %d communities", where, len(lv.structure), len(lv.communities)), len(ls)
		}
		for ci, c := range lv.structure {
			var exp []int
			for _, nd := range c {
				id := nd.ID()
				if id < 0 || id >= int64(lv.nodes) || seen[id] {
					return fmt.Sprintf("%s: Structure() %v is not a partition of the %d nodes of the level", where, lv.structure, lv.nodes), len(ls)
				}
				seen[id] = true
				exp = append(exp, members[id]...)
			}
			for _, i := range exp {
				if comm[i] != ci {
					return fmt.Sprintf("%s: Structure()[%d] expands to original node %d which Communities() puts in community %d", where, ci, in.ids[i], comm[i]), len(ls)
				}
			}
			if len(exp) != len(lv.communities[ci]) {
				return fmt.Sprintf("%s: Structure()[%d] expands to %d nodes, Communities()[%d] has %d", where, ci, len(exp), ci, len(lv.communities[ci])), len(ls)
			}
		}
		for i, s := range seen {
			if !s {
				return fmt.Sprintf("%s: node %d of the level is in no Structure() entry", where, i), len(ls)
			}
		}
		// 4. reduced edge weights are the sums of the underlying weights
		for l, sp := range in.layers {
			if in.layerWeight(l) == 0 {
				continue
			}
			for x := 0; x < lv.nodes; x++ {
				var wantFrom, wantTo []int64
				for y := 0; y < lv.nodes; y++ {
					var sum float64
					edge := false
					for _, u := range members[x] {
						for _, v := range members[y] {
							if sp.has(u, v) {
								edge = true
								// the reduced graphs keep the sign of the underlying weights
								if in.multi && in.layerWeight(l) < 0 {
									sum -= math.Abs(sp.a(u, v))
								} else {
									sum += math.Abs(sp.a(u, v))
								}
							}
						}
					}
					got, ok := lv.weight(l, int64(x), int64(y))
					if x == y {
						if !ok || got != sum {
							return fmt.Sprintf("%s layer %d: Weight(%d,%d) = %v,%v; the weights inside community %v sum to %v", where, l, x, y, got, ok, members[x], sum), len(ls)
						}
						continue
					}
					if ok != edge || got != sum {
						return fmt.Sprintf("%s layer %d: Weight(%d,%d) = %v,%v; the weights from %v to %v sum to %v (edge %v)", where, l, x, y, got, ok, members[x], members[y], sum, edge), len(ls)
					}
					if edge {
						wantFrom = append(wantFrom, int64(y))
					}
					if in.directed {
						back := false
						for _, u := range members[x] {
							for _, v := range members[y] {
								if sp.has(v, u) {
									back = true
								}
							}
						}
						if back {
							wantTo = append(wantTo, int64(y))
						}
					}
				}
				if got := lv.from(l, int64(x)); !sameIDs(got, wantFrom) {
					return fmt.Sprintf("%s layer %d: From(%d) = %v, want %v", where, l, x, got, wantFrom), len(ls)
				}
				if lv.to != nil {
					if got := lv.to(l, int64(x)); !sameIDs(got, wantTo) {
						return fmt.Sprintf("%s layer %d: To(%d) = %v, want %v", where, l, x, got, wantTo), len(ls)
					}
				}
			}
		}
		// 5. the score of the reported structure on the reduced graph equals the
		// score of the communities on the original graph, from scratch.
		gotQ := lv.q(lv.structure)
		for l, sp := range in.layers {
			if sp.totalWeight() == 0 || in.layerWeight(l) == 0 {
				continue
			}
			var want float64
			if in.multi {
				want = qLayerRef(sp, in.layerWeight(l), in.res[l], comm)
			} else {
				want = qRef(sp, comm, in.res[l])
			}
			if !(math.Abs(gotQ[l]-want) <= 1e-11) {
				return fmt.Sprintf("%s layer %d: Q(reduced graph, Structure()) = %v, Q of Communities() %v on the original graph from scratch = %v", where, l, gotQ[l], comm, want), len(ls)
			}
		}
		// 5b. the score helpers: Size = 1/#communities, Weight = sum of the
		// weights inside the nodes of the level (all ordered pairs, all layers
		// with a non-zero layer weight, signed).
		if lv.scored {
			if want := 1 / float64(len(lv.structure)); lv.sizeScore != want {
				return fmt.Sprintf("%s: Size = %v, 1/len(Structure()) = %v", where, lv.sizeScore, want), len(ls)
			}
			var want float64
			if len(ls) > 1 { // the base level carries no node weights
				for l, sp := range in.layers {
					if in.layerWeight(l) == 0 {
						continue
					}
					for _, ms := range members {
						for _, u := range ms {
							for _, v := range ms {
								if sp.has(u, v) {
									if in.multi && in.layerWeight(l) < 0 {
										want -= math.Abs(sp.a(u, v))
									} else {
										want += math.Abs(sp.a(u, v))
									}
								}
							}
						}
					}
				}
			}
			if lv.weightScore != want {
				return fmt.Sprintf("%s: Weight = %v, the weights inside the nodes of the level sum to %v", where, lv.weightScore, want), len(ls)
			}
		}
		// 6. levels never get worse
		q := in.qTotal(comm)
		if !(q >= qPrev-1e-12) {
			return fmt.Sprintf("%s: Q = %v is worse than the level below (%v); communities %v", where, q, qPrev, comm), len(ls)
		}
		qPrev = q
	}
	if !(qPrev >= qSingle-1e-12) {
		return fmt.Sprintf("final Q %v is worse than the singleton partition (%v)", qPrev, qSingle), len(ls)
	}
	return "", len(ls)
}

func sameIDs(a, b []int64) bool {
	if len(a) != len(b) {
		return false
	}
	for i := range a {
		if a[i] != b[i] {
			return false
		}
	}
	return true
}

// classifyPanic maps a panic that escaped Modularize* to a finding class.
func classifyPanic(p any, in *louvainInput) string {
	s := fmt.Sprint(p)
	switch {
	case !in.multi && in.directed && in.layers[0].totalWeight() == 0:
		// newDirectedLocalMover lacks the documented "zero edge weight sum -> nil"
		return "louvain-directed-edgeless-panic"
	case in.multi && in.ws == nil && strings.Contains(s, "index out of range [1] with length 1"):
		return "multiplex-nil-weights-panic"
	case in.multi && strings.Contains(s, "index out of range [-1]"):
		return "multiplex-first-layer-skipped-panic"
	}
	return ""
}

// exploreLouvain runs body (a Modularize* call with a nil source, i.e. the
// package-level rand.IntN that the rand seam redirects to vrand) for every
// sequence of shuffle answers with at most maxDev deviations, then with
// explicit deterministic sources.
func exploreLouvain(t *vlib.T, what string, in *louvainInput, run func(src rand.Source) []level, maxDev, maxRuns int) {
	var ls []level
	var panicked any
	safe := func(src rand.Source) {
		ls, panicked = nil, nil
		defer func() {
			if p := recover(); p != nil {
				panicked = p
			}
		}()
		ls = run(src)
	}
	maxDepth := 0
	validate := func() string {
		if panicked != nil {
			return fmt.Sprintf("panic: %v", panicked)
		}
		msg, d := checkLevels(in, ls)
		if d > maxDepth {
			maxDepth = d
		}
		return msg
	}
	fail := func(how, msg string) {
		if panicked != nil {
			if class := classifyPanic(panicked, in); class != "" {
				t.FailClass(class, "%s %s: %s", what, how, msg)
				return
			}
		}
		t.Failf("%s %s: %s", what, how, msg)
	}
	// Explicit sources first, behind a draw budget: a Louvain that does not
	// terminate (it cannot on these inputs: every move increases Q) is reported
	// as a violation instead of exhausting the memory of the exploration below.
	for seed := uint64(1); seed <= 3; seed++ {
		vrand.Reset(nil)
		safe(&budgetSource{src: rand.NewPCG(seed, seed*7919), left: drawBudget})
		t.Count("explicit_source_runs", 1)
		if msg := validate(); msg != "" {
			fail(fmt.Sprintf("(src=PCG(%d,%d))", seed, seed*7919), msg)
			return
		}
	}
	// Every sequence of shuffle answers with at most maxDev deviations from
	// "0": the loop of vrand.Explore, with every run preceded by a guard run
	// that gives the same answers through an explicit source behind the draw
	// budget (vrand records every draw, so a modularization that does not
	// terminate under the seam would exhaust the memory instead of failing).
	type item struct {
		prefix, ns []int
		dev        int
	}
	stack := []item{{}}
	runs := 0
	for len(stack) > 0 {
		it := stack[len(stack)-1]
		stack = stack[:len(stack)-1]
		script := make([]uint64, len(it.prefix))
		for i, a := range it.prefix {
			script[i] = drawFor(a, it.ns[i])
		}
		vrand.Reset(nil)
		guard := &scriptedSource{script: script, left: drawBudget}
		safe(guard)
		if panicked != nil {
			fail(fmt.Sprintf("(explicit source giving the shuffle answers %v then 0)", it.prefix), fmt.Sprintf("panic: %v", panicked))
			return
		}
		guardLevels := len(ls)
		vrand.Reset(it.prefix)
		safe(nil)
		runs++
		if d := vrand.Diverged(); d != "" {
			panic("harness: " + d)
		}
		pts := vrand.Points()
		if len(pts) != guard.pos || len(ls) != guardLevels {
			panic(fmt.Sprintf("harness: guard run made %d draws (%d levels), seam run %d (%d levels)", guard.pos, guardLevels, len(pts), len(ls)))
		}
		if msg := validate(); msg != "" {
			ans := make([]int, len(pts))
			for i, p := range pts {
				ans[i] = p.Chosen
			}
			fail(fmt.Sprintf("(src=nil, shuffle answers %v)", ans), msg)
			vrand.Reset(nil)
			return
		}
		if maxRuns > 0 && runs >= maxRuns {
			if len(stack) > 0 {
				t.Count("capped_explorations", 1)
				t.Incomplete(fmt.Sprintf("%s: more than %d shuffle sequences with <= %d deviations", what, maxRuns, maxDev))
			}
			break
		}
		if it.dev >= maxDev {
			continue
		}
		for i := len(pts) - 1; i >= len(it.prefix); i-- {
			for alt := pts[i].N - 1; alt >= 1; alt-- {
				c := item{prefix: make([]int, i+1), ns: make([]int, i+1), dev: it.dev + 1}
				for k := 0; k <= i; k++ {
					c.prefix[k], c.ns[k] = pts[k].Chosen, pts[k].N
				}
				c.prefix[i] = alt
				stack = append(stack, c)
			}
		}
	}
	vrand.Reset(nil)
	t.Count("shuffle_sequences", int64(runs))
	t.Max("levels", int64(maxDepth))
}

const drawBudget = 20000

// drawFor returns a 64-bit draw for which rand.New(src).IntN(n) is a (64-bit
// platforms, n < 2^32): IntN masks the low bits when n is a power of two and
// otherwise takes the high word of the 128-bit product draw*n, rejecting only
// products whose low word is below a threshold smaller than n.
func drawFor(a, n int) uint64 {
	if a == 0 {
		return zeroDraw
	}
	if n&(n-1) == 0 {
		return uint64(a)
	}
	return uint64((float64(a) + 0.5) / float64(n) * (1 << 63) * 2)
}

// zeroDraw makes IntN(n) zero for every n < 2^32: low bits zero, high word of
// the product zero, low word n<<32 (never rejected; an all-zero stream would
// be rejected forever for n = 3).
const zeroDraw = uint64(1) << 32

// scriptedSource answers the k-th draw with script[k] and with zeroDraw after
// the script, behind the draw budget.
type scriptedSource struct {
	script []uint64
	pos    int
	left   int
}

func (s *scriptedSource) Uint64() uint64 {
	s.left--
	if s.left < 0 {
		panic(fmt.Sprintf("harness: more than %d random draws: the modularization does not terminate", drawBudget))
	}
	v := zeroDraw
	if s.pos < len(s.script) {
		v = s.script[s.pos]
	}
	s.pos++
	return v
}

// budgetSource panics after a number of draws that no terminating run on at
// most 5 nodes comes near (a run makes a few dozen).
type budgetSource struct {
	src  rand.Source
	left int
}

func (b *budgetSource) Uint64() uint64 {
	b.left--
	if b.left < 0 {
		panic(fmt.Sprintf("harness: more than %d random draws: the modularization does not terminate", drawBudget))
	}
	return b.src.Uint64()
}

func checkLouvain(t *vlib.T, b *built, maxDev, maxRuns int) {
	sp := b.sp
	maxLevels := 0
	for _, gamma := range resolutions {
		gamma := gamma
		in := &louvainInput{n: sp.n, directed: sp.directed, ids: b.ids, layers: []*spec{sp}, res: []float64{gamma}}
		before := t.Failed()
		exploreLouvain(t, fmt.Sprintf("Modularize(%s, resolution %v)", sp, gamma), in, func(src rand.Source) []level {
			r := community.Modularize(b.g, gamma, src)
			ls := levelsOfReduced(r, gamma)
			ls[0].sizeScore, ls[0].weightScore, ls[0].scored = community.Size(r), community.Weight(r), true
			if len(ls) > maxLevels {
				maxLevels = len(ls)
			}
			return ls
		}, maxDev, maxRuns)
		if t.Failed() && !before {
			break
		}
	}
	if sp.n >= 2 && sp.edges() > 0 {
		t.Nontrivial()
	}
	t.Outcome(fmt.Sprintf("n=%d directed=%v weighted=%v levels=%d", sp.n, sp.directed, sp.weighted, maxLevels))
	t.Detail(map[string]any{"graph": sp.String(), "ids": b.ids})
}

func genLouvain(g *vlib.G, large bool) {
	type sp struct {
		s               graphSpace
		maxDev, maxRuns int
	}
	spaces := []sp{
		{graphSpace{n: 0}, 2, 0}, {graphSpace{n: 1}, 2, 0}, {graphSpace{n: 2}, 2, 0}, {graphSpace{n: 3}, 2, 0}, {graphSpace{n: 4}, 2, 0},
		{graphSpace{n: 2, weighted: true}, 2, 0}, {graphSpace{n: 3, weighted: true}, 2, 0},
		{graphSpace{n: 0, directed: true}, 2, 0}, {graphSpace{n: 1, directed: true}, 2, 0},
		{graphSpace{n: 2, directed: true}, 2, 0}, {graphSpace{n: 3, directed: true}, 2, 0},
		{graphSpace{n: 2, directed: true, weighted: true}, 2, 0},
		{graphSpace{n: 3, directed: true, weighted: true, rotate: true}, 2, 0},
		// zero-weight edges
		{graphSpace{n: 2, weighted: true, alpha: alpha012}, 2, 0}, {graphSpace{n: 3, weighted: true, alpha: alpha012}, 2, 0},
		{graphSpace{n: 2, directed: true, weighted: true, alpha: alpha012}, 2, 0},
		{graphSpace{n: 3, directed: true, weighted: true, alpha: alpha012, stride: 5, offset: 2}, 2, 0},
		{graphSpace{n: 4, weighted: true, alpha: alpha01, stride: 3, offset: 1}, 2, 0},
		// second phase
		{graphSpace{n: 4, weighted: true, stride: vlib.Pick(g, 2, 1), rotate: !g.Thorough(), large: true}, 2, 0},
		{graphSpace{n: 5, stride: vlib.Pick(g, 2, 1), offset: vlib.Pick(g, 1, 0), rotate: !g.Thorough(), large: true}, 2, 4000},
		{graphSpace{n: 4, directed: true, stride: vlib.Pick(g, 3, 1), offset: vlib.Pick(g, 1, 0), rotate: true, large: true}, 2, 4000},
		{graphSpace{n: 5, weighted: true, stride: vlib.Pick(g, 299, 7), offset: 8, large: true}, 2, 4000},
		{graphSpace{n: 4, directed: true, weighted: true, stride: vlib.Pick(g, 997, 61), offset: 100, large: true}, 2, 4000},
		{graphSpace{n: 5, weighted: true, zeroOut: true, stride: vlib.Pick(g, 499, 29), offset: 14, large: true}, 2, 4000},
		{graphSpace{n: 4, directed: true, weighted: true, zeroOut: true, stride: vlib.Pick(g, 1999, 211), offset: 45, large: true}, 2, 4000},
	}
	for _, x := range spaces {
		if x.s.large != large {
			continue
		}
		x := x
		forGraphs(x.s, x.s.stride <= 1 && !x.s.rotate, func(key string, mk func() *built) {
			g.Case(key, func(t *vlib.T) { checkLouvain(t, mk(), x.maxDev, x.maxRuns) })
		})
		if g.Stopped() {
			return
		}
	}
}

// ---- ModularizeMultiplex ----

func checkLouvainMultiplex(t *vlib.T, s graphSpace, idxs []int, idKind, order, wi int, maxDev, maxRuns int, large bool) {
	L := len(idxs)
	ws := weightOptions(L)[wi]
	m := buildMultiplex(s, idxs, ws, idKind, order)
	maxLevels := 0
	// resolutions and the "search all communities" flag rotate with the tuple
	combos := []struct {
		res []float64
		all bool
	}{{nil, false}, {[]float64{0.5, 2, 1}[:L], true}, {[]float64{2}, true}, {[]float64{2, 0.5, 3}[:L], false},
		{[]float64{1, 3, 0.5}[:L], false}, {[]float64{1}, true}}
	sum := wi
	for _, i := range idxs {
		sum += i
	}
	for ci, c := range combos {
		// core spaces and thorough: three of the six combinations; large spaces in quick: two
		if large && (sum+ci)%3 != 0 || !large && (sum+ci)%2 == 1 {
			continue
		}
		c := c
		in := &louvainInput{n: s.n, directed: s.directed, ids: m.ids, layers: m.sp, ws: ws, multi: true}
		for l := 0; l < L; l++ {
			in.res = append(in.res, layerRes(c.res, l))
		}
		before := t.Failed()
		exploreLouvain(t, fmt.Sprintf("ModularizeMultiplex(layers %s, weights %v, resolutions %v, all=%v)", m, ws, c.res, c.all), in, func(src rand.Source) []level {
			r := community.ModularizeMultiplex(m.g, ws, c.res, c.all, src)
			ls := levelsOfMultiplex(r, ws, c.res)
			ls[0].sizeScore, ls[0].weightScore, ls[0].scored = community.SizeMultiplex(r), community.WeightMultiplex(r), true
			if len(ls) > maxLevels {
				maxLevels = len(ls)
			}
			return ls
		}, maxDev, maxRuns)
		if t.Failed() && !before {
			break
		}
	}
	if s.n >= 2 {
		t.Nontrivial()
	}
	neg := 0
	for _, w := range ws {
		if w < 0 {
			neg++
		}
	}
	t.Outcome(fmt.Sprintf("%s layers=%d levels=%d negativeLayers=%d nilWeights=%v emptyLayer0=%v", s.name(), L, maxLevels, neg, ws == nil, m.sp[0].edges() == 0))
	t.Detail(map[string]any{"layers": m.String(), "weights": ws, "ids": m.ids})
}

func genLouvainMultiplex(g *vlib.G, large bool) {
	for _, x := range []tupleSpace{
		{s: graphSpace{n: 2}, L: 2, maxDev: 2},
		{s: graphSpace{n: 3}, L: 2, maxDev: 2},
		{s: graphSpace{n: 2, directed: true}, L: 2, maxDev: 2},
		{s: graphSpace{n: 2, directed: true, weighted: true}, L: 2, maxDev: 2},
		{s: graphSpace{n: 3, directed: true}, L: 2, stride: 8, offset: 3, maxDev: 2, maxRuns: 3000},
		{s: graphSpace{n: 2, weighted: true, alpha: alpha012}, L: 2, maxDev: 2},
		{s: graphSpace{n: 2, directed: true, weighted: true, alpha: alpha012}, L: 2, stride: 2, maxDev: 2},
		{s: graphSpace{n: 3, weighted: true, alpha: alpha01}, L: 2, stride: 5, offset: 2, maxDev: 2},
		{s: graphSpace{n: 2}, L: 3, maxDev: 2},
		{s: graphSpace{n: 2, directed: true}, L: 3, maxDev: 2},
		// second phase
		{s: graphSpace{n: 3, weighted: true}, L: 2, stride: vlib.Pick(g, 7, 1), offset: vlib.Pick(g, 1, 0), maxDev: 2, large: true},
		{s: graphSpace{n: 4}, L: 2, stride: vlib.Pick(g, 9, 3), offset: vlib.Pick(g, 2, 1), maxDev: 2, maxRuns: 3000, large: true},
		{s: graphSpace{n: 3, directed: true}, L: 2, stride: vlib.Pick(g, 5, 3), offset: vlib.Pick(g, 1, 0), maxDev: 2, maxRuns: 3000, large: true},
		{s: graphSpace{n: 3, directed: true, weighted: true}, L: 2, stride: vlib.Pick(g, 1009, 211), offset: 31, maxDev: 2, maxRuns: 3000, large: true},
		{s: graphSpace{n: 4, weighted: true}, L: 2, stride: vlib.Pick(g, 3989, 499), offset: 77, maxDev: 2, maxRuns: 3000, large: true},
		{s: graphSpace{n: 3, directed: true, weighted: true, alpha: alpha012}, L: 2, stride: vlib.Pick(g, 49999, 4999), offset: 123, maxDev: 2, maxRuns: 3000, large: true},
		{s: graphSpace{n: 3}, L: 3, stride: vlib.Pick(g, 4, 1), offset: vlib.Pick(g, 1, 0), maxDev: 2, large: true},
		{s: graphSpace{n: 3, weighted: true}, L: 3, stride: vlib.Pick(g, 199, 23), offset: 5, maxDev: 2, large: true},
		{s: graphSpace{n: 3, directed: true}, L: 3, stride: vlib.Pick(g, 1999, 499), offset: 13, maxDev: 2, maxRuns: 3000, large: true},
		{s: graphSpace{n: 4}, L: 3, stride: vlib.Pick(g, 1999, 499), offset: 21, maxDev: 2, maxRuns: 3000, large: true},
	} {
		if x.large != large {
			continue
		}
		x := x
		nw := len(weightOptions(x.L))
		forLayerTuples(x.s, x.L, x.stride, x.offset, func(key string, idxs []int, idKind, order int) {
			sum := 0
			for _, i := range idxs {
				sum += i
			}
			for wi := 0; wi < nw; wi++ {
				wi := wi
				// strided spaces and three layers: the tuple rotates through the
				// weight vectors, a third of them per tuple (thorough: all for two layers)
				if (x.L == 3 || (!g.Thorough() && x.stride > 1)) && (wi+sum)%3 != 0 {
					continue
				}
				g.Case(fmt.Sprintf("%s w%d", key, wi), func(t *vlib.T) {
					checkLouvainMultiplex(t, x.s, idxs, idKind, order, wi, x.maxDev, x.maxRuns, x.large && !g.Thorough())
				})
			}
		})
		if g.Stopped() {
			return
		}
	}
}

// ---- documented panics on negative / sign-mismatched weights ----

// genNegativeWeight: "Q will panic if g has any edge with negative edge
// weight", likewise Modularize; QMultiplex/ModularizeMultiplex panic when an
// edge weight does not sign-match the layer weight.
func genNegativeWeight(g *vlib.G) {
	for _, directed := range []bool{false, true} {
		s := graphSpace{n: 3, directed: directed, weighted: true}
		for idx := 1; idx < s.count(); idx++ {
			directed, idx := directed, idx
			g.Case(fmt.Sprintf("%s#%d", s.name(), idx), func(t *vlib.T) {
				sp := s.spec(idx)
				// the first edge becomes negative
				done := false
				for i := 0; i < 3 && !done; i++ {
					for j := 0; j < 3 && !done; j++ {
						if sp.has(i, j) {
							sp.w[i][j] = -sp.w[i][j]
							if !directed {
								sp.w[j][i] = sp.w[i][j]
							}
							done = true
						}
					}
				}
				b := build(sp, idx%3, idx%nOrders, (idx/3)%nContainers)
				pos := build(s.spec(idx), idx%3, idx%nOrders, contSimple)
				all := [][]graph.Node{b.nodes()}
				expect := func(what, msg string, f func()) {
					defer func() {
						r := recover()
						if r == nil {
							t.Failf("%s on %s did not panic (documented)", what, sp)
						} else if fmt.Sprint(r) != msg {
							t.Failf("%s on %s panicked with %v, want %q", what, sp, r, msg)
						}
					}()
					f()
				}
				const neg, posMsg = "community: unexpected negative edge weight", "community: unexpected positive edge weight"
				expect("Q", neg, func() { community.Q(b.g, all, 1) })
				expect("Q(nil)", neg, func() { community.Q(b.g, nil, 1) })
				expect("Modularize", neg, func() { community.Modularize(b.g, 1, rand.NewPCG(1, 2)) })
				var mNeg, mPos community.Multiplex
				if directed {
					mNeg, _ = community.NewDirectedLayers(pos.g.(graph.Directed), b.g.(graph.Directed))
					mPos, _ = community.NewDirectedLayers(pos.g.(graph.Directed), pos.g.(graph.Directed))
				} else {
					mNeg, _ = community.NewUndirectedLayers(pos.g.(graph.Undirected), b.g.(graph.Undirected))
					mPos, _ = community.NewUndirectedLayers(pos.g.(graph.Undirected), pos.g.(graph.Undirected))
				}
				expect("QMultiplex(weights 1,1)", neg, func() { community.QMultiplex(mNeg, all, []float64{1, 1}, nil) })
				expect("QMultiplex(weights 1,-1)", posMsg, func() { community.QMultiplex(mPos, all, []float64{1, -1}, nil) })
				expect("ModularizeMultiplex(weights 1,1)", neg, func() {
					community.ModularizeMultiplex(mNeg, []float64{1, 1}, nil, false, rand.NewPCG(1, 2))
				})
				expect("ModularizeMultiplex(weights 1,-1)", posMsg, func() {
					community.ModularizeMultiplex(mPos, []float64{1, -1}, nil, false, rand.NewPCG(1, 2))
				})
				t.Nontrivial()
				t.Outcome(fmt.Sprintf("directed=%v panics", directed))
			})
		}
	}
}
