package main

// community.Profile (bisection of a score in the resolution domain) and the
// score helpers, plus the end of the Expanded chain at the lowest level.

import (
	"fmt"
	"math"
	"math/rand/v2"

	"gonum.org/v1/gonum/graph"
	"gonum.org/v1/gonum/graph/community"
	"gonum.org/v1/gonum/internal/verif/vlib"
)

// tag is the Reduced handed out by the synthetic score functions.
type tag struct{ x, score float64 }

func (tag) Communities() [][]graph.Node { return nil }

// checkProfileShape checks what the documentation promises whatever fn is:
// the intervals [Low,High) tile [low,high) and the scores strictly decrease.
func checkProfileShape(p []community.Interval, low, high float64) string {
	if len(p) == 0 {
		return "empty profile without error"
	}
	if p[0].Low != low || p[len(p)-1].High != high {
		return fmt.Sprintf("profile covers [%v,%v), domain is [%v,%v)", p[0].Low, p[len(p)-1].High, low, high)
	}
	for i, iv := range p {
		if !(iv.Low < iv.High) {
			return fmt.Sprintf("interval %d is [%v,%v)", i, iv.Low, iv.High)
		}
		if i > 0 && p[i-1].High != iv.Low {
			return fmt.Sprintf("interval %d ends at %v, interval %d starts at %v", i-1, p[i-1].High, i, iv.Low)
		}
		if i > 0 && !(p[i-1].Score > iv.Score) {
			return fmt.Sprintf("scores do not decrease: interval %d has %v, interval %d has %v", i-1, p[i-1].Score, i, iv.Score)
		}
		if iv.Reduced == nil {
			return fmt.Sprintf("interval %d has no Reduced", i)
		}
	}
	return ""
}

var profileBreaks = []float64{1.3, 2, 3.5, 5, 5.2, 7.9}

func genProfile(g *vlib.G) {
	// synthetic monotone step functions
	for _, logSpace := range []bool{false, true} {
		for _, grain := range []float64{0.5, 0.25, 0.1} {
			for mask := 0; mask < 1<<len(profileBreaks); mask++ {
				var bs []float64
				for i, b := range profileBreaks {
					if mask>>i&1 == 1 {
						bs = append(bs, b)
					}
				}
				if len(bs) > 3 {
					continue
				}
				logSpace, grain, bs := logSpace, grain, bs
				g.Case(fmt.Sprintf("step log=%v grain=%v breaks=%v", logSpace, grain, bs), func(t *vlib.T) {
					low, high := 1.0, 8.0
					pos := func(x float64) float64 { return x } // position of a break in the domain
					if logSpace {
						high = 256
						pos = func(x float64) float64 { return math.Exp2(x) }
					}
					fn := func(x float64) (float64, community.Reduced) {
						s := float64(len(bs))
						for _, b := range bs {
							if x >= pos(b) {
								s--
							}
						}
						return s, tag{x, s}
					}
					evals := 0
					counted := func(x float64) (float64, community.Reduced) { evals++; return fn(x) }
					p, err := community.Profile(counted, logSpace, grain, low, high)
					if err != nil {
						t.Failf("Profile of a monotonically decreasing step function: %v", err)
						return
					}
					if msg := checkProfileShape(p, low, high); msg != "" {
						t.Failf("Profile: %s; profile %+v", msg, p)
						return
					}
					width := func(a, b float64) float64 { // b - a in the bisection space
						if logSpace {
							return math.Log(b / a)
						}
						return b - a
					}
					for i, iv := range p {
						if s, _ := fn(iv.Low); s != iv.Score {
							t.Failf("interval %d [%v,%v) has score %v, fn(Low) = %v", i, iv.Low, iv.High, iv.Score, s)
						}
						tg := iv.Reduced.(tag)
						if tg.score != iv.Score {
							t.Failf("interval %d [%v,%v) score %v carries a Reduced that scored %v at %v", i, iv.Low, iv.High, iv.Score, tg.score, tg.x)
						}
						if i > 0 {
							// a reported boundary lies less than one grain after a true break
							ok := false
							for _, b := range bs {
								if pos(b) <= iv.Low && width(pos(b), iv.Low) < grain {
									ok = true
								}
							}
							if !ok {
								t.Failf("boundary %v is not within one grain after any break of %v", iv.Low, bs)
							}
						}
					}
					for _, b := range bs {
						ok := false
						for _, iv := range p {
							if pos(b) <= iv.High && width(pos(b), iv.High) < grain {
								ok = true
							}
						}
						if !ok {
							t.Failf("break at %v is not followed by an interval boundary within one grain: %+v", pos(b), p)
						}
					}
					t.Count("fn_evaluations", int64(evals))
					t.Nontrivial()
					t.Outcome(fmt.Sprintf("breaks=%d intervals=%d", len(bs), len(p)))
				})
			}
		}
	}
	// documented error and non-monotone input
	g.Case("empty-domain", func(t *vlib.T) {
		fn := func(x float64) (float64, community.Reduced) { return 0, tag{x, 0} }
		for _, d := range [][2]float64{{1, 1}, {2, 1}} {
			if p, err := community.Profile(fn, false, 0.1, d[0], d[1]); err == nil || p != nil {
				t.Failf("Profile on [%v,%v) returned %v, %v; documented: error", d[0], d[1], p, err)
			}
		}
		t.Outcome("error")
	})
	g.Case("increasing", func(t *vlib.T) {
		fn := func(x float64) (float64, community.Reduced) { return x, tag{x, x} }
		p, err := community.Profile(fn, false, 0.1, 1, 8)
		if err == nil {
			if msg := checkProfileShape(p, 1, 8); msg != "" {
				t.Failf("Profile of an increasing function returned no error and %s", msg)
			}
		}
		t.Nontrivial()
		t.Outcome(fmt.Sprintf("err=%v", err != nil))
	})
	// real score functions on small graphs
	for _, s := range []graphSpace{{n: 3}, {n: 4}, {n: 3, weighted: true, stride: 2}, {n: 3, directed: true, stride: 3},
		{n: 4, weighted: true, stride: vlib.Pick(g, 31, 1), offset: vlib.Pick(g, 4, 0), rotate: true}, {n: 5, stride: vlib.Pick(g, 41, 1), offset: vlib.Pick(g, 6, 0), rotate: true}} {
		forGraphs(s, false, func(key string, mk func() *built) {
			g.Case("modular "+key, func(t *vlib.T) { checkProfileModular(t, mk()) })
		})
	}
}

// scoreRef recomputes Size / Weight of a community structure from scratch.
func scoreRef(b *built, cs [][]graph.Node, weight bool) (float64, string) {
	seen := map[int64]bool{}
	var w float64
	for _, c := range cs {
		for _, u := range c {
			if _, ok := b.idx[u.ID()]; !ok || seen[u.ID()] {
				return 0, fmt.Sprintf("Communities() %v is not a partition of the nodes", cs)
			}
			seen[u.ID()] = true
			for _, v := range c {
				w += b.sp.a(b.idx[u.ID()], b.idx[v.ID()])
			}
		}
	}
	if len(seen) != b.sp.n {
		return 0, fmt.Sprintf("Communities() %v is not a partition of the nodes", cs)
	}
	if weight {
		return w, ""
	}
	return 1 / float64(len(cs)), ""
}

func checkProfileModular(t *vlib.T, b *built) {
	sp := b.sp
	outcome := ""
	for _, weight := range []bool{false, true} {
		score := community.Size
		name := "Size"
		if weight {
			score, name = community.Weight, "Weight"
		}
		for _, logSpace := range []bool{false, true} {
			fn := community.ModularScore(b.g, score, 2, rand.NewPCG(3, 4))
			p, err := community.Profile(fn, logSpace, 0.25, 0.25, 4)
			t.Count("profiles", 1)
			if err != nil {
				// the Louvain score is not guaranteed to be monotone in the resolution
				outcome += "E"
				continue
			}
			if msg := checkProfileShape(p, 0.25, 4); msg != "" {
				t.Failf("Profile(ModularScore(%s, %s), log=%v): %s; %+v", sp, name, logSpace, msg, p)
				return
			}
			for i, iv := range p {
				want, msg := scoreRef(b, iv.Reduced.Communities(), weight)
				if msg != "" {
					t.Failf("Profile(ModularScore(%s, %s), log=%v) interval %d: %s", sp, name, logSpace, i, msg)
					return
				}
				if iv.Score != want {
					t.Failf("Profile(ModularScore(%s, %s), log=%v) interval %d [%v,%v): Score %v, but its Reduced %v scores %v from scratch", sp, name, logSpace, i, iv.Low, iv.High, iv.Score, iv.Reduced.Communities(), want)
				}
			}
			outcome += fmt.Sprint(min(len(p), 3))
		}
	}
	t.Nontrivial()
	t.Outcome(fmt.Sprintf("n=%d intervals/errors=%s", sp.n, outcome))
	t.Detail(map[string]any{"graph": sp.String(), "ids": b.ids})
}

// ---- Expanded() at the lowest level ----

func genExpandedNil(g *vlib.G) {
	// triangle 0-1-2 with a pendant node 3 (both directions for the digraph)
	mk := func(directed bool) *built {
		sp := &spec{n: 4, directed: directed, weighted: true}
		for _, e := range [][2]int{{0, 1}, {1, 2}, {0, 2}, {2, 3}} {
			sp.set(e[0], e[1], 1)
			sp.set(e[1], e[0], 1)
		}
		return build(sp, 0, ordAsc, contSimple)
	}
	walk := func(t *vlib.T, what string, top any, expanded func(any) any) {
		cur := top
		for depth := 0; depth < 10; depth++ {
			e := expanded(cur)
			if e == nil {
				t.Outcome(fmt.Sprintf("levels=%d", depth+1))
				return
			}
			if isNilReduced(e) {
				// Don't-care (NOTES.md): "nil if at the lowest level" is a nil pointer of
				// "the same concrete type as the receiver" inside a non-nil interface;
				// the package's own tests type-assert it.
				t.Outcome(fmt.Sprintf("levels=%d typed-nil", depth+1))
				return
			}
			cur = e
		}
		t.Failf("%s: more than 10 levels", what)
	}
	for _, directed := range []bool{false, true} {
		directed := directed
		g.Case(fmt.Sprintf("Modularize directed=%v", directed), func(t *vlib.T) {
			b := mk(directed)
			r := community.Modularize(b.g, 1, rand.NewPCG(1, 1))
			walk(t, "Modularize", r, func(x any) any {
				e := x.(community.ReducedGraph).Expanded()
				if e == nil {
					return nil
				}
				return e
			})
			t.Nontrivial()
		})
		g.Case(fmt.Sprintf("ModularizeMultiplex directed=%v", directed), func(t *vlib.T) {
			b := mk(directed)
			var m community.Multiplex
			if directed {
				m, _ = community.NewDirectedLayers(b.g.(graph.Directed))
			} else {
				m, _ = community.NewUndirectedLayers(b.g.(graph.Undirected))
			}
			r := community.ModularizeMultiplex(m, []float64{1}, nil, false, rand.NewPCG(1, 1))
			walk(t, "ModularizeMultiplex", r, func(x any) any {
				e := x.(community.ReducedMultiplex).Expanded()
				if e == nil {
					return nil
				}
				return e
			})
			t.Nontrivial()
		})
	}
}

// ---- ModularMultiplexScore / SizeMultiplex / WeightMultiplex through Profile ----

func checkProfileMultiplex(t *vlib.T, s graphSpace, idxs []int, idKind, order int) {
	outcome := ""
	for wi, ws := range [][]float64{nil, {1, 0.5}, {1, -1}} {
		m := buildMultiplex(s, idxs, ws, idKind, order)
		for _, weight := range []bool{false, true} {
			score, name := community.SizeMultiplex, "SizeMultiplex"
			if weight {
				score, name = community.WeightMultiplex, "WeightMultiplex"
			}
			all := (wi+idxs[0]+idxs[1])%2 == 1
			for _, unlucky := range []bool{false, true} {
				inner := community.ModularMultiplexScore(m.g, ws, all, score, 2, rand.NewPCG(5, 6))
				fn, high := inner, 4.0
				what := fmt.Sprintf("Profile(ModularMultiplexScore(layers %s, weights %v, all=%v, %s))", m, ws, all, name)
				if unlucky {
					// the first evaluation at every resolution is made at 64 times the
					// resolution (lowest score), so that the retry loops of bisect run
					at := map[float64]int{}
					high = 1.25
					fn = func(x float64) (float64, community.Reduced) {
						at[x]++
						if at[x] > 1 {
							return inner(x)
						}
						return inner(64 * x)
					}
					what += " with an unlucky first evaluation, [0.25,1.25)"
				}
				p, err := community.Profile(fn, wi%2 == 1, 0.25, 0.25, high)
				t.Count("profiles", 1)
				if err != nil {
					outcome += "E" // not guaranteed to be monotone
					continue
				}
				if msg := checkProfileShape(p, 0.25, high); msg != "" {
					t.Failf("%s: %s; %+v", what, msg, p)
					return
				}
				for i, iv := range p {
					cs := iv.Reduced.Communities()
					seen := map[int64]bool{}
					var w float64
					for _, c := range cs {
						for _, u := range c {
							if seen[u.ID()] {
								t.Failf("%s interval %d: node %d twice in %v", what, i, u.ID(), cs)
								return
							}
							seen[u.ID()] = true
							for _, v := range c {
								for l, sp := range m.sp {
									iu, iv := indexOfID(m.ids, u.ID()), indexOfID(m.ids, v.ID())
									if iu < 0 || iv < 0 {
										t.Failf("%s interval %d: unknown node in %v", what, i, cs)
										return
									}
									if sp.has(iu, iv) {
										if layerW(ws, l) < 0 {
											w -= math.Abs(sp.a(iu, iv))
										} else {
											w += math.Abs(sp.a(iu, iv))
										}
									}
								}
							}
						}
					}
					if len(seen) != s.n {
						t.Failf("%s interval %d: Communities() %v is not a partition of the nodes", what, i, cs)
						return
					}
					want := 1 / float64(len(cs))
					if weight {
						want = w
					}
					if iv.Score != want {
						t.Failf("%s interval %d [%v,%v): Score %v, but its Reduced %v scores %v from scratch", what, i, iv.Low, iv.High, iv.Score, cs, want)
					}
				}
				outcome += fmt.Sprint(min(len(p), 3))
			}
		}
	}
	t.Nontrivial()
	t.Outcome(fmt.Sprintf("%s intervals/errors=%s", s.name(), outcome))
	t.Detail(map[string]any{"layers": fmt.Sprint(idxs)})
}

func indexOfID(ids []int64, id int64) int {
	for i, x := range ids {
		if x == id {
			return i
		}
	}
	return -1
}

func genProfileMultiplex(g *vlib.G) {
	for _, x := range []tupleSpace{
		{s: graphSpace{n: 3}, L: 2},
		{s: graphSpace{n: 3, directed: true}, L: 2, stride: vlib.Pick(g, 37, 5), offset: 3},
		{s: graphSpace{n: 3, weighted: true}, L: 2, stride: vlib.Pick(g, 11, 1), offset: 2},
		{s: graphSpace{n: 4}, L: 2, stride: vlib.Pick(g, 41, 5), offset: 7},
	} {
		x := x
		forLayerTuples(x.s, x.L, x.stride, x.offset, func(key string, idxs []int, idKind, order int) {
			g.Case(key, func(t *vlib.T) { checkProfileMultiplex(t, x.s, idxs, idKind, order) })
		})
	}
}
