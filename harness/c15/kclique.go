package main

// community.KCliqueCommunities against a brute-force k-clique percolation:
// every k-subset of the nodes that is a clique, adjacency = k-1 common nodes,
// communities = node unions of the connected components of that adjacency.

import (
	"fmt"
	"sort"
	"strings"

	"gonum.org/v1/gonum/graph"
	"gonum.org/v1/gonum/graph/community"
	"gonum.org/v1/gonum/internal/verif/vlib"
)

// kCliqueRef returns the communities as sorted bitmasks over node indices.
// Nodes that are in no k-clique form communities of their own (what k = 2
// documents for isolated nodes: "the classical connected components").
func kCliqueRef(sp *spec, k int) []int {
	n := sp.n
	if k == 1 {
		if n == 0 {
			return []int{0}
		}
		return []int{1<<n - 1}
	}
	var cliques []int
	for m := 1; m < 1<<n; m++ {
		c := 0
		ok := true
		for i := 0; i < n && ok; i++ {
			if m>>i&1 == 0 {
				continue
			}
			c++
			for j := i + 1; j < n; j++ {
				if m>>j&1 == 1 && !sp.has(i, j) {
					ok = false
					break
				}
			}
		}
		if ok && c == k {
			cliques = append(cliques, m)
		}
	}
	pop := func(x int) int {
		c := 0
		for ; x != 0; x &= x - 1 {
			c++
		}
		return c
	}
	comp := make([]int, len(cliques))
	for i := range comp {
		comp[i] = i
	}
	var find func(i int) int
	find = func(i int) int {
		for comp[i] != i {
			i = comp[i]
		}
		return i
	}
	for i := range cliques {
		for j := i + 1; j < len(cliques); j++ {
			if pop(cliques[i]&cliques[j]) == k-1 {
				comp[find(i)] = find(j)
			}
		}
	}
	union := map[int]int{}
	covered := 0
	for i, c := range cliques {
		union[find(i)] |= c
		covered |= c
	}
	var out []int
	for _, m := range union {
		out = append(out, m)
	}
	for i := 0; i < n; i++ {
		if covered>>i&1 == 0 {
			out = append(out, 1<<i)
		}
	}
	sort.Ints(out)
	return out
}

func masksOf(b *built, cs [][]graph.Node) ([]int, string) {
	var out []int
	for _, c := range cs {
		m := 0
		for _, nd := range c {
			i, ok := b.idx[nd.ID()]
			if !ok {
				return nil, fmt.Sprintf("community %v contains %d which is not a node", c, nd.ID())
			}
			if m>>i&1 == 1 {
				return nil, fmt.Sprintf("community %v contains node %d twice", c, nd.ID())
			}
			m |= 1 << i
		}
		out = append(out, m)
	}
	sort.Ints(out)
	return out, ""
}

func maskString(b *built, ms []int) string {
	var parts []string
	for _, m := range ms {
		var ids []string
		for i := 0; i < b.sp.n; i++ {
			if m>>i&1 == 1 {
				ids = append(ids, fmt.Sprint(b.ids[i]))
			}
		}
		parts = append(parts, "{"+strings.Join(ids, ",")+"}")
	}
	return strings.Join(parts, " ")
}

func checkKClique(t *vlib.T, b *built) {
	sp := b.sp
	overlap := false
	for k := 1; k <= sp.n+1; k++ {
		want := kCliqueRef(sp, k)
		if sp.n == 0 && k >= 2 {
			want = nil
		}
		got, msg := masksOf(b, community.KCliqueCommunities(k, b.g.(graph.Undirected)))
		t.Count("kclique_calls", 1)
		if msg != "" {
			t.Failf("KCliqueCommunities(%d, %s): %s", k, sp, msg)
			continue
		}
		same := len(got) == len(want)
		for i := 0; same && i < len(got); i++ {
			same = got[i] == want[i]
		}
		if !same {
			t.Failf("KCliqueCommunities(%d, %s) = %s, k-clique percolation gives %s", k, sp, maskString(b, got), maskString(b, want))
		}
		for i := range want {
			for j := i + 1; j < len(want); j++ {
				if want[i]&want[j] != 0 {
					overlap = true
				}
			}
		}
	}
	func() {
		defer func() {
			if r := recover(); r == nil {
				t.Failf("KCliqueCommunities(0, %s) did not panic (documented: k greater than zero)", sp)
			}
		}()
		community.KCliqueCommunities(0, b.g.(graph.Undirected))
	}()
	if sp.n >= 3 {
		t.Nontrivial()
	}
	t.Outcome(fmt.Sprintf("n=%d edges=%d overlapping=%v", sp.n, sp.edges(), overlap))
	t.Detail(map[string]any{"graph": sp.String(), "ids": b.ids})
}

func genKClique(g *vlib.G, large bool) {
	eachSpace(g, large, []graphSpace{{n: 0}, {n: 1}, {n: 2}, {n: 3}, {n: 4}, {n: 4, weighted: true, stride: 5},
		{n: 5, large: true}}, func(s graphSpace, key string, mk func() *built) {
		g.Case(key, func(t *vlib.T) { checkKClique(t, mk()) })
	})
}
