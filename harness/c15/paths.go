package main

// Betweenness (node and edge, BFS and AllShortest based) and the distance
// measures against an enumeration of all simple shortest paths.

import (
	"fmt"
	"math"
	"math/big"

	"gonum.org/v1/gonum/graph"
	"gonum.org/v1/gonum/graph/network"
	"gonum.org/v1/gonum/graph/path"
	"gonum.org/v1/gonum/internal/verif/vlib"
)

// unweightedView is the spec with every edge weight 1 (what the BFS based
// routines and UniformCost see).
func unweightedView(sp *spec) *spec {
	u := *sp
	u.weighted = false
	return &u
}

func checkNodeMap(t *vlib.T, what string, b *built, got map[int64]float64, want func(i int) float64, tol float64, nonZeroOnly bool) {
	for id := range got {
		if _, ok := b.idx[id]; !ok {
			t.Failf("%s: entry for unknown node %d", what, id)
		}
	}
	for i, id := range b.ids {
		w := want(i)
		v, ok := got[id]
		if nonZeroOnly {
			if ok && v == 0 {
				t.Failf("%s: zero entry stored for node %d (documented: non-zero entries only)", what, id)
			}
		} else if !ok {
			t.Failf("%s: no entry for node %d", what, id)
			continue
		}
		if !(math.Abs(v-w) <= tol*math.Max(1, math.Abs(w))) && !(v == w) {
			t.Failf("%s[%d] = %v, definition gives %v", what, id, v, w)
		}
	}
}

func checkEdgeMap(t *vlib.T, what string, b *built, got map[[2]int64]float64, edge [5][5]*big.Rat) {
	sp := b.sp
	want := map[[2]int64]float64{}
	for i := 0; i < sp.n; i++ {
		for j := 0; j < sp.n; j++ {
			if i == j {
				continue
			}
			w := ratF(edge[i][j])
			if w == 0 {
				continue
			}
			u, v := b.ids[i], b.ids[j]
			if !sp.directed && v < u {
				u, v = v, u
			}
			want[[2]int64{u, v}] += w
		}
	}
	for k, v := range got {
		w, ok := want[k]
		if !ok {
			t.Failf("%s: entry %v=%v, definition gives no shortest path through that edge (or wrong key orientation)", what, k, v)
			continue
		}
		if !(math.Abs(v-w) <= 1e-12*math.Max(1, w)) {
			t.Failf("%s%v = %v, definition gives %v", what, k, v, w)
		}
	}
	for k, w := range want {
		if _, ok := got[k]; !ok {
			t.Failf("%s: no entry for edge %v, definition gives %v", what, k, w)
		}
	}
}

// allShortestOf runs the two all-pairs producers of graph/path and checks
// that their weight matrices are the true distances (a precondition of the
// measures below; the producers themselves are property C13).
func allShortestOf(t *vlib.T, b *built, pr *pathsRef) []path.AllShortest {
	ps := []path.AllShortest{path.DijkstraAllPaths(b.g)}
	if fw, ok := path.FloydWarshall(b.g); ok {
		ps = append(ps, fw)
	} else {
		t.Failf("FloydWarshall reports a negative cycle on a graph with positive weights")
	}
	for k, p := range ps {
		for i, u := range b.ids {
			for j, v := range b.ids {
				if d := p.Weight(u, v); d != pr.dist[i][j] {
					t.Failf("precondition: AllShortest #%d Weight(%d,%d)=%v, true distance %v", k, u, v, d, pr.dist[i][j])
				}
			}
		}
	}
	return ps
}

func checkBetweenness(t *vlib.T, b *built) {
	sp := b.sp
	// BFS based routines: every edge has length one whatever the container.
	usp := unweightedView(sp)
	upr := allShortest(usp)
	un, ue := betweennessRef(usp, upr)
	checkNodeMap(t, "Betweenness", b, network.Betweenness(b.g), func(i int) float64 { return ratF(un[i]) }, 1e-12, true)
	checkEdgeMap(t, "EdgeBetweenness", b, network.EdgeBetweenness(b.g), ue)

	// AllShortest based routines.
	pr := allShortest(sp)
	wn, we := betweennessRef(sp, pr)
	multi := 0
	for s := 0; s < sp.n; s++ {
		for u := 0; u < sp.n; u++ {
			if len(pr.paths[s][u]) > 1 {
				multi++
			}
		}
	}
	if wg, ok := b.g.(graph.Weighted); ok {
		for k, p := range allShortestOf(t, b, pr) {
			checkNodeMap(t, fmt.Sprintf("BetweennessWeighted(p%d)", k), b, network.BetweennessWeighted(wg, p), func(i int) float64 { return ratF(wn[i]) }, 1e-12, true)
			checkEdgeMap(t, fmt.Sprintf("EdgeBetweennessWeighted(p%d)", k), b, network.EdgeBetweennessWeighted(wg, p), we)
		}
	}
	if sp.n >= 3 {
		t.Nontrivial()
	}
	nz := 0
	for i := 0; i < sp.n; i++ {
		if wn[i].Sign() != 0 {
			nz++
		}
	}
	t.Outcome(fmt.Sprintf("n=%d nonzero=%d multipath=%v", sp.n, nz, multi > 0))
	t.Detail(map[string]any{"graph": sp.String(), "ids": b.ids})
}

func checkDistance(t *vlib.T, b *built) {
	sp := b.sp
	n := sp.n
	pr := allShortest(sp)
	inf := 0
	col := func(v int, f func(d float64, self bool)) {
		for u := 0; u < n; u++ {
			d := pr.dist[u][v] // incoming paths
			if math.IsInf(d, 0) {
				inf++
				continue
			}
			f(d, u == v)
		}
	}
	far := func(v int) float64 {
		var s float64
		col(v, func(d float64, _ bool) { s += d })
		return s
	}
	for k, p := range allShortestOf(t, b, pr) {
		nm := func(s string) string { return fmt.Sprintf("%s(p%d)", s, k) }
		checkNodeMap(t, nm("Farness"), b, network.Farness(b.g, p), far, 0, false)
		checkNodeMap(t, nm("Closeness"), b, network.Closeness(b.g, p), func(v int) float64 { return 1 / far(v) }, 0, false)
		checkNodeMap(t, nm("Eccentricity"), b, network.Eccentricity(b.g, p), func(v int) float64 {
			var m float64
			col(v, func(d float64, _ bool) { m = math.Max(m, d) })
			return m
		}, 0, false)
		checkNodeMap(t, nm("Harmonic"), b, network.Harmonic(b.g, p), func(v int) float64 {
			var s float64
			col(v, func(d float64, self bool) {
				if !self {
					s += 1 / d
				}
			})
			return s
		}, 1e-14, false)
		checkNodeMap(t, nm("Residual"), b, network.Residual(b.g, p), func(v int) float64 {
			var s float64
			col(v, func(d float64, self bool) {
				if !self {
					s += math.Pow(2, -d)
				}
			})
			return s
		}, 0, false)
	}
	if n >= 2 {
		t.Nontrivial()
	}
	t.Outcome(fmt.Sprintf("n=%d unreachable=%v weighted=%v", n, inf > 0, sp.weighted))
	t.Detail(map[string]any{"graph": sp.String(), "ids": b.ids})
}

func pathSpaces(g *vlib.G) []graphSpace {
	return []graphSpace{
		{n: 0}, {n: 1}, {n: 2}, {n: 3}, {n: 4},
		{n: 2, weighted: true}, {n: 3, weighted: true}, {n: 4, weighted: true},
		{n: 0, directed: true}, {n: 1, directed: true}, {n: 2, directed: true}, {n: 3, directed: true},
		{n: 2, directed: true, weighted: true}, {n: 3, directed: true, weighted: true},
		// zero-weight edges: zero-length shortest paths, ties, zero-weight cycles
		{n: 2, weighted: true, alpha: alpha012}, {n: 3, weighted: true, alpha: alpha012},
		{n: 4, weighted: true, alpha: alpha01, rotate: true},
		{n: 2, directed: true, weighted: true, alpha: alpha012},
		{n: 3, directed: true, weighted: true, alpha: alpha012, rotate: true},
		{n: 4, directed: true, large: true},
		{n: 5, large: true},
		{n: 5, weighted: true, rotate: true, large: true},
		{n: 4, directed: true, weighted: true, stride: vlib.Pick(g, 5, 1), offset: vlib.Pick(g, 1, 0), rotate: true, large: true},
		{n: 4, weighted: true, alpha: alpha012, stride: vlib.Pick(g, 3, 1), rotate: true, large: true},
		{n: 5, weighted: true, zeroOut: true, stride: vlib.Pick(g, 7, 1), offset: 3, rotate: true, large: true},
		{n: 5, weighted: true, alpha: alpha01, stride: vlib.Pick(g, 7, 1), offset: 2, rotate: true, large: true},
		{n: 4, directed: true, weighted: true, zeroOut: true, stride: vlib.Pick(g, 31, 3), offset: 5, large: true},
		{n: 4, directed: true, weighted: true, alpha: alpha01, stride: vlib.Pick(g, 31, 3), offset: 6, large: true},
	}
}

func genBetweenness(g *vlib.G, large bool) {
	eachSpace(g, large, pathSpaces(g), func(s graphSpace, key string, mk func() *built) {
		g.Case(key, func(t *vlib.T) { checkBetweenness(t, mk()) })
	})
}

func genDistance(g *vlib.G, large bool) {
	eachSpace(g, large, pathSpaces(g), func(s graphSpace, key string, mk func() *built) {
		g.Case(key, func(t *vlib.T) { checkDistance(t, mk()) })
	})
}
