package main

// spectral.NewLaplacian / NewSymNormLaplacian / NewRandomWalkLaplacian entry
// by entry, network.Diffuse against exp(-Lt)h (math/big Taylor series) and
// network.DiffuseToEquilibrium against its documented update rule.

import (
	"fmt"
	"math"

	"gonum.org/v1/gonum/graph"
	"gonum.org/v1/gonum/graph/multi"
	"gonum.org/v1/gonum/graph/network"
	"gonum.org/v1/gonum/graph/spectral"
	"gonum.org/v1/gonum/internal/verif/vlib"
)

const (
	lapPlain = iota
	lapSym
	lapRW
)

var lapNames = []string{"Laplacian", "SymNormLaplacian", "RandomWalkLaplacian"}

// laplacianRef returns the defining entries, indexed by node index.
//
//	Laplacian:   D - A
//	SymNorm:     I - D^-1/2 A D^-1/2, rows/columns of isolated nodes zero
//	RandomWalk:  (1-damp)(I - Aᵀ D^-1) with D the (out-)degrees, columns of
//	             nodes without (out-)edges zero: the column-stochastic
//	             orientation that the package's own tests pin (zero column
//	             sums) and that Diffuse/DiffuseToEquilibrium need; see NOTES.md.
func laplacianRef(sp *spec, kind int, damp float64) [][]float64 {
	n := sp.n
	deg := make([]float64, n)
	for i := 0; i < n; i++ {
		for j := 0; j < n; j++ {
			if sp.has(i, j) {
				deg[i]++
			}
		}
	}
	l := make([][]float64, n)
	for i := range l {
		l[i] = make([]float64, n)
	}
	for i := 0; i < n; i++ {
		for j := 0; j < n; j++ {
			switch kind {
			case lapPlain:
				if i == j {
					l[i][j] = deg[i]
				} else if sp.has(i, j) {
					l[i][j] = -1
				}
			case lapSym:
				if i == j {
					if deg[i] > 0 {
						l[i][j] = 1
					}
				} else if sp.has(i, j) {
					l[i][j] = -1 / (math.Sqrt(deg[i]) * math.Sqrt(deg[j]))
				}
			case lapRW:
				if i == j {
					if deg[j] > 0 {
						l[i][j] = 1 - damp
					}
				} else if sp.has(j, i) {
					l[i][j] = (damp - 1) / deg[j]
				}
			}
		}
	}
	return l
}

func mkLaplacian(b *built, kind int, damp float64) spectral.Laplacian {
	switch kind {
	case lapPlain:
		return spectral.NewLaplacian(b.g.(graph.Undirected))
	case lapSym:
		return spectral.NewSymNormLaplacian(b.g.(graph.Undirected))
	}
	return spectral.NewRandomWalkLaplacian(b.g, damp)
}

// checkLaplacianShape checks Nodes/Index consistency and returns the matrix
// re-indexed by node index.
func checkLaplacianShape(t *vlib.T, what string, b *built, l spectral.Laplacian) [][]float64 {
	n := b.sp.n
	if len(l.Nodes) != n || len(l.Index) != n {
		t.Failf("%s: %d Nodes, %d Index entries for %d nodes", what, len(l.Nodes), len(l.Index), n)
		return nil
	}
	if n == 0 {
		return [][]float64{}
	}
	r, c := l.Dims()
	if r != n || c != n {
		t.Failf("%s: dims %dx%d for %d nodes", what, r, c, n)
		return nil
	}
	for i, nd := range l.Nodes {
		if k, ok := l.Index[nd.ID()]; !ok || k != i {
			t.Failf("%s: Index[Nodes[%d].ID()=%d] = %d,%v", what, i, nd.ID(), k, ok)
			return nil
		}
		if _, ok := b.idx[nd.ID()]; !ok {
			t.Failf("%s: Nodes[%d] = %d is not a node of the graph", what, i, nd.ID())
			return nil
		}
	}
	m := make([][]float64, n)
	for i := range m {
		m[i] = make([]float64, n)
		for j := range m[i] {
			m[i][j] = l.At(l.Index[b.ids[i]], l.Index[b.ids[j]])
		}
	}
	return m
}

var rwDamps = []float64{0, 0.5, 0.85}

func checkLaplacian(t *vlib.T, b *built) {
	sp := b.sp
	cmp := func(what string, got, want [][]float64, tol float64) {
		if got == nil {
			return
		}
		for i := range want {
			for j := range want[i] {
				if !(math.Abs(got[i][j]-want[i][j]) <= tol) {
					t.Failf("%s[%d,%d] = %v, definition gives %v", what, b.ids[i], b.ids[j], got[i][j], want[i][j])
				}
			}
		}
	}
	if sp.n == 0 {
		// mat.NewSymDense/NewDense(0, 0, nil) panic (mat.ErrZeroLength): a
		// Laplacian of the empty graph cannot be represented; don't-care.
		t.Outcome("empty-graph-skipped")
		return
	}
	if !sp.directed {
		cmp("Laplacian", checkLaplacianShape(t, "Laplacian", b, mkLaplacian(b, lapPlain, 0)), laplacianRef(sp, lapPlain, 0), 0)
		cmp("SymNormLaplacian", checkLaplacianShape(t, "SymNormLaplacian", b, mkLaplacian(b, lapSym, 0)), laplacianRef(sp, lapSym, 0), 1e-15)
	}
	for _, damp := range rwDamps {
		what := fmt.Sprintf("RandomWalkLaplacian(damp=%v)", damp)
		cmp(what, checkLaplacianShape(t, what, b, mkLaplacian(b, lapRW, damp)), laplacianRef(sp, lapRW, damp), 1e-15)
	}
	if sp.n >= 2 {
		t.Nontrivial()
	}
	iso := 0
	for i := 0; i < sp.n; i++ {
		d := 0
		for j := 0; j < sp.n; j++ {
			if sp.has(i, j) {
				d++
			}
		}
		if d == 0 {
			iso++
		}
	}
	t.Outcome(fmt.Sprintf("n=%d directed=%v isolated/sink=%v", sp.n, sp.directed, iso > 0))
	t.Detail(map[string]any{"graph": sp.String(), "ids": b.ids})
}

func genLaplacian(g *vlib.G, large bool) {
	spaces := []graphSpace{
		{n: 0}, {n: 1}, {n: 2}, {n: 3}, {n: 4}, {n: 5},
		{n: 3, weighted: true}, {n: 4, weighted: true},
		{n: 1, directed: true}, {n: 2, directed: true}, {n: 3, directed: true},
		{n: 3, directed: true, weighted: true},
		// weights are ignored; a zero-weight edge is an edge
		{n: 3, weighted: true, alpha: alpha012}, {n: 4, weighted: true, alpha: alpha01, rotate: true},
		{n: 3, directed: true, weighted: true, alpha: alpha012, stride: 3, offset: 1},
		{n: 4, directed: true, large: true},
		{n: 5, weighted: true, stride: vlib.Pick(g, 7, 1), rotate: true, large: true},
		{n: 4, directed: true, weighted: true, stride: vlib.Pick(g, 29, 3), offset: 2, large: true},
		{n: 5, weighted: true, zeroOut: true, stride: vlib.Pick(g, 23, 3), offset: 1, large: true},
	}
	for i := range spaces {
		spaces[i].noMulti = true // documented for simple graphs
	}
	eachSpace(g, large, spaces, func(s graphSpace, key string, mk func() *built) {
		g.Case(key, func(t *vlib.T) { checkLaplacian(t, mk()) })
	})
}

// ---- diffusion ----

// heatVectors are the initial distributions: indicator of node 0, a ramp, an
// alternating vector with a non-integer entry.
func heatVectors(n int) [][]float64 {
	if n == 0 {
		return [][]float64{{}}
	}
	hs := make([][]float64, 3)
	for k := range hs {
		hs[k] = make([]float64, n)
	}
	hs[0][0] = 1
	for i := 0; i < n; i++ {
		hs[1][i] = float64(i + 1)
		hs[2][i] = []float64{-2, 0.75, 3, -1, 0.5}[i]
	}
	return hs
}

var (
	diffTimes = []float64{0, 0.5, 1, 3}
	eqTols    = []float64{0, 1.0 / (1 << 20), 0.5}
	eqIters   = []int{0, 1, 2, 7, 60}
)

const absentID = int64(-77) // an entry of h that is not a node

func checkDiffuse(t *vlib.T, b *built) {
	sp := b.sp
	n := sp.n
	kinds := []int{lapRW}
	if !sp.directed {
		kinds = []int{lapPlain, lapSym, lapRW}
	}
	var worst float64
	conv := 0
	for _, kind := range kinds {
		damp := 0.0
		if kind == lapRW {
			damp = 0.25
		}
		ref := laplacianRef(sp, kind, damp)
		for hi, hv := range heatVectors(n) {
			// h as a map: nodes with zero heat are left out (documented: given an
			// initial heat of zero); one entry for a node that is not in the graph.
			mkH := func() map[int64]float64 {
				h := map[int64]float64{absentID: 42}
				for i, x := range hv {
					if x != 0 {
						h[b.ids[i]] = x
					}
				}
				return h
			}
			h := mkH()
			var hmax float64 = 1
			for _, x := range hv {
				hmax = math.Max(hmax, math.Abs(x))
			}
			for ti, tm := range diffTimes {
				what := fmt.Sprintf("Diffuse(%s,h%d,t=%v)", lapNames[kind], hi, tm)
				want := expmvRef(ref, tm, hv)
				var dst map[int64]float64
				switch (hi + ti) % 4 {
				case 1:
					dst = map[int64]float64{absentID: 7, absentID - 1: 8}
				case 3: // in place: dst is h itself
					what += " in place"
					hh := mkH()
					got := network.Diffuse(hh, hh, mkLaplacian(b, kind, damp), tm)
					t.Count("diffuse_runs", 1)
					if len(got) != n+1 || got[absentID] != 42 || len(hh) != n+1 {
						t.Failf("%s: the entry of h that is not a node was altered or dst was not used: %v", what, got)
					}
					for i, id := range b.ids {
						if d := math.Abs(got[id] - want[i]); !(d <= 1e-10*hmax) {
							t.Failf("%s[%d] = %v, exp(-Lt)h gives %v (diff %.3g)", what, id, got[id], want[i], d)
						}
					}
					continue
				}
				got := network.Diffuse(dst, h, mkLaplacian(b, kind, damp), tm)
				t.Count("diffuse_runs", 1)
				if dst != nil {
					if len(got) != n+2 || got[absentID] != 7 || got[absentID-1] != 8 || dst[absentID] != 7 || len(dst) != n+2 {
						t.Failf("%s: entries of dst that are not nodes were altered or dst was not used: %v", what, got)
					}
				} else if len(got) != n {
					t.Failf("%s: %d entries for %d nodes: %v", what, len(got), n, got)
				}
				for i, id := range b.ids {
					v, ok := got[id]
					if !ok {
						t.Failf("%s: no entry for node %d", what, id)
						continue
					}
					d := math.Abs(v - want[i])
					if !(d <= 1e-10*hmax) {
						t.Failf("%s[%d] = %v, exp(-Lt)h gives %v (diff %.3g)", what, id, v, want[i], d)
					}
					worst = math.Max(worst, d/hmax)
				}
				if h[absentID] != 42 || len(h) != len(hv)-zeros(hv)+1 {
					t.Failf("%s: h was modified: %v", what, h)
				}
			}
			// DiffuseToEquilibrium: h_{k+1} = h_k - L h_k until the 2-norm of the
			// update is below tol or iters updates have been made.
			for _, tol := range eqTols {
				for _, iters := range eqIters {
					what := fmt.Sprintf("DiffuseToEquilibrium(%s,h%d,tol=%v,iters=%d)", lapNames[kind], hi, tol, iters)
					cur := append([]float64(nil), hv...)
					wantOK := false
					ambiguous := false
					for k := 0; k < iters; k++ {
						next := make([]float64, n)
						var nd float64
						for i := 0; i < n; i++ {
							var s float64
							for j := 0; j < n; j++ {
								s += ref[i][j] * cur[j]
							}
							next[i] = cur[i] - s
							nd += s * s
						}
						nd = math.Sqrt(nd)
						var scale float64
						for _, x := range cur {
							scale = math.Max(scale, math.Abs(x))
						}
						cur = next
						if tol > 0 && math.Abs(nd-tol) <= 1e-9*tol+1e-12*scale {
							ambiguous = true
						}
						if nd < tol {
							wantOK = true
							break
						}
					}
					if ambiguous {
						continue // update norm within rounding of tol: don't-care
					}
					got, ok := network.DiffuseToEquilibrium(nil, h, mkLaplacian(b, kind, damp), tol, iters)
					t.Count("equilibrium_runs", 1)
					if ok != wantOK {
						t.Failf("%s: ok=%v, update rule gives %v", what, ok, wantOK)
					}
					if ok {
						conv++
					}
					if len(got) != n {
						t.Failf("%s: %d entries for %d nodes", what, len(got), n)
					}
					var scale float64 = 1
					for _, x := range cur {
						scale = math.Max(scale, math.Abs(x))
					}
					for i, id := range b.ids {
						if d := math.Abs(got[id] - cur[i]); !(d <= 1e-11*scale) {
							t.Failf("%s[%d] = %v, update rule gives %v", what, id, got[id], cur[i])
						}
					}
				}
			}
		}
	}
	if n >= 2 {
		t.Nontrivial()
	}
	t.Outcome(fmt.Sprintf("n=%d directed=%v converged=%v err<=%s", n, sp.directed, conv > 0, bucket(worst*1e10)))
	t.Detail(map[string]any{"graph": sp.String(), "ids": b.ids})
}

func zeros(v []float64) int {
	c := 0
	for _, x := range v {
		if x == 0 {
			c++
		}
	}
	return c
}

func genDiffuse(g *vlib.G, large bool) {
	spaces := []graphSpace{
		{n: 1}, {n: 2}, {n: 3}, {n: 4},
		{n: 2, directed: true}, {n: 3, directed: true},
		{n: 3, weighted: true, alpha: alpha012}, {n: 2, directed: true, weighted: true, alpha: alpha012},
		{n: 5, rotate: true, large: true},
		{n: 4, directed: true, stride: vlib.Pick(g, 4, 1), offset: vlib.Pick(g, 1, 0), rotate: true, large: true},
		{n: 4, weighted: true, alpha: alpha01, stride: 5, offset: 2, large: true},
	}
	for i := range spaces {
		spaces[i].noMulti = true
	}
	eachSpace(g, large, spaces, func(s graphSpace, key string, mk func() *built) {
		g.Case(key, func(t *vlib.T) { checkDiffuse(t, mk()) })
	})
}

// ---- documented panic on self edges ----

// genLaplacianSelfEdge: "If g contains self edges, New*Laplacian will panic".
// The simple containers cannot hold a self edge; a multigraph can (a line
// from a node to itself, which From then reports).
func genLaplacianSelfEdge(g *vlib.G) {
	for _, directed := range []bool{false, true} {
		for idx := 0; idx < nGraphs(3, directed, false); idx++ {
			for loop := 0; loop < 3; loop++ {
				directed, idx, loop := directed, idx, loop
				g.Case(fmt.Sprintf("%s#%d loop at %d", graphSpace{n: 3, directed: directed}.name(), idx, loop), func(t *vlib.T) {
					sp := mkSpec(3, directed, false, idx)
					ids := idMap(idx%3, 3)
					expectPanic := func(what string, f func()) {
						defer func() {
							r := recover()
							if r == nil {
								t.Failf("%s on %s with a self edge at node %d did not panic (documented: will panic)", what, sp, ids[loop])
							} else if fmt.Sprint(r) != "network: self edge in graph" {
								t.Failf("%s on %s with a self edge at node %d panicked with %v", what, sp, ids[loop], r)
							}
						}()
						f()
					}
					if directed {
						mg := multi.NewDirectedGraph()
						for _, id := range ids {
							mg.AddNode(multi.Node(id))
						}
						for i := 0; i < 3; i++ {
							for j := 0; j < 3; j++ {
								if sp.has(i, j) {
									mg.SetLine(mg.NewLine(multi.Node(ids[i]), multi.Node(ids[j])))
								}
							}
						}
						mg.SetLine(mg.NewLine(multi.Node(ids[loop]), multi.Node(ids[loop])))
						expectPanic("NewRandomWalkLaplacian", func() { spectral.NewRandomWalkLaplacian(mg, 0.5) })
					} else {
						mg := multi.NewUndirectedGraph()
						for _, id := range ids {
							mg.AddNode(multi.Node(id))
						}
						for i := 0; i < 3; i++ {
							for j := i + 1; j < 3; j++ {
								if sp.has(i, j) {
									mg.SetLine(mg.NewLine(multi.Node(ids[i]), multi.Node(ids[j])))
								}
							}
						}
						mg.SetLine(mg.NewLine(multi.Node(ids[loop]), multi.Node(ids[loop])))
						expectPanic("NewLaplacian", func() { spectral.NewLaplacian(mg) })
						expectPanic("NewSymNormLaplacian", func() { spectral.NewSymNormLaplacian(mg) })
						expectPanic("NewRandomWalkLaplacian", func() { spectral.NewRandomWalkLaplacian(mg, 0.5) })
					}
					t.Nontrivial()
					t.Outcome(fmt.Sprintf("directed=%v panics", directed))
				})
			}
		}
	}
}
