package main

// Definitional references, written in the dumbest possible way: enumeration
// of all simple paths, dense Gaussian elimination, plain power iteration,
// Jacobi rotations, Taylor series in math/big, double sums, enumeration of
// all set partitions.

import (
	"math"
	"math/big"
)

// ---- shortest paths by enumeration of all simple paths ----

// pathsRef holds, for every ordered pair, the distance and every shortest
// simple path (as index sequences).
type pathsRef struct {
	n     int
	dist  [5][5]float64
	paths [5][5][][]int
}

func allShortest(sp *spec) *pathsRef {
	r := &pathsRef{n: sp.n}
	for s := 0; s < sp.n; s++ {
		for t := 0; t < sp.n; t++ {
			r.dist[s][t] = math.Inf(1)
		}
	}
	for s := 0; s < sp.n; s++ {
		var used [5]bool
		cur := []int{s}
		used[s] = true
		var dfs func(u int, length float64)
		dfs = func(u int, length float64) {
			// record the path s..u
			d := r.dist[s][u]
			switch {
			case length < d:
				r.dist[s][u] = length
				r.paths[s][u] = [][]int{append([]int(nil), cur...)}
			case length == d:
				r.paths[s][u] = append(r.paths[s][u], append([]int(nil), cur...))
			}
			for v := 0; v < sp.n; v++ {
				if used[v] || !sp.has(u, v) {
					continue
				}
				used[v] = true
				cur = append(cur, v)
				dfs(v, length+sp.a(u, v))
				cur = cur[:len(cur)-1]
				used[v] = false
			}
		}
		dfs(s, 0)
	}
	return r
}

// betweennessRef evaluates C_B(v) = sum_{s != v != t} sigma_st(v)/sigma_st and
// C_B(e) = sum_{s != t} sigma_st(e)/sigma_st over ORDERED pairs (s,t) exactly.
// Edge keys are index pairs; for undirected graphs the caller folds (u,v)
// and (v,u).
func betweennessRef(sp *spec, pr *pathsRef) (node [5]*big.Rat, edge [5][5]*big.Rat) {
	for i := range node {
		node[i] = new(big.Rat)
		for j := range edge[i] {
			edge[i][j] = new(big.Rat)
		}
	}
	for s := 0; s < sp.n; s++ {
		for t := 0; t < sp.n; t++ {
			if s == t || len(pr.paths[s][t]) == 0 {
				continue
			}
			frac := big.NewRat(1, int64(len(pr.paths[s][t])))
			for _, p := range pr.paths[s][t] {
				for k := 1; k < len(p)-1; k++ {
					node[p[k]].Add(node[p[k]], frac)
				}
				for k := 1; k < len(p); k++ {
					edge[p[k-1]][p[k]].Add(edge[p[k-1]][p[k]], frac)
				}
			}
		}
	}
	return node, edge
}

func ratF(r *big.Rat) float64 { f, _ := r.Float64(); return f }

// ---- dense linear algebra on tiny matrices ----

// solve solves a x = b by Gaussian elimination with partial pivoting.
func solve(a [][]float64, b []float64) ([]float64, bool) {
	n := len(b)
	m := make([][]float64, n)
	for i := range m {
		m[i] = append(append([]float64(nil), a[i]...), b[i])
	}
	for c := 0; c < n; c++ {
		p := c
		for r := c + 1; r < n; r++ {
			if math.Abs(m[r][c]) > math.Abs(m[p][c]) {
				p = r
			}
		}
		if m[p][c] == 0 {
			return nil, false
		}
		m[c], m[p] = m[p], m[c]
		for r := c + 1; r < n; r++ {
			f := m[r][c] / m[c][c]
			for k := c; k <= n; k++ {
				m[r][k] -= f * m[c][k]
			}
		}
	}
	x := make([]float64, n)
	for r := n - 1; r >= 0; r-- {
		s := m[r][n]
		for k := r + 1; k < n; k++ {
			s -= m[r][k] * x[k]
		}
		x[r] = s / m[r][r]
	}
	return x, true
}

// pageRankRef returns the stationary vector of the damped, dangling-corrected
// chain: x = damp*S*x + (1-damp)/n * 1, where column j of S is w(j,.)/z_j or,
// for a node without out-weight, the uniform vector 1/n.
func pageRankRef(sp *spec, damp float64) []float64 {
	n := sp.n
	a := make([][]float64, n)
	for i := range a {
		a[i] = make([]float64, n)
	}
	for j := 0; j < n; j++ {
		var z float64
		for i := 0; i < n; i++ {
			z += sp.a(j, i)
		}
		for i := 0; i < n; i++ {
			var s float64
			if z != 0 {
				s = sp.a(j, i) / z
			} else {
				s = 1 / float64(n)
			}
			a[i][j] = -damp * s
		}
		a[j][j] += 1
	}
	b := make([]float64, n)
	for i := range b {
		b[i] = (1 - damp) / float64(n)
	}
	x, ok := solve(a, b)
	if !ok {
		panic("harness: singular PageRank system")
	}
	return x
}

// jacobiEigenvalues returns the eigenvalues of the symmetric matrix a in
// descending order (cyclic Jacobi rotations).
func jacobiEigenvalues(a [][]float64) []float64 {
	n := len(a)
	m := make([][]float64, n)
	for i := range m {
		m[i] = append([]float64(nil), a[i]...)
	}
	for sweep := 0; sweep < 100; sweep++ {
		var off float64
		for p := 0; p < n; p++ {
			for q := p + 1; q < n; q++ {
				off += m[p][q] * m[p][q]
			}
		}
		if off < 1e-30 {
			break
		}
		for p := 0; p < n; p++ {
			for q := p + 1; q < n; q++ {
				if m[p][q] == 0 {
					continue
				}
				theta := (m[q][q] - m[p][p]) / (2 * m[p][q])
				t := 1 / (math.Abs(theta) + math.Sqrt(theta*theta+1))
				if theta < 0 {
					t = -t
				}
				c := 1 / math.Sqrt(t*t+1)
				s := t * c
				for k := 0; k < n; k++ {
					mkp, mkq := m[k][p], m[k][q]
					m[k][p] = c*mkp - s*mkq
					m[k][q] = s*mkp + c*mkq
				}
				for k := 0; k < n; k++ {
					mpk, mqk := m[p][k], m[q][k]
					m[p][k] = c*mpk - s*mqk
					m[q][k] = s*mpk + c*mqk
				}
			}
		}
	}
	ev := make([]float64, n)
	for i := range ev {
		ev[i] = m[i][i]
	}
	for i := range ev {
		for j := i + 1; j < n; j++ {
			if ev[j] > ev[i] {
				ev[i], ev[j] = ev[j], ev[i]
			}
		}
	}
	return ev
}

// powerIteration returns the unit 2-norm limit of x <- m x / |m x| started at
// the all-ones vector.
func powerIteration(m [][]float64, iters int) []float64 {
	n := len(m)
	x := make([]float64, n)
	for i := range x {
		x[i] = 1
	}
	y := make([]float64, n)
	for it := 0; it < iters; it++ {
		var norm float64
		for i := 0; i < n; i++ {
			var s float64
			for j := 0; j < n; j++ {
				s += m[i][j] * x[j]
			}
			y[i] = s
			norm += s * s
		}
		norm = math.Sqrt(norm)
		var diff float64
		for i := range y {
			y[i] /= norm
			diff = math.Max(diff, math.Abs(y[i]-x[i]))
		}
		x, y = y, x
		if diff == 0 {
			break
		}
	}
	return x
}

// ---- exp(-t L) h by a Taylor series in math/big ----

const bigPrec = 320

func expmvRef(l [][]float64, t float64, h []float64) []float64 {
	n := len(h)
	nf := func(f float64) *big.Float { return new(big.Float).SetPrec(bigPrec).SetFloat64(f) }
	m := make([][]*big.Float, n) // -t*L
	for i := range m {
		m[i] = make([]*big.Float, n)
		for j := range m[i] {
			m[i][j] = new(big.Float).SetPrec(bigPrec).Mul(nf(-t), nf(l[i][j]))
		}
	}
	term := make([]*big.Float, n)
	sum := make([]*big.Float, n)
	for i := range term {
		term[i] = nf(h[i])
		sum[i] = nf(h[i])
	}
	tiny := new(big.Float).SetPrec(bigPrec).SetMantExp(big.NewFloat(1), -200)
	for k := 1; k < 2000; k++ {
		next := make([]*big.Float, n)
		small := true
		for i := 0; i < n; i++ {
			s := nf(0)
			for j := 0; j < n; j++ {
				s.Add(s, new(big.Float).SetPrec(bigPrec).Mul(m[i][j], term[j]))
			}
			s.Quo(s, nf(float64(k)))
			next[i] = s
			sum[i].Add(sum[i], s)
			if new(big.Float).Abs(s).Cmp(tiny) > 0 {
				small = false
			}
		}
		term = next
		if small && k > 4 {
			break
		}
	}
	out := make([]float64, n)
	for i := range out {
		out[i], _ = sum[i].Float64()
	}
	return out
}

// ---- modularity ----

// qUndirectedRef is Q = 1/2m sum_ij [A_ij - gamma k_i k_j/2m] delta(c_i,c_j)
// over all ordered pairs (i,j), a symmetric with arbitrary diagonal.
func qUndirectedRef(n int, a func(i, j int) float64, comm []int, gamma float64) float64 {
	var k [8]float64
	var m2 float64
	for i := 0; i < n; i++ {
		for j := 0; j < n; j++ {
			k[i] += a(i, j)
		}
		m2 += k[i]
	}
	var q float64
	for i := 0; i < n; i++ {
		for j := 0; j < n; j++ {
			if comm[i] == comm[j] {
				q += a(i, j) - gamma*k[i]*k[j]/m2
			}
		}
	}
	return q / m2
}

// qDirectedRef is Q = 1/m sum_ij [A_ij - gamma k_i^out k_j^in/m] delta(c_i,c_j).
func qDirectedRef(n int, a func(i, j int) float64, comm []int, gamma float64) float64 {
	var kout, kin [8]float64
	var m float64
	for i := 0; i < n; i++ {
		for j := 0; j < n; j++ {
			kout[i] += a(i, j)
			kin[j] += a(i, j)
			m += a(i, j)
		}
	}
	var q float64
	for i := 0; i < n; i++ {
		for j := 0; j < n; j++ {
			if comm[i] == comm[j] {
				q += a(i, j) - gamma*kout[i]*kin[j]/m
			}
		}
	}
	return q / m
}

// partitions returns every set partition of {0..n-1} as a restricted growth
// string (comm[i] = community of node i); Bell(n) entries.
func partitions(n int) [][]int {
	var out [][]int
	cur := make([]int, n)
	var rec func(i, maxUsed int)
	rec = func(i, maxUsed int) {
		if i == n {
			out = append(out, append([]int(nil), cur...))
			return
		}
		for c := 0; c <= maxUsed+1; c++ {
			cur[i] = c
			m := maxUsed
			if c > m {
				m = c
			}
			rec(i+1, m)
		}
	}
	if n == 0 {
		return [][]int{{}}
	}
	rec(0, -1)
	return out
}

func maxAbsDiff(a, b []float64) float64 {
	var d float64
	for i := range a {
		x := math.Abs(a[i] - b[i])
		if x > d || math.IsNaN(x) {
			d = x
		}
	}
	return d
}
