package main

// PageRank / PageRankSparse (plain and edge-weighted) against the stationary
// vector of the damped, dangling-corrected chain, and HITS against the
// principal eigenvectors of AᵀA / AAᵀ.

import (
	"fmt"
	"math"
	"runtime"

	"gonum.org/v1/gonum/graph"
	"gonum.org/v1/gonum/graph/network"
	"gonum.org/v1/gonum/internal/verif/vlib"
	"gonum.org/v1/gonum/internal/verif/vrand"
)

var (
	prDamps = []float64{0.1, 0.3, 0.5, 0.7, 0.85, 0.95, 0.99}
	prTols  = []float64{1e-3, 1e-6, 1e-8, 1e-10, 1e-12}
)

// prBound is the distance to the fixed point implied by the stopping rule
// |x_k - x_{k-1}|_2 < tol: with d = x_k - x_{k-1} (zero sum) the remaining
// updates are G^j d = (damp S)^j d, S column stochastic, so
// |x* - x_k|_1 <= damp/(1-damp) |d|_1 <= damp/(1-damp) sqrt(n) tol.
func prBound(n int, damp, tol float64) float64 {
	return damp/(1-damp)*math.Sqrt(float64(n))*tol + 1e-12
}

func runPageRank(f func(graph.Directed, float64, float64) map[int64]float64, b *built, damp, tol float64, skip int) map[int64]float64 {
	vrand.Reset(nil)
	for i := 0; i < skip; i++ {
		vrand.NormFloat64() // a different start vector
	}
	return f(b.g.(graph.Directed), damp, tol)
}

// prCombos is the damping x tolerance grid, or (sub) six pairs of it chosen by rot.
func prCombos(sub bool, rot int) [][2]float64 {
	var all [][2]float64
	for _, d := range prDamps {
		for _, tol := range prTols {
			all = append(all, [2]float64{d, tol})
		}
	}
	if !sub {
		return all
	}
	var out [][2]float64
	for i := 0; i < 6; i++ {
		out = append(out, all[(rot+i*6)%len(all)])
	}
	return out
}

func checkPageRank(t *vlib.T, b *built, combos [][2]float64) {
	sp := b.sp
	n := sp.n
	var worst float64
	var dangling, zeroSum int
	for j := 0; j < n; j++ {
		out := 0
		var z float64
		for i := 0; i < n; i++ {
			if sp.has(j, i) {
				out++
				z += sp.a(j, i)
			}
		}
		if out == 0 {
			dangling++
		} else if z == 0 {
			zeroSum++ // out-edges whose weights sum to zero: dangling for the weighted walk
		}
	}
	for _, c := range combos {
		damp, tol := c[0], c[1]
		want := pageRankRef(sp, damp)
		{
			bound := prBound(n, damp, tol)
			var res [4][]float64
			k := 0
			for vi, variant := range []func(graph.Directed, float64, float64) map[int64]float64{network.PageRank, network.PageRankSparse} {
				vname := []string{"PageRank", "PageRankSparse"}[vi]
				for _, skip := range []int{0, 3} {
					got := runPageRank(variant, b, damp, tol, skip)
					t.Count("pagerank_runs", 1)
					if len(got) != n {
						t.Failf("%s(damp=%v,tol=%v): %d entries for %d nodes", vname, damp, tol, len(got), n)
						return
					}
					vec := make([]float64, n)
					var sum float64
					for i, id := range b.ids {
						r, ok := got[id]
						if !ok {
							t.Failf("%s(damp=%v,tol=%v): no entry for node %d", vname, damp, tol, id)
							return
						}
						vec[i] = r
						sum += r
					}
					if n > 0 && !(math.Abs(sum-1) <= 1e-12) {
						t.Failf("%s(damp=%v,tol=%v,stream=%d): ranks sum to %v (1%+.3g)", vname, damp, tol, skip, sum, sum-1)
					}
					d := maxAbsDiff(vec, want)
					if !(d <= bound) {
						t.Failf("%s(damp=%v,tol=%v,stream=%d) = %v, stationary vector %v: max diff %.3g > %.3g", vname, damp, tol, skip, vec, want, d, bound)
					}
					if d/bound > worst {
						worst = d / bound
					}
					res[k] = vec
					k++
				}
			}
			// the fixed point does not depend on the start vector; dense == sparse.
			for i := 1; i < 4; i++ {
				if d := maxAbsDiff(res[0], res[i]); !(d <= 2*bound) {
					t.Failf("damp=%v tol=%v: run %d differs from run 0 by %.3g > %.3g (0,1 dense; 2,3 sparse; odd: shifted start vector)", damp, tol, i, d, 2*bound)
				}
			}
		}
	}
	if n >= 2 {
		t.Nontrivial()
	}
	t.Outcome(fmt.Sprintf("n=%d dangling=%d zeroOutWeight=%d weighted=%v err/bound<=%s", n, dangling, zeroSum, sp.weighted, bucket(worst)))
	t.Detail(map[string]any{"graph": sp.String(), "ids": b.ids})
}

func bucket(x float64) string {
	switch {
	case x <= 1e-3:
		return "1e-3"
	case x <= 1e-1:
		return "1e-1"
	case x <= 1:
		return "1"
	}
	return ">1"
}

func genPageRank(g *vlib.G, large bool) {
	spaces := []graphSpace{
		// n = 0 is left out: every variant panics with mat.ErrZeroLength on the
		// empty graph (gonum has no 0x0 matrices); don't-care, see NOTES.md.
		{n: 1, directed: true}, {n: 2, directed: true}, {n: 3, directed: true},
		{n: 2, directed: true, weighted: true}, {n: 3, directed: true, weighted: true},
		// zero-weight edges: a node whose out-weights sum to zero is dangling
		{n: 2, directed: true, weighted: true, alpha: alpha012},
		{n: 3, directed: true, weighted: true, alpha: alpha012, rotate: true, sub: true},
		{n: 4, directed: true, sub: true, large: true},
		{n: 4, directed: true, weighted: true, stride: vlib.Pick(g, 499, 11), offset: 5, sub: true, large: true},
		{n: 4, directed: true, weighted: true, zeroOut: true, stride: vlib.Pick(g, 499, 11), offset: 7, sub: true, large: true},
		{n: 4, directed: true, weighted: true, alpha: alpha01, stride: vlib.Pick(g, 499, 11), offset: 3, sub: true, large: true},
	}
	eachSpace(g, large, spaces, func(s graphSpace, key string, mk func() *built) {
		rot := keySum(key)
		g.Case(key, func(t *vlib.T) { checkPageRank(t, mk(), prCombos(s.sub, rot)) })
	})
}

func keySum(key string) int {
	r := 0
	for _, c := range []byte(key) {
		r += int(c)
	}
	return r
}

// ---- HITS ----

var hitsTols = []float64{1e-8, 1e-12}

func checkHITS(t *vlib.T, b *built) {
	sp := b.sp
	n := sp.n
	if sp.edges() == 0 && n > 0 {
		// Degenerate: the adjacency matrix is zero, so are its dominant singular
		// vectors: no node is a hub or an authority, every score is exactly 0.
		for _, tol := range hitsTols {
			got, ok := hitsGuarded(t, b.g.(graph.Directed), tol)
			if !ok {
				t.Outcome("edgeless-no-termination")
				return
			}
			t.Count("hits_runs", 1)
			if len(got) != n {
				t.Failf("HITS(tol=%v) on the graph without edges: %d entries for %d nodes", tol, len(got), n)
			}
			for _, id := range b.ids {
				ha, ok := got[id]
				if !ok || ha.Hub != 0 || ha.Authority != 0 {
					t.Failf("HITS(tol=%v) on %s (no edges): node %d has %+v (present %v); the zero adjacency matrix has zero hub and authority scores", tol, sp, id, ha, ok)
				}
			}
		}
		t.Nontrivial()
		t.Outcome(fmt.Sprintf("n=%d edgeless", n))
		t.Detail(map[string]any{"graph": sp.String(), "ids": b.ids})
		return
	}
	// AᵀA (authority) and AAᵀ (hub).
	ata := make([][]float64, n)
	aat := make([][]float64, n)
	for i := 0; i < n; i++ {
		ata[i] = make([]float64, n)
		aat[i] = make([]float64, n)
		for j := 0; j < n; j++ {
			for k := 0; k < n; k++ {
				if sp.has(k, i) && sp.has(k, j) {
					ata[i][j]++
				}
				if sp.has(i, k) && sp.has(j, k) {
					aat[i][j]++
				}
			}
		}
	}
	ratio := 0.0
	if n > 1 {
		ev := jacobiEigenvalues(ata)
		ratio = ev[1] / ev[0]
	}
	if ratio > 0.9 {
		// tie or near tie of the two largest eigenvalues: the limit depends on the
		// start vector / converges too slowly for a bound; don't-care.
		t.Outcome("eigenvalue-tie-skipped")
		return
	}
	auth := powerIteration(ata, 20000)
	hub := powerIteration(aat, 20000)
	// sanity of the reference: hub must be A*auth normalised.
	if n > 0 {
		h2 := make([]float64, n)
		var norm float64
		for i := 0; i < n; i++ {
			for j := 0; j < n; j++ {
				if sp.has(i, j) {
					h2[i] += auth[j]
				}
			}
			norm += h2[i] * h2[i]
		}
		norm = math.Sqrt(norm)
		for i := range h2 {
			h2[i] /= norm
		}
		if d := maxAbsDiff(h2, hub); d > 1e-9 {
			panic(fmt.Sprintf("harness: inconsistent HITS reference %v vs %v on %s", h2, hub, sp))
		}
	}
	for _, tol := range hitsTols {
		got := network.HITS(b.g.(graph.Directed), tol)
		t.Count("hits_runs", 1)
		if len(got) != n {
			t.Failf("HITS(tol=%v): %d entries for %d nodes", tol, len(got), n)
			return
		}
		bound := 100*tol/(1-ratio) + 1e-12
		for i, id := range b.ids {
			ha, ok := got[id]
			if !ok {
				t.Failf("HITS(tol=%v): no entry for node %d", tol, id)
				return
			}
			if d := math.Abs(ha.Authority - auth[i]); !(d <= bound) {
				t.Failf("HITS(tol=%v) authority[%d]=%v, principal eigenvector of AᵀA gives %v (diff %.3g > %.3g)", tol, id, ha.Authority, auth[i], d, bound)
			}
			if d := math.Abs(ha.Hub - hub[i]); !(d <= bound) {
				t.Failf("HITS(tol=%v) hub[%d]=%v, principal eigenvector of AAᵀ gives %v (diff %.3g > %.3g)", tol, id, ha.Hub, hub[i], d, bound)
			}
		}
	}
	if n >= 2 {
		t.Nontrivial()
	}
	t.Outcome(fmt.Sprintf("n=%d edges=%d ratio<=%.1f", n, sp.edges(), math.Ceil(ratio*10)/10))
	t.Detail(map[string]any{"graph": sp.String(), "ids": b.ids})
}

func genHITS(g *vlib.G, large bool) {
	eachSpace(g, large, []graphSpace{
		{n: 0, directed: true}, {n: 1, directed: true}, {n: 2, directed: true}, {n: 3, directed: true},
		{n: 3, directed: true, weighted: true, stride: 7},
		{n: 3, directed: true, weighted: true, alpha: alpha012, stride: 5, offset: 1}, // weights are ignored, also zero ones
		{n: 4, directed: true, large: true},
	}, func(s graphSpace, key string, mk func() *built) {
		g.Case(key, func(t *vlib.T) { checkHITS(t, mk()) })
	})
}

// hitsYields bounds the wait for HITS on a graph without edges in scheduler
// yields, never in time: with GOMAXPROCS=1 every runtime.Gosched of the
// waiting goroutine hands the processor to the HITS goroutine, which needs
// well under a microsecond of it when it terminates at all. A false alarm
// would need that goroutine to be preempted before it has run for a
// microsecond in each of 400 consecutive turns, whatever the load of the
// machine.
const hitsYields = 400

// hitsHangs is set once a HITS call did not come back: the goroutine keeps
// spinning until the shard exits, so the process does not start another one.
var hitsHangs bool

// hitsGuarded calls HITS on a graph without edges. Before 78aa6bd such a call
// never returned (0/0 in the first normalisation made every score NaN), so it
// runs in its own goroutine and the caller gives up after hitsYields yields.
func hitsGuarded(t *vlib.T, g graph.Directed, tol float64) (map[int64]network.HubAuthority, bool) {
	if hitsHangs {
		t.NoConfirm()
		t.FailClass("hits-edgeless-no-termination", "HITS on a graph without edges did not terminate earlier in this shard; not called again")
		return nil, false
	}
	done := make(chan map[int64]network.HubAuthority, 1)
	go func() { done <- network.HITS(g, tol) }()
	for i := 0; i < hitsYields; i++ {
		select {
		case got := <-done:
			return got, true
		default:
			runtime.Gosched()
		}
	}
	hitsHangs = true
	t.NoConfirm()
	t.FailClass("hits-edgeless-no-termination", "HITS on a directed graph with nodes and no edges does not terminate (0/0 in the first normalisation makes every score NaN, and NaN < tol never holds)")
	return nil, false
}
