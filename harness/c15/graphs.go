package main

// Graph specifications, their enumeration, and the construction of the gonum
// graphs under test: the real simple.* containers behind thin wrappers that
// fix the iteration order of Nodes/From/To (the containers iterate Go maps,
// i.e. in a different order on every call, which would make the floating
// point results of a failing case irreproducible). Everything else (Node,
// Edge, Weight, HasEdge...) is answered by the real container.

import (
	"fmt"
	"math"
	"strings"

	"gonum.org/v1/gonum/graph"
	"gonum.org/v1/gonum/graph/iterator"
	"gonum.org/v1/gonum/graph/multi"
	"gonum.org/v1/gonum/graph/simple"
	"gonum.org/v1/gonum/internal/verif/vlib"
)

// spec is a graph on the node indices 0..n-1: e[i][j] says whether the edge
// exists, w[i][j] is its weight (which may be 0); undirected specs are
// symmetric. There are no self loops (the simple containers refuse them).
type spec struct {
	n        int
	directed bool
	weighted bool
	e        [5][5]bool
	w        [5][5]float64
	// self is the weight every node has to itself (the self argument of the
	// weighted simple containers, read by the modularity code as A_ii); the
	// containers still have no self edges in From.
	self float64
}

func (sp *spec) has(i, j int) bool { return sp.e[i][j] }

// set adds the edge i->j (and j->i for undirected specs) with weight w.
func (sp *spec) set(i, j int, w float64) {
	sp.e[i][j], sp.w[i][j] = true, w
	if !sp.directed {
		sp.e[j][i], sp.w[j][i] = true, w
	}
}

// totalWeight is the sum of the absolute weights the modularity code sees
// (every direction of every edge, self weights included).
func (sp *spec) totalWeight() float64 {
	var t float64
	for i := 0; i < sp.n; i++ {
		for j := 0; j < sp.n; j++ {
			t += math.Abs(sp.a(i, j))
		}
	}
	return t
}

// a returns the adjacency weight used by the definitions: the edge weight for
// weighted graphs, 1 for an edge of an unweighted graph.
func (sp *spec) a(i, j int) float64 {
	if i == j {
		return sp.self
	}
	if !sp.e[i][j] {
		return 0
	}
	if !sp.weighted {
		return 1
	}
	return sp.w[i][j]
}

func (sp *spec) edges() int {
	c := 0
	for i := 0; i < sp.n; i++ {
		for j := 0; j < sp.n; j++ {
			if sp.has(i, j) && (sp.directed || i < j) {
				c++
			}
		}
	}
	return c
}

func (sp *spec) String() string {
	var b strings.Builder
	kind := "U"
	if sp.directed {
		kind = "D"
	}
	fmt.Fprintf(&b, "%s%d[", kind, sp.n)
	first := true
	for i := 0; i < sp.n; i++ {
		for j := 0; j < sp.n; j++ {
			if !sp.has(i, j) || (!sp.directed && j < i) {
				continue
			}
			if !first {
				b.WriteByte(' ')
			}
			first = false
			sep := "-"
			if sp.directed {
				sep = ">"
			}
			if sp.weighted {
				fmt.Fprintf(&b, "%d%s%d:%v", i, sep, j, sp.w[i][j])
			} else {
				fmt.Fprintf(&b, "%d%s%d", i, sep, j)
			}
		}
	}
	b.WriteByte(']')
	return b.String()
}

// pairs lists the node pairs that carry one digit of the graph index.
func pairs(n int, directed bool) [][2]int {
	var ps [][2]int
	for i := 0; i < n; i++ {
		for j := 0; j < n; j++ {
			if i == j || (!directed && j < i) {
				continue
			}
			ps = append(ps, [2]int{i, j})
		}
	}
	return ps
}

func ipow(b, e int) int {
	r := 1
	for ; e > 0; e-- {
		r *= b
	}
	return r
}

// Weight alphabets: digit 0 of a pair is "no edge", digit d > 0 the weight
// alpha[d-1]. Unweighted graphs have the single letter 1.
var (
	alphaUnit = []float64{1}
	alpha12   = []float64{1, 2}    // the default of the weighted spaces
	alpha012  = []float64{0, 1, 2} // with zero-weight edges
	alpha01   = []float64{0, 1}
)

func alphaFor(weighted bool) []float64 {
	if weighted {
		return alpha12
	}
	return alphaUnit
}

// nGraphs is the number of graphs on n nodes: 2^pairs unweighted, 3^pairs
// with weights in {absent,1,2}.
func nGraphs(n int, directed, weighted bool) int {
	return ipow(len(alphaFor(weighted))+1, len(pairs(n, directed)))
}

// mkSpec decodes graph number idx (digits base 2 or 3 over pairs()).
func mkSpec(n int, directed, weighted bool, idx int) *spec {
	return mkSpecAlpha(n, directed, weighted, alphaFor(weighted), idx)
}

func mkSpecAlpha(n int, directed, weighted bool, alpha []float64, idx int) *spec {
	sp := &spec{n: n, directed: directed, weighted: weighted}
	r := len(alpha) + 1
	for _, p := range pairs(n, directed) {
		d := idx % r
		idx /= r
		if d > 0 {
			sp.set(p[0], p[1], alpha[d-1])
		}
	}
	return sp
}

// zeroOut sets the weight of every edge leaving node z (undirected: every
// edge at z) to zero; the edges stay.
func (sp *spec) zeroOut(z int) {
	for j := 0; j < sp.n; j++ {
		if sp.e[z][j] {
			sp.w[z][j] = 0
			if !sp.directed {
				sp.w[j][z] = 0
			}
		}
	}
}

// ID maps.
var idMapNames = []string{"ident", "rev", "sparse"}

func idMap(kind, n int) []int64 {
	ids := make([]int64, n)
	sparse := []int64{7, -3, 1 << 40, 0, 11}
	for i := range ids {
		switch kind {
		case 0:
			ids[i] = int64(i)
		case 1:
			ids[i] = int64(n - 1 - i)
		default:
			ids[i] = sparse[i]
		}
	}
	return ids
}

// Iteration orders of the wrappers.
const (
	ordAsc = iota
	ordDesc
	ordRot
	nOrders
)

var orderNames = []string{"asc", "desc", "rot"}

// built is a constructed graph together with its spec and ID map.
type built struct {
	sp  *spec
	ids []int64
	idx map[int64]int
	g   graph.Graph // ordDir, ordWDir, ordUnd or ordWUnd
}

func (b *built) nodes() []graph.Node {
	ns := make([]graph.Node, b.sp.n)
	for i, id := range b.ids {
		ns[i] = simple.Node(id)
	}
	return ns
}

// build constructs the gonum graph for sp. The dynamic type implements
// exactly the interfaces of its kind: an unweighted graph is not a
// graph.Weighted, an undirected one is not a graph.Directed.
func build(sp *spec, idKind, order, cont int) *built {
	if cont == contMulti {
		return buildMulti(sp, idKind, order)
	}
	lazy := cont == contLazy
	n := sp.n
	ids := idMap(idKind, n)
	b := &built{sp: sp, ids: ids, idx: make(map[int64]int, n)}
	pos := make(map[int64]int, n)
	for i, id := range ids {
		b.idx[id] = i
		switch order {
		case ordAsc:
			pos[id] = i
		case ordDesc:
			pos[id] = n - 1 - i
		default:
			pos[id] = (i + n - 1) % n
		}
	}
	base := ordBase{pos: pos, lazy: lazy}
	each := func(f func(i, j int, w float64)) {
		for i := 0; i < n; i++ {
			for j := 0; j < n; j++ {
				if !sp.has(i, j) || (!sp.directed && j < i) {
					continue
				}
				f(i, j, sp.w[i][j])
			}
		}
	}
	switch {
	case sp.directed && sp.weighted:
		g := simple.NewWeightedDirectedGraph(sp.self, math.Inf(1))
		for _, id := range ids {
			g.AddNode(simple.Node(id))
		}
		each(func(i, j int, w float64) {
			g.SetWeightedEdge(simple.WeightedEdge{F: simple.Node(ids[i]), T: simple.Node(ids[j]), W: w})
		})
		base.g = g
		base.freeze()
		b.g = ordWDir{ordDir{base, g}, g}
	case sp.directed:
		g := simple.NewDirectedGraph()
		for _, id := range ids {
			g.AddNode(simple.Node(id))
		}
		each(func(i, j int, w float64) {
			g.SetEdge(simple.Edge{F: simple.Node(ids[i]), T: simple.Node(ids[j])})
		})
		base.g = g
		base.freeze()
		b.g = ordDir{base, g}
	case sp.weighted:
		g := simple.NewWeightedUndirectedGraph(sp.self, math.Inf(1))
		for _, id := range ids {
			g.AddNode(simple.Node(id))
		}
		each(func(i, j int, w float64) {
			if (i+j)%2 == 0 { // alternate the stored orientation
				i, j = j, i
			}
			g.SetWeightedEdge(simple.WeightedEdge{F: simple.Node(ids[i]), T: simple.Node(ids[j]), W: w})
		})
		base.g = g
		base.freeze()
		b.g = ordWUnd{base, g}
	default:
		g := simple.NewUndirectedGraph()
		for _, id := range ids {
			g.AddNode(simple.Node(id))
		}
		each(func(i, j int, w float64) {
			if (i+j)%2 == 0 {
				i, j = j, i
			}
			g.SetEdge(simple.Edge{F: simple.Node(ids[i]), T: simple.Node(ids[j])})
		})
		base.g = g
		base.freeze()
		b.g = ordUnd{base}
	}
	return b
}

// Containers.
const (
	contSimple = iota
	contMulti  // multi.* graphs, every edge made of two parallel lines
	contLazy   // simple.* graphs whose Nodes/From/To iterators report an indeterminate length
	nContainers
)

var contNames = []string{"simple", "multi", "lazy"}

// lazyNodes is a graph.Nodes of indeterminate length: Len is -1 until the
// iterator is exhausted (graph.Iterator: "If the number of items in the
// iterator is unknown, too large to materialize or too costly to calculate
// then Len may return a negative value"), as an implicit or lazily evaluated
// graph would report. It is deliberately not a graph.NodeSlicer.
type lazyNodes struct {
	nodes []graph.Node
	pos   int
}

func (l *lazyNodes) Next() bool {
	if l.pos < len(l.nodes) {
		l.pos++
		return l.pos <= len(l.nodes)
	}
	l.pos = len(l.nodes) + 1
	return false
}

func (l *lazyNodes) Node() graph.Node {
	if l.pos < 1 || l.pos > len(l.nodes) {
		return nil
	}
	return l.nodes[l.pos-1]
}

func (l *lazyNodes) Len() int {
	if l.pos > len(l.nodes) {
		return 0
	}
	return -1
}

func (l *lazyNodes) Reset() { l.pos = 0 }

// buildMulti constructs sp as a multigraph: every edge is two parallel lines
// (stored with opposite orientations when undirected) whose default
// EdgeWeightFunc summary (the sum) is the spec weight, w+1 and -1.
func buildMulti(sp *spec, idKind, order int) *built {
	if sp.self != 0 {
		panic("harness: no self weight in multigraphs")
	}
	n := sp.n
	ids := idMap(idKind, n)
	b := &built{sp: sp, ids: ids, idx: make(map[int64]int, n)}
	pos := make(map[int64]int, n)
	for i, id := range ids {
		b.idx[id] = i
		switch order {
		case ordAsc:
			pos[id] = i
		case ordDesc:
			pos[id] = n - 1 - i
		default:
			pos[id] = (i + n - 1) % n
		}
	}
	base := ordBase{pos: pos}
	each := func(f func(u, v graph.Node, w float64)) {
		for i := 0; i < n; i++ {
			for j := 0; j < n; j++ {
				if !sp.has(i, j) || (!sp.directed && j < i) {
					continue
				}
				f(multi.Node(ids[i]), multi.Node(ids[j]), sp.w[i][j])
			}
		}
	}
	switch {
	case sp.directed && sp.weighted:
		g := multi.NewWeightedDirectedGraph()
		for _, id := range ids {
			g.AddNode(multi.Node(id))
		}
		each(func(u, v graph.Node, w float64) {
			g.SetWeightedLine(g.NewWeightedLine(u, v, w+1))
			g.SetWeightedLine(g.NewWeightedLine(u, v, -1))
		})
		base.g = g
		base.freeze()
		b.g = ordWDir{ordDir{base, g}, g}
	case sp.directed:
		g := multi.NewDirectedGraph()
		for _, id := range ids {
			g.AddNode(multi.Node(id))
		}
		each(func(u, v graph.Node, w float64) {
			g.SetLine(g.NewLine(u, v))
			g.SetLine(g.NewLine(u, v))
		})
		base.g = g
		base.freeze()
		b.g = ordDir{base, g}
	case sp.weighted:
		g := multi.NewWeightedUndirectedGraph()
		for _, id := range ids {
			g.AddNode(multi.Node(id))
		}
		each(func(u, v graph.Node, w float64) {
			g.SetWeightedLine(g.NewWeightedLine(u, v, w+1))
			g.SetWeightedLine(g.NewWeightedLine(v, u, -1))
		})
		base.g = g
		base.freeze()
		b.g = ordWUnd{base, g}
	default:
		g := multi.NewUndirectedGraph()
		for _, id := range ids {
			g.AddNode(multi.Node(id))
		}
		each(func(u, v graph.Node, w float64) {
			g.SetLine(g.NewLine(u, v))
			g.SetLine(g.NewLine(v, u))
		})
		base.g = g
		base.freeze()
		b.g = ordUnd{base}
	}
	return b
}

// ordBase presents a graph with a deterministic iteration order.
type ordBase struct {
	g    graph.Graph
	pos  map[int64]int
	adj  map[int64][]graph.Node
	all  []graph.Node
	lazy bool // Nodes/From/To report Len() == -1
}

func (o *ordBase) freeze() {
	o.all = o.sorted(o.g.Nodes())
	o.adj = make(map[int64][]graph.Node, len(o.all))
	for _, n := range o.all {
		o.adj[n.ID()] = o.sorted(o.g.From(n.ID()))
	}
}

func fresh(ns []graph.Node) graph.Nodes {
	if len(ns) == 0 {
		return graph.Empty
	}
	return iterator.NewOrderedNodes(append([]graph.Node(nil), ns...))
}

func (o ordBase) sorted(it graph.Nodes) []graph.Node {
	ns := graph.NodesOf(it)
	out := make([]graph.Node, 0, len(ns))
	for _, x := range ns {
		r := o.pos[x.ID()]
		k := len(out)
		out = append(out, x)
		for k > 0 && o.pos[out[k-1].ID()] > r {
			out[k] = out[k-1]
			k--
		}
		out[k] = x
	}
	return out
}

func (o ordBase) Node(id int64) graph.Node  { return o.g.Node(id) }
func (o ordBase) Nodes() graph.Nodes        { return o.iter(o.all) }
func (o ordBase) From(id int64) graph.Nodes { return o.iter(o.adj[id]) }

// iter hands out an exact-length iterator or, for the lazy container, one of
// indeterminate length over the same nodes in the same order.
func (o ordBase) iter(ns []graph.Node) graph.Nodes {
	if o.lazy {
		return &lazyNodes{nodes: append([]graph.Node(nil), ns...)}
	}
	return fresh(ns)
}
func (o ordBase) HasEdgeBetween(xid, yid int64) bool { return o.g.HasEdgeBetween(xid, yid) }
func (o ordBase) Edge(uid, vid int64) graph.Edge     { return o.g.Edge(uid, vid) }

// ordUnd is an unweighted undirected ordered graph.
type ordUnd struct{ ordBase }

func (o ordUnd) EdgeBetween(xid, yid int64) graph.Edge {
	return o.g.(graph.Undirected).EdgeBetween(xid, yid)
}

// ordDir is an unweighted directed ordered graph.
type ordDir struct {
	ordBase
	d graph.Directed
}

func (o ordDir) HasEdgeFromTo(uid, vid int64) bool { return o.d.HasEdgeFromTo(uid, vid) }
func (o ordDir) To(id int64) graph.Nodes           { return o.iter(o.sorted(o.d.To(id))) }

// ordWDir is a weighted directed ordered graph.
type ordWDir struct {
	ordDir
	w graph.Weighted
}

func (o ordWDir) Weight(xid, yid int64) (float64, bool)          { return o.w.Weight(xid, yid) }
func (o ordWDir) WeightedEdge(uid, vid int64) graph.WeightedEdge { return o.w.WeightedEdge(uid, vid) }

// ordWUnd is a weighted undirected ordered graph.
type ordWUnd struct {
	ordBase
	w graph.WeightedUndirected
}

func (o ordWUnd) Weight(xid, yid int64) (float64, bool)          { return o.w.Weight(xid, yid) }
func (o ordWUnd) WeightedEdge(uid, vid int64) graph.WeightedEdge { return o.w.WeightedEdge(uid, vid) }
func (o ordWUnd) EdgeBetween(xid, yid int64) graph.Edge          { return o.w.WeightedEdgeBetween(xid, yid) }
func (o ordWUnd) WeightedEdgeBetween(xid, yid int64) graph.WeightedEdge {
	return o.w.WeightedEdgeBetween(xid, yid)
}

var (
	_ graph.Directed           = ordDir{}
	_ graph.WeightedDirected   = ordWDir{}
	_ graph.Undirected         = ordUnd{}
	_ graph.WeightedUndirected = ordWUnd{}
)

// graphSpace describes one enumerated family of graphs.
type graphSpace struct {
	n                  int
	directed, weighted bool
	stride, offset     int  // graph indices offset, offset+stride, ...
	rotate             bool // one rotating ID map per graph even when the space is complete
	noMulti            bool // simple containers only (routines documented for simple graphs)
	self               float64
	alpha              []float64 // weight alphabet of a weighted space (nil: {1,2})
	zeroOut            bool      // the out-weights of node idx mod n are set to zero
	large              bool      // enumerated by the "-large" twin of the group (second phase)
	sub                bool      // PageRank: a rotating subset of the damping x tolerance grid
}

func (s graphSpace) alphabet() []float64 {
	if s.alpha != nil {
		return s.alpha
	}
	return alphaFor(s.weighted)
}

func (s graphSpace) count() int {
	return ipow(len(s.alphabet())+1, len(pairs(s.n, s.directed)))
}

func (s graphSpace) spec(idx int) *spec {
	sp := mkSpecAlpha(s.n, s.directed, s.weighted, s.alphabet(), idx)
	sp.self = s.self
	if s.zeroOut && s.n > 0 {
		sp.zeroOut(idx % s.n)
	}
	return sp
}

func (s graphSpace) name() string {
	k := "u"
	if s.directed {
		k = "d"
	}
	w := ""
	if s.weighted {
		w = "w"
	}
	if s.self != 0 {
		w += fmt.Sprintf("s%v", s.self)
	}
	if s.alpha != nil {
		w += "a"
		for _, x := range s.alpha {
			w += fmt.Sprint(x)
		}
	}
	if s.zeroOut {
		w += "o"
	}
	return fmt.Sprintf("%s%s%d", k, w, s.n)
}

// forGraphs calls f for every graph of the space with the ID map, iteration
// order and container to use: with all, every ID map (order and container
// rotate with the graph index and the ID map, so that every graph meets both
// containers); otherwise a single combination that rotates with the graph
// index.
func forGraphs(s graphSpace, all bool, f func(key string, mk func() *built)) {
	total := s.count()
	stride := s.stride
	if stride == 0 {
		stride = 1
	}
	for idx := s.offset; idx < total; idx += stride {
		idx := idx
		kinds := []int{idx % 3}
		if all {
			kinds = []int{0, 1, 2}
		}
		if s.n <= 1 && !all {
			kinds = []int{0}
		}
		for _, idKind := range kinds {
			idKind := idKind
			order := (idx/3 + idKind) % nOrders
			cont := (idx/9 + idKind) % nContainers
			if s.noMulti || s.self != 0 {
				// simple containers only: exact-length and lazy iterators alternate
				cont = []int{contSimple, contLazy}[(idx/9+idKind)%2]
			}
			key := fmt.Sprintf("%s#%d %s %s %s", s.name(), idx, idMapNames[idKind], orderNames[order], contNames[cont])
			f(key, func() *built { return build(s.spec(idx), idKind, order, cont) })
		}
	}
}

// Every group is split in two: the small, completely enumerated spaces come
// first for all groups ("core"), the big spaces afterwards ("<group>-large"),
// so that a run that is cut by the deadline on a loaded machine has still
// exercised every routine.
func eachSpace(g *vlib.G, large bool, spaces []graphSpace, f func(s graphSpace, key string, mk func() *built)) {
	for _, s := range spaces {
		if s.large != large {
			continue
		}
		s := s
		forGraphs(s, s.stride <= 1 && !s.rotate, func(key string, mk func() *built) { f(s, key, mk) })
		if g.Stopped() {
			return
		}
	}
}

func phases(gen func(g *vlib.G, large bool)) (core, large func(g *vlib.G)) {
	return func(g *vlib.G) { gen(g, false) }, func(g *vlib.G) { gen(g, true) }
}
