package main

// Differential check of the iterator-length contract: graph.Iterator allows
// Len() < 0 ("unknown, too large to materialize or too costly to
// calculate"), and several routines have separate code for that case. Every
// C15 routine is run on the exact-length container and on the lazy one (same
// nodes, same order, Len() == -1 until exhausted); the results must be
// identical, bit for bit. The definitional oracles of the other groups see the
// lazy container as well (it is part of the container rotation); this group
// is the thin, class-complete version: every routine, every small graph.

import (
	"fmt"
	"math/rand/v2"
	"sort"
	"strings"

	"gonum.org/v1/gonum/graph"
	"gonum.org/v1/gonum/graph/community"
	"gonum.org/v1/gonum/graph/network"
	"gonum.org/v1/gonum/graph/path"
	"gonum.org/v1/gonum/graph/spectral"
	"gonum.org/v1/gonum/internal/verif/vlib"
	"gonum.org/v1/gonum/internal/verif/vrand"
)

func fmtNodeMap(m map[int64]float64) string {
	keys := make([]int64, 0, len(m))
	for k := range m {
		keys = append(keys, k)
	}
	sort.Slice(keys, func(i, j int) bool { return keys[i] < keys[j] })
	var b strings.Builder
	for _, k := range keys {
		fmt.Fprintf(&b, "%d:%v ", k, m[k])
	}
	return b.String()
}

func fmtEdgeMap(m map[[2]int64]float64) string {
	keys := make([][2]int64, 0, len(m))
	for k := range m {
		keys = append(keys, k)
	}
	sort.Slice(keys, func(i, j int) bool {
		if keys[i][0] != keys[j][0] {
			return keys[i][0] < keys[j][0]
		}
		return keys[i][1] < keys[j][1]
	})
	var b strings.Builder
	for _, k := range keys {
		fmt.Fprintf(&b, "%v:%v ", k, m[k])
	}
	return b.String()
}

func fmtComms(cs [][]graph.Node) string {
	var parts []string
	for _, c := range cs {
		ids := make([]int64, len(c))
		for i, n := range c {
			ids[i] = n.ID()
		}
		sort.Slice(ids, func(i, j int) bool { return ids[i] < ids[j] })
		parts = append(parts, fmt.Sprint(ids))
	}
	sort.Strings(parts)
	return strings.Join(parts, " ")
}

func fmtLaplacian(b *built, l spectral.Laplacian) string {
	var sb strings.Builder
	for _, u := range b.ids {
		for _, v := range b.ids {
			fmt.Fprintf(&sb, "%v ", l.At(l.Index[u], l.Index[v]))
		}
	}
	return sb.String()
}

// runEverything calls every routine of the property on b and returns the
// results as canonical strings keyed by the call.
func runEverything(t *vlib.T, b *built) map[string]string {
	sp := b.sp
	out := map[string]string{}
	try := func(name string, f func() string) {
		defer func() {
			if r := recover(); r != nil {
				out[name] = fmt.Sprintf("panic: %v", r)
			}
		}()
		out[name] = f()
	}
	if d, ok := b.g.(graph.Directed); ok {
		if sp.n > 0 {
			try("PageRank", func() string { vrand.Reset(nil); return fmtNodeMap(network.PageRank(d, 0.85, 1e-8)) })
			try("PageRankSparse", func() string { vrand.Reset(nil); return fmtNodeMap(network.PageRankSparse(d, 0.85, 1e-8)) })
		}
		if sp.edges() > 0 || sp.n == 0 || !hitsHangs {
			try("HITS", func() string {
				var sb strings.Builder
				var ha map[int64]network.HubAuthority
				if sp.edges() > 0 || sp.n == 0 {
					ha = network.HITS(d, 1e-10)
				} else {
					var ok bool
					if ha, ok = hitsGuarded(t, d, 1e-10); !ok {
						return "no termination"
					}
				}
				for _, id := range b.ids {
					fmt.Fprintf(&sb, "%d:%v ", id, ha[id])
				}
				return sb.String()
			})
		}
	}
	try("Betweenness", func() string { return fmtNodeMap(network.Betweenness(b.g)) })
	try("EdgeBetweenness", func() string { return fmtEdgeMap(network.EdgeBetweenness(b.g)) })
	var p path.AllShortest
	try("DijkstraAllPaths", func() string {
		p = path.DijkstraAllPaths(b.g)
		var sb strings.Builder
		for _, u := range b.ids {
			for _, v := range b.ids {
				fmt.Fprintf(&sb, "%v ", p.Weight(u, v))
			}
		}
		return sb.String()
	})
	if wg, ok := b.g.(graph.Weighted); ok {
		try("BetweennessWeighted", func() string { return fmtNodeMap(network.BetweennessWeighted(wg, p)) })
		try("EdgeBetweennessWeighted", func() string { return fmtEdgeMap(network.EdgeBetweennessWeighted(wg, p)) })
	}
	try("Closeness", func() string { return fmtNodeMap(network.Closeness(b.g, p)) })
	try("Farness", func() string { return fmtNodeMap(network.Farness(b.g, p)) })
	try("Harmonic", func() string { return fmtNodeMap(network.Harmonic(b.g, p)) })
	try("Residual", func() string { return fmtNodeMap(network.Residual(b.g, p)) })
	try("Eccentricity", func() string { return fmtNodeMap(network.Eccentricity(b.g, p)) })
	if sp.n > 0 {
		h := map[int64]float64{}
		for i, id := range b.ids {
			h[id] = float64(i) - 0.75
		}
		diffuse := func(name string, l spectral.Laplacian) {
			try(name, func() string { return fmtLaplacian(b, l) })
			try("Diffuse/"+name, func() string { return fmtNodeMap(network.Diffuse(nil, h, l, 0.5)) })
			try("DiffuseToEquilibrium/"+name, func() string {
				m, ok := network.DiffuseToEquilibrium(nil, h, l, 1.0/(1<<20), 20)
				return fmt.Sprint(ok, " ", fmtNodeMap(m))
			})
		}
		if u, ok := b.g.(graph.Undirected); ok {
			diffuse("NewLaplacian", spectral.NewLaplacian(u))
			diffuse("NewSymNormLaplacian", spectral.NewSymNormLaplacian(u))
		}
		diffuse("NewRandomWalkLaplacian", spectral.NewRandomWalkLaplacian(b.g, 0.25))
	}
	for pi, comm := range partitions(sp.n) {
		if pi%3 != 0 {
			continue
		}
		comm := comm
		try(fmt.Sprintf("Q%v", comm), func() string { return fmt.Sprint(community.Q(b.g, commsOf(b.ids, comm, pi), 2)) })
	}
	try("Q(nil)", func() string { return fmt.Sprint(community.Q(b.g, nil, 0.5)) })
	for _, gamma := range resolutions {
		gamma := gamma
		try(fmt.Sprintf("Modularize(%v)", gamma), func() string {
			r := community.Modularize(b.g, gamma, rand.NewPCG(1, 2))
			s := fmt.Sprintf("size=%v weight=%v", community.Size(r), community.Weight(r))
			for r != nil && !isNilReduced(r) {
				s += " | " + fmtComms(r.Communities())
				r = r.Expanded()
			}
			return s
		})
	}
	multiplex := func() community.Multiplex {
		if d, ok := b.g.(graph.Directed); ok {
			m, _ := community.NewDirectedLayers(d, d)
			return m
		}
		m, _ := community.NewUndirectedLayers(b.g.(graph.Undirected), b.g.(graph.Undirected))
		return m
	}
	try("QMultiplex", func() string {
		single := make([]int, sp.n)
		return fmt.Sprint(community.QMultiplex(multiplex(), commsOf(b.ids, single, 0), []float64{1, 0.5}, []float64{0.5, 2}))
	})
	try("ModularizeMultiplex", func() string {
		r := community.ModularizeMultiplex(multiplex(), []float64{1, 0.5}, []float64{0.5, 2}, false, rand.NewPCG(3, 4))
		return fmt.Sprintf("size=%v weight=%v %s", community.SizeMultiplex(r), community.WeightMultiplex(r), fmtComms(r.Communities()))
	})
	if u, ok := b.g.(graph.Undirected); ok {
		for k := 1; k <= 4; k++ {
			k := k
			try(fmt.Sprintf("KCliqueCommunities(%d)", k), func() string { return fmtComms(community.KCliqueCommunities(k, u)) })
		}
	}
	if sp.totalWeight() > 0 {
		try("Profile", func() string {
			pr, err := community.Profile(community.ModularScore(b.g, community.Size, 2, rand.NewPCG(5, 6)), false, 0.25, 0.25, 4)
			s := fmt.Sprint(err)
			for _, iv := range pr {
				s += fmt.Sprintf(" [%v,%v)=%v %s", iv.Low, iv.High, iv.Score, fmtComms(iv.Reduced.Communities()))
			}
			return s
		})
	}
	return out
}

func genLazyIterators(g *vlib.G) {
	for _, s := range []graphSpace{
		{n: 0}, {n: 1}, {n: 2}, {n: 3}, {n: 4}, {n: 3, weighted: true}, {n: 3, weighted: true, alpha: alpha012},
		{n: 0, directed: true}, {n: 1, directed: true}, {n: 2, directed: true}, {n: 3, directed: true},
		{n: 2, directed: true, weighted: true, alpha: alpha012},
		{n: 3, directed: true, weighted: true, stride: vlib.Pick(g, 3, 1), offset: 1},
		{n: 4, weighted: true, stride: vlib.Pick(g, 7, 1), offset: 2},
		{n: 5, stride: vlib.Pick(g, 11, 1), offset: 3},
		{n: 4, directed: true, stride: vlib.Pick(g, 37, 3), offset: 5},
	} {
		s := s
		stride := max(s.stride, 1)
		for idx := s.offset; idx < s.count(); idx += stride {
			idx := idx
			idKind, order := idx%3, (idx/3)%nOrders
			g.Case(fmt.Sprintf("%s#%d %s %s", s.name(), idx, idMapNames[idKind], orderNames[order]), func(t *vlib.T) {
				exact := runEverything(t, build(s.spec(idx), idKind, order, contSimple))
				lazy := runEverything(t, build(s.spec(idx), idKind, order, contLazy))
				calls := 0
				for _, name := range vlib.SortedKeys(exact) {
					calls++
					if exact[name] != lazy[name] {
						t.Failf("%s on %s: exact-length iterators give %s, iterators with Len() == -1 give %s", name, s.spec(idx), exact[name], lazy[name])
					}
				}
				if len(lazy) != len(exact) {
					t.Failf("%d results with exact-length iterators, %d with Len() == -1", len(exact), len(lazy))
				}
				t.Count("routine_pairs_compared", int64(calls))
				if s.n >= 2 {
					t.Nontrivial()
				}
				t.Outcome(fmt.Sprintf("%s routines=%d", s.name(), calls))
				t.Detail(map[string]any{"graph": s.spec(idx).String()})
			})
		}
	}
}
