package main

// Consistency of the composite values returned by Profile and the score
// functions: every Interval's Score and Reduced must come from the same
// evaluation of fn, whatever retries the bisection needed. The retry loops of
// bisect (low end, mid point, lower/higher neighbours) only run when an
// evaluation is "unlucky", i.e. scores lower than a later evaluation at the
// same resolution, which a deterministic monotone fn never is.

import (
	"fmt"
	"math"
	"math/rand/v2"

	"gonum.org/v1/gonum/graph/community"
	"gonum.org/v1/gonum/internal/verif/vlib"
	"gonum.org/v1/gonum/internal/verif/vrand"
)

// unlucky patterns: which evaluations of the scripted fn return a score that
// is pen lower than the true one (with a Reduced tagged with that lower score).
var unluckyPatterns = []string{"first-at-low", "first-at-each-x", "first-two-at-each-x", "every-2nd-call", "every-3rd-call", "first-at-non-low"}

func genProfileConsistency(g *vlib.G) {
	for _, logSpace := range []bool{false, true} {
		for _, grain := range []float64{0.5, 0.25} {
			for mask := 1; mask < 1<<len(profileBreaks); mask++ {
				var bs []float64
				for i, b := range profileBreaks {
					if mask>>i&1 == 1 {
						bs = append(bs, b)
					}
				}
				if len(bs) > 3 {
					continue
				}
				for _, pat := range unluckyPatterns {
					for _, pen := range []float64{0.5, 5} {
						logSpace, grain, bs, pat, pen := logSpace, grain, bs, pat, pen
						g.Case(fmt.Sprintf("unlucky %s pen=%v log=%v grain=%v breaks=%v", pat, pen, logSpace, grain, bs), func(t *vlib.T) {
							low, high := 1.0, 8.0
							pos := func(x float64) float64 { return x }
							if logSpace {
								high = 256
								pos = func(x float64) float64 { return math.Exp2(x) }
							}
							calls := 0
							at := map[float64]int{}
							retried := false
							fn := func(x float64) (float64, community.Reduced) {
								s := float64(len(bs))
								for _, b := range bs {
									if x >= pos(b) {
										s--
									}
								}
								calls++
								at[x]++
								if at[x] > 1 {
									retried = true
								}
								bad := false
								switch pat {
								case "first-at-low":
									bad = x == low && at[x] == 1
								case "first-at-each-x":
									bad = at[x] == 1
								case "first-two-at-each-x":
									bad = at[x] <= 2
								case "every-2nd-call":
									bad = calls%2 == 0
								case "every-3rd-call":
									bad = calls%3 == 0
								case "first-at-non-low":
									bad = x != low && at[x] == 1
								}
								if bad {
									s -= pen
								}
								return s, tag{x, s}
							}
							p, err := community.Profile(fn, logSpace, grain, low, high)
							t.Count("fn_evaluations", int64(calls))
							t.Nontrivial()
							if err != nil {
								// "Profile will attempt to detect non-monotonicity": an error is a legal answer
								t.Outcome(fmt.Sprintf("%s error retried=%v", pat, retried))
								return
							}
							if msg := checkProfileShape(p, low, high); msg != "" {
								t.Failf("Profile: %s; profile %+v", msg, p)
								return
							}
							for i, iv := range p {
								tg := iv.Reduced.(tag)
								if tg.score != iv.Score {
									t.Failf("interval %d [%v,%v): Score %v but its Reduced comes from an evaluation at %v that scored %v: Score and Reduced are from different evaluations", i, iv.Low, iv.High, iv.Score, tg.x, tg.score)
								}
							}
							t.Outcome(fmt.Sprintf("%s intervals=%d retried=%v", pat, min(len(p), 4), retried))
						})
					}
				}
			}
		}
	}
}

// genProfileLouvain: the same consistency on real Louvain score functions.
func genProfileLouvain(g *vlib.G) {
	for _, s := range []graphSpace{{n: 1}, {n: 2}, {n: 3}, {n: 4}, {n: 3, weighted: true, stride: 2}, {n: 2, directed: true}, {n: 3, directed: true, stride: 2},
		{n: 4, weighted: true, stride: vlib.Pick(g, 23, 1), offset: vlib.Pick(g, 5, 0), rotate: true},
		{n: 5, stride: vlib.Pick(g, 13, 1), offset: vlib.Pick(g, 2, 0), rotate: true},
		{n: 4, directed: true, stride: vlib.Pick(g, 61, 5), offset: 7}} {
		forGraphs(s, false, func(key string, mk func() *built) {
			g.Case("louvain "+key, func(t *vlib.T) { checkProfileLouvainConsistency(t, mk(), g.Thorough()) })
		})
	}
}

// checkIntervals: tiling, decreasing scores, and Score == the score of the
// interval's own Reduced recomputed from scratch.
func checkIntervals(t *vlib.T, what string, b *built, p []community.Interval, weight bool, low, high float64) bool {
	if msg := checkProfileShape(p, low, high); msg != "" {
		t.Failf("%s: %s; %+v", what, msg, p)
		return false
	}
	for i, iv := range p {
		want, msg := scoreRef(b, iv.Reduced.Communities(), weight)
		if msg != "" {
			t.Failf("%s interval %d: %s", what, i, msg)
			return false
		}
		if iv.Score != want {
			t.Failf("%s interval %d [%v,%v): Score %v, but its Reduced %v scores %v from scratch: Score and Reduced are from different runs", what, i, iv.Low, iv.High, iv.Score, iv.Reduced.Communities(), want)
			return false
		}
	}
	return true
}

func checkProfileLouvainConsistency(t *vlib.T, b *built, thorough bool) {
	sp := b.sp
	retries, errs, profiles := 0, 0, 0
	for _, weight := range []bool{false, true} {
		score, name := community.Size, "Size"
		if weight {
			score, name = community.Weight, "Weight"
		}
		// (a) ModularScore returns the score together with the structure that achieved it
		for _, effort := range []int{1, 3} {
			fn := community.ModularScore(b.g, score, effort, &budgetSource{src: rand.NewPCG(7, uint64(effort)), left: 50 * drawBudget})
			for _, gamma := range []float64{0.25, 0.5, 1, 2, 4} {
				s, r := fn(gamma)
				want, msg := scoreRef(b, r.Communities(), weight)
				if msg != "" || s != want {
					t.Failf("ModularScore(%s, %s, effort %d)(%v) = %v with a Reduced %v that scores %v from scratch %s", sp, name, effort, gamma, s, r.Communities(), want, msg)
				}
			}
		}
		// (b) an evaluation that is unlucky the first time it is made at a
		// resolution: the modularization is done at 64 times the resolution,
		// which gives the lowest score (singletons); on the domains [0.25,high)
		// with high <= 2 the true score at the high end is usually larger, so
		// that the retry loops of bisect run.
		for li, logSpace := range []bool{false, true, false} {
			high := []float64{1.25, 2, 0.75}[li]
			inner := community.ModularScore(b.g, score, 1, &budgetSource{src: rand.NewPCG(3, 4), left: 50 * drawBudget})
			at := map[float64]int{}
			fn := func(x float64) (float64, community.Reduced) {
				at[x]++
				if at[x] > 1 {
					retries++
					return inner(x)
				}
				return inner(64 * x)
			}
			p, err := community.Profile(fn, logSpace, 0.25, 0.25, high)
			profiles++
			if err != nil {
				errs++
				continue
			}
			if !checkIntervals(t, fmt.Sprintf("Profile(first evaluation at 64x the resolution; ModularScore(%s, %s), log=%v, [0.25,%v))", sp, name, logSpace, high), b, p, weight, 0.25, high) {
				return
			}
		}
		// (c) effort 1 with several explicit sources: whatever non-monotonicity the
		// randomised Louvain produces by itself
		seeds := 4
		if thorough {
			seeds = 12
		}
		for seed := 1; seed <= seeds; seed++ {
			inner := community.ModularScore(b.g, score, 1, &budgetSource{src: rand.NewPCG(uint64(seed), 99), left: 50 * drawBudget})
			at := map[float64]int{}
			fn := func(x float64) (float64, community.Reduced) {
				at[x]++
				if at[x] > 1 {
					retries++
				}
				return inner(x)
			}
			p, err := community.Profile(fn, seed%2 == 0, 0.25, 0.25, 4)
			profiles++
			if err != nil {
				errs++
				continue
			}
			if !checkIntervals(t, fmt.Sprintf("Profile(ModularScore(%s, %s, effort 1, PCG(%d,99)))", sp, name, seed), b, p, weight, 0.25, 4) {
				return
			}
		}
	}
	// (d) the nil source: package-level rand.IntN through the seam, every
	// sequence of shuffle answers with at most one deviation (capped)
	if sp.n >= 3 && sp.n <= 4 && sp.totalWeight() > 0 {
		var p []community.Interval
		var err error
		runs, _, ans, msg := vrand.Explore(func() {
			p, err = community.Profile(community.ModularScore(b.g, community.Size, 1, nil), false, 0.5, 0.25, 4)
		}, 1, 8, 60, func() string {
			profiles++
			if err != nil {
				errs++
				return ""
			}
			if msg := checkProfileShape(p, 0.25, 4); msg != "" {
				return msg
			}
			for i, iv := range p {
				want, m := scoreRef(b, iv.Reduced.Communities(), false)
				if m != "" || iv.Score != want {
					return fmt.Sprintf("interval %d [%v,%v): Score %v, its Reduced %v scores %v from scratch %s", i, iv.Low, iv.High, iv.Score, iv.Reduced.Communities(), want, m)
				}
			}
			return ""
		})
		t.Count("shuffle_sequences", int64(runs))
		if msg != "" {
			t.Failf("Profile(ModularScore(%s, Size, effort 1, nil source), shuffle answers %v): %s", sp, ans, msg)
		}
	}
	t.Count("profiles", int64(profiles))
	t.Nontrivial()
	t.Outcome(fmt.Sprintf("n=%d retries=%v errors=%v", sp.n, retries > 0, errs > 0))
	t.Detail(map[string]any{"graph": sp.String(), "ids": b.ids})
}
