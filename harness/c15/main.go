// Harness C15: network measures and community detection equal their
// defining formulas.
package main

import (
	"runtime/debug"

	"gonum.org/v1/gonum/internal/verif/vlib"
)

func main() {
	debug.SetGCPercent(1600)
	type ph struct {
		name string
		gen  func(g *vlib.G, large bool)
	}
	phased := []ph{
		{"pagerank", genPageRank}, {"hits", genHITS}, {"betweenness", genBetweenness}, {"distance", genDistance},
		{"laplacian", genLaplacian}, {"diffuse", genDiffuse}, {"q", genQ}, {"qmultiplex", genQMultiplex},
		{"louvain", genLouvain}, {"louvain-multiplex", genLouvainMultiplex}, {"kclique", genKClique},
	}
	var groups []vlib.Group
	// first phase: the small, completely enumerated spaces of every group
	for _, p := range phased {
		core, _ := phases(p.gen)
		groups = append(groups, vlib.Group{Name: p.name, Gen: core})
	}
	groups = append(groups,
		vlib.Group{Name: "laplacian-self-edge", Gen: genLaplacianSelfEdge},
		vlib.Group{Name: "negative-weight", Gen: genNegativeWeight},
		vlib.Group{Name: "lazy-iterators", Gen: genLazyIterators},
		vlib.Group{Name: "profile", Gen: genProfile},
		vlib.Group{Name: "profile-consistency", Gen: genProfileConsistency},
		vlib.Group{Name: "profile-louvain", Gen: genProfileLouvain},
		vlib.Group{Name: "profile-multiplex", Gen: genProfileMultiplex},
		vlib.Group{Name: "expanded-chain", Gen: genExpandedNil})
	// second phase: the big spaces
	for _, p := range phased {
		_, large := phases(p.gen)
		groups = append(groups, vlib.Group{Name: p.name + "-large", Gen: large})
	}
	vlib.Main("C15", groups...)
}
