// Harness C15: network measures and community detection equal their
// defining formulas.
package main

import (
	"runtime/debug"

	"gonum.org/v1/gonum/internal/verif/vlib"
)

func main() {
	debug.SetGCPercent(1600)
	vlib.Main("C15",
		vlib.Group{Name: "pagerank", Gen: genPageRank},
		vlib.Group{Name: "hits", Gen: genHITS},
		vlib.Group{Name: "betweenness", Gen: genBetweenness},
		vlib.Group{Name: "distance", Gen: genDistance},
		vlib.Group{Name: "laplacian", Gen: genLaplacian},
		vlib.Group{Name: "laplacian-self-edge", Gen: genLaplacianSelfEdge},
		vlib.Group{Name: "diffuse", Gen: genDiffuse},
		vlib.Group{Name: "q", Gen: genQ},
		vlib.Group{Name: "qmultiplex", Gen: genQMultiplex},
		vlib.Group{Name: "louvain", Gen: genLouvain},
		vlib.Group{Name: "louvain-multiplex", Gen: genLouvainMultiplex},
		vlib.Group{Name: "kclique", Gen: genKClique},
		vlib.Group{Name: "profile", Gen: genProfile},
		vlib.Group{Name: "profile-multiplex", Gen: genProfileMultiplex},
		vlib.Group{Name: "expanded-chain", Gen: genExpandedNil},
		vlib.Group{Name: "hits-edgeless", Gen: genHITSEdgeless}, // must stay last, see genHITSEdgeless
	)
}
