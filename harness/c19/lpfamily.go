package main

import (
	"fmt"
	"math"

	"gonum.org/v1/gonum/internal/verif/vlib"
	"gonum.org/v1/gonum/mat"
	"gonum.org/v1/gonum/optimize/convex/lp"
)

type namedLP struct {
	name string
	m, n int
	a    []float64
	b, c []float64
}

func degenerateFamily() []namedLP {
	return []namedLP{
		{"Beale", 3, 7, []float64{
			1, 0, 0, 0.25, -8, -1, 9,
			0, 1, 0, 0.5, -12, -0.5, 3,
			0, 0, 1, 0, 0, 1, 0},
			[]float64{0, 0, 1}, []float64{0, 0, 0, -0.75, 20, -0.5, 6}},
		{"Kuhn", 3, 7, []float64{
			1, 0, 0, -2, -9, 1, 9,
			0, 3, 0, 1, 3, -1, -6,
			0, 0, 1, 2, 3, -1, -12},
			[]float64{0, 0, 2}, []float64{0, 0, 0, -2, -3, 1, 12}},
		{"KleeMinty3", 3, 6, []float64{
			1, 0, 0, 1, 0, 0,
			4, 1, 0, 0, 1, 0,
			8, 4, 1, 0, 0, 1},
			[]float64{5, 25, 125}, []float64{-4, -2, -1, 0, 0, 0}},
	}
}

func permutations(n int, f func(p []int)) {
	p := make([]int, n)
	for i := range p {
		p[i] = i
	}
	var rec func(k int)
	rec = func(k int) {
		if k == n {
			f(p)
			return
		}
		for i := k; i < n; i++ {
			p[k], p[i] = p[i], p[k]
			rec(k + 1)
			p[k], p[i] = p[i], p[k]
		}
	}
	rec(0)
}

// runProgram checks one program with and without every feasible initial basis.
func runProgram(t *vlib.T, gd *lpGuard, st *lpStats, m, n int, a, b, c []float64, s *stdMatrix, sweep bool) {
	ans := s.solve(b, c, sweep)
	optF, x, err, pan := callSimplex(gd, c, m, n, a, b, nil)
	oc, vclass, msg := judgeSimplex(s, a, b, c, &ans, optF, x, err, pan)
	st.n[oc]++
	t.Count("lp_programs", 1)
	if err != nil && isNumericFailure(err) && len(st.numeric) < 5 {
		st.numeric = append(st.numeric, fmt.Sprintf("%v: %s", err, fmtProg(m, n, a, b, c)))
	}
	if msg != "" {
		report(t, " "+fmtProg(m, n, a, b, c), vclass, nil, "%s [%s; exact: %v%s]", msg, fmtProg(m, n, a, b, c), ans.class, optStr(&ans))
	}
	if sweep && ans.precondOK && m < n {
		for _, basis := range ans.feasible {
			optF, x, err, pan := callSimplex(gd, c, m, n, a, b, basis)
			oc, vclass, msg := judgeSimplex(s, a, b, c, &ans, optF, x, err, pan)
			st.n["basis:"+oc]++
			t.Count("lp_initial_basis_runs", 1)
			if msg != "" {
				report(t, fmt.Sprintf(" %s initialBasic=%v", fmtProg(m, n, a, b, c), basis), vclass, nil, "with initialBasic=%v: %s [%s; exact: %v%s]", basis, msg, fmtProg(m, n, a, b, c), ans.class, optStr(&ans))
			}
		}
	}
}

// genLPFamily: the classical degenerate / cycling / exponential examples under
// every column permutation (Bland's rule and the initial-basis search depend on
// the column order), and assignment polytopes.
func genLPFamily(g *vlib.G) {
	g.Case("classical examples in textbook column order", func(t *vlib.T) {
		st := newLPStats()
		runGuarded(t, func(gd *lpGuard) {
			for _, p := range degenerateFamily() {
				runProgram(t, gd, st, p.m, p.n, p.a, p.b, p.c, newStdMatrix(p.m, p.n, p.a), true)
			}
		})
		st.flush(t)
	})
	for _, p := range degenerateFamily() {
		p := p
		if p.name == "Kuhn" && !g.Thorough() {
			// Column permutations of Kuhn's example make lp.Simplex cycle for ever (known
			// finding lp-simplex-cycling-kuhn-variant, exercised by group lp-cycling); every
			// hang costs hangCPU seconds and cuts its case short, so the permutations of
			// this example are left to the thorough tier.
			continue
		}
		// one case per choice of the first column
		for first := 0; first < p.n; first++ {
			first := first
			g.Case(fmt.Sprintf("%s all column permutations with column %d first", p.name, first), func(t *vlib.T) {
				st := newLPStats()
				runGuarded(t, func(gd *lpGuard) {
					permutations(p.n, func(perm []int) {
						if perm[0] != first {
							return
						}
						a := make([]float64, p.m*p.n)
						c := make([]float64, p.n)
						for j, src := range perm {
							c[j] = p.c[src]
							for i := 0; i < p.m; i++ {
								a[i*p.n+j] = p.a[i*p.n+src]
							}
						}
						runProgram(t, gd, st, p.m, p.n, a, p.b, c, newStdMatrix(p.m, p.n, a), true)
					})
				})
				st.flush(t)
			})
		}
	}
	// assignment polytope k x k: rows = row sums and column sums (one redundant).
	for _, k := range []int{2, 3} {
		k := k
		n := k * k
		full := make([]float64, 2*k*n)
		for i := 0; i < k; i++ {
			for j := 0; j < k; j++ {
				full[i*n+i*k+j] = 1     // row sum i
				full[(k+j)*n+i*k+j] = 1 // column sum j
			}
		}
		for _, drop := range []int{-1, 0, 2*k - 1} {
			drop := drop
			m := 2 * k
			a := full
			if drop >= 0 {
				m = 2*k - 1
				a = make([]float64, 0, m*n)
				for i := 0; i < 2*k; i++ {
					if i != drop {
						a = append(a, full[i*n:(i+1)*n]...)
					}
				}
			}
			name := fmt.Sprintf("assignment %dx%d ", k, k)
			if drop < 0 {
				name += "all equations (rank deficient)"
			} else {
				name += fmt.Sprintf("equation %d dropped", drop)
			}
			calpha := []float64{0, 1}
			if k == 2 {
				calpha = []float64{-1, 0, 1, 2}
			}
			nc := ipow(len(calpha), n)
			parts := 1
			if k == 3 {
				parts = 8
			}
			for part := 0; part < parts; part++ {
				part := part
				key := name
				if parts > 1 {
					key += fmt.Sprintf(" costs part %d/%d", part, parts)
				}
				g.Case(key, func(t *vlib.T) {
					st := newLPStats()
					s := newStdMatrix(m, n, a)
					b := make([]float64, m)
					for i := range b {
						b[i] = 1
					}
					c := make([]float64, n)
					runGuarded(t, func(gd *lpGuard) {
						for ci := part; ci < nc; ci += parts {
							digits(ci, len(calpha), n, calpha, c)
							runProgram(t, gd, st, m, n, a, b, c, s, drop >= 0 && (k == 2 || ci%16 == 0))
						}
					})
					st.flush(t)
				})
			}
		}
	}
}

// ---------------------------------------------------------------- Convert

type convSpace struct {
	nv, p, q int
	hAlpha   []float64
	bAlpha   []float64
}

func convSpaces(th bool) []convSpace {
	h := []float64{-1, 0, 1, 2}
	b := []float64{-1, 0, 1}
	var out []convSpace
	for nv := 1; nv <= 2; nv++ {
		for p := 0; p <= 2; p++ {
			for q := 0; q <= 1; q++ {
				if p+q == 0 {
					continue
				}
				out = append(out, convSpace{nv, p, q, h, b})
			}
		}
	}
	if th {
		out = append(out,
			convSpace{2, 3, 0, []float64{-1, 1, 2}, b},
			convSpace{2, 2, 2, []float64{0, 1}, []float64{0, 1}},
			convSpace{3, 2, 1, []float64{0, 1}, []float64{0, 1}},
			convSpace{3, 3, 0, []float64{1}, b},
		)
	}
	return out
}

// genLPConvert: lp.Convert of small general-form programs
// min c'x, Gx <= h, Ax = b (x free) produces exactly [c,-c,0], [G,-G,I;A,-A,0],
// [h;b], and Simplex on the converted program has the optimum of the general
// form (computed by an independent exact enumeration).
func genLPConvert(g *vlib.G) {
	q3 := []float64{-1, 0, 1}
	for _, sp := range convSpaces(g.Thorough()) {
		sp := sp
		nG := ipow(3, sp.p*sp.nv)
		nA := ipow(3, sp.q*sp.nv)
		// one case per (G index block): blocks of the G matrices
		blocks := nG
		if blocks > 81 {
			blocks = 81
		}
		for blk := 0; blk < blocks; blk++ {
			blk := blk
			g.Case(fmt.Sprintf("vars=%d ineq=%d eq=%d h in %v b in %v block %d/%d", sp.nv, sp.p, sp.q, sp.hAlpha, sp.bAlpha, blk, blocks), func(t *vlib.T) {
				st := newLPStats()
				G := make([]float64, sp.p*sp.nv)
				A := make([]float64, sp.q*sp.nv)
				h := make([]float64, sp.p)
				b := make([]float64, sp.q)
				c := make([]float64, sp.nv)
				nh, nb, nc := ipow(len(sp.hAlpha), sp.p), ipow(len(sp.bAlpha), sp.q), ipow(3, sp.nv)
				runGuarded(t, func(gd *lpGuard) {
					for gi := blk; gi < nG; gi += blocks {
						digits(gi, 3, sp.p*sp.nv, q3, G)
						for ai := 0; ai < nA; ai++ {
							digits(ai, 3, sp.q*sp.nv, q3, A)
							for hi := 0; hi < nh; hi++ {
								digits(hi, len(sp.hAlpha), sp.p, sp.hAlpha, h)
								for bi := 0; bi < nb; bi++ {
									digits(bi, len(sp.bAlpha), sp.q, sp.bAlpha, b)
									for ci := 0; ci < nc; ci++ {
										digits(ci, 3, sp.nv, q3, c)
										convertOne(t, gd, st, &sp, G, h, A, b, c)
									}
								}
							}
						}
					}
				})
				st.flush(t)
			})
		}
	}
}

func convertOne(t *vlib.T, gd *lpGuard, st *lpStats, sp *convSpace, G, h, A, b, c []float64) {
	nv, p, q := sp.nv, sp.p, sp.q
	desc := func() string {
		return fmt.Sprintf("G=%v h=%v A=%v b=%v c=%v (vars=%d)", G, h, A, b, c, nv)
	}
	fail := func(class, format string, a ...any) {
		report(t, " "+desc(), class, nil, "%s [%s]", fmt.Sprintf(format, a...), desc())
	}
	t.Count("lp_convert_programs", 1)
	var gm, am mat.Matrix
	if p > 0 {
		gm = mat.NewDense(p, nv, append([]float64(nil), G...))
	}
	if q > 0 {
		am = mat.NewDense(q, nv, append([]float64(nil), A...))
	}
	var hh, bb []float64
	if p > 0 {
		hh = append([]float64(nil), h...)
	}
	if q > 0 {
		bb = append([]float64(nil), b...)
	}
	cNew, aNew, bNew := lp.Convert(append([]float64(nil), c...), gm, hh, am, bb)
	// 1. the documented shape [c,-c,0], [G,-G,I;A,-A,0], [h;b], bit for bit
	m, n := p+q, 2*nv+p
	wantA := make([]float64, m*n)
	wantC := make([]float64, n)
	wantB := make([]float64, m)
	for j := 0; j < nv; j++ {
		wantC[j], wantC[nv+j] = c[j], -c[j]
	}
	for i := 0; i < p; i++ {
		for j := 0; j < nv; j++ {
			wantA[i*n+j], wantA[i*n+nv+j] = G[i*nv+j], -G[i*nv+j]
		}
		wantA[i*n+2*nv+i] = 1
		wantB[i] = h[i]
	}
	for k := 0; k < q; k++ {
		for j := 0; j < nv; j++ {
			wantA[(p+k)*n+j], wantA[(p+k)*n+nv+j] = A[k*nv+j], -A[k*nv+j]
		}
		wantB[p+k] = b[k]
	}
	r, cc := aNew.Dims()
	if r != m || cc != n || len(cNew) != n || len(bNew) != m {
		fail("convert-shape", "Convert returned shapes A %dx%d, c %d, b %d; want %dx%d", r, cc, len(cNew), len(bNew), m, n)
		return
	}
	got := make([]float64, 0, m*n)
	for i := 0; i < m; i++ {
		for j := 0; j < n; j++ {
			got = append(got, aNew.At(i, j))
		}
	}
	eq := func(x, y []float64) bool {
		for i := range x {
			if x[i] != y[i] { // -0 == 0 is fine here
				return false
			}
		}
		return true
	}
	if !eq(got, wantA) || !eq(cNew, wantC) || !eq(bNew, wantB) {
		fail("convert-form", "Convert returned c=%v A=%v b=%v; want c=%v A=%v b=%v", cNew, got, bNew, wantC, wantA, wantB)
		return
	}
	// 2. the optimum of the general form, by independent exact enumeration
	toRows := func(v []float64, rows int) [][]rat {
		out := make([][]rat, rows)
		for i := range out {
			out[i] = ratVec(v[i*nv : (i+1)*nv])
		}
		return out
	}
	ref := solveGeneral(nv, toRows(G, p), ratVec(h), toRows(A, q), ratVec(b), ratVec(c))
	// preconditions of Simplex on the converted program
	s := newStdMatrix(m, n, wantA, true)
	preOK := s.rank == m && !s.zeroCol
	ans := lpAnswer{class: ref.class, opt: ref.opt, precondOK: preOK}
	optF, x, err, pan := callSimplex(gd, wantC, m, n, wantA, wantB, nil)
	oc, vclass, msg := judgeSimplex(s, wantA, wantB, wantC, &ans, optF, x, err, pan)
	st.n[oc]++
	if msg != "" {
		fail("convert-"+vclass, "Simplex on the converted program: %s (general form is %v%s)", msg, ref.class, optStr(&ans))
		return
	}
	if err == nil {
		// recover x = xp - xn and check it in the general form
		xg := make([]float64, nv)
		for j := range xg {
			xg[j] = x[j] - x[nv+j]
		}
		for i := 0; i < p; i++ {
			var sum float64
			for j := 0; j < nv; j++ {
				sum += G[i*nv+j] * xg[j]
			}
			if !(sum <= h[i]+lpFeasTol*(1+math.Abs(h[i]))) {
				fail("convert-infeasible-point", "recovered x=%v violates inequality %d: %v > %v", xg, i, sum, h[i])
				return
			}
		}
		for k := 0; k < q; k++ {
			var sum float64
			for j := 0; j < nv; j++ {
				sum += A[k*nv+j] * xg[j]
			}
			if !(math.Abs(sum-b[k]) <= lpFeasTol*(1+math.Abs(b[k]))) {
				fail("convert-infeasible-point", "recovered x=%v violates equation %d: %v != %v", xg, k, sum, b[k])
				return
			}
		}
	}
}

// genLPCycling holds the one program on which lp.Simplex is known to cycle for
// ever: Kuhn's example (second row scaled by 3) with its last two columns
// exchanged. It is the last group of the harness so that the abandoned, still
// spinning call competes with no other case for the CPU.
func genLPCycling(g *vlib.G) {
	g.Case("Kuhn's example with columns 5 and 6 exchanged", func(t *vlib.T) {
		a := []float64{
			1, 0, 0, -2, -9, 9, 1,
			0, 3, 0, 1, 3, -6, -1,
			0, 0, 1, 2, 3, -12, -1}
		b := []float64{0, 0, 2}
		c := []float64{0, 0, 0, -2, -3, 12, 1}
		st := newLPStats()
		runGuarded(t, func(gd *lpGuard) {
			runProgram(t, gd, st, 3, 7, a, b, c, newStdMatrix(3, 7, a), false)
		})
		st.flush(t)
		t.Nontrivial()
	})
}
