package main

import (
	"errors"
	"fmt"
	"math"
	"strings"

	"gonum.org/v1/gonum/internal/verif/vlib"
	"gonum.org/v1/gonum/optimize"
)

// Group special: the special objective values -Inf, +Inf and NaN (and special
// gradient entries) at the initial point and at evaluation k, arriving through
// an evaluation and through Settings.InitValues, for every method. Besides the
// result oracle there are definitional expectations for the start of a local
// method (local.go checkStartingLocation and minimize.go
// checkLocationConvergence):
//
//	F(x0) = +Inf or NaN                 -> Failure with ErrFunc(F), nothing reported
//	else a gradient entry Inf/NaN       -> Failure with ErrGrad{that entry, first such index}
//	else F(x0) = -Inf                   -> FunctionNegativeInfinity, nil error, X = x0, F = -Inf, 1 major iteration
//
// and for every method: a reported F = -Inf comes with FunctionNegativeInfinity.

// specialObj is quadBase whose Func returns v at its k-th call (what "f"), or
// whose Grad puts v into entry idx at its k-th call (what "g").
func specialObj(what string, k, idx int, v float64) *objective {
	name := fmt.Sprintf("quad2 %s=%v at call %d", what, v, k)
	if what == "g" {
		name = fmt.Sprintf("quad2 g[%d]=%v at call %d", idx, v, k)
	}
	return &objective{name: name, kind: "gradnan", dim: 2, x0: []float64{3, 2}, mk: func() *objInst {
		nf, ng := 0, 0
		return &objInst{
			f: func(x []float64) float64 {
				nf++
				if what == "f" && nf == k {
					return v
				}
				return quadBaseF(x)
			},
			g: func(g, x []float64) {
				ng++
				quadBaseG(g, x)
				if what == "g" && ng == k {
					g[idx] = v
				}
			},
			h: quadBaseH,
		}
	}}
}

func plainQuad() *objective {
	return &objective{name: "quad2", kind: "gradnan", dim: 2, x0: []float64{3, 2}, mk: func() *objInst {
		return &objInst{f: quadBaseF, g: quadBaseG, h: quadBaseH}
	}}
}

func isSpecial(v float64) bool { return math.IsNaN(v) || math.IsInf(v, 0) }

// startExpectation checks the definitional outcome for the start of a local
// method given the values the method sees at x0 (f0, g0; g0 nil if unused).
func startExpectation(c *runCfg, r *runResult, f0 float64, g0 []float64) string {
	res, err := r.res, r.err
	if res == nil {
		return "nil result"
	}
	empty := res.Stats.MajorIterations == 0 && math.IsInf(res.F, 1) && normInf(res.X) == 0
	switch {
	case math.IsInf(f0, 1) || math.IsNaN(f0):
		var ef optimize.ErrFunc
		if res.Status != optimize.Failure || !errors.As(err, &ef) || !(sameBits(float64(ef), f0) || (math.IsNaN(f0) && math.IsNaN(float64(ef)))) || !empty {
			return fmt.Sprintf("start value %v must end the run with Failure, ErrFunc(%v) and no reported location; got status %v, error %v, X=%v F=%v after %d major iterations", f0, f0, res.Status, errorString(orNil(err)), res.X, res.F, res.Stats.MajorIterations)
		}
		return ""
	}
	for i, v := range g0 {
		if isSpecial(v) {
			var eg optimize.ErrGrad
			if res.Status != optimize.Failure || !errors.As(err, &eg) || eg.Index != i || !(sameBits(eg.Grad, v) || (math.IsNaN(v) && math.IsNaN(eg.Grad))) || !empty {
				return fmt.Sprintf("start gradient %v must end the run with Failure, ErrGrad{%v, %d} and no reported location; got status %v, error %#v, X=%v F=%v after %d major iterations", g0, v, i, res.Status, err, res.X, res.F, res.Stats.MajorIterations)
			}
			return ""
		}
	}
	if math.IsInf(f0, -1) {
		if res.Status != optimize.FunctionNegativeInfinity || err != nil || !sameVec(res.X, c.start()) || !math.IsInf(res.F, -1) || res.Stats.MajorIterations != 1 {
			return fmt.Sprintf("start value -Inf must end the run with FunctionNegativeInfinity, nil error, X = x0, F = -Inf after 1 major iteration; got status %v, error %v, X=%v F=%v after %d major iterations", res.Status, errorString(orNil(err)), res.X, res.F, res.Stats.MajorIterations)
		}
	}
	return ""
}

type nilErr struct{}

func (nilErr) Error() string { return "<nil>" }

func orNil(err error) error {
	if err == nil {
		return nilErr{}
	}
	return err
}

func genSpecial(g *vlib.G) {
	methods := allMethods()
	th := g.Thorough()
	vals := []float64{math.Inf(-1), math.Inf(1), math.NaN()}
	K := vlib.Pick(g, 4, 8)
	for mi := range methods {
		m := &methods[mi]
		lss := []int{0}
		if m.usesLS {
			lss = []int{1, 2, 3}
			if !th && strings.HasPrefix(m.name, "CG/") && m.name != "CG/HestenesStiefel" {
				lss = []int{3}
			}
		}
		for _, ls := range lss {
			m, ls := m, ls
			g.Case(fmt.Sprintf("%s ls=%s", m.name, lsNames[ls]), func(t *vlib.T) {
				runs, bad := 0, 0
				statuses := map[string]int{}
				concs := []int{0}
				if !m.local {
					concs = []int{0, 2}
				}
				// run executes one configuration; f0/g0 are the start values the method
				// sees (expect = false: only the result oracle applies).
				run := func(c *runCfg, expect bool, f0 float64, g0 []float64) {
					var r runResult
					x := runDefault(c.body(&r), c.horizon())
					runs++
					if x.Outcome != "ok" {
						bad++
						if bad <= 4 {
							report(t, " cfg="+c.String(), c.failureClass(x.Outcome, r.lg), nil, "Minimize did not return normally: %s [%s]", x.Outcome, c.String())
						}
						return
					}
					if r.res != nil {
						statuses[r.res.Status.String()]++
					}
					class, msg := c.check(&r)
					if msg == "" && expect && m.local {
						if e := startExpectation(c, &r, f0, g0); e != "" {
							class, msg = "special-start-value", e
						}
					}
					if msg == "" && r.res != nil && math.IsInf(r.res.F, -1) && r.res.Status != optimize.FunctionNegativeInfinity && c.limF >= 80 && c.limIt == 0 && c.conc <= 1 {
						// (with Concurrent > 1 another cause may legitimately come first: e.g. ListSearch declares
						// MethodConverge from one task slot while the -Inf evaluation of another is still in flight)
						class, msg = "special-value-status", fmt.Sprintf("F = -Inf is reported with status %v", r.res.Status)
					}
					if msg != "" {
						bad++
						if bad <= 4 {
							report(t, " cfg="+c.String(), class, nil, "%s [%s] result: %s", msg, c.String(), describe(&r))
						}
					}
				}
				trueG0 := func() []float64 {
					if !m.grad {
						return nil
					}
					g0 := make([]float64, 2)
					quadBaseG(g0, []float64{3, 2})
					return g0
				}
				for _, conc := range concs {
					for _, lim := range []limits{{f: 80}, {f: 80, it: 1}, {f: 80, it: 3}} {
						for _, rec := range []int{-1, 0} {
							base := runCfg{m: m, ls: ls, limF: lim.f, limIt: lim.it, conc: conc, recMode: rec}
							for _, v := range vals {
								v := v
								// through an evaluation of Func at call k (k = 1 is the start of a local method)
								for k := 1; k <= K; k++ {
									c := base
									c.o = specialObj("f", k, 0, v)
									run(&c, k == 1, v, trueG0())
								}
								// through Settings.InitValues.F (objective itself finite)
								for _, iv := range []int{1, 2, 3} {
									if (iv >= 2 && !m.grad) || (iv == 3 && !m.hess) {
										continue
									}
									c := base
									c.o = plainQuad()
									c.initVals = iv
									c.ivF = &v
									run(&c, true, v, trueG0())
								}
								if !m.grad {
									continue
								}
								// special gradient entries: evaluated at Grad call k, or supplied
								for idx := 0; idx < 2; idx++ {
									for k := 1; k <= K; k++ {
										c := base
										c.o = specialObj("g", k, idx, v)
										g0 := trueG0()
										if k == 1 {
											g0[idx] = v
										}
										run(&c, k == 1, quadBaseF([]float64{3, 2}), g0)
									}
									c := base
									c.o = plainQuad()
									c.initVals = 2
									g0 := trueG0()
									g0[idx] = v
									c.ivG = g0
									run(&c, true, quadBaseF([]float64{3, 2}), g0)
									// both special: the function value is looked at first
									w := math.Inf(-1)
									c2 := c
									c2.ivF = &w
									run(&c2, true, w, g0)
								}
							}
						}
					}
				}
				t.Count("minimize_runs", int64(runs))
				t.Count("special_value_runs", int64(runs))
				t.Count("traces_validated_against_impl", int64(runs))
				for k, v := range statuses {
					t.Count("special_status_"+k, int64(v))
				}
				t.Nontrivial()
				t.Outcome(strings.Join(vlib.SortedKeys(statuses), "|"))
			})
		}
	}
}
