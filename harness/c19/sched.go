package main

import (
	"fmt"

	"gonum.org/v1/gonum/internal/verif/vlib"
	"gonum.org/v1/gonum/internal/verif/vsched"
	"gonum.org/v1/gonum/optimize"
)

// genSched explores every goroutine schedule (iterated delay / preemption
// bounds) of a handful of the smallest Minimize scenarios with the full C19
// result oracle attached to every schedule. (The protocol itself - no
// deadlock, no goroutine left behind - is C09's subject; here the coherence of
// the result under every interleaving is the point.)
func genSched(g *vlib.G) {
	ms := allMethods()
	byName := func(n string) *methodSpec {
		for i := range ms {
			if ms[i].name == n {
				return &ms[i]
			}
		}
		panic("no method " + n)
	}
	spd1 := sweepSPD()[0]
	spd2 := sweepSPD()[1]
	ros := rosenbrock2()
	type sc struct {
		name string
		cfg  runCfg
		th   bool // thorough only
	}
	scs := []sc{
		{"GradientDescent+Backtracking spd1 F=3", runCfg{m: byName("GradientDescent"), ls: 1, o: spd1, limF: 3, recMode: -1}, false},
		{"LBFGS+Bisection spd2 It=2", runCfg{m: byName("LBFGS"), ls: 2, o: spd2, limIt: 2, recMode: -1}, false},
		{"Newton+MoreThuente spd2 H=2 init=F+grad", runCfg{m: byName("Newton"), ls: 3, o: spd2, limH: 2, initVals: 2, recMode: -1}, false},
		{"NelderMead spd1 F=4 conc=2", runCfg{m: byName("NelderMead"), o: spd1, limF: 4, conc: 2, recMode: -1}, false},
		{"GuessAndCheck spd1 conc=2 F=3", runCfg{m: byName("GuessAndCheck"), o: spd1, limF: 3, conc: 2, recMode: -1}, false},
		{"GuessAndCheck spd2 conc=2 It=2", runCfg{m: byName("GuessAndCheck"), o: spd2, limIt: 2, conc: 2, recMode: -1}, false},
		{"GuessAndCheck spd1 conc=3 F=2 rec", runCfg{m: byName("GuessAndCheck"), o: spd1, limF: 2, conc: 3, recMode: 0}, false},
		{"ListSearch spd2 conc=2 complete", runCfg{m: byName("ListSearch"), o: spd2, conc: 2, recMode: -1}, false},
		{"ListSearch spd2 conc=3 F=2", runCfg{m: byName("ListSearch"), o: spd2, limF: 2, conc: 3, recMode: -1}, false},
		{"CmaEsChol spd1 conc=2 F=3 (first generation)", runCfg{m: byName("CmaEsChol"), o: spd1, limF: 3, conc: 2, recMode: -1}, false},
		{"CmaEsChol spd2 conc=2 It=1", runCfg{m: byName("CmaEsChol"), o: spd2, limIt: 1, conc: 2, recMode: -1}, false},
		{"GradientDescent+Backtracking spd1 recorder fails at 3", runCfg{m: byName("GradientDescent"), ls: 1, o: spd1, limF: 4, recMode: 3}, false},
		{"BFGS+Bisection spd2 status stop at call 3", runCfg{m: byName("BFGS"), ls: 2, o: spd2, limF: 6, recMode: -1, status: statusMode{at: 3, st: customStatus}}, false},
		{"GuessAndCheck spd1 conc=2 status fails at call 2", runCfg{m: byName("GuessAndCheck"), o: spd1, limF: 5, conc: 2, recMode: -1, status: statusMode{at: 2, st: optimize.Failure, err: errStatus}}, false},
		{"CG/HestenesStiefel+MoreThuente Rosenbrock2 G=3", runCfg{m: byName("CG/HestenesStiefel"), ls: 3, o: ros, limG: 3, recMode: -1}, true},
		{"GuessAndCheck spd2 conc=3 F=4", runCfg{m: byName("GuessAndCheck"), o: spd2, limF: 4, conc: 3, recMode: -1}, true},
		{"ListSearch spd2 conc=3 complete rec", runCfg{m: byName("ListSearch"), o: spd2, conc: 3, recMode: 0}, true},
		{"CmaEsChol spd2 conc=3 F=6", runCfg{m: byName("CmaEsChol"), o: spd2, limF: 6, conc: 3, recMode: -1}, true},
		{"NelderMead spd2 It=2 conc=3", runCfg{m: byName("NelderMead"), o: spd2, limIt: 2, conc: 3, recMode: -1}, true},
	}
	for _, s := range scs {
		if s.th && !g.Thorough() {
			continue
		}
		s := s
		g.Case(s.name, func(t *vlib.T) {
			c := s.cfg
			var r runResult
			body := c.body(&r)
			statuses := map[string]bool{}
			explore(t, g, body, func(x *vsched.Exec) string {
				class, msg := c.check(&r)
				if msg != "" {
					return fmt.Sprintf("[%s] %s; result: %s", class, msg, describe(&r))
				}
				if r.res != nil {
					statuses[r.res.Status.String()] = true
				}
				return ""
			})
			for k := range statuses {
				t.Count("sched_status_"+k, 1)
			}
		})
	}
}
