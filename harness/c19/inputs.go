package main

import (
	"fmt"
	"math/rand/v2"
	"strings"

	"gonum.org/v1/gonum/internal/verif/vlib"
	"gonum.org/v1/gonum/mat"
	"gonum.org/v1/gonum/optimize"
)

// Group inputs: everything the caller owns and hands to Minimize or to a
// Method must be unchanged after the run - the initial x, the Settings value,
// NelderMead.InitialVertices / InitialValues, ListSearch.Locs,
// CmaEsChol.InitCholesky - and a second run that is given the very same slices
// (through a fresh method value, and through the same method value again) must
// reproduce the first run event for event. (Settings.InitValues is exempt:
// "The values in Location may be modified during the call to Minimize".)

// owned is the caller-owned data of one scenario.
type owned struct {
	x0    []float64
	verts [][]float64
	vals  []float64
	locs  *mat.Dense
	chol  *mat.Cholesky
}

func (o *owned) snapshot() []string {
	var s []string
	s = append(s, "x0="+bitsOf(o.x0))
	for i, v := range o.verts {
		s = append(s, fmt.Sprintf("InitialVertices[%d]=%s", i, bitsOf(v)))
	}
	if o.vals != nil {
		s = append(s, "InitialValues="+bitsOf(o.vals))
	}
	if o.locs != nil {
		s = append(s, "Locs="+bitsOf(o.locs.RawMatrix().Data))
	}
	if o.chol != nil {
		var sym mat.SymDense
		o.chol.ToSym(&sym)
		s = append(s, "InitCholesky="+bitsOf(sym.RawSymmetric().Data))
	}
	return s
}

type inputVariant struct {
	name  string
	spec  string // methodSpec to borrow the flags from
	build func(o *objective) *owned
	mk    func(ls int, ow *owned, o *objective) optimize.Method
}

func plainOwned(o *objective) *owned { return &owned{x0: append([]float64(nil), o.x0...)} }

func inputVariants() []inputVariant {
	var out []inputVariant
	for _, n := range []string{"GradientDescent", "CG/HestenesStiefel", "BFGS", "LBFGS", "Newton", "NelderMead", "CmaEsChol", "GuessAndCheck"} {
		n := n
		out = append(out, inputVariant{name: n, spec: n, build: plainOwned})
	}
	out = append(out,
		inputVariant{name: "NelderMead/user-simplex", spec: "NelderMead",
			build: func(o *objective) *owned {
				ow := plainOwned(o)
				inst := o.mk()
				for i := 0; i <= o.dim; i++ {
					v := append([]float64(nil), o.x0...)
					if i > 0 {
						v[i-1] += 1.5
						v[(i)%o.dim] -= 0.5
					}
					ow.verts = append(ow.verts, v)
					ow.vals = append(ow.vals, inst.f(v))
				}
				return ow
			},
			mk: func(ls int, ow *owned, o *objective) optimize.Method {
				return &optimize.NelderMead{InitialVertices: ow.verts, InitialValues: ow.vals}
			}},
		inputVariant{name: "ListSearch", spec: "ListSearch",
			build: func(o *objective) *owned {
				ow := plainOwned(o)
				ow.locs = listLocs(o)
				return ow
			},
			mk: func(ls int, ow *owned, o *objective) optimize.Method { return &optimize.ListSearch{Locs: ow.locs} }},
		inputVariant{name: "CmaEsChol/InitCholesky", spec: "CmaEsChol",
			build: func(o *objective) *owned {
				ow := plainOwned(o)
				a := mat.NewSymDense(o.dim, nil)
				for i := 0; i < o.dim; i++ {
					a.SetSym(i, i, 2)
					if i > 0 {
						a.SetSym(i-1, i, 0.5)
					}
				}
				ow.chol = &mat.Cholesky{}
				if !ow.chol.Factorize(a) {
					panic("inputs: InitCholesky matrix not positive definite")
				}
				return ow
			},
			mk: func(ls int, ow *owned, o *objective) optimize.Method {
				return &optimize.CmaEsChol{Population: cmaPop, Src: rand.NewPCG(1, 1), InitCholesky: ow.chol}
			}},
	)
	return out
}

func settingsFingerprint(s *optimize.Settings) string {
	if s == nil {
		return "nil"
	}
	return fmt.Sprintf("F=%d G=%d H=%d It=%d thr=%v conc=%d runtime=%v init=%p rec=%v conv=%v", s.FuncEvaluations, s.GradEvaluations, s.HessEvaluations, s.MajorIterations, s.GradientThreshold, s.Concurrent, s.Runtime, s.InitValues, s.Recorder != nil, s.Converger != nil)
}

func genInputs(g *vlib.G) {
	methods := allMethods()
	specOf := func(n string) *methodSpec {
		for i := range methods {
			if methods[i].name == n {
				return &methods[i]
			}
		}
		panic("no method " + n)
	}
	objs := []*objective{sweepSPD()[1], sweepSPD()[2], rosenbrock2()}
	stops := []limits{{f: 200}, {f: 200, it: 2}, {f: 200, it: 5}, {f: 3}, {f: 12}}
	if g.Thorough() {
		objs = append(objs, catalogue()[1], catalogue()[2])
		stops = append(stops, limits{f: 200, it: 1}, limits{f: 200, it: 3}, limits{f: 200, it: 9}, limits{f: 1}, limits{f: 2}, limits{f: 5}, limits{f: 30})
	}
	for _, iv := range inputVariants() {
		iv := iv
		m := specOf(iv.spec)
		lss := []int{0}
		if m.usesLS {
			lss = []int{1, 2, 3}
		}
		for _, ls := range lss {
			ls := ls
			g.Case(fmt.Sprintf("%s ls=%s", iv.name, lsNames[ls]), func(t *vlib.T) {
				runs, bad := 0, 0
				fail := func(sub, class, format string, a ...any) {
					bad++
					if bad <= 4 {
						report(t, sub, class, nil, format, a...)
					}
				}
				for _, o := range objs {
					concs := []int{0}
					if !m.local {
						concs = []int{0, 2}
					}
					for _, conc := range concs {
						for _, st := range stops {
							ow := iv.build(o)
							before := ow.snapshot()
							sub := fmt.Sprintf(" obj=%s conc=%d F=%d It=%d", o.name, conc, st.f, st.it)
							mkMethod := func() optimize.Method {
								if iv.mk != nil {
									return iv.mk(ls, ow, o)
								}
								return m.mk(mkLS(ls), o)
							}
							exec := func(method optimize.Method, which string) []string {
								var r runResult
								var set *optimize.Settings
								c := &runCfg{m: m, ls: ls, o: o, limF: st.f, limIt: st.it, conc: conc, recMode: 0, trace: true,
									method: method, sharedX0: ow.x0, knownPts: ow.verts, knownVals: ow.vals, settings: &set}
								x := runDefault(c.body(&r), c.horizon())
								runs++
								if x.Outcome != "ok" {
									fail(sub+" "+which, c.failureClass(x.Outcome, r.lg), "%s: Minimize did not return normally: %s [%s]", which, x.Outcome, c.String())
									return nil
								}
								if class, msg := c.check(&r); msg != "" {
									fail(sub+" "+which, class, "%s: %s [%s] result: %s", which, msg, c.String(), describe(&r))
								}
								want := fmt.Sprintf("F=%d G=0 H=0 It=%d thr=0 conc=%d runtime=0s init=%p rec=true conv=false", st.f, st.it, conc, (*optimize.Location)(nil))
								if got := settingsFingerprint(set); got != want {
									fail(sub+" "+which, "caller-input-modified", "%s: the Settings value was changed by Minimize: %s, was %s", which, got, want)
								}
								if d := firstDiff(before, ow.snapshot()); d != "" {
									fail(sub+" "+which, "caller-input-modified", "%s of %s changed data owned by the caller: %s [%s]", which, iv.name, d, c.String())
								}
								return observable(&r)
							}
							method := mkMethod()
							first := exec(method, "first run")
							if first == nil {
								continue
							}
							if second := exec(mkMethod(), "second run (fresh method value, same slices)"); second != nil {
								if d := firstDiff(first, second); d != "" {
									fail(sub, "same-inputs-different-run", "a second run given the same caller-owned slices differs from the first: %s", d)
								}
							}
							if iv.mk != nil {
								if cma, ok := method.(*optimize.CmaEsChol); ok {
									cma.Src = rand.NewPCG(1, 1) // the random source is consumed by a run
								}
								if third := exec(method, "third run (same method value, same slices)"); third != nil {
									if d := firstDiff(first, third); d != "" {
										fail(sub, "same-inputs-different-run", "a run of the same method value with the same caller-owned slices differs from the first: %s", d)
									}
								}
							}
						}
					}
				}
				t.Count("minimize_runs", int64(runs))
				t.Count("input_ownership_runs", int64(runs))
				t.Count("traces_validated_against_impl", int64(runs))
				t.Nontrivial()
				t.Outcome(fmt.Sprintf("violations=%d", min(bad, 1)))
			})
		}
	}
}

var _ = strings.Join
