// Harness C19: Minimize always terminates with a coherent result; LP answers are truly optimal.
package main

import "gonum.org/v1/gonum/internal/verif/vlib"

func main() {
	vlib.Main("C19",
		vlib.Group{Name: "sweep", Gen: genSweep},
		vlib.Group{Name: "spd", Gen: genSPD},
		vlib.Group{Name: "linesearch", Gen: genLinesearch},
		vlib.Group{Name: "sched", Gen: genSched},
		vlib.Group{Name: "reuse", Gen: genReuse},
		vlib.Group{Name: "reusex", Gen: genReuseCross},
		vlib.Group{Name: "special", Gen: genSpecial},
		vlib.Group{Name: "inputs", Gen: genInputs},
		vlib.Group{Name: "lsadv", Gen: genLSAdversarial},
		vlib.Group{Name: "defs", Gen: genDefs},
		vlib.Group{Name: "lp-std", Gen: genLPStd},
		vlib.Group{Name: "lp-family", Gen: genLPFamily},
		vlib.Group{Name: "lp-convert", Gen: genLPConvert},
		vlib.Group{Name: "lp-cycling", Gen: genLPCycling}, // keep last: may leave a spinning goroutine behind
	)
}
