// Harness C19: Minimize always terminates with a coherent result; LP answers are truly optimal.
package main

import "gonum.org/v1/gonum/internal/verif/vlib"

func main() {
	vlib.Main("C19",
		vlib.Group{Name: "sweep", Gen: genSweep},
	)
}
