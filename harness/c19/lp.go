package main

import (
	"errors"
	"fmt"
	"math"
	"sort"
	"strings"

	"gonum.org/v1/gonum/internal/verif/vlib"
	"gonum.org/v1/gonum/mat"
	"gonum.org/v1/gonum/optimize/convex/lp"
)

const (
	lpTol     = 1e-10 // the tol argument of Simplex
	lpFeasTol = 1e-9  // oracle tolerance on A x = b, x >= 0 and on the optimal value
)

// lpStats accumulates the outcome classes of one case.
type lpStats struct {
	n       map[string]int
	numeric []string
}

func newLPStats() *lpStats { return &lpStats{n: map[string]int{}} }

func (s *lpStats) flush(t *vlib.T) {
	ks := make([]string, 0, len(s.n))
	for k, v := range s.n {
		t.Count("lp_"+k, int64(v))
		ks = append(ks, k)
	}
	sort.Strings(ks)
	t.Outcome(strings.Join(ks, "|"))
	if len(ks) >= 2 {
		t.Nontrivial()
	}
	d := map[string]any{"classes": s.n}
	if len(s.numeric) > 0 {
		d["numeric_failures"] = s.numeric
	}
	t.Detail(d)
}

func ratFloat(r rat) float64 { f, _ := r.Float64(); return f }

// callSimplex runs lp.Simplex on copies of the data and reports a panic as an error string.
func callSimplex(g *lpGuard, c []float64, m, n int, a []float64, b []float64, basis []int) (optF float64, x []float64, err error, panicked string) {
	defer func() {
		if e := recover(); e != nil {
			if _, ok := e.(abandonSentinel); ok {
				panic(e)
			}
			panicked = fmt.Sprint(e)
		}
	}()
	A := mat.NewDense(m, n, append([]float64(nil), a...))
	cc := append([]float64(nil), c...)
	bb := append([]float64(nil), b...)
	var ib []int
	if basis != nil {
		ib = append([]int(nil), basis...)
	}
	g.mark(func() string { return fmt.Sprintf("%s initialBasic=%v", fmtProg(m, n, a, b, c), basis) })
	optF, x, err = lp.Simplex(cc, A, bb, lpTol, ib)
	g.returned()
	for i, v := range A.RawMatrix().Data {
		if v != a[i] {
			panicked = "Simplex modified its input matrix A"
		}
	}
	for i := range cc {
		if cc[i] != c[i] {
			panicked = "Simplex modified its input c"
		}
	}
	for i := range bb {
		if bb[i] != b[i] {
			panicked = "Simplex modified its input b"
		}
	}
	return
}

// feasiblePoint checks A x = b and x >= 0 within lpFeasTol.
func feasiblePoint(m, n int, a, b, x []float64) string {
	if len(x) != n {
		return fmt.Sprintf("len(x)=%d, want %d", len(x), n)
	}
	for j, v := range x {
		if !(v >= -lpFeasTol) {
			return fmt.Sprintf("x[%d]=%v is negative", j, v)
		}
	}
	for i := 0; i < m; i++ {
		var s float64
		for j := 0; j < n; j++ {
			s += a[i*n+j] * x[j]
		}
		if !(math.Abs(s-b[i]) <= lpFeasTol*(1+math.Abs(b[i]))) {
			return fmt.Sprintf("row %d: A x = %v, b = %v", i, s, b[i])
		}
	}
	return ""
}

func isNumericFailure(err error) bool {
	return errors.Is(err, lp.ErrBland) || errors.Is(err, lp.ErrLinSolve) || strings.HasPrefix(err.Error(), "lp: error finding feasible basis")
}

// judgeSimplex compares one answer of lp.Simplex with the exact answer.
// It returns the outcome class and, for a violation, class and message.
func judgeSimplex(s *stdMatrix, a, b, c []float64, ans *lpAnswer, optF float64, x []float64, err error, panicked string) (outcome, vclass, msg string) {
	m, n := s.m, s.n
	if ans.selfCheck != "" {
		panic("ENGINE: " + ans.selfCheck)
	}
	if panicked != "" {
		return "panic", "lp-panic", "Simplex panicked: " + panicked
	}
	pre := "pre-ok/"
	if !ans.precondOK {
		pre = "pre-violated/"
	}
	switch {
	case err == nil:
		if ans.class != lpOptimal {
			return pre + "nil-error", "lp-wrong-class", fmt.Sprintf("Simplex returned x=%v, f=%v with a nil error but the program is %v", x, optF, ans.class)
		}
		if m := feasiblePoint(m, n, a, b, x); m != "" {
			return pre + "optimal", "lp-infeasible-point", fmt.Sprintf("nil error but the returned point %v is not feasible: %s", x, m)
		}
		want := ratFloat(ans.opt)
		var cx float64
		for j := range c {
			cx += c[j] * x[j]
		}
		if !(math.Abs(cx-want) <= lpFeasTol*(1+math.Abs(want))) {
			return pre + "optimal", "lp-not-optimal", fmt.Sprintf("returned point %v has cost %v but the exact optimum is %s", x, cx, ans.opt.RatString())
		}
		if !(math.Abs(optF-cx) <= lpFeasTol*(1+math.Abs(want))) {
			return pre + "optimal", "lp-value-mismatch", fmt.Sprintf("returned optF=%v but c'x=%v", optF, cx)
		}
		return pre + "optimal", "", ""
	case errors.Is(err, lp.ErrInfeasible):
		if ans.precondOK && ans.class != lpInfeasible {
			return pre + "ErrInfeasible", "lp-wrong-class", fmt.Sprintf("ErrInfeasible but the program is %v%s", ans.class, optStr(ans))
		}
		return pre + "ErrInfeasible", "", ""
	case errors.Is(err, lp.ErrUnbounded):
		if ans.precondOK && ans.class != lpUnbounded {
			return pre + "ErrUnbounded", "lp-wrong-class", fmt.Sprintf("ErrUnbounded but the program is %v%s", ans.class, optStr(ans))
		}
		return pre + "ErrUnbounded", "", ""
	case errors.Is(err, lp.ErrSingular):
		if s.rank == s.m {
			return pre + "ErrSingular", "lp-wrong-class", "ErrSingular but A has full row rank"
		}
		return pre + "ErrSingular", "", ""
	case errors.Is(err, lp.ErrZeroColumn):
		if !s.zeroCol {
			return pre + "ErrZeroColumn", "lp-wrong-class", "ErrZeroColumn but A has no zero column"
		}
		return pre + "ErrZeroColumn", "", ""
	case errors.Is(err, lp.ErrZeroRow):
		if !s.zeroRow {
			return pre + "ErrZeroRow", "lp-wrong-class", "ErrZeroRow but A has no zero row"
		}
		return pre + "ErrZeroRow", "", ""
	case isNumericFailure(err):
		// documented rare numeric failure: only the returned "most recent feasible" point is checked
		if x != nil {
			if m := feasiblePoint(m, n, a, b, x); m != "" {
				return pre + "numeric-failure", "lp-infeasible-point", fmt.Sprintf("%v with a returned point %v that is not feasible: %s", err, x, m)
			}
		}
		return pre + "numeric-failure", "", ""
	}
	return pre + "other-error", "lp-undocumented-error", fmt.Sprintf("undocumented error %v", err)
}

func optStr(ans *lpAnswer) string {
	if ans.class == lpOptimal {
		return " with optimum " + ans.opt.RatString()
	}
	return ""
}

func fmtProg(m, n int, a, b, c []float64) string {
	var sb strings.Builder
	sb.WriteString("A=[")
	for i := 0; i < m; i++ {
		if i > 0 {
			sb.WriteString("; ")
		}
		for j := 0; j < n; j++ {
			if j > 0 {
				sb.WriteByte(' ')
			}
			fmt.Fprintf(&sb, "%g", a[i*n+j])
		}
	}
	fmt.Fprintf(&sb, "] b=%v c=%v", b, c)
	return sb.String()
}

// lpSpace is one declared product space of standard-form programs.
type lpSpace struct {
	m, n        int
	alpha       []float64 // alphabet of A
	strideA     int       // keep every strideA-th matrix of a block (1 = all)
	basisStride int       // run the initialBasic sweep on every basisStride-th program (1 = all)
	thorough    bool
}

func lpSpaces(th bool) []lpSpace {
	q := []float64{-1, 0, 1}
	w := []float64{-1, 0, 1, 2}
	var out []lpSpace
	if !th {
		for n := 1; n <= 4; n++ {
			out = append(out, lpSpace{m: 1, n: n, alpha: q, strideA: 1, basisStride: 1})
		}
		out = append(out,
			lpSpace{m: 2, n: 2, alpha: q, strideA: 1, basisStride: 1},
			lpSpace{m: 2, n: 3, alpha: q, strideA: 1, basisStride: 1},
			lpSpace{m: 2, n: 4, alpha: q, strideA: 1, basisStride: 7},
		)
		return out
	}
	for n := 1; n <= 4; n++ {
		out = append(out, lpSpace{m: 1, n: n, alpha: w, strideA: 1, basisStride: 1, thorough: true})
	}
	out = append(out,
		lpSpace{m: 2, n: 2, alpha: w, strideA: 1, basisStride: 1, thorough: true},
		lpSpace{m: 2, n: 3, alpha: w, strideA: 1, basisStride: 1, thorough: true},
		lpSpace{m: 2, n: 4, alpha: w, strideA: 1, basisStride: 5, thorough: true},
		lpSpace{m: 3, n: 3, alpha: q, strideA: 1, basisStride: 1, thorough: true},
		lpSpace{m: 3, n: 4, alpha: q, strideA: 29, basisStride: 5, thorough: true},
		lpSpace{m: 3, n: 5, alpha: q, strideA: 2503, basisStride: 11, thorough: true},
	)
	return out
}

func ipow(b, e int) int {
	r := 1
	for ; e > 0; e-- {
		r *= b
	}
	return r
}

func digits(idx, base, n int, alpha []float64, dst []float64) {
	for k := n - 1; k >= 0; k-- {
		dst[k] = alpha[idx%base]
		idx /= base
	}
}

// genLPStd enumerates standard-form programs min c'x, Ax = b, x >= 0.
func genLPStd(g *vlib.G) {
	for _, sp := range lpSpaces(g.Thorough()) {
		sp := sp
		k := len(sp.alpha)
		rows0 := ipow(k, sp.n)
		inner := ipow(k, (sp.m-1)*sp.n)
		// one case per value of the first row (m >= 2) or one case per space (m = 1);
		// large inner spaces are split further into chunks.
		chunks := 1
		if inner/sp.strideA > 3000 {
			chunks = (inner/sp.strideA + 2999) / 3000
		}
		if sp.m == 1 {
			g.Case(fmt.Sprintf("m=1 n=%d alpha=%v", sp.n, sp.alpha), func(t *vlib.T) {
				st := newLPStats()
				runGuarded(t, func(gd *lpGuard) {
					for r0 := 0; r0 < rows0; r0++ {
						a := make([]float64, sp.n)
						digits(r0, k, sp.n, sp.alpha, a)
						lpMatrix(t, gd, st, &sp, a, r0)
					}
				})
				st.flush(t)
			})
			continue
		}
		for r0 := 0; r0 < rows0; r0++ {
			for ch := 0; ch < chunks; ch++ {
				r0, ch := r0, ch
				row := make([]float64, sp.n)
				digits(r0, k, sp.n, sp.alpha, row)
				key := fmt.Sprintf("m=%d n=%d alpha=%v row0=%v", sp.m, sp.n, sp.alpha, row)
				if chunks > 1 {
					key += fmt.Sprintf(" chunk=%d/%d", ch, chunks)
				}
				g.Case(key, func(t *vlib.T) {
					st := newLPStats()
					a := make([]float64, sp.m*sp.n)
					copy(a, row)
					lo, hi := inner*ch/chunks, inner*(ch+1)/chunks
					runGuarded(t, func(gd *lpGuard) {
						for in := lo; in < hi; in++ {
							// deterministic sub-sampling of the matrices of a block
							if sp.strideA > 1 && (in+r0*7)%sp.strideA != 0 {
								continue
							}
							digits(in, k, (sp.m-1)*sp.n, sp.alpha, a[sp.n:])
							lpMatrix(t, gd, st, &sp, a, r0*inner+in)
						}
					})
					st.flush(t)
				})
			}
		}
	}
}

// lpMatrix runs every (b, c) of the space on one matrix A.
func lpMatrix(t *vlib.T, gd *lpGuard, st *lpStats, sp *lpSpace, a []float64, aIdx int) {
	m, n := sp.m, sp.n
	s := newStdMatrix(m, n, a)
	bAlpha := []float64{0, 1, 2}
	cAlpha := []float64{-1, 0, 1}
	nb, nc := ipow(3, m), ipow(3, n)
	b := make([]float64, m)
	c := make([]float64, n)
	var duals []*dualInfo
	if s.rank == m {
		duals = make([]*dualInfo, nc)
		for ci := 0; ci < nc; ci++ {
			digits(ci, 3, n, cAlpha, c)
			duals[ci] = dualOf(s.a, s.bases, m, n, ratVec(c))
		}
	}
	for bi := 0; bi < nb; bi++ {
		digits(bi, 3, m, bAlpha, b)
		var pr *primalInfo
		if s.rank == m {
			pr = primalOf(s.bases, m, ratVec(b))
		}
		for ci := 0; ci < nc; ci++ {
			digits(ci, 3, n, cAlpha, c)
			progIdx := (aIdx*nb+bi)*nc + ci
			sweep := m < n && progIdx%sp.basisStride == 0
			var ans lpAnswer
			if s.rank == m {
				ans = combine(s.bases, pr, duals[ci], sweep)
				ans.precondOK = !s.zeroCol
			} else {
				ans = s.solve(b, c, false)
			}
			optF, x, err, pan := callSimplex(gd, c, m, n, a, b, nil)
			oc, vclass, msg := judgeSimplex(s, a, b, c, &ans, optF, x, err, pan)
			st.n[oc]++
			t.Count("lp_programs", 1)
			if err != nil && isNumericFailure(err) && len(st.numeric) < 5 {
				st.numeric = append(st.numeric, fmt.Sprintf("%v: %s", err, fmtProg(m, n, a, b, c)))
			}
			if msg != "" {
				report(t, " "+fmtProg(m, n, a, b, c), vclass, nil, "%s [%s; exact: %v%s]", msg, fmtProg(m, n, a, b, c), ans.class, optStr(&ans))
			}
			if sweep && ans.precondOK {
				for _, basis := range ans.feasible {
					optF, x, err, pan := callSimplex(gd, c, m, n, a, b, basis)
					oc, vclass, msg := judgeSimplex(s, a, b, c, &ans, optF, x, err, pan)
					st.n["basis:"+oc]++
					t.Count("lp_initial_basis_runs", 1)
					if msg != "" {
						report(t, fmt.Sprintf(" %s initialBasic=%v", fmtProg(m, n, a, b, c), basis), vclass, nil, "with initialBasic=%v: %s [%s; exact: %v%s]", basis, msg, fmtProg(m, n, a, b, c), ans.class, optStr(&ans))
					}
				}
			}
		}
	}
}
