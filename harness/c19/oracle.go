package main

import (
	"encoding/binary"
	"errors"
	"fmt"
	"math"
	"math/rand/v2"
	"strings"

	"gonum.org/v1/gonum/internal/verif/vlib"
	"gonum.org/v1/gonum/internal/verif/vsched"
	"gonum.org/v1/gonum/mat"
	"gonum.org/v1/gonum/optimize"
)

var customStatus = optimize.NewStatus("C19CustomStop", true, errors.New("c19: custom stop"))

// budgetPanic is raised by the objective wrappers when a run makes more
// callbacks than evalBudget: the run is then classified as non-terminating.
const budgetPanic = "c19: evaluation budget exceeded"

var errRecorder = errors.New("c19: recorder failure")
var errStatus = errors.New("c19: status failure")

// ---------------------------------------------------------------- methods

type methodSpec struct {
	name   string
	local  bool // goes through localOptimizer (one task)
	grad   bool // needs Grad
	hess   bool // needs Hess
	usesLS bool // takes a Linesearcher
	wolfe  bool // documentation requires (strong) Wolfe steps
	mk     func(ls optimize.Linesearcher, o *objective) optimize.Method
	// tasks returns the number of concurrent tasks the method will run with.
	tasks func(conc int, o *objective) int
}

func one(int, *objective) int { return 1 }

const cmaPop = 4

func listLocs(o *objective) *mat.Dense {
	// 5 rows: the start, then integer offsets around it (deterministic).
	rows := 5
	d := mat.NewDense(rows, o.dim, nil)
	for r := 0; r < rows; r++ {
		for j := 0; j < o.dim; j++ {
			v := o.x0[j]
			if r > 0 {
				v += float64((r*(j+2)+j)%5 - 2)
			}
			d.Set(r, j, v)
		}
	}
	return d
}

// cycleRander hands out a fixed cycle of points around the start.
type cycleRander struct {
	x0 []float64
	k  int
}

func (r *cycleRander) Rand(x []float64) []float64 {
	if x == nil {
		x = make([]float64, len(r.x0))
	}
	for i := range x {
		x[i] = r.x0[i] + float64((r.k*3+i*2)%7-3)/2
	}
	r.k++
	return x
}

func allMethods() []methodSpec {
	cg := func(name string, v func() optimize.CGVariant) methodSpec {
		return methodSpec{name: "CG/" + name, local: true, grad: true, usesLS: true, wolfe: true, tasks: one,
			mk: func(ls optimize.Linesearcher, o *objective) optimize.Method {
				return &optimize.CG{Linesearcher: ls, Variant: v()}
			}}
	}
	return []methodSpec{
		{name: "GradientDescent", local: true, grad: true, usesLS: true, tasks: one,
			mk: func(ls optimize.Linesearcher, o *objective) optimize.Method {
				return &optimize.GradientDescent{Linesearcher: ls}
			}},
		cg("HestenesStiefel", func() optimize.CGVariant { return &optimize.HestenesStiefel{} }),
		cg("FletcherReeves", func() optimize.CGVariant { return &optimize.FletcherReeves{} }),
		cg("PolakRibierePolyak", func() optimize.CGVariant { return &optimize.PolakRibierePolyak{} }),
		cg("DaiYuan", func() optimize.CGVariant { return &optimize.DaiYuan{} }),
		cg("HagerZhang", func() optimize.CGVariant { return &optimize.HagerZhang{} }),
		{name: "BFGS", local: true, grad: true, usesLS: true, wolfe: true, tasks: one,
			mk: func(ls optimize.Linesearcher, o *objective) optimize.Method { return &optimize.BFGS{Linesearcher: ls} }},
		{name: "LBFGS", local: true, grad: true, usesLS: true, wolfe: true, tasks: one,
			mk: func(ls optimize.Linesearcher, o *objective) optimize.Method { return &optimize.LBFGS{Linesearcher: ls} }},
		{name: "Newton", local: true, grad: true, hess: true, usesLS: true, tasks: one,
			mk: func(ls optimize.Linesearcher, o *objective) optimize.Method {
				return &optimize.Newton{Linesearcher: ls}
			}},
		{name: "NelderMead", local: true, tasks: one,
			mk: func(ls optimize.Linesearcher, o *objective) optimize.Method { return &optimize.NelderMead{} }},
		{name: "CmaEsChol", tasks: func(c int, o *objective) int { return min(c, cmaPop) },
			mk: func(ls optimize.Linesearcher, o *objective) optimize.Method {
				return &optimize.CmaEsChol{Population: cmaPop, Src: rand.NewPCG(1, 1)}
			}},
		{name: "GuessAndCheck", tasks: func(c int, o *objective) int { return c },
			mk: func(ls optimize.Linesearcher, o *objective) optimize.Method {
				return &optimize.GuessAndCheck{Rander: &cycleRander{x0: o.x0}}
			}},
		{name: "ListSearch", tasks: func(c int, o *objective) int { return min(c, 5) },
			mk: func(ls optimize.Linesearcher, o *objective) optimize.Method {
				return &optimize.ListSearch{Locs: listLocs(o)}
			}},
	}
}

// linesearcher ids: 0 = the method's default (nil), 1 Backtracking, 2 Bisection, 3 MoreThuente.
// 4 and 5 are the stringent variants the CG documentation asks for (curvature 0.1).
var lsNames = []string{"default", "Backtracking", "Bisection", "MoreThuente", "Bisection(0.1)", "MoreThuente(0.1)"}

func mkLS(id int) optimize.Linesearcher {
	switch id {
	case 1:
		return &optimize.Backtracking{}
	case 2:
		return &optimize.Bisection{}
	case 3:
		return &optimize.MoreThuente{}
	case 4:
		return &optimize.Bisection{CurvatureFactor: 0.1}
	case 5:
		return &optimize.MoreThuente{CurvatureFactor: 0.1}
	}
	return nil
}

// ---------------------------------------------------------------- configuration of one run

type statusMode struct {
	at  int // 1-based call number from which the answer is given (0 = Problem.Status is nil)
	st  optimize.Status
	err error
}

type runCfg struct {
	m        *methodSpec
	ls       int
	o        *objective
	x0       []float64 // overrides o.x0 when non-nil
	limF     int
	limG     int
	limH     int
	limIt    int
	gradThr  float64
	initVals int // 0 nil, 1 F, 2 F+grad, 3 F+grad+Hess
	conc     int
	recMode  int // -1 no recorder, 0 recording, k>0 error at the k-th Record call
	status   statusMode
	nilSet   bool // pass settings == nil (all defaults)
	// method, when non-nil, is the Method value to run with (group reuse: a value
	// that has already been through another Minimize call); otherwise a fresh one is made.
	method optimize.Method
	trace  bool // record the full event trace of the run in runLog.trace
	// ivF / ivG, when set, replace the true values in Settings.InitValues (special values supplied by the caller).
	ivF *float64
	ivG []float64
	// sharedX0, when non-nil, is passed to Minimize as is (caller-owned start; group inputs).
	sharedX0 []float64
	// knownPts/knownVals are locations whose values the caller hands to the method
	// (NelderMead.InitialVertices/InitialValues): they count as evaluated.
	knownPts  [][]float64
	knownVals []float64
	settings  **optimize.Settings // if non-nil, receives the Settings value passed to Minimize
}

func (c *runCfg) start() []float64 {
	if c.x0 != nil {
		return c.x0
	}
	return c.o.x0
}

func (c *runCfg) String() string {
	var b strings.Builder
	fmt.Fprintf(&b, "%s", c.m.name)
	if c.m.usesLS {
		fmt.Fprintf(&b, "+%s", lsNames[c.ls])
	}
	fmt.Fprintf(&b, " obj=%s", c.o.name)
	if c.x0 != nil {
		fmt.Fprintf(&b, " x0=%v", c.x0)
	}
	if c.nilSet {
		b.WriteString(" settings=nil")
		return b.String()
	}
	fmt.Fprintf(&b, " F=%d G=%d H=%d It=%d thr=%v init=%d conc=%d rec=%d", c.limF, c.limG, c.limH, c.limIt, c.gradThr, c.initVals, c.conc, c.recMode)
	if c.status.at > 0 {
		fmt.Fprintf(&b, " status@%d=%v/%v", c.status.at, c.status.st, c.status.err != nil)
	}
	return b.String()
}

// evalBudget is the number of objective callbacks after which a run is
// declared non-terminating. Every terminating run of the declared space needs
// far fewer (the largest observed count is reported as max_callbacks_per_run).
//
// A run is also cut off after nanStreakBudget consecutive Func calls at a NaN
// location: the longest terminating sequence of that kind is a Bisection that
// halves its step from 1 down to 0 (about 1100 evaluations); Backtracking gives
// up after 67.
func (c *runCfg) evalBudget() int { return 60000 }

const nanStreakBudget = 4000

// sameStreakBudget: Func evaluated this many times in a row at one and the
// same (non-NaN) location also counts as non-termination.
const sameStreakBudget = 1500

// ---------------------------------------------------------------- the log of one run

type ptLog struct {
	f []float64   // every value returned by Func at this point
	g [][]float64 // every gradient returned by Grad at this point
}

type recEntry struct {
	failed bool
	op     optimize.Operation
	f      float64
	x      []float64
	g      []float64
	stats  optimize.Stats
}

type runLog struct {
	nF, nG, nH, nStatus, nRecord, nRecInit int
	pts                                    map[string]*ptLog
	recs                                   []recEntry
	recFailed                              bool // the recorder returned an error at least once (it keeps failing from the k-th record on)
	nanStreak                              int  // consecutive Func calls at a NaN location
	sameStreak                             int  // consecutive Func calls at one and the same location
	lastX                                  []float64
	statusFired                            bool
	minF                                   float64  // least non-NaN value returned by Func (+Inf if none)
	f0                                     float64  // f(x0) computed by the harness
	trace                                  []string // every callback, in order (only if runCfg.trace)
}

func bitsOf(v []float64) string {
	var b strings.Builder
	for _, x := range v {
		fmt.Fprintf(&b, "%016x.", math.Float64bits(x))
	}
	return b.String()
}

func xkey(x []float64) string {
	b := make([]byte, 8*len(x))
	for i, v := range x {
		binary.LittleEndian.PutUint64(b[8*i:], math.Float64bits(v))
	}
	return string(b)
}

func (l *runLog) pt(x []float64) *ptLog {
	k := xkey(x)
	p := l.pts[k]
	if p == nil {
		p = &ptLog{}
		l.pts[k] = p
	}
	return p
}

func sameBits(a, b float64) bool { return math.Float64bits(a) == math.Float64bits(b) }

func sameVec(a, b []float64) bool {
	if len(a) != len(b) {
		return false
	}
	for i := range a {
		if !sameBits(a[i], b[i]) {
			return false
		}
	}
	return true
}

type recorder struct {
	lg     *runLog
	failAt int
}

func (r *recorder) Init() error {
	vlib.Atomically(func() { r.lg.nRecInit++ })
	return nil
}

func (r *recorder) Record(l *optimize.Location, op optimize.Operation, s *optimize.Stats) error {
	var fail bool
	vlib.Atomically(func() {
		lg := r.lg
		lg.nRecord++
		e := recEntry{op: op, f: l.F, x: append([]float64(nil), l.X...), stats: *s}
		if l.Gradient != nil {
			e.g = append([]float64(nil), l.Gradient...)
		}
		if r.failAt > 0 && lg.nRecord >= r.failAt {
			fail = true
			e.failed = true
			lg.recFailed = true
		}
		lg.recs = append(lg.recs, e)
	})
	if fail {
		return errRecorder
	}
	return nil
}

// runResult is everything observed about one call of Minimize.
type runResult struct {
	res *optimize.Result
	err error
	lg  *runLog
}

// body returns the scenario body for cfg; out is filled by every execution.
func (c *runCfg) body(out *runResult) func() {
	return func() {
		lg := &runLog{pts: map[string]*ptLog{}, minF: math.Inf(1)}
		inst := c.o.mk()
		x0 := append([]float64(nil), c.start()...)
		if c.sharedX0 != nil {
			x0 = c.sharedX0
		}
		lg.f0 = c.o.mk().f(x0)
		if c.ivF != nil && c.initVals > 0 {
			lg.f0 = *c.ivF
		}
		for i, p := range c.knownPts {
			q := lg.pt(p)
			q.f = append(q.f, c.knownVals[i])
			if c.knownVals[i] < lg.minF {
				lg.minF = c.knownVals[i]
			}
		}
		budget := c.evalBudget()
		p := optimize.Problem{Func: func(x []float64) float64 {
			vsched.Point("Func")
			f := inst.f(x)
			if math.IsNaN(x[0]) {
				lg.nanStreak++
			} else {
				lg.nanStreak = 0
			}
			if sameVec(x, lg.lastX) {
				lg.sameStreak++
			} else {
				lg.sameStreak = 0
				lg.lastX = append(lg.lastX[:0], x...)
			}
			if lg.nF+lg.nG+lg.nH >= budget || lg.nanStreak >= nanStreakBudget || lg.sameStreak >= sameStreakBudget {
				panic(budgetPanic)
			}
			vlib.Atomically(func() {
				lg.nF++
				if c.trace {
					lg.trace = append(lg.trace, "Func x="+bitsOf(x)+" -> "+bitsOf([]float64{f}))
				}
				q := lg.pt(x)
				q.f = append(q.f, f)
				if f < lg.minF {
					lg.minF = f
				}
			})
			return f
		}}
		if c.m.grad {
			p.Grad = func(g, x []float64) {
				vsched.Point("Grad")
				inst.g(g, x)
				if lg.nF+lg.nG+lg.nH >= budget {
					panic(budgetPanic)
				}
				vlib.Atomically(func() {
					lg.nG++
					if c.trace {
						lg.trace = append(lg.trace, "Grad x="+bitsOf(x)+" -> "+bitsOf(g))
					}
					q := lg.pt(x)
					q.g = append(q.g, append([]float64(nil), g...))
				})
			}
		}
		if c.m.hess {
			p.Hess = func(h *mat.SymDense, x []float64) {
				vsched.Point("Hess")
				inst.h(h, x)
				vlib.Atomically(func() {
					lg.nH++
					if c.trace {
						lg.trace = append(lg.trace, "Hess x="+bitsOf(x))
					}
				})
			}
		}
		if c.status.at > 0 {
			p.Status = func() (optimize.Status, error) {
				fire := false
				vlib.Atomically(func() {
					lg.nStatus++
					if lg.nStatus >= c.status.at {
						fire = true
						lg.statusFired = true
					}
				})
				if fire {
					return c.status.st, c.status.err
				}
				return optimize.NotTerminated, nil
			}
		}
		var set *optimize.Settings
		if !c.nilSet {
			set = &optimize.Settings{
				FuncEvaluations:   c.limF,
				GradEvaluations:   c.limG,
				HessEvaluations:   c.limH,
				MajorIterations:   c.limIt,
				GradientThreshold: c.gradThr,
				Concurrent:        c.conc,
			}
			if c.recMode >= 0 {
				set.Recorder = &recorder{lg: lg, failAt: c.recMode}
			}
			if c.initVals > 0 {
				// The true values at the start, computed by a separate instance so that
				// stateful objectives are not disturbed.
				aux := c.o.mk()
				iv := &optimize.Location{F: aux.f(x0)}
				if c.ivF != nil {
					iv.F = *c.ivF
				}
				q := lg.pt(x0)
				q.f = append(q.f, iv.F)
				if c.m.local && iv.F < lg.minF {
					// only the local methods use the supplied initial values
					lg.minF = iv.F
				}
				if c.initVals >= 2 {
					iv.Gradient = make([]float64, len(x0))
					aux.g(iv.Gradient, x0)
					if c.ivG != nil {
						copy(iv.Gradient, c.ivG)
					}
					q.g = append(q.g, append([]float64(nil), iv.Gradient...))
				}
				if c.initVals >= 3 {
					iv.Hessian = mat.NewSymDense(len(x0), nil)
					aux.h(iv.Hessian, x0)
				}
				set.InitValues = iv
			}
		}
		out.lg = lg
		if c.settings != nil {
			*c.settings = set
		}
		meth := c.method
		if meth == nil {
			meth = c.m.mk(mkLS(c.ls), c.o)
		}
		out.res, out.err = optimize.Minimize(p, x0, set, meth)
	}
}

// ---------------------------------------------------------------- the oracle

func norm2(x []float64) float64 {
	var s float64
	for _, v := range x {
		s += v * v
	}
	return math.Sqrt(s)
}

func normInf(x []float64) float64 {
	var s float64
	for _, v := range x {
		if a := math.Abs(v); a > s || math.IsNaN(a) {
			s = a
		}
	}
	return s
}

func dot(a, b []float64) float64 {
	var s float64
	for i := range a {
		s += a[i] * b[i]
	}
	return s
}

// errorString is err.Error(), with a panic turned into a "PANIC: ..." string.
func errorString(err error) (s string) {
	defer func() {
		if e := recover(); e != nil {
			s = fmt.Sprintf("PANIC: %v", e)
		}
	}()
	return err.Error()
}

func isLSError(err error) bool {
	return errors.Is(err, optimize.ErrLinesearcherFailure) || errors.Is(err, optimize.ErrNonDescentDirection) ||
		errors.Is(err, optimize.ErrNoProgress) || errors.Is(err, optimize.ErrLinesearcherBound)
}

// check applies the C19 oracle to one finished call of Minimize and returns
// "" or a description of the violation (class, message).
func (c *runCfg) check(r *runResult) (class, msg string) {
	res, err, lg := r.res, r.err, r.lg
	if err != nil {
		if m := errorString(err); strings.HasPrefix(m, "PANIC: ") {
			return "error-value", "the returned error cannot be printed: Error() " + m
		}
	}
	conc := max(c.conc, 1)
	if c.nilSet {
		conc = 1
	}

	// A nil result is only produced by the documented early returns.
	if res == nil {
		switch {
		case err == nil:
			return "nil-result", "Minimize returned (nil, nil)"
		case c.status.at == 1 && c.status.err != nil && err == c.status.err:
		case c.recMode == 1 && err == errRecorder:
		default:
			return "nil-result", fmt.Sprintf("Minimize returned a nil result with error %v although neither the first Status call nor the first Record call failed", err)
		}
		if lg.nF+lg.nG+lg.nH != 0 {
			return "nil-result", "evaluations were made before an early return"
		}
		return "", ""
	}
	st := res.Stats

	// Counters equal the callbacks actually made.
	if st.FuncEvaluations != lg.nF || st.GradEvaluations != lg.nG || st.HessEvaluations != lg.nH {
		return "stats-count", fmt.Sprintf("Stats evaluations F/G/H = %d/%d/%d but the callbacks were called %d/%d/%d times", st.FuncEvaluations, st.GradEvaluations, st.HessEvaluations, lg.nF, lg.nG, lg.nH)
	}
	if c.status.at > 0 {
		lo, hi := 1+max(lg.nF, lg.nG, lg.nH), 1+lg.nF+lg.nG+lg.nH
		if lg.nStatus < lo || lg.nStatus > hi {
			return "status-calls", fmt.Sprintf("Problem.Status called %d times, expected once at the start and once per evaluation operation (between %d and %d)", lg.nStatus, lo, hi)
		}
	}

	// Limits, up to the documented concurrency slack (NOTES.md: at most one more
	// evaluation per other task slot; one more major iteration per task slot).
	type lim struct {
		name   string
		l, got int
		slack  int
	}
	for _, q := range []lim{
		{"FuncEvaluations", c.limF, st.FuncEvaluations, conc - 1},
		{"GradEvaluations", c.limG, st.GradEvaluations, conc - 1},
		{"HessEvaluations", c.limH, st.HessEvaluations, conc - 1},
		{"MajorIterations", c.limIt, st.MajorIterations, conc},
	} {
		if q.l > 0 && q.got > q.l+q.slack {
			return "limit-exceeded", fmt.Sprintf("%s limit %d but %d performed (allowed slack %d for Concurrent=%d)", q.name, q.l, q.got, q.slack, c.conc)
		}
	}
	if c.m.local && c.limIt > 0 && st.MajorIterations > c.limIt {
		return "limit-exceeded", fmt.Sprintf("local method: MajorIterations limit %d but %d performed", c.limIt, st.MajorIterations)
	}

	// Status / error coherence.
	status := res.Status
	if status == optimize.NotTerminated {
		return "status", "Minimize returned with status NotTerminated"
	}
	// recPostFail: the final PostIteration record failed.
	recPostFail := false
	if n := len(lg.recs); c.recMode > 0 && n > 0 {
		recPostFail = lg.recs[n-1].failed && lg.recs[n-1].op == optimize.PostIteration
	}
	if status == optimize.Failure && err == nil {
		return "status-error", "status Failure with a nil error"
	}
	if err != nil && status != optimize.Failure {
		switch {
		case recPostFail && err == errRecorder:
			// The final PostIteration record failed: the error is returned with the
			// status that ended the run (don't-care zone, NOTES.md).
		case c.status.at > 0 && c.status.err != nil && err == c.status.err && status == c.status.st:
		default:
			return "status-error", fmt.Sprintf("status %v with non-nil error %v", status, err)
		}
	}
	switch status {
	case optimize.FunctionEvaluationLimit:
		if c.limF <= 0 || lg.nF < c.limF {
			return "status-cause", fmt.Sprintf("status FunctionEvaluationLimit with limit %d after %d evaluations", c.limF, lg.nF)
		}
	case optimize.GradientEvaluationLimit:
		if c.limG <= 0 || lg.nG < c.limG {
			return "status-cause", fmt.Sprintf("status GradientEvaluationLimit with limit %d after %d evaluations", c.limG, lg.nG)
		}
	case optimize.HessianEvaluationLimit:
		if c.limH <= 0 || lg.nH < c.limH {
			return "status-cause", fmt.Sprintf("status HessianEvaluationLimit with limit %d after %d evaluations", c.limH, lg.nH)
		}
	case optimize.IterationLimit:
		if c.limIt <= 0 || st.MajorIterations < c.limIt {
			return "status-cause", fmt.Sprintf("status IterationLimit with limit %d after %d major iterations", c.limIt, st.MajorIterations)
		}
	case optimize.GradientThreshold:
		thr := 1e-12 // the methods' default GradStopThreshold
		if c.gradThr > thr {
			thr = c.gradThr
		}
		if res.Gradient == nil || !(normInf(res.Gradient) < thr) {
			return "status-cause", fmt.Sprintf("status GradientThreshold but the reported gradient %v has inf-norm not below %g", res.Gradient, thr)
		}
	case optimize.FunctionConvergence:
		if st.MajorIterations < 101 {
			return "status-cause", fmt.Sprintf("status FunctionConvergence (default: 100 iterations without decrease) after %d major iterations", st.MajorIterations)
		}
	case optimize.FunctionNegativeInfinity:
		if !math.IsInf(res.F, -1) {
			return "status-cause", fmt.Sprintf("status FunctionNegativeInfinity with F=%v", res.F)
		}
	case optimize.MethodConverge:
		switch c.m.name {
		case "ListSearch":
			if lg.nF != 5 {
				return "status-cause", fmt.Sprintf("ListSearch reports MethodConverge after evaluating %d of 5 locations", lg.nF)
			}
		case "CmaEsChol":
		default:
			return "status-cause", "status MethodConverge from a method that never declares it"
		}
	case optimize.Failure:
		switch {
		case err == errRecorder:
			if !lg.recFailed {
				return "status-cause", "recorder error reported but the recorder never failed"
			}
		case c.status.at > 0 && err == c.status.err:
			if !lg.statusFired {
				return "status-cause", "status error reported but Problem.Status never failed"
			}
		default:
			var ef optimize.ErrFunc
			var eg optimize.ErrGrad
			switch {
			case errors.As(err, &ef):
				if !(math.IsNaN(lg.f0) || math.IsInf(lg.f0, 1)) {
					return "status-cause", fmt.Sprintf("ErrFunc(%v) but f(x0)=%v", float64(ef), lg.f0)
				}
			case errors.As(err, &eg):
				if c.o.finiteEverywhere() {
					return "status-cause", fmt.Sprintf("%v on an objective with finite gradients", err)
				}
			case isLSError(err):
				if !c.m.usesLS {
					return "status-cause", fmt.Sprintf("line-search error %v from a method without line search", err)
				}
				if res.Gradient != nil && normInf(res.Gradient) < 1e-12 {
					// The methods stop with GradientThreshold when the gradient norm is below
					// GradStopThreshold (default 1e-12): a line search must not even be started.
					return "local-start-at-minimum-reports-failure", fmt.Sprintf("status Failure (%v) although the reported gradient %v is below the method's gradient threshold 1e-12: the run should have ended with GradientThreshold", err, res.Gradient)
				}
			default:
				if c.m.name != "CmaEsChol" {
					return "status-cause", fmt.Sprintf("unexplained failure: %v", err)
				}
			}
		}
	default:
		if c.status.at > 0 && status == c.status.st && lg.statusFired {
			break
		}
		return "status-cause", fmt.Sprintf("status %v has no cause in this configuration", status)
	}
	if err == nil && c.recMode > 0 && lg.recFailed {
		return "status-error", "the recorder failed but Minimize returned a nil error"
	}

	// Location coherence.
	if len(res.X) != c.o.dim {
		return "location", fmt.Sprintf("len(X)=%d for a problem of dimension %d", len(res.X), c.o.dim)
	}
	if st.MajorIterations == 0 {
		// No location was ever declared: the documented-by-construction empty result.
		if !math.IsInf(res.F, 1) || normInf(res.X) != 0 || res.Gradient != nil {
			return "location", fmt.Sprintf("no major iteration was performed but the result is X=%v F=%v grad=%v (expected the empty result X=0, F=+Inf)", res.X, res.F, res.Gradient)
		}
	} else {
		p := lg.pts[xkey(res.X)]
		claimed := res.F < math.Inf(1) // a value below +Inf must be backed by an evaluation
		if !claimed && lg.minF < math.Inf(1) && c.o.kind != "gradnan" && c.o.kind != "nan" && !(c.o.kind == "nanregion" && !c.m.usesLS) {
			// (objectives that return NaN are excluded: e.g. NelderMead adopts a NaN vertex as
			// its best point for ever - comparisons with NaN, don't-care zone in NOTES.md)
			return "location", fmt.Sprintf("result F=%v although values below +Inf were returned by Func (least %v)", res.F, lg.minF)
		}
		if claimed || p != nil {
			if p == nil || len(p.f) == 0 {
				return "location-unevaluated", fmt.Sprintf("result X=%v (F=%v) is not a point at which Func was evaluated", res.X, res.F)
			}
			ok := false
			for _, f := range p.f {
				if sameBits(f, res.F) {
					ok = true
				}
			}
			if !ok {
				return "location-value", fmt.Sprintf("result F=%v but Func returned %v at X=%v", res.F, p.f, res.X)
			}
			if c.o.kind != "gradnan" && !sameBits(c.o.mk().f(res.X), res.F) {
				return "location-value", fmt.Sprintf("result F=%v but f(X)=%v at X=%v", res.F, c.o.mk().f(res.X), res.X)
			}
			if res.Gradient != nil {
				ok := false
				for _, g := range p.g {
					if sameVec(g, res.Gradient) {
						ok = true
					}
				}
				if !ok {
					return "location-gradient", fmt.Sprintf("result gradient %v was never returned by Grad at X=%v (returned: %v)", res.Gradient, res.X, p.g)
				}
			}
		}
		if c.m.local {
			if c.o.finiteEverywhere() && !(res.F <= lg.f0) {
				return "local-worse-than-start", fmt.Sprintf("local method ended at F=%v, worse than the start f(x0)=%v", res.F, lg.f0)
			}
			if c.o.kind == "nanregion" && c.m.usesLS && !(res.F <= lg.f0) {
				// NaN trial points must never make a line search accept an increase
				return "local-worse-than-start", fmt.Sprintf("line-search method ended at F=%v, worse than the start f(x0)=%v (objective undefined in a region)", res.F, lg.f0)
			}
		} else if lg.minF < math.Inf(1) && !sameBits(res.F, lg.minF) && !(res.F == 0 && lg.minF == 0) {
			return "global-not-best", fmt.Sprintf("global method reports F=%v but the least evaluated value is %v", res.F, lg.minF)
		}
	}

	// Recorder protocol.
	if c.recMode >= 0 && !c.nilSet {
		if m := c.checkRecorder(r); m != "" {
			return "recorder", m
		}
	}
	return "", ""
}

func (c *runCfg) checkRecorder(r *runResult) string {
	lg, res := r.lg, r.res
	if lg.nRecInit != 1 {
		return fmt.Sprintf("Recorder.Init called %d times", lg.nRecInit)
	}
	if len(lg.recs) == 0 || lg.recs[0].op != optimize.InitIteration {
		return "the first record is not InitIteration"
	}
	var prev optimize.Stats
	majors := 0
	for i, e := range lg.recs {
		if i > 0 && e.op == optimize.InitIteration {
			return "InitIteration recorded twice"
		}
		if e.op == optimize.PostIteration && i != len(lg.recs)-1 {
			return "PostIteration is not the last record"
		}
		if e.stats.FuncEvaluations < prev.FuncEvaluations || e.stats.GradEvaluations < prev.GradEvaluations || e.stats.HessEvaluations < prev.HessEvaluations || e.stats.MajorIterations < prev.MajorIterations {
			return fmt.Sprintf("recorded statistics decrease at record %d", i)
		}
		prev = e.stats
		if e.op == optimize.MajorIteration {
			majors++
		}
	}
	last := lg.recs[len(lg.recs)-1]
	if r.err == nil {
		if last.op != optimize.PostIteration {
			return "no PostIteration record although the run ended without error"
		}
		if !sameBits(last.f, res.F) || !sameVec(last.x, res.X) {
			return fmt.Sprintf("PostIteration recorded X=%v F=%v but the result is X=%v F=%v", last.x, last.f, res.X, res.F)
		}
		if last.stats.FuncEvaluations != res.Stats.FuncEvaluations || last.stats.MajorIterations != res.Stats.MajorIterations {
			return "PostIteration statistics differ from the result"
		}
	}
	if majors > res.Stats.MajorIterations {
		return fmt.Sprintf("%d MajorIteration records but Stats.MajorIterations=%d", majors, res.Stats.MajorIterations)
	}
	// Line-search conditions on consecutive recorded major iterations.
	if c.m.usesLS && c.ls > 0 && c.o.kind != "gradnan" && c.o.kind != "nan" {
		var pm *recEntry
		for i := range lg.recs {
			e := &lg.recs[i]
			if e.op != optimize.MajorIteration {
				continue
			}
			if pm != nil && e.g != nil && pm.g != nil && !math.IsInf(e.f, 0) {
				if m := lsCondition(c.ls, pm, e); m != "" {
					return m
				}
			}
			pm = e
		}
	}
	return ""
}

// lsCondition checks the advertised acceptance condition of the line searcher
// between two consecutive major iterations (start a, accepted point b), using
// d = b.x - a.x = step*dir, so that step*phi'(0) = a.g.d.
func lsCondition(ls int, a, b *recEntry) string {
	d := make([]float64, len(a.x))
	for i := range d {
		d[i] = b.x[i] - a.x[i]
	}
	g0, g1 := dot(a.g, d), dot(b.g, d)
	// rounding allowance: d is reconstructed from rounded points.
	slackG := 1e-13 * (norm2(a.g) + norm2(b.g)) * (norm2(a.x) + norm2(b.x) + 1)
	slackF := 1e-12 * (1 + math.Abs(a.f))
	switch ls {
	case 1: // Backtracking: Armijo with DecreaseFactor 1e-4
		if !(b.f <= a.f+1e-4*g0+slackF) {
			return fmt.Sprintf("Backtracking accepted a step violating the Armijo condition: f=%v > f0 %v + 1e-4*%v", b.f, a.f, g0)
		}
	case 2, 3, 4, 5: // Bisection / MoreThuente: strong Wolfe with decrease 0, curvature 0.9 (0.1 for ids 4, 5)
		cur := 0.9
		if ls >= 4 {
			cur = 0.1
		}
		if !(b.f <= a.f+slackF) {
			return fmt.Sprintf("%s accepted a step with f=%v > f0=%v", lsNames[ls], b.f, a.f)
		}
		if !(math.Abs(g1) <= cur*math.Abs(g0)*(1+1e-9)+slackG) {
			return fmt.Sprintf("%s accepted a step violating the curvature condition: |%v| > %g*|%v|", lsNames[ls], g1, cur, g0)
		}
	}
	return ""
}
