package main

import (
	"errors"
	"fmt"
	"math"

	"gonum.org/v1/gonum/internal/verif/vlib"
	"gonum.org/v1/gonum/optimize"
)

// Group defs: definitional checks of the small pieces that the other groups
// only see through Minimize: the Status registry of termination.go
// (String/Early/Err, NewStatus) and the FunctionConverge / NeverTerminate
// convergers of functionconvergence.go (compared with a model written from
// the documentation, over all short sequences of function values).

func genDefs(g *vlib.G) {
	g.Case("Status table and NewStatus", func(t *vlib.T) {
		type row struct {
			s     optimize.Status
			name  string
			early bool
		}
		table := []row{
			{optimize.NotTerminated, "NotTerminated", false},
			{optimize.Success, "Success", false},
			{optimize.FunctionThreshold, "FunctionThreshold", false},
			{optimize.FunctionConvergence, "FunctionConvergence", false},
			{optimize.GradientThreshold, "GradientThreshold", false},
			{optimize.StepConvergence, "StepConvergence", false},
			{optimize.FunctionNegativeInfinity, "FunctionNegativeInfinity", false},
			{optimize.MethodConverge, "MethodConverge", false},
			{optimize.Failure, "Failure", true},
			{optimize.IterationLimit, "IterationLimit", true},
			{optimize.RuntimeLimit, "RuntimeLimit", true},
			{optimize.FunctionEvaluationLimit, "FunctionEvaluationLimit", true},
			{optimize.GradientEvaluationLimit, "GradientEvaluationLimit", true},
			{optimize.HessianEvaluationLimit, "HessianEvaluationLimit", true},
		}
		seen := map[optimize.Status]string{}
		errsSeen := map[string]string{}
		checkRow := func(r row, wantErr error, exactErr bool) {
			if r.s.String() != r.name {
				t.Failf("Status %d: String() = %q, want %q", int(r.s), r.s.String(), r.name)
			}
			if r.s.Early() != r.early {
				t.Failf("%s: Early() = %v, want %v", r.name, r.s.Early(), r.early)
			}
			// "If Early returns false, Err will return nil."
			if !r.early && r.s.Err() != nil {
				t.Failf("%s: not early but Err() = %v", r.name, r.s.Err())
			}
			if exactErr && r.s.Err() != wantErr {
				t.Failf("%s: Err() = %v, want %v", r.name, r.s.Err(), wantErr)
			}
			if r.early && !exactErr {
				if r.s.Err() == nil {
					t.Failf("%s: early but Err() is nil", r.name)
				} else if prev, dup := errsSeen[r.s.Err().Error()]; dup {
					t.Failf("%s and %s share the error text %q", r.name, prev, r.s.Err().Error())
				} else {
					errsSeen[r.s.Err().Error()] = r.name
				}
			}
			if prev, dup := seen[r.s]; dup {
				t.Failf("%s and %s have the same numeric value", r.name, prev)
			}
			seen[r.s] = r.name
		}
		for _, r := range table {
			checkRow(r, nil, false)
		}
		if customStatus.String() != "C19CustomStop" || !customStatus.Early() || customStatus.Err() == nil {
			t.Failf("the status registered at package initialization reads %q early=%v err=%v", customStatus.String(), customStatus.Early(), customStatus.Err())
		}
		seen[customStatus] = "C19CustomStop"
		// new statuses: unique, with exactly the registered attributes; older entries untouched
		var made []row
		var madeErr []error
		for i := 0; i < 4; i++ {
			// (not early, nil), (early, error), (early, nil), (early, error)
			var e error
			if i%2 == 1 {
				e = fmt.Errorf("c19: status error %d", i)
			}
			name := fmt.Sprintf("c19-status-%d", i)
			s := optimize.NewStatus(name, i >= 1, e)
			made = append(made, row{s, name, i >= 1})
			madeErr = append(madeErr, e)
		}
		for i, r := range made {
			checkRow(r, madeErr[i], true)
		}
		for _, r := range table {
			if r.s.String() != r.name || r.s.Early() != r.early {
				t.Failf("%s changed after NewStatus: String()=%q Early()=%v", r.name, r.s.String(), r.s.Early())
			}
		}
		t.Count("status_rows", int64(len(table)+len(made)+1))
		t.Nontrivial()
		t.Outcome("status-table")
	})

	// FunctionConverge against the documented rule.
	nan := math.NaN()
	alpha := []float64{0, 1, 2, 2.5, 3, -1, nan, inf, -inf}
	type params struct {
		abs, rel float64
		iters    int
	}
	var ps []params
	for _, a := range []float64{0, 0.5, 1} {
		for _, r := range []float64{0, 0.25} {
			for _, it := range []int{0, 1, 2, 3} {
				ps = append(ps, params{a, r, it})
			}
		}
	}
	depth := vlib.Pick(g, 5, 6)
	for _, p := range ps {
		p := p
		g.Case(fmt.Sprintf("FunctionConverge{Absolute:%g,Relative:%g,Iterations:%d} all sequences of length %d", p.abs, p.rel, p.iters, depth), func(t *vlib.T) {
			var n int64
			fc := &optimize.FunctionConverge{Absolute: p.abs, Relative: p.rel, Iterations: p.iters}
			seq := make([]float64, depth)
			idx := make([]int, depth)
			bad := 0
			for {
				for i := range seq {
					seq[i] = alpha[idx[i]]
				}
				// model, from the documentation of FunctionConverge
				fc.Init(3)
				first, best, iter := true, 0.0, 0
				for i, f := range seq {
					want := optimize.NotTerminated
					switch {
					case first:
						best, first = f, false
					case p.iters == 0:
					case f < best && best-f > p.rel*math.Max(math.Abs(f), math.Abs(best))+p.abs:
						best, iter = f, 0
					default:
						iter++
						if iter >= p.iters {
							want = optimize.FunctionConvergence
						}
					}
					got := fc.Converged(&optimize.Location{F: f, X: []float64{0, 0, 0}})
					n++
					if got != want {
						bad++
						if bad <= 3 {
							t.Failf("after the values %v: Converged = %v, the documented rule gives %v", seq[:i+1], got, want)
						}
						break
					}
					if want != optimize.NotTerminated {
						break
					}
				}
				k := depth - 1
				for ; k >= 0; k-- {
					idx[k]++
					if idx[k] < len(alpha) {
						break
					}
					idx[k] = 0
				}
				if k < 0 {
					break
				}
			}
			if (optimize.NeverTerminate{}).Converged(&optimize.Location{F: nan}) != optimize.NotTerminated {
				t.Failf("NeverTerminate terminated")
			}
			t.Count("converger_steps", n)
			t.Nontrivial()
			t.Outcome("converger")
		})
	}
}

var inf = math.Inf(1)
var _ = errors.New
