package main

import (
	"fmt"
	"math"
	"os"
	"strings"

	"gonum.org/v1/gonum/internal/verif/vlib"
	"gonum.org/v1/gonum/optimize"
)

// genSPD: on strictly convex integer quadratics with default settings every
// gradient-based method must end within 1e-6*(1+|x*|) of the exact minimiser
// A^-1 b (computed in big.Rat), with a coherent result.
func genSPD(g *vlib.G) {
	methods := allMethods()
	th := g.Thorough()
	objs := allSPD(th)
	for mi := range methods {
		m := &methods[mi]
		if !m.grad {
			continue
		}
		lss := []int{2, 3}
		if !m.wolfe {
			lss = []int{1, 2, 3} // GradientDescent and Newton accept Armijo steps
		}
		isCG := strings.HasPrefix(m.name, "CG/")
		if isCG {
			// 0: the CG default (More-Thuente with curvature 0.1); 4, 5: stringent line searches as the
			// CG documentation requires; 2, 3: loose ones (curvature 0.9), see "strict" below.
			lss = []int{0, 2, 3, 4, 5}
		}
		for _, ls := range lss {
			m, ls := m, ls
			// CG: "The line search should be more stringent compared with those for Newton-like
			// methods ... setting the gradient constant in the strong Wolfe conditions to a small
			// value". With the loose defaults of Bisection{} / MoreThuente{} (0.9) CG may stop early
			// with a line-search Failure; those runs are checked for coherence and counted only.
			strict := !(isCG && (ls == 2 || ls == 3))
			// Steepest descent converges linearly and is stopped by the default FunctionConverge
			// (no decrease of more than 1e-10 in 100 iterations) well before the gradient
			// threshold: its distance bound is 1e-4 (worst observed 3.9e-6), 1e-6 for the others
			// (worst observed 3e-8).
			tol := 1e-6
			if m.name == "GradientDescent" {
				tol = 1e-4
			}
			g.Case(fmt.Sprintf("%s ls=%s", m.name, lsNames[ls]), func(t *vlib.T) {
				runs := 0
				statuses := map[string]int{}
				worst := 0.0
				for _, o := range objs {
					for _, variant := range []int{0, 1} {
						c := &runCfg{m: m, ls: ls, o: o, recMode: -1}
						if variant == 0 {
							c.nilSet = true
						} else {
							c.conc = 2
							c.recMode = 0
						}
						var r runResult
						x := runDefault(c.body(&r), 3000000)
						runs++
						if x.Outcome != "ok" {
							cls := c.failureClass(x.Outcome, r.lg)
							if traceViol {
								fmt.Fprintf(os.Stderr, "VIOL %s | %s | %s\n", cls, x.Outcome, c.String())
							}
							report(t, " cfg="+c.String(), cls, nil, "Minimize did not return normally: %s [%s]", x.Outcome, c.String())
							continue
						}
						if class, msg := c.check(&r); msg != "" {
							if traceViol {
								fmt.Fprintf(os.Stderr, "VIOL %s | %s | %s | %s\n", class, msg, c.String(), describe(&r))
							}
							report(t, " cfg="+c.String(), class, nil, "%s [%s] result: %s", msg, c.String(), describe(&r))
							continue
						}
						statuses[r.res.Status.String()]++
						d := 0.0
						for i := range o.xstar {
							d += (r.res.X[i] - o.xstar[i]) * (r.res.X[i] - o.xstar[i])
						}
						d = math.Sqrt(d)
						rel := d / (1 + norm2(o.xstar))
						if rel > worst {
							worst = rel
						}
						if traceViol && rel > 1e-9 {
							fmt.Fprintf(os.Stderr, "SPD %g | %s | %s\n", rel, c.String(), describe(&r))
						}
						if !(rel <= tol) && !strict {
							t.Count("spd_cg_loose_linesearch_not_converged", 1)
							continue
						}
						if !(rel <= tol) {
							report(t, " cfg="+c.String(), "spd-not-converged", nil, "ended %.3g*(1+|x*|) away from the exact minimiser %v [%s] result: %s", rel, o.xstar, c.String(), describe(&r))
						}
					}
				}
				t.Count("minimize_runs", int64(runs))
				t.Count("traces_validated_against_impl", int64(runs))
				for k, v := range statuses {
					t.Count("spd_status_"+k, int64(v))
				}
				t.Nontrivial()
				t.Outcome(strings.Join(vlib.SortedKeys(statuses), "|"))
				t.Detail(map[string]any{"runs": runs, "statuses": statuses, "worst_relative_distance": worst})
			})
		}
	}
}

var _ = optimize.Success
