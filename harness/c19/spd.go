package main

import (
	"fmt"
	"math"
	"os"
	"strings"

	"gonum.org/v1/gonum/internal/verif/vlib"
	"gonum.org/v1/gonum/optimize"
)

// genSPD: on strictly convex integer quadratics with default settings every
// gradient-based method must end within 1e-6*(1+|x*|) of the exact minimiser
// A^-1 b (computed in big.Rat), with a coherent result.
func genSPD(g *vlib.G) {
	methods := allMethods()
	th := g.Thorough()
	objs := allSPD(th)
	for mi := range methods {
		m := &methods[mi]
		if !m.grad {
			continue
		}
		lss := []int{2, 3}
		if !m.wolfe {
			lss = []int{1, 2, 3} // GradientDescent and Newton accept Armijo steps
		}
		if strings.HasPrefix(m.name, "CG/") {
			lss = []int{0, 2, 3} // 0: the CG default (More-Thuente with curvature 0.1)
		}
		for _, ls := range lss {
			m, ls := m, ls
			g.Case(fmt.Sprintf("%s ls=%s", m.name, lsNames[ls]), func(t *vlib.T) {
				runs := 0
				statuses := map[string]int{}
				worst := 0.0
				for _, o := range objs {
					for _, variant := range []int{0, 1} {
						c := &runCfg{m: m, ls: ls, o: o, recMode: -1}
						if variant == 0 {
							c.nilSet = true
						} else {
							c.conc = 2
							c.recMode = 0
						}
						var r runResult
						x := runDefault(c.body(&r), 3000000)
						runs++
						if x.Outcome != "ok" {
							cls := c.failureClass(x.Outcome, r.lg)
							if traceViol {
								fmt.Fprintf(os.Stderr, "VIOL %s | %s | %s\n", cls, x.Outcome, c.String())
							}
							report(t, " cfg="+c.String(), cls, nil, "Minimize did not return normally: %s [%s]", x.Outcome, c.String())
							continue
						}
						if class, msg := c.check(&r); msg != "" {
							if traceViol {
								fmt.Fprintf(os.Stderr, "VIOL %s | %s | %s | %s\n", class, msg, c.String(), describe(&r))
							}
							report(t, " cfg="+c.String(), class, nil, "%s [%s] result: %s", msg, c.String(), describe(&r))
							continue
						}
						statuses[r.res.Status.String()]++
						d := 0.0
						for i := range o.xstar {
							d += (r.res.X[i] - o.xstar[i]) * (r.res.X[i] - o.xstar[i])
						}
						d = math.Sqrt(d)
						rel := d / (1 + norm2(o.xstar))
						if rel > worst {
							worst = rel
						}
						if traceViol && rel > 1e-9 {
							fmt.Fprintf(os.Stderr, "SPD %g | %s | %s\n", rel, c.String(), describe(&r))
						}
						if !(rel <= 1e-6) {
							report(t, " cfg="+c.String(), "spd-not-converged", nil, "ended %.3g*(1+|x*|) away from the exact minimiser %v [%s] result: %s", rel, o.xstar, c.String(), describe(&r))
						}
					}
				}
				t.Count("minimize_runs", int64(runs))
				t.Count("traces_validated_against_impl", int64(runs))
				for k, v := range statuses {
					t.Count("spd_status_"+k, int64(v))
				}
				t.Nontrivial()
				t.Outcome(strings.Join(vlib.SortedKeys(statuses), "|"))
				t.Detail(map[string]any{"runs": runs, "statuses": statuses, "worst_relative_distance": worst})
			})
		}
	}
}

var _ = optimize.Success
