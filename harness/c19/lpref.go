package main

import (
	"math/big"
)

// Exact reference for linear programs, written in the dumbest possible way:
// Gaussian elimination and enumeration of all bases in math/big.Rat.

type rat = *big.Rat

func rnew(v float64) rat {
	r := new(big.Rat)
	if r.SetFloat64(v) == nil {
		panic("lpref: non-finite datum")
	}
	return r
}

func rzero() rat { return new(big.Rat) }

func rmul(a, b rat) rat { return new(big.Rat).Mul(a, b) }
func radd(a, b rat) rat { return new(big.Rat).Add(a, b) }
func rsub(a, b rat) rat { return new(big.Rat).Sub(a, b) }
func rquo(a, b rat) rat { return new(big.Rat).Quo(a, b) }

func rdot(a, b []rat) rat {
	s := rzero()
	for i := range a {
		s.Add(s, rmul(a[i], b[i]))
	}
	return s
}

// ratSolve solves M z = rhs exactly (M is r x k). It returns a particular
// solution (free variables zero), the rank of M, whether the system is
// consistent, and the pivot columns.
func ratSolve(M [][]rat, rhs []rat) (z []rat, rank int, consistent bool, pivots []int) {
	r := len(M)
	k := 0
	if r > 0 {
		k = len(M[0])
	}
	a := make([][]rat, r)
	for i := range a {
		a[i] = make([]rat, k+1)
		for j := 0; j < k; j++ {
			a[i][j] = new(big.Rat).Set(M[i][j])
		}
		a[i][k] = new(big.Rat).Set(rhs[i])
	}
	row := 0
	for col := 0; col < k && row < r; col++ {
		p := -1
		for i := row; i < r; i++ {
			if a[i][col].Sign() != 0 {
				p = i
				break
			}
		}
		if p < 0 {
			continue
		}
		a[row], a[p] = a[p], a[row]
		inv := new(big.Rat).Inv(a[row][col])
		for j := col; j <= k; j++ {
			a[row][j] = rmul(a[row][j], inv)
		}
		for i := 0; i < r; i++ {
			if i == row || a[i][col].Sign() == 0 {
				continue
			}
			f := new(big.Rat).Set(a[i][col])
			for j := col; j <= k; j++ {
				a[i][j] = rsub(a[i][j], rmul(f, a[row][j]))
			}
		}
		pivots = append(pivots, col)
		row++
	}
	rank = row
	consistent = true
	for i := rank; i < r; i++ {
		if a[i][k].Sign() != 0 {
			consistent = false
		}
	}
	z = make([]rat, k)
	for j := range z {
		z[j] = rzero()
	}
	if consistent {
		for i, col := range pivots {
			z[col] = a[i][k]
		}
	}
	return z, rank, consistent, pivots
}

// ratInverse returns the inverse of the square matrix B or nil if singular.
func ratInverse(B [][]rat) [][]rat {
	n := len(B)
	inv := make([][]rat, n)
	for i := range inv {
		inv[i] = make([]rat, n)
	}
	for j := 0; j < n; j++ {
		e := make([]rat, n)
		for i := range e {
			e[i] = rzero()
		}
		e[j] = big.NewRat(1, 1)
		z, rank, ok, _ := ratSolve(B, e)
		if rank < n || !ok {
			return nil
		}
		for i := 0; i < n; i++ {
			inv[i][j] = z[i]
		}
	}
	return inv
}

type lpClass int

const (
	lpOptimal lpClass = iota
	lpInfeasible
	lpUnbounded
)

func (c lpClass) String() string { return [...]string{"optimal", "infeasible", "unbounded"}[c] }

// stdBasis is one nonsingular basis of a full-row-rank standard-form matrix.
type stdBasis struct {
	cols []int
	inv  [][]rat
}

// stdMatrix holds what depends on A only.
type stdMatrix struct {
	m, n    int
	a       [][]rat // m x n
	rank    int
	zeroCol bool
	zeroRow bool
	bases   []stdBasis             // all nonsingular m-subsets of columns (only if rank == m)
	red     map[string]*reducedSys // rank-deficient A: the reduced system per right-hand side
}

// reducedSys is the full-row-rank system equivalent to [A|b] for one b.
type reducedSys struct {
	ok    bool // false: the equations are inconsistent
	a     [][]rat
	b     []rat
	bases []stdBasis
}

func combos(n, k int, f func(idx []int)) {
	idx := make([]int, k)
	var rec func(start, d int)
	rec = func(start, d int) {
		if d == k {
			f(idx)
			return
		}
		for i := start; i <= n-(k-d); i++ {
			idx[d] = i
			rec(i+1, d+1)
		}
	}
	rec(0, 0)
}

// newStdMatrix prepares the exact data of A; the bases are enumerated unless
// only rank / zero-column information is wanted (rankOnly).
func newStdMatrix(m, n int, a []float64, rankOnly ...bool) *stdMatrix {
	s := &stdMatrix{m: m, n: n}
	s.a = make([][]rat, m)
	for i := 0; i < m; i++ {
		s.a[i] = make([]rat, n)
		allZero := true
		for j := 0; j < n; j++ {
			s.a[i][j] = rnew(a[i*n+j])
			if a[i*n+j] != 0 {
				allZero = false
			}
		}
		if allZero {
			s.zeroRow = true
		}
	}
	for j := 0; j < n; j++ {
		allZero := true
		for i := 0; i < m; i++ {
			if a[i*n+j] != 0 {
				allZero = false
			}
		}
		if allZero {
			s.zeroCol = true
		}
	}
	zero := make([]rat, m)
	for i := range zero {
		zero[i] = rzero()
	}
	_, s.rank, _, _ = ratSolve(s.a, zero)
	if s.rank == m && !(len(rankOnly) > 0 && rankOnly[0]) {
		s.bases = enumBases(s.a, m, n)
	}
	return s
}

func enumBases(a [][]rat, m, n int) []stdBasis {
	var out []stdBasis
	combos(n, m, func(idx []int) {
		B := make([][]rat, m)
		for i := 0; i < m; i++ {
			B[i] = make([]rat, m)
			for k, j := range idx {
				B[i][k] = a[i][j]
			}
		}
		if inv := ratInverse(B); inv != nil {
			out = append(out, stdBasis{cols: append([]int(nil), idx...), inv: inv})
		}
	})
	return out
}

// lpAnswer is the exact answer for one program.
type lpAnswer struct {
	class     lpClass
	opt       rat     // optimal value (class optimal)
	feasible  [][]int // feasible bases (only filled for full-row-rank A)
	precondOK bool    // full row rank and no zero column
	selfCheck string  // non-empty if primal and dual enumeration disagree (reference bug)
}

// primalInfo is what depends on (A, b): the basic solution of every basis.
type primalInfo struct {
	b    []rat
	feas []bool
	xb   [][]rat
}

// dualInfo is what depends on (A, c): the dual basic solution of every basis.
type dualInfo struct {
	c    []rat
	feas []bool
	y    [][]rat
}

func primalOf(bases []stdBasis, m int, b []rat) *primalInfo {
	p := &primalInfo{b: b, feas: make([]bool, len(bases)), xb: make([][]rat, len(bases))}
	for bi, bs := range bases {
		// x_B = B^-1 b
		xb := make([]rat, m)
		pf := true
		for i := 0; i < m; i++ {
			xb[i] = rdot(bs.inv[i], b)
			if xb[i].Sign() < 0 {
				pf = false
			}
		}
		p.feas[bi], p.xb[bi] = pf, xb
	}
	return p
}

func dualOf(a [][]rat, bases []stdBasis, m, n int, c []rat) *dualInfo {
	d := &dualInfo{c: c, feas: make([]bool, len(bases)), y: make([][]rat, len(bases))}
	for bi, bs := range bases {
		// y = B^-T c_B ; dual feasible iff every reduced cost c_j - a_j'y >= 0
		y := make([]rat, m)
		for i := 0; i < m; i++ {
			y[i] = rzero()
			for k, j := range bs.cols {
				y[i].Add(y[i], rmul(bs.inv[k][i], c[j]))
			}
		}
		df := true
		for j := 0; j < n && df; j++ {
			s := rzero()
			for i := 0; i < m; i++ {
				s.Add(s, rmul(a[i][j], y[i]))
			}
			if c[j].Cmp(s) < 0 {
				df = false
			}
		}
		d.feas[bi], d.y[bi] = df, y
	}
	return d
}

// combine classifies min c'x, a x = b, x >= 0 for a full-row-rank a from the
// enumeration of all bases: primal feasible bases give the vertices, a dual
// feasible basis certifies boundedness; strong duality is asserted.
func combine(bases []stdBasis, p *primalInfo, d *dualInfo, wantBases bool) lpAnswer {
	var ans lpAnswer
	var best, dualBest rat
	feasible, dualFeasible := false, false
	for bi, bs := range bases {
		if p.feas[bi] {
			feasible = true
			cost := rzero()
			for k, j := range bs.cols {
				cost.Add(cost, rmul(d.c[j], p.xb[bi][k]))
			}
			if best == nil || cost.Cmp(best) < 0 {
				best = cost
			}
			if wantBases {
				ans.feasible = append(ans.feasible, bs.cols)
			}
		}
		if d.feas[bi] {
			dualFeasible = true
			v := rdot(p.b, d.y[bi])
			if dualBest == nil || v.Cmp(dualBest) > 0 {
				dualBest = v
			}
		}
	}
	switch {
	case !feasible:
		ans.class = lpInfeasible
	case !dualFeasible:
		ans.class = lpUnbounded
	default:
		ans.class = lpOptimal
		ans.opt = best
		if best.Cmp(dualBest) != 0 {
			ans.selfCheck = "reference self-check failed: primal optimum " + best.RatString() + " != dual optimum " + dualBest.RatString()
		}
	}
	return ans
}

func solveFullRank(a [][]rat, bases []stdBasis, m, n int, b, c []rat, wantBases bool) (lpAnswer, bool) {
	return combine(bases, primalOf(bases, m, b), dualOf(a, bases, m, n, c), wantBases), true
}

func ratVec(v []float64) []rat {
	r := make([]rat, len(v))
	for i := range r {
		r[i] = rnew(v[i])
	}
	return r
}

// solve classifies the program (s, b, c) exactly.
func (s *stdMatrix) solve(b, c []float64, wantBases bool) lpAnswer {
	rb := make([]rat, s.m)
	for i := range rb {
		rb[i] = rnew(b[i])
	}
	rc := make([]rat, s.n)
	for j := range rc {
		rc[j] = rnew(c[j])
	}
	if s.rank == s.m {
		ans, _ := solveFullRank(s.a, s.bases, s.m, s.n, rb, rc, wantBases)
		ans.precondOK = !s.zeroCol
		return ans
	}
	// Rank-deficient A: reduce [A|b] to an equivalent full-row-rank system first.
	key := ""
	for _, v := range rb {
		key += v.RatString() + ","
	}
	rs := s.red[key]
	if rs == nil {
		rs = &reducedSys{}
		aug := make([][]rat, s.m)
		for i := range aug {
			aug[i] = append(append([]rat(nil), s.a[i]...), rb[i])
		}
		red, ok := rowReduce(aug, s.n)
		rs.ok = ok
		if ok {
			r := len(red)
			rs.a = make([][]rat, r)
			rs.b = make([]rat, r)
			for i := range red {
				rs.a[i] = red[i][:s.n]
				rs.b[i] = red[i][s.n]
			}
			if r > 0 {
				rs.bases = enumBases(rs.a, r, s.n)
			}
		}
		if s.red == nil {
			s.red = map[string]*reducedSys{}
		}
		s.red[key] = rs
	}
	if !rs.ok {
		return lpAnswer{class: lpInfeasible}
	}
	r := len(rs.a)
	if r == 0 {
		// no constraint left: x >= 0 only
		for _, cj := range rc {
			if cj.Sign() < 0 {
				return lpAnswer{class: lpUnbounded}
			}
		}
		return lpAnswer{class: lpOptimal, opt: rzero()}
	}
	ans, _ := solveFullRank(rs.a, rs.bases, r, s.n, rs.b, rc, false)
	ans.feasible = nil
	ans.precondOK = false
	return ans
}

// rowReduce brings the augmented matrix [A|b] (k = number of columns of A) to
// reduced row echelon form and returns the non-zero rows; ok is false if a row
// 0 = nonzero appears (the equations are inconsistent).
func rowReduce(aug [][]rat, k int) (rows [][]rat, ok bool) {
	r := len(aug)
	a := make([][]rat, r)
	for i := range a {
		a[i] = make([]rat, k+1)
		for j := range a[i] {
			a[i][j] = new(big.Rat).Set(aug[i][j])
		}
	}
	row := 0
	for col := 0; col < k && row < r; col++ {
		p := -1
		for i := row; i < r; i++ {
			if a[i][col].Sign() != 0 {
				p = i
				break
			}
		}
		if p < 0 {
			continue
		}
		a[row], a[p] = a[p], a[row]
		inv := new(big.Rat).Inv(a[row][col])
		for j := col; j <= k; j++ {
			a[row][j] = rmul(a[row][j], inv)
		}
		for i := 0; i < r; i++ {
			if i == row || a[i][col].Sign() == 0 {
				continue
			}
			f := new(big.Rat).Set(a[i][col])
			for j := col; j <= k; j++ {
				a[i][j] = rsub(a[i][j], rmul(f, a[row][j]))
			}
		}
		row++
	}
	for i := row; i < r; i++ {
		if a[i][k].Sign() != 0 {
			return nil, false
		}
	}
	return a[:row], true
}

// ---------------------------------------------------------------- general form

// genAnswer is the exact answer for min c'x s.t. Gx <= h, Ax = b, x free.
type genAnswer struct {
	class lpClass
	opt   rat
}

// solveGeneral enumerates the candidate minimal faces {G_T x = h_T, Ax = b}
// over all subsets T of the inequalities (a feasible particular solution of a
// consistent system lies in the polyhedron; every minimal face is such a
// system), and certifies boundedness by a dual solution c + G'lambda + A'mu = 0,
// lambda >= 0 found by enumerating supports.
func solveGeneral(nv int, G [][]rat, h []rat, A [][]rat, b []rat, c []rat) genAnswer {
	p, q := len(G), len(A)
	var best rat
	feasible := false
	for mask := 0; mask < 1<<p; mask++ {
		var M [][]rat
		var rhs []rat
		for i := 0; i < p; i++ {
			if mask>>i&1 == 1 {
				M = append(M, G[i])
				rhs = append(rhs, h[i])
			}
		}
		for k := 0; k < q; k++ {
			M = append(M, A[k])
			rhs = append(rhs, b[k])
		}
		var x []rat
		if len(M) == 0 {
			x = make([]rat, nv)
			for j := range x {
				x[j] = rzero()
			}
		} else {
			z, _, ok, _ := ratSolve(M, rhs)
			if !ok {
				continue
			}
			x = z
		}
		ok := true
		for i := 0; i < p && ok; i++ {
			if rdot(G[i], x).Cmp(h[i]) > 0 {
				ok = false
			}
		}
		if !ok {
			continue
		}
		feasible = true
		v := rdot(c, x)
		if best == nil || v.Cmp(best) < 0 {
			best = v
		}
	}
	if !feasible {
		return genAnswer{class: lpInfeasible}
	}
	// dual feasibility: sum_{i in T} lambda_i g_i + sum_k mu_k a_k = -c, lambda >= 0
	negc := make([]rat, nv)
	for j := range negc {
		negc[j] = new(big.Rat).Neg(c[j])
	}
	bounded := false
	for mask := 0; mask < 1<<p && !bounded; mask++ {
		var cols [][]rat // each generator as a column
		nl := 0
		for i := 0; i < p; i++ {
			if mask>>i&1 == 1 {
				cols = append(cols, G[i])
				nl++
			}
		}
		for k := 0; k < q; k++ {
			cols = append(cols, A[k])
		}
		M := make([][]rat, nv)
		for j := 0; j < nv; j++ {
			M[j] = make([]rat, len(cols))
			for k := range cols {
				M[j][k] = cols[k][j]
			}
		}
		if len(cols) == 0 {
			allZero := true
			for _, v := range negc {
				if v.Sign() != 0 {
					allZero = false
				}
			}
			bounded = allZero
			continue
		}
		z, _, ok, _ := ratSolve(M, negc)
		if !ok {
			continue
		}
		good := true
		for k := 0; k < nl; k++ {
			if z[k].Sign() < 0 {
				good = false
			}
		}
		if good {
			bounded = true
		}
	}
	if !bounded {
		return genAnswer{class: lpUnbounded}
	}
	return genAnswer{class: lpOptimal, opt: best}
}
