package main

import (
	"fmt"
	"sync/atomic"
	"syscall"
	"time"

	"gonum.org/v1/gonum/internal/verif/vlib"
)

// lp.Simplex is ordinary sequential code that cannot be interrupted. A call
// that never returns (cycling) would hang the whole check, so the programs of a
// case are run in a worker goroutine that publishes its progress; the case body
// watches the CPU time of the process and, when one call has consumed
// hangCPU seconds of CPU time of this process (scaled by the number of workers
// already abandoned, which compete for the CPU) without returning - a normal
// call takes well under a millisecond, a 10 000-fold margin - reports that program as non-terminating and abandons the
// worker. CPU time, not wall-clock time, so that machine load cannot trigger it.

const hangCPU = 10 * time.Second

var leakedSpinners int64 // abandoned workers still spinning in this process

type lpGuard struct {
	progress  int64
	abandoned int32
	done      int32
	current   atomic.Value // func() string
	panicVal  atomic.Value
}

type abandonSentinel struct{}

func cpuNow() time.Duration {
	var ru syscall.Rusage
	if err := syscall.Getrusage(syscall.RUSAGE_SELF, &ru); err != nil {
		panic("ENGINE: getrusage: " + err.Error())
	}
	return time.Duration(ru.Utime.Nano() + ru.Stime.Nano())
}

// mark is called by the worker immediately before every call of the code under test.
func (g *lpGuard) mark(desc func() string) {
	if atomic.LoadInt32(&g.abandoned) != 0 {
		panic(abandonSentinel{})
	}
	g.current.Store(desc)
	atomic.AddInt64(&g.progress, 1)
}

// returned is called by the worker immediately after the code under test returned.
func (g *lpGuard) returned() {
	if atomic.LoadInt32(&g.abandoned) != 0 {
		panic(abandonSentinel{})
	}
	atomic.AddInt64(&g.progress, 1)
}

type panicBox struct{ v any }

// runGuarded runs work(g) in a worker goroutine. It returns false if the
// worker was abandoned because a call did not return.
func runGuarded(t *vlib.T, work func(g *lpGuard)) bool {
	g := &lpGuard{}
	go func() {
		defer func() {
			if e := recover(); e != nil {
				if _, ok := e.(abandonSentinel); !ok {
					g.panicVal.Store(panicBox{e})
				}
			}
			atomic.StoreInt32(&g.done, 1)
		}()
		work(g)
	}()
	last := atomic.LoadInt64(&g.progress)
	base := cpuNow()
	sleep := 200 * time.Microsecond
	for {
		if atomic.LoadInt32(&g.done) != 0 {
			if pb, ok := g.panicVal.Load().(panicBox); ok {
				panic(pb.v)
			}
			return true
		}
		time.Sleep(sleep)
		if sleep < 20*time.Millisecond {
			sleep *= 2
		}
		if p := atomic.LoadInt64(&g.progress); p != last {
			last, base = p, cpuNow()
			continue
		}
		limit := hangCPU * time.Duration(1+atomic.LoadInt64(&leakedSpinners))
		if cpuNow()-base > limit && atomic.LoadInt64(&g.progress) == last && atomic.LoadInt32(&g.done) == 0 {
			atomic.StoreInt32(&g.abandoned, 1)
			atomic.AddInt64(&leakedSpinners, 1)
			desc := "?"
			if f, ok := g.current.Load().(func() string); ok {
				desc = f()
			}
			t.NoConfirm() // a re-run would only leave more spinning goroutines behind
			report(t, " "+desc, "lp-no-termination", nil, "lp.Simplex did not return after %v of CPU time (a normal call takes < 1 ms) [%s]", hangCPU, desc)
			t.Count("lp_hangs", 1)
			if !singleProgram(t) {
				// the programs after the hanging one were not checked
				t.Incomplete(fmt.Sprintf("case %s abandoned after a non-terminating call", t.Key))
			}
			return false
		}
	}
}

// singleProgram reports whether the case consists of one program only (then
// nothing is left unchecked when its call is abandoned).
func singleProgram(t *vlib.T) bool { return t.Group == "lp-cycling" }
