package main

import (
	"fmt"
	"strings"

	"gonum.org/v1/gonum/internal/verif/vlib"
	"gonum.org/v1/gonum/internal/verif/vsched"
)

// This file is a copy (minus the -race companion mode) of the exploration
// driver of harness/c09/common.go: iterated delay / preemption bounding of
// every goroutine schedule of a scenario body.

func execBudget(g *vlib.G) int { return vlib.Pick(g, 12000, 240000) }

// explore runs body under every schedule family. check receives the execution
// and must return "" when the property holds for that schedule.
func explore(t *vlib.T, g *vlib.G, body func(), check func(x *vsched.Exec) string) {
	defer func() {
		if e := recover(); e != nil {
			if ee, ok := e.(vsched.EngineError); ok {
				// engine inconsistencies are never reported as violations
				panic("ENGINE: " + string(ee))
			}
			panic(e)
		}
	}()
	outcomes := map[string]int{}
	x0 := vsched.Run(body, vsched.Options{})
	families := []struct {
		name   string
		policy int
		pre    bool
	}{{"pb/lowest", 0, true}, {"db/lowest", 0, false}, {"db/highest", 1, false}, {"db/roundrobin", 2, false}}
	share := execBudget(g) / len(families)
	detail := map[string]any{}
	failed := false
	for _, f := range families {
		completed := 0
		spent := 0
		for n := 1; n <= 6 && !failed; n++ {
			b := vsched.Bound{Preemptions: -1, Delays: -1, MaxExecs: share - spent}
			if f.pre {
				b.Preemptions = n
			} else {
				b.Delays = n
			}
			st, v := vsched.Explore(body, vsched.Options{DefaultPolicy: f.policy}, b, func(x *vsched.Exec) string {
				if x.Outcome != "ok" {
					return "schedule ends in " + x.Outcome
				}
				return check(x)
			})
			spent += st.Executions
			t.Count("schedules", int64(st.Executions))
			t.Count("traces_validated_against_impl", int64(st.Executions))
			t.Count("transitions", st.Transitions)
			t.Max("points_per_execution", int64(st.MaxPoints))
			t.Max("goroutines", int64(st.MaxGoroutines))
			for k, c := range st.Outcomes {
				outcomes[k] += c
			}
			if v != nil {
				failed = true
				name := fmt.Sprintf("%s bound=%d", f.name, n)
				t.SubViolation(" plan="+name+" schedule="+fmt.Sprint(v.Choices), "schedule", map[string]any{"plan": name, "choices": v.Choices, "trace_tail": tail(v.Trace, 80)}, "%s [plan %s, schedule %v, %d steps; trace tail: %s]", v.Msg, name, v.Choices, len(v.Trace), strings.Join(tail(v.Trace, 14), "; "))
				break
			}
			if st.CapHit {
				break
			}
			completed = n
			detail[f.name] = map[string]any{"completed_bound": n, "executions": st.Executions, "distinct_traces": st.DistinctTraces, "points_min": st.MinPoints, "points_max": st.MaxPoints}
			if st.Executions == 1 || st.Executions*6 > share-spent {
				break
			}
		}
		if d, ok := detail[f.name].(map[string]any); ok {
			t.Count("states", int64(d["distinct_traces"].(int)))
		}
		t.Count(fmt.Sprintf("scenarios_with_%s_completed_bound_%d", f.name, completed), 1)
		if completed == 0 && !failed && !f.pre {
			// the declared space is "delay bound >= 1 under each default scheduler";
			// the preemption-bounded family is reported (counters) but optional.
			t.Incomplete("delay bound 1 of " + f.name + " hit the execution cap")
		}
		if failed {
			break
		}
	}
	detail["decisions_default_schedule"] = len(x0.Decisions)
	t.Detail(detail)
	t.Nontrivial()
	ks := vlib.SortedKeys(outcomes)
	t.Outcome(strings.Join(ks, "|"))
}

func tail(s []string, n int) []string {
	if len(s) > n {
		return s[len(s)-n:]
	}
	return s
}

// runDefault runs body once under the deterministic default schedule.
func runDefault(body func(), maxSteps int) *vsched.Exec {
	defer func() {
		if e := recover(); e != nil {
			if ee, ok := e.(vsched.EngineError); ok {
				panic("ENGINE: " + string(ee))
			}
			panic(e)
		}
	}()
	return vsched.Run(body, vsched.Options{MaxSteps: maxSteps})
}

// report records a violation found inside a case and counts it by class
// (coverage.counters "alarm_<class>"), so that the classes that fired are
// visible in the evidence.
func report(t *vlib.T, sub, class string, detail any, format string, a ...any) {
	t.Count("alarm_"+class, 1)
	t.SubViolation(sub, class, detail, format, a...)
}
