package main

import (
	"fmt"
	"math"
	"math/rand/v2"
	"strings"

	"gonum.org/v1/gonum/internal/verif/vlib"
	"gonum.org/v1/gonum/mat"
	"gonum.org/v1/gonum/optimize"
)

// Group reuse: a Method value may be used for several Minimize calls (Init
// must reset all state). For every method x line searcher, run A = Minimize on
// problem P1 stopped by every early-termination cause at every evaluation
// index up to a bound (and completed, and ended in an error), then run B =
// Minimize on a second problem P2 of another dimension with the SAME method
// (and line searcher) value. Differential oracle, no expected values: the
// complete observable trace of run B (every callback with its argument and
// answer, every record, the Result) must be identical bit for bit to the trace
// of run B with a fresh method value. Both A and the reused B must also
// satisfy the result oracle.

// cosh1 is f(x) = exp(10x) + exp(-10x) from x = 0.1: the first trial step of a
// descent method overshoots the minimum by far, so a line search has to work.
func cosh1() *objective {
	return &objective{name: "cosh(10x)", kind: "cat", dim: 1, x0: []float64{0.1}, mk: func() *objInst {
		return &objInst{
			f: func(x []float64) float64 { return math.Exp(10*x[0]) + math.Exp(-10*x[0]) },
			g: func(g, x []float64) { g[0] = 10 * (math.Exp(10*x[0]) - math.Exp(-10*x[0])) },
			h: func(h *mat.SymDense, x []float64) { h.SetSym(0, 0, 100*(math.Exp(10*x[0])+math.Exp(-10*x[0]))) },
		}
	}}
}

// nanAtCall is the convex quadratic quadBase whose Func (what = "f") or Grad
// (what = "g") returns NaN at its k-th call only.
func nanAtCall(what string, k int) *objective {
	return &objective{name: fmt.Sprintf("quad2 %s=NaN at call %d", what, k), kind: "gradnan", dim: 2, x0: []float64{3, 2}, mk: func() *objInst {
		nf, ng := 0, 0
		return &objInst{
			f: func(x []float64) float64 {
				nf++
				if what == "f" && nf == k {
					return math.NaN()
				}
				return quadBaseF(x)
			},
			g: func(g, x []float64) {
				ng++
				quadBaseG(g, x)
				if what == "g" && ng == k {
					g[0], g[1] = math.NaN(), math.NaN()
				}
			},
			h: quadBaseH,
		}
	}}
}

// retarget sets the user-visible fields of a used method value for problem o,
// exactly as a fresh value for o is configured by methodSpec.mk.
func retarget(m optimize.Method, o *objective) {
	switch v := m.(type) {
	case *optimize.ListSearch:
		v.Locs = listLocs(o)
	case *optimize.GuessAndCheck:
		v.Rander = &cycleRander{x0: o.x0}
	case *optimize.CmaEsChol:
		v.Src = rand.NewPCG(1, 1)
	}
}

// stopVariant is one way run A ends.
type stopVariant struct {
	name string
	o    *objective
	set  func(c *runCfg)
}

func stopVariants(m *methodSpec, K int, p1s []*objective) []stopVariant {
	var out []stopVariant
	capF := func(c *runCfg) {
		// keep run A short where nothing else ends it soon
		if c.limF == 0 {
			c.limF = 80
		}
	}
	for _, o := range p1s {
		o := o
		add := func(name string, set func(c *runCfg)) {
			out = append(out, stopVariant{name: name + " on " + o.name, o: o, set: set})
		}
		for k := 1; k <= K; k++ {
			k := k
			add(fmt.Sprintf("FuncEvaluations=%d", k), func(c *runCfg) { c.limF = k })
			add(fmt.Sprintf("MajorIterations=%d", k), func(c *runCfg) { c.limIt = k; capF(c) })
			if m.grad {
				add(fmt.Sprintf("GradEvaluations=%d", k), func(c *runCfg) { c.limG = k; capF(c) })
			}
			if m.hess {
				add(fmt.Sprintf("HessEvaluations=%d", k), func(c *runCfg) { c.limH = k; capF(c) })
			}
			add(fmt.Sprintf("Status=Success@%d", k), func(c *runCfg) { c.status = statusMode{at: k, st: optimize.Success}; capF(c) })
			add(fmt.Sprintf("Status=error@%d", k), func(c *runCfg) {
				c.status = statusMode{at: k, st: optimize.Failure, err: errStatus}
				capF(c)
			})
			add(fmt.Sprintf("RecorderError@%d", k), func(c *runCfg) { c.recMode = k; capF(c) })
		}
		add("completed", func(c *runCfg) {
			if !(o.kind == "spd" && m.local) && m.name != "ListSearch" {
				capF(c)
			}
		})
	}
	// runs that end in an error of the method
	for k := 1; k <= K; k++ {
		o := nanAtCall("f", k)
		out = append(out, stopVariant{name: "error: " + o.name, o: o, set: capF})
		if m.grad {
			o := nanAtCall("g", k)
			out = append(out, stopVariant{name: "error: " + o.name, o: o, set: capF})
		}
	}
	return out
}

// observable is everything visible about a run, for the differential comparison.
func observable(r *runResult) []string {
	var ev []string
	ev = append(ev, r.lg.trace...)
	ev = append(ev, fmt.Sprintf("Status calls=%d RecorderInit=%d", r.lg.nStatus, r.lg.nRecInit))
	for i, e := range r.lg.recs {
		ev = append(ev, fmt.Sprintf("Record#%d op=%v F=%s X=%s grad=%v:%s stats=%d/%d/%d/%d", i, e.op, bitsOf([]float64{e.f}), bitsOf(e.x), e.g != nil, bitsOf(e.g),
			e.stats.MajorIterations, e.stats.FuncEvaluations, e.stats.GradEvaluations, e.stats.HessEvaluations))
	}
	if r.res == nil {
		ev = append(ev, fmt.Sprintf("Result nil err=%v", r.err))
	} else {
		ev = append(ev, fmt.Sprintf("Result X=%s F=%s grad=%v:%s status=%v err=%v stats=%d/%d/%d/%d", bitsOf(r.res.X), bitsOf([]float64{r.res.F}), r.res.Gradient != nil, bitsOf(r.res.Gradient),
			r.res.Status, r.err, r.res.Stats.MajorIterations, r.res.Stats.FuncEvaluations, r.res.Stats.GradEvaluations, r.res.Stats.HessEvaluations))
	}
	return ev
}

func genReuse(g *vlib.G) {
	methods := allMethods()
	K := vlib.Pick(g, 8, 14)
	p1s := []*objective{sweepSPD()[1], rosenbrock2()}
	// P2: another dimension below and above P1's, and the same dimension (buffers are then
	// reused without reallocation) with a longer run B.
	p2s := []*objective{cosh1(), sweepSPD()[2], catalogue()[1]}
	for mi := range methods {
		m := &methods[mi]
		lss := []int{0}
		if m.usesLS {
			lss = []int{1, 2, 3}
		}
		for _, ls := range lss {
			m, ls := m, ls
			g.Case(fmt.Sprintf("%s ls=%s", m.name, lsNames[ls]), func(t *vlib.T) {
				conc := 0
				if !m.local {
					conc = 2
				}
				runs, pairs, differing := 0, 0, 0
				endings := map[string]int{}
				bad := 0
				fail := func(sub, class, format string, a ...any) {
					bad++
					if bad <= 4 {
						report(t, sub, class, nil, format, a...)
					}
				}
				exec := func(c *runCfg) *runResult {
					var r runResult
					x := runDefault(c.body(&r), c.horizon())
					runs++
					if x.Outcome != "ok" {
						fail(" cfg="+c.String(), c.failureClass(x.Outcome, r.lg), "Minimize did not return normally: %s [%s]", x.Outcome, c.String())
						return nil
					}
					return &r
				}
				for _, p2 := range p2s {
					// run B: a bounded run with a recorder, so that every step is observable
					cfgB := func(method optimize.Method) *runCfg {
						c := &runCfg{m: m, ls: ls, o: p2, limF: 40, limIt: 6, conc: conc, recMode: 0, trace: true, method: method}
						if p2.name == "Beale" {
							c.limF, c.limIt = 160, 30
						}
						return c
					}
					fresh := exec(cfgB(nil))
					if fresh == nil {
						continue
					}
					want := observable(fresh)
					for _, sv := range stopVariants(m, K, p1s) {
						method := m.mk(mkLS(ls), sv.o)
						cA := &runCfg{m: m, ls: ls, o: sv.o, conc: conc, recMode: -1, method: method}
						sv.set(cA)
						rA := exec(cA)
						if rA == nil {
							continue
						}
						sub := fmt.Sprintf(" A=[%s] B=%s", sv.name, p2.name)
						if class, msg := cA.check(rA); msg != "" {
							fail(sub+" (run A)", class, "run A: %s [%s] result: %s", msg, cA.String(), describe(rA))
						}
						if rA.res != nil {
							endings[rA.res.Status.String()]++
						} else {
							endings["nil-result"]++
						}
						retarget(method, p2)
						cB := cfgB(method)
						rB := exec(cB)
						if rB == nil {
							continue
						}
						pairs++
						got := observable(rB)
						if d := firstDiff(want, got); d != "" {
							differing++
							fail(sub, "reuse-state-leak-"+strings.ToLower(strings.ReplaceAll(m.name, "/", "-")), "run B on %s with a %s value that has been through run A (%s; A ended %s) differs from run B with a fresh value: %s; reused result: %s; fresh result: %s",
								p2.name, m.name, sv.name, describe(rA), d, describe(rB), describe(fresh))
							continue
						}
						if class, msg := cB.check(rB); msg != "" {
							fail(sub+" (run B)", class, "run B (reused method): %s [%s] result: %s", msg, cB.String(), describe(rB))
						}
					}
				}
				t.Count("minimize_runs", int64(runs))
				t.Count("traces_validated_against_impl", int64(runs))
				t.Count("reuse_pairs", int64(pairs))
				t.Count("reuse_pairs_differing", int64(differing))
				for k, v := range endings {
					t.Count("reuse_runA_"+k, int64(v))
				}
				t.Nontrivial()
				t.Outcome(strings.Join(vlib.SortedKeys(endings), "|"))
				t.Detail(map[string]any{"pairs": pairs, "run_A_endings": endings})
			})
		}
	}
}

// firstDiff describes the first difference between two event traces ("" if equal).
func firstDiff(want, got []string) string {
	n := min(len(want), len(got))
	for i := 0; i < n; i++ {
		if want[i] != got[i] {
			return fmt.Sprintf("event %d of %d/%d: fresh {%s} reused {%s}", i, len(want), len(got), want[i], got[i])
		}
	}
	if len(want) != len(got) {
		more := want
		if len(got) > len(want) {
			more = got
		}
		return fmt.Sprintf("fresh run has %d events, reused run %d; first extra event {%s}", len(want), len(got), more[n])
	}
	return ""
}

// ---------------------------------------------------------------- A-stop x B-stop

// Group reusex: the cross product of how run A ends with how run B ends. Group
// reuse lets run B go on for several iterations, so state that run B itself
// overwrites early (CmaEsChol's per-sample values after its first complete
// generation, the first line search of a local method) is only visible when B
// is stopped early too. Here run B is stopped by every cause at every index
// 1..K as well, for the multi-task methods with Concurrent 1, 2, 3 in full and
// for the local methods in a thin version (full in the thorough tier). P1 also
// comes with its values lowered by 100, so that anything left over from run A
// looks better than everything run B evaluates.

func lowered(o *objective, by float64) *objective {
	c := *o
	c.name = fmt.Sprintf("%s-%g", o.name, by)
	c.mk = func() *objInst {
		in := o.mk()
		return &objInst{f: func(x []float64) float64 { return in.f(x) - by }, g: in.g, h: in.h}
	}
	c.xstar = nil
	return &c
}

type bStop struct {
	name string
	set  func(c *runCfg)
}

func bStops(m *methodSpec, K int, thin bool) []bStop {
	var out []bStop
	add := func(name string, set func(c *runCfg)) { out = append(out, bStop{name, set}) }
	for k := 1; k <= K; k++ {
		k := k
		if thin && k > 3 {
			break
		}
		add(fmt.Sprintf("F=%d", k), func(c *runCfg) { c.limF = k })
		if !thin || k <= 2 {
			add(fmt.Sprintf("It=%d", k), func(c *runCfg) { c.limIt = k })
			if m.grad {
				add(fmt.Sprintf("G=%d", k), func(c *runCfg) { c.limG = k })
			}
		}
		if m.hess && (!thin || k <= 2) {
			add(fmt.Sprintf("H=%d", k), func(c *runCfg) { c.limH = k })
		}
		if !thin || k == 2 || k == 3 {
			add(fmt.Sprintf("Rec@%d", k), func(c *runCfg) { c.recMode = k })
		}
		if !thin {
			add(fmt.Sprintf("Status@%d", k), func(c *runCfg) { c.status = statusMode{at: k, st: optimize.Success} })
		}
	}
	return out
}

func genReuseCross(g *vlib.G) {
	methods := allMethods()
	th := g.Thorough()
	K := vlib.Pick(g, 5, 9)
	spd2 := sweepSPD()[1]
	p1s := []*objective{spd2, lowered(spd2, 100), lowered(rosenbrock2(), 100)}
	for mi := range methods {
		m := &methods[mi]
		lss := []int{0}
		if m.usesLS {
			lss = []int{1, 2, 3}
		}
		concs := []int{0}
		if !m.local {
			concs = []int{1, 2, 3}
		}
		thin := m.local && !th
		p2s := []*objective{catalogue()[1]}
		if !m.local || th {
			p2s = append(p2s, sweepSPD()[2])
		}
		for _, ls := range lss {
			for _, conc := range concs {
				m, ls, conc := m, ls, conc
				g.Case(fmt.Sprintf("%s ls=%s conc=%d", m.name, lsNames[ls], conc), func(t *vlib.T) {
					runs, pairs, differing, bad := 0, 0, 0, 0
					fail := func(sub, class, format string, a ...any) {
						bad++
						if bad <= 4 {
							report(t, sub, class, nil, format, a...)
						}
					}
					exec := func(c *runCfg) *runResult {
						var r runResult
						x := runDefault(c.body(&r), c.horizon())
						runs++
						if x.Outcome != "ok" {
							fail(" cfg="+c.String(), c.failureClass(x.Outcome, r.lg), "Minimize did not return normally: %s [%s]", x.Outcome, c.String())
							return nil
						}
						return &r
					}
					svs := stopVariants(m, K, p1s)
					for _, p2 := range p2s {
						for _, bs := range bStops(m, K, thin) {
							cfgB := func(method optimize.Method) *runCfg {
								c := &runCfg{m: m, ls: ls, o: p2, limF: 40, limIt: 6, conc: conc, recMode: 0, trace: true, method: method}
								bs.set(c)
								return c
							}
							fresh := exec(cfgB(nil))
							if fresh == nil {
								continue
							}
							want := observable(fresh)
							for _, sv := range svs {
								method := m.mk(mkLS(ls), sv.o)
								cA := &runCfg{m: m, ls: ls, o: sv.o, conc: conc, recMode: -1, method: method}
								sv.set(cA)
								rA := exec(cA)
								if rA == nil {
									continue
								}
								retarget(method, p2)
								cB := cfgB(method)
								rB := exec(cB)
								if rB == nil {
									continue
								}
								pairs++
								sub := fmt.Sprintf(" A=[%s] B=%s stopped by %s", sv.name, p2.name, bs.name)
								if d := firstDiff(want, observable(rB)); d != "" {
									differing++
									fail(sub, "reuse-state-leak-"+strings.ToLower(strings.ReplaceAll(m.name, "/", "-")), "run B on %s (stopped by %s) with a %s value that has been through run A (%s; A ended %s) differs from run B with a fresh value: %s; reused result: %s; fresh result: %s",
										p2.name, bs.name, m.name, sv.name, describe(rA), d, describe(rB), describe(fresh))
									continue
								}
								if class, msg := cB.check(rB); msg != "" {
									fail(sub+" (run B)", class, "run B (reused method): %s [%s] result: %s", msg, cB.String(), describe(rB))
								}
							}
						}
					}
					t.Count("minimize_runs", int64(runs))
					t.Count("traces_validated_against_impl", int64(runs))
					t.Count("reuse_cross_pairs", int64(pairs))
					t.Count("reuse_cross_pairs_differing", int64(differing))
					t.Nontrivial()
					t.Outcome(fmt.Sprintf("differing=%v", differing > 0))
				})
			}
		}
	}
}
