package main

import (
	"errors"
	"fmt"
	"math"
	"strings"

	"gonum.org/v1/gonum/internal/verif/vlib"
	"gonum.org/v1/gonum/optimize"
)

// Group lsadv: the Linesearchers as state machines (E2 style). Every sequence
// of answers from a small adversarial alphabet - function values below, at and
// above phi(0), NaN, +Inf; derivatives of both signs, small and large, NaN - is
// fed to Init/Iterate up to a depth bound (depth-first over copies of the
// Linesearcher value). Whatever the history, a step declared MajorIteration
// must satisfy the advertised condition for the values that were actually
// returned for that step, an error must be one of the documented ones, and the
// operation must be a valid evaluation request.

type advLS struct {
	name   string
	init   func(f0, g0, step float64) (optimize.Operation, any)
	iter   func(state any, f, g float64) (optimize.Operation, float64, error, any)
	accept func(f0, g0, s, fs, gs float64, haveG bool) (bool, string)
}

func advSpecs() []advLS {
	slack := func(f0, g0, s float64) float64 { return 1e-12 * (math.Abs(f0) + math.Abs(s*g0)) }
	var out []advLS
	for _, dec := range []float64{0, 0.5} {
		dec := dec
		c1 := dec
		if c1 == 0 {
			c1 = 1e-4
		}
		out = append(out, advLS{
			name: fmt.Sprintf("Backtracking{Decrease:%g}", dec),
			init: func(f0, g0, step float64) (optimize.Operation, any) {
				b := optimize.Backtracking{DecreaseFactor: dec}
				op := b.Init(f0, g0, step)
				return op, b
			},
			iter: func(st any, f, g float64) (optimize.Operation, float64, error, any) {
				b := st.(optimize.Backtracking)
				op, s, err := b.Iterate(f, g)
				return op, s, err, b
			},
			accept: func(f0, g0, s, fs, gs float64, haveG bool) (bool, string) {
				return fs <= f0+c1*s*g0+slack(f0, g0, s), fmt.Sprintf("Armijo: phi(s) <= phi(0) + %g*s*phi'(0)", c1)
			},
		})
	}
	for _, cur := range []float64{0, 0.1} {
		cur := cur
		c2 := cur
		if c2 == 0 {
			c2 = 0.9
		}
		out = append(out, advLS{
			name: fmt.Sprintf("Bisection{Curvature:%g}", cur),
			init: func(f0, g0, step float64) (optimize.Operation, any) {
				b := optimize.Bisection{CurvatureFactor: cur}
				op := b.Init(f0, g0, step)
				return op, b
			},
			iter: func(st any, f, g float64) (optimize.Operation, float64, error, any) {
				b := st.(optimize.Bisection)
				op, s, err := b.Iterate(f, g)
				return op, s, err, b
			},
			accept: func(f0, g0, s, fs, gs float64, haveG bool) (bool, string) {
				return fs <= f0 && haveG && math.Abs(gs) < c2*math.Abs(g0), fmt.Sprintf("strong Wolfe: phi(s) <= phi(0) and |phi'(s)| < %g*|phi'(0)|", c2)
			},
		})
	}
	for _, dec := range []float64{0, 0.1} {
		for _, cur := range []float64{0, 0.3} {
			dec, cur := dec, cur
			c2 := cur
			if c2 == 0 {
				c2 = 0.9
			}
			out = append(out, advLS{
				name: fmt.Sprintf("MoreThuente{Decrease:%g,Curvature:%g}", dec, cur),
				init: func(f0, g0, step float64) (optimize.Operation, any) {
					b := optimize.MoreThuente{DecreaseFactor: dec, CurvatureFactor: cur}
					op := b.Init(f0, g0, step)
					return op, b
				},
				iter: func(st any, f, g float64) (optimize.Operation, float64, error, any) {
					b := st.(optimize.MoreThuente)
					op, s, err := b.Iterate(f, g)
					return op, s, err, b
				},
				accept: func(f0, g0, s, fs, gs float64, haveG bool) (bool, string) {
					return fs <= f0+dec*s*g0+slack(f0, g0, s) && haveG && math.Abs(gs) <= c2*math.Abs(g0)*(1+1e-14), fmt.Sprintf("strong Wolfe: phi(s) <= phi(0) + %g*s*phi'(0) and |phi'(s)| <= %g*|phi'(0)|", dec, c2)
				},
			})
		}
	}
	return out
}

func genLSAdversarial(g *vlib.G) {
	nan, inf := math.NaN(), math.Inf(1)
	fAlpha := []float64{-1, -0.05, 0, 0.05, 0.1, 1, nan, inf}
	gAlpha := []float64{-2, -0.5, -0.05, 0.05, 0.5, 2, nan}
	type start struct{ f0, g0, step float64 }
	starts := []start{{0, -1, 1}, {0, -1, 8}, {2, -0.25, 0.5}}
	for _, sp := range advSpecs() {
		for _, st := range starts {
			sp, st := sp, st
			pair := strings.HasPrefix(sp.name, "MoreThuente")
			depth := vlib.Pick(g, 5, 6)
			if pair {
				depth = vlib.Pick(g, 3, 4) // an answer is a pair (f, g): 56 per step
			}
			g.Case(fmt.Sprintf("%s phi(0)=%g phi'(0)=%g step=%g depth=%d", sp.name, st.f0, st.g0, st.step, depth), func(t *vlib.T) {
				var nodes, accepted, errs int64
				bad := 0
				fail := func(hist []string, class, format string, a ...any) {
					bad++
					if bad <= 3 {
						report(t, " history="+strings.Join(hist, ";"), class, nil, "%s from phi(0)=%g phi'(0)=%g step %g after answers [%s]: %s", sp.name, st.f0, st.g0, st.step, strings.Join(hist, "; "), fmt.Sprintf(format, a...))
					}
				}
				// f0-relative answers
				var rec func(state any, op optimize.Operation, cur float64, haveF, haveG bool, fs, gs float64, d int, hist []string)
				rec = func(state any, op optimize.Operation, cur float64, haveF, haveG bool, fs, gs float64, d int, hist []string) {
					if d == depth {
						return
					}
					switch op {
					case optimize.FuncEvaluation, optimize.GradEvaluation, optimize.FuncEvaluation | optimize.GradEvaluation:
					default:
						fail(hist, "linesearch-protocol", "invalid operation %v requested", op)
						return
					}
					fas, gas := []float64{math.NaN()}, []float64{math.NaN()}
					if op&optimize.FuncEvaluation != 0 {
						fas = fAlpha
					}
					if op&optimize.GradEvaluation != 0 {
						gas = gAlpha
					}
					for _, fa := range fas {
						for _, ga := range gas {
							nodes++
							hf, hg, f, gg := haveF, haveG, fs, gs
							var h string
							if op&optimize.FuncEvaluation != 0 {
								f, hf = st.f0+fa, true
								h = fmt.Sprintf("phi(%g)=%v", cur, f)
							}
							if op&optimize.GradEvaluation != 0 {
								gg, hg = ga, true
								h += fmt.Sprintf(" phi'(%g)=%v", cur, gg)
							}
							argF, argG := math.NaN(), math.NaN()
							if hf {
								argF = f
							}
							if hg {
								argG = gg
							}
							nh := append(append([]string(nil), hist...), strings.TrimSpace(h))
							nop, step, err, nstate := sp.iter(state, argF, argG)
							if err != nil {
								errs++
								if !errors.Is(err, optimize.ErrLinesearcherFailure) && !errors.Is(err, optimize.ErrLinesearcherBound) {
									fail(nh, "linesearch-protocol", "undocumented error %v", err)
								}
								continue
							}
							if nop == optimize.MajorIteration {
								accepted++
								if step != cur && !(math.IsNaN(step) && math.IsNaN(cur)) {
									fail(nh, "linesearch-protocol", "MajorIteration declared at step %v but the last evaluated step was %v", step, cur)
									continue
								}
								if ok, cond := sp.accept(st.f0, st.g0, cur, f, gg, hg); !hf || !ok {
									fail(nh, "linesearch-condition", "accepted step %v with phi=%v phi'=%v violates %s", cur, f, gg, cond)
								}
								continue
							}
							if step != cur {
								rec(nstate, nop, step, false, false, 0, 0, d+1, nh)
							} else {
								rec(nstate, nop, step, hf, hg, f, gg, d+1, nh)
							}
						}
					}
				}
				op, state := sp.init(st.f0, st.g0, st.step)
				rec(state, op, st.step, false, false, 0, 0, 0, nil)
				t.Count("linesearch_histories", nodes)
				t.Count("states", nodes)
				t.Count("linesearch_history_accepts", accepted)
				t.Count("linesearch_history_errors", errs)
				t.Max("depth", int64(depth))
				t.Nontrivial()
				t.Outcome(fmt.Sprintf("accepts=%v errors=%v", accepted > 0, errs > 0))
			})
		}
	}
}
