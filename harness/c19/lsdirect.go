package main

import (
	"errors"
	"fmt"
	"math"
	"strings"

	"gonum.org/v1/gonum/internal/verif/vlib"
	"gonum.org/v1/gonum/optimize"
	"gonum.org/v1/gonum/optimize/functions"
)

// phi is a one-dimensional function with phi'(0) < 0.
type phi struct {
	name string
	f    func(s float64) float64
	g    func(s float64) float64
}

type fg interface {
	Func(x []float64) float64
	Grad(g, x []float64)
}

func fromCatalogue(name string, p fg) phi {
	return phi{name: name,
		f: func(s float64) float64 { return p.Func([]float64{s}) },
		g: func(s float64) float64 { g := []float64{0}; p.Grad(g, []float64{s}); return g[0] },
	}
}

func phis() []phi {
	var out []phi
	for _, a := range []float64{0.01, 0.5, 1, 3, 100} {
		a := a
		out = append(out, phi{fmt.Sprintf("(s-%g)^2", a), func(s float64) float64 { return (s - a) * (s - a) }, func(s float64) float64 { return 2 * (s - a) }})
	}
	out = append(out,
		phi{"exp(s)-2s", func(s float64) float64 { return math.Exp(s) - 2*s }, func(s float64) float64 { return math.Exp(s) - 2 }},
		phi{"s^4-s", func(s float64) float64 { return s*s*s*s - s }, func(s float64) float64 { return 4*s*s*s - 1 }},
		phi{"100s^2-s", func(s float64) float64 { return 100*s*s - s }, func(s float64) float64 { return 200*s - 1 }},
		phi{"sqrt(1+s^2)-s/2", func(s float64) float64 { return math.Sqrt(1+s*s) - s/2 }, func(s float64) float64 { return s/math.Sqrt(1+s*s) - 0.5 }},
		phi{"-s (unbounded)", func(s float64) float64 { return -s }, func(s float64) float64 { return -1 }},
		fromCatalogue("ConcaveRight", functions.ConcaveRight{}),
		fromCatalogue("ConcaveLeft", functions.ConcaveLeft{}),
		fromCatalogue("Plassmann(39,0.01)", functions.Plassmann{L: 39, Beta: 0.01}),
		fromCatalogue("Plassmann(39,0.001)", functions.Plassmann{L: 39, Beta: 0.001}),
		fromCatalogue("Yanai(0.001,0.001)", functions.YanaiOzawaKaneko{Beta1: 0.001, Beta2: 0.001}),
		fromCatalogue("Yanai(0.01,0.001)", functions.YanaiOzawaKaneko{Beta1: 0.01, Beta2: 0.001}),
		fromCatalogue("Yanai(0.001,0.01)", functions.YanaiOzawaKaneko{Beta1: 0.001, Beta2: 0.01}),
	)
	// objectives that are undefined (NaN) or +Inf beyond a cut-off, smooth and wiggly before it
	for _, w := range []float64{2.45 * math.Pi, 1.3 * math.Pi, 4.1 * math.Pi} {
		for _, cut := range []float64{0.9, 1.7} {
			for _, beyond := range []float64{math.NaN(), math.Inf(1)} {
				w, cut, beyond := w, cut, beyond
				out = append(out, phi{fmt.Sprintf("-sin(%.3gs)/%.3g, %v for s>%g", w, w, beyond, cut),
					func(s float64) float64 {
						if s > cut {
							return beyond
						}
						return -math.Sin(w*s) / w
					},
					func(s float64) float64 {
						if s > cut {
							return beyond
						}
						return -math.Cos(w * s)
					}})
			}
		}
	}
	out = append(out, phi{"(s-1)^2, NaN for s>1.2", func(s float64) float64 {
		if s > 1.2 {
			return math.NaN()
		}
		return (s - 1) * (s - 1)
	}, func(s float64) float64 {
		if s > 1.2 {
			return math.NaN()
		}
		return 2 * (s - 1)
	}})
	return out
}

type lsSpec struct {
	name string
	mk   func() optimize.Linesearcher
	// accept reports whether step s is acceptable by the advertised condition.
	accept func(f0, g0, s, fs, gs float64) (bool, string)
}

func lsSpecs() []lsSpec {
	var out []lsSpec
	slack := func(f0, g0, s float64) float64 { return 1e-12 * (math.Abs(f0) + math.Abs(s*g0)) }
	for _, dec := range []float64{0, 0.1, 0.5} {
		for _, con := range []float64{0, 0.1, 0.9} {
			dec, con := dec, con
			c1 := dec
			if c1 == 0 {
				c1 = 1e-4
			}
			out = append(out, lsSpec{
				name: fmt.Sprintf("Backtracking{Decrease:%g,Contraction:%g}", dec, con),
				mk: func() optimize.Linesearcher {
					return &optimize.Backtracking{DecreaseFactor: dec, ContractionFactor: con}
				},
				accept: func(f0, g0, s, fs, gs float64) (bool, string) {
					return fs <= f0+c1*s*g0+slack(f0, g0, s), fmt.Sprintf("Armijo: phi(s) <= phi(0) + %g*s*phi'(0)", c1)
				},
			})
		}
	}
	for _, cur := range []float64{0, 0.5, 0.1, 0.001} {
		cur := cur
		c2 := cur
		if c2 == 0 {
			c2 = 0.9
		}
		out = append(out, lsSpec{
			name: fmt.Sprintf("Bisection{Curvature:%g}", cur),
			mk:   func() optimize.Linesearcher { return &optimize.Bisection{CurvatureFactor: cur} },
			accept: func(f0, g0, s, fs, gs float64) (bool, string) {
				return fs <= f0 && math.Abs(gs) < c2*math.Abs(g0), fmt.Sprintf("strong Wolfe: phi(s) <= phi(0) and |phi'(s)| < %g*|phi'(0)|", c2)
			},
		})
	}
	for _, dec := range []float64{0, 1e-4, 0.1} {
		for _, cur := range []float64{0, 0.5, 0.1, 0.001} {
			dec, cur := dec, cur
			c2 := cur
			if c2 == 0 {
				c2 = 0.9
			}
			if dec >= c2 {
				continue
			}
			out = append(out, lsSpec{
				name: fmt.Sprintf("MoreThuente{Decrease:%g,Curvature:%g}", dec, cur),
				mk: func() optimize.Linesearcher {
					return &optimize.MoreThuente{DecreaseFactor: dec, CurvatureFactor: cur}
				},
				accept: func(f0, g0, s, fs, gs float64) (bool, string) {
					return fs <= f0+dec*s*g0+slack(f0, g0, s) && math.Abs(gs) <= c2*math.Abs(g0)*(1+1e-14), fmt.Sprintf("strong Wolfe: phi(s) <= phi(0) + %g*s*phi'(0) and |phi'(s)| <= %g*|phi'(0)|", dec, c2)
				},
			})
		}
	}
	return out
}

const lsMaxIter = 20000

// genLinesearch drives every Linesearcher implementation directly through its
// Init/Iterate protocol on one-dimensional functions.
func genLinesearch(g *vlib.G) {
	steps := []float64{1e-3, 0.1, 1, 1.5, 2, 3, 10, 1000}
	// injections: the k-th evaluation of phi returns v instead of its value
	type inj struct {
		k int
		v float64
	}
	injs := []inj{{0, 0}}
	for k := 1; k <= vlib.Pick(g, 3, 6); k++ {
		injs = append(injs, inj{k, math.NaN()}, inj{k, math.Inf(1)})
	}
	for _, sp := range lsSpecs() {
		for _, p := range phis() {
			sp, p := sp, p
			g.Case(sp.name+" phi="+p.name, func(t *vlib.T) {
				outs := map[string]int{}
				for _, s0 := range steps {
					for _, in := range injs {
						oc := driveLS(t, sp, p, s0, in.k, in.v)
						outs[oc]++
						t.Count("linesearches", 1)
						t.Count("linesearch_"+oc, 1)
					}
				}
				t.Nontrivial()
				t.Outcome(strings.Join(vlib.SortedKeys(outs), ","))
			})
		}
	}
}

// driveLS runs one line search. If injK > 0 the injK-th evaluation of phi
// answers injV instead of the function value.
func driveLS(t *vlib.T, sp lsSpec, p phi, s0 float64, injK int, injV float64) string {
	ls := sp.mk()
	f0, g0 := p.f(0), p.g(0)
	fail := func(class, format string, a ...any) {
		report(t, fmt.Sprintf(" step0=%g inject=%v@%d", s0, injV, injK), class, nil, "%s phi=%s step0=%g (evaluation %d answers %v): %s", sp.name, p.name, s0, injK, injV, fmt.Sprintf(format, a...))
	}
	nEval := 0
	op := ls.Init(f0, g0, s0)
	cur := s0
	stalled := 0
	haveF, haveG := false, false
	var fs, gs float64
	for it := 0; it < lsMaxIter; it++ {
		switch op {
		case optimize.FuncEvaluation, optimize.GradEvaluation, optimize.FuncEvaluation | optimize.GradEvaluation:
		default:
			fail("linesearch-protocol", "invalid operation %v requested", op)
			return "bad-op"
		}
		if op&optimize.FuncEvaluation != 0 {
			fs, haveF = p.f(cur), true
			nEval++
			if nEval == injK {
				fs = injV
			}
		}
		if op&optimize.GradEvaluation != 0 {
			gs, haveG = p.g(cur), true
		}
		fa, ga := math.NaN(), math.NaN()
		if haveF {
			fa = fs
		}
		if haveG {
			ga = gs
		}
		nop, step, err := ls.Iterate(fa, ga)
		if err != nil {
			if errors.Is(err, optimize.ErrLinesearcherFailure) {
				return "ErrLinesearcherFailure"
			}
			if errors.Is(err, optimize.ErrLinesearcherBound) {
				return "ErrLinesearcherBound"
			}
			fail("linesearch-protocol", "undocumented error %v", err)
			return "bad-error"
		}
		// (No requirement is documented on the trial step itself: Bisection asks for
		// step = +Inf once on functions unbounded below before it gives up. A NaN
		// step shows up as non-termination below.)
		if nop == optimize.MajorIteration {
			if step != cur {
				fail("linesearch-protocol", "MajorIteration declared at step %v but the last evaluated step was %v", step, cur)
				return "bad-major"
			}
			// judged on the values actually returned for the accepted step
			fAcc, gAcc := fs, gs
			if !haveF {
				fAcc = p.f(cur)
			}
			if !haveG {
				gAcc = p.g(cur)
			}
			ok, cond := sp.accept(f0, g0, cur, fAcc, gAcc)
			if !ok {
				fail("linesearch-condition", "accepted step %v with phi=%v phi'=%v (phi(0)=%v phi'(0)=%v) violates %s", cur, fAcc, gAcc, f0, g0, cond)
				return "bad-accept"
			}
			t.Max("linesearch_iterations", int64(it+1))
			return "accepted"
		}
		if math.Abs(step-cur) <= 1e-12*math.Abs(cur) {
			stalled++
		} else {
			stalled = 0
		}
		if step != cur {
			cur = step
			haveF, haveG = false, false
		}
		op = nop
	}
	switch {
	case math.IsNaN(cur):
		fail("morethuente-nan-step-no-termination", "no conclusion after %d iterations: the trial step is NaN", lsMaxIter)
	case stalled > lsMaxIter/2:
		fail("morethuente-stalled-step-no-termination", "no conclusion after %d iterations: the trial step has stayed at %v (to 1e-12 relative) for the last %d iterations", lsMaxIter, cur, stalled)
	default:
		fail("linesearch-no-termination", "no conclusion after %d iterations", lsMaxIter)
	}
	return "no-termination"
}
