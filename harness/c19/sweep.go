package main

import (
	"fmt"
	"math"
	"os"
	"sort"
	"strings"
	"time"

	"gonum.org/v1/gonum/internal/verif/vlib"
	"gonum.org/v1/gonum/optimize"
)

// sweepObjectives is the objective alphabet of the settings sweep.
func sweepObjectives() []*objective {
	var out []*objective
	out = append(out, sweepSPD()...)
	// the same convex quadratic started exactly at its minimiser (gradient exactly zero)
	atMin := &objective{name: "quad2-at-minimiser", kind: "spd", dim: 2, x0: []float64{1, -1}, xstar: []float64{1, -1},
		mk: func() *objInst { return &objInst{f: quadBaseF, g: quadBaseG, h: quadBaseH} }}
	out = append(out, atMin)
	out = append(out, catalogue()...)
	out = append(out, pathological()...)
	out = append(out, wiggleNaN())
	return out
}

type limits struct{ f, g, h, it int }

// limitSets enumerates the evaluation / iteration limits for a method.
// quick: at most one limit active at a time plus two mixed pairs; thorough:
// the full product over the limit kinds that apply to the method.
func limitSets(m *methodSpec, thorough bool) []limits {
	vals := []int{1, 2, 3, 7}
	var out []limits
	out = append(out, limits{})
	if thorough {
		all := []int{0, 1, 2, 3, 7}
		gs, hs := []int{0}, []int{0}
		if m.grad {
			gs = all
		}
		if m.hess {
			hs = all
		}
		out = out[:0]
		for _, f := range all {
			for _, g := range gs {
				for _, h := range hs {
					for _, it := range all {
						out = append(out, limits{f, g, h, it})
					}
				}
			}
		}
		return out
	}
	for _, v := range vals {
		out = append(out, limits{f: v})
		out = append(out, limits{it: v})
		if m.grad {
			out = append(out, limits{g: v})
		}
		if m.hess {
			out = append(out, limits{h: v})
		}
	}
	out = append(out, limits{f: 7, it: 2}, limits{f: 3, it: 7})
	if m.grad {
		out = append(out, limits{f: 7, g: 2})
	}
	return out
}

// safetyCap is the FuncEvaluations limit substituted for "no limit at all" on
// objectives / methods where an unlimited run is long or (by design of the
// objective) unbounded. It is part of the declared case space.
func safetyCap(m *methodSpec, o *objective, thorough bool) int {
	if o.kind == "spd" && m.name != "GuessAndCheck" && m.name != "CmaEsChol" {
		return 0 // genuinely unlimited: default convergence criteria end the run
	}
	if m.name == "ListSearch" {
		return 0
	}
	if thorough {
		return 400
	}
	return 120
}

var statusModes = []statusMode{
	{at: 1, st: optimize.Failure, err: errStatus},
	{at: 2, st: optimize.Success},
	{at: 3, st: customStatus},
	{at: 2, st: optimize.Failure, err: errStatus},
}

func genSweep(g *vlib.G) {
	methods := allMethods()
	objs := sweepObjectives()
	th := g.Thorough()
	for mi := range methods {
		m := &methods[mi]
		lss := []int{0}
		if m.usesLS {
			lss = []int{1, 2, 3}
			if !th && strings.HasPrefix(m.name, "CG/") && m.name != "CG/HestenesStiefel" {
				lss = []int{2, 3} // quick: the other CG variants not with Backtracking
			}
		}
		concs := []int{0, 1, 2, 3, 4}
		if m.local && !th {
			concs = []int{0, 3}
		}
		for _, ls := range lss {
			for _, o := range objs {
				for _, conc := range concs {
					m, ls, o, conc := m, ls, o, conc
					key := fmt.Sprintf("%s ls=%s obj=%s conc=%d", m.name, lsNames[ls], o.name, conc)
					g.Case(key, func(t *vlib.T) { sweepCase(t, g, m, ls, o, conc) })
				}
			}
		}
	}
}

// sweepCase runs every settings combination of one (method, line searcher,
// objective, Concurrent) cell under the deterministic default schedule.
func sweepCase(t *vlib.T, g *vlib.G, m *methodSpec, ls int, o *objective, conc int) {
	th := g.Thorough()
	statuses := map[string]int{}
	runs := 0
	bad := 0
	run := func(c *runCfg) *runResult {
		var r runResult
		t0 := time.Now()
		if traceRuns {
			fmt.Fprintf(os.Stderr, "RUN %s\n", c.String())
		}
		x := runDefault(c.body(&r), c.horizon())
		runs++
		if traceRuns {
			fmt.Fprintf(os.Stderr, "    %v %s steps=%d %s\n", time.Since(t0), x.Outcome, x.Steps, describe(&r))
		}
		if x.Outcome != "ok" {
			bad++
			cls := c.failureClass(x.Outcome, r.lg)
			if traceViol {
				fmt.Fprintf(os.Stderr, "VIOL %s | %s | %s\n", cls, x.Outcome, c.String())
			}
			if bad <= 3 {
				report(t, " cfg="+c.String(), cls, map[string]any{"config": c.String(), "outcome": x.Outcome}, "Minimize did not return normally: %s [%s]", x.Outcome, c.String())
			}
			statuses["!"+cls]++
			return nil
		}
		t.Max("max_callbacks_per_run", int64(r.lg.nF+r.lg.nG+r.lg.nH))
		t.Max("max_scheduler_steps_per_run", int64(x.Steps))
		if r.res != nil {
			statuses[r.res.Status.String()]++
		} else {
			statuses["nil-result"]++
		}
		if class, msg := c.check(&r); msg != "" {
			bad++
			if traceViol {
				fmt.Fprintf(os.Stderr, "VIOL %s | %s | %s | %s\n", class, msg, c.String(), describe(&r))
			}
			if bad <= 3 {
				report(t, " cfg="+c.String(), class, map[string]any{"config": c.String(), "result": describe(&r)}, "%s [%s] result: %s", msg, c.String(), describe(&r))
			}
		}
		return &r
	}
	cap := safetyCap(m, o, th)
	inits := []int{0, 1}
	if m.grad {
		inits = append(inits, 2)
	}
	if m.hess {
		inits = append(inits, 3)
	}
	thrs := []float64{0, 1e-3}
	recs := []int{-1, 0, 1, 2, 3, 5}
	for _, l := range limitSets(m, th) {
		if l == (limits{}) && cap > 0 {
			l.f = cap
		}
		for _, thr := range thrs {
			if thr != 0 && !m.grad {
				continue
			}
			for _, iv := range inits {
				for _, rec := range recs {
					if !th && rec > 0 && (thr != 0 || iv != 0) {
						continue // quick: recorder failures only with the plain settings
					}
					c := &runCfg{m: m, ls: ls, o: o, limF: l.f, limG: l.g, limH: l.h, limIt: l.it, gradThr: thr, initVals: iv, conc: conc, recMode: rec}
					r := run(c)
					if rec == 0 && thr == 0 && iv == 0 && r != nil && r.res != nil {
						// make the last record (PostIteration) and the one before it fail
						n := r.lg.nRecord
						for _, k := range []int{n, n - 1} {
							if k >= 1 && k != 1 && k != 2 && k != 3 && k != 5 {
								c2 := *c
								c2.recMode = k
								run(&c2)
							}
						}
					}
				}
			}
		}
		// Problem.Status stops, with and without a recorder
		if th || l.it == 0 {
			for _, sm := range statusModes {
				for _, rec := range []int{-1, 0} {
					c := &runCfg{m: m, ls: ls, o: o, limF: l.f, limG: l.g, limH: l.h, limIt: l.it, conc: conc, recMode: rec, status: sm}
					run(c)
				}
			}
		}
	}
	if cap == 0 {
		// all defaults through a nil *Settings
		run(&runCfg{m: m, ls: ls, o: o, nilSet: true, recMode: -1})
	}
	t.Count("minimize_runs", int64(runs))
	t.Count("traces_validated_against_impl", int64(runs))
	for k, v := range statuses {
		t.Count("status_"+k, int64(v))
	}
	ks := make([]string, 0, len(statuses))
	for k := range statuses {
		ks = append(ks, k)
	}
	sort.Strings(ks)
	t.Outcome(strings.Join(ks, "|"))
	if len(ks) >= 2 {
		t.Nontrivial()
	}
	t.Detail(map[string]any{"runs": runs, "statuses": statuses})
}

// traceRuns (VERIF_C19_TRACE=1) prints every run to stderr; debugging aid only.
var traceRuns = os.Getenv("VERIF_C19_TRACE") == "1"
var traceViol = os.Getenv("VERIF_C19_TRACE") == "2"

// horizon is the number of scheduler steps after which vsched gives up (a step
// is one channel/sync operation; an evaluation costs about 12 steps). It is a
// backstop only: non-termination is detected earlier by the evaluation budget.
func (c *runCfg) horizon() int {
	return 3000000
}

// usesMoreThuente reports whether the configuration runs the More-Thuente line search
// (explicitly, or as the default of CG).
func (c *runCfg) usesMoreThuente() bool {
	return c.m.usesLS && (c.ls == 3 || c.ls == 5 || (c.ls == 0 && strings.HasPrefix(c.m.name, "CG/")))
}

// failureClass names the defect class of a run that did not return normally.
func (c *runCfg) failureClass(oc string, lg *runLog) string {
	switch {
	case strings.HasPrefix(oc, "panic: "+budgetPanic):
		if lg == nil || len(lg.lastX) == 0 {
			return "minimize-no-termination"
		}
		atNaN := math.IsNaN(lg.lastX[0]) && (lg.nanStreak >= nanStreakBudget || lg.sameStreak >= sameStreakBudget)
		switch {
		case atNaN && c.usesMoreThuente():
			// More-Thuente keeps returning the trial step NaN
			return "morethuente-nan-step-no-termination"
		case atNaN && c.m.usesLS:
			// a NaN search direction was accepted as a descent direction
			return "linesearch-nan-direction-no-termination"
		case lg.sameStreak >= sameStreakBudget && c.usesMoreThuente():
			return "morethuente-stalled-step-no-termination"
		}
		return "minimize-no-termination"
	case strings.HasPrefix(oc, "panic") && c.m.name == "ListSearch" && strings.Contains(oc, "index out of range") && strings.Contains(oc, "listsearch.go"):
		return "listsearch-inf-first-panics"
	}
	return outcomeClass(oc)
}

func outcomeClass(oc string) string {
	switch {
	case strings.HasPrefix(oc, "panic: "+budgetPanic):
		return "minimize-no-termination"
	case strings.HasPrefix(oc, "panic"):
		return "minimize-panic"
	case strings.HasPrefix(oc, "deadlock"):
		return "minimize-deadlock"
	case strings.HasPrefix(oc, "goroutines left"):
		return "minimize-goroutine-leak"
	case oc == "horizon":
		return "minimize-no-termination"
	}
	return "minimize-outcome"
}

func describe(r *runResult) string {
	if r.lg == nil {
		return "no result"
	}
	if r.res == nil {
		return fmt.Sprintf("nil result, err=%v", r.err)
	}
	return fmt.Sprintf("X=%v F=%v status=%v err=%v stats{major=%d f=%d g=%d h=%d} calls{f=%d g=%d h=%d status=%d record=%d}", r.res.X, r.res.F, r.res.Status, r.err,
		r.res.Stats.MajorIterations, r.res.Stats.FuncEvaluations, r.res.Stats.GradEvaluations, r.res.Stats.HessEvaluations, r.lg.nF, r.lg.nG, r.lg.nH, r.lg.nStatus, r.lg.nRecord)
}
