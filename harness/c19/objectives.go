package main

import (
	"fmt"
	"math"
	"math/big"

	"gonum.org/v1/gonum/mat"
	"gonum.org/v1/gonum/optimize/functions"
)

// objective is one objective function of the declared alphabet. mk returns a
// fresh instance for every run (some objectives are stateful on purpose).
type objective struct {
	name  string
	kind  string // spd | cat | nan | infstart | neginf | gradnan
	dim   int
	x0    []float64
	xstar []float64 // exact minimiser rounded to float64 (spd only)
	mk    func() *objInst
}

type objInst struct {
	f func(x []float64) float64
	g func(g, x []float64)
	h func(h *mat.SymDense, x []float64)
}

// finiteEverywhere reports whether every value the objective can return is finite.
func (o *objective) finiteEverywhere() bool { return o.kind == "spd" || o.kind == "cat" }

// spdQuad is f(x) = 1/2 x'Ax - b'x with integer symmetric positive definite A.
func spdQuad(name string, a [][]int, b []int, x0 []float64) *objective {
	n := len(b)
	A := make([][]float64, n)
	for i := range A {
		A[i] = make([]float64, n)
		for j := range A[i] {
			A[i][j] = float64(a[i][j])
		}
	}
	bb := make([]float64, n)
	for i := range bb {
		bb[i] = float64(b[i])
	}
	o := &objective{name: name, kind: "spd", dim: n, x0: x0, xstar: ratSolveSPD(a, b)}
	o.mk = func() *objInst {
		return &objInst{
			f: func(x []float64) float64 {
				var s float64
				for i := 0; i < n; i++ {
					var r float64
					for j := 0; j < n; j++ {
						r += A[i][j] * x[j]
					}
					s += x[i] * (0.5*r - bb[i])
				}
				return s
			},
			g: func(g, x []float64) {
				for i := 0; i < n; i++ {
					var r float64
					for j := 0; j < n; j++ {
						r += A[i][j] * x[j]
					}
					g[i] = r - bb[i]
				}
			},
			h: func(h *mat.SymDense, x []float64) {
				for i := 0; i < n; i++ {
					for j := i; j < n; j++ {
						h.SetSym(i, j, A[i][j])
					}
				}
			},
		}
	}
	return o
}

// ratSolveSPD solves A x = b exactly (Gaussian elimination in big.Rat) and
// rounds the solution to float64.
func ratSolveSPD(a [][]int, b []int) []float64 {
	n := len(b)
	m := make([][]*big.Rat, n)
	for i := range m {
		m[i] = make([]*big.Rat, n+1)
		for j := 0; j < n; j++ {
			m[i][j] = big.NewRat(int64(a[i][j]), 1)
		}
		m[i][n] = big.NewRat(int64(b[i]), 1)
	}
	for c := 0; c < n; c++ {
		p := -1
		for r := c; r < n; r++ {
			if m[r][c].Sign() != 0 {
				p = r
				break
			}
		}
		if p < 0 {
			panic("ratSolveSPD: singular matrix")
		}
		m[c], m[p] = m[p], m[c]
		for r := 0; r < n; r++ {
			if r == c || m[r][c].Sign() == 0 {
				continue
			}
			f := new(big.Rat).Quo(m[r][c], m[c][c])
			for k := c; k <= n; k++ {
				m[r][k] = new(big.Rat).Sub(m[r][k], new(big.Rat).Mul(f, m[c][k]))
			}
		}
	}
	x := make([]float64, n)
	for i := range x {
		x[i], _ = new(big.Rat).Quo(m[i][n], m[i][i]).Float64()
	}
	return x
}

// isSPD tests positive definiteness exactly by leading principal minors (n <= 3).
func isSPD(a [][]int) bool {
	n := len(a)
	for i := 0; i < n; i++ {
		for j := 0; j < n; j++ {
			if a[i][j] != a[j][i] {
				return false
			}
		}
	}
	if a[0][0] <= 0 {
		return false
	}
	if n >= 2 && a[0][0]*a[1][1]-a[0][1]*a[1][0] <= 0 {
		return false
	}
	if n >= 3 {
		d := a[0][0]*(a[1][1]*a[2][2]-a[1][2]*a[2][1]) - a[0][1]*(a[1][0]*a[2][2]-a[1][2]*a[2][0]) + a[0][2]*(a[1][0]*a[2][1]-a[1][1]*a[2][0])
		if d <= 0 {
			return false
		}
	}
	return true
}

func rosenbrock2() *objective {
	o := &objective{name: "Rosenbrock2", kind: "cat", dim: 2, x0: []float64{-1.2, 1}}
	o.mk = func() *objInst {
		r := functions.ExtendedRosenbrock{}
		return &objInst{f: r.Func, g: r.Grad, h: func(h *mat.SymDense, x []float64) {
			h.SetSym(0, 0, 2-400*(x[1]-3*x[0]*x[0]))
			h.SetSym(0, 1, -400*x[0])
			h.SetSym(1, 1, 200)
		}}
	}
	return o
}

func catalogue() []*objective {
	return []*objective{
		rosenbrock2(),
		{name: "Beale", kind: "cat", dim: 2, x0: []float64{1, 1}, mk: func() *objInst {
			b := functions.Beale{}
			return &objInst{f: b.Func, g: b.Grad, h: b.Hess}
		}},
		{name: "Wood", kind: "cat", dim: 4, x0: []float64{-3, -1, -3, -1}, mk: func() *objInst {
			b := functions.Wood{}
			return &objInst{f: b.Func, g: b.Grad, h: b.Hess}
		}},
		{name: "BrownAndDennis", kind: "cat", dim: 4, x0: []float64{25, 5, -5, -1}, mk: func() *objInst {
			b := functions.BrownAndDennis{}
			return &objInst{f: b.Func, g: b.Grad, h: b.Hess}
		}},
	}
}

// quadBase is the convex quadratic the pathological objectives are built on:
// f = 2a^2 + ab + 3b^2 with a = x0-1, b = x1+1 (minimiser (1,-1)).
func quadBaseF(x []float64) float64 {
	a, b := x[0]-1, x[1]+1
	return 2*a*a + a*b + 3*b*b
}
func quadBaseG(g, x []float64) {
	a, b := x[0]-1, x[1]+1
	g[0] = 4*a + b
	g[1] = a + 6*b
}
func quadBaseH(h *mat.SymDense, x []float64) {
	h.SetSym(0, 0, 4)
	h.SetSym(0, 1, 1)
	h.SetSym(1, 1, 6)
}

func pathological() []*objective {
	nan := math.NaN()
	return []*objective{
		{name: "NaN-everywhere", kind: "nan", dim: 2, x0: []float64{3, 2}, mk: func() *objInst {
			return &objInst{
				f: func(x []float64) float64 { return nan },
				g: func(g, x []float64) { g[0], g[1] = nan, nan },
				h: func(h *mat.SymDense, x []float64) { h.SetSym(0, 0, nan); h.SetSym(0, 1, nan); h.SetSym(1, 1, nan) },
			}
		}},
		{name: "Inf-at-start", kind: "infstart", dim: 2, x0: []float64{3, 2}, mk: func() *objInst {
			return &objInst{
				f: func(x []float64) float64 {
					if x[0] == 3 && x[1] == 2 {
						return math.Inf(1)
					}
					return quadBaseF(x)
				},
				g: quadBaseG, h: quadBaseH,
			}
		}},
		{name: "to-minus-Inf", kind: "neginf", dim: 2, x0: []float64{0, 1}, mk: func() *objInst {
			// f = -x0 + x1^2 for x0 < 4, -Inf beyond: unbounded below along x0.
			return &objInst{
				f: func(x []float64) float64 {
					if x[0] >= 4 {
						return math.Inf(-1)
					}
					return -x[0] + x[1]*x[1]
				},
				g: func(g, x []float64) { g[0], g[1] = -1, 2*x[1] },
				h: func(h *mat.SymDense, x []float64) { h.SetSym(0, 0, 0); h.SetSym(0, 1, 0); h.SetSym(1, 1, 2) },
			}
		}},
		{name: "grad-NaN-at-2nd-call", kind: "gradnan", dim: 2, x0: []float64{3, 2}, mk: func() *objInst {
			calls := 0
			return &objInst{
				f: quadBaseF,
				g: func(g, x []float64) {
					calls++
					if calls == 2 {
						g[0], g[1] = nan, nan
						return
					}
					quadBaseG(g, x)
				},
				h: quadBaseH,
			}
		}},
	}
}

// sweepSPD is the small set of SPD quadratics used in the settings sweep.
func sweepSPD() []*objective {
	return []*objective{
		spdQuad("spd1[a=2 b=3]", [][]int{{2}}, []int{3}, []float64{-1}),
		spdQuad("spd2[2 1;1 3 b=1,-2]", [][]int{{2, 1}, {1, 3}}, []int{1, -2}, []float64{3, 2}),
		spdQuad("spd3[4 1 0;1 3 1;0 1 2 b=1,2,3]", [][]int{{4, 1, 0}, {1, 3, 1}, {0, 1, 2}}, []int{1, 2, 3}, []float64{0, 0, 0}),
	}
}

// allSPD enumerates the SPD family of the convergence group.
func allSPD(thorough bool) []*objective {
	var out []*objective
	for a := 1; a <= 4; a++ {
		for _, b := range []int{-3, 1} {
			out = append(out, spdQuad(fmt.Sprintf("spd1[%d|%d]", a, b), [][]int{{a}}, []int{b}, []float64{2}))
		}
	}
	hi := 3
	if thorough {
		hi = 4
	}
	for a := 1; a <= hi; a++ {
		for c := a; c <= hi; c++ {
			for b := -2; b <= 2; b++ {
				m := [][]int{{a, b}, {b, c}}
				if !isSPD(m) {
					continue
				}
				for _, rhs := range [][]int{{1, -2}, {0, 3}} {
					out = append(out, spdQuad(fmt.Sprintf("spd2[%d %d;%d %d|%v]", a, b, b, c, rhs), m, rhs, []float64{3, 2}))
				}
			}
		}
	}
	offs := []int{-1, 0, 1}
	diags := [][]int{{2, 2, 2}, {2, 3, 4}, {3, 2, 3}}
	if thorough {
		diags = append(diags, []int{4, 2, 2}, []int{3, 3, 3}, []int{2, 4, 3})
	}
	for _, d := range diags {
		for _, p := range offs {
			for _, q := range offs {
				for _, r := range offs {
					m := [][]int{{d[0], p, q}, {p, d[1], r}, {q, r, d[2]}}
					if !isSPD(m) {
						continue
					}
					out = append(out, spdQuad(fmt.Sprintf("spd3[d=%v off=%d,%d,%d]", d, p, q, r), m, []int{1, -2, 3}, []float64{1, 1, 1}))
				}
			}
		}
	}
	return out
}

// wiggleNaN is f(x) = -sin(w x)/w (w = 2.45 pi) from x = 0, undefined (NaN) for
// x > 0.9: a wiggly objective whose trial points can fall outside its domain.
// A line search must never accept an increase because of the NaN trials.
func wiggleNaN() *objective {
	const w = 2.45 * math.Pi
	return &objective{name: "wiggle-NaN-beyond-0.9", kind: "nanregion", dim: 1, x0: []float64{0}, mk: func() *objInst {
		return &objInst{
			f: func(x []float64) float64 {
				if x[0] > 0.9 {
					return math.NaN()
				}
				return -math.Sin(w*x[0]) / w
			},
			g: func(g, x []float64) {
				if x[0] > 0.9 {
					g[0] = math.NaN()
					return
				}
				g[0] = -math.Cos(w * x[0])
			},
			h: func(h *mat.SymDense, x []float64) {
				if x[0] > 0.9 {
					h.SetSym(0, 0, math.NaN())
					return
				}
				h.SetSym(0, 0, w*math.Sin(w*x[0]))
			},
		}
	}}
}
