package main

import (
	"gonum.org/v1/gonum/graph"
	"gonum.org/v1/gonum/graph/iterator"
)

// Tagged finding classes (deviations attributed to gonum, see NOTES.md).
const (
	classLenOffByOne   = "ordered-edges-lines-len-counts-current-item"
	classSliceCurrent  = "ordered-edges-lines-slice-includes-current-item"
	classRemoveLineNil = "multi-removeline-nil-pool-panic"
	classMatrixDiag    = "matrix-removeedge-self-overwrites-diagonal"
	classMatrixPartial = "matrix-setedge-panic-after-partial-update"
)

// iterView is a type-erased view of one of the five iterator interfaces.
type iterView struct {
	name     func() string // evaluated only when something is reported
	it       graph.Iterator
	cur      func() (key string, ok bool)          // current item; ok=false: the item is nil
	slice    func() (keys []string, nilItems bool) // the XxxSlice method, nil if not implemented
	offByOne bool                                  // concrete type is one of iterator.Ordered{Edges,WeightedEdges,Lines,WeightedLines}
}

func nodesView(name func() string, it graph.Nodes, key func(graph.Node) string) iterView {
	v := iterView{name: name, it: it}
	v.cur = func() (string, bool) {
		n := it.Node()
		if n == nil {
			return "<nil>", false
		}
		return key(n), true
	}
	if s, ok := it.(graph.NodeSlicer); ok {
		v.slice = func() (keys []string, nilItems bool) {
			for _, n := range s.NodeSlice() {
				if n == nil {
					nilItems = true
					keys = append(keys, "<nil>")
					continue
				}
				keys = append(keys, key(n))
			}
			return keys, nilItems
		}
	}
	return v
}

func edgesView(name func() string, it graph.Edges, key func(graph.Edge) string) iterView {
	v := iterView{name: name, it: it}
	_, v.offByOne = it.(*iterator.OrderedEdges)
	v.cur = func() (string, bool) {
		e := it.Edge()
		if e == nil {
			return "<nil>", false
		}
		return key(e), true
	}
	if s, ok := it.(graph.EdgeSlicer); ok {
		v.slice = func() (keys []string, nilItems bool) {
			for _, e := range s.EdgeSlice() {
				if e == nil {
					nilItems = true
					keys = append(keys, "<nil>")
					continue
				}
				keys = append(keys, key(e))
			}
			return keys, nilItems
		}
	}
	return v
}

func wedgesView(name func() string, it graph.WeightedEdges, key func(graph.Edge) string) iterView {
	v := iterView{name: name, it: it}
	_, v.offByOne = it.(*iterator.OrderedWeightedEdges)
	v.cur = func() (string, bool) {
		e := it.WeightedEdge()
		if e == nil {
			return "<nil>", false
		}
		return key(e), true
	}
	if s, ok := it.(graph.WeightedEdgeSlicer); ok {
		v.slice = func() (keys []string, nilItems bool) {
			for _, e := range s.WeightedEdgeSlice() {
				if e == nil {
					nilItems = true
					keys = append(keys, "<nil>")
					continue
				}
				keys = append(keys, key(e))
			}
			return keys, nilItems
		}
	}
	return v
}

func linesView(name func() string, it graph.Lines, key func(graph.Line) string) iterView {
	v := iterView{name: name, it: it}
	_, v.offByOne = it.(*iterator.OrderedLines)
	v.cur = func() (string, bool) {
		l := it.Line()
		if l == nil {
			return "<nil>", false
		}
		return key(l), true
	}
	if s, ok := it.(graph.LineSlicer); ok {
		v.slice = func() (keys []string, nilItems bool) {
			for _, l := range s.LineSlice() {
				if l == nil {
					nilItems = true
					keys = append(keys, "<nil>")
					continue
				}
				keys = append(keys, key(l))
			}
			return keys, nilItems
		}
	}
	return v
}

func wlinesView(name func() string, it graph.WeightedLines, key func(graph.Line) string) iterView {
	v := iterView{name: name, it: it}
	_, v.offByOne = it.(*iterator.OrderedWeightedLines)
	v.cur = func() (string, bool) {
		l := it.WeightedLine()
		if l == nil {
			return "<nil>", false
		}
		return key(l), true
	}
	if s, ok := it.(graph.WeightedLineSlicer); ok {
		v.slice = func() (keys []string, nilItems bool) {
			for _, l := range s.WeightedLineSlice() {
				if l == nil {
					nilItems = true
					keys = append(keys, "<nil>")
					continue
				}
				keys = append(keys, key(l))
			}
			return keys, nilItems
		}
	}
	return v
}

// minusOne returns the sorted list want with one occurrence of key removed.
func minusOne(want []string, key string) []string {
	out := make([]string, 0, len(want))
	done := false
	for _, w := range want {
		if !done && w == key {
			done = true
			continue
		}
		out = append(out, w)
	}
	return out
}

// checkIter runs the iterator protocol: the iterator enumerates exactly the
// elements of want (sorted, duplicate free) once each, Len counts the remaining
// items down to 0, an exhausted iterator stays exhausted, Reset restarts, and
// the Slice method (where implemented) returns exactly the remaining items and
// exhausts the iterator.
func (c *ctx) checkIter(v iterView, want []string) {
	n := len(want)
	it := v.it
	if l := it.Len(); l != n {
		c.failf("%s: Len()=%d on a fresh iterator, want %d %v", v.name(), l, n, want)
	}
	for pass := 0; pass < 2; pass++ {
		var got []string
		k := 0
		for it.Next() {
			k++
			key, ok := v.cur()
			if !ok {
				c.failf("%s: item %d is nil although Next() returned true", v.name(), k)
			}
			got = append(got, key)
			exp := n - k
			if l := it.Len(); l != exp {
				if v.offByOne && exp >= 0 && l == exp+1 {
					c.findingf(classLenOffByOne, "%s (%T): Len()=%d after %d of %d items were taken with Next, want %d remaining", v.name(), it, l, k, n, exp)
				} else {
					c.failf("%s: Len()=%d after %d of %d items, want %d", v.name(), l, k, n, exp)
				}
			}
			if k > n+3 {
				c.failf("%s: iterator yields more than the %d expected items", v.name(), n)
				break
			}
		}
		if l := it.Len(); l != 0 {
			c.failf("%s: Len()=%d after exhaustion, want 0", v.name(), l)
		}
		if it.Next() {
			c.failf("%s: Next()=true after exhaustion", v.name())
		}
		if !sameStrings(sortedCopy(got), want) {
			c.failf("%s: pass %d enumerated %v, want %v", v.name(), pass, got, want)
		}
		it.Reset()
		if l := it.Len(); l != n {
			c.failf("%s: Len()=%d after Reset, want %d", v.name(), l, n)
		}
	}
	if v.slice == nil {
		return
	}
	all, nilItems := v.slice()
	if nilItems || !sameStrings(sortedCopy(all), want) {
		c.failf("%s: Slice on a fresh iterator = %v, want %v", v.name(), all, want)
	}
	if l := it.Len(); l != 0 {
		c.failf("%s: Len()=%d after Slice, want 0", v.name(), l)
	}
	if it.Next() {
		c.failf("%s: Next()=true after Slice", v.name())
	}
	it.Reset()
	if n == 0 {
		return
	}
	if !it.Next() {
		c.failf("%s: Next()=false after Slice+Reset with %d items", v.name(), n)
		return
	}
	first, _ := v.cur()
	rest, _ := v.slice()
	exp := minusOne(want, first)
	switch srt := sortedCopy(rest); {
	case sameStrings(srt, exp):
	case v.offByOne && sameStrings(srt, want):
		c.findingf(classSliceCurrent, "%s (%T): Slice after one Next returns %v including the item %s already delivered, want the %d remaining items", v.name(), it, rest, first, len(exp))
	default:
		c.failf("%s: Slice after Next (took %s) = %v, want %v", v.name(), first, rest, exp)
	}
	if l := it.Len(); l != 0 {
		c.failf("%s: Len()=%d after Next+Slice, want 0", v.name(), l)
	}
	if it.Next() {
		c.failf("%s: Next()=true after Next+Slice", v.name())
	}
	it.Reset()
	if l := it.Len(); l != n {
		c.failf("%s: Len()=%d after Next+Slice+Reset, want %d", v.name(), l, n)
	}
}
