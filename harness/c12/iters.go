package main

import (
	"fmt"
	"sort"

	"gonum.org/v1/gonum/graph"
	"gonum.org/v1/gonum/graph/iterator"
	"gonum.org/v1/gonum/graph/simple"
	"gonum.org/v1/gonum/internal/verif/vlib"
)

// Group "iterators": every iterator type of graph/iterator (and graph.Empty),
// driven directly over maps and slices of many sizes, with every number k of
// items taken before a Slice / a Reset. The map backed iterators (which reach
// into the runtime's map iterator in the default build, and use reflect in the
// safe build) see maps that went through insertions and deletions, with sizes
// on both sides of the bucket/group and growth boundaries of the map
// implementations.

type iterKind struct {
	name string
	// mk builds a fresh iterator over the items with the given IDs.
	mk func(ids []int64, tombstones int) iterView
}

func idOf(i int) int64 { return int64(i)*7 - 3 } // includes a negative ID

func nodeIDKey(n graph.Node) string { return fmt.Sprint(n.ID()) }
func edgeIDKey(e graph.Edge) string { return fmt.Sprint(e.From().ID()) }
func lineIDKey(l graph.Line) string { return fmt.Sprint(l.ID()) }

// withHistory fills a map through insertions and deletions: the wanted keys
// plus `extra` keys that are deleted again.
func withHistory[V any](ids []int64, extra int, val func(id int64) V) map[int64]V {
	m := map[int64]V{}
	for k := 0; k < extra; k++ {
		m[int64(1000000+k)] = val(int64(1000000 + k))
	}
	for _, id := range ids {
		m[id] = val(id)
	}
	for k := 0; k < extra; k++ {
		delete(m, int64(1000000+k))
	}
	return m
}

func nodeMap(ids []int64, extra int) map[int64]graph.Node {
	return withHistory(ids, extra, func(id int64) graph.Node { return simple.Node(id) })
}

func iterKinds() []iterKind {
	nm := func(s string) func() string { return func() string { return s } }
	edge := func(id int64) graph.Edge { return tEdge{F: simple.Node(id), T: simple.Node(id + 1), W: 1} }
	wedge := func(id int64) graph.WeightedEdge { return tEdge{F: simple.Node(id), T: simple.Node(id + 1), W: 1} }
	line := func(id int64) graph.Line { return tLine{F: simple.Node(0), T: simple.Node(1), UID: id} }
	wline := func(id int64) graph.WeightedLine { return tLine{F: simple.Node(0), T: simple.Node(1), UID: id} }
	return []iterKind{
		{"OrderedNodes", func(ids []int64, _ int) iterView {
			s := make([]graph.Node, len(ids))
			for i, id := range ids {
				s[i] = simple.Node(id)
			}
			return nodesView(nm("OrderedNodes"), iterator.NewOrderedNodes(s), nodeIDKey)
		}},
		{"ImplicitNodes", func(ids []int64, _ int) iterView {
			// IDs beg..beg+n-1 (the ids argument only fixes n and beg)
			beg := 0
			if len(ids) > 0 {
				beg = int(ids[0])
			}
			return nodesView(nm("ImplicitNodes"), iterator.NewImplicitNodes(beg, beg+len(ids), func(id int) graph.Node { return simple.Node(id) }), nodeIDKey)
		}},
		{"Nodes", func(ids []int64, x int) iterView {
			return nodesView(nm("Nodes"), iterator.NewNodes(nodeMap(ids, x)), nodeIDKey)
		}},
		{"NodesByEdge", func(ids []int64, x int) iterView {
			return nodesView(nm("NodesByEdge"), iterator.NewNodesByEdge(nodeMap(ids, 0), withHistory(ids, x, edge)), nodeIDKey)
		}},
		{"NodesByWeightedEdge", func(ids []int64, x int) iterView {
			return nodesView(nm("NodesByWeightedEdge"), iterator.NewNodesByWeightedEdge(nodeMap(ids, 0), withHistory(ids, x, wedge)), nodeIDKey)
		}},
		{"NodesByLines", func(ids []int64, x int) iterView {
			return nodesView(nm("NodesByLines"), iterator.NewNodesByLines(nodeMap(ids, 0), withHistory(ids, x, func(id int64) map[int64]graph.Line { return map[int64]graph.Line{0: line(0)} })), nodeIDKey)
		}},
		{"NodesByWeightedLines", func(ids []int64, x int) iterView {
			return nodesView(nm("NodesByWeightedLines"), iterator.NewNodesByWeightedLines(nodeMap(ids, 0), withHistory(ids, x, func(id int64) map[int64]graph.WeightedLine { return map[int64]graph.WeightedLine{0: wline(0)} })), nodeIDKey)
		}},
		{"LazyOrderedNodes", func(ids []int64, x int) iterView {
			return nodesView(nm("LazyOrderedNodes"), iterator.NewLazyOrderedNodes(nodeMap(ids, x)), nodeIDKey)
		}},
		{"LazyOrderedNodesByEdge", func(ids []int64, x int) iterView {
			return nodesView(nm("LazyOrderedNodesByEdge"), iterator.NewLazyOrderedNodesByEdge(nodeMap(ids, 0), withHistory(ids, x, edge)), nodeIDKey)
		}},
		{"LazyOrderedNodesByWeightedEdge", func(ids []int64, x int) iterView {
			return nodesView(nm("LazyOrderedNodesByWeightedEdge"), iterator.NewLazyOrderedNodesByWeightedEdge(nodeMap(ids, 0), withHistory(ids, x, wedge)), nodeIDKey)
		}},
		{"LazyOrderedNodesByLines", func(ids []int64, x int) iterView {
			return nodesView(nm("LazyOrderedNodesByLines"), iterator.NewLazyOrderedNodesByLines(nodeMap(ids, 0), withHistory(ids, x, func(id int64) map[int64]graph.Line { return map[int64]graph.Line{0: line(0)} })), nodeIDKey)
		}},
		{"LazyOrderedNodesByWeightedLines", func(ids []int64, x int) iterView {
			return nodesView(nm("LazyOrderedNodesByWeightedLines"), iterator.NewLazyOrderedNodesByWeightedLines(nodeMap(ids, 0), withHistory(ids, x, func(id int64) map[int64]graph.WeightedLine { return map[int64]graph.WeightedLine{0: wline(0)} })), nodeIDKey)
		}},
		{"OrderedEdges", func(ids []int64, _ int) iterView {
			s := make([]graph.Edge, len(ids))
			for i, id := range ids {
				s[i] = edge(id)
			}
			return edgesView(nm("OrderedEdges"), iterator.NewOrderedEdges(s), edgeIDKey)
		}},
		{"OrderedWeightedEdges", func(ids []int64, _ int) iterView {
			s := make([]graph.WeightedEdge, len(ids))
			for i, id := range ids {
				s[i] = wedge(id)
			}
			return wedgesView(nm("OrderedWeightedEdges"), iterator.NewOrderedWeightedEdges(s), edgeIDKey)
		}},
		{"OrderedLines", func(ids []int64, _ int) iterView {
			s := make([]graph.Line, len(ids))
			for i, id := range ids {
				s[i] = line(id)
			}
			return linesView(nm("OrderedLines"), iterator.NewOrderedLines(s), lineIDKey)
		}},
		{"OrderedWeightedLines", func(ids []int64, _ int) iterView {
			s := make([]graph.WeightedLine, len(ids))
			for i, id := range ids {
				s[i] = wline(id)
			}
			return wlinesView(nm("OrderedWeightedLines"), iterator.NewOrderedWeightedLines(s), lineIDKey)
		}},
		{"Lines", func(ids []int64, x int) iterView {
			return linesView(nm("Lines"), iterator.NewLines(withHistory(ids, x, line)), lineIDKey)
		}},
		{"WeightedLines", func(ids []int64, x int) iterView {
			return wlinesView(nm("WeightedLines"), iterator.NewWeightedLines(withHistory(ids, x, wline)), lineIDKey)
		}},
		{"graph.Empty as Nodes", func(ids []int64, _ int) iterView {
			return nodesView(nm("graph.Empty"), graph.Empty, nodeIDKey)
		}},
		{"graph.Empty as Edges", func(ids []int64, _ int) iterView {
			return edgesView(nm("graph.Empty"), graph.Empty, edgeIDKey)
		}},
		{"graph.Empty as WeightedEdges", func(ids []int64, _ int) iterView {
			return wedgesView(nm("graph.Empty"), graph.Empty, edgeIDKey)
		}},
		{"graph.Empty as Lines", func(ids []int64, _ int) iterView {
			return linesView(nm("graph.Empty"), graph.Empty, lineIDKey)
		}},
		{"graph.Empty as WeightedLines", func(ids []int64, _ int) iterView {
			return wlinesView(nm("graph.Empty"), graph.Empty, lineIDKey)
		}},
	}
}

// takeThen takes k items with Next (checking Len after each), then runs one of
// the continuations; returns the keys taken.
func (c *ctx) takeK(v iterView, n, k int) (taken []string, ok bool) {
	for i := 1; i <= k; i++ {
		if !v.it.Next() {
			c.failf("%s n=%d: Next()=false at item %d", v.name(), n, i)
			return taken, false
		}
		key, nonNil := v.cur()
		if !nonNil {
			c.failf("%s n=%d: nil item %d", v.name(), n, i)
		}
		taken = append(taken, key)
		if l := v.it.Len(); l != n-i {
			if v.offByOne && n-i >= 0 && l == n-i+1 {
				c.findingf(classLenOffByOne, "%s (%T): Len()=%d after %d of %d items were taken with Next, want %d remaining", v.name(), v.it, l, i, n, n-i)
			} else {
				c.failf("%s n=%d: Len()=%d after %d items, want %d", v.name(), n, l, i, n-i)
			}
		}
	}
	return taken, true
}

func minusAll(want, taken []string) []string {
	out := want
	for _, t := range taken {
		out = minusOne(out, t)
	}
	return out
}

// checkIterDeep: for every k in ks, on a fresh iterator: k items with Next, then
// (a) Slice returns exactly the other n-k items and exhausts the iterator, a
// Reset afterwards restarts it; (b) Reset after k items restarts a complete
// enumeration.
func (c *ctx) checkIterDeep(mk func() iterView, want []string, ks []int) (runs int64) {
	n := len(want)
	for _, k := range ks {
		if k > n {
			continue
		}
		// (b) Reset after k items
		v := mk()
		if _, ok := c.takeK(v, n, k); !ok {
			return runs
		}
		v.it.Reset()
		c.checkIter(v, want)
		runs++
		// (a) Slice after k items
		v = mk()
		if v.slice == nil {
			continue
		}
		taken, ok := c.takeK(v, n, k)
		if !ok {
			return runs
		}
		rest, nilItems := v.slice()
		exp := minusAll(want, taken)
		switch srt := sortedCopy(rest); {
		case nilItems:
			c.failf("%s n=%d: Slice after %d items holds nil items", v.name(), n, k)
		case sameStrings(srt, exp):
		case v.offByOne && k > 0 && sameStrings(srt, minusAll(want, taken[:k-1])):
			c.findingf(classSliceCurrent, "%s (%T): Slice after %d Next calls returns %d items including the item already delivered, want the %d remaining items", v.name(), v.it, k, len(rest), len(exp))
		default:
			c.failf("%s n=%d: Slice after %d items = %v, want %v", v.name(), n, k, rest, exp)
		}
		if l := v.it.Len(); l != 0 {
			c.failf("%s n=%d: Len()=%d after Slice, want 0", v.name(), n, l)
		}
		if v.it.Next() {
			c.failf("%s n=%d: Next()=true after Slice", v.name(), n)
		}
		v.it.Reset()
		c.checkIter(v, want)
		runs++
	}
	return runs
}

func genIterators(g *vlib.G) {
	var sizes []int
	for n := 0; n <= vlib.Pick(g, 20, 140); n++ {
		sizes = append(sizes, n)
	}
	sizes = append(sizes, vlib.Pick(g, []int{31, 32, 33, 64, 65, 100}, []int{255, 256, 257, 511, 512, 513, 1000, 1025})...)
	for _, kind := range iterKinds() {
		kind := kind
		g.Case(kind.name, func(t *vlib.T) {
			col := newCollector()
			c := &ctx{col: col}
			var runs int64
			for _, n := range sizes {
				for _, x := range []int{0, n/2 + 1, 3 * n} {
					ids := make([]int64, n)
					want := make([]string, n)
					for i := range ids {
						ids[i] = idOf(i)
						want[i] = fmt.Sprint(ids[i])
					}
					if kind.name == "ImplicitNodes" {
						for i := range ids {
							ids[i] = int64(i) - 3
							want[i] = fmt.Sprint(ids[i])
						}
					}
					if len(kind.name) > 11 && kind.name[:11] == "graph.Empty" {
						want = nil
					}
					sort.Strings(want)
					var ks []int
					if n <= 40 {
						for k := 0; k <= n; k++ {
							ks = append(ks, k)
						}
					} else {
						ks = []int{0, 1, 2, 7, 8, 9, n / 2, n - 1, n}
					}
					runs += c.checkIterDeep(func() iterView { return kind.mk(ids, x) }, want, ks)
				}
				if len(c.errs) > 0 {
					break
				}
			}
			t.Count("iterator_protocol_runs", runs)
			t.Nontrivial()
			t.Outcome(kind.name)
			if len(c.errs) > 0 {
				t.Count("untagged_violations", 1)
				t.Count("untagged_in:iterators/"+kind.name, 1)
			}
			for _, e := range c.errs {
				t.Failf("%s", e)
			}
			for _, cl := range col.order {
				t.Count("finding_hits:"+cl, col.hits[cl])
				t.SubViolation(" finding="+cl, cl, map[string]any{"iterator": kind.name}, "%s", col.first[cl].Msg)
			}
		})
	}
}
