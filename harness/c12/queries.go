package main

import (
	"fmt"
	"sort"
	"strings"

	"gonum.org/v1/gonum/graph"
)

// absEdge is what the reference model says about the edge u→v.
type absEdge struct {
	w          float64
	hasW       bool // edge values carry a weight (graph.WeightedEdge) that must equal w
	ftag, ttag int  // tags of the From()/To() node objects of the edge seen as u→v (tagAny: unchecked)
}

// absModel is the reference model in the form the generic query oracle consumes.
// It is produced from the plain maps of the concrete models (node set, edge map, line map).
type absModel struct {
	name     string
	directed bool
	oriented bool                             // Edge(u,v) must come back as From=u, To=v (false: end points compared as a set)
	nodeTags bool                             // node objects are compared by tag as well as by ID
	nodes    map[int64]int                    // live IDs -> tag
	edge     func(u, v int64) (absEdge, bool) // the edge u→v; symmetric for undirected models
	weight   func(u, v int64) (float64, bool) // expected Weight(u,v); nil: unweighted graph
}

func (m *absModel) nodeKey(n graph.Node) string {
	if m.nodeTags {
		return fmt.Sprintf("%d/%d", n.ID(), tagOf(n))
	}
	return fmt.Sprintf("%d", n.ID())
}

func (m *absModel) nodeKeyWant(id int64) string {
	if m.nodeTags {
		return fmt.Sprintf("%d/%d", id, m.nodes[id])
	}
	return fmt.Sprintf("%d", id)
}

func edgeKey(u int64, ut int, v int64, vt int, w string, directed bool) string {
	if !directed && v < u {
		u, v, ut, vt = v, u, vt, ut
	}
	return fmt.Sprintf("%d/%d>%d/%d:%s", u, ut, v, vt, w)
}

// wantEdges lists the model's edges: every ordered pair for a directed model,
// every unordered pair once for an undirected one.
func (m *absModel) wantEdges() []string {
	ids := sortedIDs(m.nodes)
	var out []string
	for _, u := range ids {
		for _, v := range ids {
			if !m.directed && v < u {
				continue
			}
			e, ok := m.edge(u, v)
			if !ok {
				continue
			}
			w := "-"
			if e.hasW {
				w = fmtW(e.w)
			}
			out = append(out, edgeKey(u, e.ftag, v, e.ttag, w, m.directed))
		}
	}
	sort.Strings(out)
	return out
}

// gotEdgeKey renders an edge delivered by the implementation in the same form.
func (m *absModel) gotEdgeKey(e graph.Edge) string {
	f, t := e.From(), e.To()
	if f == nil || t == nil {
		return fmt.Sprintf("<edge with nil end point: %v %v>", f, t)
	}
	u, v := f.ID(), t.ID()
	me, ok := m.edge(u, v)
	if !ok {
		return fmt.Sprintf("<edge %d>%d not in the model>", u, v)
	}
	w := "-"
	if me.hasW {
		if we, ok := e.(graph.WeightedEdge); ok {
			w = fmtW(we.Weight())
		} else {
			w = fmt.Sprintf("<%T has no Weight>", e)
		}
	}
	ft, tt := tagAny, tagAny
	if me.ftag != tagAny {
		ft = tagOf(f)
	}
	if me.ttag != tagAny {
		tt = tagOf(t)
	}
	return edgeKey(u, ft, v, tt, w, m.directed)
}

func (c *ctx) checkEdge(m *absModel, what string, ge graph.Edge, u, v int64, e absEdge) {
	f, t := ge.From(), ge.To()
	if f == nil || t == nil {
		c.failf("%s %s(%d,%d): edge with nil end point", m.name, what, u, v)
		return
	}
	switch {
	case f.ID() == u && t.ID() == v:
	case !m.oriented && f.ID() == v && t.ID() == u:
		e.ftag, e.ttag = e.ttag, e.ftag
	default:
		c.failf("%s %s(%d,%d): edge runs %d>%d", m.name, what, u, v, f.ID(), t.ID())
		return
	}
	if e.ftag != tagAny && tagOf(f) != e.ftag {
		c.failf("%s %s(%d,%d): From() node has tag %d, want %d", m.name, what, u, v, tagOf(f), e.ftag)
	}
	if e.ttag != tagAny && tagOf(t) != e.ttag {
		c.failf("%s %s(%d,%d): To() node has tag %d, want %d", m.name, what, u, v, tagOf(t), e.ttag)
	}
	if e.hasW {
		we, ok := ge.(graph.WeightedEdge)
		if !ok {
			c.failf("%s %s(%d,%d): %T is not a weighted edge", m.name, what, u, v, ge)
		} else if !sameW(we.Weight(), e.w) {
			c.failf("%s %s(%d,%d): weight %v, want %v", m.name, what, u, v, we.Weight(), e.w)
		}
	}
}

// checkQueries compares every query method of g, for all IDs and ID pairs of Q
// (the universe plus absent IDs), with the model.
func (c *ctx) checkQueries(g graph.Graph, m *absModel, Q []int64) {
	ids := sortedIDs(m.nodes)
	wantNodes := make([]string, 0, len(ids))
	for _, id := range ids {
		wantNodes = append(wantNodes, m.nodeKeyWant(id))
	}
	sort.Strings(wantNodes)

	if it := g.Nodes(); it == nil {
		c.failf("%s: Nodes() returned nil", m.name)
	} else {
		c.checkIter(nodesView(func() string { return m.name + " Nodes()" }, it, m.nodeKey), wantNodes)
	}
	var got []string
	for _, n := range graph.NodesOf(g.Nodes()) {
		if n == nil {
			got = append(got, "<nil>")
			continue
		}
		got = append(got, m.nodeKey(n))
	}
	if !sameStrings(sortedCopy(got), wantNodes) {
		c.failf("%s: NodesOf(Nodes()) = %v, want %v", m.name, got, wantNodes)
	}
	for _, q := range Q {
		n := g.Node(q)
		tag, live := m.nodes[q]
		switch {
		case live && n == nil:
			c.failf("%s: Node(%d) = nil for a live node", m.name, q)
		case !live && n != nil:
			c.failf("%s: Node(%d) = %v for an absent node", m.name, q, n)
		case live:
			if n.ID() != q {
				c.failf("%s: Node(%d).ID() = %d", m.name, q, n.ID())
			}
			if m.nodeTags && tagOf(n) != tag {
				c.failf("%s: Node(%d) holds the node object with tag %d, want %d", m.name, q, tagOf(n), tag)
			}
		}
	}

	wantEdges := m.wantEdges()
	ekey := func(e graph.Edge) string { return m.gotEdgeKey(e) }
	if eg, ok := g.(interface{ Edges() graph.Edges }); ok {
		if it := eg.Edges(); it == nil {
			c.failf("%s: Edges() returned nil", m.name)
		} else {
			c.checkIter(edgesView(func() string { return m.name + " Edges()" }, it, ekey), wantEdges)
		}
		got = got[:0]
		for _, e := range graph.EdgesOf(eg.Edges()) {
			if e == nil {
				got = append(got, "<nil>")
				continue
			}
			got = append(got, ekey(e))
		}
		if !sameStrings(sortedCopy(got), wantEdges) {
			c.failf("%s: EdgesOf(Edges()) = %v, want %v", m.name, got, wantEdges)
		}
	}
	if wg, ok := g.(interface{ WeightedEdges() graph.WeightedEdges }); ok {
		if it := wg.WeightedEdges(); it == nil {
			c.failf("%s: WeightedEdges() returned nil", m.name)
		} else {
			c.checkIter(wedgesView(func() string { return m.name + " WeightedEdges()" }, it, ekey), wantEdges)
		}
		got = got[:0]
		for _, e := range graph.WeightedEdgesOf(wg.WeightedEdges()) {
			if e == nil {
				got = append(got, "<nil>")
				continue
			}
			got = append(got, ekey(e))
		}
		if !sameStrings(sortedCopy(got), wantEdges) {
			c.failf("%s: WeightedEdgesOf(WeightedEdges()) = %v, want %v", m.name, got, wantEdges)
		}
	}

	dg, isDir := g.(graph.Directed)
	ug, isUnd := g.(graph.Undirected)
	wg, isW := g.(graph.Weighted)
	wug, isWU := g.(graph.WeightedUndirected)
	if m.directed && !isDir {
		c.failf("%s: %T does not implement graph.Directed", m.name, g)
	}
	if !m.directed && !isUnd {
		c.failf("%s: %T does not implement graph.Undirected", m.name, g)
	}
	if (m.weight != nil) != isW {
		c.failf("%s: %T graph.Weighted=%v, model weighted=%v", m.name, g, isW, m.weight != nil)
	}
	for _, u := range Q {
		for _, v := range Q {
			e, has := m.edge(u, v)
			_, hasR := m.edge(v, u)
			if b := g.HasEdgeBetween(u, v); b != (has || hasR) {
				c.failf("%s: HasEdgeBetween(%d,%d)=%v, want %v", m.name, u, v, b, has || hasR)
			}
			if isDir {
				if b := dg.HasEdgeFromTo(u, v); b != has {
					c.failf("%s: HasEdgeFromTo(%d,%d)=%v, want %v", m.name, u, v, b, has)
				}
			}
			if ge := g.Edge(u, v); (ge != nil) != has {
				c.failf("%s: Edge(%d,%d)=%v, model has edge: %v", m.name, u, v, ge, has)
			} else if has {
				c.checkEdge(m, "Edge", ge, u, v, e)
			}
			if isUnd {
				if ge := ug.EdgeBetween(u, v); (ge != nil) != has {
					c.failf("%s: EdgeBetween(%d,%d)=%v, model has edge: %v", m.name, u, v, ge, has)
				} else if has {
					c.checkEdge(m, "EdgeBetween", ge, u, v, e)
				}
			}
			if isW && m.weight != nil {
				if ge := wg.WeightedEdge(u, v); (ge != nil) != has {
					c.failf("%s: WeightedEdge(%d,%d)=%v, model has edge: %v", m.name, u, v, ge, has)
				} else if has {
					c.checkEdge(m, "WeightedEdge", ge, u, v, e)
				}
				w, ok := wg.Weight(u, v)
				ew, eok := m.weight(u, v)
				if ok != eok || !sameW(w, ew) {
					c.failf("%s: Weight(%d,%d)=(%v,%v), want (%v,%v)", m.name, u, v, w, ok, ew, eok)
				}
			}
			if isWU && m.weight != nil {
				if ge := wug.WeightedEdgeBetween(u, v); (ge != nil) != has {
					c.failf("%s: WeightedEdgeBetween(%d,%d)=%v, model has edge: %v", m.name, u, v, ge, has)
				} else if has {
					c.checkEdge(m, "WeightedEdgeBetween", ge, u, v, e)
				}
			}
		}
	}
	for _, u := range Q {
		var from, to []string
		for _, v := range ids {
			if _, ok := m.edge(u, v); ok {
				from = append(from, m.nodeKeyWant(v))
			}
			if _, ok := m.edge(v, u); ok {
				to = append(to, m.nodeKeyWant(v))
			}
		}
		sort.Strings(from)
		sort.Strings(to)
		if it := g.From(u); it == nil {
			c.failf("%s: From(%d) returned nil (graph.Graph: From must not return nil)", m.name, u)
		} else {
			c.checkIter(nodesView(func() string { return fmt.Sprintf("%s From(%d)", m.name, u) }, it, m.nodeKey), from)
		}
		if isDir {
			if it := dg.To(u); it == nil {
				c.failf("%s: To(%d) returned nil (graph.Directed: To must not return nil)", m.name, u)
			} else {
				c.checkIter(nodesView(func() string { return fmt.Sprintf("%s To(%d)", m.name, u) }, it, m.nodeKey), to)
			}
		}
	}
}

// observe renders every query answer of g in a canonical, order independent
// form. It is used for the differential oracle (the graph reached by a history
// against a graph built directly from the model state): nothing in it depends
// on the reference model. End point node objects of edges are rendered by ID only.
func observe(g graph.Graph, Q []int64, directed bool) string {
	var b strings.Builder
	nk := func(n graph.Node) string {
		if n == nil {
			return "nil"
		}
		return fmt.Sprintf("%d/%d", n.ID(), tagOf(n))
	}
	nodeList := func(it graph.Nodes) string {
		if it == nil {
			return "<nil iterator>"
		}
		var s []string
		for it.Next() {
			s = append(s, nk(it.Node()))
		}
		sort.Strings(s)
		return strings.Join(s, ",")
	}
	ek := func(e graph.Edge) string {
		if e == nil {
			return "nil"
		}
		u, v := e.From().ID(), e.To().ID()
		if !directed && v < u {
			u, v = v, u
		}
		w := "-"
		if we, ok := e.(graph.WeightedEdge); ok {
			w = fmtW(we.Weight())
		}
		return fmt.Sprintf("%d>%d:%s", u, v, w)
	}
	lk := func(l graph.Line) string {
		w := "-"
		if wl, ok := l.(graph.WeightedLine); ok {
			w = fmtW(wl.Weight())
		}
		return fmt.Sprintf("%d>%d#%d:%s", l.From().ID(), l.To().ID(), l.ID(), w)
	}
	fmt.Fprintf(&b, "N[%s]", nodeList(g.Nodes()))
	if eg, ok := g.(interface{ Edges() graph.Edges }); ok {
		var s []string
		it := eg.Edges()
		for it.Next() {
			s = append(s, ek(it.Edge()))
		}
		sort.Strings(s)
		fmt.Fprintf(&b, "E[%s]", strings.Join(s, ","))
	}
	dg, isDir := g.(graph.Directed)
	wg, isW := g.(graph.Weighted)
	mg, isM := g.(graph.Multigraph)
	for _, u := range Q {
		fmt.Fprintf(&b, "|%d:%s F[%s]", u, nk(g.Node(u)), nodeList(g.From(u)))
		if isDir {
			fmt.Fprintf(&b, "T[%s]", nodeList(dg.To(u)))
		}
		for _, v := range Q {
			fmt.Fprintf(&b, " %d:%v,%s", v, g.HasEdgeBetween(u, v), ek(g.Edge(u, v)))
			if isDir {
				fmt.Fprintf(&b, ",%v", dg.HasEdgeFromTo(u, v))
			}
			if isW {
				w, ok := wg.Weight(u, v)
				fmt.Fprintf(&b, ",%s/%v", fmtW(w), ok)
			}
			if isM {
				var s []string
				it := mg.Lines(u, v)
				for it != nil && it.Next() {
					s = append(s, lk(it.Line()))
				}
				sort.Strings(s)
				fmt.Fprintf(&b, ",L[%s]", strings.Join(s, ","))
			}
		}
	}
	return b.String()
}
