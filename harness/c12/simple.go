package main

import (
	"fmt"
	"sort"
	"strconv"

	"gonum.org/v1/gonum/graph"
	"gonum.org/v1/gonum/graph/simple"
	"gonum.org/v1/gonum/internal/verif/vlib"
	"gonum.org/v1/gonum/internal/verif/vseq"
)

// The four map backed simple graphs.

type skind int

const (
	sDirected skind = iota
	sUndirected
	sWeightedDirected
	sWeightedUndirected
)

func (k skind) String() string {
	return [...]string{"simple.DirectedGraph", "simple.UndirectedGraph", "simple.WeightedDirectedGraph", "simple.WeightedUndirectedGraph"}[k]
}
func (k skind) directed() bool { return k == sDirected || k == sWeightedDirected }
func (k skind) weighted() bool { return k == sWeightedDirected || k == sWeightedUndirected }

const (
	defSelf   = -7.0 // default Weight(x,x) of the weighted simple graphs
	defAbsent = 0.5  // default Weight of an absent edge
)

// simpleG is the method set the four containers share.
type simpleG interface {
	graph.Graph
	AddNode(graph.Node)
	NewNode() graph.Node
	RemoveNode(int64)
	RemoveEdge(fid, tid int64)
	NodeWithID(int64) (graph.Node, bool)
	Edges() graph.Edges
}

func newSimpleG(k skind, simpleSelf, simpleAbsent float64) (simpleG, func(tEdge)) {
	switch k {
	case sDirected:
		g := simple.NewDirectedGraph()
		return g, func(e tEdge) { g.SetEdge(e) }
	case sUndirected:
		g := simple.NewUndirectedGraph()
		return g, func(e tEdge) { g.SetEdge(e) }
	case sWeightedDirected:
		g := simple.NewWeightedDirectedGraph(simpleSelf, simpleAbsent)
		return g, func(e tEdge) { g.SetWeightedEdge(e) }
	default:
		g := simple.NewWeightedUndirectedGraph(simpleSelf, simpleAbsent)
		return g, func(e tEdge) { g.SetWeightedEdge(e) }
	}
}

// sModel is the reference model: a set of nodes (with the tag of the node
// object stored for the ID) and a map of edges to their weight/tag.
type sModel struct {
	self, absent float64 // constructor parameters of the weighted graphs
	directed     bool
	nodes        map[int64]int
	edges        map[[2]int64]float64  // directed: (from,to); undirected: (min,max)
	ends         map[[2]int64][3]int64 // per edge: from ID, tag of the from node value, tag of the to node value of the stored edge
}

func (m *sModel) ekey(u, v int64) [2]int64 {
	if !m.directed && v < u {
		u, v = v, u
	}
	return [2]int64{u, v}
}

func (m *sModel) key() string {
	b := make([]byte, 0, 128)
	for _, id := range sortedIDs(m.nodes) {
		b = strconv.AppendInt(b, id, 10)
		b = append(b, '/')
		b = strconv.AppendInt(b, int64(m.nodes[id]), 10)
		b = append(b, ',')
	}
	b = append(b, '|')
	ks := make([][2]int64, 0, len(m.edges))
	for k := range m.edges {
		ks = append(ks, k)
	}
	sort.Slice(ks, func(i, j int) bool {
		if ks[i][0] != ks[j][0] {
			return ks[i][0] < ks[j][0]
		}
		return ks[i][1] < ks[j][1]
	})
	for _, k := range ks {
		b = strconv.AppendInt(b, k[0], 10)
		b = append(b, '>')
		b = strconv.AppendInt(b, k[1], 10)
		b = append(b, ':')
		b = append(b, fmtW(m.edges[k])...)
		e := m.ends[k]
		b = append(b, '@')
		b = strconv.AppendInt(b, e[0], 10)
		b = append(b, '/')
		b = strconv.AppendInt(b, e[1], 10)
		b = append(b, '/')
		b = strconv.AppendInt(b, e[2], 10)
		b = append(b, ',')
	}
	return string(b)
}

func (m *sModel) removeNode(id int64) {
	delete(m.nodes, id)
	for k := range m.edges {
		if k[0] == id || k[1] == id {
			delete(m.edges, k)
			delete(m.ends, k)
		}
	}
}

// view turns the model into the form of the generic oracle. endTag gives the
// tag of an edge's end point node objects (the simple graphs keep the edge
// value they were given, whose nodes carry the tag chosen at SetEdge time).
func (m *sModel) view(name string, weighted bool, endTag func(w float64) int) *absModel {
	simpleSelf, simpleAbsent := m.self, m.absent
	a := &absModel{name: name, directed: m.directed, oriented: true, nodeTags: true, nodes: m.nodes}
	a.edge = func(u, v int64) (absEdge, bool) {
		w, ok := m.edges[m.ekey(u, v)]
		if !ok {
			return absEdge{}, false
		}
		e := m.ends[m.ekey(u, v)]
		ft, tt := int(e[1]), int(e[2])
		if e[0] != u { // the stored edge runs v→u: the container hands out its reversal
			ft, tt = tt, ft
		}
		return absEdge{w: w, hasW: true, ftag: ft, ttag: tt}, true
	}
	if weighted {
		a.weight = func(u, v int64) (float64, bool) {
			if u == v {
				return simpleSelf, true
			}
			if w, ok := m.edges[m.ekey(u, v)]; ok {
				return w, true
			}
			return simpleAbsent, false
		}
	}
	return a
}

type simpleCfg struct {
	kind    skind
	variant string
	ids     []int64   // the ID universe U
	uplus   []int64   // U plus the one extra ID an ID-issuing operation may add
	q       []int64   // IDs queried: U+ and absent IDs
	weights []float64 // SetEdge weights (tags for the unweighted graphs)
	tagByW  bool      // nodes created by SetEdge carry tag=int(w) (else tag 1)
	mixed   bool      // add the SetEdge operations with mixed end point node values (endFlavours)
	// constructor parameters of the weighted graphs; params=false: defSelf, defAbsent
	params       bool
	self, absent float64
}

func (c *simpleCfg) selfAbsent() (float64, float64) {
	if c.params {
		return c.self, c.absent
	}
	return defSelf, defAbsent
}

type sInst struct {
	g           simpleG
	set         func(tEdge)
	m           *sModel
	hist        []string
	observeOnly bool
	key, dump   string
}

type simpleSys struct {
	base
	cfg simpleCfg
}

func (y *simpleSys) endTag(w float64) int {
	if y.cfg.tagByW {
		return int(w)
	}
	return 1
}

func simpleOps(cfg *simpleCfg) []op {
	var ops []op
	for _, i := range cfg.ids {
		ops = append(ops, op{kind: opAddNode, i: i, name: fmt.Sprintf("AddNode(%d)", i)})
	}
	ops = append(ops, op{kind: opNewNode, name: "AddNode(NewNode())"})
	for _, i := range cfg.ids {
		ops = append(ops, op{kind: opRemoveNode, i: i, name: fmt.Sprintf("RemoveNode(%d)", i)})
	}
	for _, w := range cfg.weights {
		for _, i := range cfg.ids {
			for _, j := range cfg.ids {
				ops = append(ops, op{kind: opSetEdge, i: i, j: j, w: w, name: fmt.Sprintf("SetEdge(%d,%d,w=%s)", i, j, fmtW(w))})
			}
		}
	}
	if cfg.mixed {
		for _, fl := range endFlavours {
			for _, i := range cfg.ids {
				for _, j := range cfg.ids {
					ops = append(ops, op{kind: opSetEdge, i: i, j: j, w: cfg.weights[0], mixed: true, ft: fl[0], tt: fl[1],
						name: fmt.Sprintf("SetEdge(%d,%d,w=%s,ends=%s)", i, j, fmtW(cfg.weights[0]), flavourName(fl[0], fl[1]))})
				}
			}
		}
	}
	for _, i := range cfg.ids {
		for _, j := range cfg.ids {
			ops = append(ops, op{kind: opRemoveEdge, i: i, j: j, name: fmt.Sprintf("RemoveEdge(%d,%d)", i, j)})
		}
	}
	for _, i := range cfg.ids {
		ops = append(ops, op{kind: opNodeWithID, i: i, name: fmt.Sprintf("AddNode(NodeWithID(%d))", i)})
	}
	return ops
}

func (y *simpleSys) newInst() *sInst {
	self, absent := y.cfg.selfAbsent()
	g, set := newSimpleG(y.cfg.kind, self, absent)
	return &sInst{g: g, set: set, m: &sModel{self: self, absent: absent, directed: y.cfg.kind.directed(), nodes: map[int64]int{}, edges: map[[2]int64]float64{}, ends: map[[2]int64][3]int64{}}}
}

func (y *simpleSys) keyOf(s *sInst) string {
	if s.key == "" {
		if s.dump == "" {
			s.dump = dumpState(s.g)
		}
		s.key = stateKey(s.dump, s.m.key())
	}
	return s.key
}

// expectPanic runs f, which the documentation says panics, and checks that it
// does and that the complete private state is unchanged afterwards.
func expectPanic(c *ctx, g any, what string, f func()) (after string) {
	before := dumpState(g)
	panicked, _ := try(f)
	if !panicked {
		c.failf("%s did not panic", what)
		return ""
	}
	if after = dumpState(g); after != before {
		c.failf("%s panicked but modified the graph: before %s after %s", what, before, after)
	}
	return after
}

func (y *simpleSys) apply(s *sInst, k int) (string, bool) {
	o := y.ops[k]
	s.hist = append(s.hist, o.name)
	s.key, s.dump = "", ""
	s.observeOnly = false
	c := &ctx{col: y.col, hist: s.hist}
	extend := true
	msg := guard(o.name, func() string {
		m := s.m
		switch o.kind {
		case opAddNode:
			if _, live := m.nodes[o.i]; live {
				s.dump = expectPanic(c, s.g, o.name+" with a live ID", func() { s.g.AddNode(tNode{Id: o.i, Tag: 0}) })
				break
			}
			s.g.AddNode(tNode{Id: o.i, Tag: 0})
			m.nodes[o.i] = 0
		case opNewNode:
			answers := readPool(field(s.g, "nodeIDs")).possibleNewIDs()
			if len(m.nodes) == 0 {
				answers = []int64{0}
			}
			n := s.g.NewNode()
			if n == nil {
				c.failf("NewNode() returned nil")
				break
			}
			id := n.ID()
			if _, live := m.nodes[id]; live {
				c.failf("NewNode() issued ID %d which is live", id)
			}
			if !containsID(answers, id) {
				c.failf("NewNode() issued ID %d, the dumped pool predicts one of %s", id, idsString(answers))
			}
			if len(answers) != 1 || !containsID(y.cfg.uplus, id) {
				// not forced (map iteration picks among several free IDs) or
				// outside the bounded universe: observed only.
				extend, s.observeOnly = false, true
				break
			}
			s.g.AddNode(n)
			m.nodes[id] = tagOf(n)
		case opRemoveNode:
			s.g.RemoveNode(o.i)
			m.removeNode(o.i)
		case opSetEdge:
			ft, tt := y.endTag(o.w), y.endTag(o.w)
			if o.mixed {
				ft, tt = o.ft, o.tt
			}
			e := tEdge{F: mkNode(o.i, ft, ownSimple), T: mkNode(o.j, tt, ownSimple), W: o.w}
			if o.i == o.j {
				// documented: panics if the IDs of e.From and e.To are equal — whatever values carry them
				s.dump = expectPanic(c, s.g, o.name+" (self loop)", func() { s.set(e) })
				break
			}
			s.set(e)
			m.nodes[o.i], m.nodes[o.j] = ft, tt
			m.edges[m.ekey(o.i, o.j)] = o.w
			m.ends[m.ekey(o.i, o.j)] = [3]int64{o.i, int64(ft), int64(tt)}
		case opRemoveEdge:
			s.g.RemoveEdge(o.i, o.j)
			delete(m.edges, m.ekey(o.i, o.j))
			delete(m.ends, m.ekey(o.i, o.j))
		case opNodeWithID:
			n, isNew := s.g.NodeWithID(o.i)
			tag, live := m.nodes[o.i]
			switch {
			case n == nil:
				c.failf("NodeWithID(%d) returned nil", o.i)
			case n.ID() != o.i:
				c.failf("NodeWithID(%d) returned a node with ID %d", o.i, n.ID())
			case live && (isNew || tagOf(n) != tag):
				c.failf("NodeWithID(%d) on a live node returned (tag %d, new=%v), want the stored node (tag %d, new=false)", o.i, tagOf(n), isNew, tag)
			case !live && !isNew:
				c.failf("NodeWithID(%d) on an absent ID returned new=false", o.i)
			case !live:
				s.g.AddNode(n)
				m.nodes[o.i] = tagOf(n)
			}
		}
		return c.result()
	})
	return msg, extend
}

func (y *simpleSys) check(s *sInst) string {
	key := y.keyOf(s)
	run, heavy := y.gate(key, s.m.key, s.observeOnly)
	if !run {
		return ""
	}
	c := &ctx{col: y.col, hist: s.hist}
	return guard("oracle", func() string {
		k := y.cfg.kind
		c.checkQueries(s.g, s.m.view(y.label, k.weighted(), y.endTag), y.cfg.q)
		y.checkDump(c, s)
		if heavy {
			y.checkHeavy(c, s)
		}
		return c.result()
	})
}

// checkDump checks the invariants on the dumped private state: the node ID
// pool and the adjacency maps (no stale entries, forward and reverse maps are
// mirror images, and both hold exactly the model's edges).
func (y *simpleSys) checkDump(c *ctx, s *sInst) {
	live := sortedIDs(s.m.nodes)
	p := readPool(field(s.g, "nodeIDs"))
	answers := p.possibleNewIDs()
	if len(live) == 0 {
		answers = []int64{0}
	}
	c.checkPool(y.label+" nodeIDs", p, live, true, answers)
	if nodes := intKeys(field(s.g, "nodes")); !sameIDs(nodes, live) {
		c.failf("%s: private nodes map holds %s, model %s", y.label, idsString(nodes), idsString(live))
	}
	if y.cfg.kind.directed() {
		from, to := readAdj(field(s.g, "from")), readAdj(field(s.g, "to"))
		checkAdj(c, y.label+" from", from, to, live, func(u, v int64) bool { _, ok := s.m.edges[[2]int64{u, v}]; return ok })
		checkAdj(c, y.label+" to", to, from, live, func(u, v int64) bool { _, ok := s.m.edges[[2]int64{v, u}]; return ok })
		for e := range s.m.edges {
			if !from.has(e[0], e[1]) || !to.has(e[1], e[0]) {
				c.failf("%s: model edge %d>%d missing in from/to maps", y.label, e[0], e[1])
			}
		}
	} else {
		ed := readAdj(field(s.g, "edges"))
		checkAdj(c, y.label+" edges", ed, ed, live, func(u, v int64) bool { _, ok := s.m.edges[s.m.ekey(u, v)]; return ok })
		for e := range s.m.edges {
			if !ed.has(e[0], e[1]) || !ed.has(e[1], e[0]) {
				c.failf("%s: model edge %d-%d missing in edges map", y.label, e[0], e[1])
			}
		}
	}
}

func sameIDs(a, b []int64) bool {
	if len(a) != len(b) {
		return false
	}
	for i := range a {
		if a[i] != b[i] {
			return false
		}
	}
	return true
}

// checkAdj checks one adjacency map: keys are live nodes, every entry is a
// model edge and has its mirror entry in the opposite map.
func checkAdj(c *ctx, what string, a, mirror adj, live []int64, has func(u, v int64) bool) {
	for u, inner := range a {
		if !containsID(live, u) {
			c.failf("%s: stale outer entry for removed node %d", what, u)
		}
		for v := range inner {
			if !containsID(live, v) {
				c.failf("%s[%d]: stale entry for removed node %d", what, u, v)
			}
			if !has(u, v) {
				c.failf("%s[%d][%d]: entry for an edge the model does not have", what, u, v)
			}
			if !mirror.has(v, u) {
				c.failf("%s[%d][%d]: no mirror entry [%d][%d]", what, u, v, v, u)
			}
		}
	}
}

// buildFresh builds a new container directly from the model state.
func (y *simpleSys) buildFresh(m *sModel) simpleG {
	g, set := newSimpleG(y.cfg.kind, m.self, m.absent)
	for _, id := range sortedIDs(m.nodes) {
		g.AddNode(mkNode(id, m.nodes[id], ownSimple))
	}
	ks := make([][2]int64, 0, len(m.edges))
	for k := range m.edges {
		ks = append(ks, k)
	}
	sort.Slice(ks, func(i, j int) bool { return ks[i][0] < ks[j][0] || (ks[i][0] == ks[j][0] && ks[i][1] < ks[j][1]) })
	for _, k := range ks {
		set(tEdge{F: mkNode(k[0], m.nodes[k[0]], ownSimple), T: mkNode(k[1], m.nodes[k[1]], ownSimple), W: m.edges[k]})
	}
	return g
}

// checkHeavy: the differential oracle and the adapters.
func (y *simpleSys) checkHeavy(c *ctx, s *sInst) {
	k := y.cfg.kind
	fresh := y.buildFresh(s.m)
	if a, b := observe(s.g, y.cfg.q, k.directed()), observe(fresh, y.cfg.q, k.directed()); a != b {
		c.failf("%s: the graph reached by the history answers\n%s\nbut a graph built directly from the model state answers\n%s", y.label, a, b)
	}
	has := func(u, v int64) (float64, bool) { w, ok := s.m.edges[s.m.ekey(u, v)]; return w, ok }
	checkAdapters(c, y.label, s.g, k.directed(), s.m.nodes, true, has, s.m.view(y.label, k.weighted(), y.endTag).weight, y.cfg.q)
}

func runSimple(t *vlib.T, cfg simpleCfg, param string, maxStates int, heavyEvery uint64) {
	y := &simpleSys{cfg: cfg}
	y.label, y.variant, y.param = cfg.kind.String(), cfg.variant, param
	y.ops = simpleOps(&y.cfg)
	y.col = newCollector()
	y.checked = map[string]struct{}{}
	y.maxStates = maxStates
	y.heavyEvery = heavyEvery
	runSearch(t, &y.base, vseq.System[*sInst]{
		New:   y.newInst,
		Apply: y.apply,
		Key:   y.keyOf,
		Check: y.check,
	})
}

func genSimple(g *vlib.G, cfg simpleCfg, maxStates int, heavyEvery uint64) {
	g.Case(cfg.kind.String()+" "+cfg.variant, func(t *vlib.T) { runSimple(t, cfg, "", maxStates, heavyEvery) })
}

// dedupW removes repeated weights (NaN-aware).
func dedupW(ws []float64) []float64 {
	var out []float64
	for _, w := range ws {
		dup := false
		for _, o := range out {
			dup = dup || sameW(o, w)
		}
		if !dup {
			out = append(out, w)
		}
	}
	return out
}

// genSimpleSweep: one case = one search per (self, absent) combination of the
// constructor NewWeighted*Graph(self, absent), both from paramValues. The edge
// weights include the self and the absent value themselves: in the map backed
// graphs such an edge exists like any other (Weight returns (w, true)).
func genSimpleSweep(g *vlib.G, k skind, n int, selfs, absents []float64, variant string, heavyEvery uint64) {
	g.Case(k.String()+" "+variant, func(t *vlib.T) {
		searches := int64(0)
		for _, self := range selfs {
			for _, absent := range absents {
				cfg := smallCfg(k, n, dedupW([]float64{2, absent, self}), false, variant)
				cfg.params, cfg.self, cfg.absent = true, self, absent
				runSimple(t, cfg, fmt.Sprintf("self=%s absent=%s", fmtW(self), fmtW(absent)), 0, heavyEvery)
				searches++
			}
		}
		t.Count("parameter_combinations", searches)
		t.Outcome(k.String() + " parameter sweep")
	})
}
