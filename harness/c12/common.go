package main

import (
	"encoding/binary"
	"fmt"
	"hash/fnv"
	"hash/maphash"
	"math"
	"sort"
	"strconv"
	"strings"

	"gonum.org/v1/gonum/graph"
	"gonum.org/v1/gonum/graph/multi"
	"gonum.org/v1/gonum/graph/simple"
)

// Node payloads. The harness adds nodes of its own type carrying a tag so that
// "which node object is stored under this ID" is observable.
const (
	tagOwn = -1 // the container's own node type (simple.Node / multi.Node)
	tagAny = -2 // do not compare
	tagBad = -99
)

type tNode struct {
	Id  int64
	Tag int
}

func (n tNode) ID() int64 { return n.Id }

func tagOf(n graph.Node) int {
	switch n := n.(type) {
	case tNode:
		return n.Tag
	case simple.Node, multi.Node:
		return tagOwn
	}
	return tagBad
}

// mkNode builds a node that carries the given tag.
func mkNode(id int64, tag int, own func(int64) graph.Node) graph.Node {
	if tag == tagOwn {
		return own(id)
	}
	return tNode{Id: id, Tag: tag}
}

func ownSimple(id int64) graph.Node { return simple.Node(id) }
func ownMulti(id int64) graph.Node  { return multi.Node(id) }

// tEdge is the harness's edge type: a weighted edge whose weight doubles as a tag
// for the unweighted containers (they store the value they are given).
type tEdge struct {
	F, T graph.Node
	W    float64
}

func (e tEdge) From() graph.Node         { return e.F }
func (e tEdge) To() graph.Node           { return e.T }
func (e tEdge) ReversedEdge() graph.Edge { e.F, e.T = e.T, e.F; return e }
func (e tEdge) Weight() float64          { return e.W }

// tLine is the harness's line type (weighted; the weight doubles as a tag).
type tLine struct {
	F, T graph.Node
	W    float64
	UID  int64
}

func (l tLine) From() graph.Node         { return l.F }
func (l tLine) To() graph.Node           { return l.T }
func (l tLine) ReversedLine() graph.Line { l.F, l.T = l.T, l.F; return l }
func (l tLine) ID() int64                { return l.UID }
func (l tLine) Weight() float64          { return l.W }

// finding is a deviation the harness attributes to gonum itself (tagged class).
type finding struct {
	Class string   `json:"class"`
	Msg   string   `json:"msg"`
	Hist  []string `json:"history"`
}

// collector gathers tagged findings of one search: the first (shortest) history
// per class and the number of transitions/states on which the class was seen.
type collector struct {
	first map[string]*finding
	hits  map[string]int64
	order []string
}

func newCollector() *collector {
	return &collector{first: map[string]*finding{}, hits: map[string]int64{}}
}

func (c *collector) add(class, msg string, hist []string) {
	c.hits[class]++
	if _, ok := c.first[class]; !ok {
		c.first[class] = &finding{Class: class, Msg: msg, Hist: append([]string(nil), hist...)}
		c.order = append(c.order, class)
	}
}

// ctx collects the outcome of one Apply or Check.
type ctx struct {
	col  *collector
	hist []string
	errs []string
	seen map[string]bool // finding classes already recorded by this ctx
}

func (c *ctx) failf(format string, a ...any) {
	if len(c.errs) < 5 {
		c.errs = append(c.errs, fmt.Sprintf(format, a...))
	}
}

// findingf records a tagged finding (at most once per class per ctx).
func (c *ctx) findingf(class, format string, a ...any) {
	if c.seen == nil {
		c.seen = map[string]bool{}
	}
	if c.seen[class] {
		return
	}
	c.seen[class] = true
	if _, ok := c.col.first[class]; ok {
		c.col.hits[class]++
		return
	}
	c.col.add(class, fmt.Sprintf(format, a...), c.hist)
}

func (c *ctx) result() string { return strings.Join(c.errs, "; ") }

// try runs f and reports whether it panicked.
func try(f func()) (panicked bool, val any) {
	defer func() {
		if r := recover(); r != nil {
			panicked, val = true, r
		}
	}()
	f()
	return false, nil
}

func fmtW(w float64) string {
	if math.IsNaN(w) {
		return "NaN"
	}
	return strconv.FormatFloat(w, 'g', -1, 64)
}

func sameW(a, b float64) bool { return a == b || (math.IsNaN(a) && math.IsNaN(b)) }

func sortedIDs[V any](m map[int64]V) []int64 {
	ids := make([]int64, 0, len(m))
	for id := range m {
		ids = append(ids, id)
	}
	sort.Slice(ids, func(i, j int) bool { return ids[i] < ids[j] })
	return ids
}

func sortedCopy(s []string) []string {
	o := append([]string(nil), s...)
	sort.Strings(o)
	return o
}

func sameStrings(a, b []string) bool {
	if len(a) != len(b) {
		return false
	}
	for i := range a {
		if a[i] != b[i] {
			return false
		}
	}
	return true
}

// hash128 is the deterministic hash used for the model digest (short inputs).
func hash128(k string) [2]uint64 {
	a := fnv.New64a()
	a.Write([]byte(k))
	b := fnv.New64()
	b.Write([]byte(k))
	return [2]uint64{a.Sum64(), b.Sum64()}
}

// stateKey compresses the long canonical state description (private-state dump
// plus model state) to 128 bits with two independently seeded maphash
// functions. It is used for deduplication only (the seeds differ from process
// to process, which cannot change which states are equal).
var seedA, seedB = maphash.MakeSeed(), maphash.MakeSeed()

func stateKey(parts ...string) string {
	var ha, hb maphash.Hash
	ha.SetSeed(seedA)
	hb.SetSeed(seedB)
	for _, p := range parts {
		ha.WriteString(p)
		ha.WriteByte(0)
		hb.WriteString(p)
		hb.WriteByte(0)
	}
	var out [16]byte
	binary.LittleEndian.PutUint64(out[:8], ha.Sum64())
	binary.LittleEndian.PutUint64(out[8:], hb.Sum64())
	return string(out[:])
}

func containsID(ids []int64, id int64) bool {
	for _, x := range ids {
		if x == id {
			return true
		}
	}
	return false
}

func idsString(ids []int64) string {
	s := make([]string, len(ids))
	for i, id := range ids {
		s[i] = strconv.FormatInt(id, 10)
	}
	return "{" + strings.Join(s, ",") + "}"
}
