package main

import (
	"fmt"
	"math"
	"sort"
	"strconv"

	"gonum.org/v1/gonum/graph"
	"gonum.org/v1/gonum/graph/simple"
	"gonum.org/v1/gonum/internal/verif/vlib"
	"gonum.org/v1/gonum/internal/verif/vseq"
	"gonum.org/v1/gonum/mat"
)

// The two dense matrix graphs. They have a fixed node set 0..n-1; the
// alphabet is SetEdge / SetWeightedEdge / RemoveEdge including self loops and
// IDs outside the matrix.

type xkind int

const (
	xDirected xkind = iota
	xUndirected
)

func (k xkind) String() string {
	return [...]string{"simple.DirectedMatrix", "simple.UndirectedMatrix"}[k]
}

type matrixG interface {
	graph.Weighted
	RemoveEdge(fid, tid int64)
	SetEdge(graph.Edge)
	SetWeightedEdge(graph.WeightedEdge)
	Matrix() mat.Matrix
	Edges() graph.Edges
}

type matrixCfg struct {
	mixed              bool // add SetEdge operations with mixed end point node values (endFlavours)
	kind               xkind
	variant            string
	n                  int
	from               bool // built with NewXxxMatrixFrom from tagged nodes (the graph then stores node objects)
	init, self, absent float64
	weights            []float64 // SetWeightedEdge weights; may contain the absent value
	unit               bool      // SetEdge (unit weight) operations
	opIDs              []int64   // IDs used by the operations: 0..n-1 and IDs outside the matrix
	q                  []int64
}

// newMatrixG builds the container; tags (nil: all 0) gives the tags of the node
// objects handed to the From constructors.
func newMatrixG(cfg *matrixCfg, tags map[int64]int) matrixG {
	if cfg.from {
		nodes := make([]graph.Node, cfg.n)
		for i := range nodes {
			// reverse order: the constructor sorts the nodes by ID
			id := int64(cfg.n - 1 - i)
			nodes[i] = tNode{Id: id, Tag: tags[id]}
		}
		if cfg.kind == xDirected {
			return simple.NewDirectedMatrixFrom(nodes, cfg.init, cfg.self, cfg.absent)
		}
		return simple.NewUndirectedMatrixFrom(nodes, cfg.init, cfg.self, cfg.absent)
	}
	if cfg.kind == xDirected {
		return simple.NewDirectedMatrix(cfg.n, cfg.init, cfg.self, cfg.absent)
	}
	return simple.NewUndirectedMatrix(cfg.n, cfg.init, cfg.self, cfg.absent)
}

// xModel: fixed node set with the tag of the stored node object, and the map
// of present edges (an edge is present iff its weight differs from absent).
type xModel struct {
	directed bool
	n        int
	absent   float64
	self     float64
	nodes    map[int64]int
	w        map[[2]int64]float64
}

func (m *xModel) ekey(u, v int64) [2]int64 {
	if !m.directed && v < u {
		u, v = v, u
	}
	return [2]int64{u, v}
}

func (m *xModel) inRange(id int64) bool { return 0 <= id && id < int64(m.n) }

func (m *xModel) set(u, v int64, w float64) {
	if sameW(w, m.absent) {
		delete(m.w, m.ekey(u, v))
		return
	}
	m.w[m.ekey(u, v)] = w
}

func (m *xModel) key() string {
	b := make([]byte, 0, 128)
	for id := int64(0); id < int64(m.n); id++ {
		b = strconv.AppendInt(b, int64(m.nodes[id]), 10)
		b = append(b, ',')
	}
	ks := make([][2]int64, 0, len(m.w))
	for k := range m.w {
		ks = append(ks, k)
	}
	sort.Slice(ks, func(i, j int) bool {
		if ks[i][0] != ks[j][0] {
			return ks[i][0] < ks[j][0]
		}
		return ks[i][1] < ks[j][1]
	})
	for _, k := range ks {
		b = strconv.AppendInt(b, k[0], 10)
		b = append(b, '>')
		b = strconv.AppendInt(b, k[1], 10)
		b = append(b, ':')
		b = append(b, fmtW(m.w[k])...)
		b = append(b, ',')
	}
	return string(b)
}

func (m *xModel) view(name string) *absModel {
	a := &absModel{name: name, directed: m.directed, oriented: true, nodeTags: true, nodes: m.nodes}
	a.edge = func(u, v int64) (absEdge, bool) {
		if u == v {
			return absEdge{}, false
		}
		w, ok := m.w[m.ekey(u, v)]
		if !ok {
			return absEdge{}, false
		}
		// edge values are built on demand from the current node objects
		return absEdge{w: w, hasW: true, ftag: m.nodes[u], ttag: m.nodes[v]}, true
	}
	a.weight = func(u, v int64) (float64, bool) {
		if u == v {
			return m.self, true
		}
		if w, ok := m.w[m.ekey(u, v)]; ok {
			return w, true
		}
		return m.absent, false
	}
	return a
}

type xInst struct {
	g           matrixG
	m           *xModel
	hist        []string
	observeOnly bool
	offModel    bool // the last transition was flagged as a finding that leaves the graph in a state outside the model
	key, dump   string
}

type matrixSys struct {
	base
	cfg matrixCfg
}

func matrixOps(cfg *matrixCfg) []op {
	var ops []op
	if cfg.unit {
		for _, i := range cfg.opIDs {
			for _, j := range cfg.opIDs {
				ops = append(ops, op{kind: opSetUnit, i: i, j: j, w: 1, name: fmt.Sprintf("SetEdge(%d,%d)", i, j)})
			}
		}
	}
	if cfg.mixed {
		for _, fl := range endFlavours {
			for _, i := range cfg.opIDs {
				for _, j := range cfg.opIDs {
					ops = append(ops, op{kind: opSetUnit, i: i, j: j, w: 1, mixed: true, ft: fl[0], tt: fl[1], name: fmt.Sprintf("SetEdge(%d,%d,ends=%s)", i, j, flavourName(fl[0], fl[1]))})
				}
			}
		}
	}
	for _, w := range cfg.weights {
		for _, i := range cfg.opIDs {
			for _, j := range cfg.opIDs {
				ops = append(ops, op{kind: opSetEdge, i: i, j: j, w: w, name: fmt.Sprintf("SetWeightedEdge(%d,%d,w=%s)", i, j, fmtW(w))})
			}
		}
	}
	for _, i := range cfg.opIDs {
		for _, j := range cfg.opIDs {
			ops = append(ops, op{kind: opRemoveEdge, i: i, j: j, name: fmt.Sprintf("RemoveEdge(%d,%d)", i, j)})
		}
	}
	return ops
}

func (y *matrixSys) newModel() *xModel {
	cfg := &y.cfg
	m := &xModel{directed: cfg.kind == xDirected, n: cfg.n, absent: cfg.absent, self: cfg.self, nodes: map[int64]int{}, w: map[[2]int64]float64{}}
	for i := int64(0); i < int64(cfg.n); i++ {
		m.nodes[i] = tagOwn
		if cfg.from {
			m.nodes[i] = 0
		}
		for j := int64(0); j < int64(cfg.n); j++ {
			if i != j {
				m.set(i, j, cfg.init)
			}
		}
	}
	return m
}

func (y *matrixSys) newInst() *xInst {
	return &xInst{g: newMatrixG(&y.cfg, nil), m: y.newModel()}
}

func (y *matrixSys) keyOf(s *xInst) string {
	if s.key == "" {
		if s.dump == "" {
			s.dump = dumpState(s.g)
		}
		s.key = stateKey(s.dump, s.m.key())
	}
	return s.key
}

func (y *matrixSys) apply(s *xInst, k int) (string, bool) {
	o := y.ops[k]
	s.hist = append(s.hist, o.name)
	s.key, s.dump = "", ""
	s.observeOnly, s.offModel = false, false
	c := &ctx{col: y.col, hist: s.hist}
	extend := true
	msg := guard(o.name, func() string {
		m := s.m
		switch o.kind {
		case opSetEdge, opSetUnit:
			tag := 3 // tag of the node objects handed in with the edge
			if o.w == 1 || o.w == 2 {
				tag = int(o.w)
			}
			ft, tt := tag, tag
			if o.mixed {
				ft, tt = o.ft, o.tt
				tag = ft
			}
			call := func() {
				if o.kind == opSetUnit {
					// the weight of the value must be ignored: SetEdge sets unit weight
					s.g.SetEdge(tEdge{F: mkNode(o.i, ft, ownSimple), T: mkNode(o.j, tt, ownSimple), W: 99})
				} else {
					s.g.SetWeightedEdge(tEdge{F: mkNode(o.i, ft, ownSimple), T: mkNode(o.j, tt, ownSimple), W: o.w})
				}
			}
			if o.i == o.j || !m.inRange(o.i) || !m.inRange(o.j) {
				// documented: panics if the ends are not in g or the edge is a self loop
				before := dumpState(s.g)
				panicked, _ := try(call)
				if !panicked {
					c.failf("%s did not panic (self loop or node outside the matrix)", o.name)
					break
				}
				s.dump = dumpState(s.g)
				if s.dump != before {
					if y.cfg.from && o.i != o.j && m.inRange(o.i) && !m.inRange(o.j) && tagOf(s.g.Node(o.i)) == tag && m.nodes[o.i] != tag {
						c.findingf(classMatrixPartial, "%s (built with New%sFrom).%s: the to-node is outside the matrix, the call panics, but the stored node object for ID %d was already replaced by the edge's from-node", y.label, y.label[len("simple."):], o.name, o.i)
						extend, s.observeOnly, s.offModel = false, true, true
						break
					}
					c.failf("%s panicked but modified the graph: before %s after %s", o.name, before, s.dump)
				}
				break
			}
			call()
			m.set(o.i, o.j, o.w)
			if y.cfg.from {
				m.nodes[o.i], m.nodes[o.j] = ft, tt
			}
		case opRemoveEdge:
			selfInRange := o.i == o.j && m.inRange(o.i)
			before := ""
			if selfInRange {
				before = dumpState(s.g)
			}
			s.g.RemoveEdge(o.i, o.j)
			if selfInRange {
				s.dump = dumpState(s.g)
				if s.dump != before {
					d := s.g.Matrix().At(int(o.i), int(o.i))
					if sameW(d, m.absent) && !sameW(m.self, m.absent) {
						c.findingf(classMatrixDiag, "%s.%s: there is no self edge, so this is documented as a no-op, but the diagonal entry of Matrix() changed from the self value %v to the absent value %v", y.label, o.name, m.self, d)
						extend, s.observeOnly, s.offModel = false, true, true
						break
					}
					c.failf("%s modified the graph: before %s after %s", o.name, before, s.dump)
				}
				break
			}
			if m.inRange(o.i) && m.inRange(o.j) {
				delete(m.w, m.ekey(o.i, o.j))
			}
		}
		return c.result()
	})
	return msg, extend
}

func (y *matrixSys) check(s *xInst) string {
	if s.offModel {
		return "" // flagged transition; the successor is outside the model and is not explored
	}
	key := y.keyOf(s)
	run, heavy := y.gate(key, s.m.key, s.observeOnly)
	if !run {
		return ""
	}
	c := &ctx{col: y.col, hist: s.hist}
	return guard("oracle", func() string {
		m := s.m
		c.checkQueries(s.g, m.view(y.label), y.cfg.q)
		// Matrix(): G_ij is the weight of the edge from i to j, absent where there
		// is none, self on the diagonal.
		mm := s.g.Matrix()
		if r, cc := mm.Dims(); r != m.n || cc != m.n {
			c.failf("%s: Matrix() is %dx%d, want %dx%d", y.label, r, cc, m.n, m.n)
		} else {
			for i := 0; i < m.n; i++ {
				for j := 0; j < m.n; j++ {
					want := m.absent
					if i == j {
						want = m.self
					} else if w, ok := m.w[m.ekey(int64(i), int64(j))]; ok {
						want = w
					}
					if got := mm.At(i, j); !sameW(got, want) {
						c.failf("%s: Matrix().At(%d,%d)=%v, want %v", y.label, i, j, got, want)
					}
				}
			}
		}
		if heavy {
			y.checkHeavy(c, s)
		}
		return c.result()
	})
}

func (y *matrixSys) checkHeavy(c *ctx, s *xInst) {
	m := s.m
	fresh := newMatrixG(&y.cfg, m.nodes)
	for i := int64(0); i < int64(m.n); i++ {
		for j := int64(0); j < int64(m.n); j++ {
			if i == j || (!m.directed && j < i) {
				continue
			}
			if w, ok := m.w[m.ekey(i, j)]; ok {
				fresh.SetWeightedEdge(tEdge{F: mkNode(i, m.nodes[i], ownSimple), T: mkNode(j, m.nodes[j], ownSimple), W: w})
			} else {
				fresh.RemoveEdge(i, j)
			}
		}
	}
	dir := m.directed
	if a, b := observe(s.g, y.cfg.q, dir), observe(fresh, y.cfg.q, dir); a != b {
		c.failf("%s: the graph reached by the history answers\n%s\nbut a graph built directly from the model state answers\n%s", y.label, a, b)
	}
	v := m.view(y.label)
	hasw := func(u, v int64) (float64, bool) {
		if u == v {
			return 0, false
		}
		w, ok := m.w[m.ekey(u, v)]
		return w, ok
	}
	checkAdapters(c, y.label, s.g, dir, m.nodes, true, hasw, v.weight, y.cfg.q)
}

func runMatrix(t *vlib.T, cfg matrixCfg, param string, maxStates int, heavyEvery uint64) {
	y := &matrixSys{cfg: cfg}
	y.label, y.variant, y.param = cfg.kind.String(), cfg.variant, param
	y.ops = matrixOps(&y.cfg)
	y.col = newCollector()
	y.checked = map[string]struct{}{}
	y.maxStates = maxStates
	y.heavyEvery = heavyEvery
	runSearch(t, &y.base, vseq.System[*xInst]{
		New:   y.newInst,
		Apply: y.apply,
		Key:   y.keyOf,
		Check: y.check,
	})
}

func genMatrix(g *vlib.G, cfg matrixCfg, maxStates int, heavyEvery uint64) {
	g.Case(cfg.kind.String()+" "+cfg.variant, func(t *vlib.T) { runMatrix(t, cfg, "", maxStates, heavyEvery) })
}

// paramValues are the values swept for the constructor parameters self and
// absent (and, for the matrices, init): every class the code distinguishes —
// zero, both infinities, NaN (the NaN-aware comparison isSame exists for it),
// the unit weight SetEdge stores, and a negative value.
func paramValues() []float64 {
	return []float64{0, math.Inf(1), math.Inf(-1), math.NaN(), 1, -1}
}

// genMatrixSweep: one case = one search per combination (self, absent, init)
// with self, absent from paramValues (absents lists the absent values of this
// case) and init in {absent value (no edges), 2 (all edges present)}. The weight
// alphabet is {2, the absent value} plus unit-weight SetEdge, so that "weight
// equal to absent" (= no edge: the edge set of a dense graph is defined by
// weight != absent) and, for absent = 1, SetEdge itself are covered.
func genMatrixSweep(g *vlib.G, k xkind, n int, from bool, absents, selfs []float64, variant string, heavyEvery uint64) {
	g.Case(k.String()+" "+variant, func(t *vlib.T) {
		searches := int64(0)
		for _, absent := range absents {
			for _, self := range selfs {
				for _, init := range []float64{absent, 2} {
					cfg := matrixCfgOf(k, variant, n, from, init, self, absent, []float64{2, absent}, true)
					runMatrix(t, cfg, fmt.Sprintf("self=%s absent=%s init=%s", fmtW(self), fmtW(absent), fmtW(init)), 0, heavyEvery)
					searches++
				}
			}
		}
		t.Count("parameter_combinations", searches)
		t.Outcome(k.String() + " parameter sweep")
	})
}

// genMatrixConstructors: group "constructors". NewDirectedMatrixFrom /
// NewUndirectedMatrixFrom with every node list over a small ID alphabet: the
// documentation demands contiguous IDs 0..len-1 in any order and a panic
// otherwise (which includes duplicates and negative IDs); an accepted list must
// give a graph that stores exactly the node objects handed in and answers every
// query like the model (all edges present with weight init, or none). Also the
// plain constructors for n = 1..4.
func genMatrixConstructors(g *vlib.G) {
	maxLen := vlib.Pick(g, 3, 4)
	alphabet := []int64{-1, 0, 1, 2, 3, 4}
	type params struct{ init, self, absent float64 }
	ps := []params{{2, 0, math.NaN()}, {math.Inf(1), 0, math.Inf(1)}, {0, -1, 0}, {1, math.NaN(), math.Inf(-1)}}
	for _, k := range []xkind{xDirected, xUndirected} {
		k := k
		g.Case(k.String()+" From node lists", func(t *vlib.T) {
			c := &ctx{col: newCollector()}
			var lists, accepted, rejected int64
			for L := 1; L <= maxLen; L++ {
				radices := make([]int, L)
				for i := range radices {
					radices[i] = len(alphabet)
				}
				vlib.Product(radices, func(ix []int) bool {
					ids := make([]int64, L)
					srt := make([]int64, L)
					for i, x := range ix {
						ids[i] = alphabet[x]
						srt[i] = ids[i]
					}
					sort.Slice(srt, func(i, j int) bool { return srt[i] < srt[j] })
					legal := true
					for i, id := range srt {
						legal = legal && id == int64(i)
					}
					p := ps[int(lists)%len(ps)]
					lists++
					mk := func() matrixG {
						nodes := make([]graph.Node, L)
						for i, id := range ids {
							nodes[i] = tNode{Id: id, Tag: 10 + i}
						}
						if k == xDirected {
							return simple.NewDirectedMatrixFrom(nodes, p.init, p.self, p.absent)
						}
						return simple.NewUndirectedMatrixFrom(nodes, p.init, p.self, p.absent)
					}
					var mg matrixG
					panicked, _ := try(func() { mg = mk() })
					what := fmt.Sprintf("New%sFrom(IDs %v, init=%s, self=%s, absent=%s)", k.String()[len("simple."):], ids, fmtW(p.init), fmtW(p.self), fmtW(p.absent))
					switch {
					case !legal && !panicked:
						c.failf("%s did not panic although the IDs are not 0..%d", what, L-1)
					case legal && panicked:
						c.failf("%s panicked although the IDs are contiguous", what)
					case !legal:
						rejected++
					default:
						accepted++
						m := &xModel{directed: k == xDirected, n: L, absent: p.absent, self: p.self, nodes: map[int64]int{}, w: map[[2]int64]float64{}}
						for i, id := range ids {
							m.nodes[id] = 10 + i
						}
						for i := int64(0); i < int64(L); i++ {
							for j := int64(0); j < int64(L); j++ {
								if i != j {
									m.set(i, j, p.init)
								}
							}
						}
						c.checkQueries(mg, m.view(what), cat(ints(0, L), int64(L), -1))
					}
					return true
				})
			}
			t.Count("constructor_calls", lists)
			t.Count("constructor_node_lists_accepted", accepted)
			t.Count("constructor_node_lists_rejected", rejected)
			t.Nontrivial()
			t.Outcome(k.String() + " From constructor")
			if len(c.errs) > 0 {
				t.Count("untagged_violations", 1)
				t.Count("untagged_in:constructors/"+k.String(), 1)
			}
			for _, e := range c.errs {
				t.Failf("%s", e)
			}
		})
		g.Case(k.String()+" plain n=1..4 all parameter values", func(t *vlib.T) {
			c := &ctx{col: newCollector()}
			var calls int64
			for n := 1; n <= 4; n++ {
				for _, absent := range paramValues() {
					for _, self := range paramValues() {
						for _, init := range dedupW([]float64{absent, 2, 1, self}) {
							calls++
							cfg := matrixCfgOf(k, "", n, false, init, self, absent, nil, false)
							y := &matrixSys{cfg: cfg}
							mg := newMatrixG(&cfg, nil)
							what := fmt.Sprintf("New%s(%d, init=%s, self=%s, absent=%s)", k.String()[len("simple."):], n, fmtW(init), fmtW(self), fmtW(absent))
							c.checkQueries(mg, y.newModel().view(what), cfg.q)
						}
					}
				}
			}
			t.Count("constructor_calls", calls)
			t.Nontrivial()
			t.Outcome(k.String() + " plain constructor")
			if len(c.errs) > 0 {
				t.Count("untagged_violations", 1)
				t.Count("untagged_in:constructors/"+k.String()+" plain", 1)
			}
			for _, e := range c.errs {
				t.Failf("%s", e)
			}
		})
	}
}
