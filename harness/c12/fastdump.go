package main

import (
	"bytes"
	"math"
	"reflect"
	"slices"
	"strconv"
)

// fieldNames caches the field names of struct types (reflect.Type.Field is slow).
var fieldNames = map[reflect.Type][]string{}

func namesOf(t reflect.Type) []string {
	if n, ok := fieldNames[t]; ok {
		return n
	}
	n := make([]string, t.NumField())
	for i := range n {
		n[i] = t.Field(i).Name
	}
	fieldNames[t] = n
	return n
}

// fastDump is a copy of vseq.Dump (same traversal, same information: the
// complete object graph including unexported fields, maps sorted by key dump,
// pointers followed with cycle detection, floats by bit pattern, slice len and
// cap) written with append instead of fmt, because the dump of the container
// is taken once per transition and dominated the run time. The output format
// differs from vseq.Dump in punctuation only.
func fastDump(v any) string {
	d := &fdumper{}
	return string(d.dump(make([]byte, 0, 1024), reflect.ValueOf(v), 0))
}

type fdumper struct {
	seen []uintptr
}

func (d *fdumper) dump(b []byte, v reflect.Value, depth int) []byte {
	if !v.IsValid() {
		return append(b, "nil"...)
	}
	if depth > 60 {
		return append(b, "<deep>"...)
	}
	switch v.Kind() {
	case reflect.Bool:
		return strconv.AppendBool(b, v.Bool())
	case reflect.Int, reflect.Int8, reflect.Int16, reflect.Int32, reflect.Int64:
		return strconv.AppendInt(b, v.Int(), 10)
	case reflect.Uint, reflect.Uint8, reflect.Uint16, reflect.Uint32, reflect.Uint64, reflect.Uintptr:
		return strconv.AppendUint(b, v.Uint(), 10)
	case reflect.Float32, reflect.Float64:
		b = append(b, 'f')
		return strconv.AppendUint(b, math.Float64bits(v.Float()), 16)
	case reflect.Complex64, reflect.Complex128:
		c := v.Complex()
		b = append(b, 'c')
		b = strconv.AppendUint(b, math.Float64bits(real(c)), 16)
		b = append(b, ',')
		return strconv.AppendUint(b, math.Float64bits(imag(c)), 16)
	case reflect.String:
		return strconv.AppendQuote(b, v.String())
	case reflect.Func:
		if v.IsNil() {
			return append(b, "func:nil"...)
		}
		return append(b, "func"...)
	case reflect.Chan, reflect.UnsafePointer:
		return append(b, v.Kind().String()...)
	case reflect.Interface:
		if v.IsNil() {
			return append(b, "iface:nil"...)
		}
		e := v.Elem()
		b = append(b, '(')
		b = append(b, e.Type().String()...)
		b = append(b, ')')
		return d.dump(b, e, depth+1)
	case reflect.Pointer:
		if v.IsNil() {
			return append(b, "ptr:nil"...)
		}
		p := v.Pointer()
		for i, q := range d.seen {
			if q == p {
				b = append(b, '^')
				return strconv.AppendInt(b, int64(i), 10)
			}
		}
		d.seen = append(d.seen, p)
		b = append(b, '&')
		return d.dump(b, v.Elem(), depth+1)
	case reflect.Struct:
		t := v.Type()
		b = append(b, t.Name()...)
		b = append(b, '{')
		names := namesOf(t)
		for i := 0; i < v.NumField(); i++ {
			b = append(b, names[i]...)
			b = append(b, ':')
			b = d.dump(b, v.Field(i), depth+1)
			b = append(b, ';')
		}
		return append(b, '}')
	case reflect.Array:
		b = append(b, '[')
		for i := 0; i < v.Len(); i++ {
			b = d.dump(b, v.Index(i), depth+1)
			b = append(b, ',')
		}
		return append(b, ']')
	case reflect.Slice:
		if v.IsNil() {
			return append(b, "slice:nil"...)
		}
		b = append(b, 's')
		b = strconv.AppendInt(b, int64(v.Len()), 10)
		b = append(b, '/')
		b = strconv.AppendInt(b, int64(v.Cap()), 10)
		b = append(b, '[')
		for i := 0; i < v.Len(); i++ {
			b = d.dump(b, v.Index(i), depth+1)
			b = append(b, ',')
		}
		return append(b, ']')
	case reflect.Map:
		if v.IsNil() {
			return append(b, "map:nil"...)
		}
		n := v.Len()
		b = append(b, 'm')
		b = strconv.AppendInt(b, int64(n), 10)
		b = append(b, '{')
		if n == 0 {
			return append(b, '}')
		}
		type ent struct{ k0, k1, v1 int }
		ents := make([]ent, 0, n)
		var scratch []byte
		it := v.MapRange()
		for it.Next() {
			k0 := len(scratch)
			scratch = d.dump(scratch, it.Key(), depth+1)
			k1 := len(scratch)
			scratch = d.dump(scratch, it.Value(), depth+1)
			ents = append(ents, ent{k0, k1, len(scratch)})
		}
		slices.SortFunc(ents, func(x, y ent) int {
			return bytes.Compare(scratch[x.k0:x.k1], scratch[y.k0:y.k1])
		})
		for _, e := range ents {
			b = append(b, scratch[e.k0:e.k1]...)
			b = append(b, '=', '>')
			b = append(b, scratch[e.k1:e.v1]...)
			b = append(b, ';')
		}
		return append(b, '}')
	}
	b = append(b, '<')
	b = append(b, v.Kind().String()...)
	return append(b, '>')
}
