package main

import (
	"fmt"
	"math"

	"gonum.org/v1/gonum/internal/verif/vlib"
	"gonum.org/v1/gonum/internal/verif/vseq"
)

// Group "long": fixed pseudo-random histories over a larger ID universe
// (including the extreme IDs) for the eight map backed containers.

func genLong(g *vlib.G) {
	n := vlib.Pick(g, 20, 48)
	steps := vlib.Pick(g, 600, 3000)
	seeds := vlib.Pick(g, 3, 6)
	every := vlib.Pick(g, 20, 25)
	ids := cat(ints(0, n), -1, math.MaxInt64)
	for _, k := range []skind{sDirected, sUndirected, sWeightedDirected, sWeightedUndirected} {
		for seed := 1; seed <= seeds; seed++ {
			k, seed := k, seed
			g.Case(fmt.Sprintf("%s seed=%d", k, seed), func(t *vlib.T) {
				cfg := simpleCfg{kind: k, variant: fmt.Sprintf("long n=%d+{-1,MaxInt64} seed=%d", n, seed), weights: []float64{1, 2}, tagByW: true}
				cfg.ids, cfg.uplus = ids, ids
				cfg.q = cat(ids, int64(n), absentID+1000)
				y := &simpleSys{cfg: cfg}
				y.label, y.variant = k.String(), cfg.variant
				y.ops = simpleOps(&y.cfg)
				y.col = newCollector()
				y.checked = map[string]struct{}{}
				y.heavyEvery = 1
				runLong(t, &y.base, vseq.System[*sInst]{New: y.newInst, Apply: y.apply, Key: y.keyOf, Check: y.check}, uint64(seed), steps, every,
					func(s *sInst) (int, int) { return len(s.m.nodes), len(s.m.edges) })
			})
		}
	}
	mn := vlib.Pick(g, 8, 14)
	mids := cat(ints(0, mn), -1, math.MaxInt64)
	for _, k := range []mkind{mDirected, mUndirected, mWeightedDirected, mWeightedUndirected} {
		for seed := 1; seed <= seeds; seed++ {
			k, seed := k, seed
			g.Case(fmt.Sprintf("%s seed=%d", k, seed), func(t *vlib.T) {
				cfg := multiCfgOf(k, fmt.Sprintf("long n=%d+{-1,MaxInt64} L{0,1,2,MaxInt64} seed=%d", mn, seed), mids, allPairs(mids), []int64{0, 1, 2, math.MaxInt64}, []float64{1, 2})
				y := &multiSys{cfg: cfg}
				y.label, y.variant = k.String(), cfg.variant
				y.ops = multiOps(&y.cfg)
				y.col = newCollector()
				y.checked = map[string]struct{}{}
				y.heavyEvery = 1
				runLong(t, &y.base, vseq.System[*mInst]{New: y.newInst, Apply: y.apply, Key: y.keyOf, Check: y.check}, uint64(seed), steps, every,
					func(s *mInst) (int, int) {
						n := 0
						for _, ls := range s.m.lines {
							n += len(ls)
						}
						return len(s.m.nodes), n
					})
			})
		}
	}
}
