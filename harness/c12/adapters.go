package main

import (
	"gonum.org/v1/gonum/graph"
	"gonum.org/v1/gonum/graph/simple"
)

const (
	adaptAbsent = 0.25 // UndirectWeighted.Absent
	copySelf    = -3.0
	copyAbsent  = 0.125
)

// checkAdapters checks, in the current state of the container g, the
// graph.Undirect / graph.UndirectWeighted views (directed containers) and
// graph.Copy / graph.CopyWeighted into fresh simple containers against models
// derived from the reference model:
//
//	nodes     the live IDs with the tag of the stored node object
//	has(u,v)  the model's edge u→v (symmetric for an undirected container) and its weight
//	edgeHasW  whether the container's edge values carry that weight
//	gweight   the expected answer of g.Weight (nil if g is unweighted)
func checkAdapters(c *ctx, label string, g graph.Graph, directed bool, nodes map[int64]int, edgeHasW bool, hasw func(u, v int64) (float64, bool), gweight func(u, v int64) (float64, bool), Q []int64) {
	has := func(u, v int64) bool { _, ok := hasw(u, v); return ok }
	if directed {
		dg, ok := g.(graph.Directed)
		if !ok {
			c.failf("%s: %T is not graph.Directed", label, g)
			return
		}
		und := &absModel{name: label + " via graph.Undirect", directed: false, oriented: false, nodeTags: true, nodes: nodes}
		und.edge = func(u, v int64) (absEdge, bool) {
			return absEdge{ftag: tagAny, ttag: tagAny}, has(u, v) || has(v, u)
		}
		c.checkQueries(graph.Undirect{G: dg}, und, Q)
		if wdg, ok := g.(graph.WeightedDirected); ok && gweight != nil {
			merged := func(u, v int64) (float64, bool) {
				f, fok := gweight(u, v)
				if !fok {
					f = adaptAbsent
				}
				r, rok := gweight(v, u)
				if !rok {
					r = adaptAbsent
				}
				return (f + r) / 2, fok || rok
			}
			uw := &absModel{name: label + " via graph.UndirectWeighted", directed: false, oriented: false, nodeTags: true, nodes: nodes}
			uw.edge = func(u, v int64) (absEdge, bool) {
				w, _ := merged(u, v)
				return absEdge{w: w, hasW: true, ftag: tagAny, ttag: tagAny}, has(u, v) || has(v, u)
			}
			uw.weight = merged
			c.checkQueries(graph.UndirectWeighted{G: wdg, Absent: adaptAbsent}, uw, Q)
		}
	}

	for id := range nodes {
		if has(id, id) {
			return // graph.Copy into a simple graph panics on self loops (multigraphs only)
		}
	}
	// weight of the copied edge u→v or {u,v}; known=false where the
	// documentation leaves it open (a directed source with two different
	// weights copied into an undirected destination).
	dirEdge := func(u, v int64) (absEdge, bool) {
		w, ok := hasw(u, v)
		if !ok && !directed {
			w, ok = hasw(v, u)
		}
		return absEdge{w: w, hasW: edgeHasW, ftag: tagAny, ttag: tagAny}, ok
	}
	conflict := false
	undEdge := func(u, v int64) (absEdge, bool) {
		f, fok := hasw(u, v)
		r, rok := hasw(v, u)
		switch {
		case fok && rok:
			return absEdge{w: f, hasW: edgeHasW && sameW(f, r), ftag: tagAny, ttag: tagAny}, true
		case fok:
			return absEdge{w: f, hasW: edgeHasW, ftag: tagAny, ttag: tagAny}, true
		case rok:
			return absEdge{w: r, hasW: edgeHasW, ftag: tagAny, ttag: tagAny}, true
		}
		return absEdge{}, false
	}
	for u := range nodes {
		for v := range nodes {
			f, fok := hasw(u, v)
			r, rok := hasw(v, u)
			if fok && rok && !sameW(f, r) {
				conflict = true
			}
		}
	}
	weightOf := func(edge func(u, v int64) (absEdge, bool)) func(u, v int64) (float64, bool) {
		return func(u, v int64) (float64, bool) {
			if u == v {
				return copySelf, true
			}
			if e, ok := edge(u, v); ok {
				return e.w, true
			}
			return copyAbsent, false
		}
	}

	dd := simple.NewDirectedGraph()
	graph.Copy(dd, g)
	c.checkQueries(dd, &absModel{name: label + " graph.Copy->simple.DirectedGraph", directed: true, oriented: true, nodes: nodes, edge: dirEdge}, Q)
	du := simple.NewUndirectedGraph()
	graph.Copy(du, g)
	c.checkQueries(du, &absModel{name: label + " graph.Copy->simple.UndirectedGraph", directed: false, oriented: true, nodes: nodes, edge: undEdge}, Q)
	if wg, ok := g.(graph.Weighted); ok && gweight != nil && edgeHasW {
		wd := simple.NewWeightedDirectedGraph(copySelf, copyAbsent)
		graph.CopyWeighted(wd, wg)
		c.checkQueries(wd, &absModel{name: label + " graph.CopyWeighted->simple.WeightedDirectedGraph", directed: true, oriented: true, nodes: nodes, edge: dirEdge, weight: weightOf(dirEdge)}, Q)
		if !conflict {
			wu := simple.NewWeightedUndirectedGraph(copySelf, copyAbsent)
			graph.CopyWeighted(wu, wg)
			c.checkQueries(wu, &absModel{name: label + " graph.CopyWeighted->simple.WeightedUndirectedGraph", directed: false, oriented: true, nodes: nodes, edge: undEdge, weight: weightOf(undEdge)}, Q)
		}
	}
}
