// Harness C12: graph containers stay consistent with a set model under any
// mutation history. See NOTES.md.
package main

import (
	"math"
	"runtime/debug"

	"gonum.org/v1/gonum/internal/verif/vlib"
)

func main() {
	debug.SetGCPercent(400)
	vlib.Main("C12",
		vlib.Group{Name: "simple", Gen: genSimpleGroup},
		vlib.Group{Name: "multi", Gen: genMultiGroup},
		vlib.Group{Name: "matrix", Gen: genMatrixGroup},
		vlib.Group{Name: "constructors", Gen: genMatrixConstructors},
		vlib.Group{Name: "iterators", Gen: genIterators},
		vlib.Group{Name: "long", Gen: genLong},
	)
}

const absentID = 7 // an ID that is never added

func ints(lo, n int) []int64 {
	out := make([]int64, n)
	for i := range out {
		out[i] = int64(lo + i)
	}
	return out
}

func cat(a []int64, b ...int64) []int64 { return append(append([]int64(nil), a...), b...) }

func smallCfg(k skind, n int, weights []float64, tagByW bool, variant string) simpleCfg {
	cfg := simpleCfg{kind: k, variant: variant, weights: weights, tagByW: tagByW}
	cfg.ids = ints(0, n)
	cfg.uplus = cat(cfg.ids, int64(n))
	cfg.q = cat(cfg.uplus, absentID)
	return cfg
}

func extremeCfg(k skind, ids []int64, variant string) simpleCfg {
	cfg := simpleCfg{kind: k, variant: variant, weights: []float64{1}}
	cfg.ids = ids
	cfg.uplus = cfg.ids // max U + 1 overflows: no extra ID
	cfg.q = cat(cfg.ids, 2, absentID)
	return cfg
}

func genSimpleGroup(g *vlib.G) {
	heavy := vlib.Pick[uint64](g, 4, 1)
	mx := int64(math.MaxInt64)
	kinds := []skind{sDirected, sUndirected, sWeightedDirected, sWeightedUndirected}
	for _, k := range kinds {
		genSimple(g, smallCfg(k, 3, []float64{1, 2}, false, "U3 w{1,2}"), 0, heavy)
		genSimple(g, extremeCfg(k, []int64{0, -1, mx}, "Ux{0,-1,MaxInt64} w{1}"), 0, heavy)
		if !k.directed() || g.Thorough() {
			genSimple(g, smallCfg(k, 4, []float64{1}, false, "U4 w{1}"), 0, heavy)
		}
	}
	// end point node VALUES: user nodes with different payloads and the container's
	// own node type mixed in one edge (round 7)
	for _, k := range kinds {
		cfg := smallCfg(k, 2, []float64{1}, false, "U2 w{1} mixed node values")
		cfg.mixed = true
		genSimple(g, cfg, 0, heavy)
		if g.Thorough() && !k.directed() {
			cfg := smallCfg(k, 3, []float64{1}, false, "U3 w{1} mixed node values")
			cfg.mixed = true
			genSimple(g, cfg, 0, heavy)
		}
	}
	// constructor parameters NewWeighted*Graph(self, absent): all 6x6 value
	// combinations on U={0,1} (quick) / U={0,1,2} (thorough)
	pv := paramValues()
	for _, k := range []skind{sWeightedDirected, sWeightedUndirected} {
		genSimpleSweep(g, k, 2, pv, pv, "U2 w{2,absent,self} sweep self x absent", heavy)
		if g.Thorough() {
			// U3: every absent value, self rotating through the values
			for i, a := range pv {
				self := pv[(i+2)%len(pv)]
				genSimpleSweep(g, k, 3, []float64{self}, []float64{a}, "U3 w{2,absent,self} self="+fmtW(self)+" absent="+fmtW(a), heavy)
			}
		}
	}
	if g.Thorough() {
		for _, k := range kinds {
			genSimple(g, smallCfg(k, 3, []float64{1, 2}, true, "U3 w{1,2} node tag=w"), 0, heavy)
			genSimple(g, extremeCfg(k, []int64{0, 1, -1, mx}, "Ux{0,1,-1,MaxInt64} w{1}"), 0, heavy)
		}
	}
}

func allPairs(ids []int64) [][2]int64 {
	var p [][2]int64
	for _, i := range ids {
		for _, j := range ids {
			p = append(p, [2]int64{i, j})
		}
	}
	return p
}

func multiCfgOf(k mkind, variant string, ids []int64, pairs [][2]int64, lids []int64, weights []float64) multiCfg {
	cfg := multiCfg{kind: k, variant: variant, ids: ids, pairs: pairs, lids: lids, weights: weights}
	mx := ids[0]
	for _, id := range ids {
		if id > mx {
			mx = id
		}
	}
	cfg.uplus = ids
	cfg.q = cat(ids, absentID)
	if mx != math.MaxInt64 {
		cfg.uplus = cat(ids, mx+1)
		cfg.q = cat(ids, mx+1, absentID)
	}
	ml := lids[0]
	for _, id := range lids {
		if id > ml {
			ml = id
		}
	}
	cfg.lplus = lids
	if ml != math.MaxInt64 {
		cfg.lplus = cat(lids, ml+1)
	}
	return cfg
}

func genMultiGroup(g *vlib.G) {
	heavy := vlib.Pick[uint64](g, 4, 1)
	mx := int64(math.MaxInt64)
	kinds := []mkind{mDirected, mUndirected, mWeightedDirected, mWeightedUndirected}
	u2, u3, l1, l2, w1 := ints(0, 2), ints(0, 3), []int64{0}, []int64{0, 1}, []float64{1}
	two := func(k mkind) multiCfg {
		return multiCfgOf(k, "U2 pairs{01,10} L{0,1}", u2, [][2]int64{{0, 1}, {1, 0}}, l2, w1)
	}
	star := func(k mkind) multiCfg {
		return multiCfgOf(k, "U3 pairs{10,12,21} L{0}", u3, [][2]int64{{1, 0}, {1, 2}, {2, 1}}, l1, w1)
	}
	for _, k := range kinds {
		genMulti(g, multiCfgOf(k, "U2 pairs{01,10} L{0}", u2, [][2]int64{{0, 1}, {1, 0}}, l1, w1), 0, 0, heavy)
		genMulti(g, multiCfgOf(k, "U2 pairs{01} L{0,1}", u2, [][2]int64{{0, 1}}, l2, w1), 0, 0, heavy)
		genMulti(g, multiCfgOf(k, "Ux{0,MaxInt64} pairs{0M,M0} L{0,MaxInt64}", []int64{0, mx}, [][2]int64{{0, mx}, {mx, 0}}, []int64{0, mx}, w1), 0, 0, heavy)
		genMulti(g, multiCfgOf(k, "U3 all pairs L{0,1} depth<=3", u3, allPairs(u3), l2, w1), 0, 3, heavy)
		if !k.directed() || g.Thorough() {
			genMulti(g, two(k), 0, 0, heavy)
			genMulti(g, star(k), 0, 0, heavy)
		}
	}
	// end point node values mixed in one line (round 7); self loops are legal here
	for _, k := range kinds {
		cfg := multiCfgOf(k, "U2 pairs{00,01} L{0} mixed node values", u2, [][2]int64{{0, 0}, {0, 1}}, l1, w1)
		cfg.mixed = true
		genMulti(g, cfg, 0, 0, heavy)
		if g.Thorough() {
			cfg := multiCfgOf(k, "U2 pairs{01,10} L{0} mixed node values", u2, [][2]int64{{0, 1}, {1, 0}}, l1, w1)
			cfg.mixed = true
			genMulti(g, cfg, 0, 0, heavy)
		}
	}
	// the EdgeWeightFunc parameter of the weighted multigraphs (default nil = sum)
	for _, k := range []mkind{mWeightedDirected, mWeightedUndirected} {
		cfg := multiCfgOf(k, "U2 pairs{01,10} L{0,1} w{1,2} EdgeWeightFunc=max", u2, [][2]int64{{0, 1}, {1, 0}}, l2, []float64{1, 2})
		if k.directed() {
			cfg = multiCfgOf(k, "U2 pairs{01} L{0,1} w{1,2} EdgeWeightFunc=max", u2, [][2]int64{{0, 1}}, l2, []float64{1, 2})
		}
		cfg.wfunc = "max"
		genMulti(g, cfg, 0, 0, heavy)
	}
	if g.Thorough() {
		for _, k := range kinds {
			genMulti(g, multiCfgOf(k, "U2 pairs{00,01} L{0,1}", u2, [][2]int64{{0, 0}, {0, 1}}, l2, w1), 0, 0, heavy)
			genMulti(g, multiCfgOf(k, "U3 all pairs L{0,1} depth<=4", u3, allPairs(u3), l2, w1), 0, 4, heavy)
		}
	}
}

func matrixCfgOf(k xkind, variant string, n int, from bool, init, self, absent float64, weights []float64, unit bool) matrixCfg {
	cfg := matrixCfg{kind: k, variant: variant, n: n, from: from, init: init, self: self, absent: absent, weights: weights, unit: unit}
	cfg.opIDs = cat(ints(0, n), int64(n), -1)
	cfg.q = cat(ints(0, n), int64(n), -1)
	return cfg
}

func genMatrixGroup(g *vlib.G) {
	heavy := vlib.Pick[uint64](g, 4, 1)
	inf, nan := math.Inf(1), math.NaN()
	kinds := []xkind{xDirected, xUndirected}
	for _, k := range kinds {
		genMatrix(g, matrixCfgOf(k, "n3 absent=Inf w{1,2,Inf}", 3, false, inf, 0, inf, []float64{1, 2, inf}, true), 0, heavy)
		genMatrix(g, matrixCfgOf(k, "n3 From absent=0 init=1 w{1}", 3, true, 1, -7, 0, []float64{1}, true), 0, heavy)
	}
	// end point node values mixed in one edge (round 7): plain and From constructors
	for _, k := range kinds {
		for _, from := range []bool{false, true} {
			name := "n2 absent=0 unit weight mixed node values"
			if from {
				name = "n2 From absent=0 unit weight mixed node values"
			}
			cfg := matrixCfgOf(k, name, 2, from, 0, -7, 0, nil, true)
			cfg.mixed = true
			genMatrix(g, cfg, 0, heavy)
		}
		if g.Thorough() {
			cfg := matrixCfgOf(k, "n3 From absent=0 unit weight mixed node values", 3, true, 0, -7, 0, nil, true)
			cfg.mixed = true
			genMatrix(g, cfg, 0, heavy)
		}
	}
	// constructor parameters (self, absent, init): every absent value with n=3
	// (self = 0, or 1 where absent = 0), the full self x absent product with n=2
	// (plain and From constructors); thorough: the full product with n=3.
	pv := paramValues()
	for _, k := range kinds {
		genMatrixSweep(g, k, 2, false, pv, pv, "n2 sweep self x absent x init", heavy)
		genMatrixSweep(g, k, 2, true, pv, pv, "n2 From sweep self x absent x init", heavy)
		for _, a := range pv {
			self := 0.0
			if a == 0 {
				self = 1
			}
			genMatrixSweep(g, k, 3, false, []float64{a}, []float64{self}, "n3 absent="+fmtW(a)+" self="+fmtW(self)+" w{2,absent} init{absent,2}", heavy)
		}
		if g.Thorough() {
			// n=3: every absent value with two more self values each (the full
			// self x absent product runs with n=2; self never interacts with the edge state)
			for i, a := range pv {
				selfs := []float64{pv[(i+1)%len(pv)], pv[(i+3)%len(pv)]}
				genMatrixSweep(g, k, 3, false, []float64{a}, selfs, "n3 sweep absent="+fmtW(a)+" x 2 self values x init", heavy)
			}
		}
	}
	if g.Thorough() {
		for _, k := range kinds {
			genMatrix(g, matrixCfgOf(k, "n4 absent=0 self=-7 unit weight", 4, false, 0, -7, 0, nil, true), 0, heavy)
			genMatrix(g, matrixCfgOf(k, "n3 From absent=Inf w{1,2}", 3, true, inf, 0, inf, []float64{1, 2}, false), 0, heavy)
			genMatrix(g, matrixCfgOf(k, "n3 absent=NaN self=0 w{1,NaN}", 3, false, nan, 0, nan, []float64{1, nan}, true), 0, heavy)
		}
	}
}
