package main

import (
	"fmt"
	"reflect"
	"runtime"
	"sort"
	"strconv"
	"strings"

	"gonum.org/v1/gonum/graph"
	"gonum.org/v1/gonum/graph/multi"
	"gonum.org/v1/gonum/internal/verif/vlib"
	"gonum.org/v1/gonum/internal/verif/vseq"
)

// The four multigraphs.

type mkind int

const (
	mDirected mkind = iota
	mUndirected
	mWeightedDirected
	mWeightedUndirected
)

func (k mkind) String() string {
	return [...]string{"multi.DirectedGraph", "multi.UndirectedGraph", "multi.WeightedDirectedGraph", "multi.WeightedUndirectedGraph"}[k]
}
func (k mkind) directed() bool { return k == mDirected || k == mWeightedDirected }
func (k mkind) weighted() bool { return k == mWeightedDirected || k == mWeightedUndirected }

const ownLineWeight = 4 // weight given to NewWeightedLine

type multiG interface {
	graph.Graph
	Lines(uid, vid int64) graph.Lines
	AddNode(graph.Node)
	NewNode() graph.Node
	RemoveNode(int64)
	RemoveLine(fid, tid, id int64)
	NodeWithID(int64) (graph.Node, bool)
	Edges() graph.Edges
}

type multiFns struct {
	g       multiG
	set     func(graph.Line) // SetLine / SetWeightedLine
	newLine func(f, t graph.Node) graph.Line
}

// maxWeightNoLines is what the harness's EdgeWeightFunc returns for no lines.
const maxWeightNoLines = -5

// maxWeight is the harness's EdgeWeightFunc: the maximum line weight. As
// documented for WeightFunc it accepts nil and resets the iterator before returning.
func maxWeight(lines graph.WeightedLines) float64 {
	if lines == nil {
		return maxWeightNoLines
	}
	w := float64(maxWeightNoLines)
	for lines.Next() {
		if lw := lines.WeightedLine().Weight(); lw > w {
			w = lw
		}
	}
	lines.Reset()
	return w
}

// newMultiG builds the container; wfunc "max" installs maxWeight as the
// EdgeWeightFunc of the weighted multigraphs (default: nil = sum of the weights).
func newMultiG(k mkind, wfunc string) multiFns {
	var f func(graph.WeightedLines) float64
	if wfunc == "max" {
		f = maxWeight
	}
	switch k {
	case mDirected:
		g := multi.NewDirectedGraph()
		return multiFns{g, g.SetLine, g.NewLine}
	case mUndirected:
		g := multi.NewUndirectedGraph()
		return multiFns{g, g.SetLine, g.NewLine}
	case mWeightedDirected:
		g := multi.NewWeightedDirectedGraph()
		g.EdgeWeightFunc = f
		return multiFns{g, func(l graph.Line) { g.SetWeightedLine(l.(graph.WeightedLine)) },
			func(f, t graph.Node) graph.Line { return g.NewWeightedLine(f, t, ownLineWeight) }}
	default:
		g := multi.NewWeightedUndirectedGraph()
		g.EdgeWeightFunc = f
		return multiFns{g, func(l graph.Line) { g.SetWeightedLine(l.(graph.WeightedLine)) },
			func(f, t graph.Node) graph.Line { return g.NewWeightedLine(f, t, ownLineWeight) }}
	}
}

// mLine is the model's record of one line: its weight/tag and whether it is a
// line object issued by the container (NewLine) or one of the harness's.
type mLine struct {
	w   float64
	own bool
}

// mModel: a set of nodes and a map (u,v) -> line ID -> line.
type mModel struct {
	wfunc              string // "" (sum) or "max": the EdgeWeightFunc installed
	directed, weighted bool
	nodes              map[int64]int
	lines              map[[2]int64]map[int64]mLine // directed: (from,to); undirected: (min,max)
}

func (m *mModel) pkey(u, v int64) [2]int64 {
	if !m.directed && v < u {
		u, v = v, u
	}
	return [2]int64{u, v}
}

func (m *mModel) key() string {
	b := make([]byte, 0, 128)
	for _, id := range sortedIDs(m.nodes) {
		b = strconv.AppendInt(b, id, 10)
		b = append(b, '/')
		b = strconv.AppendInt(b, int64(m.nodes[id]), 10)
		b = append(b, ',')
	}
	b = append(b, '|')
	for _, k := range m.sortedPairs() {
		b = strconv.AppendInt(b, k[0], 10)
		b = append(b, '>')
		b = strconv.AppendInt(b, k[1], 10)
		b = append(b, '[')
		ls := m.lines[k]
		for _, lid := range sortedIDs(ls) {
			b = strconv.AppendInt(b, lid, 10)
			b = append(b, ':')
			b = append(b, fmtW(ls[lid].w)...)
			if ls[lid].own {
				b = append(b, 'o')
			}
			b = append(b, ',')
		}
		b = append(b, ']')
	}
	return string(b)
}

func (m *mModel) sortedPairs() [][2]int64 {
	ks := make([][2]int64, 0, len(m.lines))
	for k := range m.lines {
		ks = append(ks, k)
	}
	sort.Slice(ks, func(i, j int) bool {
		if ks[i][0] != ks[j][0] {
			return ks[i][0] < ks[j][0]
		}
		return ks[i][1] < ks[j][1]
	})
	return ks
}

func (m *mModel) removeNode(id int64) {
	delete(m.nodes, id)
	for k := range m.lines {
		if k[0] == id || k[1] == id {
			delete(m.lines, k)
		}
	}
}

func (m *mModel) setLine(u, v, lid int64, l mLine) {
	k := m.pkey(u, v)
	if m.lines[k] == nil {
		m.lines[k] = map[int64]mLine{}
	}
	m.lines[k][lid] = l
}

func (m *mModel) removeLine(u, v, lid int64) {
	k := m.pkey(u, v)
	delete(m.lines[k], lid)
	if len(m.lines[k]) == 0 {
		delete(m.lines, k)
	}
}

// sum is the documented edge weight of a weighted multigraph with a nil
// EdgeWeightFunc: the sum of the line weights.
func (m *mModel) sum(u, v int64) (float64, bool) {
	ls, ok := m.lines[m.pkey(u, v)]
	if m.wfunc == "max" {
		// EdgeWeightFunc = maxWeight
		w := float64(maxWeightNoLines)
		for _, l := range ls {
			if l.w > w {
				w = l.w
			}
		}
		return w, ok
	}
	if !ok {
		return 0, false
	}
	var w float64
	for _, l := range ls {
		w += l.w
	}
	return w, true
}

func (m *mModel) view(name string) *absModel {
	a := &absModel{name: name, directed: m.directed, oriented: true, nodeTags: true, nodes: m.nodes}
	a.edge = func(u, v int64) (absEdge, bool) {
		w, ok := m.sum(u, v)
		if !ok {
			return absEdge{}, false
		}
		// multi.Edge/WeightedEdge values are built from the current node objects.
		return absEdge{w: w, hasW: m.weighted, ftag: m.nodes[u], ttag: m.nodes[v]}, true
	}
	if m.weighted {
		a.weight = func(u, v int64) (float64, bool) { return m.sum(u, v) }
	}
	return a
}

// lineKeyWant / lineKeyGot render a line as "id:weight" ("-" if the line value has no weight).
func (m *mModel) lineKeysWant(u, v int64) []string {
	var out []string
	ls := m.lines[m.pkey(u, v)]
	for _, lid := range sortedIDs(ls) {
		w := fmtW(ls[lid].w)
		if ls[lid].own && !m.weighted {
			w = "-"
		}
		out = append(out, fmt.Sprintf("%d:%s", lid, w))
	}
	sort.Strings(out)
	return out
}

func lineKeyGot(l graph.Line) string {
	w := "-"
	if wl, ok := l.(graph.WeightedLine); ok {
		w = fmtW(wl.Weight())
	}
	return fmt.Sprintf("%d:%s", l.ID(), w)
}

type multiCfg struct {
	mixed   bool   // add SetLine operations with mixed end point node values (endFlavours)
	wfunc   string // EdgeWeightFunc of the weighted multigraphs: "" = nil (sum), "max"
	kind    mkind
	variant string
	ids     []int64
	uplus   []int64
	q       []int64
	pairs   [][2]int64 // end point pairs of the line operations
	lids    []int64
	lplus   []int64 // lids plus the one extra ID NewLine may add
	weights []float64
}

type mInst struct {
	multiFns
	m           *mModel
	hist        []string
	observeOnly bool
	key, dump   string
	touched     map[[2]int64]bool // pairs that had SetLine or NewLine called (their ID pool exists)
}

type multiSys struct {
	base
	cfg multiCfg
}

func multiOps(cfg *multiCfg) []op {
	var ops []op
	for _, i := range cfg.ids {
		ops = append(ops, op{kind: opAddNode, i: i, name: fmt.Sprintf("AddNode(%d)", i)})
	}
	ops = append(ops, op{kind: opNewNode, name: "AddNode(NewNode())"})
	for _, i := range cfg.ids {
		ops = append(ops, op{kind: opRemoveNode, i: i, name: fmt.Sprintf("RemoveNode(%d)", i)})
	}
	for _, w := range cfg.weights {
		for _, p := range cfg.pairs {
			for _, lid := range cfg.lids {
				ops = append(ops, op{kind: opSetLine, i: p[0], j: p[1], lid: lid, w: w, name: fmt.Sprintf("SetLine(%d,%d,id=%d,w=%s)", p[0], p[1], lid, fmtW(w))})
			}
		}
	}
	if cfg.mixed {
		for _, fl := range endFlavours {
			for _, p := range cfg.pairs {
				ops = append(ops, op{kind: opSetLine, i: p[0], j: p[1], lid: cfg.lids[0], w: cfg.weights[0], mixed: true, ft: fl[0], tt: fl[1],
					name: fmt.Sprintf("SetLine(%d,%d,id=%d,w=%s,ends=%s)", p[0], p[1], cfg.lids[0], fmtW(cfg.weights[0]), flavourName(fl[0], fl[1]))})
			}
		}
	}
	for _, p := range cfg.pairs {
		ops = append(ops, op{kind: opNewLine, i: p[0], j: p[1], name: fmt.Sprintf("SetLine(NewLine(%d,%d))", p[0], p[1])})
	}
	for _, p := range cfg.pairs {
		for _, lid := range cfg.lids {
			ops = append(ops, op{kind: opRemoveLine, i: p[0], j: p[1], lid: lid, name: fmt.Sprintf("RemoveLine(%d,%d,id=%d)", p[0], p[1], lid)})
		}
	}
	for _, i := range cfg.ids {
		ops = append(ops, op{kind: opNodeWithID, i: i, name: fmt.Sprintf("AddNode(NodeWithID(%d))", i)})
	}
	return ops
}

func (y *multiSys) newInst() *mInst {
	k := y.cfg.kind
	return &mInst{touched: map[[2]int64]bool{}, multiFns: newMultiG(k, y.cfg.wfunc), m: &mModel{wfunc: y.cfg.wfunc, directed: k.directed(), weighted: k.weighted(), nodes: map[int64]int{}, lines: map[[2]int64]map[int64]mLine{}}}
}

func (y *multiSys) keyOf(s *mInst) string {
	if s.key == "" {
		if s.dump == "" {
			s.dump = dumpState(s.g)
		}
		s.key = stateKey(s.dump, s.m.key())
	}
	return s.key
}

// linePool reads the dumped line ID pool of the pair (u,v).
func (y *multiSys) linePool(s *mInst, u, v int64) pool {
	k := s.m.pkey(u, v)
	nilPool := pool{isNil: true, maxID: -1}
	outer := field(s.g, "lineIDs")
	if !outer.IsValid() || outer.Kind() != reflect.Map {
		return nilPool
	}
	inner := outer.MapIndex(reflect.ValueOf(k[0]))
	if !inner.IsValid() || inner.IsNil() {
		return nilPool
	}
	p := inner.MapIndex(reflect.ValueOf(k[1]))
	if !p.IsValid() {
		return nilPool
	}
	return readPool(p)
}

func (y *multiSys) apply(s *mInst, k int) (string, bool) {
	o := y.ops[k]
	s.hist = append(s.hist, o.name)
	s.key, s.dump = "", ""
	s.observeOnly = false
	c := &ctx{col: y.col, hist: s.hist}
	extend := true
	msg := guard(o.name, func() string {
		m := s.m
		switch o.kind {
		case opAddNode:
			if _, live := m.nodes[o.i]; live {
				s.dump = expectPanic(c, s.g, o.name+" with a live ID", func() { s.g.AddNode(tNode{Id: o.i, Tag: 0}) })
				break
			}
			s.g.AddNode(tNode{Id: o.i, Tag: 0})
			m.nodes[o.i] = 0
		case opNewNode:
			answers := readPool(field(s.g, "nodeIDs")).possibleNewIDs()
			if len(m.nodes) == 0 {
				answers = []int64{0}
			}
			n := s.g.NewNode()
			if n == nil {
				c.failf("NewNode() returned nil")
				break
			}
			id := n.ID()
			if _, live := m.nodes[id]; live {
				c.failf("NewNode() issued ID %d which is live", id)
			}
			if !containsID(answers, id) {
				c.failf("NewNode() issued ID %d, the dumped pool predicts one of %s", id, idsString(answers))
			}
			if len(answers) != 1 || !containsID(y.cfg.uplus, id) {
				extend, s.observeOnly = false, true
				break
			}
			s.g.AddNode(n)
			m.nodes[id] = tagOf(n)
		case opRemoveNode:
			s.g.RemoveNode(o.i)
			m.removeNode(o.i)
		case opSetLine:
			s.touched[m.pkey(o.i, o.j)] = true
			ft, tt := 1, 1
			if o.mixed {
				ft, tt = o.ft, o.tt
			}
			s.set(tLine{F: mkNode(o.i, ft, ownMulti), T: mkNode(o.j, tt, ownMulti), W: o.w, UID: o.lid})
			// "If the nodes do not exist, they are added and are set to the nodes of
			// the line otherwise": from first, then to (a self loop keeps the to value)
			m.nodes[o.i] = ft
			m.nodes[o.j] = tt
			m.setLine(o.i, o.j, o.lid, mLine{w: o.w})
		case opNewLine:
			answers := y.linePool(s, o.i, o.j).possibleNewIDs()
			s.touched[m.pkey(o.i, o.j)] = true
			l := s.newLine(tNode{Id: o.i, Tag: 1}, tNode{Id: o.j, Tag: 1})
			if l == nil {
				c.failf("NewLine(%d,%d) returned nil", o.i, o.j)
				break
			}
			id := l.ID()
			if _, live := m.lines[m.pkey(o.i, o.j)][id]; live {
				c.failf("NewLine(%d,%d) issued line ID %d which is live between these nodes", o.i, o.j, id)
			}
			if !containsID(answers, id) {
				c.failf("NewLine(%d,%d) issued line ID %d, the dumped pool predicts one of %s", o.i, o.j, id, idsString(answers))
			}
			if l.From().ID() != o.i || l.To().ID() != o.j {
				c.failf("NewLine(%d,%d) returned a line %d>%d", o.i, o.j, l.From().ID(), l.To().ID())
			}
			if len(answers) != 1 || !containsID(y.cfg.lplus, id) {
				extend, s.observeOnly = false, true
				break
			}
			s.set(l)
			m.nodes[o.i], m.nodes[o.j] = 1, 1
			w := float64(0)
			if m.weighted {
				w = ownLineWeight
			}
			m.setLine(o.i, o.j, id, mLine{w: w, own: true})
		case opRemoveLine:
			_, li := m.nodes[o.i]
			_, lj := m.nodes[o.j]
			noPool := !s.touched[m.pkey(o.i, o.j)]
			before := ""
			if noPool && li && lj {
				before = dumpState(s.g)
			}
			panicked, val := try(func() { s.g.RemoveLine(o.i, o.j, o.lid) })
			if panicked {
				_, isRT := val.(runtime.Error)
				if isRT && noPool && li && lj && strings.Contains(fmt.Sprint(val), "nil pointer") && y.linePool(s, o.i, o.j).isNil {
					// RemoveLine between two live nodes that never had a line (no
					// ID pool for the pair) dereferences the nil pool; the
					// documentation says "If the line does not exist it is a no-op".
					c.findingf(classRemoveLineNil, "%s.RemoveLine(%d,%d,%d): both nodes are live, no line was ever set between them: panics with %q, documented as a no-op", y.label, o.i, o.j, o.lid, fmt.Sprint(val))
					s.dump = dumpState(s.g)
					if s.dump != before {
						c.failf("%s panicked and modified the graph", o.name)
					}
					extend, s.observeOnly = false, true
					break
				}
				c.failf("%s panicked: %v", o.name, val)
				break
			}
			if li && lj {
				m.removeLine(o.i, o.j, o.lid)
			}
		case opNodeWithID:
			n, isNew := s.g.NodeWithID(o.i)
			tag, live := m.nodes[o.i]
			switch {
			case n == nil:
				c.failf("NodeWithID(%d) returned nil", o.i)
			case n.ID() != o.i:
				c.failf("NodeWithID(%d) returned a node with ID %d", o.i, n.ID())
			case live && (isNew || tagOf(n) != tag):
				c.failf("NodeWithID(%d) on a live node returned (tag %d, new=%v), want the stored node (tag %d, new=false)", o.i, tagOf(n), isNew, tag)
			case !live && !isNew:
				c.failf("NodeWithID(%d) on an absent ID returned new=false", o.i)
			case !live:
				s.g.AddNode(n)
				m.nodes[o.i] = tagOf(n)
			}
		}
		return c.result()
	})
	return msg, extend
}

func (y *multiSys) check(s *mInst) string {
	key := y.keyOf(s)
	run, heavy := y.gate(key, s.m.key, s.observeOnly)
	if !run {
		return ""
	}
	c := &ctx{col: y.col, hist: s.hist}
	return guard("oracle", func() string {
		c.checkQueries(s.g, s.m.view(y.label), y.cfg.q)
		y.checkLines(c, s)
		y.checkDump(c, s)
		if heavy {
			y.checkHeavy(c, s)
		}
		return c.result()
	})
}

// checkLines: Lines / LinesBetween / WeightedLines / WeightedLinesBetween for
// all pairs, and the line iterators embedded in the edges Edges() delivers.
func (y *multiSys) checkLines(c *ctx, s *mInst) {
	m := s.m
	type linesBetween interface {
		LinesBetween(x, y int64) graph.Lines
	}
	type weightedLines interface {
		WeightedLines(u, v int64) graph.WeightedLines
	}
	type weightedLinesBetween interface {
		WeightedLinesBetween(x, y int64) graph.WeightedLines
	}
	for _, u := range y.cfg.q {
		for _, v := range y.cfg.q {
			want := m.lineKeysWant(u, v)
			oriented := func(what string) func(l graph.Line) string {
				return func(l graph.Line) string {
					if l.From() == nil || l.To() == nil {
						return "<line with nil end point>"
					}
					if l.From().ID() != u || l.To().ID() != v {
						return fmt.Sprintf("<%s(%d,%d) delivered a line %d>%d>", what, u, v, l.From().ID(), l.To().ID())
					}
					return lineKeyGot(l)
				}
			}
			name := func(what string) func() string {
				return func() string { return fmt.Sprintf("%s %s(%d,%d)", y.label, what, u, v) }
			}
			if it := s.g.Lines(u, v); it == nil {
				c.failf("%s returned nil (graph.Multigraph: Lines must not return nil)", name("Lines")())
			} else {
				c.checkIter(linesView(name("Lines"), it, oriented("Lines")), want)
			}
			if lb, ok := s.g.(linesBetween); ok {
				if it := lb.LinesBetween(u, v); it == nil {
					c.failf("%s returned nil", name("LinesBetween")())
				} else {
					c.checkIter(linesView(name("LinesBetween"), it, oriented("LinesBetween")), want)
				}
			} else if !m.directed {
				c.failf("%s: no LinesBetween method", y.label)
			}
			if wl, ok := s.g.(weightedLines); ok {
				if it := wl.WeightedLines(u, v); it == nil {
					c.failf("%s returned nil", name("WeightedLines")())
				} else {
					c.checkIter(wlinesView(name("WeightedLines"), it, oriented("WeightedLines")), want)
				}
			} else if m.weighted {
				c.failf("%s: no WeightedLines method", y.label)
			}
			if wl, ok := s.g.(weightedLinesBetween); ok {
				if it := wl.WeightedLinesBetween(u, v); it == nil {
					c.failf("%s returned nil", name("WeightedLinesBetween")())
				} else {
					c.checkIter(wlinesView(name("WeightedLinesBetween"), it, oriented("WeightedLinesBetween")), want)
				}
			}
		}
	}
	// the map backed line iterators inside the edges
	check := func(e graph.Edge) {
		if e == nil || e.From() == nil || e.To() == nil {
			return // reported by checkQueries
		}
		u, v := e.From().ID(), e.To().ID()
		want := m.lineKeysWant(u, v)
		name := func() string { return fmt.Sprintf("%s Edges() edge %d>%d lines", y.label, u, v) }
		switch e := e.(type) {
		case multi.Edge:
			if e.Lines == nil {
				c.failf("%s: nil Lines", name())
				return
			}
			c.checkIter(linesView(name, e.Lines, lineKeyGot), want)
		case multi.WeightedEdge:
			if e.WeightedLines == nil {
				c.failf("%s: nil WeightedLines", name())
				return
			}
			c.checkIter(wlinesView(name, e.WeightedLines, lineKeyGot), want)
		default:
			c.failf("%s: edge of type %T, documented as multi.Edge / multi.WeightedEdge", name(), e)
		}
	}
	it := s.g.Edges()
	for it != nil && it.Next() {
		check(it.Edge())
	}
	if wg, ok := s.g.(interface{ WeightedEdges() graph.WeightedEdges }); ok {
		it := wg.WeightedEdges()
		for it != nil && it.Next() {
			check(it.WeightedEdge())
		}
	}
}

func (y *multiSys) checkDump(c *ctx, s *mInst) {
	m := s.m
	live := sortedIDs(m.nodes)
	p := readPool(field(s.g, "nodeIDs"))
	answers := p.possibleNewIDs()
	if len(live) == 0 {
		answers = []int64{0}
	}
	c.checkPool(y.label+" nodeIDs", p, live, true, answers)
	if nodes := intKeys(field(s.g, "nodes")); !sameIDs(nodes, live) {
		c.failf("%s: private nodes map holds %s, model %s", y.label, idsString(nodes), idsString(live))
	}
	pools := readPools(field(s.g, "lineIDs"))
	for k, ls := range m.lines {
		p, ok := pools[k]
		if !ok {
			p = pool{isNil: true, maxID: -1}
		}
		c.checkPool(fmt.Sprintf("%s lineIDs[%d][%d]", y.label, k[0], k[1]), p, sortedIDs(ls), false, p.possibleNewIDs())
	}
	for k, p := range pools {
		if _, ok := m.lines[k]; !ok {
			c.checkPool(fmt.Sprintf("%s lineIDs[%d][%d]", y.label, k[0], k[1]), p, nil, false, p.possibleNewIDs())
		}
	}
	lids := func(u, v int64) []int64 { return sortedIDs(m.lines[m.pkey(u, v)]) }
	if m.directed {
		from, to := readAdj(field(s.g, "from")), readAdj(field(s.g, "to"))
		checkLineAdj(c, y.label+" from", from, to, live, lids)
		checkLineAdj(c, y.label+" to", to, from, live, func(u, v int64) []int64 { return lids(v, u) })
		for k := range m.lines {
			if !from.has(k[0], k[1]) || !to.has(k[1], k[0]) {
				c.failf("%s: model lines %d>%d missing in from/to maps", y.label, k[0], k[1])
			}
		}
	} else {
		ln := readAdj(field(s.g, "lines"))
		checkLineAdj(c, y.label+" lines", ln, ln, live, lids)
		for k := range m.lines {
			if !ln.has(k[0], k[1]) || !ln.has(k[1], k[0]) {
				c.failf("%s: model lines %d-%d missing in lines map", y.label, k[0], k[1])
			}
		}
	}
}

func checkLineAdj(c *ctx, what string, a, mirror adj, live []int64, lids func(u, v int64) []int64) {
	for u, inner := range a {
		if !containsID(live, u) {
			c.failf("%s: stale outer entry for removed node %d", what, u)
		}
		for v, got := range inner {
			if !containsID(live, v) {
				c.failf("%s[%d]: stale entry for removed node %d", what, u, v)
			}
			if len(got) == 0 {
				c.failf("%s[%d][%d]: emptied line map was not deleted", what, u, v)
			}
			if want := lids(u, v); !sameIDs(got, want) {
				c.failf("%s[%d][%d]: holds line IDs %s, model %s", what, u, v, idsString(got), idsString(want))
			}
			if !sameIDs(mirror[v][u], got) {
				c.failf("%s[%d][%d]: mirror entry [%d][%d] holds %s, want %s", what, u, v, v, u, idsString(mirror[v][u]), idsString(got))
			}
		}
	}
}

func (y *multiSys) buildFresh(m *mModel) multiG {
	f := newMultiG(y.cfg.kind, y.cfg.wfunc)
	for _, id := range sortedIDs(m.nodes) {
		f.g.AddNode(mkNode(id, m.nodes[id], ownMulti))
	}
	for _, k := range m.sortedPairs() {
		ls := m.lines[k]
		for _, lid := range sortedIDs(ls) {
			from, to := mkNode(k[0], m.nodes[k[0]], ownMulti), mkNode(k[1], m.nodes[k[1]], ownMulti)
			switch {
			case ls[lid].own && m.weighted:
				f.set(multi.WeightedLine{F: from, T: to, W: ls[lid].w, UID: lid})
			case ls[lid].own:
				f.set(multi.Line{F: from, T: to, UID: lid})
			default:
				f.set(tLine{F: from, T: to, W: ls[lid].w, UID: lid})
			}
		}
	}
	return f.g
}

func (y *multiSys) checkHeavy(c *ctx, s *mInst) {
	k := y.cfg.kind
	fresh := y.buildFresh(s.m)
	if a, b := observe(s.g, y.cfg.q, k.directed()), observe(fresh, y.cfg.q, k.directed()); a != b {
		c.failf("%s: the graph reached by the history answers\n%s\nbut a graph built directly from the model state answers\n%s", y.label, a, b)
	}
	var gw func(u, v int64) (float64, bool)
	if k.weighted() {
		gw = s.m.sum
	}
	checkAdapters(c, y.label, s.g, k.directed(), s.m.nodes, k.weighted(), s.m.sum, gw, y.cfg.q)
}

func genMulti(g *vlib.G, cfg multiCfg, maxStates, maxDepth int, heavyEvery uint64) {
	g.Case(cfg.kind.String()+" "+cfg.variant, func(t *vlib.T) {
		y := &multiSys{cfg: cfg}
		y.label, y.variant = cfg.kind.String(), cfg.variant
		y.ops = multiOps(&y.cfg)
		y.col = newCollector()
		y.checked = map[string]struct{}{}
		y.maxStates = maxStates
		y.maxDepth = maxDepth
		y.depthBound = maxDepth > 0
		y.heavyEvery = heavyEvery
		runSearch(t, &y.base, vseq.System[*mInst]{
			New:   y.newInst,
			Apply: y.apply,
			Key:   y.keyOf,
			Check: y.check,
		})
	})
}
