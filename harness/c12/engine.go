package main

import (
	"fmt"
	"strings"

	"gonum.org/v1/gonum/internal/verif/vlib"
	"gonum.org/v1/gonum/internal/verif/vseq"
)

type opKind int

const (
	opAddNode opKind = iota
	opNewNode
	opRemoveNode
	opSetEdge // SetEdge / SetWeightedEdge
	opSetUnit // matrix SetEdge (unit weight)
	opRemoveEdge
	opNodeWithID
	opSetLine
	opNewLine
	opRemoveLine
)

type op struct {
	kind      opKind
	i, j, lid int64
	w         float64
	name      string
	mixed     bool // the two end point node values are given by ft, tt (tag of a user node, or tagOwn)
	ft, tt    int
}

// endFlavours are the combinations of end point node VALUES added to the edge
// and line operations of the "mixed node values" variants: two user nodes with
// different payloads, a user node with the container's own node type in either
// position, and two own nodes. (The default operations use two user nodes with
// the same payload.) IDs decide everything in the containers' documentation:
// self-loop detection, node replacement and all queries must not depend on
// which values carry the IDs.
var endFlavours = [][2]int{{1, 2}, {1, tagOwn}, {tagOwn, 1}, {tagOwn, tagOwn}}

func flavourName(ft, tt int) string {
	n := func(t int) string {
		if t == tagOwn {
			return "own"
		}
		return fmt.Sprintf("user%d", t)
	}
	return n(ft) + "/" + n(tt)
}

// base holds what the three families of systems share: the finding collector,
// the set of states that already had the full oracle, and the statistics.
type base struct {
	label      string // container type, e.g. "simple.DirectedGraph"
	variant    string // universe / alphabet variant
	ops        []op
	col        *collector
	checked    map[string]struct{}
	noSkip     bool   // run the full oracle even on a state that already had it
	heavyEvery uint64 // adapters/copies/differential on every k-th state (by key hash)
	digest     uint64 // order independent digest over the reference-model states reached
	full, skip int64
	maxStates  int
	maxDepth   int
	depthBound bool   // maxDepth is a declared bound of the case (not a budget cap)
	param      string // constructor parameter combination of this search (parameter sweeps run many searches in one case)
}

func (b *base) opName(i int) string { return b.ops[i].name }

// gate reports whether the full oracle has to run on the state with this key
// (true the first time a state is seen). observed states (successors that are
// not added to the search) are always checked and never recorded.
func (b *base) gate(key string, modelKey func() string, observedOnly bool) (run, heavy bool) {
	mh := func() uint64 { return hash128(modelKey())[0] }
	if b.noSkip {
		return true, b.heavyEvery <= 1 || mh()%b.heavyEvery == 0
	}
	if _, ok := b.checked[key]; ok {
		b.skip++
		return false, false
	}
	b.full++
	h := mh()
	if !observedOnly {
		b.checked[key] = struct{}{}
		b.digest += h >> 16
	}
	return true, b.heavyEvery <= 1 || h%b.heavyEvery == 0
}

// dumpState is the canonical dump of the complete private state used as the
// state key. C12_VSEQDUMP=1 selects the framework's vseq.Dump instead of the
// harness's faster copy (used once to confirm that both give the same counts).
var useVseqDump = vlib.Env("C12_VSEQDUMP", "") != ""

func dumpState(g any) string {
	if useVseqDump {
		return vseq.Dump(g)
	}
	return fastDump(g)
}

// guard converts a panic escaping an oracle into a violation message.
func guard(what string, f func() string) (msg string) {
	defer func() {
		if r := recover(); r != nil {
			msg = fmt.Sprintf("%s: unexpected panic: %v", what, r)
		}
	}()
	return f()
}

// runSearch runs one BFS, reports statistics and violations on t. replay
// re-executes a history on a fresh instance reporting into the given collector
// (used to confirm tagged findings without re-running the whole search).
func runSearch[S any](t *vlib.T, b *base, sys vseq.System[S]) {
	sys.MaxStates = b.maxStates
	sys.MaxDepth = b.maxDepth
	sys.NumOps = len(b.ops)
	sys.OpName = b.opName
	st, viol := vseq.BFS(sys)
	name := b.label + "/" + b.variant
	t.Count("states", int64(st.States))
	t.Count("transitions", st.Transitions)
	t.Count("traces_validated_against_impl", st.Transitions)
	t.Count("full_oracle_runs", b.full)
	t.Count("states:"+name, int64(st.States))
	t.Count("transitions:"+name, st.Transitions)
	t.Count("modeldigest:"+name, int64(b.digest>>16))
	// the same per build configuration, so that the configurations can be compared
	cfgName := vlib.Env("VERIF_CONFIG", "default")
	t.Count("states@"+cfgName+":"+name, int64(st.States))
	t.Count("transitions@"+cfgName+":"+name, st.Transitions)
	t.Count("modeldigest@"+cfgName+":"+name, int64(b.digest>>16))
	t.Max("depth", int64(st.Depth))
	t.Nontrivial()
	outcome := "fixpoint"
	if !st.Fixpoint {
		outcome = "cap " + st.CapHit
		if viol != nil {
			outcome = "violation"
		} else if !(b.depthBound && strings.HasPrefix(st.CapHit, "depth")) {
			t.Incomplete(fmt.Sprintf("%s: search stopped at %s before the fixpoint (depth %d fully covered)", name, st.CapHit, st.Depth))
		}
	}
	t.Outcome(b.label + " " + outcome)
	detail := map[string]any{
		"container": b.label, "variant": b.variant, "ops": len(b.ops),
		"states": st.States, "transitions": st.Transitions, "depth": st.Depth,
		"fixpoint": st.Fixpoint, "cap": st.CapHit, "full_oracle_runs": b.full,
		"modeldigest": fmt.Sprintf("%012x", b.digest>>16),
	}
	if len(b.col.order) > 0 {
		fh := map[string]int64{}
		for _, cl := range b.col.order {
			fh[cl] = b.col.hits[cl]
			t.Count("finding_hits:"+cl, b.col.hits[cl])
		}
		detail["finding_hits"] = fh
	}
	t.Detail(detail)
	if viol != nil {
		t.Count("untagged_violations", 1)
		t.Count(fmt.Sprintf("untagged_in:%s (history length %d)", name, len(viol.History)), 1)
		pp := ""
		if b.param != "" {
			pp = " [" + b.param + "]"
		}
		t.SubViolation(fmt.Sprintf("%s history=%v", pp, viol.History), "", map[string]any{"history": viol.History, "container": b.label, "variant": b.variant, "parameters": b.param}, "%s%s: %s", name, pp, viol.Msg)
	}
	reportFindings(t, b, sys, name, viol != nil)
}

// reportFindings confirms each tagged finding by re-executing its (shortest)
// history four times on fresh instances and reports it as a sub-violation
// carrying the class.
func reportFindings[S any](t *vlib.T, b *base, sys vseq.System[S], name string, hadViolation bool) {
	main := b.col
	allConfirmed := true
	idx := map[string]int{}
	for i := range b.ops {
		idx[b.ops[i].name] = i
	}
	for _, cl := range main.order {
		f := main.first[cl]
		ok := true
		for r := 0; r < 4 && ok; r++ {
			scratch := newCollector()
			b.col, b.noSkip = scratch, true
			s := sys.New()
			for _, nm := range f.Hist {
				sys.Apply(s, idx[nm])
			}
			sys.Check(s)
			ok = scratch.hits[cl] > 0
		}
		b.col, b.noSkip = main, false
		if !ok {
			allConfirmed = false
			t.Failf("%s: finding %s on history %v did not reproduce", name, cl, f.Hist)
			continue
		}
		hist := f.Hist
		sub := fmt.Sprintf(" finding=%s history=%v", cl, hist)
		if len(hist) > 12 {
			sub = fmt.Sprintf(" finding=%s history of %d operations ending %v", cl, len(hist), hist[len(hist)-3:])
		}
		t.SubViolation(sub, cl, map[string]any{"history": hist, "container": b.label, "variant": b.variant, "transitions_or_states_affected": main.hits[cl]}, "%s: %s", name, f.Msg)
	}
	if !hadViolation && allConfirmed && len(main.order) > 0 {
		// only tagged findings, each re-executed four times above: skip the
		// framework's re-runs of the complete search.
		t.NoConfirm()
	}
}

// runLong drives one long pseudo-random history (a fixed generator and seed:
// the history is the same in every run) through Apply, running the full oracle
// every checkEvery steps. It complements the exhaustive searches with larger
// maps; it is a sample, not part of the exhaustive claim.
func runLong[S any](t *vlib.T, b *base, sys vseq.System[S], seed uint64, steps, checkEvery int, size func(S) (nodes, edges int)) {
	name := b.label + "/" + b.variant
	b.noSkip = true
	byKind := map[opKind][]int{}
	var kinds []opKind
	for i, o := range b.ops {
		if _, ok := byKind[o.kind]; !ok {
			kinds = append(kinds, o.kind)
			if o.kind == opSetEdge || o.kind == opSetLine {
				// insertions are drawn four times as often as each other kind
				kinds = append(kinds, o.kind, o.kind, o.kind)
			}
		}
		byKind[o.kind] = append(byKind[o.kind], i)
	}
	rng := vlib.LCG(seed*2654435761 + 12345)
	s := sys.New()
	var hist []string
	var applied, checks int64
	msg := ""
	for step := 0; step < steps && msg == ""; step++ {
		ks := byKind[kinds[rng.Next()%uint64(len(kinds))]]
		i := ks[rng.Next()%uint64(len(ks))]
		hist = append(hist, b.ops[i].name)
		msg, _ = sys.Apply(s, i)
		applied++
		nn, ne := size(s)
		t.Max("long_history_max_nodes", int64(nn))
		t.Max("long_history_max_edges_or_lines", int64(ne))
		if msg == "" && ((step+1)%checkEvery == 0 || step == steps-1) {
			msg = sys.Check(s)
			checks++
		}
	}
	b.noSkip = false
	t.Count("long_history_operations", applied)
	t.Count("long_history_full_oracle_runs", checks)
	t.Count("traces_validated_against_impl", applied)
	t.Nontrivial()
	t.Outcome(b.label + " long")
	t.Detail(map[string]any{"container": b.label, "variant": b.variant, "operations": applied, "oracle_runs": checks})
	if msg != "" {
		t.Count("untagged_violations", 1)
		t.Count("untagged_in:"+name, 1)
		t.SubViolation(fmt.Sprintf(" long history seed=%d step=%d", seed, len(hist)), "", map[string]any{"history": hist, "container": b.label, "variant": b.variant}, "%s after %d operations (last: %s): %s", name, len(hist), hist[len(hist)-1], msg)
	}
	reportFindings(t, b, sys, name, msg != "")
}
