package main

import (
	"math"
	"reflect"
	"sort"
)

// Reflective readers of the containers' private state (the same state
// vseq.Dump serialises), used for the invariants on the ID pools and on the
// forward/reverse adjacency maps. Only reads; no unsafe.

func field(g any, name string) reflect.Value {
	v := reflect.ValueOf(g)
	for v.Kind() == reflect.Pointer || v.Kind() == reflect.Interface {
		v = v.Elem()
	}
	return v.FieldByName(name)
}

// pool is a dumped uid.Set.
type pool struct {
	isNil      bool
	maxID      int64
	used, free []int64
}

func intKeys(m reflect.Value) []int64 {
	if !m.IsValid() || m.Kind() != reflect.Map {
		return nil
	}
	ks := make([]int64, 0, m.Len())
	it := m.MapRange()
	for it.Next() {
		ks = append(ks, it.Key().Int())
	}
	sort.Slice(ks, func(i, j int) bool { return ks[i] < ks[j] })
	return ks
}

// readPool reads a *uid.Set.
func readPool(v reflect.Value) pool {
	if !v.IsValid() || (v.Kind() == reflect.Pointer && v.IsNil()) {
		return pool{isNil: true, maxID: -1}
	}
	if v.Kind() == reflect.Pointer {
		v = v.Elem()
	}
	return pool{
		maxID: v.FieldByName("maxID").Int(),
		used:  intKeys(v.FieldByName("used")),
		free:  intKeys(v.FieldByName("free")),
	}
}

// readPools reads a map[int64]map[int64]*uid.Set.
func readPools(v reflect.Value) map[[2]int64]pool {
	out := map[[2]int64]pool{}
	if !v.IsValid() || v.Kind() != reflect.Map {
		return out
	}
	it := v.MapRange()
	for it.Next() {
		x := it.Key().Int()
		in := it.Value()
		jt := in.MapRange()
		for jt.Next() {
			out[[2]int64{x, jt.Key().Int()}] = readPool(jt.Value())
		}
	}
	return out
}

// possibleNewIDs lists every answer uid.Set.NewID can give in the dumped state:
// any free ID (Go map iteration picks one), else maxID+1, else (maxID at its
// limit) the smallest non-negative ID that is not marked used.
func (p pool) possibleNewIDs() []int64 {
	if p.isNil {
		return []int64{0} // a fresh Set: maxID=-1
	}
	if len(p.free) > 0 {
		return p.free
	}
	if p.maxID != math.MaxInt64 {
		return []int64{p.maxID + 1}
	}
	for id := int64(0); ; id++ {
		if !containsID(p.used, id) {
			return []int64{id}
		}
	}
}

// adj is a dumped two level adjacency map; the leaf is the list of line IDs
// for the multigraphs and [0] for the simple graphs.
type adj map[int64]map[int64][]int64

func readAdj(v reflect.Value) adj {
	out := adj{}
	if !v.IsValid() || v.Kind() != reflect.Map {
		return out
	}
	it := v.MapRange()
	for it.Next() {
		u := it.Key().Int()
		inner := map[int64][]int64{}
		in := it.Value()
		jt := in.MapRange()
		for jt.Next() {
			leaf := jt.Value()
			if leaf.Kind() == reflect.Map {
				inner[jt.Key().Int()] = intKeys(leaf)
				if leaf.Len() == 0 {
					inner[jt.Key().Int()] = []int64{}
				}
			} else {
				inner[jt.Key().Int()] = []int64{0}
			}
		}
		out[u] = inner
	}
	return out
}

func (a adj) has(u, v int64) bool {
	_, ok := a[u][v]
	return ok
}

// checkPool checks a dumped ID pool against the set of live IDs: no answer
// NewID could give is live, free and used are disjoint, free holds no live ID,
// maxID bounds the live IDs (or, at the limit, every live ID is marked used).
// exact additionally demands used == live (node pools: Use on insertion,
// Release on removal).
func (c *ctx) checkPool(what string, p pool, live []int64, exact bool, answers []int64) {
	if p.isNil {
		if len(live) > 0 {
			c.failf("%s: no ID pool although IDs %s are live", what, idsString(live))
		}
		return
	}
	for _, id := range answers {
		if containsID(live, id) {
			c.failf("%s: the pool {maxID:%d used:%s free:%s} can issue ID %d which is live", what, p.maxID, idsString(p.used), idsString(p.free), id)
		}
	}
	for _, id := range p.free {
		if containsID(live, id) {
			c.failf("%s: live ID %d is in the free set %s", what, id, idsString(p.free))
		}
		if containsID(p.used, id) {
			c.failf("%s: ID %d is both used and free", what, id)
		}
	}
	for _, id := range live {
		if !containsID(p.used, id) {
			c.failf("%s: live ID %d is not marked used (used=%s)", what, id, idsString(p.used))
		}
		if id > p.maxID {
			c.failf("%s: live ID %d exceeds maxID %d", what, id, p.maxID)
		}
	}
	if exact && len(p.used) != len(live) {
		c.failf("%s: used=%s but live=%s (a released ID is still marked used)", what, idsString(p.used), idsString(live))
	}
}
