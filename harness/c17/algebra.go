package main

// Groups "roundtrip", "cross", "helpers", "padtrim", "panics".

import (
	"fmt"
	"math"
	"math/bits"

	"gonum.org/v1/gonum/dsp/fourier"
	"gonum.org/v1/gonum/dsp/transform"
	"gonum.org/v1/gonum/internal/verif/vlib"
)

// ---- roundtrip: inverse(forward(e_k)) = scale * e_k ----------------------

type pair struct {
	name     string
	fwd, inv string // op names
	scale    func(n int) float64
}

var pairs = []pair{
	{"FFT Seq(Coef)", "FFT.Coefficients", "FFT.Sequence", func(n int) float64 { return float64(n) }},
	{"CmplxFFT Seq(Coef)", "CmplxFFT.Coefficients", "CmplxFFT.Sequence", func(n int) float64 { return float64(n) }},
	{"CmplxFFT Coef(Seq)", "CmplxFFT.Sequence", "CmplxFFT.Coefficients", func(n int) float64 { return float64(n) }},
	{"DCT(DCT)", "DCT.Transform", "DCT.Transform", func(n int) float64 { return float64(2 * (n - 1)) }},
	// The package documentation of DST.Transform says 2*(n-1); FFTPACK's sint
	// (and the behaviour) is 2*(n+1). The documented value is checked in
	// group doc-literal.
	{"DST(DST)", "DST.Transform", "DST.Transform", func(n int) float64 { return float64(2 * (n + 1)) }},
	{"QW CosSeq(CosCoef)", "QW.CosCoefficients", "QW.CosSequence", func(n int) float64 { return float64(4 * n) }},
	{"QW CosCoef(CosSeq)", "QW.CosSequence", "QW.CosCoefficients", func(n int) float64 { return float64(4 * n) }},
	{"QW SinSeq(SinCoef)", "QW.SinCoefficients", "QW.SinSequence", func(n int) float64 { return float64(4 * n) }},
	{"QW SinCoef(SinSeq)", "QW.SinSequence", "QW.SinCoefficients", func(n int) float64 { return float64(4 * n) }},
	{"Radix2 Seq(Coef)", "CoefficientsRadix2", "SequenceRadix2", func(n int) float64 { return float64(n) }},
	{"Radix4 Seq(Coef)", "CoefficientsRadix4", "SequenceRadix4", func(n int) float64 { return float64(n) }},
}

func genRoundtrip(g *vlib.G) {
	for _, p := range pairs {
		fo, io := opByName(p.fwd), opByName(p.inv)
		for _, n := range fo.lengths(g) {
			if !g.Thorough() && fo.pow == 0 && n > 64 && n != 256 && n != 360 && n != 467 && n != 512 {
				continue // quick: 1..64 plus {256, 360, 467, 512}
			}
			p, n := p, n
			g.Case(fmt.Sprintf("%s n=%d", p.name, n), func(t *vlib.T) {
				// forward and inverse on the SAME object where the API has one
				// (NewX(n) per op gives distinct objects; both are exercised).
				f, inv := fo.mk(n), io.mk(n)
				nin := fo.inLen(n)
				sc := p.scale(n)
				// stated bound: two transforms in sequence, each with operator norm
				// sqrt(scale) and the column bound of group "columns", with a
				// further factor 2: 32*(log2 n + G)*eps*scale per entry.
				bound := 4 * errFactor(fo, n) * eps * math.Max(sc, 1)
				units := 1
				if fo.inComplex {
					units = 2
				}
				worst := 0.0
				var cnt int64
				for k := 0; k < nin; k++ {
					for u := 0; u < units; u++ {
						in := make([]complex128, nin)
						in[k] = 1
						if u == 1 {
							in[k] = 1i
						}
						mid := f(t, in, (k+u)%2)
						out := inv(t, mid, (k+u+1)%2)
						want := make([]complex128, nin)
						want[k] = in[k] * complex(sc, 0)
						d, at := maxDiff(out, want)
						if len(out) != nin {
							t.Failf("k=%d: result length %d want %d", k, len(out), nin)
						}
						if !(d <= bound) {
							t.Failf("k=%d unit=%s: inverse(forward(e_k)) differs from %v*e_k by %.3g at [%d] (got %v), bound %.3g",
								k, unitName(u == 1), sc, d, at, at2(out, at), bound)
						}
						if q := d / bound; q > worst || q != q {
							worst = q
						}
						cnt++
						if t.Failed() && cnt > 8 {
							break
						}
					}
				}
				t.Count("roundtrips", cnt)
				t.Max("worst_roundtrip_err_over_bound_x1e6", int64(worst*1e6))
				if n >= 2 {
					t.Nontrivial()
				}
				t.Outcome(p.name + " err/bound " + ratioClass(worst))
			})
		}
	}
}

// ---- cross checks between implementations --------------------------------

func genCross(g *vlib.G) {
	// real FFT vs complex FFT on real input; Hermitian symmetry of the complex result
	for _, n := range generalLengths(g) {
		n := n
		g.Case(fmt.Sprintf("real-vs-complex n=%d", n), func(t *vlib.T) {
			x := denseInput(n, false)
			rf := fourier.NewFFT(n)
			cf := fourier.NewCmplxFFT(n)
			rc := rf.Coefficients(nil, reals(x))
			cc := cf.Coefficients(nil, append([]complex128(nil), x...))
			fo := opByName("FFT.Coefficients")
			bound := errFactor(fo, n) * eps * math.Sqrt(float64(n)) * norm2(x)
			for k := 0; k <= n/2; k++ {
				if d := cabs1(rc[k] - cc[k]); !(d <= bound) {
					t.Failf("FFT.Coefficients[%d]=%v CmplxFFT.Coefficients[%d]=%v differ by %.3g > %.3g", k, rc[k], k, cc[k], d, bound)
					break
				}
			}
			for k := 1; k < n; k++ {
				if d := cabs1(cc[n-k] - complex(real(cc[k]), -imag(cc[k]))); !(d <= bound) {
					t.Failf("CmplxFFT of real input not Hermitian: c[%d]=%v c[%d]=%v", k, cc[k], n-k, cc[n-k])
					break
				}
			}
			// and back: FFT.Sequence of the half spectrum vs real part of CmplxFFT.Sequence of the full one
			rs := rf.Sequence(nil, rc)
			cs := cf.Sequence(nil, cc)
			b2 := 2 * bound * math.Sqrt(float64(n))
			for j := 0; j < n; j++ {
				if d := cabs1(complex(rs[j], 0) - cs[j]); !(d <= b2) {
					t.Failf("FFT.Sequence[%d]=%v CmplxFFT.Sequence[%d]=%v differ by %.3g > %.3g", j, rs[j], j, cs[j], d, b2)
					break
				}
			}
			if n >= 2 {
				t.Nontrivial()
			}
			t.Outcome(fmt.Sprintf("real-vs-complex n odd=%v", n%2 == 1))
		})
	}
	// radix-2/4 vs the general path
	for _, name := range []string{"CoefficientsRadix2", "SequenceRadix2", "CoefficientsRadix4", "SequenceRadix4"} {
		o := opByName(name)
		for _, n := range o.lengths(g) {
			o, n := o, n
			g.Case(fmt.Sprintf("%s-vs-CmplxFFT n=%d", o.name, n), func(t *vlib.T) {
				x := denseInput(n, true)
				got := o.mk(n)(t, x, dstNil)
				cf := fourier.NewCmplxFFT(n)
				var want []complex128
				if o.name[0] == 'C' {
					want = cf.Coefficients(nil, append([]complex128(nil), x...))
				} else {
					want = cf.Sequence(nil, append([]complex128(nil), x...))
				}
				bound := errFactor(o, n) * eps * math.Sqrt(float64(n)) * norm2(x)
				d, at := maxDiff(got, want)
				if !(d <= bound) {
					t.Failf("%s differs from CmplxFFT by %.3g at [%d] (got %v want %v), bound %.3g", o.name, d, at, at2(got, at), at2(want, at), bound)
				}
				if n >= 2 {
					t.Nontrivial()
				}
				t.Outcome(o.name + " vs general " + ratioClass(d/bound))
			})
		}
	}
	// analytic signal: real part is the input, negative-frequency content is zero,
	// DC/Nyquist kept, positive frequencies doubled (own O(n^2) DFT of the result).
	for _, n := range generalLengths(g) {
		n := n
		g.Case(fmt.Sprintf("hilbert-properties n=%d", n), func(t *vlib.T) {
			x := denseInput(n, false)
			h := transform.NewHilbert(n)
			if h.Len() != n {
				t.Failf("Hilbert.Len()=%d want %d", h.Len(), n)
			}
			a := h.AnalyticSignal(nil, reals(x))
			nx := norm2(x)
			bound := 2 * errFactor(opByName("Hilbert.AnalyticSignal"), n) * eps * math.Max(nx, 1)
			for j := range a {
				if d := math.Abs(real(a[j]) - real(x[j])); !(d <= bound) {
					t.Failf("real part of analytic signal [%d]=%v, input %v (diff %.3g > %.3g)", j, real(a[j]), real(x[j]), d, bound)
					break
				}
			}
			tab := newTrigTab(n)
			specBound := bound * float64(n)
			negs := 0
			for m := 0; m < n; m++ {
				var ar, ai, xr, xi ksum
				for j := 0; j < n; j++ {
					c, s := tab.cos(j*m), -tab.sin(j*m)
					ar.add(real(a[j])*c - imag(a[j])*s)
					ai.add(real(a[j])*s + imag(a[j])*c)
					xr.add(real(x[j]) * c)
					xi.add(real(x[j]) * s)
				}
				hg := hilbertGain(n, m)
				if hg == 0 {
					negs++
				}
				A := complex(ar.val(), ai.val())
				want := complex(hg*xr.val(), hg*xi.val())
				if d := cabs1(A - want); !(d <= specBound) {
					t.Failf("spectrum of analytic signal at m=%d is %v, want %v*X[m]=%v (diff %.3g > %.3g)", m, A, hg, want, d, specBound)
					break
				}
			}
			t.Count("negative_frequency_bins_checked", int64(negs))
			if n >= 3 {
				t.Nontrivial()
			}
			t.Outcome(fmt.Sprintf("hilbert n even=%v", n%2 == 0))
		})
	}
	// Hilbert object re-use: a second call gives bit-for-bit the result of a fresh object
	for _, n := range vlib.Ints(1, vlib.Pick(g, 48, 128)) {
		n := n
		g.Case(fmt.Sprintf("hilbert-reuse n=%d", n), func(t *vlib.T) {
			h := transform.NewHilbert(n)
			junk := make([]float64, n)
			for i := range junk {
				junk[i] = 1e3*float64(i%5) - 777.25
			}
			h.AnalyticSignal(nil, junk)
			x := reals(denseInput(n, false))
			got := h.AnalyticSignal(nil, x)
			want := transform.NewHilbert(n).AnalyticSignal(nil, x)
			if i, ok := vlib.SameC128(got, want); !ok {
				t.Failf("second use of a Hilbert differs from a fresh one at [%d]: %v vs %v", i, got[i], want[i])
			}
			if n >= 2 {
				t.Nontrivial()
			}
			t.Outcome("hilbert reuse bit-identical")
		})
	}
}

// ---- Freq / ShiftIdx / UnshiftIdx ----------------------------------------

func genHelpers(g *vlib.G) {
	maxN := vlib.Pick(g, 512, 1024)
	// every n up to maxN, then sampled long lengths (both parities, a prime,
	// powers of two and their neighbours) up to 10^4
	ns := append(vlib.Ints(1, maxN), 2047, 2048, 2049, 4096, 4097, 8191, 8192, 9973, 10000)
	for _, n := range ns {
		n := n
		g.Case(fmt.Sprintf("n=%d", n), func(t *vlib.T) {
			rf := fourier.NewFFT(n)
			cf := fourier.NewCmplxFFT(n)
			if rf.Len() != n || cf.Len() != n {
				t.Failf("Len: FFT %d CmplxFFT %d want %d", rf.Len(), cf.Len(), n)
			}
			fn := float64(n)
			seenS := make([]bool, n)
			seenU := make([]bool, n)
			prev := math.Inf(-1)
			for i := 0; i < n; i++ {
				// FFT.Freq(i) = i/n
				if got, want := rf.Freq(i), float64(i)/fn; !(math.Abs(got-want) <= 2*eps*want) {
					t.Failf("FFT.Freq(%d)=%v want %v", i, got, want)
				}
				// CmplxFFT.Freq(i) = i/n for i < ceil(n/2), (i-n)/n otherwise: the
				// representative of i/n (mod 1) in [-1/2, 1/2).
				wi := i
				if 2*i >= n {
					wi = i - n
				}
				want := float64(wi) / fn
				got := cf.Freq(i)
				if !(math.Abs(got-want) <= 2*eps*math.Abs(want)) {
					t.Failf("CmplxFFT.Freq(%d)=%v want %v", i, got, want)
				}
				if !(got >= -0.5 && got < 0.5) {
					t.Failf("CmplxFFT.Freq(%d)=%v outside [-1/2,1/2)", i, got)
				}
				s := cf.ShiftIdx(i)
				u := cf.UnshiftIdx(i)
				if s < 0 || s >= n || u < 0 || u >= n {
					t.Failf("ShiftIdx(%d)=%d UnshiftIdx(%d)=%d out of range", i, s, i, u)
					return
				}
				if seenS[s] || seenU[u] {
					t.Failf("ShiftIdx/UnshiftIdx not injective at %d", i)
				}
				seenS[s], seenU[u] = true, true
				if cf.UnshiftIdx(s) != i {
					t.Failf("UnshiftIdx(ShiftIdx(%d))=%d", i, cf.UnshiftIdx(s))
				}
				if cf.ShiftIdx(u) != i {
					t.Failf("ShiftIdx(UnshiftIdx(%d))=%d", i, cf.ShiftIdx(u))
				}
				// coeff[ShiftIdx(i)], i = 0..n-1, runs through strictly increasing
				// frequency, with zero frequency at position n/2 (the centre).
				fs := cf.Freq(s)
				if !(fs > prev) {
					t.Failf("Freq(ShiftIdx(%d))=%v not above Freq(ShiftIdx(%d))=%v", i, fs, i-1, prev)
				}
				prev = fs
				if i == n/2 && fs != 0 {
					t.Failf("Freq(ShiftIdx(n/2))=%v, want zero frequency at the centre", fs)
				}
			}
			// documented panics for i outside [0,n)
			for _, i := range []int{-1, n, n + 1, -n} {
				for name, f := range map[string]func(){
					"FFT.Freq":            func() { rf.Freq(i) },
					"CmplxFFT.Freq":       func() { cf.Freq(i) },
					"CmplxFFT.ShiftIdx":   func() { cf.ShiftIdx(i) },
					"CmplxFFT.UnshiftIdx": func() { cf.UnshiftIdx(i) },
				} {
					if msg, ok := panics(f); !ok {
						t.Failf("%s(%d) with n=%d did not panic", name, i, n)
					} else if msg != "fourier: index out of range" {
						t.Failf("%s(%d) with n=%d panicked with %q", name, i, n, msg)
					}
				}
			}
			t.Count("indices", int64(n))
			if n >= 2 {
				t.Nontrivial()
			}
			t.Outcome(fmt.Sprintf("n odd=%v", n%2 == 1))
		})
	}
}

// panics runs f and reports whether it panicked and the panic text.
func panics(f func()) (msg string, ok bool) {
	defer func() {
		if e := recover(); e != nil {
			ok = true
			msg = fmt.Sprint(e)
		}
	}()
	f()
	return "", false
}

// ---- Pad / Trim -------------------------------------------------------------

func genPadTrim(g *vlib.G) {
	maxLen := vlib.Pick(g, 300, 1100)
	// every length up to maxLen, then the neighbours of every larger power of
	// two up to 2^14 and one length in between
	ls := vlib.Ints(0, maxLen)
	for p := 512; p <= 16384; p *= 2 {
		for _, l := range []int{p - 1, p, p + 1, p + p/2} {
			if l > maxLen {
				ls = append(ls, l)
			}
		}
	}
	for _, l := range ls {
		l := l
		g.Case(fmt.Sprintf("len=%d", l), func(t *vlib.T) {
			for _, base := range []int{2, 4} {
				x := make([]complex128, l, l+3)
				for i := range x {
					x[i] = complex(float64(i+1), -float64(i+1))
				}
				x0 := append([]complex128(nil), x...)
				var p, even, rem []complex128
				if base == 2 {
					p = fourier.PadRadix2(x)
					even, rem = fourier.TrimRadix2(x)
				} else {
					p = fourier.PadRadix4(x)
					even, rem = fourier.TrimRadix4(x)
				}
				if i, ok := vlib.SameC128(x, x0); !ok {
					t.Failf("base %d: argument modified at %d", base, i)
				}
				// Pad: smallest power of base >= l (l itself if it is one, then the
				// same slice "unaltered"); prefix x, rest zero. l == 0 returns x.
				wantLen := 0
				if l > 0 {
					wantLen = 1
					for wantLen < l {
						wantLen *= base
					}
				}
				if len(p) != wantLen {
					t.Failf("PadRadix%d(len %d) has length %d want %d", base, l, len(p), wantLen)
				} else {
					for i := range p {
						want := complex128(0)
						if i < l {
							want = x0[i]
						}
						if p[i] != want {
							t.Failf("PadRadix%d(len %d)[%d]=%v want %v", base, l, i, p[i], want)
							break
						}
					}
					if wantLen == l && !sameBackingC(p, x) {
						t.Failf("PadRadix%d(len %d): already a power of %d but not returned unaltered", base, l, base)
					}
					if l > 0 {
						// the padded slice is accepted by the transform
						q := append([]complex128(nil), p...)
						if msg, bad := panics(func() {
							if base == 2 {
								fourier.CoefficientsRadix2(q)
							} else {
								fourier.CoefficientsRadix4(q)
							}
						}); bad {
							t.Failf("CoefficientsRadix%d rejects PadRadix%d(len %d) (len %d): %s", base, base, l, len(p), msg)
						}
					}
				}
				// Trim: largest power of base <= l as a prefix of x, remains is the rest of x.
				wantEven := 0
				if l > 0 {
					wantEven = 1
					for wantEven*base <= l {
						wantEven *= base
					}
				}
				if len(even) != wantEven || len(rem) != l-wantEven {
					t.Failf("TrimRadix%d(len %d) lengths %d,%d want %d,%d", base, l, len(even), len(rem), wantEven, l-wantEven)
				} else {
					if wantEven > 0 && &even[0] != &x[0] {
						t.Failf("TrimRadix%d(len %d): even is not a prefix of x", base, l)
					}
					if len(rem) > 0 && &rem[0] != &x[wantEven] {
						t.Failf("TrimRadix%d(len %d): remains is not the rest of x", base, l)
					}
					if wantEven > 0 && !isPow(len(even), base) {
						t.Failf("TrimRadix%d(len %d): len(even)=%d not a power of %d", base, l, len(even), base)
					}
				}
			}
			if l >= 2 {
				t.Nontrivial()
			}
			t.Outcome(fmt.Sprintf("pow2=%v pow4=%v", l > 0 && bits.OnesCount(uint(l)) == 1, isPow(l, 4)))
		})
	}
}

// ---- documented panics for wrong lengths ----------------------------------

func genPanics(g *vlib.G) {
	ns := append(vlib.Ints(1, 18), 31, 32, 33, 64)
	for _, n := range ns {
		n := n
		g.Case(fmt.Sprintf("objects n=%d", n), func(t *vlib.T) {
			var cnt int64
			expect := func(what, wantMsg string, f func()) {
				cnt++
				msg, ok := panics(f)
				if !ok {
					t.Failf("%s (n=%d) did not panic", what, n)
				} else if wantMsg != "" && msg != wantMsg {
					t.Failf("%s (n=%d) panicked with %q, want %q", what, n, msg, wantMsg)
				}
			}
			noPanic := func(what string, f func()) {
				cnt++
				if msg, bad := panics(f); bad {
					t.Failf("%s (n=%d) panicked: %s", what, n, msg)
				}
			}
			const seqMis, coefMis, dstMis = "fourier: sequence length mismatch", "fourier: coefficients length mismatch", "fourier: destination length mismatch"
			rf := fourier.NewFFT(n)
			cf := fourier.NewCmplxFFT(n)
			st := fourier.NewDST(n)
			qw := fourier.NewQuarterWaveFFT(n)
			hb := transform.NewHilbert(n)
			for _, l := range []int{0, n - 1, n + 1, 2 * n, n/2 + 1} {
				if l == n || l < 0 {
					continue
				}
				l := l
				fl := make([]float64, l)
				cl := make([]complex128, l)
				okf := make([]float64, n)
				okc := make([]complex128, n)
				okh := make([]complex128, n/2+1)
				// wrong src length
				expect(fmt.Sprintf("FFT.Coefficients(nil, len %d)", l), seqMis, func() { rf.Coefficients(nil, fl) })
				if l != n/2+1 {
					expect(fmt.Sprintf("FFT.Sequence(nil, len %d)", l), coefMis, func() { rf.Sequence(nil, cl) })
					expect(fmt.Sprintf("FFT.Coefficients(dst len %d, ok)", l), dstMis, func() { rf.Coefficients(cl, okf) })
				}
				expect(fmt.Sprintf("CmplxFFT.Coefficients(nil, len %d)", l), seqMis, func() { cf.Coefficients(nil, cl) })
				expect(fmt.Sprintf("CmplxFFT.Sequence(nil, len %d)", l), coefMis, func() { cf.Sequence(nil, cl) })
				expect(fmt.Sprintf("DST.Transform(nil, len %d)", l), seqMis, func() { st.Transform(nil, fl) })
				expect(fmt.Sprintf("QW.CosCoefficients(nil, len %d)", l), seqMis, func() { qw.CosCoefficients(nil, fl) })
				expect(fmt.Sprintf("QW.CosSequence(nil, len %d)", l), coefMis, func() { qw.CosSequence(nil, fl) })
				expect(fmt.Sprintf("QW.SinCoefficients(nil, len %d)", l), seqMis, func() { qw.SinCoefficients(nil, fl) })
				expect(fmt.Sprintf("QW.SinSequence(nil, len %d)", l), coefMis, func() { qw.SinSequence(nil, fl) })
				expect(fmt.Sprintf("Hilbert.AnalyticSignal(nil, len %d)", l), "transform: input signal length mismatch", func() { hb.AnalyticSignal(nil, fl) })
				// wrong (non-nil) dst length, correct src; a zero-length non-nil dst is not nil
				expect(fmt.Sprintf("FFT.Sequence(dst len %d, ok)", l), dstMis, func() { rf.Sequence(fl, okh) })
				expect(fmt.Sprintf("CmplxFFT.Coefficients(dst len %d, ok)", l), dstMis, func() { cf.Coefficients(cl, okc) })
				expect(fmt.Sprintf("CmplxFFT.Sequence(dst len %d, ok)", l), dstMis, func() { cf.Sequence(cl, okc) })
				expect(fmt.Sprintf("DST.Transform(dst len %d, ok)", l), dstMis, func() { st.Transform(fl, okf) })
				expect(fmt.Sprintf("QW.CosCoefficients(dst len %d, ok)", l), dstMis, func() { qw.CosCoefficients(fl, okf) })
				expect(fmt.Sprintf("QW.CosSequence(dst len %d, ok)", l), dstMis, func() { qw.CosSequence(fl, okf) })
				expect(fmt.Sprintf("QW.SinCoefficients(dst len %d, ok)", l), dstMis, func() { qw.SinCoefficients(fl, okf) })
				expect(fmt.Sprintf("QW.SinSequence(dst len %d, ok)", l), dstMis, func() { qw.SinSequence(fl, okf) })
				expect(fmt.Sprintf("Hilbert.AnalyticSignal(dst len %d, ok)", l), "transform: destination length mismatch", func() { hb.AnalyticSignal(cl, okf) })
				if n >= 2 {
					dc := fourier.NewDCT(n)
					expect(fmt.Sprintf("DCT.Transform(nil, len %d)", l), seqMis, func() { dc.Transform(nil, fl) })
					expect(fmt.Sprintf("DCT.Transform(dst len %d, ok)", l), dstMis, func() { dc.Transform(fl, okf) })
				}
			}
			// correct lengths do not panic
			noPanic("FFT ok", func() {
				rf.Sequence(make([]float64, n), rf.Coefficients(make([]complex128, n/2+1), make([]float64, n)))
			})
			noPanic("CmplxFFT ok", func() {
				cf.Sequence(make([]complex128, n), cf.Coefficients(make([]complex128, n), make([]complex128, n)))
			})
			// radix functions: documented panic unless the length is a power of 2 / 4
			x := make([]complex128, n)
			if isPow(n, 2) {
				noPanic("CoefficientsRadix2", func() { fourier.CoefficientsRadix2(x) })
				noPanic("SequenceRadix2", func() { fourier.SequenceRadix2(x) })
			} else {
				expect("CoefficientsRadix2", "fourier: radix-2 fft called with non-power 2 length", func() { fourier.CoefficientsRadix2(x) })
				expect("SequenceRadix2", "fourier: radix-2 fft called with non-power 2 length", func() { fourier.SequenceRadix2(x) })
			}
			if isPow(n, 4) {
				noPanic("CoefficientsRadix4", func() { fourier.CoefficientsRadix4(x) })
				noPanic("SequenceRadix4", func() { fourier.SequenceRadix4(x) })
			} else {
				expect("CoefficientsRadix4", "fourier: radix-4 fft called with non-power 4 length", func() { fourier.CoefficientsRadix4(x) })
				expect("SequenceRadix4", "fourier: radix-4 fft called with non-power 4 length", func() { fourier.SequenceRadix4(x) })
			}
			t.Count("panic_probes", cnt)
			t.Nontrivial()
			t.Outcome(fmt.Sprintf("pow2=%v pow4=%v", isPow(n, 2), isPow(n, 4)))
		})
	}
	g.Case("DCT n<2", func(t *vlib.T) {
		for _, n := range []int{1, 0, -1} {
			n := n
			if msg, ok := panics(func() { fourier.NewDCT(n) }); !ok || msg != "fourier: n less than 2" {
				t.Failf("NewDCT(%d): panic=%v %q, documented to panic", n, ok, msg)
			}
			d := fourier.NewDCT(5)
			if msg, ok := panics(func() { d.Reset(n) }); !ok || msg != "fourier: n less than 2" {
				t.Failf("DCT.Reset(%d): panic=%v %q, documented to panic", n, ok, msg)
			}
			if d.Len() != 5 {
				t.Failf("DCT.Len()=%d after rejected Reset(%d), want 5", d.Len(), n)
			}
		}
		t.Nontrivial()
		t.Outcome("dct n<2 panics")
	})
}
