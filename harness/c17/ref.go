package main

// Reference (oracle) side of the C17 harness: accurate trigonometric tables
// with exact integer argument reduction, and the defining columns of every
// transform, written directly from the FFTPACK definitions.

import (
	"math"
	"math/big"
)

const eps = 0x1p-52 // float64 machine epsilon (2.22e-16)

// cosSin2pi returns cos(2*pi*a/m) and sin(2*pi*a/m). The argument is
// reduced exactly in integers to an angle in [0, pi/4] before the single
// call of math.Sincos, so the absolute error is below 2*eps whatever a and m
// are (checked against a 200-bit Taylor evaluation in group ref-selfcheck).
func cosSin2pi(a, m int) (c, s float64) {
	a %= m
	if a < 0 {
		a += m
	}
	q := 4 * a / m // quadrant 0..3
	r := 4*a - q*m // angle inside the quadrant is (pi/2)*r/m, 0 <= r < m
	var c0, s0 float64
	switch {
	case r == 0:
		c0, s0 = 1, 0
	case 2*r <= m:
		s0, c0 = math.Sincos(math.Pi * float64(r) / float64(2*m))
	default:
		c0, s0 = math.Sincos(math.Pi * float64(m-r) / float64(2*m))
	}
	switch q {
	case 0:
		return c0, s0
	case 1:
		return -s0, c0
	case 2:
		return -c0, -s0
	default:
		return s0, -c0
	}
}

// trigTab holds cos/sin(2*pi*a/m) for a = 0..m-1.
type trigTab struct {
	m      int
	cs, sn []float64
}

func newTrigTab(m int) *trigTab {
	t := &trigTab{m: m, cs: make([]float64, m), sn: make([]float64, m)}
	for a := 0; a < m; a++ {
		t.cs[a], t.sn[a] = cosSin2pi(a, m)
	}
	return t
}

func (t *trigTab) cos(a int) float64 { return t.cs[a%t.m] } // a >= 0
func (t *trigTab) sin(a int) float64 { return t.sn[a%t.m] }

// refs caches the tables needed for one length n.
type refs struct {
	n    int
	tabs map[int]*trigTab
	hil  []complex128 // Hilbert kernel g[d], built on demand
}

func newRefs(n int) *refs { return &refs{n: n, tabs: map[int]*trigTab{}} }

func (r *refs) tab(m int) *trigTab {
	if t, ok := r.tabs[m]; ok {
		return t
	}
	t := newTrigTab(m)
	r.tabs[m] = t
	return t
}

// ---- defining columns --------------------------------------------------
//
// Every function returns the image of the basis vector u*e_k (u = 1, or
// u = i when im is true) under the transform of length n, as a complex
// vector (real transforms have zero imaginary parts).

// FFT.Coefficients: c[j] = sum_k x[k] exp(-2 pi i j k / n), j = 0..n/2.
func colFFTCoef(n, k int, im bool, r *refs) []complex128 {
	t := r.tab(n)
	out := make([]complex128, n/2+1)
	for j := range out {
		out[j] = complex(t.cos(j*k), -t.sin(j*k))
	}
	return out
}

// FFT.Sequence (FFTPACK rfftb on the half-complex layout):
// x[j] = Re c[0] + [n even] (-1)^j Re c[n/2] + sum_{0<k<n/2} 2 Re(c[k] exp(+2 pi i j k / n)).
// The imaginary parts of c[0] and (n even) c[n/2] have no slot in the layout.
func colFFTSeq(n, k int, im bool, r *refs) []complex128 {
	t := r.tab(n)
	out := make([]complex128, n)
	for j := range out {
		var v float64
		switch {
		case k == 0:
			if !im {
				v = 1
			}
		case n%2 == 0 && k == n/2:
			if !im {
				v = 1 - 2*float64(j&1)
			}
		case !im:
			v = 2 * t.cos(j*k)
		default:
			v = -2 * t.sin(j*k)
		}
		out[j] = complex(v, 0)
	}
	return out
}

func mulI(im bool, c complex128) complex128 {
	if im {
		return complex(-imag(c), real(c))
	}
	return c
}

// CmplxFFT.Coefficients / CoefficientsRadix2/4: exp(-2 pi i j k / n).
func colCFFTCoef(n, k int, im bool, r *refs) []complex128 {
	t := r.tab(n)
	out := make([]complex128, n)
	for j := range out {
		out[j] = mulI(im, complex(t.cos(j*k), -t.sin(j*k)))
	}
	return out
}

// CmplxFFT.Sequence / SequenceRadix2/4: exp(+2 pi i j k / n).
func colCFFTSeq(n, k int, im bool, r *refs) []complex128 {
	t := r.tab(n)
	out := make([]complex128, n)
	for j := range out {
		out[j] = mulI(im, complex(t.cos(j*k), t.sin(j*k)))
	}
	return out
}

// DCT.Transform (FFTPACK cost, 0-based):
// y[i] = x[0] + (-1)^i x[n-1] + sum_{k=1}^{n-2} 2 x[k] cos(k i pi/(n-1)).
func colDCT(n, k int, im bool, r *refs) []complex128 {
	t := r.tab(2 * (n - 1))
	out := make([]complex128, n)
	for i := range out {
		var v float64
		switch k {
		case 0:
			v = 1
		case n - 1:
			v = 1 - 2*float64(i&1)
		default:
			v = 2 * t.cos(k*i)
		}
		out[i] = complex(v, 0)
	}
	return out
}

// DST.Transform (FFTPACK sint, 0-based):
// y[i] = sum_{k=0}^{n-1} 2 x[k] sin((k+1)(i+1) pi/(n+1)).
func colDST(n, k int, im bool, r *refs) []complex128 {
	t := r.tab(2 * (n + 1))
	out := make([]complex128, n)
	for i := range out {
		out[i] = complex(2*t.sin((k+1)*(i+1)), 0)
	}
	return out
}

// QuarterWaveFFT.CosCoefficients (FFTPACK cosqf, 0-based):
// y[i] = x[0] + sum_{k=1}^{n-1} 2 x[k] cos((2i+1) k pi/(2n)).
func colQWCosCoef(n, k int, im bool, r *refs) []complex128 {
	t := r.tab(4 * n)
	out := make([]complex128, n)
	for i := range out {
		v := 1.0
		if k != 0 {
			v = 2 * t.cos((2*i+1)*k)
		}
		out[i] = complex(v, 0)
	}
	return out
}

// QuarterWaveFFT.CosSequence (FFTPACK cosqb, 0-based):
// y[i] = sum_{k=0}^{n-1} 4 x[k] cos((2k+1) i pi/(2n)).
func colQWCosSeq(n, k int, im bool, r *refs) []complex128 {
	t := r.tab(4 * n)
	out := make([]complex128, n)
	for i := range out {
		out[i] = complex(4*t.cos((2*k+1)*i), 0)
	}
	return out
}

// QuarterWaveFFT.SinCoefficients (FFTPACK sinqf, 0-based):
// y[i] = (-1)^i x[n-1] + sum_{k=0}^{n-2} 2 x[k] sin((2i+1)(k+1) pi/(2n)).
func colQWSinCoef(n, k int, im bool, r *refs) []complex128 {
	t := r.tab(4 * n)
	out := make([]complex128, n)
	for i := range out {
		var v float64
		if k == n-1 {
			v = 1 - 2*float64(i&1)
		} else {
			v = 2 * t.sin((2*i+1)*(k+1))
		}
		out[i] = complex(v, 0)
	}
	return out
}

// QuarterWaveFFT.SinSequence (FFTPACK sinqb, 0-based):
// y[i] = sum_{k=0}^{n-1} 4 x[k] sin((2k+1)(i+1) pi/(2n)).
func colQWSinSeq(n, k int, im bool, r *refs) []complex128 {
	t := r.tab(4 * n)
	out := make([]complex128, n)
	for i := range out {
		out[i] = complex(4*t.sin((2*k+1)*(i+1)), 0)
	}
	return out
}

// hilbertGain is the frequency response of the analytic-signal filter:
// 1 at DC and (n even) Nyquist, 2 at positive, 0 at negative frequencies.
func hilbertGain(n, m int) float64 {
	switch {
	case m == 0:
		return 1
	case n%2 == 0 && m == n/2:
		return 1
	case 2*m < n:
		return 2
	default:
		return 0
	}
}

// Hilbert.AnalyticSignal: a = IDFT(H .* DFT(x)), so the image of e_k is
// a[j] = g[(j-k) mod n], g[d] = (1/n) sum_m H[m] exp(2 pi i m d / n).
func colHilbert(n, k int, im bool, r *refs) []complex128 {
	if r.hil == nil {
		t := r.tab(n)
		r.hil = make([]complex128, n)
		for d := 0; d < n; d++ {
			var sr, si ksum
			for m := 0; m < n; m++ {
				h := hilbertGain(n, m)
				if h == 0 {
					continue
				}
				sr.add(h * t.cos(m*d))
				si.add(h * t.sin(m*d))
			}
			r.hil[d] = complex(sr.val()/float64(n), si.val()/float64(n))
		}
	}
	out := make([]complex128, n)
	for j := range out {
		out[j] = r.hil[((j-k)%n+n)%n]
	}
	return out
}

// ksum is a Neumaier compensated accumulator (reference sums only).
type ksum struct{ s, c float64 }

func (k *ksum) add(v float64) {
	t := k.s + v
	if math.Abs(k.s) >= math.Abs(v) {
		k.c += (k.s - t) + v
	} else {
		k.c += (v - t) + k.s
	}
	k.s = t
}
func (k *ksum) val() float64 { return k.s + k.c }

func norm2(v []complex128) float64 {
	var s float64
	for _, c := range v {
		s += real(c)*real(c) + imag(c)*imag(c)
	}
	return math.Sqrt(s)
}

func log2n(n int) float64 {
	if n < 2 {
		return 1
	}
	return math.Log2(float64(n))
}

// ---- 200-bit check of the trigonometric helper -------------------------

const piDigits = "3.14159265358979323846264338327950288419716939937510582097494459230781640628620899862803482534211706798"

func bigPi() *big.Float {
	p, _, _ := big.ParseFloat(piDigits, 10, 256, big.ToNearestEven)
	return p
}

// bigCosSin evaluates cos and sin of 2*pi*a/m (0 <= a < m) by Taylor series
// in 256-bit arithmetic and returns them rounded to float64.
func bigCosSin(a, m int) (c, s float64) {
	const prec = 256
	x := new(big.Float).SetPrec(prec).Mul(bigPi(), big.NewFloat(2))
	x.Mul(x, new(big.Float).SetPrec(prec).SetInt64(int64(a)))
	x.Quo(x, new(big.Float).SetPrec(prec).SetInt64(int64(m)))
	x2 := new(big.Float).SetPrec(prec).Mul(x, x)
	cosv := new(big.Float).SetPrec(prec).SetInt64(1)
	sinv := new(big.Float).SetPrec(prec).Set(x)
	tc := new(big.Float).SetPrec(prec).SetInt64(1) // x^(2k)/(2k)!
	ts := new(big.Float).SetPrec(prec).Set(x)      // x^(2k+1)/(2k+1)!
	for k := 1; k < 80; k++ {
		tc.Mul(tc, x2)
		tc.Quo(tc, new(big.Float).SetPrec(prec).SetInt64(int64((2*k-1)*(2*k))))
		ts.Mul(ts, x2)
		ts.Quo(ts, new(big.Float).SetPrec(prec).SetInt64(int64((2*k)*(2*k+1))))
		if k%2 == 1 {
			cosv.Sub(cosv, tc)
			sinv.Sub(sinv, ts)
		} else {
			cosv.Add(cosv, tc)
			sinv.Add(sinv, ts)
		}
	}
	c, _ = cosv.Float64()
	s, _ = sinv.Float64()
	return c, s
}
