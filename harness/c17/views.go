package main

// Group "views": every dsp function that takes or returns a slice is called
// with VIEWS of larger caller-owned buffers (len < cap, distinctive non-zero
// data before and behind the view) instead of fresh make() slices:
//
//   - the result must equal, bit for bit, the result for a fresh copy
//     (len == cap) of the same data;
//   - nothing outside the view may be written (the parent buffer is compared
//     bit for bit before/after), and a src view must stay untouched;
//   - a returned slice must be the dst view that was passed, or (dst nil, Pad
//     with padding) fresh storage: the result is scribbled over afterwards
//     and the caller's buffers must not change;
//   - padding must be exactly zero.

import (
	"fmt"

	"gonum.org/v1/gonum/dsp/fourier"
	"gonum.org/v1/gonum/dsp/transform"
	"gonum.org/v1/gonum/dsp/window"
	"gonum.org/v1/gonum/internal/verif/vlib"
)

// cbuf / fbuf: a parent buffer full of distinctive data and a view into it.
type cbuf struct {
	parent, orig []complex128
	lo, n        int
}

func newCbuf(n, before, after int, data []complex128) *cbuf {
	p := make([]complex128, before+n+after)
	for i := range p {
		p[i] = complex(float64(1000+i), -float64(2000+i))
	}
	copy(p[before:before+n], data)
	return &cbuf{parent: p, orig: append([]complex128(nil), p...), lo: before, n: n}
}

// view has len n and cap n+after: the caller's data is reachable through it.
func (b *cbuf) view() []complex128 { return b.parent[b.lo : b.lo+b.n] }

func (b *cbuf) outsideUnchanged() (int, bool) {
	if i, ok := vlib.SameC128(b.parent[:b.lo], b.orig[:b.lo]); !ok {
		return i, false
	}
	if i, ok := vlib.SameC128(b.parent[b.lo+b.n:], b.orig[b.lo+b.n:]); !ok {
		return b.lo + b.n + i, false
	}
	return 0, true
}
func (b *cbuf) allUnchanged() (int, bool) { return vlib.SameC128(b.parent, b.orig) }

type fbuf struct {
	parent, orig []float64
	lo, n        int
}

func newFbuf(n, before, after int, data []float64) *fbuf {
	p := make([]float64, before+n+after)
	for i := range p {
		p[i] = float64(1000 + i)
	}
	copy(p[before:before+n], data)
	return &fbuf{parent: p, orig: append([]float64(nil), p...), lo: before, n: n}
}
func (b *fbuf) view() []float64 { return b.parent[b.lo : b.lo+b.n] }
func (b *fbuf) outsideUnchanged() (int, bool) {
	if i, ok := vlib.Same64(b.parent[:b.lo], b.orig[:b.lo]); !ok {
		return i, false
	}
	if i, ok := vlib.Same64(b.parent[b.lo+b.n:], b.orig[b.lo+b.n:]); !ok {
		return b.lo + b.n + i, false
	}
	return 0, true
}
func (b *fbuf) allUnchanged() (int, bool) { return vlib.Same64(b.parent, b.orig) }

// margins (before, after) of the views; after = 70 reaches the next power of
// two and of four for every quick length, after = 0 with before > 0 is a view
// at the very end of its parent.
var viewMargins = [][2]int{{3, 5}, {0, 70}, {2, 0}}

func scribbleC(s []complex128) {
	for i := range s {
		s[i] = complex(-7, 7)
	}
}
func scribbleF(s []float64) {
	for i := range s {
		s[i] = -7
	}
}

// anyTransform is one slice-taking entry point in a uniform shape: inputs and
// outputs are complex vectors; realIn/realOut say which side is []float64.
type anyTransform struct {
	name            string
	minN            int
	realIn, realOut bool
	aliasOK         bool
	inLen, outLen   func(n int) int
	// mk returns the call: exactly one of (dr, dc) / (sr, sc) is used
	// according to realOut / realIn; dst nil is passed as nil.
	mk func(n int) func(dr []float64, dc []complex128, sr []float64, sc []complex128) ([]float64, []complex128)
}

func rr(f func(dst, src []float64) []float64) func([]float64, []complex128, []float64, []complex128) ([]float64, []complex128) {
	return func(dr []float64, _ []complex128, sr []float64, _ []complex128) ([]float64, []complex128) {
		return f(dr, sr), nil
	}
}
func cc(f func(dst, src []complex128) []complex128) func([]float64, []complex128, []float64, []complex128) ([]float64, []complex128) {
	return func(_ []float64, dc []complex128, _ []float64, sc []complex128) ([]float64, []complex128) {
		return nil, f(dc, sc)
	}
}

func viewTransforms() []anyTransform {
	type call = func([]float64, []complex128, []float64, []complex128) ([]float64, []complex128)
	return []anyTransform{
		{name: "FFT.Coefficients", minN: 1, realIn: true, inLen: same, outLen: half, mk: func(n int) call {
			o := fourier.NewFFT(n)
			return func(_ []float64, dc []complex128, sr []float64, _ []complex128) ([]float64, []complex128) {
				return nil, o.Coefficients(dc, sr)
			}
		}},
		{name: "FFT.Sequence", minN: 1, realOut: true, inLen: half, outLen: same, mk: func(n int) call {
			o := fourier.NewFFT(n)
			return func(dr []float64, _ []complex128, _ []float64, sc []complex128) ([]float64, []complex128) {
				return o.Sequence(dr, sc), nil
			}
		}},
		{name: "CmplxFFT.Coefficients", minN: 1, aliasOK: true, inLen: same, outLen: same, mk: func(n int) call { return cc(fourier.NewCmplxFFT(n).Coefficients) }},
		{name: "CmplxFFT.Sequence", minN: 1, aliasOK: true, inLen: same, outLen: same, mk: func(n int) call { return cc(fourier.NewCmplxFFT(n).Sequence) }},
		{name: "DCT.Transform", minN: 2, realIn: true, realOut: true, aliasOK: true, inLen: same, outLen: same, mk: func(n int) call { return rr(fourier.NewDCT(n).Transform) }},
		{name: "DST.Transform", minN: 1, realIn: true, realOut: true, aliasOK: true, inLen: same, outLen: same, mk: func(n int) call { return rr(fourier.NewDST(n).Transform) }},
		{name: "QW.CosCoefficients", minN: 1, realIn: true, realOut: true, aliasOK: true, inLen: same, outLen: same, mk: func(n int) call { return rr(fourier.NewQuarterWaveFFT(n).CosCoefficients) }},
		{name: "QW.CosSequence", minN: 1, realIn: true, realOut: true, aliasOK: true, inLen: same, outLen: same, mk: func(n int) call { return rr(fourier.NewQuarterWaveFFT(n).CosSequence) }},
		{name: "QW.SinCoefficients", minN: 1, realIn: true, realOut: true, aliasOK: true, inLen: same, outLen: same, mk: func(n int) call { return rr(fourier.NewQuarterWaveFFT(n).SinCoefficients) }},
		{name: "QW.SinSequence", minN: 1, realIn: true, realOut: true, aliasOK: true, inLen: same, outLen: same, mk: func(n int) call { return rr(fourier.NewQuarterWaveFFT(n).SinSequence) }},
		{name: "Hilbert.AnalyticSignal", minN: 1, realIn: true, inLen: same, outLen: same, mk: func(n int) call {
			o := transform.NewHilbert(n)
			return func(_ []float64, dc []complex128, sr []float64, _ []complex128) ([]float64, []complex128) {
				return nil, o.AnalyticSignal(dc, sr)
			}
		}},
	}
}

func genViews(g *vlib.G) {
	ns := vlib.Pick(g, []int{1, 2, 3, 4, 5, 7, 8, 12, 16, 17, 31, 32, 33, 60}, vlib.Ints(1, 66))
	for _, tr := range viewTransforms() {
		for _, n := range ns {
			if n < tr.minN {
				continue
			}
			tr, n := tr, n
			g.Case(fmt.Sprintf("%s n=%d", tr.name, n), func(t *vlib.T) { runViewTransform(t, tr, n) })
		}
	}
	// in-place radix functions on views, and the Pad -> transform pipeline
	for _, l := range vlib.Ints(0, vlib.Pick(g, 70, 300)) {
		l := l
		g.Case(fmt.Sprintf("padtrim-radix len=%d", l), func(t *vlib.T) { runViewPadTrim(t, l) })
	}
	for _, N := range vlib.Pick(g, []int{1, 2, 5, 8, 16, 33}, vlib.Ints(1, 40)) {
		N := N
		g.Case(fmt.Sprintf("windows N=%d", N), func(t *vlib.T) { runViewWindows(t, N) })
	}
}

func runViewTransform(t *vlib.T, tr anyTransform, n int) {
	f := tr.mk(n)
	nin, nout := tr.inLen(n), tr.outLen(n)
	x := denseInput(nin, !tr.realIn)
	xr := reals(x)
	// reference: fresh slices with len == cap, dst nil
	wr, wc := f(nil, nil, append([]float64(nil), xr...), append([]complex128(nil), x...))
	var calls int64
	for _, mg := range viewMargins {
		for mode := 0; mode < 3; mode++ {
			if mode == dstAlias && !(tr.aliasOK && tr.realIn == tr.realOut) {
				continue
			}
			what := fmt.Sprintf("margins %v dst mode %d", mg, mode)
			sF := newFbuf(nin, mg[0], mg[1], xr)
			sC := newCbuf(nin, mg[0], mg[1], x)
			dF := newFbuf(nout, mg[1]%4+1, mg[0]+6, nil)
			dC := newCbuf(nout, mg[1]%4+1, mg[0]+6, nil)
			var dr []float64
			var dc []complex128
			switch mode {
			case dstFresh:
				dr, dc = dF.view(), dC.view()
			case dstAlias:
				dr, dc = sF.view(), sC.view()
			}
			gr, gc := f(dr, dc, sF.view(), sC.view())
			calls++
			// values
			if tr.realOut {
				if i, ok := vlib.Same64(gr, wr); !ok {
					t.Failf("%s: result[%d] differs from the result for fresh slices (%v vs %v)", what, i, at64(gr, i), at64(wr, i))
				}
				if mode != dstNil && !sameBackingF(gr, dr) {
					t.Failf("%s: result is not the dst view that was passed", what)
				}
			} else {
				if i, ok := vlib.SameC128(gc, wc); !ok {
					t.Failf("%s: result[%d] differs from the result for fresh slices (%v vs %v)", what, i, at2(gc, i), at2(wc, i))
				}
				if mode != dstNil && !sameBackingC(gc, dc) {
					t.Failf("%s: result is not the dst view that was passed", what)
				}
			}
			// dst nil: the result must be fresh storage: scribble over it (to its
			// capacity) and see that no caller buffer changes
			if mode == dstNil {
				scribbleF(gr[:cap(gr)])
				scribbleC(gc[:cap(gc)])
			}
			// nothing outside the views written; src view untouched unless aliased
			srcAll := func() (int, bool) {
				if tr.realIn {
					return sF.allUnchanged()
				}
				return sC.allUnchanged()
			}
			srcOut := func() (int, bool) {
				if tr.realIn {
					return sF.outsideUnchanged()
				}
				return sC.outsideUnchanged()
			}
			if mode == dstAlias {
				if i, ok := srcOut(); !ok {
					t.Failf("%s: caller's buffer written outside the src/dst view at parent index %d", what, i)
				}
			} else if i, ok := srcAll(); !ok {
				t.Failf("%s: caller's src buffer modified at parent index %d (view is [%d,%d))", what, i, mg[0], mg[0]+nin)
			}
			if mode == dstFresh {
				var i int
				var ok bool
				if tr.realOut {
					i, ok = dF.outsideUnchanged()
				} else {
					i, ok = dC.outsideUnchanged()
				}
				if !ok {
					t.Failf("%s: caller's dst buffer written outside the dst view at parent index %d", what, i)
				}
			}
			if t.Failed() {
				break
			}
		}
	}
	t.Count("view_calls", calls)
	if n >= 2 {
		t.Nontrivial()
	}
	t.Outcome(tr.name + " views")
}

func at64(v []float64, i int) any {
	if i < 0 || i >= len(v) {
		return "-"
	}
	return v[i]
}

func runViewPadTrim(t *vlib.T, l int) {
	x := denseInput(l, true)
	for i := range x {
		x[i] += 9 + 9i // never zero
	}
	var calls int64
	type padFn struct {
		name  string
		base  int
		pad   func([]complex128) []complex128
		trim  func([]complex128) ([]complex128, []complex128)
		coef  func([]complex128) []complex128
		seq   func([]complex128) []complex128
		valid func(n int) bool
	}
	fns := []padFn{
		{"Radix2", 2, fourier.PadRadix2, fourier.TrimRadix2, fourier.CoefficientsRadix2, fourier.SequenceRadix2, func(n int) bool { return isPow(n, 2) }},
		{"Radix4", 4, fourier.PadRadix4, fourier.TrimRadix4, fourier.CoefficientsRadix4, fourier.SequenceRadix4, func(n int) bool { return isPow(n, 4) }},
	}
	for _, fn := range fns {
		wantLen := 0
		if l > 0 {
			wantLen = 1
			for wantLen < l {
				wantLen *= fn.base
			}
		}
		// after-margins: none, short of the next power, exactly up to it, beyond it
		afters := []int{0, 1, wantLen - l, wantLen - l + 3, 4*wantLen + 5}
		for ai, after := range afters {
			if after < 0 {
				continue
			}
			before := ai % 3
			what := fmt.Sprintf("%s len=%d view at %d with %d elements behind it", fn.name, l, before, after)
			// ---- Pad
			b := newCbuf(l, before, after, x)
			p := fn.pad(b.view())
			calls++
			if i, ok := b.allUnchanged(); !ok {
				t.Failf("Pad%s: %s: caller's buffer modified at parent index %d", fn.name, what, i)
			}
			if len(p) != wantLen {
				t.Failf("Pad%s: %s: result length %d want %d", fn.name, what, len(p), wantLen)
				continue
			}
			for i := range p {
				want := complex128(0)
				if i < l {
					want = x[i]
				}
				if p[i] != want {
					t.Failf("Pad%s: %s: result[%d]=%v want %v (padding must be zero, not the caller's data behind the view)", fn.name, what, i, p[i], want)
					break
				}
			}
			if wantLen != l {
				// a padded result is new storage: transforming it in place (as the
				// documentation intends) must not touch the caller's buffer
				if l > 0 {
					fn.coef(p)
				}
				scribbleC(p[:cap(p)])
				if i, ok := b.allUnchanged(); !ok {
					t.Failf("Pad%s: %s: the padded result shares storage with the caller's buffer (parent index %d changed when the result was transformed/overwritten)", fn.name, what, i)
				}
			} else if l > 0 && !sameBackingC(p, b.view()) {
				t.Failf("Pad%s: %s: length already a power of %d but x not returned unaltered", fn.name, what, fn.base)
			}
			// ---- Pad -> Coefficients pipeline equals the pipeline on a fresh copy
			if l > 0 {
				b2 := newCbuf(l, before, after, x)
				got := fn.coef(fn.pad(b2.view()))
				want := fn.coef(fn.pad(append([]complex128(nil), x...)))
				if i, ok := vlib.SameC128(got, want); !ok {
					t.Failf("Coefficients%s(Pad%s(view)): %s: element %d is %v, for a fresh copy of the same data %v", fn.name, fn.name, what, i, at2(got, i), at2(want, i))
				}
				if i, ok := b2.outsideUnchanged(); !ok {
					t.Failf("Coefficients%s(Pad%s(view)): %s: caller's data outside the view overwritten at parent index %d", fn.name, fn.name, what, i)
				}
				calls++
			}
			// ---- Trim: even and remains are sub-slices of the view
			b3 := newCbuf(l, before, after, x)
			even, rem := fn.trim(b3.view())
			calls++
			if len(even)+len(rem) != l || (len(even) > 0 && !fn.valid(len(even))) {
				t.Failf("Trim%s: %s: lengths %d,%d", fn.name, what, len(even), len(rem))
			} else {
				if i, ok := b3.allUnchanged(); !ok {
					t.Failf("Trim%s: %s: caller's buffer modified at parent index %d", fn.name, what, i)
				}
				if i, ok := vlib.SameC128(append(append([]complex128(nil), even...), rem...), x); !ok {
					t.Failf("Trim%s: %s: even++remains differs from x at %d", fn.name, what, i)
				}
				scribbleC(even)
				scribbleC(rem)
				if i, ok := b3.outsideUnchanged(); !ok {
					t.Failf("Trim%s: %s: even/remains reach outside the view (parent index %d)", fn.name, what, i)
				}
			}
			// ---- in-place transforms on a view of valid length
			if l > 0 && fn.valid(l) {
				for k, f := range []func([]complex128) []complex128{fn.coef, fn.seq} {
					b4 := newCbuf(l, before, after, x)
					got := f(b4.view())
					want := f(append([]complex128(nil), x...))
					calls++
					if !sameBackingC(got, b4.view()) {
						t.Failf("%s transform %d: %s: result is not the argument view", fn.name, k, what)
					}
					if i, ok := vlib.SameC128(got, want); !ok {
						t.Failf("%s transform %d: %s: element %d differs from the result for a fresh copy", fn.name, k, what, i)
					}
					if i, ok := b4.outsideUnchanged(); !ok {
						t.Failf("%s transform %d: %s: written outside the view at parent index %d", fn.name, k, what, i)
					}
				}
			}
			if t.Failed() {
				break
			}
		}
	}
	t.Count("view_calls", calls)
	if l >= 2 {
		t.Nontrivial()
	}
	t.Outcome(fmt.Sprintf("padtrim views pow2=%v pow4=%v", isPow(l, 2), isPow(l, 4)))
}

func runViewWindows(t *vlib.T, N int) {
	xr, xc := winInput(N)
	var calls int64
	for _, w := range windows() {
		wantR := w.re(append([]float64(nil), xr...))
		wantC := w.cx(append([]complex128(nil), xc...))
		for _, mg := range viewMargins {
			bf := newFbuf(N, mg[0], mg[1], xr)
			gr := w.re(bf.view())
			bc := newCbuf(N, mg[0], mg[1], xc)
			gc := w.cx(bc.view())
			calls += 2
			if !sameBackingF(gr, bf.view()) || !sameBackingC(gc, bc.view()) {
				t.Failf("%s N=%d margins %v: result is not the argument view", w.name, N, mg)
			}
			if i, ok := sameVals(gr, wantR); !ok {
				t.Failf("%s N=%d margins %v: real result[%d]=%v, for a fresh copy %v", w.name, N, mg, i, at64(gr, i), at64(wantR, i))
			}
			if i, ok := sameValsC(gc, wantC); !ok {
				t.Failf("%s N=%d margins %v: complex result[%d]=%v, for a fresh copy %v", w.name, N, mg, i, at2(gc, i), at2(wantC, i))
			}
			if i, ok := bf.outsideUnchanged(); !ok {
				t.Failf("%s N=%d margins %v: real window wrote outside the view at parent index %d", w.name, N, mg, i)
			}
			if i, ok := bc.outsideUnchanged(); !ok {
				t.Failf("%s N=%d margins %v: complex window wrote outside the view at parent index %d", w.name, N, mg, i)
			}
		}
	}
	// Values on views
	v := window.NewValues(window.Hamming, N)
	wantR := v.Transform(append([]float64(nil), xr...))
	wantC := v.TransformComplex(append([]complex128(nil), xc...))
	for _, mg := range viewMargins {
		bf := newFbuf(N, mg[0], mg[1], xr)
		bc := newCbuf(N, mg[0], mg[1], xc)
		gr := v.Transform(bf.view())
		gc := v.TransformComplex(bc.view())
		sf := newFbuf(N, mg[0], mg[1], xr)
		sc := newCbuf(N, mg[0], mg[1], xc)
		df := newFbuf(N, mg[1]%4+1, mg[0]+6, nil)
		dc := newCbuf(N, mg[1]%4+1, mg[0]+6, nil)
		v.TransformTo(df.view(), sf.view())
		v.TransformComplexTo(dc.view(), sc.view())
		calls += 4
		for _, c := range []struct {
			what string
			f    func() (int, bool)
		}{
			{"Values.Transform values", func() (int, bool) { return sameVals(gr, wantR) }},
			{"Values.TransformComplex values", func() (int, bool) { return sameValsC(gc, wantC) }},
			{"Values.TransformTo values", func() (int, bool) { return sameVals(df.view(), wantR) }},
			{"Values.TransformComplexTo values", func() (int, bool) { return sameValsC(dc.view(), wantC) }},
			{"Values.Transform outside view", bf.outsideUnchanged},
			{"Values.TransformComplex outside view", bc.outsideUnchanged},
			{"Values.TransformTo src buffer", sf.allUnchanged},
			{"Values.TransformComplexTo src buffer", sc.allUnchanged},
			{"Values.TransformTo outside dst view", df.outsideUnchanged},
			{"Values.TransformComplexTo outside dst view", dc.outsideUnchanged},
		} {
			if i, ok := c.f(); !ok {
				t.Failf("%s: N=%d margins %v: mismatch at index %d", c.what, N, mg, i)
			}
		}
	}
	t.Count("view_calls", calls)
	if N >= 2 {
		t.Nontrivial()
	}
	t.Outcome("window views")
}
