package main

// Uniform view of every transform under test as an R-linear operator on
// complex vectors (real vectors have zero imaginary parts), plus the
// adaptors that call the real gonum API in each dst mode.

import (
	"fmt"
	"math"
	"unsafe"

	"gonum.org/v1/gonum/dsp/fourier"
	"gonum.org/v1/gonum/dsp/transform"
	"gonum.org/v1/gonum/internal/verif/vlib"
)

// dst modes
const (
	dstNil   = 0 // dst == nil: result freshly allocated by gonum
	dstFresh = 1 // dst is a separate slice pre-filled with NaN poison
	dstAlias = 2 // dst is the same slice as src (where the types allow it)
)

// applyFn runs one transform on in using the given dst mode and returns the
// result. Structural violations (src modified, result not in dst, wrong
// length) are reported on t.
type applyFn func(t *vlib.T, in []complex128, mode int) []complex128

type op struct {
	name      string
	minN      int
	pow       int // 0: any n; 2: powers of two; 4: powers of four
	inLen     func(n int) int
	outLen    func(n int) int
	inComplex bool // also feed i*e_k
	aliasOK   bool // dst may be the same slice as src
	inPlace   bool // function works in place only (radix-2/4)
	mk        func(n int) applyFn
	col       func(n, k int, im bool, r *refs) []complex128
	// growth is the algorithm-specific term G(n) of the stated error bound
	// 8*(log2 n + G)*eps*max(||col||,1); see gNone..gRadix.
	growth func(n int) float64
}

// Growth terms of the stated rounding bound (all measured maxima over
// n <= 512 are below 1/3 of the resulting bound, see NOTES.md):
//
//	gNone   0: complex FFT (all twiddles tabulated by direct sin/cos).
//	gReal   gP(P(m)) = max(16*P, P^2/64): FFTPACK's real passes for a prime factor p > 5
//	        (radfg/radbg) generate their p-th roots of unity by two nested
//	        rotation recurrences, so the rounding error of the real FFT of
//	        length m grows like p*eps. P(m) is the sum of the prime factors
//	        of m larger than 5, m the length of the underlying real FFT.
//	gCosSin gReal + sqrt(n): cost/sint post-process the real FFT of length
//	        n-1 / n+1 with running sums (x[i] = x[i-2] + ...).
//	gRadix  2*sqrt(n): the radix-2/4 functions document that their twiddles
//	        are built by successive multiplication "so numerical
//	        [in]accuracies can accumulate".
func gNone(n int) float64 { return 0 }
func gReal(n int) float64 { return gP(bigPrimeSum(n)) }
func gDCT(n int) float64  { return gP(bigPrimeSum(n-1)) + math.Sqrt(float64(n)) }
func gDST(n int) float64  { return gP(bigPrimeSum(n+1)) + math.Sqrt(float64(n)) }

// gP is the growth term for a real FFT whose length has large prime factors
// summing to P: 16*P up to P = 1024 (unchanged for the exhaustive range
// n <= 512), P^2/64 beyond: measured over the long-length menu the error of
// the nested recurrences in radfg/radbg reaches 1.9e-3*P^2 (in units of
// 8*eps*||col||) at P = 9973, 2.5e-3*P^2 at P = 2053.
func gP(P int) float64 { return math.Max(16*float64(P), float64(P)*float64(P)/64) }

func gRadix(n int) float64 { return 2 * math.Sqrt(float64(n)) }

// bigPrimeSum returns the sum (with multiplicity) of the prime factors of m
// that are larger than 5.
func bigPrimeSum(m int) int {
	s := 0
	for d := 2; d*d <= m; d++ {
		for m%d == 0 {
			if d > 5 {
				s += d
			}
			m /= d
		}
	}
	if m > 5 {
		s += m
	}
	return s
}

func same(n int) int { return n }
func half(n int) int { return n/2 + 1 }

func reals(in []complex128) []float64 {
	out := make([]float64, len(in))
	for i, c := range in {
		out[i] = real(c)
	}
	return out
}

func cplx(in []float64) []complex128 {
	out := make([]complex128, len(in))
	for i, v := range in {
		out[i] = complex(v, 0)
	}
	return out
}

func sameBackingF(a, b []float64) bool {
	return len(a) == len(b) && (len(a) == 0 || unsafe.SliceData(a) == unsafe.SliceData(b))
}
func sameBackingC(a, b []complex128) bool {
	return len(a) == len(b) && (len(a) == 0 || unsafe.SliceData(a) == unsafe.SliceData(b))
}

// r2r adapts func(dst, src []float64) []float64.
func r2r(name string, outLen int, f func(dst, src []float64) []float64) applyFn {
	return func(t *vlib.T, in []complex128, mode int) []complex128 {
		src := reals(in)
		src0 := append([]float64(nil), src...)
		var out []float64
		switch mode {
		case dstNil:
			out = f(nil, src)
		case dstFresh:
			dst := make([]float64, outLen)
			vlib.FillPoison64(dst)
			out = f(dst, src)
			if !sameBackingF(out, dst) {
				t.Failf("%s: result is not the dst slice that was passed", name)
			}
		case dstAlias:
			out = f(src, src)
			if !sameBackingF(out, src) {
				t.Failf("%s: result is not the dst (=src) slice that was passed", name)
			}
		}
		if mode != dstAlias {
			if i, ok := vlib.Same64(src, src0); !ok {
				t.Failf("%s: src[%d] modified (mode %d)", name, i, mode)
			}
		}
		if len(out) != outLen {
			t.Failf("%s: result length %d want %d", name, len(out), outLen)
		}
		return cplx(out)
	}
}

// c2c adapts func(dst, src []complex128) []complex128.
func c2c(name string, outLen int, f func(dst, src []complex128) []complex128) applyFn {
	return func(t *vlib.T, in []complex128, mode int) []complex128 {
		src := append([]complex128(nil), in...)
		var out []complex128
		switch mode {
		case dstNil:
			out = f(nil, src)
		case dstFresh:
			dst := make([]complex128, outLen)
			vlib.FillPoisonC128(dst)
			out = f(dst, src)
			if !sameBackingC(out, dst) {
				t.Failf("%s: result is not the dst slice that was passed", name)
			}
		case dstAlias:
			out = f(src, src)
			if !sameBackingC(out, src) {
				t.Failf("%s: result is not the dst (=src) slice that was passed", name)
			}
		}
		if mode != dstAlias {
			if i, ok := vlib.SameC128(src, in); !ok {
				t.Failf("%s: src[%d] modified (mode %d)", name, i, mode)
			}
		}
		if len(out) != outLen {
			t.Failf("%s: result length %d want %d", name, len(out), outLen)
		}
		return append([]complex128(nil), out...)
	}
}

// r2c adapts func(dst []complex128, src []float64) []complex128 (no aliasing possible).
func r2c(name string, outLen int, f func(dst []complex128, src []float64) []complex128) applyFn {
	return func(t *vlib.T, in []complex128, mode int) []complex128 {
		src := reals(in)
		src0 := append([]float64(nil), src...)
		var out []complex128
		if mode == dstNil {
			out = f(nil, src)
		} else {
			dst := make([]complex128, outLen)
			vlib.FillPoisonC128(dst)
			out = f(dst, src)
			if !sameBackingC(out, dst) {
				t.Failf("%s: result is not the dst slice that was passed", name)
			}
		}
		if i, ok := vlib.Same64(src, src0); !ok {
			t.Failf("%s: src[%d] modified (mode %d)", name, i, mode)
		}
		if len(out) != outLen {
			t.Failf("%s: result length %d want %d", name, len(out), outLen)
		}
		return append([]complex128(nil), out...)
	}
}

// c2r adapts func(dst []float64, src []complex128) []float64 (no aliasing possible).
func c2r(name string, outLen int, f func(dst []float64, src []complex128) []float64) applyFn {
	return func(t *vlib.T, in []complex128, mode int) []complex128 {
		src := append([]complex128(nil), in...)
		var out []float64
		if mode == dstNil {
			out = f(nil, src)
		} else {
			dst := make([]float64, outLen)
			vlib.FillPoison64(dst)
			out = f(dst, src)
			if !sameBackingF(out, dst) {
				t.Failf("%s: result is not the dst slice that was passed", name)
			}
		}
		if i, ok := vlib.SameC128(src, in); !ok {
			t.Failf("%s: src[%d] modified (mode %d)", name, i, mode)
		}
		if len(out) != outLen {
			t.Failf("%s: result length %d want %d", name, len(out), outLen)
		}
		return cplx(out)
	}
}

// inplace adapts func(x []complex128) []complex128.
func inplace(name string, f func(x []complex128) []complex128) applyFn {
	return func(t *vlib.T, in []complex128, mode int) []complex128 {
		x := append([]complex128(nil), in...)
		out := f(x)
		if !sameBackingC(out, x) {
			t.Failf("%s: result is not the argument slice (documented to work in place)", name)
		}
		return append([]complex128(nil), out...)
	}
}

var ops = []*op{
	{name: "FFT.Coefficients", minN: 1, inLen: same, outLen: half, growth: gReal,
		mk: func(n int) applyFn {
			o := fourier.NewFFT(n)
			return r2c("FFT.Coefficients", n/2+1, o.Coefficients)
		}, col: colFFTCoef},
	{name: "FFT.Sequence", minN: 1, inLen: half, outLen: same, inComplex: true, growth: gReal,
		mk: func(n int) applyFn {
			o := fourier.NewFFT(n)
			return c2r("FFT.Sequence", n, o.Sequence)
		}, col: colFFTSeq},
	{name: "CmplxFFT.Coefficients", minN: 1, inLen: same, outLen: same, inComplex: true, aliasOK: true, growth: gNone,
		mk: func(n int) applyFn {
			o := fourier.NewCmplxFFT(n)
			return c2c("CmplxFFT.Coefficients", n, o.Coefficients)
		}, col: colCFFTCoef},
	{name: "CmplxFFT.Sequence", minN: 1, inLen: same, outLen: same, inComplex: true, aliasOK: true, growth: gNone,
		mk: func(n int) applyFn {
			o := fourier.NewCmplxFFT(n)
			return c2c("CmplxFFT.Sequence", n, o.Sequence)
		}, col: colCFFTSeq},
	{name: "DCT.Transform", minN: 2, inLen: same, outLen: same, aliasOK: true, growth: gDCT,
		mk: func(n int) applyFn {
			o := fourier.NewDCT(n)
			return r2r("DCT.Transform", n, o.Transform)
		}, col: colDCT},
	{name: "DST.Transform", minN: 1, inLen: same, outLen: same, aliasOK: true, growth: gDST,
		mk: func(n int) applyFn {
			o := fourier.NewDST(n)
			return r2r("DST.Transform", n, o.Transform)
		}, col: colDST},
	{name: "QW.CosCoefficients", minN: 1, inLen: same, outLen: same, aliasOK: true, growth: gReal,
		mk: func(n int) applyFn {
			o := fourier.NewQuarterWaveFFT(n)
			return r2r("QW.CosCoefficients", n, o.CosCoefficients)
		}, col: colQWCosCoef},
	{name: "QW.CosSequence", minN: 1, inLen: same, outLen: same, aliasOK: true, growth: gReal,
		mk: func(n int) applyFn {
			o := fourier.NewQuarterWaveFFT(n)
			return r2r("QW.CosSequence", n, o.CosSequence)
		}, col: colQWCosSeq},
	{name: "QW.SinCoefficients", minN: 1, inLen: same, outLen: same, aliasOK: true, growth: gReal,
		mk: func(n int) applyFn {
			o := fourier.NewQuarterWaveFFT(n)
			return r2r("QW.SinCoefficients", n, o.SinCoefficients)
		}, col: colQWSinCoef},
	{name: "QW.SinSequence", minN: 1, inLen: same, outLen: same, aliasOK: true, growth: gReal,
		mk: func(n int) applyFn {
			o := fourier.NewQuarterWaveFFT(n)
			return r2r("QW.SinSequence", n, o.SinSequence)
		}, col: colQWSinSeq},
	{name: "Hilbert.AnalyticSignal", minN: 1, inLen: same, outLen: same, growth: gNone,
		mk: func(n int) applyFn {
			o := transform.NewHilbert(n)
			return r2c("Hilbert.AnalyticSignal", n, o.AnalyticSignal)
		}, col: colHilbert},
	{name: "CoefficientsRadix2", minN: 1, pow: 2, inLen: same, outLen: same, inComplex: true, inPlace: true, growth: gRadix,
		mk:  func(n int) applyFn { return inplace("CoefficientsRadix2", fourier.CoefficientsRadix2) },
		col: colCFFTCoef},
	{name: "SequenceRadix2", minN: 1, pow: 2, inLen: same, outLen: same, inComplex: true, inPlace: true, growth: gRadix,
		mk:  func(n int) applyFn { return inplace("SequenceRadix2", fourier.SequenceRadix2) },
		col: colCFFTSeq},
	{name: "CoefficientsRadix4", minN: 1, pow: 4, inLen: same, outLen: same, inComplex: true, inPlace: true, growth: gRadix,
		mk:  func(n int) applyFn { return inplace("CoefficientsRadix4", fourier.CoefficientsRadix4) },
		col: colCFFTCoef},
	{name: "SequenceRadix4", minN: 1, pow: 4, inLen: same, outLen: same, inComplex: true, inPlace: true, growth: gRadix,
		mk:  func(n int) applyFn { return inplace("SequenceRadix4", fourier.SequenceRadix4) },
		col: colCFFTSeq},
}

func opByName(name string) *op {
	for _, o := range ops {
		if o.name == name {
			return o
		}
	}
	panic("no op " + name)
}

func isPow(n, base int) bool {
	if n < 1 {
		return false
	}
	for n%base == 0 {
		n /= base
	}
	return n == 1
}

// lengths returns the declared set of lengths for the op in this tier.
func (o *op) lengths(g *vlib.G) []int {
	var ns []int
	if o.pow != 0 {
		max := vlib.Pick(g, 1024, 4096)
		for n := 1; n <= max; n *= o.pow {
			ns = append(ns, n)
		}
		return ns
	}
	for _, n := range generalLengths(g) {
		if n >= o.minN {
			ns = append(ns, n)
		}
	}
	return ns
}

// Quick tier: every n in 1..128 plus a menu of larger lengths: 3^5, 2^8, 7^3,
// 2^3*3^2*5, the prime with the largest observed real-FFT error (467),
// 2^2*5^3, the largest prime below 512 and 2^9.
var quickExtra = []int{243, 256, 343, 360, 467, 500, 509, 512}

func generalLengths(g *vlib.G) []int {
	if g.Thorough() {
		return vlib.Ints(1, 512)
	}
	return append(vlib.Ints(1, 128), quickExtra...)
}

// denseInput is the fixed dense integer-valued test vector.
func denseInput(n int, complexIn bool) []complex128 {
	x := make([]complex128, n)
	for k := range x {
		re := float64((k*7+3)%11 - 5)
		im := 0.0
		if complexIn {
			im = float64((k*5+1)%7 - 3)
		}
		x[k] = complex(re, im)
	}
	return x
}

func cabs1(c complex128) float64 {
	return math.Max(math.Abs(real(c)), math.Abs(imag(c))) // NaN if either part is NaN
}

// maxDiff returns the largest componentwise |got-want| (NaN if any NaN).
func maxDiff(got, want []complex128) (float64, int) {
	worst, at := 0.0, -1
	for i := range want {
		if i >= len(got) {
			break
		}
		d := cabs1(got[i] - want[i])
		if d != d {
			return d, i
		}
		if d > worst {
			worst, at = d, i
		}
	}
	return worst, at
}

func ratioClass(r float64) string {
	switch {
	case r != r:
		return "NaN"
	case r == 0:
		return "exact"
	case r <= 1.0/64:
		return "<=1/64"
	case r <= 1.0/8:
		return "<=1/8"
	case r <= 1:
		return "<=1"
	default:
		return fmt.Sprintf(">1(%.3g)", r)
	}
}
