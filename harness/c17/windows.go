package main

// Groups "window" and "doc-literal".

import (
	"fmt"
	"math"
	"os"
	"path/filepath"
	"regexp"
	"strconv"
	"strings"

	"gonum.org/v1/gonum/dsp/fourier"
	"gonum.org/v1/gonum/dsp/window"
	"gonum.org/v1/gonum/internal/verif/vlib"
)

const winTol = 1e-13

// cosm returns cos(2*pi*m*k/(N-1)) with exact integer reduction (N >= 2).
func cosm(m, k, N int) float64 { c, _ := cosSin2pi(m*k, N-1); return c }

// cosineSum is the closed form a0 - a1 c1 + a2 c2 - a3 c3 + a4 c4.
func cosineSum(a []float64) func(k, N int) float64 {
	return func(k, N int) float64 {
		w := 0.0
		sign := 1.0
		for m, am := range a {
			if m == 0 {
				w = am
			} else {
				w += sign * am * cosm(m, k, N)
			}
			sign = -sign
		}
		return w
	}
}

type win struct {
	name  string
	re    func([]float64) []float64
	cx    func([]complex128) []complex128
	w     func(k, N int) float64 // closed form from the documentation
	coef  []float64              // cosine-sum coefficients (for the coherent-gain sum), or nil
	tukey float64                // Alpha if this is a Tukey window with 0 < Alpha < 1, else 0
}

var (
	hammingCoef         = []float64{0.54, 0.46}
	blackmanCoef        = []float64{0.42, 0.5, 0.08}
	blackmanHarrisCoef  = []float64{0.35875, 0.48829, 0.14128, 0.01168}
	nuttallCoef         = []float64{0.355768, 0.487396, 0.144232, 0.012604}
	blackmanNuttallCoef = []float64{0.3635819, 0.4891775, 0.1365995, 0.0106411}
	flatTopCoef         = []float64{0.21557895, 0.41663158, 0.277263158, 0.083578947, 0.006947368}
)

func tukeyRef(alpha float64) func(k, N int) float64 {
	// Taper-fraction convention (the one of the cited Wikipedia article, of
	// the documented leakage table and of the Alpha<=0 / Alpha>=1 limits):
	// w[k] = 0.5*(1 - cos(2 pi k/(alpha (N-1)))) for k <= alpha (N-1)/2,
	// mirrored at the far end, 1 in between.
	return func(k, N int) float64 {
		switch {
		case alpha <= 0:
			return 1
		case alpha >= 1:
			return 0.5 * (1 - cosm(1, k, N))
		}
		kk := k
		if N-1-k < kk {
			kk = N - 1 - k
		}
		aL := alpha * float64(N-1)
		if float64(kk) <= 0.5*aL {
			return 0.5 * (1 - math.Cos(2*math.Pi*float64(kk)/aL))
		}
		return 1
	}
}

func gaussRef(sigma float64) func(k, N int) float64 {
	return func(k, N int) float64 {
		M := float64(N-1) / 2
		z := (float64(k) - M) / (sigma * M)
		return math.Exp(-0.5 * z * z)
	}
}

func windows() []win {
	ws := []win{
		{name: "Rectangular", re: window.Rectangular, cx: window.RectangularComplex, w: func(k, N int) float64 { return 1 }, coef: []float64{1}},
		{name: "Sine", re: window.Sine, cx: window.SineComplex, w: func(k, N int) float64 { _, s := cosSin2pi(k, 2*(N-1)); return s }},
		{name: "Lanczos", re: window.Lanczos, cx: window.LanczosComplex, w: func(k, N int) float64 {
			num := 2*k - (N - 1) // x = num/(N-1)
			if num == 0 {
				return 1
			}
			_, s := cosSin2pi(num, 2*(N-1))
			return s / (math.Pi * float64(num) / float64(N-1))
		}},
		{name: "Triangular", re: window.Triangular, cx: window.TriangularComplex, w: func(k, N int) float64 {
			return 1 - math.Abs(float64(2*k-(N-1)))/float64(N-1)
		}},
		{name: "Hann", re: window.Hann, cx: window.HannComplex, w: cosineSum([]float64{0.5, 0.5}), coef: []float64{0.5, 0.5}},
		{name: "BartlettHann", re: window.BartlettHann, cx: window.BartlettHannComplex, w: func(k, N int) float64 {
			return 0.62 - 0.48*math.Abs(float64(k)/float64(N-1)-0.5) - 0.38*cosm(1, k, N)
		}},
		// Documentation says 25/46 and 21/46; the implementation (and the
		// package's own test vectors) use the rounded classical 0.54/0.46. The
		// documented literal is checked in group doc-literal.
		{name: "Hamming", re: window.Hamming, cx: window.HammingComplex, w: cosineSum(hammingCoef), coef: hammingCoef},
		{name: "Blackman", re: window.Blackman, cx: window.BlackmanComplex, w: cosineSum(blackmanCoef), coef: blackmanCoef},
		{name: "BlackmanHarris", re: window.BlackmanHarris, cx: window.BlackmanHarrisComplex, w: cosineSum(blackmanHarrisCoef), coef: blackmanHarrisCoef},
		{name: "Nuttall", re: window.Nuttall, cx: window.NuttallComplex, w: cosineSum(nuttallCoef), coef: nuttallCoef},
		{name: "BlackmanNuttall", re: window.BlackmanNuttall, cx: window.BlackmanNuttallComplex, w: cosineSum(blackmanNuttallCoef), coef: blackmanNuttallCoef},
		// Documentation prints the last term as cos(4 pi k/(N-1)) (a typo for
		// 8 pi); literal checked in group doc-literal.
		{name: "FlatTop", re: window.FlatTop, cx: window.FlatTopComplex, w: cosineSum(flatTopCoef), coef: flatTopCoef},
	}
	for _, s := range []float64{0.3, 0.5, 1.2, 2} {
		gw := window.Gaussian{Sigma: s}
		ws = append(ws, win{name: fmt.Sprintf("Gaussian(%v)", s), re: gw.Transform, cx: gw.TransformComplex, w: gaussRef(s)})
	}
	for _, a := range []float64{-0.5, 0, 0.1, 0.3, 0.5, 0.7, 0.9, 1, 1.5} {
		tw := window.Tukey{Alpha: a}
		w := win{name: fmt.Sprintf("Tukey(%v)", a), re: tw.Transform, cx: tw.TransformComplex, w: tukeyRef(a)}
		if a > 0 && a < 1 {
			w.tukey = a
		}
		ws = append(ws, w)
	}
	return ws
}

func winInput(N int) ([]float64, []complex128) {
	r := make([]float64, N)
	c := make([]complex128, N)
	for i := range r {
		r[i] = float64((i*3+1)%7 + 1)               // 1..7, never 0, not symmetric
		c[i] = complex(r[i], -float64((i*5+2)%9+1)) // different imaginary part
	}
	return r, c
}

func genWindow(g *vlib.G) {
	maxN := vlib.Pick(g, 64, 128)
	// every N up to maxN, then sampled long lengths up to 10^4
	Ns := append(vlib.Ints(1, maxN), 1000, 1024, 1025, 4096, 4097, 9973, 10000)
	for _, w := range windows() {
		for _, N := range Ns {
			w, N := w, N
			g.Case(fmt.Sprintf("%s N=%d", w.name, N), func(t *vlib.T) { runWindow(t, w, N) })
		}
	}
	for _, w := range windows() {
		if w.tukey != 0 {
			w := w
			g.Case(fmt.Sprintf("%s complex far half N=2..%d", w.name, maxN), func(t *vlib.T) { runTukeyFarHalf(t, w, maxN) })
		}
	}
	for N := 0; N <= vlib.Pick(g, 32, 64); N++ {
		N := N
		g.Case(fmt.Sprintf("Values N=%d", N), func(t *vlib.T) { runValues(t, N) })
	}
}

// runTukeyFarHalf checks result[k] = w[k]*seq[k] for the far half
// (k > N-1-k) of Tukey.TransformComplex on non-constant input, for every N.
// It is one case per Alpha because of a known defect: the implementation
// stores the windowed NEAR element seq[N-1-k] into slot k instead of
// windowing seq[k] (invisible with the constant input of the package's tests).
func runTukeyFarHalf(t *vlib.T, w win, maxN int) {
	var checked int64
	for N := 2; N <= maxN && !t.Failed(); N++ {
		_, xc := winInput(N)
		xc0 := append([]complex128(nil), xc...)
		gc := w.cx(xc)
		for k := N - 1; k > N-1-k; k-- {
			wk := w.w(k, N)
			want := complex(wk*real(xc0[k]), wk*imag(xc0[k]))
			checked++
			if d := cabs1(gc[k] - want); !(d <= winTol*cabs1(xc0[k])) {
				mir := complex(wk*real(xc0[N-1-k]), wk*imag(xc0[N-1-k]))
				if cabs1(gc[k]-mir) <= winTol*cabs1(xc0[N-1-k]) {
					t.FailClass("tukey-complex-mirror-overwrite",
						"%s N=%d TransformComplex: result[%d]=%v is w*seq[%d] (=%v), want w*seq[%d]=%v", w.name, N, k, gc[k], N-1-k, mir, k, want)
				} else {
					t.Failf("%s N=%d TransformComplex: result[%d]=%v want w*x=%v (diff %.3g)", w.name, N, k, gc[k], want, d)
				}
				break
			}
		}
	}
	t.Count("tukey_far_half_entries", checked)
	t.Nontrivial()
	t.Outcome("tukey complex far half")
}

func runWindow(t *vlib.T, w win, N int) {
	ones := make([]float64, N)
	for i := range ones {
		ones[i] = 1
	}
	wv := w.re(append([]float64(nil), ones...)) // the weights as produced by the implementation
	if N == 1 {
		// Don't-care zone: every documented formula except Rectangular is 0/0
		// for N = 1 (k/(N-1)). Only "no panic, in place" is required.
		xr, xc := winInput(1)
		if got := w.re(xr); !sameBackingF(got, xr) {
			t.Failf("N=1: result is not the argument slice")
		}
		if got := w.cx(xc); !sameBackingC(got, xc) {
			t.Failf("N=1: complex result is not the argument slice")
		}
		if w.name == "Rectangular" || w.name == "Tukey(0)" || w.name == "Tukey(-0.5)" {
			if wv[0] != 1 {
				t.Failf("N=1: weight %v want 1", wv[0])
			}
		}
		t.Outcome(fmt.Sprintf("N=1 weight=%v (formula undefined)", wv[0]))
		return
	}
	ref := make([]float64, N)
	for k := range ref {
		ref[k] = w.w(k, N)
	}
	// closed form, on unit input
	for k := range ref {
		if d := math.Abs(wv[k] - ref[k]); !(d <= winTol) {
			t.Failf("weight[%d]=%v, closed form %v (diff %.3g)", k, wv[k], ref[k], d)
			break
		}
	}
	// symmetry
	for k := 0; k < N/2; k++ {
		if d := math.Abs(wv[k] - wv[N-1-k]); !(d <= winTol) {
			t.Failf("weights not symmetric: w[%d]=%v w[%d]=%v", k, wv[k], N-1-k, wv[N-1-k])
			break
		}
	}
	// sum of the weights (coherent gain * N) for the cosine-sum family:
	// sum_k cos(2 pi m k/(N-1)), k = 0..N-1, is 1 unless (N-1) divides m, then N.
	if w.coef != nil {
		want, sign := 0.0, 1.0
		for m, am := range w.coef {
			s := 1.0
			if m == 0 || m%(N-1) == 0 {
				s = float64(N)
			}
			if m == 0 {
				want = am * s
			} else {
				want += sign * am * s
			}
			sign = -sign
		}
		var got ksum
		for _, v := range wv {
			got.add(v)
		}
		if d := math.Abs(got.val() - want); !(d <= winTol*float64(N)) {
			t.Failf("sum of weights %v, closed form %v (diff %.3g)", got.val(), want, d)
		}
	}
	// non-constant real input, in place
	xr, xc := winInput(N)
	xr0 := append([]float64(nil), xr...)
	xc0 := append([]complex128(nil), xc...)
	gr := w.re(xr)
	if !sameBackingF(gr, xr) {
		t.Failf("real: result is not the argument slice (documented to modify seq in place and return it)")
	}
	for k := range gr {
		want := ref[k] * xr0[k]
		if d := math.Abs(gr[k] - want); !(d <= winTol*math.Abs(xr0[k])) {
			t.Failf("real: result[%d]=%v want w*x=%v*%v=%v (diff %.3g)", k, gr[k], ref[k], xr0[k], want, d)
			break
		}
	}
	// complex input, in place
	gc := w.cx(xc)
	if !sameBackingC(gc, xc) {
		t.Failf("complex: result is not the argument slice (documented to modify seq in place and return it)")
	}
	for k := range gc {
		if w.tukey != 0 && k > N-1-k {
			// the far half of Tukey.TransformComplex is checked for all N in one
			// case per Alpha ("... complex far half"), see runTukeyFarHalf.
			continue
		}
		want := complex(ref[k]*real(xc0[k]), ref[k]*imag(xc0[k]))
		if d := cabs1(gc[k] - want); !(d <= winTol*cabs1(xc0[k])) {
			t.Failf("complex: result[%d]=%v want w*x=%v (diff %.3g)", k, gc[k], want, d)
			break
		}
	}
	// real and complex variants agree on the real part
	for k := range gc {
		if d := math.Abs(real(gc[k]) - gr[k]); !(d <= 4*eps*math.Abs(gr[k])) && !(w.tukey != 0 && k > N-1-k) {
			t.Failf("real and complex variants differ at [%d]: %v vs %v", k, gr[k], real(gc[k]))
			break
		}
	}
	t.Nontrivial()
	zeroEnds := math.Abs(wv[0]) < 1e-15
	t.Outcome(fmt.Sprintf("%s zero-endpoints=%v", w.name, zeroEnds))
}

func runValues(t *vlib.T, N int) {
	for _, w := range windows()[:12] { // the non-parametric menu
		v := window.NewValues(w.re, N)
		ones := make([]float64, N)
		for i := range ones {
			ones[i] = 1
		}
		direct := w.re(ones)
		if i, ok := vlib.Same64([]float64(v), direct); !ok {
			t.Failf("NewValues(%s,%d)[%d]=%v, window(ones)[%d]=%v", w.name, N, i, v[i], i, direct[i])
		}
		xr, xc := winInput(N)
		xr0 := append([]float64(nil), xr...)
		xc0 := append([]complex128(nil), xc...)
		wantR := make([]float64, N)
		wantC := make([]complex128, N)
		for i := range wantR {
			wantR[i] = v[i] * xr0[i]
			wantC[i] = complex(v[i]*real(xc0[i]), v[i]*imag(xc0[i]))
		}
		gr := v.Transform(xr)
		if !sameBackingF(gr, xr) {
			t.Failf("Values.Transform: result is not the argument slice")
		}
		if i, ok := sameVals(gr, wantR); !ok {
			t.Failf("Values(%s).Transform[%d]=%v want %v", w.name, i, gr[i], wantR[i])
		}
		gc := v.TransformComplex(xc)
		if !sameBackingC(gc, xc) {
			t.Failf("Values.TransformComplex: result is not the argument slice")
		}
		if i, ok := sameValsC(gc, wantC); !ok {
			t.Failf("Values(%s).TransformComplex[%d]=%v want %v", w.name, i, gc[i], wantC[i])
		}
		// TransformTo: dst poisoned, src untouched
		dr := make([]float64, N)
		vlib.FillPoison64(dr)
		src := append([]float64(nil), xr0...)
		v.TransformTo(dr, src)
		if i, ok := sameVals(dr, wantR); !ok {
			t.Failf("Values(%s).TransformTo dst[%d]=%v want %v", w.name, i, dr[i], wantR[i])
		}
		if i, ok := vlib.Same64(src, xr0); !ok {
			t.Failf("Values.TransformTo modified src[%d]", i)
		}
		dc := make([]complex128, N)
		vlib.FillPoisonC128(dc)
		srcc := append([]complex128(nil), xc0...)
		v.TransformComplexTo(dc, srcc)
		if i, ok := sameValsC(dc, wantC); !ok {
			t.Failf("Values(%s).TransformComplexTo dst[%d]=%v want %v", w.name, i, dc[i], wantC[i])
		}
		if i, ok := vlib.SameC128(srcc, xc0); !ok {
			t.Failf("Values.TransformComplexTo modified src[%d]", i)
		}
		// in-place use of TransformTo (dst == src) gives the same values
		src2 := append([]float64(nil), xr0...)
		v.TransformTo(src2, src2)
		if i, ok := sameVals(src2, wantR); !ok {
			t.Failf("Values(%s).TransformTo(x,x)[%d]=%v want %v", w.name, i, src2[i], wantR[i])
		}
		// length mismatch panics (documented: the lengths must match)
		if N >= 1 {
			short := make([]float64, N-1)
			shortc := make([]complex128, N-1)
			for what, f := range map[string]func(){
				"Transform(short)":              func() { v.Transform(short) },
				"TransformComplex(short)":       func() { v.TransformComplex(shortc) },
				"TransformTo(short, ok)":        func() { v.TransformTo(short, make([]float64, N)) },
				"TransformTo(ok, short)":        func() { v.TransformTo(make([]float64, N), short) },
				"TransformComplexTo(short, ok)": func() { v.TransformComplexTo(shortc, make([]complex128, N)) },
				"TransformComplexTo(ok, short)": func() { v.TransformComplexTo(make([]complex128, N), shortc) },
			} {
				if _, ok := panics(f); !ok {
					t.Failf("Values(len %d).%s did not panic", N, what)
				}
			}
		}
	}
	// nil Values: documented no-op
	var nv window.Values
	xr, xc := winInput(N)
	xr0 := append([]float64(nil), xr...)
	xc0 := append([]complex128(nil), xc...)
	if got := nv.Transform(xr); !sameBackingF(got, xr) {
		t.Failf("nil Values.Transform does not return seq")
	}
	if got := nv.TransformComplex(xc); !sameBackingC(got, xc) {
		t.Failf("nil Values.TransformComplex does not return seq")
	}
	dr := make([]float64, N+2)
	vlib.FillPoison64(dr)
	dr0 := append([]float64(nil), dr...)
	nv.TransformTo(dr, xr)
	dc := make([]complex128, N+2)
	vlib.FillPoisonC128(dc)
	dc0 := append([]complex128(nil), dc...)
	nv.TransformComplexTo(dc, xc)
	if _, ok := vlib.Same64(xr, xr0); !ok {
		t.Failf("nil Values modified a real sequence")
	}
	if _, ok := vlib.SameC128(xc, xc0); !ok {
		t.Failf("nil Values modified a complex sequence")
	}
	if _, ok := vlib.Same64(dr, dr0); !ok {
		t.Failf("nil Values.TransformTo wrote to dst")
	}
	if _, ok := vlib.SameC128(dc, dc0); !ok {
		t.Failf("nil Values.TransformComplexTo wrote to dst")
	}
	if N >= 2 {
		t.Nontrivial()
	}
	t.Outcome("values")
}

// sameVals compares by value (NaN equals NaN; N=1 weights are NaN).
func sameVals(a, b []float64) (int, bool) {
	for i := range b {
		if i >= len(a) || !(a[i] == b[i] || (a[i] != a[i] && b[i] != b[i])) {
			return i, false
		}
	}
	return 0, len(a) == len(b)
}

func sameValsC(a, b []complex128) (int, bool) {
	for i := range b {
		if i >= len(a) {
			return i, false
		}
		if _, ok := sameVals([]float64{real(a[i]), imag(a[i])}, []float64{real(b[i]), imag(b[i])}); !ok {
			return i, false
		}
	}
	return 0, len(a) == len(b)
}

// ---- doc-literal: statements of the exported documentation compared with
// behaviour. The documentation is NOT hard-coded: the doc comments of the
// package source being checked (see docSrc) are parsed for the relevant statement, and behaviour is compared with what
// the comment says NOW. A statement the harness cannot interpret is recorded
// as outcome "unparsed" and is not a violation. Each case has its own
// FailClass.

// docComment returns the comment block immediately preceding the first line
// of src that starts with decl, with the "//" markers removed.
func docComment(src, decl string) string {
	lines := strings.Split(src, "\n")
	for i, l := range lines {
		if !strings.HasPrefix(l, decl) {
			continue
		}
		j := i
		for j > 0 && strings.HasPrefix(lines[j-1], "//") {
			j--
		}
		var b strings.Builder
		for _, c := range lines[j:i] {
			b.WriteString(strings.TrimPrefix(strings.TrimPrefix(c, "//"), " "))
			b.WriteString("\n")
		}
		return b.String()
	}
	return ""
}

// docSrc returns the source text of a gonum file as the check should see it:
// the file as it is in the tree being checked, read at run time (VERIF_REPO,
// default /repo; the build cache does not reliably re-embed a file reached
// through an overlay-injected go:embed, so the embedded text is only a fall
// back), overridden by the patched copy that the driver materialises under
// <work>/patched/<rel> for `verif check --patch` (<work> is the directory of
// VERIF_OUT).
func docSrc(rel, embedded string) string {
	if out := os.Getenv("VERIF_OUT"); out != "" {
		if b, err := os.ReadFile(filepath.Join(filepath.Dir(out), "patched", rel)); err == nil {
			return string(b)
		}
	}
	root := os.Getenv("VERIF_REPO")
	if root == "" {
		root = "/repo"
	}
	if b, err := os.ReadFile(filepath.Join(root, rel)); err == nil {
		return string(b)
	}
	return embedded
}

// oneLine collapses all white space (comments wrap lines).
func oneLine(s string) string { return strings.Join(strings.Fields(s), " ") }

// parseNum parses "0.54" or "25/46".
func parseNum(s string) (float64, bool) {
	if a, b, ok := strings.Cut(s, "/"); ok {
		x, e1 := strconv.ParseFloat(a, 64)
		y, e2 := strconv.ParseFloat(b, 64)
		return x / y, e1 == nil && e2 == nil && y != 0
	}
	x, err := strconv.ParseFloat(s, 64)
	return x, err == nil
}

var (
	reDSTScale   = regexp.MustCompile(`another call to Transform will multiply the input sequence by 2\*\(n([-+])1\)`)
	reSeqDstLen  = regexp.MustCompile(`the length of dst does not equal (the length of coeff|t\.Len\(\)),? Sequence will panic`)
	reHamming    = regexp.MustCompile(`w\[k\] = ([0-9./]+) ?- ?([0-9./]+) ?\* ?cos\(2\*π\*k/\(N-1\)\)`)
	reFlatTopA4  = regexp.MustCompile(`0\.006947368\*cos\((\d+)\*π\*k/\(N-1\)\)`)
	reTukeyTaper = regexp.MustCompile(`w\[k\] = 0\.5 ?\* ?\(1 ?\+ ?cos\(π ?\* ?\(\|k ?- ?M\| ?- ?([^)]*\)?[^)]*)\) ?/ ?\(([^,]*)\)\)\),? \|k ?- ?M\| ?≥ ?(.*?) = 1, \|k ?- ?M\| ?< ?(\S+)`)
)

// tukeyFlat interprets a documented threshold expression as the flat
// fraction f in "|k-M| >= f*M": "αM" -> alpha, "(1-α)M" / "(1-α)*M" -> 1-alpha.
func tukeyFlat(expr string, alpha float64) (float64, bool) {
	e := strings.NewReplacer(" ", "", "*", "", "·", "").Replace(expr)
	switch e {
	case "αM":
		return alpha, true
	case "(1-α)M", "(1−α)M":
		return 1 - alpha, true
	}
	return 0, false
}

func genDocLiteral(g *vlib.G) {
	g.Case("DST.Transform twice: documented scale", func(t *vlib.T) {
		doc := oneLine(docComment(docSrc("dsp/fourier/sincos.go", fourier.VerifSrcSincos), "func (t *DST) Transform("))
		m := reDSTScale.FindStringSubmatch(doc)
		if m == nil {
			t.Outcome("unparsed")
			t.Detail(map[string]any{"doc": doc})
			return
		}
		sign := 1
		if m[1] == "-" {
			sign = -1
		}
		for _, n := range []int{1, 2, 3, 5, 8, 16} {
			d := fourier.NewDST(n)
			x := make([]float64, n)
			x[n/2] = 1
			y := d.Transform(nil, d.Transform(nil, x))
			docScale := float64(2 * (n + sign))
			if math.Abs(y[n/2]-docScale) > 1e-9 {
				t.FailClass("doc-dst-scale", "DST n=%d: Transform(Transform(e))=%v*e; documentation says 2*(n%s1)=%v (FFTPACK sint: 2*(n+1)=%v)", n, y[n/2], m[1], docScale, 2*(n+1))
				break
			}
		}
		t.Nontrivial()
		t.Outcome("doc says 2*(n" + m[1] + "1)")
	})
	g.Case("FFT.Sequence: documented dst length", func(t *vlib.T) {
		doc := oneLine(docComment(docSrc("dsp/fourier/fourier.go", fourier.VerifSrcFourier), "func (t *FFT) Sequence("))
		m := reSeqDstLen.FindStringSubmatch(doc)
		if m == nil {
			t.Outcome("unparsed")
			t.Detail(map[string]any{"doc": doc})
			return
		}
		for _, n := range []int{3, 8, 9} {
			f := fourier.NewFFT(n)
			coeff := make([]complex128, n/2+1)
			want := n // t.Len()
			if m[1] == "the length of coeff" {
				want = len(coeff)
			}
			for _, l := range []int{len(coeff), n} {
				_, p := panics(func() { f.Sequence(make([]float64, l), coeff) })
				if p != (l != want) {
					t.FailClass("doc-fft-sequence-dst-length", "FFT.Sequence n=%d: dst of length %d panics=%v; documentation says dst must have %s = %d", n, l, p, m[1], want)
					t.Outcome("doc says " + m[1])
					return
				}
			}
		}
		t.Nontrivial()
		t.Outcome("doc says " + m[1])
	})
	for _, v := range []struct {
		name, decl string
		src        string
		f          func(N int) []float64
	}{
		{"Hamming", "func Hamming(", docSrc("dsp/window/window.go", window.VerifSrcWindow), func(N int) []float64 { return window.Hamming(onesF(N)) }},
		{"HammingComplex", "func HammingComplex(", docSrc("dsp/window/window_complex.go", window.VerifSrcWindowComplex), func(N int) []float64 { return reals(window.HammingComplex(cplx(onesF(N)))) }},
	} {
		v := v
		g.Case(v.name+": documented coefficients", func(t *vlib.T) {
			doc := oneLine(docComment(v.src, v.decl))
			m := reHamming.FindStringSubmatch(doc)
			if m == nil {
				t.Outcome("unparsed")
				t.Detail(map[string]any{"doc": doc})
				return
			}
			a0, ok0 := parseNum(m[1])
			a1, ok1 := parseNum(m[2])
			if !ok0 || !ok1 {
				t.Outcome("unparsed")
				return
			}
			N := 11
			w := v.f(N)
			for k := 0; k < N; k++ {
				docv := a0 - a1*cosm(1, k, N)
				if math.Abs(w[k]-docv) > winTol {
					t.FailClass("doc-window-hamming-coefficients", "%s N=%d: w[%d]=%v; documented %s - %s*cos(2 pi k/(N-1)) = %v", v.name, N, k, w[k], m[1], m[2], docv)
					break
				}
			}
			t.Nontrivial()
			t.Outcome("doc says " + m[1] + ", " + m[2])
		})
	}
	for _, v := range []struct {
		name, decl string
		src        string
		f          func(N int) []float64
	}{
		{"FlatTop", "func FlatTop(", docSrc("dsp/window/window.go", window.VerifSrcWindow), func(N int) []float64 { return window.FlatTop(onesF(N)) }},
		{"FlatTopComplex", "func FlatTopComplex(", docSrc("dsp/window/window_complex.go", window.VerifSrcWindowComplex), func(N int) []float64 { return reals(window.FlatTopComplex(cplx(onesF(N)))) }},
	} {
		v := v
		g.Case(v.name+": documented last term", func(t *vlib.T) {
			doc := oneLine(docComment(v.src, v.decl))
			m := reFlatTopA4.FindStringSubmatch(doc)
			if m == nil {
				t.Outcome("unparsed")
				t.Detail(map[string]any{"doc": doc})
				return
			}
			mult, err := strconv.Atoi(m[1])
			if err != nil || mult%2 != 0 {
				t.Outcome("unparsed")
				return
			}
			N := 11
			w := v.f(N)
			a := flatTopCoef
			for k := 0; k < N; k++ {
				docv := a[0] - a[1]*cosm(1, k, N) + a[2]*cosm(2, k, N) - a[3]*cosm(3, k, N) + a[4]*cosm(mult/2, k, N)
				if math.Abs(w[k]-docv) > winTol {
					t.FailClass("doc-window-flattop-a4-term", "%s N=%d: w[%d]=%v; documented formula (last term cos(%d pi k/(N-1))) gives %v; implementation uses cos(8 pi k/(N-1))", v.name, N, k, w[k], mult, docv)
					break
				}
			}
			t.Nontrivial()
			t.Outcome("doc says cos(" + m[1] + " pi k/(N-1))")
		})
	}
	g.Case("Tukey: documented formula", func(t *vlib.T) {
		// doc: w[k] = 0.5*(1+cos(pi*(|k-M| - A)/(B))), |k-M| >= C ; = 1, |k-M| < D
		doc := oneLine(docComment(docSrc("dsp/window/window_parametric.go", window.VerifSrcWindowParametric), "type Tukey struct"))
		m := reTukeyTaper.FindStringSubmatch(doc)
		if m == nil {
			t.Outcome("unparsed")
			t.Detail(map[string]any{"doc": doc})
			return
		}
		for _, alpha := range []float64{0.3, 0.7} {
			fA, okA := tukeyFlat(m[1], alpha)
			fC, okC := tukeyFlat(m[3], alpha)
			fD, okD := tukeyFlat(m[4], alpha)
			// denominator B: "(1-α) * M" -> (1-alpha)*M ; "α*M" / "αM" -> alpha*M
			den := strings.NewReplacer(" ", "", "*", "").Replace(m[2])
			var fB float64
			switch den {
			case "(1-α)M":
				fB = 1 - alpha
			case "αM":
				fB = alpha
			default:
				t.Outcome("unparsed")
				t.Detail(map[string]any{"doc": doc, "den": den})
				return
			}
			if !okA || !okC || !okD {
				t.Outcome("unparsed")
				t.Detail(map[string]any{"doc": doc, "groups": m[1:]})
				return
			}
			N := 21
			w := window.Tukey{Alpha: alpha}.Transform(onesF(N))
			M := float64(N-1) / 2
			for k := 0; k < N; k++ {
				d := math.Abs(float64(k) - M)
				docv := math.NaN()
				if d >= fC*M {
					docv = 0.5 * (1 + math.Cos(math.Pi*(d-fA*M)/(fB*M)))
				}
				if d < fD*M {
					docv = 1
				}
				if !(math.Abs(w[k]-docv) <= 1e-12) {
					t.FailClass("doc-window-tukey-alpha", "Tukey(%v) N=%d: w[%d]=%v; the documented formula gives %v (in the implementation, the leakage table and the cited references Alpha is the tapered fraction)", alpha, N, k, w[k], docv)
					return
				}
			}
		}
		t.Nontrivial()
		t.Outcome("doc threshold " + m[3])
	})
}

func onesF(n int) []float64 {
	x := make([]float64, n)
	for i := range x {
		x[i] = 1
	}
	return x
}
