package main

// Group "long": sampled long lengths up to 10^4 (radix functions 2^14),
// chosen by structure so that every length-dependent regime of every
// transform family is entered: a prime just above each power-of-two period
// (recurrence lengths, table sizes), products and squares of primes beyond
// any small-divisor table, prime powers, highly composite lengths, 2p/3p,
// and lengths just above k*1024. For each (transform, n): a handful of
// impulse columns against the defining column, a handful of "tones" (the
// inverse transform's defining column as dense input: the result must be
// scale*e_k, an O(n) oracle for a dense input), in thorough additionally the
// dense integer vector against the O(n^2) defining sum; Hilbert on cos/sin
// tones; Reset between long and short lengths bit for bit.

import (
	"fmt"
	"math"
	"sort"

	"gonum.org/v1/gonum/dsp/transform"
	"gonum.org/v1/gonum/internal/verif/vlib"
)

// longMenu is the menu of underlying FFT lengths m. DCT is additionally run
// at n = m+1 and DST at n = m-1 so that their internal real FFT has length m.
//
// quick (thin, one representative per class):
//
//	1025=5^2*41, 2049=3*683, 4097=17*241, 5001=3*1667  just above k*1024 / thresholds
//	1031, 2053, 4099                                    prime just above 2^10..2^12
//	3217, 9973                                          prime; largest prime below 10^4 (> 2^13)
//	4106=2*2053                                         2p with p above 2^11
//	2209=47^2, 2491=47*53, 4418=2*47^2, 9409=97^2, 9797=97*101  two large prime factors
//	3125=5^5, 6561=3^8, 2401=7^4, 4096, 8192, 10000=2^4*5^4     prime powers
//	7429=17*19*23, 9240=2^3*3*5*7*11, 6006=2*3*7*11*13           many distinct odd primes
var longQuick = []int{1025, 1031, 2049, 2053, 2209, 2401, 2491, 3125, 3217, 4096, 4097, 4099, 4106, 4418,
	5001, 6006, 6561, 7429, 8192, 9240, 9409, 9797, 9973, 10000}

// thorough adds: the prime just above every k*1024 (k=1..9), the prime just
// below 2^11..2^13, more squares/products of primes >= 47, 2p/3p/4p, and an
// arithmetic sample 1009+613*i.
var longThoroughExtra = []int{6159, 8209, 2039, 3079, 4093, 5147, 6151, 7177, 8191, 9221,
	2809, 3127, 3481, 3599, 5041, 5183, 6241, 6889, 7921, 8633, 4982, 8836, 7473,
	8198, 8212, 2062, 3093,
	1009, 1622, 2235, 2848, 3461, 4074, 4687, 5300, 5913, 6526, 7139, 7752, 8365, 8978, 9591}

func longLengths(g *vlib.G, o *op) []int {
	if o.pow != 0 {
		// radix fast paths: powers beyond the range of group "columns"
		var ns []int
		for n := 2048; n <= 16384; n *= 2 {
			if isPow(n, o.pow) {
				ns = append(ns, n)
			}
		}
		return ns
	}
	ms := append([]int(nil), longQuick...)
	if g.Thorough() {
		ms = append(ms, longThoroughExtra...)
	}
	set := map[int]bool{}
	for _, m := range ms {
		set[m] = true
		switch o.name {
		case "DCT.Transform":
			set[m+1] = true
		case "DST.Transform":
			set[m-1] = true
		}
	}
	var ns []int
	for n := range set {
		ns = append(ns, n)
	}
	sort.Ints(ns)
	return ns
}

// tonePartner gives, for each op, the op whose defining columns are the
// "tones" of this op: op(partner.col(k)) = scale * u*e_k.
var tonePartner = map[string]struct {
	inv   string
	scale func(n int) float64
}{
	"FFT.Coefficients":      {"FFT.Sequence", func(n int) float64 { return float64(n) }},
	"FFT.Sequence":          {"FFT.Coefficients", func(n int) float64 { return float64(n) }},
	"CmplxFFT.Coefficients": {"CmplxFFT.Sequence", func(n int) float64 { return float64(n) }},
	"CmplxFFT.Sequence":     {"CmplxFFT.Coefficients", func(n int) float64 { return float64(n) }},
	"DCT.Transform":         {"DCT.Transform", func(n int) float64 { return float64(2 * (n - 1)) }},
	"DST.Transform":         {"DST.Transform", func(n int) float64 { return float64(2 * (n + 1)) }},
	"QW.CosCoefficients":    {"QW.CosSequence", func(n int) float64 { return float64(4 * n) }},
	"QW.CosSequence":        {"QW.CosCoefficients", func(n int) float64 { return float64(4 * n) }},
	"QW.SinCoefficients":    {"QW.SinSequence", func(n int) float64 { return float64(4 * n) }},
	"QW.SinSequence":        {"QW.SinCoefficients", func(n int) float64 { return float64(4 * n) }},
	"CoefficientsRadix2":    {"SequenceRadix2", func(n int) float64 { return float64(n) }},
	"SequenceRadix2":        {"CoefficientsRadix2", func(n int) float64 { return float64(n) }},
	"CoefficientsRadix4":    {"SequenceRadix4", func(n int) float64 { return float64(n) }},
	"SequenceRadix4":        {"CoefficientsRadix4", func(n int) float64 { return float64(n) }},
}

// fftLen is the length of the FFT underlying op at length n.
func fftLen(o *op, n int) int {
	switch o.name {
	case "DCT.Transform":
		return n - 1
	case "DST.Transform":
		return n + 1
	}
	return n
}

// weight classes by the cost of one transform (general-radix passes cost
// about n*p operations for a prime factor p): 0 light, 1 heavy (> 5*10^6),
// 2 very heavy (> 5*10^7). Heavier cases use fewer input vectors.
func weight(o *op, n int) int {
	if o.pow != 0 {
		return 0
	}
	m := fftLen(o, n)
	c := float64(m) * float64(bigPrimeSum(m))
	switch {
	case c > 5e7:
		return 2
	case c > 5e6:
		return 1
	}
	return 0
}

// pickIdx returns the impulse (or tone) positions for a vector of length n.
func pickIdx(n, wt int, tones bool) []int {
	var c []int
	switch {
	case wt == 2 && tones:
		c = []int{n / 3}
	case wt == 2:
		c = []int{n - 2}
	case wt == 1 && tones:
		c = []int{n / 3}
	case wt == 1:
		c = []int{1, n - 2}
	case tones:
		c = []int{0, 1, n / 3, n - 1}
	default:
		c = []int{0, 1, 2, n / 3, n / 2, 1024, 1025, n - 2, n - 1}
	}
	seen := map[int]bool{}
	var out []int
	for _, k := range c {
		if k >= 0 && k < n && !seen[k] {
			seen[k] = true
			out = append(out, k)
		}
	}
	return out
}

func genLong(g *vlib.G) {
	for _, o := range ops {
		if o.name == "Hilbert.AnalyticSignal" {
			continue // no O(n) column oracle; see hilbert-tones below
		}
		for _, n := range longLengths(g, o) {
			o, n := o, n
			thorough := g.Thorough()
			g.Case(fmt.Sprintf("%s n=%d", o.name, n), func(t *vlib.T) { runLong(t, o, n, thorough) })
			if g.Stopped() {
				return
			}
		}
	}
	ho := opByName("Hilbert.AnalyticSignal")
	for _, n := range longLengths(g, ho) {
		n := n
		g.Case(fmt.Sprintf("hilbert-tones n=%d", n), func(t *vlib.T) { runHilbertTones(t, n) })
	}
	genLongReset(g)
}

func runLong(t *vlib.T, o *op, n int, thorough bool) {
	f := o.mk(n)
	r := newRefs(n)
	nin, nout := o.inLen(n), o.outLen(n)
	wt := weight(o, n)
	units := 1
	if o.inComplex {
		units = 2
	}
	worst := 0.0
	var cols, tones int64
	note := func(q float64) {
		if q > worst || q != q {
			worst = q
		}
	}
	// impulses
	for i, k := range pickIdx(nin, wt, false) {
		for u := 0; u < units; u++ {
			if wt > 0 && u != i%units {
				continue // heavy lengths: one unit per position, alternating
			}
			im := u == 1
			in := make([]complex128, nin)
			in[k] = 1
			if im {
				in[k] = 1i
			}
			mode := (i + u) % 3
			if mode == dstAlias && !o.aliasOK {
				mode = dstFresh
			}
			got := f(t, in, mode)
			want := o.col(n, k, im, r)
			bound := colBound(o, n, want)
			d, at := maxDiff(got, want)
			if !(d <= bound) {
				t.Failf("column k=%d unit=%s (dst mode %d): |got-want|=%.3g at [%d] (got %v want %v) exceeds bound %.3g",
					k, unitName(im), mode, d, at, at2(got, at), at2(want, at), bound)
			}
			note(d / bound)
			cols++
		}
		if t.Failed() {
			break
		}
	}
	// tones: the partner's defining column as (dense) input gives scale*u*e_k
	tp := tonePartner[o.name]
	po := opByName(tp.inv)
	sc := tp.scale(n)
	pUnits := 1
	if po.inComplex {
		pUnits = 2
	}
	for i, k := range pickIdx(nout, wt, true) {
		if t.Failed() {
			break
		}
		for u := 0; u < pUnits; u++ {
			if wt > 0 && u != pUnits-1 {
				continue // heavy lengths: the imaginary-unit tone only (real one for real partners)
			}
			im := u == 1
			in := po.col(n, k, im, r) // length po.outLen(n) == nin
			if len(in) != nin {
				panic("harness: tone length")
			}
			want := make([]complex128, nout)
			if norm2(in) != 0 {
				want[k] = complex(sc, 0)
				if im {
					want[k] = complex(0, sc)
				}
			}
			mode := (i + u + 1) % 3
			if mode == dstAlias && !o.aliasOK {
				mode = dstNil
			}
			got := f(t, in, mode)
			// ||T|| ~ sqrt(scale), ||in|| ~ sqrt(scale): 2*8*(log2 n+G)*eps*sqrt(scale)*||in||
			bound := 2 * errFactor(o, n) * eps * math.Sqrt(sc) * math.Max(norm2(in), 1)
			d, at := maxDiff(got, want)
			if !(d <= bound) {
				t.Failf("tone k=%d unit=%s (input = defining column of %s, dst mode %d): result differs from %v*e_k by %.3g at [%d] (got %v want %v), bound %.3g",
					k, unitName(im), po.name, mode, sc, d, at, at2(got, at), at2(want, at), bound)
			}
			note(d / bound)
			tones++
		}
	}
	// thorough: dense integer vector against the O(n^2) defining sum
	if thorough && wt == 0 && n <= 5200 && !t.Failed() {
		x := denseInput(nin, o.inComplex)
		accRe := make([]ksum, nout)
		accIm := make([]ksum, nout)
		maxCol := 1.0
		for k := 0; k < nin; k++ {
			for u := 0; u < units; u++ {
				w := real(x[k])
				if u == 1 {
					w = imag(x[k])
				}
				if w == 0 {
					continue
				}
				c := o.col(n, k, u == 1, r)
				if k < 4 {
					if nm := norm2(c); nm > maxCol {
						maxCol = nm
					}
				}
				for j, cv := range c {
					accRe[j].add(w * real(cv))
					accIm[j].add(w * imag(cv))
				}
			}
		}
		want := make([]complex128, nout)
		for j := range want {
			want[j] = complex(accRe[j].val(), accIm[j].val())
		}
		got := f(t, x, dstNil)
		bound := errFactor(o, n) * eps * maxCol * norm2(x)
		d, at := maxDiff(got, want)
		if !(d <= bound) {
			t.Failf("dense vector: |got-want|=%.3g at [%d] (got %v want %v) exceeds bound %.3g", d, at, at2(got, at), at2(want, at), bound)
		}
		note(d / bound)
		t.Count("long_dense_vectors", 1)
	}
	t.Count("long_columns", cols)
	t.Count("long_tones", tones)
	t.Max("long_worst_err_over_bound_x1e6 "+o.name, int64(worst*1e6))
	t.Nontrivial()
	m := fftLen(o, n)
	t.Outcome(fmt.Sprintf("%s bigprime=%v twoBig=%v weight=%d err/bound %s", o.name, bigPrimeSum(m) > 1024, twoBigPrimes(m), wt, ratioClass(worst)))
	t.Detail(map[string]any{"n": n, "fft_len": m, "columns": cols, "tones": tones, "worst_err_over_bound": fmt.Sprintf("%.4g", worst)})
}

// twoBigPrimes reports whether m has at least two prime factors >= 47.
func twoBigPrimes(m int) bool {
	c := 0
	for d := 2; d*d <= m; d++ {
		for m%d == 0 {
			if d >= 47 {
				c++
			}
			m /= d
		}
	}
	if m >= 47 {
		c++
	}
	return c >= 2
}

// runHilbertTones: the analytic signal of cos(2 pi f j/n) is exp(2 pi i f j/n)
// and of sin(...) is -i*exp(...) for 0 < f < n/2; the constant and the
// Nyquist tone are returned unchanged.
func runHilbertTones(t *vlib.T, n int) {
	h := transform.NewHilbert(n)
	tab := newTrigTab(n)
	o := opByName("Hilbert.AnalyticSignal")
	fs := []int{0, 1, 2, n / 3, (n+1)/2 - 1}
	if n%2 == 0 {
		fs = append(fs, n/2)
	}
	seen := map[int]bool{}
	worst := 0.0
	var cnt int64
	for _, f := range fs {
		if f < 0 || f >= n || seen[f] {
			continue
		}
		seen[f] = true
		for _, sine := range []bool{false, true} {
			x := make([]float64, n)
			want := make([]complex128, n)
			special := f == 0 || (n%2 == 0 && f == n/2)
			for j := range x {
				c, s := tab.cos(f*j), tab.sin(f*j)
				switch {
				case !sine:
					x[j] = c
					want[j] = complex(c, s)
				default:
					x[j] = s
					want[j] = complex(s, -c)
				}
				if special {
					want[j] = complex(x[j], 0)
				}
			}
			x0 := append([]float64(nil), x...)
			var got []complex128
			if sine {
				dst := make([]complex128, n)
				vlib.FillPoisonC128(dst)
				got = h.AnalyticSignal(dst, x)
			} else {
				got = h.AnalyticSignal(nil, x)
			}
			if i, ok := vlib.Same64(x, x0); !ok {
				t.Failf("f=%d: input modified at %d", f, i)
			}
			bound := 2 * errFactor(o, n) * eps * math.Sqrt(float64(n))
			d, at := maxDiff(got, want)
			if !(d <= bound) {
				t.Failf("f=%d sine=%v: analytic signal differs from the closed form by %.3g at [%d] (got %v want %v), bound %.3g", f, sine, d, at, at2(got, at), at2(want, at), bound)
			}
			if q := d / bound; q > worst || q != q {
				worst = q
			}
			cnt++
		}
	}
	t.Count("long_hilbert_tones", cnt)
	t.Max("long_worst_err_over_bound_x1e6 Hilbert.AnalyticSignal", int64(worst*1e6))
	t.Nontrivial()
	t.Outcome("hilbert-tones err/bound " + ratioClass(worst))
}

// genLongReset: Reset between long and short lengths, every ordered pair of
// the menu, with a transform before the Reset and one after it, bit for bit
// against a fresh object.
func genLongReset(g *vlib.G) {
	menu := vlib.Pick(g, []int{7, 1031, 2209, 4096, 4106}, []int{7, 64, 1031, 2053, 2209, 3217, 4096, 4106, 4418, 6561})
	for _, rt := range resettables {
		for _, a := range menu {
			rt, a := rt, a
			g.Case(fmt.Sprintf("reset %s from n=%d", rt.name, a), func(t *vlib.T) {
				var hist int64
				for _, b := range menu {
					want := rt.fresh(b).all(1)
					o := rt.fresh(a)
					o.all(-3.5e3)
					o.Reset(b)
					for rep := 0; rep < 1; rep++ {
						hist++
						if o.Len() != b {
							t.Failf("New(%d) T Reset(%d): Len()=%d", a, b, o.Len())
							break
						}
						got := o.all(1)
						if i, ok := vlib.SameC128(got, want); !ok {
							t.Failf("New(%d) T Reset(%d) T (use %d): result element %d is %v, a fresh object gives %v", a, b, rep+1, i, got[i], want[i])
							break
						}
					}
				}
				t.Count("histories", hist)
				t.Count("traces_validated_against_impl", hist)
				t.Nontrivial()
				t.Outcome("long reset " + rt.name)
			})
		}
	}
}
