package main

// Group "reset": histories of Reset calls (with and without transforms in
// between) on one object; the final object must give, for every method,
// bit for bit the result of a fresh object of the final length.

import (
	"fmt"

	"gonum.org/v1/gonum/dsp/fourier"
	"gonum.org/v1/gonum/internal/verif/vlib"
)

// resettable is the uniform view of the five object types with a Reset method.
type resettable struct {
	name  string
	minN  int
	fresh func(n int) robj
}

type robj interface {
	Reset(n int)
	Len() int
	// all runs every transform method of the object on a fixed dense input
	// of the object's current length and returns the concatenated results.
	all(scale float64) []complex128
}

type rFFT struct{ *fourier.FFT }

func (o rFFT) all(sc float64) []complex128 {
	n := o.Len()
	x := scaled(denseInput(n, false), sc)
	c := scaled(denseInput(n/2+1, true), sc)
	out := o.Coefficients(nil, reals(x))
	return append(out, cplx(o.Sequence(nil, c))...)
}

type rCFFT struct{ *fourier.CmplxFFT }

func (o rCFFT) all(sc float64) []complex128 {
	x := scaled(denseInput(o.Len(), true), sc)
	out := o.Coefficients(nil, x)
	return append(out, o.Sequence(nil, x)...)
}

type rDCT struct{ *fourier.DCT }

func (o rDCT) all(sc float64) []complex128 {
	return cplx(o.Transform(nil, reals(scaled(denseInput(o.Len(), false), sc))))
}

type rDST struct{ *fourier.DST }

func (o rDST) all(sc float64) []complex128 {
	return cplx(o.Transform(nil, reals(scaled(denseInput(o.Len(), false), sc))))
}

type rQW struct{ *fourier.QuarterWaveFFT }

func (o rQW) all(sc float64) []complex128 {
	x := reals(scaled(denseInput(o.Len(), false), sc))
	var out []float64
	out = append(out, o.CosCoefficients(nil, x)...)
	out = append(out, o.CosSequence(nil, x)...)
	out = append(out, o.SinCoefficients(nil, x)...)
	out = append(out, o.SinSequence(nil, x)...)
	return cplx(out)
}

func scaled(x []complex128, sc float64) []complex128 {
	for i := range x {
		x[i] *= complex(sc, 0)
	}
	return x
}

var resettables = []resettable{
	{"FFT", 1, func(n int) robj { return rFFT{fourier.NewFFT(n)} }},
	{"CmplxFFT", 1, func(n int) robj { return rCFFT{fourier.NewCmplxFFT(n)} }},
	{"DCT", 2, func(n int) robj { return rDCT{fourier.NewDCT(n)} }},
	{"DST", 1, func(n int) robj { return rDST{fourier.NewDST(n)} }},
	{"QuarterWaveFFT", 1, func(n int) robj { return rQW{fourier.NewQuarterWaveFFT(n)} }},
}

func genReset(g *vlib.G) {
	tripleMax := vlib.Pick(g, 24, 32)
	pairMax := vlib.Pick(g, 48, 96)
	for _, rt := range resettables {
		// triples: New(n1), Reset(n2), Reset(n3); pure and with transforms in between
		for _, dirty := range []bool{false, true} {
			for n1 := rt.minN; n1 <= tripleMax; n1++ {
				rt, dirty, n1 := rt, dirty, n1
				g.Case(fmt.Sprintf("%s triples dirty=%v n1=%d", rt.name, dirty, n1), func(t *vlib.T) {
					runHistories(t, rt, dirty, n1, tripleMax, true)
				})
			}
		}
		// pairs over a larger range: New(n1) [transform] Reset(n2) transform
		for n1 := rt.minN; n1 <= pairMax; n1++ {
			rt, n1 := rt, n1
			g.Case(fmt.Sprintf("%s pairs n1=%d", rt.name, n1), func(t *vlib.T) {
				runHistories(t, rt, true, n1, pairMax, false)
			})
		}
	}
}

func runHistories(t *vlib.T, rt resettable, dirty bool, n1, maxN int, triples bool) {
	want := map[int][]complex128{}
	fresh := func(n int) []complex128 {
		if w, ok := want[n]; ok {
			return w
		}
		w := rt.fresh(n).all(1)
		want[n] = w
		return w
	}
	var hist, reused, shrunk int64
	check := func(o robj, desc string, nLast int) bool {
		hist++
		if o.Len() != nLast {
			t.SubViolation(desc, "", nil, "%s: Len()=%d after Reset(%d)", desc, o.Len(), nLast)
			return false
		}
		got := o.all(1)
		if i, ok := vlib.SameC128(got, fresh(nLast)); !ok {
			t.SubViolation(desc, "", map[string]any{"history": desc}, "%s: result element %d is %v, a fresh object of length %d gives %v",
				desc, i, got[i], nLast, fresh(nLast)[i])
			return false
		}
		return true
	}
	bad := 0
	for n2 := rt.minN; n2 <= maxN && bad < 4; n2++ {
		if !triples {
			o := rt.fresh(n1)
			o.all(-3.5e3) // leave data in the scratch space
			o.Reset(n2)
			if n2 < n1 {
				shrunk++
			}
			if !check(o, fmt.Sprintf("New(%d) T Reset(%d) T", n1, n2), n2) {
				bad++
			}
			// and once more on the same object: a second transform after the first
			if !check(o, fmt.Sprintf("New(%d) T Reset(%d) T T", n1, n2), n2) {
				bad++
			}
			continue
		}
		for n3 := rt.minN; n3 <= maxN && bad < 4; n3++ {
			o := rt.fresh(n1)
			if dirty {
				o.all(-3.5e3)
			}
			o.Reset(n2)
			if dirty {
				o.all(7.25e2)
			}
			o.Reset(n3)
			if n3 <= n1 || n3 <= n2 {
				reused++
			}
			d := "Reset"
			if dirty {
				d = "T Reset"
			}
			if !check(o, fmt.Sprintf("New(%d) %s(%d) %s(%d) T", n1, d, n2, d, n3), n3) {
				bad++
			}
		}
	}
	t.Count("histories", hist)
	t.Count("histories_with_possible_buffer_reuse", reused+shrunk)
	t.Count("traces_validated_against_impl", hist)
	t.Max("depth", 3)
	t.Nontrivial()
	t.Outcome(fmt.Sprintf("%s dirty=%v triples=%v", rt.name, dirty, triples))
}
