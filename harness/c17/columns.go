package main

// Group "columns": the complete matrix of every transform for every length,
// column by column, against the defining trigonometric column; plus a dense
// vector against the defining sum and the dst-mode equivalence on it.

import (
	"fmt"

	"gonum.org/v1/gonum/internal/verif/vlib"
)

// colBound is the stated per-entry bound for one column:
//
//	|got[j]-want[j]| <= 8 * (max(1,log2 n) + G) * eps * max(||want||_2, 1)
//
// G is the algorithm-specific growth term o.growth(n) documented at the op
// table (0 for the complex FFT).
func colBound(o *op, n int, want []complex128) float64 {
	nm := norm2(want)
	if nm < 1 {
		nm = 1
	}
	return errFactor(o, n) * eps * nm
}

func errFactor(o *op, n int) float64 { return 8 * (log2n(n) + o.growth(n)) }

func genColumns(g *vlib.G) {
	for _, o := range ops {
		for _, n := range o.lengths(g) {
			o, n := o, n
			g.Case(fmt.Sprintf("%s n=%d", o.name, n), func(t *vlib.T) { runColumns(t, o, n) })
			if g.Stopped() {
				return
			}
		}
	}
}

func runColumns(t *vlib.T, o *op, n int) {
	f := o.mk(n) // one object for all columns: it is also re-used n (or 2n) times
	r := newRefs(n)
	nin, nout := o.inLen(n), o.outLen(n)
	x := denseInput(nin, o.inComplex)
	// dense reference accumulated column by column (compensated)
	accRe := make([]ksum, nout)
	accIm := make([]ksum, nout)
	worst := 0.0 // worst observed error / stated bound
	maxCol := 0.0
	var cols, entries int64
	units := 1
	if o.inComplex {
		units = 2
	}
	for k := 0; k < nin; k++ {
		for u := 0; u < units; u++ {
			im := u == 1
			in := make([]complex128, nin)
			if im {
				in[k] = 1i
			} else {
				in[k] = 1
			}
			mode := (k + u) % 3
			if mode == dstAlias && !o.aliasOK {
				mode = dstFresh
			}
			got := f(t, in, mode)
			want := o.col(n, k, im, r)
			if len(want) != nout {
				panic("harness: reference column length")
			}
			bound := colBound(o, n, want)
			if nm := norm2(want); nm > maxCol {
				maxCol = nm
			}
			d, at := maxDiff(got, want)
			if !(d <= bound) {
				t.Failf("column k=%d unit=%s (dst mode %d): |got-want|=%.3g at [%d] (got %v want %v) exceeds bound %.3g",
					k, unitName(im), mode, d, at, at2(got, at), at2(want, at), bound)
			}
			if q := d / bound; q > worst || q != q {
				worst = q
			}
			cols++
			entries += int64(nout)
			// accumulate dense reference: x[k] = a + b i contributes a*col(e_k) + b*col(i e_k)
			w := real(x[k])
			if im {
				w = imag(x[k])
			}
			if w != 0 {
				for j, c := range want {
					accRe[j].add(w * real(c))
					accIm[j].add(w * imag(c))
				}
			}
			if t.Failed() && cols > 8 {
				break
			}
		}
	}
	// dense vector against the defining sum
	if !t.Failed() {
		wantD := make([]complex128, nout)
		for j := range wantD {
			wantD[j] = complex(accRe[j].val(), accIm[j].val())
		}
		nx := norm2(x)
		if maxCol < 1 {
			maxCol = 1
		}
		boundD := errFactor(o, n) * eps * maxCol * nx
		var outs [3][]complex128
		for mode := 0; mode < 3; mode++ {
			m := mode
			if m == dstAlias && !o.aliasOK {
				m = dstFresh
			}
			outs[mode] = f(t, x, m)
		}
		d, at := maxDiff(outs[0], wantD)
		if !(d <= boundD) {
			t.Failf("dense vector: |got-want|=%.3g at [%d] (got %v want %v) exceeds bound %.3g", d, at, at2(outs[0], at), at2(wantD, at), boundD)
		}
		if q := d / boundD; q > worst || q != q {
			worst = q
		}

		// the result must not depend on the dst mode, bit for bit
		for mode := 1; mode < 3; mode++ {
			if i, ok := vlib.SameC128(outs[0], outs[mode]); !ok {
				t.Failf("dense vector: result with dst mode %d differs from dst=nil at [%d]: %v vs %v", mode, i, at2(outs[mode], i), at2(outs[0], i))
			}
		}
	}
	t.Count("columns", cols)
	t.Count("column_entries", entries)
	t.Max("worst_err_over_bound_x1e6 "+o.name, int64(worst*1e6))
	if n >= 2 {
		t.Nontrivial()
	}
	t.Outcome(o.name + " err/bound " + ratioClass(worst))
	t.Detail(map[string]any{"n": n, "columns": cols, "worst_err_over_bound": fmt.Sprintf("%.4g", worst)})
}

func unitName(im bool) string {
	if im {
		return "i"
	}
	return "1"
}

func at2(v []complex128, i int) any {
	if i < 0 || i >= len(v) {
		return "-"
	}
	return v[i]
}
