// Harness C17: Fourier-family transforms equal their defining sums for every length.
package main

import (
	"fmt"
	"math"

	"gonum.org/v1/gonum/internal/verif/vlib"
)

func main() {
	vlib.Main("C17",
		vlib.Group{Name: "ref-selfcheck", Gen: genRefSelfcheck},
		vlib.Group{Name: "columns", Gen: genColumns},
		vlib.Group{Name: "roundtrip", Gen: genRoundtrip},
		vlib.Group{Name: "cross", Gen: genCross},
		vlib.Group{Name: "helpers", Gen: genHelpers},
		vlib.Group{Name: "padtrim", Gen: genPadTrim},
		vlib.Group{Name: "panics", Gen: genPanics},
		vlib.Group{Name: "reset", Gen: genReset},
		vlib.Group{Name: "views", Gen: genViews},
		vlib.Group{Name: "long", Gen: genLong},
		vlib.Group{Name: "window", Gen: genWindow},
		vlib.Group{Name: "doc-literal", Gen: genDocLiteral},
	)
}

// genRefSelfcheck validates the float64 trigonometric helper used by every
// oracle against a 256-bit Taylor evaluation: |err| <= 2*eps for every
// a in 0..m-1, for a menu of moduli covering every table shape used
// (n, 2(n-1), 2(n+1), 4n).
func genRefSelfcheck(g *vlib.G) {
	ms := []int{1, 2, 3, 4, 5, 6, 7, 8, 9, 10, 12, 15, 16, 17, 24, 31, 32, 97, 100, 128, 250, 360, 500, 512, 1022, 1026, 2048}
	if g.Thorough() {
		ms = append(ms, 243, 343, 625, 686, 1000, 1024, 1372, 2000, 4096)
	}
	for _, m := range ms {
		m := m
		g.Case(fmt.Sprintf("m=%d", m), func(t *vlib.T) {
			worst := 0.0
			for a := 0; a < m; a++ {
				c, s := cosSin2pi(a, m)
				bc, bs := bigCosSin(a, m)
				d := math.Max(math.Abs(c-bc), math.Abs(s-bs))
				if !(d <= 2*eps) {
					t.Failf("cosSin2pi(%d,%d)=(%v,%v) 256-bit (%v,%v) diff %.3g", a, m, c, s, bc, bs, d)
					break
				}
				if d > worst {
					worst = d
				}
				// exact symmetries that the oracles rely on
				if c2, s2 := cosSin2pi(a+m, m); c2 != c || s2 != s {
					t.Failf("cosSin2pi not periodic at a=%d m=%d", a, m)
				}
			}
			t.Count("angles", int64(m))
			t.Max("ref_trig_err_x1e3_eps", int64(worst/eps*1e3))
			if m >= 3 {
				t.Nontrivial()
			}
			t.Outcome(fmt.Sprintf("err<=%.1f eps", math.Ceil(worst/eps*2)/2))
		})
	}
}
