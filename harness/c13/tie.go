package main

// Tie-rich structured graphs on 6..10 nodes (unit-weight grids, a hypercube,
// complete bipartite graphs, layered DAGs, layered DAGs with "shortcut" edges
// whose weight equals the number of layers they skip) under MANY node orders
// (all rotations and reversed rotations; every permutation for the smaller
// ones). The all-shortest-paths answers of FloydWarshall, DijkstraAllPaths,
// JohnsonAllPaths, DijkstraAllFrom and BellmanFordAllFrom must be exactly the
// set of shortest paths, which the reference enumerates by definition: a path
// is shortest iff its weight equals the distance (distances by the triple
// loop; enumeration along the edges with d(s,x)+w(x,y)+d(y,t) == d(s,t); all
// weights are positive, so shortest walks are simple paths).

import (
	"fmt"
	"math"

	"gonum.org/v1/gonum/graph"
	"gonum.org/v1/gonum/graph/path"
	"gonum.org/v1/gonum/graph/simple"
	"gonum.org/v1/gonum/internal/verif/vlib"
)

const tMax = 10

type tgraph struct {
	name     string
	n        int
	directed bool
	has      [tMax][tMax]bool
	w        [tMax][tMax]float64
}

func (g *tgraph) edge(a, b int, w float64) {
	g.has[a][b], g.w[a][b] = true, w
	if !g.directed {
		g.has[b][a], g.w[b][a] = true, w
	}
}

type tref struct {
	d     [tMax][tMax]float64
	paths [tMax][tMax]map[string]bool
	ties  int // number of pairs with >= 2 shortest paths
	maxP  int
}

func tkey(p []int) string {
	b := make([]byte, len(p))
	for i, v := range p {
		b[i] = byte('0' + v)
	}
	return string(b)
}

func newTRef(g *tgraph) *tref {
	r := &tref{}
	n := g.n
	for i := 0; i < n; i++ {
		for j := 0; j < n; j++ {
			switch {
			case i == j:
				r.d[i][j] = 0
			case g.has[i][j]:
				r.d[i][j] = g.w[i][j]
			default:
				r.d[i][j] = inf
			}
		}
	}
	for k := 0; k < n; k++ {
		for i := 0; i < n; i++ {
			for j := 0; j < n; j++ {
				if v := r.d[i][k] + r.d[k][j]; v < r.d[i][j] {
					r.d[i][j] = v
				}
			}
		}
	}
	for s := 0; s < n; s++ {
		for t := 0; t < n; t++ {
			if math.IsInf(r.d[s][t], 1) {
				continue
			}
			set := map[string]bool{}
			var rec func(cur int, p []int)
			rec = func(cur int, p []int) {
				if cur == t {
					set[tkey(p)] = true
					return
				}
				for y := 0; y < n; y++ {
					if y != cur && g.has[cur][y] && r.d[s][cur]+g.w[cur][y]+r.d[y][t] == r.d[s][t] {
						rec(y, append(p, y))
					}
				}
			}
			rec(s, []int{s})
			r.paths[s][t] = set
			if len(set) >= 2 {
				r.ties++
			}
			if len(set) > r.maxP {
				r.maxP = len(set)
			}
		}
	}
	return r
}

// tieFamilies returns the structured graphs. small selects the quick subset.
func tieFamilies(thorough bool) []*tgraph {
	var out []*tgraph
	add := func(g *tgraph) {
		if g.n <= tMax {
			out = append(out, g)
		}
	}
	// grids (undirected, and directed right/down)
	for _, ab := range [][2]int{{2, 3}, {2, 4}, {3, 3}, {2, 5}} {
		for _, directed := range []bool{false, true} {
			a, b := ab[0], ab[1]
			g := &tgraph{name: fmt.Sprintf("grid%dx%d dir=%v", a, b, directed), n: a * b, directed: directed}
			for i := 0; i < a; i++ {
				for j := 0; j < b; j++ {
					if j+1 < b {
						g.edge(i*b+j, i*b+j+1, 1)
					}
					if i+1 < a {
						g.edge(i*b+j, (i+1)*b+j, 1)
					}
				}
			}
			add(g)
		}
	}
	// hypercube Q3
	{
		g := &tgraph{name: "hypercube3", n: 8}
		for x := 0; x < 8; x++ {
			for b := 1; b < 8; b <<= 1 {
				if x&b == 0 {
					g.edge(x, x|b, 1)
				}
			}
		}
		add(g)
	}
	// complete bipartite graphs
	for _, ab := range [][2]int{{3, 3}, {2, 4}, {3, 4}, {4, 4}, {3, 5}, {5, 5}} {
		a, b := ab[0], ab[1]
		g := &tgraph{name: fmt.Sprintf("K%d,%d", a, b), n: a + b}
		for i := 0; i < a; i++ {
			for j := 0; j < b; j++ {
				g.edge(i, a+j, 1)
			}
		}
		add(g)
	}
	// layered complete DAGs, plain and with shortcut edges of weight = layers skipped
	for _, layers := range [][]int{{1, 3, 1, 1}, {1, 4, 1, 1}, {1, 3, 1, 2, 1}, {2, 3, 2}, {1, 2, 2, 2, 1}, {1, 3, 3, 1}, {1, 4, 1, 2}, {1, 4, 4, 1}, {1, 3, 2, 3, 1}} {
		for _, shortcuts := range []bool{false, true} {
			n := 0
			var start []int
			for _, l := range layers {
				start = append(start, n)
				n += l
			}
			g := &tgraph{name: fmt.Sprintf("layers%v shortcuts=%v", layers, shortcuts), n: n, directed: true}
			for li := 0; li < len(layers); li++ {
				for lj := li + 1; lj < len(layers); lj++ {
					if lj > li+1 && !shortcuts {
						continue
					}
					for a := 0; a < layers[li]; a++ {
						for b := 0; b < layers[lj]; b++ {
							if lj > li+1 && (a+b)%2 == 1 {
								continue // every second shortcut only
							}
							g.edge(start[li]+a, start[lj]+b, float64(lj-li))
						}
					}
				}
			}
			add(g)
		}
	}
	// fan / merge / tail with detours: source 0 reaches a merge node through
	// `fan` parallel two-edge routes, a tail of `tail` unit edges follows, and
	// `det` private detour nodes lead from the source to the tail nodes at
	// exactly the tied cost (second edge heavier). Equal-cost alternatives
	// are therefore found at different stages of every algorithm: successor /
	// predecessor lists of (source, merge) and (source, tail) grow
	// independently after one was derived from the other.
	for _, p := range [][3]int{{3, 1, 1}, {4, 1, 1}, {3, 2, 1}, {3, 1, 2}, {3, 2, 2}, {4, 2, 1}, {4, 1, 2}} {
		for _, directed := range []bool{true, false} {
			fan, tail, det := p[0], p[1], p[2]
			n := 1 + fan + 1 + tail + det
			g := &tgraph{name: fmt.Sprintf("fan%d tail%d detours%d dir=%v", fan, tail, det, directed), n: n, directed: directed}
			merge := 1 + fan
			for m := 1; m <= fan; m++ {
				g.edge(0, m, 1)
				g.edge(m, merge, 1)
			}
			for k := 0; k < tail; k++ {
				g.edge(merge+k, merge+k+1, 1)
			}
			for dd := 0; dd < det; dd++ {
				x := merge + tail + 1 + dd
				target := merge + 1 + dd%tail // a tail node at distance 3+dd%tail from the source
				g.edge(0, x, 1)
				g.edge(x, target, float64(2+dd%tail))
			}
			add(g)
		}
	}
	if !thorough {
		var q []*tgraph
		for _, g := range out {
			if g.n <= 9 {
				q = append(q, g)
			}
		}
		return q
	}
	return out
}

// tieIDs maps node indices to IDs.
func tieIDs(kind, n int) []int64 {
	ids := make([]int64, n)
	for i := range ids {
		if kind == 0 {
			ids[i] = int64(i)
		} else {
			ids[i] = int64(i*i*7 - 20*i + 3) // injective on 0..9, unordered, negative values
		}
	}
	return ids
}

// tieBuild builds the simple weighted graph behind an ordering wrapper whose
// Nodes/From order is the permutation perm (perm[k] = node index at rank k).
func tieBuild(g *tgraph, ids []int64, perm []int) graph.Graph {
	pos := make(map[int64]int, g.n)
	for k, v := range perm {
		pos[ids[v]] = k
	}
	base := ordBase{pos: pos}
	if g.directed {
		sg := simple.NewWeightedDirectedGraph(0, math.Inf(1))
		for _, id := range ids {
			sg.AddNode(simple.Node(id))
		}
		for a := 0; a < g.n; a++ {
			for b := 0; b < g.n; b++ {
				if g.has[a][b] {
					sg.SetWeightedEdge(simple.WeightedEdge{F: simple.Node(ids[a]), T: simple.Node(ids[b]), W: g.w[a][b]})
				}
			}
		}
		base.g = sg
		base.freeze()
		return ordWDir{ordDir{base, sg}, sg}
	}
	sg := simple.NewWeightedUndirectedGraph(0, math.Inf(1))
	for _, id := range ids {
		sg.AddNode(simple.Node(id))
	}
	for a := 0; a < g.n; a++ {
		for b := a + 1; b < g.n; b++ {
			if g.has[a][b] {
				sg.SetWeightedEdge(simple.WeightedEdge{F: simple.Node(ids[a]), T: simple.Node(ids[b]), W: g.w[a][b]})
			}
		}
	}
	base.g = sg
	base.freeze()
	return ordWUnd{base, sg}
}

type tieEnv struct {
	t    *vlib.T
	g    *tgraph
	r    *tref
	ids  []int64
	idx  map[int64]int
	perm []int
	gs   *guardState
}

func (e *tieEnv) fail(routine string, s, t int, f string, a ...any) {
	e.gs.alive()
	e.t.Count("violations:tie:"+routine, 1)
	e.t.Failf("[%s order %v %s %d->%d] %s", e.g.name, e.perm, routine, s, t, fmt.Sprintf(f, a...))
}

func (e *tieEnv) key(p []graph.Node) (string, bool) {
	b := make([]byte, len(p))
	for i, nd := range p {
		x, ok := e.idx[nd.ID()]
		if !ok {
			return "", false
		}
		b[i] = byte('0' + x)
	}
	return string(b), true
}

// one checks a single-path answer (membership, weight, unique).
func (e *tieEnv) one(routine string, s, t int, p []graph.Node, w float64, uniq, haveUniq bool) {
	want := e.r.d[s][t]
	if math.IsInf(want, 1) {
		if len(p) != 0 || !math.IsInf(w, 1) {
			e.fail(routine, s, t, "unreachable: got %s, %v", ids(p), w)
		}
		return
	}
	if w != want {
		e.fail(routine, s, t, "weight %v, true distance %v", w, want)
		return
	}
	k, ok := e.key(p)
	if !ok || !e.r.paths[s][t][k] {
		e.fail(routine, s, t, "path %s is not one of the %d shortest paths", ids(p), len(e.r.paths[s][t]))
		return
	}
	if haveUniq && uniq != (len(e.r.paths[s][t]) == 1) {
		e.fail(routine, s, t, "unique=%v with %d shortest paths", uniq, len(e.r.paths[s][t]))
	}
}

// all checks an all-shortest-paths answer for set equality with the reference.
func (e *tieEnv) all(routine string, s, t int, paths [][]graph.Node, w float64) {
	want := e.r.d[s][t]
	if math.IsInf(want, 1) {
		if len(paths) != 0 || !math.IsInf(w, 1) {
			e.fail(routine, s, t, "unreachable: got %d paths, %v", len(paths), w)
		}
		return
	}
	if w != want {
		e.fail(routine, s, t, "weight %v, true distance %v", w, want)
		return
	}
	set := e.r.paths[s][t]
	seen := make(map[string]bool, len(paths))
	for _, p := range paths {
		k, ok := e.key(p)
		if !ok || !set[k] {
			e.fail(routine, s, t, "returned path %s is not a shortest path", ids(p))
			return
		}
		if seen[k] {
			e.fail(routine, s, t, "path %s returned twice", ids(p))
			return
		}
		seen[k] = true
	}
	if len(seen) != len(set) {
		missing := ""
		for k := range set {
			if !seen[k] && (missing == "" || k < missing) {
				missing = k
			}
		}
		e.fail(routine, s, t, "%d of the %d shortest paths returned (e.g. node-index path %q is missing)", len(seen), len(set), missing)
	}
}

func (e *tieEnv) allShortest(routine string, ap path.AllShortest) {
	n := e.g.n
	for s := 0; s < n; s++ {
		for t := 0; t < n; t++ {
			if got := ap.Weight(e.ids[s], e.ids[t]); got != e.r.d[s][t] {
				e.fail(routine+".Weight", s, t, "got %v, true distance %v", got, e.r.d[s][t])
				return
			}
		}
	}
	for s := 0; s < n; s++ {
		for t := 0; t < n; t++ {
			paths, w := ap.AllBetween(e.ids[s], e.ids[t])
			e.all(routine+".AllBetween", s, t, paths, w)
			p, w1, u := ap.Between(e.ids[s], e.ids[t])
			e.one(routine+".Between", s, t, p, w1, u, true)
			if e.t.Failed() {
				return
			}
		}
	}
	e.t.Count("tie_forests_checked", 1)
}

// run checks one (graph, node order, ID map). full adds the single-source routines.
func tieRun(t *vlib.T, g *tgraph, r *tref, perm []int, idk int, full bool) {
	ids := tieIDs(idk, g.n)
	e := &tieEnv{t: t, g: g, r: r, ids: ids, idx: make(map[int64]int, g.n), perm: append([]int(nil), perm...), gs: curGuard}
	for i, id := range ids {
		e.idx[id] = i
	}
	gg := tieBuild(g, ids, perm)
	fw, ok := path.FloydWarshall(gg)
	if !ok {
		e.fail("FloydWarshall", 0, 0, "ok=false on a graph with positive weights")
		return
	}
	e.allShortest("FloydWarshall", fw)
	e.allShortest("DijkstraAllPaths", path.DijkstraAllPaths(gg))
	jo, ok := path.JohnsonAllPaths(gg)
	if !ok {
		e.fail("JohnsonAllPaths", 0, 0, "ok=false on a graph with positive weights")
		return
	}
	e.allShortest("JohnsonAllPaths", jo)
	if !full || t.Failed() {
		return
	}
	n := g.n
	for s := 0; s < n; s++ {
		src := simple.Node(ids[s])
		da := path.DijkstraAllFrom(src, gg)
		ba, ok := path.BellmanFordAllFrom(src, gg)
		if !ok {
			e.fail("BellmanFordAllFrom", s, s, "ok=false on a graph with positive weights")
			return
		}
		df := path.DijkstraFrom(src, gg)
		bf, _ := path.BellmanFordFrom(src, gg)
		for tt := 0; tt < n; tt++ {
			tid := ids[tt]
			for k, sh := range []path.ShortestAlts{da, ba} {
				name := []string{"DijkstraAllFrom", "BellmanFordAllFrom"}[k]
				paths, w := sh.AllTo(tid)
				e.all(name+".AllTo", s, tt, paths, w)
				p, w1, u := sh.To(tid)
				e.one(name+".To", s, tt, p, w1, u, true)
			}
			p, w := df.To(tid)
			e.one("DijkstraFrom.To", s, tt, p, w, false, false)
			p, w = bf.To(tid)
			e.one("BellmanFordFrom.To", s, tt, p, w, false, false)
			p, w = path.DijkstraFromTo(src, simple.Node(tid), gg)
			e.one("DijkstraFromTo", s, tt, p, w, false, false)
			if t.Failed() {
				return
			}
		}
	}
	t.Count("tie_single_source_sets_checked", int64(n))
}

// nextPerm advances p to the next permutation in lexicographic order.
func nextPerm(p []int) bool {
	i := len(p) - 2
	for i >= 0 && p[i] >= p[i+1] {
		i--
	}
	if i < 0 {
		return false
	}
	j := len(p) - 1
	for p[j] <= p[i] {
		j--
	}
	p[i], p[j] = p[j], p[i]
	for l, r := i+1, len(p)-1; l < r; l, r = l+1, r-1 {
		p[l], p[r] = p[r], p[l]
	}
	return true
}

func genTies(g *vlib.G) {
	thorough := g.Thorough()
	fams := tieFamilies(thorough)
	for _, tg := range fams {
		tg := tg
		// (1) all rotations and reversed rotations, both ID maps, every routine
		gcase(g, tg.name+" rotations", func(t *vlib.T) {
			r := newTRef(tg)
			n := tg.n
			perm := make([]int, n)
			for rot := 0; rot < n; rot++ {
				for rev := 0; rev < 2; rev++ {
					for k := 0; k < n; k++ {
						perm[k] = (k + rot) % n
						if rev == 1 {
							perm[k] = (n - 1 - k + rot) % n
						}
					}
					tieRun(t, tg, r, perm, (rot+rev)%2, true)
					if t.Failed() {
						return
					}
				}
			}
			t.Nontrivial()
			t.Outcome(fmt.Sprintf("n=%d tied pairs=%d max paths=%d", n, r.ties, r.maxP))
		})
		// (2) every permutation of the node order: all-pairs routines; quick
		// for n <= 7 and for two 8-node fan/merge/tail graphs, thorough for n <= 8
		// (9- and 10-node graphs only get the rotations).
		all := tg.n <= 7 || tg.name == "fan4 tail1 detours1 dir=true" || tg.name == "fan3 tail2 detours1 dir=true" || (thorough && tg.n <= 8)
		if !all {
			continue
		}
		for first := 0; first < tg.n; first++ {
			first := first
			gcase(g, fmt.Sprintf("%s all orders starting with %d", tg.name, first), func(t *vlib.T) {
				r := newTRef(tg)
				n := tg.n
				rest := make([]int, 0, n-1)
				for v := 0; v < n; v++ {
					if v != first {
						rest = append(rest, v)
					}
				}
				perm := make([]int, n)
				cnt := 0
				for {
					perm[0] = first
					copy(perm[1:], rest)
					tieRun(t, tg, r, perm, cnt%2, cnt%97 == 0)
					cnt++
					if t.Failed() || !nextPerm(rest) {
						break
					}
				}
				t.Count("tie_node_orders", int64(cnt))
				t.Nontrivial()
				t.Outcome(fmt.Sprintf("n=%d all orders", n))
			})
		}
	}
}
