package main

// D* Lite: every history of Step / UpdateWorld operations up to a bounded
// depth on 4-node worlds. After every operation Path() must start at Here(),
// be a real walk in the CURRENT world and have the optimal weight; Step must
// report false exactly at the goal or when the goal is unreachable and must
// move along an optimal path; a fresh planner created on the current world at
// the current position must agree.

import (
	"fmt"
	"math"

	"gonum.org/v1/gonum/graph"
	"gonum.org/v1/gonum/graph/path"
	"gonum.org/v1/gonum/graph/path/dynamic"
	"gonum.org/v1/gonum/graph/simple"
	"gonum.org/v1/gonum/internal/verif/vlib"
)

const dsN = 4

// dsWorld is an initial world.
type dsWorld struct {
	name  string
	edges [][3]int // u, v, w
	s, t  int
}

var dsWorlds = []dsWorld{
	{"grid2x2", [][3]int{{0, 1, 1}, {1, 0, 1}, {0, 2, 1}, {2, 0, 1}, {1, 3, 1}, {3, 1, 1}, {2, 3, 1}, {3, 2, 1}}, 0, 3},
	{"diamond", [][3]int{{0, 1, 1}, {0, 2, 2}, {1, 3, 5}, {2, 3, 1}, {1, 2, 1}, {2, 1, 1}}, 0, 3},
	{"complete2", [][3]int{{0, 1, 2}, {0, 2, 2}, {0, 3, 2}, {1, 0, 2}, {1, 2, 2}, {1, 3, 2}, {2, 0, 2}, {2, 1, 2}, {2, 3, 2}, {3, 0, 2}, {3, 1, 2}, {3, 2, 2}}, 1, 2},
	{"line", [][3]int{{0, 1, 1}, {1, 2, 1}, {2, 3, 1}, {3, 2, 5}, {2, 1, 5}, {1, 0, 5}}, 0, 3},
	{"cut", [][3]int{{0, 1, 1}, {1, 0, 1}, {2, 3, 1}}, 0, 3},
	{"empty", nil, 3, 0},
	// "arbitrary" worlds (thorough)
	{"arb1", [][3]int{{0, 2, 5}, {2, 1, 1}, {1, 3, 2}, {0, 3, 5}, {3, 0, 1}, {1, 0, 2}}, 0, 3},
	{"arb2", [][3]int{{2, 0, 1}, {0, 1, 5}, {2, 1, 2}, {1, 3, 1}, {3, 2, 2}, {0, 3, 5}}, 2, 3},
}

// change sets the cost of the edge u->v; w = +Inf removes the edge.
type change struct {
	u, v int
	w    float64
}

type dsOp struct {
	kind    int // 0 step, 1 step + MoveTo(Here()), 2 UpdateWorld
	changes []change
}

func (o dsOp) String() string {
	switch o.kind {
	case 0:
		return "step"
	case 1:
		return "step+moveto"
	}
	s := "set"
	for _, c := range o.changes {
		s += fmt.Sprintf(" %d>%d=%v", c.u, c.v, c.w)
	}
	return s
}

var dsWeights = []float64{1, 2, 5, inf}

// dsAlphabet returns the operation alphabet: Step, Step+MoveTo(Here) (null
// heuristic only, see NOTES.md), every single edge-cost change, and twelve
// batches of two changes (remove one edge, set another to 1).
func dsAlphabet(withMove bool, weights []float64, batches bool) []dsOp {
	ops := []dsOp{{kind: 0}}
	if withMove {
		ops = append(ops, dsOp{kind: 1})
	}
	ps := pairs(dsN, true)
	for _, p := range ps {
		for _, w := range weights {
			ops = append(ops, dsOp{kind: 2, changes: []change{{p[0], p[1], w}}})
		}
	}
	for i, p := range ps {
		if !batches {
			break
		}
		q := ps[(i+5)%len(ps)]
		ops = append(ops, dsOp{kind: 2, changes: []change{{p[0], p[1], inf}, {q[0], q[1], 1}}})
	}
	return ops
}

// detModel is the planner's world model: a simple.WeightedDirectedGraph whose
// Nodes/From/To iterate in a fixed order, so that histories are reproducible.
type detModel struct {
	*simple.WeightedDirectedGraph
	o ordBase
}

func (m detModel) Nodes() graph.Nodes        { return m.o.sorted(m.WeightedDirectedGraph.Nodes()) }
func (m detModel) From(id int64) graph.Nodes { return m.o.sorted(m.WeightedDirectedGraph.From(id)) }
func (m detModel) To(id int64) graph.Nodes   { return m.o.sorted(m.WeightedDirectedGraph.To(id)) }

var _ dynamic.WorldModel = detModel{}

type dsEnv struct {
	w     *dsWorld
	ids   []int64
	idx   map[int64]int
	pos   map[int64]int
	heur  int // 0 nil (NullHeuristic), 1 discrete metric
	fresh bool
	// unweighted: the world is a simple.DirectedGraph (no Weight method), so
	// the planner reads edge costs through path.UniformCost: every existing
	// edge costs 1, operations insert or remove single directed edges.
	unweighted bool
}

func discrete(x, y graph.Node) float64 {
	if x.ID() == y.ID() {
		return 0
	}
	return 1
}

func (e *dsEnv) h() path.Heuristic {
	if e.heur == 1 {
		return discrete
	}
	return nil
}

// dsState is a world, its gonum graph and a planner.
type dsState struct {
	e    *dsEnv
	has  [dsN][dsN]bool
	w    [dsN][dsN]float64
	g    *simple.WeightedDirectedGraph
	ug   *simple.DirectedGraph // unweighted worlds
	view graph.Graph
	d    *dynamic.DStarLite
}

func (e *dsEnv) newModel() detModel {
	return detModel{simple.NewWeightedDirectedGraph(0, math.Inf(1)), ordBase{pos: e.pos}}
}

func (e *dsEnv) start() *dsState {
	if e.unweighted {
		st := &dsState{e: e, ug: simple.NewDirectedGraph()}
		for _, id := range e.ids {
			st.ug.AddNode(simple.Node(id))
		}
		for _, ed := range e.w.edges {
			st.has[ed[0]][ed[1]] = true
			st.w[ed[0]][ed[1]] = 1
			st.ug.SetEdge(simple.Edge{F: simple.Node(e.ids[ed[0]]), T: simple.Node(e.ids[ed[1]])})
		}
		st.view = ordDir{ordBase{g: st.ug, pos: e.pos}, st.ug}
		st.d = dynamic.NewDStarLite(simple.Node(e.ids[e.w.s]), simple.Node(e.ids[e.w.t]), st.view, e.h(), e.newModel())
		return st
	}
	st := &dsState{e: e, g: simple.NewWeightedDirectedGraph(0, math.Inf(1))}
	for _, id := range e.ids {
		st.g.AddNode(simple.Node(id))
	}
	for _, ed := range e.w.edges {
		st.has[ed[0]][ed[1]] = true
		st.w[ed[0]][ed[1]] = float64(ed[2])
		st.g.SetWeightedEdge(simple.WeightedEdge{F: simple.Node(e.ids[ed[0]]), T: simple.Node(e.ids[ed[1]]), W: float64(ed[2])})
	}
	st.view = ordWDir{ordDir{ordBase{g: st.g, pos: e.pos}, st.g}, st.g}
	st.d = dynamic.NewDStarLite(simple.Node(e.ids[e.w.s]), simple.Node(e.ids[e.w.t]), st.view, e.h(), e.newModel())
	return st
}

func (st *dsState) here() int { return st.e.idx[st.d.Here().ID()] }

// apply performs the operation; for the step kinds it returns Step's result.
func (st *dsState) apply(o dsOp) bool {
	switch o.kind {
	case 0:
		return st.d.Step()
	case 1:
		ok := st.d.Step()
		st.d.MoveTo(st.d.Here())
		return ok
	}
	edges := make([]graph.Edge, len(o.changes))
	ids := st.e.ids
	for i, c := range o.changes {
		if st.e.unweighted {
			if math.IsInf(c.w, 1) {
				st.has[c.u][c.v] = false
				st.w[c.u][c.v] = 0
				st.ug.RemoveEdge(ids[c.u], ids[c.v])
			} else {
				st.has[c.u][c.v] = true
				st.w[c.u][c.v] = 1
				st.ug.SetEdge(simple.Edge{F: simple.Node(ids[c.u]), T: simple.Node(ids[c.v])})
			}
		} else if math.IsInf(c.w, 1) {
			st.has[c.u][c.v] = false
			st.w[c.u][c.v] = 0
			st.g.RemoveEdge(ids[c.u], ids[c.v])
		} else {
			st.has[c.u][c.v] = true
			st.w[c.u][c.v] = c.w
			st.g.SetWeightedEdge(simple.WeightedEdge{F: simple.Node(ids[c.u]), T: simple.Node(ids[c.v]), W: c.w})
		}
		edges[i] = simple.Edge{F: simple.Node(ids[c.u]), T: simple.Node(ids[c.v])}
	}
	st.d.UpdateWorld(edges)
	return false
}

// distTo returns the true distances to the goal in the current world
// (Floyd-Warshall by definition on 4 nodes; all weights are >= 1).
func (st *dsState) distTo(goal int) [dsN]float64 {
	var d [dsN][dsN]float64
	for i := 0; i < dsN; i++ {
		for j := 0; j < dsN; j++ {
			switch {
			case i == j:
				d[i][j] = 0
			case st.has[i][j]:
				d[i][j] = st.w[i][j]
			default:
				d[i][j] = inf
			}
		}
	}
	for k := 0; k < dsN; k++ {
		for i := 0; i < dsN; i++ {
			for j := 0; j < dsN; j++ {
				if v := d[i][k] + d[k][j]; v < d[i][j] {
					d[i][j] = v
				}
			}
		}
	}
	var out [dsN]float64
	for i := 0; i < dsN; i++ {
		out[i] = d[i][goal]
	}
	return out
}

// checkPath verifies Path() of planner d located at `here` against the
// current world; it returns a description of the violation or "".
func (st *dsState) checkPath(d *dynamic.DStarLite, here int, dist [dsN]float64) string {
	e := st.e
	if got := d.Here().ID(); got != e.ids[here] {
		return fmt.Sprintf("Here() = %d, want %d", got, e.ids[here])
	}
	p, w := d.Path()
	want := dist[here]
	if math.IsInf(want, 1) {
		if p != nil || !math.IsInf(w, 1) {
			return fmt.Sprintf("goal unreachable from %d in the current world: Path() = %s, %v, want nil, +Inf", here, ids(p), w)
		}
		return ""
	}
	if len(p) == 0 {
		return fmt.Sprintf("Path() = %s, %v, but the goal is reachable from %d with weight %v", ids(p), w, here, want)
	}
	if p[0].ID() != e.ids[here] {
		return fmt.Sprintf("Path() %s does not start at Here() = %d", ids(p), e.ids[here])
	}
	if p[len(p)-1].ID() != e.ids[e.w.t] {
		return fmt.Sprintf("Path() %s does not end at the goal", ids(p))
	}
	var sum float64
	for k := 1; k < len(p); k++ {
		a, oka := e.idx[p[k-1].ID()]
		b, okb := e.idx[p[k].ID()]
		if !oka || !okb || !st.has[a][b] {
			return fmt.Sprintf("Path() %s uses the edge %d->%d which does not exist in the current world", ids(p), p[k-1].ID(), p[k].ID())
		}
		sum += st.w[a][b]
	}
	if sum != w {
		return fmt.Sprintf("Path() %s: edge weights sum to %v, reported weight %v", ids(p), sum, w)
	}
	if w != want {
		return fmt.Sprintf("Path() %s has weight %v, the optimal weight in the current world is %v", ids(p), w, want)
	}
	return ""
}

// runHistory replays ops from the initial world and checks the effect of the
// last operation. It returns a violation description or "".
func (e *dsEnv) runHistory(t *vlib.T, ops []dsOp) string {
	st := e.start()
	for _, o := range ops[:len(ops)-1] {
		st.apply(o)
	}
	last := ops[len(ops)-1]
	goal := e.w.t
	before := st.here()
	distBefore := st.distTo(goal)
	ret := st.apply(last)
	t.Count("transitions", int64(len(ops)))
	dist := st.distTo(goal)
	here := st.here()
	if last.kind != 2 {
		wantRet := before != goal && !math.IsInf(distBefore[before], 1)
		if ret != wantRet {
			return fmt.Sprintf("Step() = %v at node %d (goal %d, distance to goal %v), want %v", ret, before, goal, distBefore[before], wantRet)
		}
		if !ret && here != before {
			return fmt.Sprintf("Step() = false but Here() moved from %d to %d", before, here)
		}
		if ret {
			if !st.has[before][here] || st.w[before][here]+dist[here] != distBefore[before] {
				return fmt.Sprintf("Step() moved %d -> %d, which is not the first edge of an optimal path (d(%d)=%v, d(%d)=%v)", before, here, before, distBefore[before], here, dist[here])
			}
			t.Count("steps_taken", 1)
		}
	} else if here != before {
		return fmt.Sprintf("UpdateWorld moved Here() from %d to %d", before, here)
	}
	if msg := st.checkPath(st.d, here, dist); msg != "" {
		return msg
	}
	if math.IsInf(dist[here], 1) {
		t.Count("states_goal_unreachable", 1)
	}
	if e.fresh {
		// differential: a fresh planner on the current world at the current position
		f := dynamic.NewDStarLite(simple.Node(e.ids[here]), simple.Node(e.ids[goal]), st.view, e.h(), e.newModel())
		if msg := st.checkPath(f, here, dist); msg != "" {
			return "fresh planner on the current world: " + msg
		}
		t.Count("fresh_planner_comparisons", 1)
	}
	return ""
}

func genDStar(g *vlib.G) {
	thorough := g.Thorough()
	type cfg struct {
		world, heur, idk, depth int
		weights                 []float64
		unweighted              bool
	}
	var cfgs []cfg
	nw := vlib.Pick(g, 6, len(dsWorlds))
	for w := 0; w < nw; w++ {
		for heur := 0; heur < 2; heur++ {
			if heur == 1 && !thorough && w >= 2 {
				// quick: the discrete-metric heuristic on two worlds only;
				// stronger heuristics are exercised by the group "dstar-heur"
				continue
			}
			cfgs = append(cfgs, cfg{w, heur, (w + heur) % 3, 3, dsWeights, false})
		}
	}
	// unweighted directed worlds (UniformCost): one-way insertions and
	// removals of every ordered pair, batches; depth 3 (thorough: 4 on one).
	for w := 0; w < nw; w++ {
		cfgs = append(cfgs, cfg{w, w % 2, (w + 2) % 3, 3, []float64{1, inf}, true})
	}
	if thorough {
		cfgs = append(cfgs, cfg{0, 0, 1, 4, []float64{1, inf}, true})
	}
	if thorough {
		// depth 4 with the full alphabet on three worlds, depth 5 with the
		// cost alphabet {1, +Inf} and no batches on one.
		for w := 0; w < 3; w++ {
			cfgs = append(cfgs, cfg{w, w % 2, (w + 1) % 3, 4, dsWeights, false})
		}
		cfgs = append(cfgs, cfg{1, 0, 2, 5, []float64{1, inf}, false})
	}
	for _, cf := range cfgs {
		cf := cf
		alpha := dsAlphabet(cf.heur == 0, cf.weights, cf.depth < 5)
		w := &dsWorlds[cf.world]
		ids := idMap(cf.idk, dsN)
		e := &dsEnv{w: w, ids: ids, idx: map[int64]int{}, pos: rank(ids, cf.world%3), heur: cf.heur, fresh: true, unweighted: cf.unweighted}
		for i, id := range ids {
			e.idx[id] = i
		}
		// one case per (configuration, first two operations) for depth >= 4,
		// per first operation otherwise
		prefixLen := 1
		if cf.depth >= 4 {
			prefixLen = 2
		}
		var gen func(prefix []dsOp)
		gen = func(prefix []dsOp) {
			if g.Stopped() {
				return
			}
			if len(prefix) < prefixLen {
				for _, o := range alpha {
					gen(append(append([]dsOp(nil), prefix...), o))
				}
				return
			}
			key := fmt.Sprintf("%s h=%d ids=%s depth=%d nw=%d:", w.name, cf.heur, idMapNames[cf.idk], cf.depth, len(cf.weights))
			if cf.unweighted {
				key = "unweighted " + key
			}
			for _, o := range prefix {
				key += " " + o.String() + ";"
			}
			gcase(g, key, func(t *vlib.T) {
				t.Nontrivial()
				nviol := 0
				var rec func(ops []dsOp)
				rec = func(ops []dsOp) {
					t.Count("states", 1)
					t.Max("depth", int64(len(ops)))
					var msg string
					if p := try(func() { msg = e.runHistory(t, ops) }); p != "" {
						msg = "panic: " + p
					}
					if msg != "" {
						nviol++
						t.Count("violations:dstar", 1)
						sub := ""
						for _, o := range ops {
							sub += o.String() + "; "
						}
						t.SubViolation(sub, "", map[string]any{"world": w, "ids": ids, "heuristic": cf.heur}, "after [%s]: %s", sub, msg)
						return // do not extend a violating history
					}
					if len(ops) == cf.depth || nviol >= 8 {
						return
					}
					for _, o := range alpha {
						rec(append(ops[:len(ops):len(ops)], o))
					}
				}
				// the prefixes of the case's own prefix are checked by the
				// case whose prefix they are; for prefixLen 2 the length-1
				// histories are checked in the case of the first alphabet op.
				if prefixLen == 2 && prefix[1].kind == 0 {
					if msg := e.runHistory(t, prefix[:1]); msg != "" {
						t.SubViolation(prefix[0].String(), "", nil, "after [%s]: %s", prefix[0], msg)
					}
					t.Count("states", 1)
				}
				rec(prefix)
				if nviol == 0 {
					t.Outcome("held")
				} else {
					t.Outcome("violated")
				}
			})
		}
		gen(nil)
	}
}
