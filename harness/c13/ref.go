package main

// Reference model for C13: a graph "spec" on at most maxN nodes (indices
// 0..n-1, mapped to gonum IDs separately) and a brute-force reference that
// enumerates every simple path and every simple cycle. Nothing in this file
// calls gonum.

import (
	"math"
	"sort"
	"strings"
)

const maxN = 5

var inf = math.Inf(1)

// spec is a weighted graph on node indices 0..n-1. For undirected graphs has
// and w are symmetric. Weights are small integers, so every sum is exact.
type spec struct {
	n        int
	directed bool
	has      [maxN][maxN]bool
	w        [maxN][maxN]float64
}

func (sp *spec) set(i, j int, w float64) {
	sp.has[i][j] = true
	sp.w[i][j] = w
	if !sp.directed {
		sp.has[j][i] = true
		sp.w[j][i] = w
	}
}

func (sp *spec) del(i, j int) {
	sp.has[i][j] = false
	sp.w[i][j] = 0
	if !sp.directed {
		sp.has[j][i] = false
		sp.w[j][i] = 0
	}
}

// pairs returns the ordered (directed) or unordered (undirected) node pairs
// in the fixed enumeration order used for keys.
func pairs(n int, directed bool) [][2]int {
	var ps [][2]int
	for i := 0; i < n; i++ {
		for j := 0; j < n; j++ {
			if i == j || (!directed && j < i) {
				continue
			}
			ps = append(ps, [2]int{i, j})
		}
	}
	return ps
}

// specFromDigits builds a spec from one digit per pair; digit 0 means absent,
// digit k>0 selects alphabet[k-1].
func specFromDigits(n int, directed bool, ps [][2]int, digits []int, alphabet []float64) *spec {
	sp := &spec{n: n, directed: directed}
	for k, p := range ps {
		if digits[k] > 0 {
			sp.set(p[0], p[1], alphabet[digits[k]-1])
		}
	}
	return sp
}

func digitString(digits []int, alphabet []float64) string {
	var b strings.Builder
	for _, d := range digits {
		if d == 0 {
			b.WriteByte('.')
			continue
		}
		switch alphabet[d-1] {
		case -1:
			b.WriteByte('m')
		default:
			b.WriteByte(byte('0' + int(alphabet[d-1])))
		}
	}
	return b.String()
}

// pw is a simple path (node indices) with its weight.
type pw struct {
	p    []int
	w    float64
	mask uint8
}

// ref is everything the oracles need, computed by brute force.
type ref struct {
	sp *spec
	n  int

	// all[s][t] lists every simple path from s to t (all[s][s] = {[s]}),
	// sorted by weight, then lexicographically.
	all [maxN][maxN][]pw
	// nShort[s][t] is the number of leading elements of all[s][t] that have
	// the minimum weight.
	nShort [maxN][maxN]int
	// d[s][t] is the minimum weight over simple paths (+Inf if there is none).
	d     [maxN][maxN]float64
	reach [maxN][maxN]bool

	// negative cycles (simple cycles of negative total weight).
	negNode  [maxN]bool
	anyNeg   bool
	negReach [maxN]bool       // a negative cycle is reachable from s
	aff      [maxN][maxN]bool // some negative-cycle node c has s ->* c ->* t

	// zero lists the node masks of the simple cycles of weight exactly zero.
	zero []uint8

	// risk caches cutRisk (0 unknown, 1 no, 2 yes) per (s, t, direction).
	risk [maxN][maxN][2]int8

	// negative edges.
	anyNegEdge   bool
	negEdgeReach [maxN]bool // an edge (a,b) with w<0 and s ->* a exists
}

func newRef(sp *spec) *ref {
	r := &ref{sp: sp, n: sp.n}
	n := sp.n
	path := make([]int, 0, maxN)
	for s := 0; s < n; s++ {
		r.dfs(s, s, 1<<uint(s), append(path, s), 0)
	}
	for s := 0; s < n; s++ {
		for t := 0; t < n; t++ {
			l := r.all[s][t]
			sort.Slice(l, func(i, j int) bool {
				if l[i].w != l[j].w {
					return l[i].w < l[j].w
				}
				a, b := l[i].p, l[j].p
				for k := 0; k < len(a) && k < len(b); k++ {
					if a[k] != b[k] {
						return a[k] < b[k]
					}
				}
				return len(a) < len(b)
			})
			r.d[s][t] = inf
			if len(l) > 0 {
				r.reach[s][t] = true
				r.d[s][t] = l[0].w
				for _, q := range l {
					if q.w == l[0].w {
						r.nShort[s][t]++
					}
				}
			}
		}
	}
	// Simple cycles: a simple path c -> x closed by the edge x -> c.
	seenZero := map[uint8]bool{}
	// self loops (multigraphs, user graph types): a negative self loop is a
	// negative cycle through its node, a zero-weight one a zero-weight cycle,
	// a positive one never matters.
	for c := 0; c < n; c++ {
		if !sp.has[c][c] {
			continue
		}
		if sp.w[c][c] < 0 {
			r.anyNeg = true
			r.negNode[c] = true
		} else if sp.w[c][c] == 0 && !seenZero[1<<uint(c)] {
			seenZero[1<<uint(c)] = true
			r.zero = append(r.zero, 1<<uint(c))
		}
	}
	for c := 0; c < n; c++ {
		for x := 0; x < n; x++ {
			if x == c || !sp.has[x][c] {
				continue
			}
			for _, q := range r.all[c][x] {
				cw := q.w + sp.w[x][c]
				if cw < 0 {
					r.anyNeg = true
					for _, v := range q.p {
						r.negNode[v] = true
					}
				} else if cw == 0 && !seenZero[q.mask] {
					seenZero[q.mask] = true
					r.zero = append(r.zero, q.mask)
				}
			}
		}
	}
	for s := 0; s < n; s++ {
		for c := 0; c < n; c++ {
			if !r.negNode[c] || !r.reach[s][c] {
				continue
			}
			r.negReach[s] = true
			for t := 0; t < n; t++ {
				if r.reach[c][t] {
					r.aff[s][t] = true
				}
			}
		}
		for a := 0; a < n; a++ {
			for b := 0; b < n; b++ {
				if sp.has[a][b] && sp.w[a][b] < 0 {
					r.anyNegEdge = true
					if r.reach[s][a] {
						r.negEdgeReach[s] = true
					}
				}
			}
		}
	}
	return r
}

func (r *ref) dfs(s, cur int, mask uint8, path []int, w float64) {
	r.all[s][cur] = append(r.all[s][cur], pw{p: append([]int(nil), path...), w: w, mask: mask})
	for nx := 0; nx < r.n; nx++ {
		if r.sp.has[cur][nx] && mask&(1<<uint(nx)) == 0 {
			r.dfs(s, nx, mask|1<<uint(nx), append(path, nx), w+r.sp.w[cur][nx])
		}
	}
}

// shortest returns the set of simple shortest paths from s to t.
func (r *ref) shortest(s, t int) []pw { return r.all[s][t][:r.nShort[s][t]] }

// dist is the true walk distance: -Inf when a negative cycle lies between s
// and t, the minimum simple path weight otherwise, +Inf when unreachable.
func (r *ref) dist(s, t int) float64 {
	if r.aff[s][t] {
		return math.Inf(-1)
	}
	return r.d[s][t]
}

const (
	uFalse = 0
	uTrue  = 1
	uDC    = 2
)

// unique3 is the three-valued reference for the documented `unique` result
// (only meaningful when no negative cycle affects (s,t) and t is reachable).
//
// Documentation: unique is false if more than one shortest path exists or if
// a zero-weight cycle exists in the path. Decided zones:
//   - two or more simple shortest paths               -> false
//   - one simple shortest path P, no zero-weight cycle
//     shares a node with P                            -> true
//   - one simple shortest path P and a zero-weight cycle that shares a node
//     with P and avoids the anchor end of the reconstruction (the source for
//     the predecessor-based trees, the target for Floyd-Warshall's
//     successor-based tree)                           -> false
//   - otherwise (every zero-weight cycle touching P passes through the
//     anchor end)                                     -> don't-care, see NOTES.md
func (r *ref) unique3(s, t int, forward bool) int {
	if r.nShort[s][t] >= 2 {
		return uFalse
	}
	pm := r.all[s][t][0].mask
	anchor := uint8(1) << uint(s)
	if forward {
		anchor = uint8(1) << uint(t)
	}
	touch := false
	for _, z := range r.zero {
		if z&pm == 0 {
			continue
		}
		touch = true
		if z&(z-1) == 0 {
			// a zero-weight SELF LOOP on the path: don't-care (zone 10 in
			// NOTES.md: Floyd-Warshall ignores non-negative self loops and
			// answers true, the predecessor-based trees answer false).
			continue
		}
		if z&anchor == 0 {
			return uFalse
		}
	}
	if !touch {
		return uTrue
	}
	return uDC
}

func pathKey(p []int) string {
	b := make([]byte, len(p))
	for i, v := range p {
		b[i] = byte('0' + v)
	}
	return string(b)
}
