package main

// Watchdog around case bodies. A change to gonum can make a search or a path
// reconstruction loop forever (for instance an inconsistent predecessor
// structure in AllShortest.Between); the case body therefore runs in its own
// goroutine and is abandoned after watchdogLimit: the case fails with class
// "no-termination" and the enumeration goes on. The value oracles are ordered
// so that weights are compared before any path is reconstructed, hence a wrong
// distance is normally reported before anything can hang.

import (
	"fmt"
	"runtime"
	"sync/atomic"
	"time"

	"gonum.org/v1/gonum/internal/verif/vlib"
)

// watchdogLimit is far above the duration of the slowest case (about 1 s on
// an idle core, 10-20 s when the box is heavily shared).
const watchdogLimit = 60 * time.Second

type guardState struct{ dead atomic.Bool }

// curGuard is the guard of the case body being executed (cases run one at a
// time). An abandoned body keeps a pointer to its own guard through its ctx /
// environment and stops itself (runtime.Goexit) at the next choke point, so
// that it never touches the vlib.T of a case that has already been reported.
var curGuard = &guardState{}

func (gs *guardState) alive() {
	if gs != nil && gs.dead.Load() {
		runtime.Goexit()
	}
}

// hungOnce is set by the first no-termination failure of this worker process:
// the abandoned goroutine keeps a core busy and the same defect would make
// most later cases wait for the watchdog as well (the internal deadline is
// only looked at every 64 cases), so the remaining cases of this shard are
// skipped and the run is marked as not exhaustive.
var hungOnce bool

func guard(t *vlib.T, body func()) {
	if hungOnce {
		t.Incomplete("case skipped: an earlier case of this shard did not terminate (class no-termination)")
		return
	}
	gs := &guardState{}
	curGuard = gs
	p, timedOut := vlib.RunWithWatchdog(body, watchdogLimit)
	if timedOut {
		gs.dead.Store(true)
		hungOnce = true
		t.NoConfirm()
		t.FailClass("no-termination", "the case body did not finish within %v: a gonum routine called by this case does not terminate (or is slower by orders of magnitude)", watchdogLimit)
		return
	}
	if p != nil {
		panic(fmt.Sprint(p))
	}
}

// guarded wraps a case body.
func guarded(body func(t *vlib.T)) func(t *vlib.T) {
	return func(t *vlib.T) { guard(t, func() { body(t) }) }
}

// gcase registers a case whose body runs under the watchdog.
func gcase(g *vlib.G, key string, body func(t *vlib.T)) { g.Case(key, guarded(body)) }
