package main

// Graph REPRESENTATIONS: every routine is run on thin views that expose
// exactly the minimal interface the routine documents, over the same real
// container, and must give the documented answers:
//
//   - graph.Graph + Weight(xid, yid) only (path.Weighted; no WeightedEdge, so
//     not a graph.Weighted): "If the graph does not implement Weighted,
//     UniformCost is used" in package path refers to path.Weighted, so
//     DijkstraFrom/FromTo/AllFrom, BellmanFord*, AStar, FloydWarshall,
//     JohnsonAllPaths and YenKShortestPaths must use the weights. For
//     DijkstraAllPaths and NewDStarLite, whose documentation names the long
//     gone interface "graph.Weighter" and whose code asserts graph.Weighted,
//     either reading is accepted as long as the whole answer is consistent
//     with one of them (don't-care zone 9 in NOTES.md).
//   - graph.Graph only (no Weight at all) over a WEIGHTED container: every
//     routine must behave as on the unit-weight graph (UniformCost).
//
// The views of directed graphs also implement graph.Directed (Yen decides by
// that interface whether removing an edge removes both orientations).
// traverse.Graph-only views are the container kinds kTrav / kUTrav of the sweeps.

import (
	"fmt"
	"math"

	"gonum.org/v1/gonum/graph"
	"gonum.org/v1/gonum/graph/path"
	"gonum.org/v1/gonum/graph/path/dynamic"
	"gonum.org/v1/gonum/graph/simple"
	"gonum.org/v1/gonum/internal/verif/vlib"
)

type viewW struct {
	ordBase
	wt func(xid, yid int64) (float64, bool)
}

func (v viewW) Weight(xid, yid int64) (float64, bool) { return v.wt(xid, yid) }

type viewWDir struct {
	ordDir
	wt func(xid, yid int64) (float64, bool)
}

func (v viewWDir) Weight(xid, yid int64) (float64, bool) { return v.wt(xid, yid) }

var (
	_ graph.Graph    = viewW{}
	_ path.Weighted  = viewW{}
	_ graph.Directed = viewWDir{}
	_ path.Weighted  = viewWDir{}
)

// buildViews returns the Weight-only view and the plain graph.Graph view of
// the simple weighted container of sp.
func buildViews(sp *spec, ids []int64, order int) (weightOnly, plain graph.Graph) {
	base := ordBase{pos: rank(ids, order)}
	if sp.directed {
		g := simple.NewWeightedDirectedGraph(0, math.Inf(1))
		for _, id := range ids {
			g.AddNode(simple.Node(id))
		}
		for i := 0; i < sp.n; i++ {
			for j := 0; j < sp.n; j++ {
				if sp.has[i][j] {
					g.SetWeightedEdge(simple.WeightedEdge{F: simple.Node(ids[i]), T: simple.Node(ids[j]), W: sp.w[i][j]})
				}
			}
		}
		base.g = g
		base.freeze()
		return viewWDir{ordDir{base, g}, g.Weight}, ordDir{base, g}
	}
	g := simple.NewWeightedUndirectedGraph(0, math.Inf(1))
	for _, id := range ids {
		g.AddNode(simple.Node(id))
	}
	for i := 0; i < sp.n; i++ {
		for j := i + 1; j < sp.n; j++ {
			if sp.has[i][j] {
				g.SetWeightedEdge(simple.WeightedEdge{F: simple.Node(ids[j]), T: simple.Node(ids[i]), W: sp.w[i][j]})
			}
		}
	}
	base.g = g
	base.freeze()
	return viewW{base, g.Weight}, ordUnd{base}
}

func unitSpec(sp *spec) *spec {
	u := *sp
	for i := 0; i < sp.n; i++ {
		for j := 0; j < sp.n; j++ {
			if u.has[i][j] {
				u.w[i][j] = 1
			}
		}
	}
	return &u
}

// newCtxWith is newCtx for a graph built by the caller.
func newCtxWith(t *vlib.T, r *ref, idKind int, gg graph.Graph, label string) *ctx {
	ids := idMap(idKind, r.n)
	c := &ctx{t: t, r: r, sp: r.sp, ids: ids, idx: make(map[int64]int, len(ids)), abs: absentIDs(ids), hmenu: hmenuAll, gs: curGuard}
	for i, id := range ids {
		c.idx[id] = i
	}
	c.tg, c.gg = gg, gg
	c.label = label + "/" + idMapNames[idKind]
	return c
}

// eitherReading checks DijkstraAllPaths and NewDStarLite on the Weight-only
// view: the answers must be those of the weighted graph throughout or those
// of the unit-weight graph throughout.
func (c *ctx) eitherReading(ru *ref, order int) {
	r, n := c.r, c.r.n
	// DijkstraAllPaths
	{
		var ap path.AllShortest
		msg := try(func() { ap = path.DijkstraAllPaths(c.gg) })
		switch {
		case msg == msgDijkstraNeg && r.anyNegEdge:
			c.count("weight_only_view:DijkstraAllPaths reads Weight", 1)
		case msg != "":
			c.failf("DijkstraAllPaths(Weight-only view)", 0, 0, "unexpected panic: %s", msg)
		default:
			eqW, eqU := !r.anyNegEdge, true
			for s := 0; s < n; s++ {
				for t := 0; t < n; t++ {
					w := ap.Weight(c.id(s), c.id(t))
					if w != r.d[s][t] {
						eqW = false
					}
					if w != ru.d[s][t] {
						eqU = false
					}
				}
			}
			switch {
			case eqW && eqU:
				c.count("weight_only_view:readings coincide", 1)
			case eqW:
				c.count("weight_only_view:DijkstraAllPaths reads Weight", 1)
			case eqU:
				c.count("weight_only_view:DijkstraAllPaths uses UniformCost", 1)
			default:
				c.failf("DijkstraAllPaths(Weight-only view)", 0, 0, "the distance matrix is neither that of the weighted graph nor that of the unit-weight graph")
			}
		}
	}
	// NewDStarLite + Path, every (s,t)
	pos := rank(c.ids, order)
	sawW, sawU := false, false
	for s := 0; s < n; s++ {
		for t := 0; t < n; t++ {
			if s == t {
				continue
			}
			var w float64
			msg := try(func() {
				d := dynamic.NewDStarLite(c.node(s), c.node(t), c.gg, nil, detModel{simple.NewWeightedDirectedGraph(0, math.Inf(1)), ordBase{pos: pos}})
				_, w = d.Path()
			})
			if msg != "" {
				if msg == "D* Lite: negative edge weight" && r.anyNegEdge {
					sawW = true
					continue
				}
				c.failf("NewDStarLite(Weight-only view)", s, t, "unexpected panic: %s", msg)
				return
			}
			okW := !r.anyNegEdge && w == r.d[s][t]
			okU := w == ru.d[s][t]
			switch {
			case okW && okU:
			case okW:
				sawW = true
			case okU:
				sawU = true
			default:
				c.failf("NewDStarLite(Weight-only view).Path", s, t, "weight %v is neither the weighted distance %v nor the hop count %v", w, r.d[s][t], ru.d[s][t])
				return
			}
		}
	}
	if sawW && sawU {
		c.failf("NewDStarLite(Weight-only view)", 0, 0, "some queries use the weights and others UniformCost")
	} else if sawU {
		c.count("weight_only_view:NewDStarLite uses UniformCost", 1)
	} else if sawW {
		c.count("weight_only_view:NewDStarLite reads Weight", 1)
	}
}

// runViews checks both views of one graph.
func runViews(t *vlib.T, sp *spec, gi int) {
	idk, order := gi%3, (gi/3)%3
	ids := idMap(idk, sp.n)
	wo, plain := buildViews(sp, ids, order)
	r := newRef(sp)
	ru := newRef(unitSpec(sp))
	// Weight-only view: weighted answers
	c := newCtxWith(t, r, idk, wo, "view(Graph+Weight)")
	c.weightOnly = true
	c.run()
	c.eitherReading(ru, order)
	if nonNegative(sp) {
		for s := 0; s < sp.n; s++ {
			for tt := 0; tt < sp.n; tt++ {
				for _, k := range yenKsLite {
					c.yen(s, tt, k, inf)
				}
			}
		}
	}
	// plain view: unit-weight answers
	cu := newCtxWith(t, ru, idk, plain, "view(Graph only, weighted container)")
	cu.run()
	for s := 0; s < sp.n; s++ {
		for tt := 0; tt < sp.n; tt++ {
			cu.yen(s, tt, -1, 1)
		}
	}
	t.Count("graphs_under_views", 1)
	mark(t, r)
}

func genViews(g *vlib.G) {
	ps3 := pairs(3, true)
	odometer(len(ps3), len(alphaA)+1, func(idx int, digits []int) bool {
		d := append([]int(nil), digits...)
		gcase(g, "n=3 dir w="+digitString(d, alphaA), func(t *vlib.T) {
			runViews(t, specFromDigits(3, true, ps3, d, alphaA), idx)
		})
		return !g.Stopped()
	})
	for n := 2; n <= 4; n++ {
		n := n
		ps := pairs(n, false)
		alpha := alphaBFull
		if n <= 3 {
			alpha = alphaA
		}
		odometer(len(ps), len(alpha)+1, func(idx int, digits []int) bool {
			d := append([]int(nil), digits...)
			gcase(g, fmt.Sprintf("n=%d und w=%s", n, digitString(d, alpha)), func(t *vlib.T) {
				runViews(t, specFromDigits(n, false, ps, d, alpha), idx)
			})
			return !g.Stopped()
		})
	}
	// 4-node digraphs over {absent,1,3}: index = 5 modulo 60 (quick) / 12 (thorough)
	ps4 := pairs(4, true)
	stride := vlib.Pick(g, 60, 12)
	odometer(len(ps4), 3, func(idx int, digits []int) bool {
		if idx%stride != 5 {
			return !g.Stopped()
		}
		d := append([]int(nil), digits...)
		gcase(g, "n=4 dir w="+digitString(d, alphaImprove), func(t *vlib.T) {
			runViews(t, specFromDigits(4, true, ps4, d, alphaImprove), idx)
		})
		return !g.Stopped()
	})
}

// loopDir / loopUnd add self loops (any weight) to a simple weighted graph,
// which cannot hold them itself: From(u) additionally yields u, Edge, Weight,
// WeightedEdge and HasEdge* answer for (u,u). The path routines accept any
// graph.Graph, so a user graph type may well have self loops.
type loopDir struct {
	ordWDir
	loops map[int64]float64
}

type loopUnd struct {
	ordWUnd
	loops map[int64]float64
}

func withLoop(it graph.Nodes, self graph.Node, pos map[int64]int) graph.Nodes {
	ns := append(graph.NodesOf(it), self)
	return ordBase{pos: pos}.sorted(fresh(ns))
}

func (g loopDir) From(id int64) graph.Nodes {
	if _, ok := g.loops[id]; ok {
		return withLoop(g.ordWDir.From(id), g.Node(id), g.pos)
	}
	return g.ordWDir.From(id)
}
func (g loopDir) To(id int64) graph.Nodes {
	if _, ok := g.loops[id]; ok {
		return withLoop(g.ordWDir.To(id), g.Node(id), g.pos)
	}
	return g.ordWDir.To(id)
}
func (g loopDir) loop(x, y int64) (float64, bool) {
	if x != y {
		return 0, false
	}
	w, ok := g.loops[x]
	return w, ok
}
func (g loopDir) HasEdgeBetween(x, y int64) bool {
	if _, ok := g.loop(x, y); ok {
		return true
	}
	return g.ordWDir.HasEdgeBetween(x, y)
}
func (g loopDir) HasEdgeFromTo(x, y int64) bool {
	if _, ok := g.loop(x, y); ok {
		return true
	}
	return g.ordWDir.HasEdgeFromTo(x, y)
}
func (g loopDir) Edge(x, y int64) graph.Edge {
	if e := g.WeightedEdge(x, y); e != nil {
		return e
	}
	return nil
}
func (g loopDir) WeightedEdge(x, y int64) graph.WeightedEdge {
	if w, ok := g.loop(x, y); ok {
		return simple.WeightedEdge{F: g.Node(x), T: g.Node(x), W: w}
	}
	return g.ordWDir.WeightedEdge(x, y)
}
func (g loopDir) Weight(x, y int64) (float64, bool) {
	if w, ok := g.loop(x, y); ok {
		return w, true
	}
	return g.ordWDir.Weight(x, y)
}

func (g loopUnd) From(id int64) graph.Nodes {
	if _, ok := g.loops[id]; ok {
		return withLoop(g.ordWUnd.From(id), g.Node(id), g.pos)
	}
	return g.ordWUnd.From(id)
}
func (g loopUnd) loop(x, y int64) (float64, bool) {
	if x != y {
		return 0, false
	}
	w, ok := g.loops[x]
	return w, ok
}
func (g loopUnd) HasEdgeBetween(x, y int64) bool {
	if _, ok := g.loop(x, y); ok {
		return true
	}
	return g.ordWUnd.HasEdgeBetween(x, y)
}
func (g loopUnd) Edge(x, y int64) graph.Edge {
	if e := g.WeightedEdge(x, y); e != nil {
		return e
	}
	return nil
}
func (g loopUnd) EdgeBetween(x, y int64) graph.Edge { return g.Edge(x, y) }
func (g loopUnd) WeightedEdge(x, y int64) graph.WeightedEdge {
	if w, ok := g.loop(x, y); ok {
		return simple.WeightedEdge{F: g.Node(x), T: g.Node(x), W: w}
	}
	return g.ordWUnd.WeightedEdge(x, y)
}
func (g loopUnd) WeightedEdgeBetween(x, y int64) graph.WeightedEdge { return g.WeightedEdge(x, y) }
func (g loopUnd) Weight(x, y int64) (float64, bool) {
	if w, ok := g.loop(x, y); ok {
		return w, true
	}
	return g.ordWUnd.Weight(x, y)
}

var (
	_ graph.WeightedDirected   = loopDir{}
	_ graph.WeightedUndirected = loopUnd{}
)

// buildLoopView builds the simple weighted graph of sp without its self
// loops behind a wrapper that adds them.
func buildLoopView(sp *spec, ids []int64, order int) graph.Graph {
	plain := *sp
	loops := map[int64]float64{}
	for i := 0; i < sp.n; i++ {
		if sp.has[i][i] {
			loops[ids[i]] = sp.w[i][i]
			plain.has[i][i] = false
			plain.w[i][i] = 0
		}
	}
	kind := []int{kSimpleAsc, kSimpleDesc, kSimpleRot}[order]
	_, gg := build(&plain, ids, kind)
	if sp.directed {
		return loopDir{gg.(ordWDir), loops}
	}
	return loopUnd{gg.(ordWUnd), loops}
}
