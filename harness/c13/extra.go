package main

import (
	"fmt"
	"math"

	"gonum.org/v1/gonum/graph"
	"gonum.org/v1/gonum/graph/path"
	"gonum.org/v1/gonum/internal/verif/vlib"
)

// genEmptyTree probes AllTo/AllToFunc for the source itself on the empty
// trees returned for an absent source ID (and for a sink seen through a bare
// traverse.Graph). The answer is a don't-care between "no path" and the
// trivial path, a runtime panic is not.
func genEmptyTree(g *vlib.G) {
	for n := 1; n <= 3; n++ {
		n := n
		ps := pairs(n, true)
		odometer(len(ps), 2, func(idx int, digits []int) bool {
			d := append([]int(nil), digits...)
			gcase(g, fmt.Sprintf("n=%d dir e=%s", n, digitString(d, alphaOne)), func(t *vlib.T) {
				r := newRef(specFromDigits(n, true, ps, d, alphaOne))
				for _, kind := range []int{kSimpleAsc, kMultiSum, kTrav, kUSimple, kUTrav} {
					for idk := 0; idk < 3; idk++ {
						c := newCtx(t, r, kind, idk)
						for s := 0; s <= n; s++ {
							if !c.dontCare(s, s) {
								continue
							}
							t.Nontrivial()
							src := c.node(s)
							da := path.DijkstraAllFrom(src, c.tg)
							ba, _ := path.BellmanFordAllFrom(src, c.tg)
							for k, sh := range []path.ShortestAlts{da, ba} {
								routine := []string{"DijkstraAllFrom", "BellmanFordAllFrom"}[k]
								var all, viaFn [][]graph.Node
								var w float64
								msg := try(func() {
									all, w = sh.AllTo(c.id(s))
									sh.AllToFunc(c.id(s), func(q []graph.Node) { viaFn = append(viaFn, append([]graph.Node(nil), q...)) })
								})
								t.Count("empty_tree_queries", 1)
								if msg != "" {
									c.classed("allto-empty-tree-self-panic", routine+".AllTo", s, s, "AllTo/AllToFunc(source) on the tree of an absent source panics: %s", msg)
									t.Outcome("panic")
									continue
								}
								trivial := len(all) == 1 && len(all[0]) == 1 && all[0][0].ID() == c.id(s) && w == 0
								none := len(all) == 0 && math.IsInf(w, 1)
								if !(trivial || none) || len(viaFn) != len(all) {
									c.failf(routine+".AllTo", s, s, "got %d paths weight %v (%d via AllToFunc): neither 'no path' nor the trivial path", len(all), w, len(viaFn))
								}
								if trivial {
									t.Outcome("trivial path")
								} else {
									t.Outcome("no path")
								}
							}
						}
					}
				}
			})
			return !g.Stopped()
		})
	}
}

// genBFNeg checks what the Bellman-Ford trees document for targets behind a
// negative cycle (To: weight -Inf; ShortestAlts.To: -Inf, unique=false;
// AllTo: nil, -Inf) on every 3-node digraph of space (a) that has a negative
// cycle, under two container/ID-map combinations.
func genBFNeg(g *vlib.G) {
	ps := pairs(3, true)
	odometer(len(ps), len(alphaA)+1, func(idx int, digits []int) bool {
		d := append([]int(nil), digits...)
		gcase(g, "n=3 dir w="+digitString(d, alphaA), func(t *vlib.T) {
			r := newRef(specFromDigits(3, true, ps, d, alphaA))
			if !r.anyNeg {
				t.Outcome("no negative cycle")
				return
			}
			t.Nontrivial()
			t.Outcome("negative cycle")
			for _, cb := range [][2]int{{kSimpleAsc, 0}, {kSimpleDesc, 2}} {
				c := newCtx(t, r, cb[0], cb[1])
				c.bfNeg = true
				for s := 0; s < r.n; s++ {
					c.bellmanFord(s)
				}
			}
		})
		return !g.Stopped()
	})
}

// genFWNeg checks Floyd-Warshall's documented answers for Between/AllBetween
// (u,u) when u lies on a closed walk through a negative cycle, on every
// 3-node digraph of space (a) with a negative cycle, under three node orders.
func genFWNeg(g *vlib.G) {
	ps := pairs(3, true)
	odometer(len(ps), len(alphaA)+1, func(idx int, digits []int) bool {
		d := append([]int(nil), digits...)
		gcase(g, "n=3 dir w="+digitString(d, alphaA), func(t *vlib.T) {
			r := newRef(specFromDigits(3, true, ps, d, alphaA))
			if !r.anyNeg {
				t.Outcome("no negative cycle")
				return
			}
			t.Nontrivial()
			t.Outcome("negative cycle")
			for _, cb := range [][2]int{{kSimpleAsc, 0}, {kSimpleDesc, 2}, {kSimpleRot, 1}} {
				c := newCtx(t, r, cb[0], cb[1])
				c.fwSelf = true
				ap, ok := path.FloydWarshall(c.gg)
				if ok {
					c.failf("FloydWarshall", 0, 0, "ok=true with a negative cycle")
					continue
				}
				c.checkAllShortest("FloydWarshall", ap, true, true)
			}
		})
		return !g.Stopped()
	})
}

var alphaNeg = []float64{-1, 1}

// genDg4Neg extends space (a) to four nodes for the routines that accept
// negative weights (Bellman-Ford, Floyd-Warshall, Johnson; DijkstraAllPaths
// for its documented panic): 4-node digraphs with each ordered pair in
// {absent,-1,1}; all 3^12 graphs in the thorough tier, the graphs with index
// congruent to 3 modulo 7 in the quick tier; one rotating container/ID-map
// combination per graph.
func genDg4Neg(g *vlib.G) {
	ps := pairs(4, true)
	thorough := g.Thorough()
	radix, tail := 3, 4
	head := len(ps) - tail
	odometer(head, radix, func(bidx int, hd []int) bool {
		h := append([]int(nil), hd...)
		gcase(g, fmt.Sprintf("n=4 dir w=%s+%d", digitString(h, alphaNeg), tail), func(t *vlib.T) {
			digits := make([]int, len(ps))
			copy(digits, h)
			nneg := 0
			odometer(tail, radix, func(tidx int, tl []int) bool {
				gi := bidx*81 + tidx
				if !thorough && gi%7 != 3 {
					return true
				}
				copy(digits[head:], tl)
				r := newRef(specFromDigits(4, true, ps, digits, alphaNeg))
				rot := int((uint64(gi)*2654435761 + 977) >> 7 % 15)
				c := newCtx(t, r, graphKinds[rot%5], rot/5)
				c.lite = true
				for s := 0; s < r.n; s++ {
					c.bellmanFord(s)
				}
				c.allPairs()
				t.Count("graphs", 1)
				if r.anyNeg {
					nneg++
				}
				return true
			})
			t.Nontrivial()
			t.Outcome(fmt.Sprintf("negcycle graphs in block: %d", nneg/8*8))
		})
		return !g.Stopped()
	})
}

const classCut = "zero-cycle-cut-invalid-path"

// sampleCap bounds the number of times a routine is re-run on a query whose
// answer depends on the uncontrolled random choice.
var sampleCap = 20000 // 12000 in the quick tier (the defect showed within 8465 calls on every flagged query)

// cutQueries runs, for every query (s,t) for which the model in cutmodel.go
// finds a sequence of random choices leading to an invalid answer, the real
// routines repeatedly until one returns a path that is not a simple shortest
// path (a violation, class zero-cycle-cut-invalid-path) or sampleCap is
// reached. It returns the number of flagged queries.
func (c *ctx) cutQueries() int {
	r, n := c.r, c.r.n
	flagged := 0
	type sampler struct {
		name string
		f    func() ([]graph.Node, float64)
	}
	for s := 0; s < n; s++ {
		var da, ba path.ShortestAlts
		haveD, haveB := false, false
		for t := 0; t < n; t++ {
			for dir := 0; dir < 2; dir++ {
				forward := dir == 1
				if !r.cutRisk(s, t, forward) {
					continue
				}
				flagged++
				var ss []sampler
				tid, sid := c.id(t), c.id(s)
				if !forward {
					if !r.negEdgeReach[s] {
						if !haveD {
							da, haveD = path.DijkstraAllFrom(c.node(s), c.tg), true
						}
						ss = append(ss, sampler{"DijkstraAllFrom.To", func() ([]graph.Node, float64) { p, w, _ := da.To(tid); return p, w }})
					}
					if !r.negReach[s] {
						if !haveB {
							ba, _ = path.BellmanFordAllFrom(c.node(s), c.tg)
							haveB = true
						}
						ss = append(ss, sampler{"BellmanFordAllFrom.To", func() ([]graph.Node, float64) { p, w, _ := ba.To(tid); return p, w }})
					}
					if c.gg != nil && !r.anyNegEdge {
						ap := path.DijkstraAllPaths(c.gg)
						ss = append(ss, sampler{"DijkstraAllPaths.Between", func() ([]graph.Node, float64) { p, w, _ := ap.Between(sid, tid); return p, w }})
					}
					if c.gg != nil && !r.anyNeg {
						ap, _ := path.JohnsonAllPaths(c.gg)
						ss = append(ss, sampler{"JohnsonAllPaths.Between", func() ([]graph.Node, float64) { p, w, _ := ap.Between(sid, tid); return p, w }})
					}
				} else if c.gg != nil && !r.anyNeg {
					ap, _ := path.FloydWarshall(c.gg)
					ss = append(ss, sampler{"FloydWarshall.Between", func() ([]graph.Node, float64) { p, w, _ := ap.Between(sid, tid); return p, w }})
				}
				for _, sm := range ss {
					hit := false
					nsamp := 0
					for i := 0; i < sampleCap && !hit; i++ {
						nsamp++
						var p []graph.Node
						var w float64
						if msg := try(func() { p, w = sm.f() }); msg != "" {
							c.classed(classCut, sm.name, s, t, "panic while cutting a zero-weight cycle: %s", msg)
							hit = true
							break
						}
						ix, pwt, msg := c.walk(p, s, t)
						switch {
						case w != r.d[s][t]:
							c.failf(sm.name, s, t, "weight %v, true distance %v", w, r.d[s][t])
							hit = true
						case msg != "":
							c.classed(classCut, sm.name, s, t, "with a zero-weight cycle among the shortest-path predecessors: %s (reported weight %v, sample %d)", msg, w, i)
							hit = true
						case pwt != w || !isSimple(ix):
							c.classed(classCut, sm.name, s, t, "with a zero-weight cycle among the shortest-path predecessors: path %s (edge weights sum to %v) returned with weight %v (sample %d)", ids(p), pwt, w, i)
							hit = true
						}
						c.count("cut_samples", 1)
					}
					if hit {
						c.t.Max("cut_max_samples_needed", int64(nsamp))
						c.count("cut_queries_confirmed", 1)
					} else {
						c.count("cut_queries_not_observed_in_samples", 1)
					}
				}
			}
		}
	}
	kind := "undirected"
	if c.sp.directed {
		kind = "directed"
	}
	c.count(fmt.Sprintf("cut_queries_flagged (n=%d %s)", n, kind), int64(flagged))
	return flagged
}

// genZeroCut: see cutQueries. Spaces: the digraphs of dg3, the undirected
// graphs on <= 4 nodes, the undirected 5-node graphs with all weights 0;
// thorough adds the undirected graphs on 5 nodes over {absent,0,1} and every
// 4-node digraph over {absent,0,1}.
func genZeroCut(g *vlib.G) {
	thorough := g.Thorough()
	sampleCap = vlib.Pick(g, 12000, 20000)
	one := func(t *vlib.T, r *ref, idx int) {
		if len(r.zero) == 0 {
			t.Outcome("no zero-weight cycle")
			return
		}
		c := newCtx(t, r, weightedKinds[idx%6], idx%3)
		if c.cutQueries() > 0 {
			t.Nontrivial()
			t.Outcome("flagged queries")
		} else {
			t.Outcome("zero-weight cycle, no flagged query")
		}
	}
	ps3 := pairs(3, true)
	odometer(len(ps3), len(alphaA)+1, func(idx int, digits []int) bool {
		d := append([]int(nil), digits...)
		gcase(g, "n=3 dir w="+digitString(d, alphaA), func(t *vlib.T) {
			one(t, newRef(specFromDigits(3, true, ps3, d, alphaA)), idx)
		})
		return !g.Stopped()
	})
	for n := 2; n <= 4; n++ {
		n := n
		ps := pairs(n, false)
		odometer(len(ps), len(alphaBFull)+1, func(idx int, digits []int) bool {
			d := append([]int(nil), digits...)
			gcase(g, fmt.Sprintf("n=%d und w=%s", n, digitString(d, alphaBFull)), func(t *vlib.T) {
				one(t, newRef(specFromDigits(n, false, ps, d, alphaBFull)), idx)
			})
			return !g.Stopped()
		})
	}
	alpha01 := []float64{0, 1}
	// quick and thorough: the 1024 undirected 5-node graphs whose edges all weigh 0
	{
		ps := pairs(5, false)
		alpha0 := []float64{0}
		odometer(len(ps), 2, func(idx int, digits []int) bool {
			d := append([]int(nil), digits...)
			gcase(g, "n=5 und w="+digitString(d, alpha0), func(t *vlib.T) {
				r := newRef(specFromDigits(5, false, ps, d, alpha0))
				if !thorough && idx%2 == 0 {
					// quick: the model on every graph, sampling on every second
					n := 0
					for s := 0; s < r.n; s++ {
						for tt := 0; tt < r.n; tt++ {
							if r.cutRisk(s, tt, false) || r.cutRisk(s, tt, true) {
								n++
							}
						}
					}
					t.Count("cut_queries_flagged_not_sampled", int64(n))
					t.Outcome("model only")
					return
				}
				one(t, r, idx)
			})
			return !g.Stopped()
		})
	}
	scan := func(n int, directed bool, tail int) {
		ps := pairs(n, directed)
		radix := 3
		head := len(ps) - tail
		kind := "und"
		if directed {
			kind = "dir"
		}
		odometer(head, radix, func(bidx int, hd []int) bool {
			h := append([]int(nil), hd...)
			gcase(g, fmt.Sprintf("n=%d %s w=%s+%d", n, kind, digitString(h, alpha01), tail), func(t *vlib.T) {
				digits := make([]int, len(ps))
				copy(digits, h)
				fl := 0
				odometer(tail, radix, func(tidx int, tl []int) bool {
					copy(digits[head:], tl)
					r := newRef(specFromDigits(n, directed, ps, digits, alpha01))
					if len(r.zero) == 0 {
						return true
					}
					gi := bidx*pow(radix, tail) + tidx
					if gi%4 != 1 {
						// the model is evaluated for every graph, the real
						// routines are sampled on every 4th graph
						for s := 0; s < r.n; s++ {
							for tt := 0; tt < r.n; tt++ {
								if r.cutRisk(s, tt, false) || r.cutRisk(s, tt, true) {
									t.Count("cut_queries_flagged_not_sampled", 1)
								}
							}
						}
						return true
					}
					fl += newCtx(t, r, weightedKinds[gi%6], gi%3).cutQueries()
					return true
				})
				if fl > 0 {
					t.Nontrivial()
					t.Outcome("flagged queries")
				} else {
					t.Outcome("no flagged query")
				}
			})
			return !g.Stopped()
		})
	}
	if g.Thorough() {
		scan(5, false, 4)
		scan(4, true, 4)
	}
}

// genSelfLoop: graphs WITH SELF LOOPS of weight -1, 0, 1 or 2. gonum's simple
// graphs cannot hold them, multigraphs and user graph types can, and the path
// routines accept any graph.Graph. A negative self loop is a negative cycle
// through its node (ok=false / -Inf for everything routed through it, the
// documented panic of the Dijkstra family), a zero-weight one a zero-weight
// cycle (never returned, `unique` false when it touches the path), a
// positive one changes nothing. Spaces: 2-node graphs over {absent,-1,0,1,2}
// and 3-node graphs over {absent,1} (thorough {absent,1,2}), directed and
// undirected, self loops in {absent,-1,0,1,2} on every node (n=2) resp. on at
// most two nodes (n=3), at least one. Containers: multi-sum, multi-min and a
// wrapper that adds the loops to a simple graph (three node orders); three ID
// maps rotating. Every static routine (ctx.run) plus Yen on the graphs
// without negative weights.
func genSelfLoop(g *vlib.G) {
	loopAlpha := alphaA // -1, 0, 1, 2
	for _, directed := range []bool{true, false} {
		for n := 2; n <= 3; n++ {
			n, directed := n, directed
			ps := pairs(n, directed)
			alpha := alphaA
			if n == 3 {
				alpha = vlib.Pick(g, alphaOne, alphaB)
			}
			kind := "und"
			if directed {
				kind = "dir"
			}
			odometer(len(ps), len(alpha)+1, func(idx int, digits []int) bool {
				d := append([]int(nil), digits...)
				odometer(n, len(loopAlpha)+1, func(lidx int, loops []int) bool {
					nl := 0
					for _, v := range loops {
						if v > 0 {
							nl++
						}
					}
					if nl == 0 || nl > 2 {
						return true
					}
					l := append([]int(nil), loops...)
					gcase(g, fmt.Sprintf("n=%d %s w=%s loops=%s", n, kind, digitString(d, alpha), digitString(l, loopAlpha)), func(t *vlib.T) {
						sp := specFromDigits(n, directed, ps, d, alpha)
						for i, v := range l {
							if v > 0 {
								sp.has[i][i] = true
								sp.w[i][i] = loopAlpha[v-1]
							}
						}
						r := newRef(sp)
						gi := idx*7 + lidx
						var cs []*ctx
						cs = append(cs, newCtx(t, r, kMultiSum, gi%3), newCtx(t, r, kMultiMin, (gi+1)%3))
						for order := 0; order < 3; order++ {
							idk := (gi + order) % 3
							cs = append(cs, newCtxWith(t, r, idk, buildLoopView(sp, idMap(idk, n), order), fmt.Sprintf("loopview-order%d", order)))
						}
						for _, c := range cs {
							c.run()
							if nonNegative(sp) {
								for s := 0; s < n; s++ {
									for tt := 0; tt < n; tt++ {
										c.yen(s, tt, -1, inf)
										c.yen(s, tt, 2, 1)
									}
								}
							}
						}
						t.Nontrivial()
						t.Outcome(features(r))
					})
					return !g.Stopped()
				})
				return !g.Stopped()
			})
		}
	}
}
