package main

import (
	"fmt"
	"math"

	"gonum.org/v1/gonum/graph"
	"gonum.org/v1/gonum/graph/path"
	"gonum.org/v1/gonum/internal/verif/vlib"
)

// genEmptyTree probes AllTo/AllToFunc for the source itself on the empty
// trees returned for an absent source ID (and for a sink seen through a bare
// traverse.Graph). The answer is a don't-care between "no path" and the
// trivial path, a runtime panic is not.
func genEmptyTree(g *vlib.G) {
	for n := 1; n <= 3; n++ {
		n := n
		ps := pairs(n, true)
		odometer(len(ps), 2, func(idx int, digits []int) bool {
			d := append([]int(nil), digits...)
			g.Case(fmt.Sprintf("n=%d dir e=%s", n, digitString(d, alphaOne)), func(t *vlib.T) {
				r := newRef(specFromDigits(n, true, ps, d, alphaOne))
				for _, kind := range []int{kSimpleAsc, kMultiSum, kTrav, kUSimple, kUTrav} {
					for idk := 0; idk < 3; idk++ {
						c := newCtx(t, r, kind, idk)
						for s := 0; s <= n; s++ {
							if !c.dontCare(s, s) {
								continue
							}
							t.Nontrivial()
							src := c.node(s)
							da := path.DijkstraAllFrom(src, c.tg)
							ba, _ := path.BellmanFordAllFrom(src, c.tg)
							for k, sh := range []path.ShortestAlts{da, ba} {
								routine := []string{"DijkstraAllFrom", "BellmanFordAllFrom"}[k]
								var all, viaFn [][]graph.Node
								var w float64
								msg := try(func() {
									all, w = sh.AllTo(c.id(s))
									sh.AllToFunc(c.id(s), func(q []graph.Node) { viaFn = append(viaFn, append([]graph.Node(nil), q...)) })
								})
								t.Count("empty_tree_queries", 1)
								if msg != "" {
									c.classed("allto-empty-tree-self-panic", routine+".AllTo", s, s, "AllTo/AllToFunc(source) on the tree of an absent source panics: %s", msg)
									t.Outcome("panic")
									continue
								}
								trivial := len(all) == 1 && len(all[0]) == 1 && all[0][0].ID() == c.id(s) && w == 0
								none := len(all) == 0 && math.IsInf(w, 1)
								if !(trivial || none) || len(viaFn) != len(all) {
									c.failf(routine+".AllTo", s, s, "got %d paths weight %v (%d via AllToFunc): neither 'no path' nor the trivial path", len(all), w, len(viaFn))
								}
								if trivial {
									t.Outcome("trivial path")
								} else {
									t.Outcome("no path")
								}
							}
						}
					}
				}
			})
			return !g.Stopped()
		})
	}
}

// genBFNeg checks what the Bellman-Ford trees document for targets behind a
// negative cycle (To: weight -Inf; ShortestAlts.To: -Inf, unique=false;
// AllTo: nil, -Inf) on every 3-node digraph of space (a) that has a negative
// cycle, under two container/ID-map combinations.
func genBFNeg(g *vlib.G) {
	ps := pairs(3, true)
	odometer(len(ps), len(alphaA)+1, func(idx int, digits []int) bool {
		d := append([]int(nil), digits...)
		g.Case("n=3 dir w="+digitString(d, alphaA), func(t *vlib.T) {
			r := newRef(specFromDigits(3, true, ps, d, alphaA))
			if !r.anyNeg {
				t.Outcome("no negative cycle")
				return
			}
			t.Nontrivial()
			t.Outcome("negative cycle")
			for _, cb := range [][2]int{{kSimpleAsc, 0}, {kSimpleDesc, 2}} {
				c := newCtx(t, r, cb[0], cb[1])
				c.bfNeg = true
				for s := 0; s < r.n; s++ {
					c.bellmanFord(s)
				}
			}
		})
		return !g.Stopped()
	})
}

// genFWNeg checks Floyd-Warshall's documented answers for Between/AllBetween
// (u,u) when u lies on a closed walk through a negative cycle, on every
// 3-node digraph of space (a) with a negative cycle, under three node orders.
func genFWNeg(g *vlib.G) {
	ps := pairs(3, true)
	odometer(len(ps), len(alphaA)+1, func(idx int, digits []int) bool {
		d := append([]int(nil), digits...)
		g.Case("n=3 dir w="+digitString(d, alphaA), func(t *vlib.T) {
			r := newRef(specFromDigits(3, true, ps, d, alphaA))
			if !r.anyNeg {
				t.Outcome("no negative cycle")
				return
			}
			t.Nontrivial()
			t.Outcome("negative cycle")
			for _, cb := range [][2]int{{kSimpleAsc, 0}, {kSimpleDesc, 2}, {kSimpleRot, 1}} {
				c := newCtx(t, r, cb[0], cb[1])
				c.fwSelf = true
				ap, ok := path.FloydWarshall(c.gg)
				if ok {
					c.failf("FloydWarshall", 0, 0, "ok=true with a negative cycle")
					continue
				}
				c.checkAllShortest("FloydWarshall", ap, true, true)
			}
		})
		return !g.Stopped()
	})
}
