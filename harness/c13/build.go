package main

// Construction of the gonum graphs under test from a spec: the real
// containers (simple, multi), deterministic-iteration-order wrappers around
// them, and a wrapper that hides everything but traverse.Graph + Weight.

import (
	"math"

	"gonum.org/v1/gonum/graph"
	"gonum.org/v1/gonum/graph/iterator"
	"gonum.org/v1/gonum/graph/multi"
	"gonum.org/v1/gonum/graph/simple"
	"gonum.org/v1/gonum/graph/traverse"
)

// ID maps.
var idMapNames = []string{"ident", "rev", "sparse"}

func idMap(kind, n int) []int64 {
	ids := make([]int64, n)
	sparse := []int64{7, -3, 1 << 40, 0, 11}
	for i := range ids {
		switch kind {
		case 0:
			ids[i] = int64(i)
		case 1:
			ids[i] = int64(n - 1 - i)
		default:
			ids[i] = sparse[i]
		}
	}
	return ids
}

// absentIDs returns two IDs that are not nodes of the graph.
func absentIDs(ids []int64) [2]int64 {
	var out [2]int64
	k := 0
	for _, c := range []int64{int64(len(ids)), -1, 5, 1<<40 + 1, 99} {
		ok := true
		for _, id := range ids {
			if id == c {
				ok = false
			}
		}
		if ok {
			out[k] = c
			k++
			if k == 2 {
				break
			}
		}
	}
	return out
}

// Container kinds. Every container is handed to gonum behind a thin wrapper
// that fixes the iteration order of Nodes/From/To (the real containers iterate
// Go maps, i.e. in a different order on every call, which would make a
// failing case irreproducible); everything else (Node, Edge, Weight,
// WeightedEdge, HasEdge...) is answered by the real container.
const (
	kSimpleAsc  = iota // simple.Weighted{Directed,Undirected}Graph, ascending node-index order
	kSimpleDesc        // ... descending order
	kSimpleRot         // ... order 1,2,..,n-1,0
	kMultiSum          // multi.Weighted*Graph, default EdgeWeightFunc (sum of the parallel lines), ascending
	kMultiMin          // multi.Weighted*Graph, EdgeWeightFunc = minimum line weight, descending
	kTrav              // simple graph exposed as traverse.Graph + Weight only, ascending
	nWeightedKinds
)

const (
	kUSimple = iota + 10 // simple.{Directed,Undirected}Graph (no Weight: UniformCost), descending
	kUMulti              // multi.{Directed,Undirected}Graph with doubled lines, ascending
	kURot                // simple unweighted, rotated order
	kUTrav               // traverse.Graph only
)

var kindNames = map[int]string{
	kSimpleAsc: "simple-asc", kSimpleDesc: "simple-desc", kSimpleRot: "simple-rot", kMultiSum: "multisum-asc", kMultiMin: "multimin-desc", kTrav: "trav-asc",
	kUSimple: "usimple-desc", kUMulti: "umulti-asc", kURot: "usimple-rot", kUTrav: "utrav-asc",
}

var weightedKinds = []int{kSimpleAsc, kSimpleDesc, kSimpleRot, kMultiSum, kMultiMin, kTrav}
var unweightedKinds = []int{kUSimple, kUMulti, kURot, kUTrav}

const (
	ordAsc = iota
	ordDesc
	ordRot
)

func minLines(ls graph.WeightedLines) float64 {
	m := math.Inf(1)
	if ls == nil {
		return m
	}
	for ls.Next() {
		if w := ls.WeightedLine().Weight(); w < m {
			m = w
		}
	}
	ls.Reset()
	return m
}

// rank gives the iteration rank of every ID for an order kind.
func rank(ids []int64, order int) map[int64]int {
	n := len(ids)
	pos := make(map[int64]int, n)
	for i, id := range ids {
		switch order {
		case ordAsc:
			pos[id] = i
		case ordDesc:
			pos[id] = n - 1 - i
		default:
			pos[id] = (i + n - 1) % n
		}
	}
	return pos
}

// build returns the graph as a traverse.Graph (always) and as a graph.Graph
// (nil for the traverse-only kinds).
func build(sp *spec, ids []int64, kind int) (traverse.Graph, graph.Graph) {
	n := sp.n
	each := func(f func(i, j int, w float64)) {
		for i := 0; i < n; i++ {
			for j := 0; j < n; j++ {
				if !sp.has[i][j] || (!sp.directed && j < i) {
					continue
				}
				f(i, j, sp.w[i][j])
			}
		}
	}
	order := map[int]int{kSimpleAsc: ordAsc, kSimpleDesc: ordDesc, kSimpleRot: ordRot, kMultiSum: ordAsc, kMultiMin: ordDesc, kTrav: ordAsc,
		kUSimple: ordDesc, kUMulti: ordAsc, kURot: ordRot, kUTrav: ordAsc}[kind]
	base := ordBase{pos: rank(ids, order)}
	switch kind {
	case kSimpleAsc, kSimpleDesc, kSimpleRot, kTrav:
		if sp.directed {
			g := simple.NewWeightedDirectedGraph(0, math.Inf(1))
			for _, id := range ids {
				g.AddNode(simple.Node(id))
			}
			each(func(i, j int, w float64) {
				g.SetWeightedEdge(simple.WeightedEdge{F: simple.Node(ids[i]), T: simple.Node(ids[j]), W: w})
			})
			base.g = g
			base.freeze()
			if kind == kTrav {
				return travW{base, g}, nil
			}
			o := ordWDir{ordDir{base, g}, g}
			return o, o
		}
		g := simple.NewWeightedUndirectedGraph(0, math.Inf(1))
		for _, id := range ids {
			g.AddNode(simple.Node(id))
		}
		each(func(i, j int, w float64) {
			// alternate the stored orientation
			if (i+j)%2 == 0 {
				i, j = j, i
			}
			g.SetWeightedEdge(simple.WeightedEdge{F: simple.Node(ids[i]), T: simple.Node(ids[j]), W: w})
		})
		base.g = g
		base.freeze()
		if kind == kTrav {
			return travW{base, g}, nil
		}
		o := ordWUnd{base, g}
		return o, o

	case kMultiSum, kMultiMin:
		// every edge is two parallel lines whose summary is the spec weight
		split := func(w float64) (float64, float64) {
			if kind == kMultiSum {
				return w + 1, -1
			}
			return w + 3, w
		}
		if sp.directed {
			g := multi.NewWeightedDirectedGraph()
			if kind == kMultiMin {
				g.EdgeWeightFunc = minLines
			}
			for _, id := range ids {
				g.AddNode(multi.Node(id))
			}
			each(func(i, j int, w float64) {
				a, b := split(w)
				g.SetWeightedLine(g.NewWeightedLine(multi.Node(ids[i]), multi.Node(ids[j]), a))
				g.SetWeightedLine(g.NewWeightedLine(multi.Node(ids[i]), multi.Node(ids[j]), b))
			})
			base.g = g
			base.freeze()
			o := ordWDir{ordDir{base, g}, g}
			return o, o
		}
		g := multi.NewWeightedUndirectedGraph()
		if kind == kMultiMin {
			g.EdgeWeightFunc = minLines
		}
		for _, id := range ids {
			g.AddNode(multi.Node(id))
		}
		each(func(i, j int, w float64) {
			a, b := split(w)
			// the two lines are stored with opposite orientations
			g.SetWeightedLine(g.NewWeightedLine(multi.Node(ids[i]), multi.Node(ids[j]), a))
			g.SetWeightedLine(g.NewWeightedLine(multi.Node(ids[j]), multi.Node(ids[i]), b))
		})
		base.g = g
		base.freeze()
		o := ordWUnd{base, g}
		return o, o

	case kUSimple, kURot, kUTrav:
		if sp.directed {
			g := simple.NewDirectedGraph()
			for _, id := range ids {
				g.AddNode(simple.Node(id))
			}
			each(func(i, j int, w float64) {
				g.SetEdge(simple.Edge{F: simple.Node(ids[i]), T: simple.Node(ids[j])})
			})
			base.g = g
			base.freeze()
			if kind == kUTrav {
				return trav{base}, nil
			}
			o := ordDir{base, g}
			return o, o
		}
		g := simple.NewUndirectedGraph()
		for _, id := range ids {
			g.AddNode(simple.Node(id))
		}
		each(func(i, j int, w float64) {
			if (i+j)%2 == 0 {
				i, j = j, i
			}
			g.SetEdge(simple.Edge{F: simple.Node(ids[i]), T: simple.Node(ids[j])})
		})
		base.g = g
		base.freeze()
		if kind == kUTrav {
			return trav{base}, nil
		}
		o := ordUnd{base}
		return o, o

	case kUMulti:
		if sp.directed {
			g := multi.NewDirectedGraph()
			for _, id := range ids {
				g.AddNode(multi.Node(id))
			}
			each(func(i, j int, w float64) {
				g.SetLine(g.NewLine(multi.Node(ids[i]), multi.Node(ids[j])))
				g.SetLine(g.NewLine(multi.Node(ids[i]), multi.Node(ids[j])))
			})
			base.g = g
			base.freeze()
			o := ordDir{base, g}
			return o, o
		}
		g := multi.NewUndirectedGraph()
		for _, id := range ids {
			g.AddNode(multi.Node(id))
		}
		each(func(i, j int, w float64) {
			g.SetLine(g.NewLine(multi.Node(ids[i]), multi.Node(ids[j])))
			g.SetLine(g.NewLine(multi.Node(ids[j]), multi.Node(ids[i])))
		})
		base.g = g
		base.freeze()
		o := ordUnd{base}
		return o, o
	}
	panic("unknown container kind")
}

// ordBase presents a graph with a deterministic iteration order of Nodes and
// From (ascending or descending node index), so that the internal dense
// indices of the shortest-path trees are controlled by the harness and differ
// from the ID order.
type ordBase struct {
	g   graph.Graph
	pos map[int64]int
	// adj caches the ordered successor lists (filled by freeze for the
	// static graphs; the D* Lite worlds, which change, leave it nil).
	adj map[int64][]graph.Node
	all []graph.Node
}

// freeze reads Nodes and From of the real container once and caches the
// ordered lists.
func (o *ordBase) freeze() {
	o.all = graph.NodesOf(o.sorted(o.g.Nodes()))
	o.adj = make(map[int64][]graph.Node, len(o.all))
	for _, n := range o.all {
		o.adj[n.ID()] = graph.NodesOf(o.sorted(o.g.From(n.ID())))
	}
}

func fresh(ns []graph.Node) graph.Nodes {
	if len(ns) == 0 {
		return graph.Empty
	}
	// always a fresh slice: callers such as Yen's adjuster modify the slice
	// they obtain from the iterator.
	return iterator.NewOrderedNodes(append([]graph.Node(nil), ns...))
}

func (o ordBase) sorted(it graph.Nodes) graph.Nodes {
	ns := graph.NodesOf(it)
	if len(ns) == 0 {
		return graph.Empty
	}
	// insertion sort (at most 5 elements) into a fresh slice.
	out := make([]graph.Node, 0, len(ns))
	for _, x := range ns {
		r := o.pos[x.ID()]
		k := len(out)
		out = append(out, x)
		for k > 0 && o.pos[out[k-1].ID()] > r {
			out[k] = out[k-1]
			k--
		}
		out[k] = x
	}
	return iterator.NewOrderedNodes(out)
}

func (o ordBase) Node(id int64) graph.Node { return o.g.Node(id) }
func (o ordBase) Nodes() graph.Nodes {
	if o.adj != nil {
		return fresh(o.all)
	}
	return o.sorted(o.g.Nodes())
}
func (o ordBase) From(id int64) graph.Nodes {
	if o.adj != nil {
		return fresh(o.adj[id])
	}
	return o.sorted(o.g.From(id))
}
func (o ordBase) HasEdgeBetween(xid, yid int64) bool { return o.g.HasEdgeBetween(xid, yid) }
func (o ordBase) Edge(uid, vid int64) graph.Edge     { return o.g.Edge(uid, vid) }

// ordUnd is an unweighted undirected ordered graph (not graph.Directed).
type ordUnd struct{ ordBase }

func (o ordUnd) EdgeBetween(xid, yid int64) graph.Edge {
	return o.g.(graph.Undirected).EdgeBetween(xid, yid)
}

// ordDir is an unweighted directed ordered graph.
type ordDir struct {
	ordBase
	d graph.Directed
}

func (o ordDir) HasEdgeFromTo(uid, vid int64) bool { return o.d.HasEdgeFromTo(uid, vid) }
func (o ordDir) To(id int64) graph.Nodes           { return o.sorted(o.d.To(id)) }

// ordWDir is a weighted directed ordered graph (graph.WeightedDirected).
type ordWDir struct {
	ordDir
	w graph.Weighted
}

func (o ordWDir) Weight(xid, yid int64) (float64, bool)          { return o.w.Weight(xid, yid) }
func (o ordWDir) WeightedEdge(uid, vid int64) graph.WeightedEdge { return o.w.WeightedEdge(uid, vid) }

// ordWUnd is a weighted undirected ordered graph.
type ordWUnd struct {
	ordBase
	w graph.WeightedUndirected
}

func (o ordWUnd) Weight(xid, yid int64) (float64, bool)          { return o.w.Weight(xid, yid) }
func (o ordWUnd) WeightedEdge(uid, vid int64) graph.WeightedEdge { return o.w.WeightedEdge(uid, vid) }
func (o ordWUnd) EdgeBetween(xid, yid int64) graph.Edge          { return o.w.WeightedEdgeBetween(xid, yid) }
func (o ordWUnd) WeightedEdgeBetween(xid, yid int64) graph.WeightedEdge {
	return o.w.WeightedEdgeBetween(xid, yid)
}

// trav is only a traverse.Graph; travW adds Weight (path.Weighted).
type trav struct{ o ordBase }

func (t trav) From(id int64) graph.Nodes      { return t.o.From(id) }
func (t trav) Edge(uid, vid int64) graph.Edge { return t.o.Edge(uid, vid) }

type travW struct {
	o ordBase
	w graph.Weighted
}

func (t travW) From(id int64) graph.Nodes             { return t.o.From(id) }
func (t travW) Edge(uid, vid int64) graph.Edge        { return t.o.Edge(uid, vid) }
func (t travW) Weight(xid, yid int64) (float64, bool) { return t.w.Weight(xid, yid) }

var (
	_ graph.WeightedDirected   = ordWDir{}
	_ graph.WeightedUndirected = ordWUnd{}
	_ graph.Directed           = ordDir{}
	_ graph.Undirected         = ordUnd{}
	_ graph.Undirected         = ordWUnd{}
	_ traverse.Graph           = trav{}
)
