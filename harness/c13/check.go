package main

// Oracles for the static shortest-path routines of graph/path. Every
// expectation comes from ref (brute force over simple paths and cycles).

import (
	"fmt"
	"math"
	"strings"

	"gonum.org/v1/gonum/graph"
	"gonum.org/v1/gonum/graph/path"
	"gonum.org/v1/gonum/graph/simple"
	"gonum.org/v1/gonum/graph/traverse"
	"gonum.org/v1/gonum/internal/verif/vlib"
)

type ctx struct {
	t     *vlib.T
	r     *ref
	sp    *spec
	ids   []int64
	idx   map[int64]int
	abs   [2]int64
	tg    traverse.Graph
	gg    graph.Graph // nil for traverse-only containers
	label string
	trav  bool
	hmenu []int // A* heuristics from the menu to use (absent targets: heuristic 0 only)
	// bfNeg enables the check of the documented -Inf answers of the
	// Bellman-Ford trees behind a negative cycle (group "bf-negcycle" only;
	// the sweeps check the ok flag and the absence of panics).
	bfNeg bool
	// fwSelf enables the check of Floyd-Warshall's Between/AllBetween(u,u)
	// for u on a closed walk through a negative cycle (group "fw-negcycle").
	fwSelf bool
	// astarInc enables the optimality check of A* under admissible but
	// inconsistent heuristics (group "astar-heuristics").
	astarInc bool
	// lite (quick sweep of the 4-node space) drops the second absent target
	// ID and the ...Func variants of the all-paths queries, which the other
	// groups cover.
	lite bool
	// yenK0 enables the check of YenKShortestPaths with k = 0.
	yenK0 bool
	gs    *guardState
	// weightOnly: the graph is a graph.Graph + Weight view without
	// WeightedEdge; DijkstraAllPaths is then checked by eitherReading.
	weightOnly bool
}

// nT is the number of target indices: the nodes and one or two absent IDs.
func (c *ctx) nT() int {
	if c.lite {
		return c.r.n + 1
	}
	return c.r.n + 2
}

func newCtx(t *vlib.T, r *ref, kind, idKind int) *ctx {
	ids := idMap(idKind, r.n)
	c := &ctx{t: t, r: r, sp: r.sp, ids: ids, idx: make(map[int64]int, len(ids)), abs: absentIDs(ids), hmenu: hmenuAll, gs: curGuard}
	for i, id := range ids {
		c.idx[id] = i
	}
	c.tg, c.gg = build(r.sp, ids, kind)
	c.trav = c.gg == nil
	c.label = kindNames[kind] + "/" + idMapNames[idKind]
	return c
}

// Node indices: 0..n-1 are nodes, n and n+1 are two absent IDs.
func (c *ctx) id(i int) int64 {
	if i < c.r.n {
		return c.ids[i]
	}
	return c.abs[i-c.r.n]
}
func (c *ctx) node(i int) graph.Node { return simple.Node(c.id(i)) }
func (c *ctx) present(i int) bool    { return i < c.r.n }
func (c *ctx) name(i int) string {
	if i < c.r.n {
		return fmt.Sprintf("%d(id %d)", i, c.ids[i])
	}
	return fmt.Sprintf("absent(id %d)", c.id(i))
}

func (c *ctx) sink(s int) bool {
	for j := 0; j < c.r.n; j++ {
		if c.sp.has[s][j] {
			return false
		}
	}
	return true
}

// count is t.Count behind the watchdog check (see guard.go).
func (c *ctx) count(name string, n int64) {
	c.gs.alive()
	c.t.Count(name, n)
}

func (c *ctx) failf(routine string, s, t int, f string, a ...any) {
	c.count("violations:"+routine, 1)
	c.t.Failf("[%s %s s=%s t=%s] %s", c.label, routine, c.name(s), c.name(t), fmt.Sprintf(f, a...))
}

// classed records a violation with a finding class (its own sub-key, so
// that a listed known finding never masks an unclassified failure of the
// same case).
func (c *ctx) classed(class, routine string, s, t int, f string, a ...any) {
	sub := fmt.Sprintf("%s %s s=%d t=%d", c.label, routine, s, t)
	c.count("violations:"+class, 1)
	c.t.SubViolation(sub, class, nil, "[%s %s s=%s t=%s] %s", c.label, routine, c.name(s), c.name(t), fmt.Sprintf(f, a...))
}

// try runs f and returns the recovered panic value rendered as a string ("" if none).
func try(f func()) (msg string) {
	defer func() {
		if e := recover(); e != nil {
			msg = fmt.Sprint(e)
			if msg == "" {
				msg = "panic"
			}
		}
	}()
	f()
	return ""
}

// want is the expected weight for a query on a graph without a negative
// cycle affecting (s,t).
func (c *ctx) want(s, t int) float64 {
	if !c.present(s) || !c.present(t) {
		return inf
	}
	return c.r.d[s][t]
}

// dontCare reports the queries whose answer the documentation leaves open:
// s == t for an absent ID (AllShortest.Between answers ([id],0), Weight +Inf,
// the single-source trees +Inf), and s == t for a sink seen through a bare
// traverse.Graph, which cannot be told apart from an absent node.
func (c *ctx) dontCare(s, t int) bool {
	if s != t {
		return false
	}
	if !c.present(s) {
		return true
	}
	return c.trav && c.sink(s)
}

func ids(p []graph.Node) string {
	var b strings.Builder
	b.WriteByte('[')
	for i, n := range p {
		if i > 0 {
			b.WriteByte(' ')
		}
		if n == nil {
			b.WriteString("nil")
		} else {
			fmt.Fprint(&b, n.ID())
		}
	}
	b.WriteByte(']')
	return b.String()
}

// walk verifies that p is a real walk from s to t and returns its node
// indices and total weight.
func (c *ctx) walk(p []graph.Node, s, t int) (ix []int, w float64, msg string) {
	if len(p) == 0 {
		return nil, 0, "empty path"
	}
	ix = make([]int, len(p))
	for k, nd := range p {
		if nd == nil {
			return nil, 0, "nil node in path"
		}
		i, ok := c.idx[nd.ID()]
		if !ok {
			return nil, 0, fmt.Sprintf("node id %d is not in the graph", nd.ID())
		}
		ix[k] = i
	}
	if ix[0] != s {
		return ix, 0, fmt.Sprintf("path %s does not start at the source", ids(p))
	}
	if ix[len(ix)-1] != t {
		return ix, 0, fmt.Sprintf("path %s does not end at the target", ids(p))
	}
	for k := 1; k < len(ix); k++ {
		if !c.sp.has[ix[k-1]][ix[k]] {
			return ix, 0, fmt.Sprintf("path %s uses the non-existent edge %d->%d", ids(p), p[k-1].ID(), p[k].ID())
		}
		w += c.sp.w[ix[k-1]][ix[k]]
	}
	return ix, w, ""
}

func isSimple(ix []int) bool {
	var m uint8
	for _, v := range ix {
		if m&(1<<uint(v)) != 0 {
			return false
		}
		m |= 1 << uint(v)
	}
	return true
}

func (c *ctx) member(ix []int, s, t int) bool {
	k := pathKey(ix)
	for _, q := range c.r.shortest(s, t) {
		if pathKey(q.p) == k {
			return true
		}
	}
	return false
}

// checkTo checks one (path, weight) answer for the query s -> t on a graph
// where no negative cycle affects (s,t). mustBeSimple additionally requires
// membership in the reference set of simple shortest paths (for the routines
// documented to cut zero-weight cycles). It returns false if the answer was
// "unreachable" although it should not be (used to classify the sink finding).
func (c *ctx) checkTo(routine string, s, t int, p []graph.Node, w float64, mustBeSimple bool) {
	want := c.want(s, t)
	if math.IsInf(want, 1) {
		if !math.IsInf(w, 1) || len(p) != 0 {
			c.failf(routine, s, t, "unreachable/absent target: got path %s weight %v, want nil, +Inf", ids(p), w)
		}
		return
	}
	if w != want {
		c.failf(routine, s, t, "weight %v, true distance %v (path %s)", w, want, ids(p))
		return
	}
	ix, pwt, msg := c.walk(p, s, t)
	if msg != "" {
		c.failf(routine, s, t, "%s (reported weight %v)", msg, w)
		return
	}
	if pwt != w {
		c.failf(routine, s, t, "edge weights of %s sum to %v, reported weight %v", ids(p), pwt, w)
		return
	}
	if !isSimple(ix) {
		if mustBeSimple {
			c.failf(routine, s, t, "path %s contains a cycle (zero-weight cycles must be cut)", ids(p))
		} else {
			c.count("nonsimple_tree_paths", 1)
		}
		return
	}
	if mustBeSimple && !c.member(ix, s, t) {
		c.failf(routine, s, t, "path %s is not one of the %d simple shortest paths", ids(p), c.r.nShort[s][t])
	}
}

func (c *ctx) checkUnique(routine string, s, t int, got bool, forward bool) {
	switch c.r.unique3(s, t, forward) {
	case uFalse:
		if got {
			c.failf(routine, s, t, "unique=true, but there are %d simple shortest paths / a zero-weight cycle on the path", c.r.nShort[s][t])
		}
	case uTrue:
		if !got {
			c.failf(routine, s, t, "unique=false, but there is exactly one shortest path and no zero-weight cycle touches it")
		}
	default:
		c.count("unique_dontcare", 1)
	}
}

// checkAll checks an "all shortest paths" answer against the reference set.
func (c *ctx) checkAll(routine string, s, t int, paths [][]graph.Node, w float64, haveW bool) {
	want := c.want(s, t)
	if math.IsInf(want, 1) {
		if len(paths) != 0 || (haveW && !math.IsInf(w, 1)) {
			c.failf(routine, s, t, "unreachable/absent: got %d paths weight %v, want none, +Inf", len(paths), w)
		}
		return
	}
	if haveW && w != want {
		c.failf(routine, s, t, "weight %v, true distance %v", w, want)
		return
	}
	seen := make(map[string]bool, len(paths))
	for _, p := range paths {
		ix, pwt, msg := c.walk(p, s, t)
		if msg != "" {
			c.failf(routine, s, t, "%s", msg)
			return
		}
		if pwt != want {
			c.failf(routine, s, t, "returned path %s has weight %v, shortest is %v", ids(p), pwt, want)
			return
		}
		if !isSimple(ix) {
			c.failf(routine, s, t, "returned path %s is not simple (contains a zero-weight cycle)", ids(p))
			return
		}
		k := pathKey(ix)
		if seen[k] {
			c.failf(routine, s, t, "path %s returned twice", ids(p))
			return
		}
		seen[k] = true
	}
	if len(seen) != c.r.nShort[s][t] {
		c.failf(routine, s, t, "%d distinct shortest paths returned, the graph has %d simple shortest paths", len(seen), c.r.nShort[s][t])
	}
	if c.r.nShort[s][t] > 1 {
		c.count("allpaths_sets_with_ties", 1)
	}
}

const (
	msgDijkstraNeg = "dijkstra: negative edge weight"
	msgAStarNeg    = "path: A* negative edge weight"
)

// singleSource checks every single-source routine from source index s
// (s == n is an absent ID).
func (c *ctx) singleSource(s int) {
	r := c.r
	src := c.node(s)
	present := c.present(s)
	negEdge := present && r.negEdgeReach[s]
	nT := c.nT()

	// DijkstraFrom
	{
		var sh path.Shortest
		msg := try(func() { sh = path.DijkstraFrom(src, c.tg) })
		switch {
		case negEdge:
			if msg != msgDijkstraNeg {
				c.failf("DijkstraFrom", s, s, "u-reachable negative edge: want panic %q, got %q", msgDijkstraNeg, msg)
			}
			c.count("documented_panics", 1)
		case msg != "":
			c.failf("DijkstraFrom", s, s, "unexpected panic: %s", msg)
		default:
			c.checkShortest("DijkstraFrom", s, sh)
		}
	}
	// DijkstraFromTo
	for t := 0; t < nT; t++ {
		var p []graph.Node
		var w float64
		msg := try(func() { p, w = path.DijkstraFromTo(src, c.node(t), c.tg) })
		if negEdge {
			// may or may not be discovered before reaching t: don't-care, but
			// only the documented panic is acceptable.
			if msg != "" && msg != msgDijkstraNeg {
				c.failf("DijkstraFromTo", s, t, "unexpected panic: %s", msg)
			}
			continue
		}
		if msg != "" {
			c.failf("DijkstraFromTo", s, t, "unexpected panic: %s", msg)
			continue
		}
		if c.dontCare(s, t) {
			continue
		}
		if present && s == t && c.sink(s) && !c.trav {
			c.count("sink_self_queries", 1)
			if c.lite {
				// finding 1: reported by every other group; not repeated for
				// each block of the quick 4-node sweep.
				continue
			}
			if len(p) == 0 && math.IsInf(w, 1) {
				c.classed("dijkstrafromto-sink-self", "DijkstraFromTo", s, t,
					"source without outgoing edges queried to itself: got (nil, +Inf); documented equivalent DijkstraFrom(u,g).To(u) is ([u], 0)")
				continue
			}
		}
		c.checkTo("DijkstraFromTo", s, t, p, w, false)
	}
	// DijkstraAllFrom
	{
		var sh path.ShortestAlts
		msg := try(func() { sh = path.DijkstraAllFrom(src, c.tg) })
		switch {
		case negEdge:
			if msg != msgDijkstraNeg {
				c.failf("DijkstraAllFrom", s, s, "u-reachable negative edge: want panic %q, got %q", msgDijkstraNeg, msg)
			}
		case msg != "":
			c.failf("DijkstraAllFrom", s, s, "unexpected panic: %s", msg)
		default:
			c.checkAlts("DijkstraAllFrom", s, sh)
		}
	}
	c.bellmanFord(s)
	// AStar
	for t := 0; t < nT; t++ {
		for _, hk := range c.hmenu {
			if c.lite {
				// one heuristic per query, rotating with (graph, s, t)
				hk = (c.hmenu[0] + s + t) % 4
			}
			if hk != 0 && !c.present(t) {
				if !c.lite {
					continue
				}
				hk = 0
			}
			h, hv := c.heuristic(hk, t)
			c.astar(s, t, h, hv, negEdge, astarNames[hk])
		}
	}
}

// bellmanFord checks BellmanFordFrom and BellmanFordAllFrom from source index s.
func (c *ctx) bellmanFord(s int) {
	r, n := c.r, c.r.n
	src := c.node(s)
	negCyc := c.present(s) && r.negReach[s]
	// BellmanFordFrom
	{
		var sh path.Shortest
		var ok bool
		msg := try(func() { sh, ok = path.BellmanFordFrom(src, c.tg) })
		switch {
		case msg != "":
			c.failf("BellmanFordFrom", s, s, "unexpected panic: %s", msg)
		case ok == negCyc:
			c.failf("BellmanFordFrom", s, s, "ok=%v but a negative cycle reachable from the source exists=%v", ok, negCyc)
		case ok:
			c.checkShortest("BellmanFordFrom", s, sh)
		default:
			c.count("negcycle_single_source", 1)
			for t := 0; t < n; t++ {
				var w float64
				msg := try(func() { _, w = sh.To(c.id(t)) })
				if msg != "" {
					c.failf("BellmanFordFrom.To", s, t, "unexpected panic with a negative cycle: %s", msg)
					continue
				}
				if !c.bfNeg {
					continue
				}
				if r.aff[s][t] {
					if !math.IsInf(w, -1) {
						c.classedOrFail(classBFNeg, "BellmanFordFrom.To", s, t, "a negative cycle lies on the way to the target: weight %v, documented -Inf", w)
					}
				} else if w != r.d[s][t] {
					c.count("bf_negcycle_unaffected_target_differs", 1)
				}
			}
		}
	}
	// BellmanFordAllFrom
	{
		var sh path.ShortestAlts
		var ok bool
		msg := try(func() { sh, ok = path.BellmanFordAllFrom(src, c.tg) })
		switch {
		case msg != "":
			c.failf("BellmanFordAllFrom", s, s, "unexpected panic: %s", msg)
		case ok == negCyc:
			c.failf("BellmanFordAllFrom", s, s, "ok=%v but a negative cycle reachable from the source exists=%v", ok, negCyc)
		case ok:
			c.checkAlts("BellmanFordAllFrom", s, sh)
		default:
			for t := 0; t < n; t++ {
				var w, wa float64
				var uniq bool
				var all [][]graph.Node
				msg := try(func() {
					_, w, uniq = sh.To(c.id(t))
					all, wa = sh.AllTo(c.id(t))
				})
				if msg != "" {
					c.failf("BellmanFordAllFrom.To/AllTo", s, t, "unexpected panic with a negative cycle: %s", msg)
					continue
				}
				if !c.bfNeg {
					continue
				}
				if r.aff[s][t] {
					if !math.IsInf(w, -1) || uniq {
						c.classedOrFail(classBFNeg, "BellmanFordAllFrom.To", s, t, "a negative cycle lies on the way to the target: weight %v unique %v, documented -Inf, false", w, uniq)
					}
					if !math.IsInf(wa, -1) || all != nil {
						c.classedOrFail(classBFNeg, "BellmanFordAllFrom.AllTo", s, t, "a negative cycle lies on the way to the target: %d paths weight %v, documented nil, -Inf", len(all), wa)
					}
				} else if w != r.d[s][t] {
					c.count("bf_negcycle_unaffected_target_differs", 1)
				}
			}
		}
	}
}

var (
	hmenuAll   = []int{0, 1, 2, 3}
	astarNames = []string{"AStar(nil)", "AStar(h=exact)", "AStar(h=half)", "AStar(h=exact-on-even-nodes)"}
)

// classBFNeg is the finding class of the Bellman-Ford "-Inf behind a
// negative cycle" contract (see NOTES.md, finding 3).
const classBFNeg = "bf-negcycle-weight-not-neginf"

// classFWSelf: FloydWarshall's Between/AllBetween(u,u) answer the trivial
// path although Weight(u,u) is -Inf (NOTES.md, finding 4).
const classFWSelf = "fw-negcycle-self-between"

func (c *ctx) classedOrFail(class, routine string, s, t int, f string, a ...any) {
	if class == "" {
		c.failf(routine, s, t, f, a...)
		return
	}
	c.classed(class, routine, s, t, f, a...)
}

// heuristic returns menu heuristic hk for target index t, and its table
// (nil for the nil heuristic).
//
//	0: nil (NullHeuristic)   1: the exact remaining distance
//	2: floor(distance/2)     3: exact for even node indices, 0 for odd ones
func (c *ctx) heuristic(hk, t int) (path.Heuristic, []float64) {
	if hk == 0 {
		return nil, nil
	}
	n := c.r.n
	hv := make([]float64, n)
	for x := 0; x < n; x++ {
		d := 1000.0
		if c.present(t) && !math.IsInf(c.r.d[x][t], 1) {
			d = c.r.d[x][t]
		}
		switch hk {
		case 1:
			hv[x] = d
		case 2:
			hv[x] = math.Floor(d / 2)
		case 3:
			if x%2 == 0 {
				hv[x] = d
			}
		}
	}
	return c.tableHeuristic(hv), hv
}

func (c *ctx) tableHeuristic(hv []float64) path.Heuristic {
	return func(x, _ graph.Node) float64 {
		if i, ok := c.idx[x.ID()]; ok {
			return hv[i]
		}
		return 0
	}
}

// consistent reports whether the table heuristic satisfies
// h(x) <= w(x,y) + h(y) on every edge and h(t) == 0.
func (c *ctx) consistent(hv []float64, t int) bool {
	if hv == nil {
		return true
	}
	if c.present(t) && hv[t] != 0 {
		return false
	}
	for x := 0; x < c.r.n; x++ {
		for y := 0; y < c.r.n; y++ {
			if c.sp.has[x][y] && hv[x] > c.sp.w[x][y]+hv[y] {
				return false
			}
		}
	}
	return true
}

func (c *ctx) astar(s, t int, h path.Heuristic, hv []float64, negEdge bool, routine string) {
	var sh path.Shortest
	msg := try(func() { sh, _ = path.AStar(c.node(s), c.node(t), c.tg, h) })
	if negEdge {
		if msg != "" && msg != msgAStarNeg {
			c.failf(routine, s, t, "unexpected panic: %s", msg)
		}
		return
	}
	if msg != "" {
		c.failf(routine, s, t, "unexpected panic: %s", msg)
		return
	}
	if c.dontCare(s, t) {
		return
	}
	var p []graph.Node
	var w float64
	if msg := try(func() { p, w = sh.To(c.id(t)) }); msg != "" {
		c.failf(routine+".To", s, t, "unexpected panic: %s", msg)
		return
	}
	c.count("astar_queries", 1)
	if !c.consistent(hv, t) {
		c.count("astar_inconsistent_heuristics", 1)
		// Admissible but not consistent: the documentation promises the
		// shortest path for any admissible heuristic, the implementation
		// needs a consistent one (finding 5 in NOTES.md). The sweeps check
		// only that the answer is a real walk with the reported weight, the
		// group "astar-heuristics" checks optimality.
		want := c.want(s, t)
		if !math.IsInf(want, 1) && w > want && !math.IsInf(w, 1) {
			if c.astarInc {
				c.classed("astar-admissible-inconsistent", routine, s, t,
					"admissible (but not consistent) heuristic %v: weight %v path %s, true distance %v", hv, w, ids(p), want)
				return
			}
			_, pwt, msg := c.walk(p, s, t)
			if msg != "" || pwt != w {
				c.failf(routine, s, t, "path %s weight %v: %s (edge weights sum to %v)", ids(p), w, msg, pwt)
			}
			return
		}
	}
	c.checkTo(routine, s, t, p, w, false)
}

// weightsFirst compares every WeightTo of a single-source tree with the
// reference before any path is reconstructed; it reports whether all agree.
func (c *ctx) weightsFirst(routine string, s int, weightTo func(int64) float64) bool {
	ok := true
	for t := 0; t < c.nT(); t++ {
		if c.dontCare(s, t) {
			continue
		}
		var wt float64
		if msg := try(func() { wt = weightTo(c.id(t)) }); msg != "" {
			c.failf(routine, s, t, "unexpected panic: %s", msg)
			ok = false
			continue
		}
		if want := c.want(s, t); wt != want {
			c.failf(routine, s, t, "got %v, true distance %v", wt, want)
			ok = false
		}
	}
	return ok
}

// checkShortest checks a Shortest tree rooted at s on a graph without a
// negative cycle reachable from s.
func (c *ctx) checkShortest(routine string, s int, sh path.Shortest) {
	if sh.From() == nil || sh.From().ID() != c.id(s) {
		c.failf(routine, s, s, "From() does not return the source")
	}
	if !c.weightsFirst(routine+".WeightTo", s, sh.WeightTo) {
		return
	}
	for t := 0; t < c.nT(); t++ {
		if c.dontCare(s, t) {
			// must still not panic
			if msg := try(func() { sh.WeightTo(c.id(t)); sh.To(c.id(t)) }); msg != "" {
				c.failf(routine, s, t, "unexpected panic: %s", msg)
			}
			continue
		}
		want := c.want(s, t)
		var p []graph.Node
		var w, wt float64
		if msg := try(func() { wt = sh.WeightTo(c.id(t)); p, w = sh.To(c.id(t)) }); msg != "" {
			c.failf(routine, s, t, "unexpected panic: %s", msg)
			continue
		}
		if wt != want {
			c.failf(routine+".WeightTo", s, t, "got %v, true distance %v", wt, want)
			continue
		}
		c.checkTo(routine+".To", s, t, p, w, false)
		c.count("pair_queries", 1)
	}
}

// checkAlts checks a ShortestAlts tree rooted at s on a graph without a
// negative cycle reachable from s.
func (c *ctx) checkAlts(routine string, s int, sh path.ShortestAlts) {
	if sh.From() == nil || sh.From().ID() != c.id(s) {
		c.failf(routine, s, s, "From() does not return the source")
	}
	if !c.weightsFirst(routine+".WeightTo", s, sh.WeightTo) {
		return
	}
	for t := 0; t < c.nT(); t++ {
		var (
			p      []graph.Node
			w, wt  float64
			uniq   bool
			all    [][]graph.Node
			wa     float64
			viaFn  [][]graph.Node
			tid    = c.id(t)
			failed string
		)
		if c.dontCare(s, t) {
			// The answer is open, but WeightTo/To must not panic. AllTo and
			// AllToFunc on these queries are probed by the group "empty-tree".
			if msg := try(func() { sh.WeightTo(tid); sh.To(tid) }); msg != "" {
				c.failf(routine, s, t, "unexpected panic: %s", msg)
			}
			continue
		}
		if msg := try(func() { wt = sh.WeightTo(tid); p, w, uniq = sh.To(tid) }); msg != "" {
			failed = "WeightTo/To: " + msg
		} else if msg := try(func() { all, wa = sh.AllTo(tid) }); msg != "" {
			failed = "AllTo: " + msg
		} else if msg := try(func() {
			if c.lite {
				return
			}
			sh.AllToFunc(tid, func(q []graph.Node) { viaFn = append(viaFn, append([]graph.Node(nil), q...)) })
		}); msg != "" {
			failed = "AllToFunc: " + msg
		}
		if failed != "" {
			c.failf(routine, s, t, "unexpected panic: %s", failed)
			continue
		}
		want := c.want(s, t)
		if wt != want {
			c.failf(routine+".WeightTo", s, t, "got %v, true distance %v", wt, want)
			continue
		}
		if c.present(s) && c.present(t) && c.r.cutRisk(s, t, false) {
			// The answer depends on the uncontrolled random choice (finding 7):
			// sampled until decided in the group "zero-cycle-cut".
			c.count("cut_risk_queries_deferred", 1)
			if w != want {
				c.failf(routine+".To", s, t, "weight %v, true distance %v", w, want)
			}
		} else {
			c.checkTo(routine+".To", s, t, p, w, true)
		}
		if !math.IsInf(want, 1) {
			c.checkUnique(routine+".To", s, t, uniq, false)
		}
		c.checkAll(routine+".AllTo", s, t, all, wa, true)
		if !c.lite {
			c.checkAll(routine+".AllToFunc", s, t, viaFn, 0, false)
		}
		c.count("pair_queries", 1)
	}
}

// allPairs checks the all-pairs routines (needs a graph.Graph).
func (c *ctx) allPairs() {
	r := c.r
	// DijkstraAllPaths
	if !c.weightOnly {
		var ap path.AllShortest
		msg := try(func() { ap = path.DijkstraAllPaths(c.gg) })
		switch {
		case r.anyNegEdge:
			if msg != msgDijkstraNeg {
				c.failf("DijkstraAllPaths", 0, 0, "graph has a negative edge: want panic %q, got %q", msgDijkstraNeg, msg)
			}
		case msg != "":
			c.failf("DijkstraAllPaths", 0, 0, "unexpected panic: %s", msg)
		default:
			c.checkAllShortest("DijkstraAllPaths", ap, false, false)
		}
	}
	// FloydWarshall
	{
		var ap path.AllShortest
		var ok bool
		msg := try(func() { ap, ok = path.FloydWarshall(c.gg) })
		switch {
		case msg != "":
			c.failf("FloydWarshall", 0, 0, "unexpected panic: %s", msg)
		case ok == r.anyNeg:
			c.failf("FloydWarshall", 0, 0, "ok=%v but a negative cycle exists=%v", ok, r.anyNeg)
		default:
			if !ok {
				c.count("negcycle_all_pairs", 1)
			}
			c.checkAllShortest("FloydWarshall", ap, true, !ok)
		}
	}
	// JohnsonAllPaths
	{
		var ap path.AllShortest
		var ok bool
		msg := try(func() { ap, ok = path.JohnsonAllPaths(c.gg) })
		switch {
		case msg != "":
			c.failf("JohnsonAllPaths", 0, 0, "unexpected panic: %s", msg)
		case ok == r.anyNeg:
			c.failf("JohnsonAllPaths", 0, 0, "ok=%v but a negative cycle exists=%v", ok, r.anyNeg)
		case ok:
			c.checkAllShortest("JohnsonAllPaths", ap, false, false)
		}
	}
}

// checkAllShortest checks an AllShortest forest. forward selects the
// reference for `unique` (Floyd-Warshall reconstructs from the source end).
// With negCycles (Floyd-Warshall, ok == false) pairs with a negative cycle in
// between must answer -Inf / nil as documented; the other pairs are
// documented to remain valid.
func (c *ctx) checkAllShortest(routine string, ap path.AllShortest, forward, negCycles bool) {
	r, n := c.r, c.r.n
	// Weights first: no path is reconstructed from a forest whose distance
	// matrix is wrong (the reconstruction loops have no guard against an
	// inconsistent forest and may not terminate).
	okW := true
	for s := 0; s < n+1; s++ {
		for t := 0; t < c.nT(); t++ {
			if c.dontCare(s, t) {
				continue
			}
			want := c.want(s, t)
			if negCycles && c.present(s) && c.present(t) && r.aff[s][t] {
				want = math.Inf(-1)
			}
			var wt float64
			if msg := try(func() { wt = ap.Weight(c.id(s), c.id(t)) }); msg != "" {
				c.failf(routine+".Weight", s, t, "unexpected panic: %s", msg)
				okW = false
				continue
			}
			if wt != want {
				if forward && s == t && c.present(s) && c.sp.has[s][s] && wt == c.sp.w[s][s] {
					continue // classed below (fw-selfloop-diagonal)
				}
				c.failf(routine+".Weight", s, t, "got %v, true distance %v", wt, want)
				okW = false
			}
		}
	}
	if !okW {
		return
	}
	for s := 0; s < n+1; s++ {
		for t := 0; t < c.nT(); t++ {
			var (
				p       []graph.Node
				w, wt   float64
				uniq    bool
				all     [][]graph.Node
				wa      float64
				viaFn   [][]graph.Node
				sid     = c.id(s)
				tid     = c.id(t)
				routine = routine
			)
			if msg := try(func() {
				wt = ap.Weight(sid, tid)
				p, w, uniq = ap.Between(sid, tid)
				all, wa = ap.AllBetween(sid, tid)
				if c.lite {
					return
				}
				ap.AllBetweenFunc(sid, tid, func(q []graph.Node) { viaFn = append(viaFn, append([]graph.Node(nil), q...)) })
			}); msg != "" {
				c.failf(routine, s, t, "unexpected panic: %s", msg)
				continue
			}
			if c.dontCare(s, t) {
				continue
			}
			if negCycles && c.present(s) && c.present(t) {
				if r.aff[s][t] {
					if !math.IsInf(wt, -1) {
						c.failf(routine+".Weight", s, t, "negative cycle between the nodes: got %v, want -Inf", wt)
					}
					if s == t {
						// Between/AllBetween(u,u) behind a negative cycle: finding 4
						// (NOTES.md), checked by the group "fw-negcycle" only.
						if !c.fwSelf {
							continue
						}
						trivialB := len(p) == 1 && p[0].ID() == c.id(s) && w == 0 && uniq
						trivialA := len(all) == 1 && len(all[0]) == 1 && wa == 0 && len(viaFn) == 1
						if trivialB && trivialA {
							c.classed(classFWSelf, routine+".Between/AllBetween", s, t,
								"node on a closed walk through a negative cycle: Weight(u,u) = -Inf but Between = (%s, %v, %v), AllBetween = (%d paths, %v); documented (nil, -Inf, false) and (nil, -Inf)", ids(p), w, uniq, len(all), wa)
							continue
						}
					}
					if p != nil || !math.IsInf(w, -1) || uniq {
						c.failf(routine+".Between", s, t, "negative cycle between the nodes: got (%s, %v, %v), documented (nil, -Inf, false)", ids(p), w, uniq)
					}
					if all != nil || !math.IsInf(wa, -1) {
						c.failf(routine+".AllBetween", s, t, "negative cycle between the nodes: got (%d paths, %v), documented (nil, -Inf)", len(all), wa)
					}
					if len(viaFn) != 0 {
						c.failf(routine+".AllBetweenFunc", s, t, "negative cycle between the nodes: %d paths considered, documented none", len(viaFn))
					}
					continue
				}
				routine += "(negative cycle elsewhere)"
			}
			want := c.want(s, t)
			if wt != want {
				if forward && s == t && c.present(s) && c.sp.has[s][s] && wt == c.sp.w[s][s] && w == wt {
					c.classed("fw-selfloop-diagonal", routine+".Weight/Between", s, t,
						"node with a self loop of weight %v: Weight(u,u) = %v and Between(u,u) = (%s, %v); the distance from a node to itself is 0 (all other routines answer 0)", c.sp.w[s][s], wt, ids(p), w)
					continue
				}
				c.failf(routine+".Weight", s, t, "got %v, true distance %v", wt, want)
				continue
			}
			if c.present(s) && c.present(t) && c.r.cutRisk(s, t, forward) {
				c.count("cut_risk_queries_deferred", 1)
				if w != want {
					c.failf(routine+".Between", s, t, "weight %v, true distance %v", w, want)
				}
			} else {
				c.checkTo(routine+".Between", s, t, p, w, true)
			}
			if !math.IsInf(want, 1) {
				c.checkUnique(routine+".Between", s, t, uniq, forward)
			}
			c.checkAll(routine+".AllBetween", s, t, all, wa, true)
			if !c.lite {
				c.checkAll(routine+".AllBetweenFunc", s, t, viaFn, 0, false)
			}
			c.count("pair_queries", 1)
		}
	}
}

// run performs every static check on the container.
// uniformCost checks path.UniformCost(g) against its documentation on every
// ordered pair of node IDs (and absent IDs): 0,true for x == y; 1,true if the
// edge x->y exists; +Inf,false otherwise.
func (c *ctx) uniformCost() {
	var uc path.Weighting
	if msg := try(func() { uc = path.UniformCost(c.tg) }); msg != "" {
		c.failf("UniformCost", 0, 0, "unexpected panic: %s", msg)
		return
	}
	n := c.r.n
	for x := 0; x < n+2; x++ {
		for y := 0; y < n+2; y++ {
			var w float64
			var ok bool
			if msg := try(func() { w, ok = uc(c.id(x), c.id(y)) }); msg != "" {
				c.failf("UniformCost", x, y, "unexpected panic: %s", msg)
				continue
			}
			wantW, wantOK := inf, false
			switch {
			case x == y:
				wantW, wantOK = 0, true
			case c.present(x) && c.present(y) && c.sp.has[x][y]:
				wantW, wantOK = 1, true
			}
			if w != wantW || ok != wantOK {
				c.failf("UniformCost", x, y, "UniformCost(g)(x,y) = (%v, %v), documented (%v, %v) [edge x->y exists: %v, edge y->x exists: %v]",
					w, ok, wantW, wantOK, wantOK && x != y, c.present(x) && c.present(y) && c.sp.has[y][x])
			}
		}
	}
	c.count("uniformcost_tables", 1)
}

func (c *ctx) run() {
	if !c.lite {
		c.uniformCost()
	}
	for s := 0; s <= c.r.n; s++ {
		c.singleSource(s)
	}
	if c.gg != nil {
		c.allPairs()
	}
}

// features summarises what the graph exercises (vacuity guard).
func features(r *ref) string {
	var unreach, ties, zero, neg, negE, sinks bool
	for s := 0; s < r.n; s++ {
		out := false
		for t := 0; t < r.n; t++ {
			if r.sp.has[s][t] {
				out = true
			}
			if !r.reach[s][t] {
				unreach = true
			} else if r.nShort[s][t] > 1 {
				ties = true
			}
		}
		if !out {
			sinks = true
		}
	}
	zero = len(r.zero) > 0
	neg = r.anyNeg
	negE = r.anyNegEdge
	f := func(b bool, s string) string {
		if b {
			return s
		}
		return ""
	}
	return "n" + fmt.Sprint(r.n) + f(unreach, " unreach") + f(ties, " ties") + f(zero, " zerocycle") + f(negE, " negedge") + f(neg, " negcycle") + f(sinks, " sink")
}
