package main

// A model of the path reconstruction loop shared by ShortestAlts.To and
// AllShortest.Between (graph/path/shortest.go), used ONLY to decide where the
// uncontrollable random choice among equal-cost alternatives can matter, i.e.
// for which queries the real routine has to be sampled repeatedly (group
// "zero-cycle-cut") instead of once. The oracle applied to the real routine's
// answers is unchanged (a returned path must be one of the reference simple
// shortest paths).
//
// The loop walks from one end of the query (the "start": the target for the
// predecessor-based trees, the source for Floyd-Warshall's successor-based
// forest) towards the other end (the "anchor") through the tight neighbours,
// choosing one at random when there are several, and cuts the path back when
// it meets a node it has seen before. The model explores every choice.

// cutRisk reports whether some sequence of random choices makes the
// reconstruction loop return something that is not a simple shortest path
// from s to t. Results are cached in r.
func (r *ref) cutRisk(s, t int, forward bool) bool {
	k := 0
	if forward {
		k = 1
	}
	if v := r.risk[s][t][k]; v != 0 {
		return v == 2
	}
	risk := r.computeCutRisk(s, t, forward)
	r.risk[s][t][k] = 1
	if risk {
		r.risk[s][t][k] = 2
	}
	return risk
}

func (r *ref) computeCutRisk(s, t int, forward bool) bool {
	n := r.n
	if s == t || !r.reach[s][t] || r.aff[s][t] {
		return false
	}
	// tight neighbours: for the reverse walk (start t, anchor s) the
	// predecessors k of x with d(s,k)+w(k,x) == d(s,x); for the forward walk
	// (start s, anchor t) the successors y of x with w(x,y)+d(y,t) == d(x,t).
	var nb [maxN][]int
	multi := false
	for x := 0; x < n; x++ {
		for y := 0; y < n; y++ {
			if x == y {
				continue
			}
			if !forward {
				if r.sp.has[y][x] && r.reach[s][y] && r.reach[s][x] && !r.aff[s][x] && r.d[s][y]+r.sp.w[y][x] == r.d[s][x] {
					nb[x] = append(nb[x], y)
				}
			} else {
				if r.sp.has[x][y] && r.reach[y][t] && r.reach[x][t] && !r.aff[x][t] && r.sp.w[x][y]+r.d[y][t] == r.d[x][t] {
					nb[x] = append(nb[x], y)
				}
			}
		}
		if len(nb[x]) > 1 {
			multi = true
		}
	}
	if !multi || len(r.zero) == 0 {
		return false // no choice, or no zero-weight cycle: the walk cannot revisit a node
	}
	start, anchor := t, s
	if forward {
		start, anchor = s, t
	}
	type state struct {
		cur, ln int
		back    [2 * maxN]int8
		seen    [maxN]int8
	}
	var init state
	for i := range init.seen {
		init.seen[i] = -1
	}
	for i := range init.back {
		init.back[i] = -1
	}
	init.cur, init.ln = start, 1
	init.back[0] = int8(start)
	init.seen[start] = 0
	visited := map[state]bool{init: true}
	stack := []state{init}
	for len(stack) > 0 {
		st := stack[len(stack)-1]
		stack = stack[:len(stack)-1]
		if st.cur == anchor {
			// output: back[:ln], reversed for the reverse walk
			p := make([]int, st.ln)
			for i := 0; i < st.ln; i++ {
				if forward {
					p[i] = int(st.back[i])
				} else {
					p[i] = int(st.back[st.ln-1-i])
				}
			}
			if !r.isShortestSimple(p, s, t) {
				return true
			}
			continue
		}
		for _, nx := range nb[st.cur] {
			ns := st
			if ns.seen[nx] >= 0 {
				ns.ln = int(ns.seen[nx])
			}
			if ns.ln >= len(ns.back) {
				return true // cannot happen on <= 5 nodes; be conservative
			}
			ns.seen[nx] = int8(ns.ln)
			ns.back[ns.ln] = int8(nx)
			ns.ln++
			ns.cur = nx
			if !visited[ns] {
				visited[ns] = true
				stack = append(stack, ns)
			}
		}
	}
	return false
}

func (r *ref) isShortestSimple(p []int, s, t int) bool {
	if len(p) == 0 || p[0] != s || p[len(p)-1] != t || !isSimple(p) {
		return false
	}
	k := pathKey(p)
	for _, q := range r.shortest(s, t) {
		if pathKey(q.p) == k {
			return true
		}
	}
	return false
}
