// Harness C13: shortest-path routines return true optimal weights and real paths.
package main

import (
	"fmt"
	"runtime/debug"

	"gonum.org/v1/gonum/internal/verif/vlib"
)

func main() {
	debug.SetGCPercent(3200) // tiny live heap: collect every ~128 MB instead of every 4 MB
	vlib.Main("C13",
		vlib.Group{Name: "dg3", Gen: genDg3},
		vlib.Group{Name: "ug", Gen: genUg},
		vlib.Group{Name: "unweighted", Gen: genUnweighted},
		vlib.Group{Name: "traverse", Gen: genTraverse},
		vlib.Group{Name: "ties", Gen: genTies},
		vlib.Group{Name: "views", Gen: genViews},
		vlib.Group{Name: "empty-tree", Gen: genEmptyTree},
		vlib.Group{Name: "bf-negcycle", Gen: genBFNeg},
		vlib.Group{Name: "fw-negcycle", Gen: genFWNeg},
		vlib.Group{Name: "zero-cycle-cut", Gen: genZeroCut},
		vlib.Group{Name: "selfloop", Gen: genSelfLoop},
		vlib.Group{Name: "astar-heuristics", Gen: genAStarH},
		vlib.Group{Name: "yen", Gen: genYen},
		vlib.Group{Name: "dstar", Gen: genDStar},
		vlib.Group{Name: "dstar-heur", Gen: genDStarHeur},
		vlib.Group{Name: "dg4neg", Gen: genDg4Neg},
		vlib.Group{Name: "dg4-improve", Gen: genDg4Improve},
		vlib.Group{Name: "dg4", Gen: genDg4},
	)
}

var (
	alphaA     = []float64{-1, 0, 1, 2} // space (a)
	alphaB     = []float64{1, 2}        // space (b) quick
	alphaBFull = []float64{0, 1, 2}     // space (b) thorough, space (c)
	alphaOne   = []float64{1}
)

// odometer calls f with every digit vector of the given length over 0..radix-1
// (last digit fastest) together with its index.
func odometer(length, radix int, f func(idx int, digits []int) bool) {
	digits := make([]int, length)
	for idx := 0; ; idx++ {
		if !f(idx, digits) {
			return
		}
		k := length - 1
		for ; k >= 0; k-- {
			digits[k]++
			if digits[k] < radix {
				break
			}
			digits[k] = 0
		}
		if k < 0 {
			return
		}
	}
}

// runCombos runs the static checks under container kinds x ID maps: all of
// them (thorough), or every container kind once with the ID map rotating
// with the graph index (quick).
func runCombos(t *vlib.T, r *ref, kinds []int, gi int, all bool) {
	for k, kind := range kinds {
		for idk := 0; idk < 3; idk++ {
			if !all && idk != (gi+k)%3 {
				continue
			}
			newCtx(t, r, kind, idk).run()
			t.Count("graph_container_idmap_combinations", 1)
		}
	}
}

func mark(t *vlib.T, r *ref) {
	f := features(r)
	t.Outcome(f)
	if r.n >= 2 {
		t.Nontrivial()
	}
}

// Space (a): all weighted digraphs on 3 nodes, pair in {absent,-1,0,1,2}.
func genDg3(g *vlib.G) {
	ps := pairs(3, true)
	all := g.Thorough()
	odometer(len(ps), len(alphaA)+1, func(idx int, digits []int) bool {
		d := append([]int(nil), digits...)
		gcase(g, "n=3 dir w="+digitString(d, alphaA), func(t *vlib.T) {
			r := newRef(specFromDigits(3, true, ps, d, alphaA))
			runCombos(t, r, weightedKinds, idx, all)
			mark(t, r)
		})
		return !g.Stopped()
	})
}

// Space (c): all undirected weighted graphs on 1..4 (thorough 5) nodes, edge in
// {absent,0,1,2}; n = 2, 3 also with weight -1 (an undirected negative edge is
// a negative cycle).
func genUg(g *vlib.G) {
	maxn := vlib.Pick(g, 4, 5)
	all := g.Thorough()
	for n := 1; n <= maxn; n++ {
		n := n
		ps := pairs(n, false)
		alpha := alphaBFull
		if n <= 3 {
			alpha = alphaA
		}
		if n <= 4 {
			odometer(len(ps), len(alpha)+1, func(idx int, digits []int) bool {
				d := append([]int(nil), digits...)
				gcase(g, fmt.Sprintf("n=%d und w=%s", n, digitString(d, alpha)), func(t *vlib.T) {
					r := newRef(specFromDigits(n, false, ps, d, alpha))
					runCombos(t, r, weightedKinds, idx, all)
					mark(t, r)
				})
				return !g.Stopped()
			})
			continue
		}
		// n = 5: 4^10 graphs in blocks of 4^4; one rotating combination each.
		blocks(g, n, false, ps, alpha, 4, 1)
	}
}

// blocks enumerates a graph space in blocks: one case fixes all but the last
// `tail` pairs and runs the 'radix^tail' graphs of the block. per == 1: one
// container/ID-map combination per graph chosen by a fixed rotation, in the
// "lite" mode (one absent target ID, one A* heuristic per query, no ...Func
// variants, no sink-self query). per == 6: three of the six container kinds
// (alternating with the graph index), the ID map rotating, full checks.
// blockStride > 1 makes blocks run only the graphs with index = 1 modulo it
// (set by genDg4Improve around its call).
var blockStride = 1

func blocks(g *vlib.G, n int, directed bool, ps [][2]int, alpha []float64, tail, per int) {
	radix := len(alpha) + 1
	head := len(ps) - tail
	kind := "und"
	if directed {
		kind = "dir"
	}
	odometer(head, radix, func(bidx int, hd []int) bool {
		h := append([]int(nil), hd...)
		gcase(g, fmt.Sprintf("n=%d %s alphabet=%d combos=%d w=%s+%d", n, kind, len(alpha), per, digitString(h, alpha), tail), func(t *vlib.T) {
			digits := make([]int, len(ps))
			copy(digits, h)
			feat := map[string]bool{}
			odometer(tail, radix, func(tidx int, tl []int) bool {
				gi := bidx*pow(radix, tail) + tidx
				if blockStride > 1 && gi%blockStride != 1 {
					return true
				}
				copy(digits[head:], tl)
				r := newRef(specFromDigits(n, directed, ps, digits, alpha))
				rot := int((uint64(gi)*2654435761 + 12345) >> 7 % 18)
				if per == 1 {
					c := newCtx(t, r, weightedKinds[rot%6], rot/6)
					c.lite = true
					c.hmenu = []int{gi % 4}
					c.run()
					t.Count("graph_container_idmap_combinations", 1)
				} else {
					// three of the six container kinds per graph, alternating
					// with the graph index, the ID map rotating
					half := []int{weightedKinds[gi%2], weightedKinds[2+gi%2], weightedKinds[4+gi%2]}
					runCombos(t, r, half, gi, false)
				}
				t.Count("graphs", 1)
				feat[features(r)] = true
				return true
			})
			t.Nontrivial()
			t.Outcome(fmt.Sprintf("%d feature classes", len(feat)))
		})
		return !g.Stopped()
	})
}

func pow(b, e int) int {
	p := 1
	for ; e > 0; e-- {
		p *= b
	}
	return p
}

// Space (b): all digraphs on 4 nodes, pair in {absent,1,2} (quick) or
// {absent,0,1,2} (thorough).
func genDg4(g *vlib.G) {
	ps := pairs(4, true)
	if g.Thorough() {
		blocks(g, 4, true, ps, alphaB, 4, 6)
		blocks(g, 4, true, ps, alphaBFull, 4, 1)
		return
	}
	blocks(g, 4, true, ps, alphaB, 4, 1)
}

// alphaImprove is a non-metric weight alphabet: the direct edge of weight 3 is
// strictly worse than a two-hop route 1+1 (and ties with a three-hop route), so
// that tentative distances are improved after a node has been queued. With
// {1,2} (dg4) a queued distance is never improved strictly: stale priority
// queue entries, decrease-key and re-expansion code is not exercised there.
var alphaImprove = []float64{1, 3}

// genDg4Improve: all digraphs on 4 nodes, pair in {absent,1,3}, one rotating
// container/ID-map combination per graph, lite checks; the thorough tier runs
// all 3^12 graphs, the quick tier the graphs with index = 1 modulo 12.
func genDg4Improve(g *vlib.G) {
	blockStride = vlib.Pick(g, 12, 1)
	blocks(g, 4, true, pairs(4, true), alphaImprove, 4, 1)
	blockStride = 1
}

// Unweighted containers (UniformCost): every digraph on 3 and 4 nodes, every
// undirected graph on <= 4 (thorough 5) nodes.
func genUnweighted(g *vlib.G) {
	all := g.Thorough()
	for _, directed := range []bool{true, false} {
		lo, hi := 1, vlib.Pick(g, 4, 5)
		if directed {
			lo, hi = 3, 4
		}
		for n := lo; n <= hi; n++ {
			n, directed := n, directed
			ps := pairs(n, directed)
			odometer(len(ps), 2, func(idx int, digits []int) bool {
				d := append([]int(nil), digits...)
				kind := "und"
				if directed {
					kind = "dir"
				}
				gcase(g, fmt.Sprintf("n=%d %s e=%s", n, kind, digitString(d, alphaOne)), func(t *vlib.T) {
					r := newRef(specFromDigits(n, directed, ps, d, alphaOne))
					runCombos(t, r, unweightedKinds, idx, all)
					mark(t, r)
				})
				return !g.Stopped()
			})
		}
	}
}
