package main

// graph/traverse: BreadthFirst and DepthFirst walkers, including REUSE of one
// walker value (early-stopped Walk, Reset, Walk; Walk, WalkAll; completed
// Walk, Walk without Reset; WalkAll twice). BFS depths passed to `until` must
// equal hop distances (the unit-weight shortest path lengths that the
// UniformCost routines of graph/path report), every reachable node is
// reported exactly once, nothing unreachable is ever visited, and WalkAll
// partitions an undirected graph into its connected components, whatever the
// walker was used for before.

import (
	"fmt"

	"gonum.org/v1/gonum/graph"
	"gonum.org/v1/gonum/graph/simple"
	"gonum.org/v1/gonum/graph/traverse"
	"gonum.org/v1/gonum/internal/verif/vlib"
)

// tvEnv is one graph under one container/ID map and one Traverse filter.
type tvEnv struct {
	t      *vlib.T
	sp     *spec
	ids    []int64
	idx    map[int64]int
	g      graph.Graph
	quick  bool
	filter bool // Traverse rejects the edges whose end point indices differ by exactly 2
	label  string
}

func (e *tvEnv) allowed(a, b int) bool {
	if !e.sp.has[a][b] {
		return false
	}
	if e.filter && (a-b == 2 || b-a == 2) {
		return false
	}
	return true
}

// hops returns the hop distance from s to every node in the graph induced on
// the nodes outside `visited` (-1 = not reachable), by definition (repeated
// relaxation over all allowed edges).
func (e *tvEnv) hops(s int, visited uint8, undirected bool) [maxN]int {
	var d [maxN]int
	for i := range d {
		d[i] = -1
	}
	d[s] = 0
	for round := 0; round < e.sp.n; round++ {
		for a := 0; a < e.sp.n; a++ {
			if d[a] < 0 {
				continue
			}
			for b := 0; b < e.sp.n; b++ {
				ok := e.allowed(a, b) || (undirected && e.allowed(b, a))
				if !ok || visited&(1<<uint(b)) != 0 {
					continue
				}
				if d[b] < 0 || d[a]+1 < d[b] {
					d[b] = d[a] + 1
				}
			}
		}
	}
	return d
}

func (e *tvEnv) traverseFn() func(graph.Edge) bool {
	if !e.filter {
		return nil
	}
	return func(ed graph.Edge) bool {
		if ed == nil {
			e.t.Failf("[%s] Traverse called with a nil edge", e.label)
			return false
		}
		a, b := e.idx[ed.From().ID()], e.idx[ed.To().ID()]
		return !(a-b == 2 || b-a == 2)
	}
}

// Stop rules: 0 never; 1..3 stop at the k-th call of until; 4, 5 stop at the
// first node reported at depth 1 resp. 2 (BreadthFirst only).
const (
	nRulesBFS = 6
	nRulesDFS = 4
)

type call struct{ node, depth int }

// tvOp is one operation of a reuse history.
type tvOp struct {
	kind  int // 0 Walk, 1 Reset, 2 WalkAll
	start int
	rule  int
}

func (o tvOp) String() string {
	switch o.kind {
	case 1:
		return "Reset"
	case 2:
		return "WalkAll"
	}
	return fmt.Sprintf("Walk(%d,rule%d)", o.start, o.rule)
}

func histString(h []tvOp) string {
	s := ""
	for _, o := range h {
		s += o.String() + " "
	}
	return s
}

// walker abstracts BreadthFirst / DepthFirst.
type walker struct {
	bfs     bool
	bf      traverse.BreadthFirst
	df      traverse.DepthFirst
	visits  []int // nodes passed to Visit since the last clear
	e       *tvEnv
	visited func(graph.Node) bool
}

func newWalker(e *tvEnv, bfs bool) *walker {
	w := &walker{bfs: bfs, e: e}
	visit := func(n graph.Node) { w.visits = append(w.visits, e.idx[n.ID()]) }
	if bfs {
		w.bf.Visit, w.bf.Traverse = visit, e.traverseFn()
		w.visited = w.bf.Visited
	} else {
		w.df.Visit, w.df.Traverse = visit, e.traverseFn()
		w.visited = w.df.Visited
	}
	return w
}

// walk runs Walk with the stop rule and returns the until calls, the index of
// the returned node (-1 for nil) and whether the rule fired.
func (w *walker) walk(start, rule int) (calls []call, ret int, stopped bool) {
	e := w.e
	stop := func(n graph.Node, d int) bool {
		calls = append(calls, call{e.idx[n.ID()], d})
		switch {
		case rule >= 1 && rule <= 3:
			stopped = len(calls) == rule
		case rule == 4:
			stopped = d == 1
		case rule == 5:
			stopped = d == 2
		}
		return stopped
	}
	var r graph.Node
	if w.bfs {
		r = w.bf.Walk(e.g, simple.Node(e.ids[start]), stop)
	} else {
		r = w.df.Walk(e.g, simple.Node(e.ids[start]), func(n graph.Node) bool { return stop(n, -1) })
	}
	ret = -1
	if r != nil {
		ret = e.idx[r.ID()]
	}
	return calls, ret, stopped
}

// checkWalk compares one Walk with the reference. visitedBefore is the set of
// nodes visited by earlier completed walks since the last Reset. It returns
// the set of nodes visited afterwards (only meaningful for a completed walk).
func (w *walker) checkWalk(hist []tvOp, start, rule int, visitedBefore uint8) uint8 {
	e := w.e
	n := e.sp.n
	fail := func(f string, a ...any) {
		e.t.Count("violations:traverse", 1)
		e.t.Failf("[%s %s after %s] %s", e.label, map[bool]string{true: "BreadthFirst", false: "DepthFirst"}[w.bfs], histString(hist), fmt.Sprintf(f, a...))
	}
	w.visits = w.visits[:0]
	calls, ret, stopped := w.walk(start, rule)
	e.t.Count("walks", 1)
	want := e.hops(start, visitedBefore, false)
	if _, und := e.g.(graph.Undirected); und {
		want = e.hops(start, visitedBefore, true)
	}
	// until calls: distinct reachable nodes, right depths, non-decreasing depths
	var seen uint8
	last := -1
	for i, c := range calls {
		if want[c.node] < 0 {
			fail("node %d passed to until, but it is not reachable from %d (visited before: %03b)", c.node, start, visitedBefore)
			return 0
		}
		if seen&(1<<uint(c.node)) != 0 {
			fail("node %d passed to until twice", c.node)
			return 0
		}
		seen |= 1 << uint(c.node)
		if w.bfs {
			if c.depth != want[c.node] {
				fail("until(node %d, depth %d): the hop distance from %d is %d", c.node, c.depth, start, want[c.node])
				return 0
			}
			if c.depth < last {
				fail("depths passed to until decrease (%d after %d)", c.depth, last)
				return 0
			}
			last = c.depth
		} else if i > 0 {
			// depth first: some earlier reported node has an allowed edge to it
			ok := false
			_, und := e.g.(graph.Undirected)
			for _, p := range calls[:i] {
				if e.allowed(p.node, c.node) || (und && e.allowed(c.node, p.node)) {
					ok = true
				}
			}
			if !ok {
				fail("node %d reported, but no node reported before it has an edge to it", c.node)
				return 0
			}
		}
		if i == 0 && c.node != start {
			fail("first node passed to until is %d, not the start node %d", c.node, start)
			return 0
		}
	}
	if stopped {
		if len(calls) == 0 || ret != calls[len(calls)-1].node {
			fail("Walk returned node %d, until was last true for %v", ret, calls)
			return 0
		}
		if w.bfs {
			ds := calls[len(calls)-1].depth
			for x := 0; x < n; x++ {
				if want[x] >= 0 && want[x] < ds && seen&(1<<uint(x)) == 0 {
					fail("stopped at depth %d although node %d at depth %d had not been reported", ds, x, want[x])
					return 0
				}
			}
		}
	} else {
		if ret != -1 {
			fail("Walk returned node %d although until never returned true", ret)
			return 0
		}
		for x := 0; x < n; x++ {
			if want[x] >= 0 && seen&(1<<uint(x)) == 0 {
				fail("node %d is reachable from %d (hop distance %d) but was never passed to until", x, start, want[x])
				return 0
			}
		}
	}
	// Visit: once per node, only reachable nodes, covers the reported ones
	var vs uint8
	for _, x := range w.visits {
		if vs&(1<<uint(x)) != 0 {
			fail("Visit called twice for node %d", x)
			return 0
		}
		vs |= 1 << uint(x)
		if want[x] < 0 {
			fail("Visit called for node %d, which is not reachable from %d", x, start)
			return 0
		}
	}
	if vs&seen != seen {
		fail("nodes passed to until (%03b) were not all passed to Visit (%03b)", seen, vs)
		return 0
	}
	// Visited: exactly the nodes visited before and the ones passed to Visit
	for x := 0; x < n; x++ {
		wantV := (visitedBefore|vs)&(1<<uint(x)) != 0
		if got := w.visited(simple.Node(e.ids[x])); got != wantV {
			fail("Visited(%d) = %v, want %v", x, got, wantV)
			return 0
		}
	}
	return visitedBefore | vs
}

// checkWalkAll compares WalkAll with the connected components of the
// undirected graph.
func (w *walker) checkWalkAll(hist []tvOp) {
	e := w.e
	n := e.sp.n
	fail := func(f string, a ...any) {
		e.t.Count("violations:traverse", 1)
		e.t.Failf("[%s %s after %s] WalkAll: %s", e.label, map[bool]string{true: "BreadthFirst", false: "DepthFirst"}[w.bfs], histString(hist), fmt.Sprintf(f, a...))
	}
	ug := e.g.(graph.Undirected)
	var groups []uint8
	open := false
	bad := ""
	before := func() {
		if open {
			bad = "before called twice without after"
		}
		open = true
		groups = append(groups, 0)
	}
	after := func() {
		if !open {
			bad = "after called without before"
		}
		open = false
	}
	during := func(nd graph.Node) {
		if !open {
			bad = "during called outside before/after"
			return
		}
		x := e.idx[nd.ID()]
		for _, gm := range groups {
			if gm&(1<<uint(x)) != 0 {
				bad = fmt.Sprintf("node %d traversed twice", x)
			}
		}
		groups[len(groups)-1] |= 1 << uint(x)
	}
	w.visits = w.visits[:0]
	if w.bfs {
		w.bf.WalkAll(ug, before, after, during)
	} else {
		w.df.WalkAll(ug, before, after, during)
	}
	e.t.Count("walkalls", 1)
	if bad != "" || open {
		fail("callback protocol: %s (open=%v)", bad, open)
		return
	}
	var all uint8
	for _, gm := range groups {
		if gm == 0 {
			fail("empty component reported")
			return
		}
		var first int
		for first = 0; gm&(1<<uint(first)) == 0; first++ {
		}
		h := e.hops(first, 0, true)
		var comp uint8
		for x := 0; x < n; x++ {
			if h[x] >= 0 {
				comp |= 1 << uint(x)
			}
		}
		if comp != gm {
			fail("component %05b reported, the connected component of node %d is %05b", gm, first, comp)
			return
		}
		all |= gm
	}
	if all != uint8(1)<<uint(n)-1 {
		fail("components cover %05b, not all %d nodes", all, n)
		return
	}
	for x := 0; x < n; x++ {
		if !w.visited(simple.Node(e.ids[x])) {
			fail("Visited(%d) = false after WalkAll", x)
			return
		}
	}
}

// runHistory executes one reuse history on a fresh walker.
func (e *tvEnv) runHistory(bfs bool, hist []tvOp) {
	w := newWalker(e, bfs)
	var visited uint8
	for i, o := range hist {
		switch o.kind {
		case 0:
			visited = w.checkWalk(hist[:i], o.start, o.rule, visited)
		case 1:
			if bfs {
				w.bf.Reset()
			} else {
				w.df.Reset()
			}
			visited = 0
			for x := 0; x < e.sp.n; x++ {
				if w.visited(simple.Node(e.ids[x])) {
					e.t.Failf("[%s after %s] Visited(%d) = true after Reset", e.label, histString(hist[:i+1]), x)
				}
			}
		case 2:
			w.checkWalkAll(hist[:i])
			visited = uint8(1)<<uint(e.sp.n) - 1
		}
		if e.t.Failed() {
			return
		}
	}
	e.t.Count("traverser_histories", 1)
}

// histories enumerates the reuse patterns for one graph:
//
//	P1 Walk(s,r)
//	P2 Walk(s1,r1) Reset Walk(s2,r2)                 (r1 may stop early)
//	P3 Walk(s1,r1) WalkAll [Walk-free]               (undirected)
//	P4 Walk(s1,never) Walk(s2,r2), s2 not yet visited (no Reset; the queue has drained)
//	P5 WalkAll WalkAll; WalkAll Reset Walk(s,r)      (undirected)
//	P6 Walk(s1,r1) Reset Walk(s2,r2) Reset Walk(s3,never) for s3 = s1
func (e *tvEnv) histories(bfs bool) {
	n := e.sp.n
	nr := nRulesDFS
	if bfs {
		nr = nRulesBFS
	}
	_, und := e.g.(graph.Undirected)
	for s1 := 0; s1 < n; s1++ {
		for r1 := 0; r1 < nr; r1++ {
			w1 := tvOp{0, s1, r1}
			e.runHistory(bfs, []tvOp{w1})
			if und {
				e.runHistory(bfs, []tvOp{w1, {kind: 2}})
			}
			for s2 := 0; s2 < n; s2++ {
				for r2 := 0; r2 < nr; r2++ {
					if e.quick && r2 != 0 && r2 != 2 {
						continue // quick: second walk complete or stopped at its 2nd node
					}
					e.runHistory(bfs, []tvOp{w1, {kind: 1}, {0, s2, r2}})
					if r1 == 0 && s2 != s1 {
						// without Reset, only from a node the first walk did not visit
						if h := e.hops(s1, 0, und); h[s2] < 0 {
							e.runHistory(bfs, []tvOp{w1, {0, s2, r2}})
						}
					}
				}
				if r1 != 0 {
					e.runHistory(bfs, []tvOp{w1, {kind: 1}, {0, s2, r1}, {kind: 1}, {0, s1, 0}})
				}
			}
			if e.t.Failed() {
				return
			}
		}
	}
	if und {
		e.runHistory(bfs, []tvOp{{kind: 2}, {kind: 2}})
		for s := 0; s < n; s++ {
			e.runHistory(bfs, []tvOp{{kind: 2}, {kind: 1}, {0, s, 0}})
		}
	}
}

func genTraverse(g *vlib.G) {
	quick := !g.Thorough()
	for _, directed := range []bool{true, false} {
		lo, hi := 1, vlib.Pick(g, 4, 5)
		if directed {
			lo, hi = 2, 4
		}
		for n := lo; n <= hi; n++ {
			n, directed := n, directed
			ps := pairs(n, directed)
			kind := "und"
			if directed {
				kind = "dir"
			}
			odometer(len(ps), 2, func(idx int, digits []int) bool {
				d := append([]int(nil), digits...)
				gcase(g, fmt.Sprintf("n=%d %s e=%s", n, kind, digitString(d, alphaOne)), func(t *vlib.T) {
					{
						sp := specFromDigits(n, directed, ps, d, alphaOne)
						ck := []int{kUSimple, kUMulti, kURot}[idx%3]
						ids := idMap(idx%3, n)
						_, gg := build(sp, ids, ck)
						for _, filter := range []bool{false, true} {
							e := &tvEnv{t: t, quick: quick, sp: sp, ids: ids, idx: map[int64]int{}, g: gg, filter: filter,
								label: fmt.Sprintf("%s/%s filter=%v", kindNames[ck], idMapNames[idx%3], filter)}
							for i, id := range ids {
								e.idx[id] = i
							}
							e.histories(true)
							e.histories(false)
						}
						if n >= 2 {
							t.Nontrivial()
						}
						ne := 0
						for _, v := range d {
							ne += v
						}
						t.Outcome(fmt.Sprintf("n=%d %s edges=%d", n, kind, ne))
					}
				})
				return !g.Stopped()
			})
		}
	}
}
