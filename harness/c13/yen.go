package main

// Yen's k shortest loopless paths against the brute-force list of all simple
// paths, and the exhaustive admissible-heuristic sweep for A*.

import (
	"fmt"
	"math"

	"gonum.org/v1/gonum/graph"
	"gonum.org/v1/gonum/graph/path"
	"gonum.org/v1/gonum/internal/verif/vlib"
)

var (
	yenKsFull    = []int{-1, 0, 1, 2, 3, 5, 100}
	yenCostsFull = []float64{0, 1, 2, inf}
	yenKsLite    = []int{-1, 2, 3}
	yenCostsLite = []float64{0, 1, inf}
)

// yenGraph runs YenKShortestPaths for every source/target (nodes and, in the
// full mode, an absent ID), every k and every cost bound on one container.
func yenGraph(t *vlib.T, r *ref, kind, idk int, full bool) {
	c := newCtx(t, r, kind, idk)
	n := r.n
	ks, costs := yenKsLite, yenCostsLite
	hi := n
	if full {
		ks, costs = yenKsFull, yenCostsFull
		hi = n + 1
	}
	for s := 0; s < hi; s++ {
		for tt := 0; tt < hi; tt++ {
			for _, k := range ks {
				for _, cost := range costs {
					c.yen(s, tt, k, cost)
				}
			}
		}
	}
}

func (c *ctx) yen(s, t, k int, cost float64) {
	r := c.r
	routine := "YenKShortestPaths"
	var got [][]graph.Node
	msg := try(func() { got = path.YenKShortestPaths(c.gg, k, cost, c.node(s), c.node(t)) })
	c.count("yen_queries", 1)
	if r.anyNegEdge {
		// "will panic if g contains a negative edge weight": the search only
		// panics for the edges it meets, so whether it panics is a don't-care;
		// any other panic is a violation and the result is not examined.
		if msg != "" && msg != msgDijkstraNeg {
			c.failf(routine, s, t, "k=%d cost=%v: unexpected panic: %s", k, cost, msg)
		}
		return
	}
	if msg != "" {
		c.failf(routine, s, t, "k=%d cost=%v: unexpected panic: %s", k, cost, msg)
		return
	}
	// expected weights
	var want []float64
	if c.present(s) && c.present(t) && r.reach[s][t] {
		limit := r.d[s][t] + cost
		for _, q := range r.all[s][t] {
			if q.w <= limit {
				want = append(want, q.w)
			}
		}
		if k >= 0 && len(want) > k {
			want = want[:k]
		}
	}
	if k == 0 && len(got) == 1 && len(want) == 0 && c.present(s) && c.present(t) && r.reach[s][t] {
		c.count("yen_k0_queries", 1)
		if c.yenK0 {
			c.classed("yen-k-zero-returns-one", routine, s, t, "k=0 cost=%v: one path %s returned, the 0 shortest paths are no paths", cost, ids(got[0]))
		}
		return
	}
	if c.present(s) && s == t && c.sink(s) && len(got) == 0 && len(want) == 1 {
		// consequence of the DijkstraFromTo(u,u) finding for a sink u
		c.classed("dijkstrafromto-sink-self", routine, s, t, "k=%d cost=%v: no path from a sink to itself (the trivial path is expected, as for every other node)", k, cost)
		return
	}
	if len(got) != len(want) {
		c.failf(routine, s, t, "k=%d cost=%v: %d paths returned, want %d (weights %v)", k, cost, len(got), len(want), want)
		return
	}
	seen := make(map[string]bool, len(got))
	for i, p := range got {
		ix, w, msg := c.walk(p, s, t)
		if msg != "" {
			c.failf(routine, s, t, "k=%d cost=%v: path %d: %s", k, cost, i, msg)
			return
		}
		if !isSimple(ix) {
			c.failf(routine, s, t, "k=%d cost=%v: path %d %s is not loopless", k, cost, i, ids(p))
			return
		}
		key := pathKey(ix)
		if seen[key] {
			c.failf(routine, s, t, "k=%d cost=%v: path %s returned twice", k, cost, ids(p))
			return
		}
		seen[key] = true
		if w != want[i] {
			c.failf(routine, s, t, "k=%d cost=%v: path %d %s has weight %v, the %d-th cheapest loopless path weighs %v (all: %v)", k, cost, i, ids(p), w, i+1, want[i], want)
			return
		}
	}
	if len(got) > 1 {
		c.count("yen_results_with_several_paths", 1)
	}
}

func nonNegative(sp *spec) bool {
	for i := 0; i < sp.n; i++ {
		for j := 0; j < sp.n; j++ {
			if sp.has[i][j] && sp.w[i][j] < 0 {
				return false
			}
		}
	}
	return true
}

// graphKinds are the containers that are graph.Graph (Yen, all-pairs).
var graphKinds = []int{kSimpleAsc, kSimpleDesc, kSimpleRot, kMultiSum, kMultiMin}

func genYen(g *vlib.G) {
	thorough := g.Thorough()
	// (a) all 3-node digraphs; graphs with a negative edge only for the
	// "documented panic or nothing" check.
	{
		ps := pairs(3, true)
		odometer(len(ps), len(alphaA)+1, func(idx int, digits []int) bool {
			d := append([]int(nil), digits...)
			gcase(g, "n=3 dir w="+digitString(d, alphaA), func(t *vlib.T) {
				sp := specFromDigits(3, true, ps, d, alphaA)
				r := newRef(sp)
				if !nonNegative(sp) {
					yenGraph(t, r, graphKinds[idx%5], idx%3, false)
					t.Outcome("negative edge")
					return
				}
				yenGraph(t, r, graphKinds[idx%5], idx%3, true)
				if thorough {
					yenGraph(t, r, graphKinds[(idx+2)%5], (idx+1)%3, true)
				}
				mark(t, r)
			})
			return !g.Stopped()
		})
	}
	// undirected graphs (the adjuster removes both orientations of an edge)
	for n := 2; n <= vlib.Pick(g, 4, 5); n++ {
		n := n
		ps := pairs(n, false)
		alpha := alphaBFull
		if n == 5 {
			alpha = alphaB
		}
		odometer(len(ps), len(alpha)+1, func(idx int, digits []int) bool {
			d := append([]int(nil), digits...)
			gcase(g, fmt.Sprintf("n=%d und w=%s", n, digitString(d, alpha)), func(t *vlib.T) {
				r := newRef(specFromDigits(n, false, ps, d, alpha))
				yenGraph(t, r, graphKinds[idx%5], idx%3, n <= 3 || thorough && n == 4)
				mark(t, r)
			})
			return !g.Stopped()
		})
	}
	// unweighted 4-node digraphs (UniformCost)
	{
		ps := pairs(4, true)
		odometer(len(ps), 2, func(idx int, digits []int) bool {
			d := append([]int(nil), digits...)
			gcase(g, "n=4 dir e="+digitString(d, alphaOne), func(t *vlib.T) {
				r := newRef(specFromDigits(4, true, ps, d, alphaOne))
				yenGraph(t, r, []int{kUSimple, kUMulti, kURot}[idx%3], idx%3, thorough)
				mark(t, r)
			})
			return !g.Stopped()
		})
	}
	// (b) 4-node digraphs over {absent,1,2}: every graph (thorough) or the
	// graphs whose index is congruent to 5 modulo 25 (quick), in blocks of 81.
	// The same over the non-metric alphabet {absent,1,3} (see alphaImprove):
	// index = 7 modulo 50 (quick) / modulo 5 (thorough).
	for ai, alpha := range [][]float64{alphaB, alphaImprove} {
		ai, alpha := ai, alpha
		ps := pairs(4, true)
		radix, tail := 3, 4
		head := len(ps) - tail
		odometer(head, radix, func(bidx int, hd []int) bool {
			h := append([]int(nil), hd...)
			gcase(g, fmt.Sprintf("n=4 dir %sw=%s+%d", []string{"", "alphabet{1,3} "}[ai], digitString(h, alpha), tail), func(t *vlib.T) {
				digits := make([]int, len(ps))
				copy(digits, h)
				odometer(tail, radix, func(tidx int, tl []int) bool {
					gi := bidx*81 + tidx
					if ai == 0 && !thorough && gi%25 != 5 {
						return true
					}
					if ai == 1 && gi%vlib.Pick(g, 50, 5) != 7%vlib.Pick(g, 50, 5) {
						return true
					}
					copy(digits[head:], tl)
					r := newRef(specFromDigits(4, true, ps, digits, alpha))
					yenGraph(t, r, graphKinds[gi%5], gi%3, false)
					t.Count("graphs", 1)
					t.Nontrivial()
					return true
				})
				t.Outcome("block")
			})
			return !g.Stopped()
		})
	}
	// k = 0 (finding 6 in NOTES.md): a small dedicated space.
	{
		ps := pairs(3, true)
		odometer(len(ps), 2, func(idx int, digits []int) bool {
			d := append([]int(nil), digits...)
			gcase(g, "k0 n=3 dir e="+digitString(d, alphaOne), func(t *vlib.T) {
				r := newRef(specFromDigits(3, true, ps, d, alphaOne))
				c := newCtx(t, r, kSimpleAsc, idx%3)
				c.yenK0 = true
				for s := 0; s < 3; s++ {
					for tt := 0; tt < 3; tt++ {
						c.yen(s, tt, 0, inf)
					}
				}
				t.Nontrivial()
				t.Outcome("k0")
			})
			return !g.Stopped()
		})
	}
}

// hcGraph adds a HeuristicCost method to a graph (AStar with h == nil).
type hcGraph struct {
	graph.Graph
	wt func(xid, yid int64) (float64, bool)
	h  path.Heuristic
}

func (g hcGraph) Weight(xid, yid int64) (float64, bool) { return g.wt(xid, yid) }
func (g hcGraph) HeuristicCost(x, y graph.Node) float64 { return g.h(x, y) }

// genAStarH runs AStar under every admissible integer heuristic table
// h(x) in 0..min(d(x,t),2) (0 or 1000 for nodes that cannot reach t), h(t)=0,
// on all non-negative 3-node digraphs and all undirected graphs on <= 4 nodes.
func genAStarH(g *vlib.G) {
	run := func(t *vlib.T, r *ref, idx int) {
		c := newCtx(t, r, graphKinds[idx%5], idx%3)
		c.astarInc = true
		n := r.n
		hv := make([]float64, n)
		for s := 0; s < n; s++ {
			for tt := 0; tt < n; tt++ {
				// odometer over the admissible tables
				opts := make([][]float64, n)
				for x := 0; x < n; x++ {
					switch {
					case x == tt:
						opts[x] = []float64{0}
					case math.IsInf(r.d[x][tt], 1):
						opts[x] = []float64{0, 1000}
					default:
						for v := 0.0; v <= r.d[x][tt] && v <= 2; v++ {
							opts[x] = append(opts[x], v)
						}
					}
				}
				pos := make([]int, n)
				first := true
				for {
					for x := 0; x < n; x++ {
						hv[x] = opts[x][pos[x]]
					}
					tab := append([]float64(nil), hv...)
					h := c.tableHeuristic(tab)
					c.astar(s, tt, h, tab, false, "AStar(table)")
					if first {
						// the same table through the HeuristicCoster interface
						first = false
						saved := c.tg
						c.tg = hcGraph{Graph: c.gg, wt: c.gg.(path.Weighted).Weight, h: h}
						c.astar(s, tt, nil, tab, false, "AStar(HeuristicCoster)")
						c.tg = saved
					}
					k := n - 1
					for ; k >= 0; k-- {
						pos[k]++
						if pos[k] < len(opts[k]) {
							break
						}
						pos[k] = 0
					}
					if k < 0 {
						break
					}
				}
			}
		}
		mark(t, r)
	}
	ps := pairs(3, true)
	odometer(len(ps), len(alphaBFull)+1, func(idx int, digits []int) bool {
		d := append([]int(nil), digits...)
		gcase(g, "n=3 dir w="+digitString(d, alphaBFull), func(t *vlib.T) {
			run(t, newRef(specFromDigits(3, true, ps, d, alphaBFull)), idx)
		})
		return !g.Stopped()
	})
	for n := 2; n <= 4; n++ {
		n := n
		ps := pairs(n, false)
		odometer(len(ps), len(alphaBFull)+1, func(idx int, digits []int) bool {
			d := append([]int(nil), digits...)
			gcase(g, fmt.Sprintf("n=%d und w=%s", n, digitString(d, alphaBFull)), func(t *vlib.T) {
				run(t, newRef(specFromDigits(n, false, ps, d, alphaBFull)), idx)
			})
			return !g.Stopped()
		})
	}
	if g.Thorough() {
		// 4-node digraphs over {absent,1,2}, every 7th graph
		ps := pairs(4, true)
		odometer(len(ps), 3, func(idx int, digits []int) bool {
			if idx%7 != 3 {
				return !g.Stopped()
			}
			d := append([]int(nil), digits...)
			gcase(g, "n=4 dir w="+digitString(d, alphaB), func(t *vlib.T) {
				run(t, newRef(specFromDigits(4, true, ps, d, alphaB)), idx)
			})
			return !g.Stopped()
		})
	}
}
