package main

// D* Lite with consistent NON-NULL heuristics, driven exactly by the
// documented replanning loop: Step(), then UpdateWorld(changes) — no MoveTo.
//
// The heuristics are derived from the INITIAL world (exact distances, hop
// counts scaled by the minimum edge weight, enumerated integer tables) and
// stay admissible and consistent only while edge costs do not decrease, so
// these histories contain only cost increases and removals of existing edges
// (the operations enabled in a state depend on the current world). Worlds
// have 4 or 5 nodes. The oracle is the one of the group "dstar": after every
// operation of every history Here() is right, Path() starts there, is a real
// walk of the CURRENT world with the optimal weight (nil, +Inf iff the goal
// is unreachable), Step() is false exactly at the goal / when unreachable and
// follows an optimal first edge, and a fresh planner agrees.

import (
	"fmt"
	"math"

	"gonum.org/v1/gonum/graph"
	"gonum.org/v1/gonum/graph/path/dynamic"
	"gonum.org/v1/gonum/graph/simple"
	"gonum.org/v1/gonum/internal/verif/vlib"
)

const hMax = 5 // maximum number of nodes of a world

type hWorld struct {
	name  string
	n     int
	edges [][3]int // u, v, w
	s, t  int
}

var hWorlds = []hWorld{
	// 5-node worlds
	{"two-routes", 5, [][3]int{{0, 1, 1}, {1, 2, 1}, {2, 4, 2}, {0, 3, 2}, {3, 4, 2}, {3, 2, 1}, {1, 3, 1}, {2, 3, 1}}, 0, 4},
	{"ring5", 5, [][3]int{{0, 1, 1}, {1, 2, 1}, {2, 3, 1}, {3, 4, 1}, {4, 0, 1}, {1, 0, 1}, {2, 1, 1}, {3, 2, 1}, {4, 3, 1}, {0, 4, 5}}, 0, 3},
	{"fan5", 5, [][3]int{{0, 1, 1}, {0, 2, 2}, {0, 3, 2}, {1, 4, 5}, {2, 4, 2}, {3, 4, 1}, {1, 2, 1}, {2, 3, 1}, {3, 2, 2}}, 0, 4},
	{"grid-plus", 5, [][3]int{{0, 1, 1}, {1, 0, 1}, {0, 2, 1}, {2, 0, 1}, {1, 3, 1}, {3, 1, 1}, {2, 3, 1}, {3, 2, 1}, {3, 4, 2}, {1, 4, 5}, {2, 4, 5}}, 0, 4},
	// 4-node worlds (those of the group "dstar" that have edges to raise)
	{"grid2x2", 4, [][3]int{{0, 1, 1}, {1, 0, 1}, {0, 2, 1}, {2, 0, 1}, {1, 3, 1}, {3, 1, 1}, {2, 3, 1}, {3, 2, 1}}, 0, 3},
	{"diamond", 4, [][3]int{{0, 1, 1}, {0, 2, 2}, {1, 3, 5}, {2, 3, 1}, {1, 2, 1}, {2, 1, 1}}, 0, 3},
	{"line", 4, [][3]int{{0, 1, 1}, {1, 2, 1}, {2, 3, 1}, {3, 2, 5}, {2, 1, 5}, {1, 0, 5}}, 0, 3},
	{"complete2", 4, [][3]int{{0, 1, 2}, {0, 2, 2}, {0, 3, 2}, {1, 0, 2}, {1, 2, 2}, {1, 3, 2}, {2, 0, 2}, {2, 1, 2}, {2, 3, 2}, {3, 0, 2}, {3, 1, 2}, {3, 2, 2}}, 1, 2},
	// thorough
	{"arb5a", 5, [][3]int{{0, 2, 2}, {2, 1, 1}, {1, 4, 2}, {0, 3, 1}, {3, 1, 2}, {3, 4, 5}, {2, 4, 5}, {1, 2, 1}, {4, 0, 1}}, 0, 4},
	{"arb5b", 5, [][3]int{{4, 3, 1}, {3, 2, 1}, {2, 0, 2}, {4, 1, 2}, {1, 0, 2}, {1, 2, 1}, {3, 1, 1}, {2, 1, 2}, {4, 0, 5}}, 4, 0},
	{"arb1", 4, [][3]int{{0, 2, 5}, {2, 1, 1}, {1, 3, 2}, {0, 3, 5}, {3, 0, 1}, {1, 0, 2}}, 0, 3},
	{"arb2", 4, [][3]int{{2, 0, 1}, {0, 1, 5}, {2, 1, 2}, {1, 3, 1}, {3, 2, 2}, {0, 3, 5}}, 2, 3},
}

// hGrid is a world state: the current edge costs.
type hGrid struct {
	n   int
	has [hMax][hMax]bool
	w   [hMax][hMax]float64
}

func (w *hWorld) grid() hGrid {
	g := hGrid{n: w.n}
	for _, e := range w.edges {
		g.has[e[0]][e[1]] = true
		g.w[e[0]][e[1]] = float64(e[2])
	}
	return g
}

// allPairs returns the distance matrix (Floyd-Warshall by definition; all
// weights >= 1) using weights, or hop counts if hops is set.
func (g *hGrid) allPairs(hops bool) [hMax][hMax]float64 {
	var d [hMax][hMax]float64
	for i := 0; i < g.n; i++ {
		for j := 0; j < g.n; j++ {
			switch {
			case i == j:
				d[i][j] = 0
			case g.has[i][j] && hops:
				d[i][j] = 1
			case g.has[i][j]:
				d[i][j] = g.w[i][j]
			default:
				d[i][j] = inf
			}
		}
	}
	for k := 0; k < g.n; k++ {
		for i := 0; i < g.n; i++ {
			for j := 0; j < g.n; j++ {
				if v := d[i][k] + d[k][j]; v < d[i][j] {
					d[i][j] = v
				}
			}
		}
	}
	return d
}

func (g *hGrid) apply(o dsOp) {
	for _, c := range o.changes {
		if math.IsInf(c.w, 1) {
			g.has[c.u][c.v] = false
			g.w[c.u][c.v] = 0
		} else {
			g.has[c.u][c.v] = true
			g.w[c.u][c.v] = c.w
		}
	}
}

var (
	hRaise     = []float64{2, 5, inf}
	hRaiseFine = []float64{2, 3, 4, 5, inf}
)

// ops returns the operations enabled in the world state: Step, every strict
// increase of the cost of an existing edge to 2, 5 or +Inf (removal), and for
// every existing edge a batch that removes it and raises the next but one
// existing edge to 5 (or removes it when it costs 5 already).
func (g *hGrid) ops(batches bool, raise []float64) []dsOp {
	ops := []dsOp{{kind: 0}}
	var es [][2]int
	for u := 0; u < g.n; u++ {
		for v := 0; v < g.n; v++ {
			if g.has[u][v] {
				es = append(es, [2]int{u, v})
				for _, w := range raise {
					if w > g.w[u][v] {
						ops = append(ops, dsOp{kind: 2, changes: []change{{u, v, w}}})
					}
				}
			}
		}
	}
	if batches && len(es) >= 3 {
		for i, e := range es {
			q := es[(i+2)%len(es)]
			w := 5.0
			if g.w[q[0]][q[1]] >= 5 {
				w = inf
			}
			ops = append(ops, dsOp{kind: 2, changes: []change{{e[0], e[1], inf}, {q[0], q[1], w}}})
		}
	}
	return ops
}

// Heuristic kinds.
const (
	hExact0 = iota // exact distance in the initial world
	hHops0         // hop count in the initial world x minimum initial edge weight
	hTable         // explicit table
)

var hKindNames = []string{"exact0", "hops0", "table"}

type hEnv struct {
	w     *hWorld
	ids   []int64
	idx   map[int64]int
	pos   map[int64]int
	table [hMax][hMax]float64
}

const hUnreach = 1000 // estimate between nodes that are not connected in the initial world

func newHEnv(w *hWorld, idk, order, kind int, table *[hMax][hMax]float64) *hEnv {
	ids := idMap(idk, w.n)
	e := &hEnv{w: w, ids: ids, idx: map[int64]int{}, pos: rank(ids, order)}
	for i, id := range ids {
		e.idx[id] = i
	}
	g0 := w.grid()
	switch kind {
	case hExact0:
		e.table = g0.allPairs(false)
	case hHops0:
		minw := inf
		for _, ed := range w.edges {
			minw = math.Min(minw, float64(ed[2]))
		}
		e.table = g0.allPairs(true)
		for i := range e.table {
			for j := range e.table[i] {
				e.table[i][j] *= minw
			}
		}
	default:
		e.table = *table
	}
	for i := range e.table {
		for j := range e.table[i] {
			if math.IsInf(e.table[i][j], 1) {
				e.table[i][j] = hUnreach
			}
		}
	}
	return e
}

func (e *hEnv) h(x, y graph.Node) float64 { return e.table[e.idx[x.ID()]][e.idx[y.ID()]] }

type hState struct {
	e    *hEnv
	g    hGrid
	sg   *simple.WeightedDirectedGraph
	view ordWDir
	d    *dynamic.DStarLite
}

func (e *hEnv) newModel() detModel {
	return detModel{simple.NewWeightedDirectedGraph(0, math.Inf(1)), ordBase{pos: e.pos}}
}

func (e *hEnv) start() *hState {
	st := &hState{e: e, g: e.w.grid(), sg: simple.NewWeightedDirectedGraph(0, math.Inf(1))}
	for _, id := range e.ids {
		st.sg.AddNode(simple.Node(id))
	}
	for _, ed := range e.w.edges {
		st.sg.SetWeightedEdge(simple.WeightedEdge{F: simple.Node(e.ids[ed[0]]), T: simple.Node(e.ids[ed[1]]), W: float64(ed[2])})
	}
	st.view = ordWDir{ordDir{ordBase{g: st.sg, pos: e.pos}, st.sg}, st.sg}
	st.d = dynamic.NewDStarLite(simple.Node(e.ids[e.w.s]), simple.Node(e.ids[e.w.t]), st.view, e.h, e.newModel())
	return st
}

func (st *hState) here() int { return st.e.idx[st.d.Here().ID()] }

func (st *hState) apply(o dsOp) bool {
	if o.kind == 0 {
		return st.d.Step()
	}
	ids := st.e.ids
	edges := make([]graph.Edge, len(o.changes))
	for i, c := range o.changes {
		if math.IsInf(c.w, 1) {
			st.sg.RemoveEdge(ids[c.u], ids[c.v])
		} else {
			st.sg.SetWeightedEdge(simple.WeightedEdge{F: simple.Node(ids[c.u]), T: simple.Node(ids[c.v]), W: c.w})
		}
		edges[i] = simple.Edge{F: simple.Node(ids[c.u]), T: simple.Node(ids[c.v])}
	}
	st.g.apply(o)
	st.d.UpdateWorld(edges)
	return false
}

func (st *hState) checkPath(d *dynamic.DStarLite, here int, dist [hMax][hMax]float64) string {
	e := st.e
	goal := e.w.t
	if got := d.Here().ID(); got != e.ids[here] {
		return fmt.Sprintf("Here() = %d, want %d", got, e.ids[here])
	}
	p, w := d.Path()
	want := dist[here][goal]
	if math.IsInf(want, 1) {
		if p != nil || !math.IsInf(w, 1) {
			return fmt.Sprintf("goal unreachable from %d in the current world: Path() = %s, %v, want nil, +Inf", here, ids(p), w)
		}
		return ""
	}
	if len(p) == 0 {
		return fmt.Sprintf("Path() = %s, %v, but the goal is reachable from %d with weight %v", ids(p), w, here, want)
	}
	if p[0].ID() != e.ids[here] {
		return fmt.Sprintf("Path() %s does not start at Here() = %d", ids(p), e.ids[here])
	}
	if p[len(p)-1].ID() != e.ids[goal] {
		return fmt.Sprintf("Path() %s does not end at the goal", ids(p))
	}
	var sum float64
	for k := 1; k < len(p); k++ {
		a, oka := e.idx[p[k-1].ID()]
		b, okb := e.idx[p[k].ID()]
		if !oka || !okb || !st.g.has[a][b] {
			return fmt.Sprintf("Path() %s uses the edge %d->%d which does not exist in the current world", ids(p), p[k-1].ID(), p[k].ID())
		}
		sum += st.g.w[a][b]
	}
	if sum != w {
		return fmt.Sprintf("Path() %s: edge weights sum to %v, reported weight %v", ids(p), sum, w)
	}
	if w != want {
		return fmt.Sprintf("Path() %s has weight %v, the optimal weight in the current world is %v", ids(p), w, want)
	}
	return ""
}

// runHistory replays ops on a fresh planner and checks the effect of the last one.
func (e *hEnv) runHistory(t *vlib.T, ops []dsOp) string {
	st := e.start()
	for _, o := range ops[:len(ops)-1] {
		st.apply(o)
	}
	last := ops[len(ops)-1]
	goal := e.w.t
	before := st.here()
	distBefore := st.g.allPairs(false)
	ret := st.apply(last)
	t.Count("transitions", int64(len(ops)))
	dist := st.g.allPairs(false)
	here := st.here()
	if last.kind == 0 {
		wantRet := before != goal && !math.IsInf(distBefore[before][goal], 1)
		if ret != wantRet {
			return fmt.Sprintf("Step() = %v at node %d (goal %d, distance to goal %v), want %v", ret, before, goal, distBefore[before][goal], wantRet)
		}
		if !ret && here != before {
			return fmt.Sprintf("Step() = false but Here() moved from %d to %d", before, here)
		}
		if ret {
			if !st.g.has[before][here] || st.g.w[before][here]+dist[here][goal] != distBefore[before][goal] {
				return fmt.Sprintf("Step() moved %d -> %d, which is not the first edge of an optimal path (d(%d)=%v, d(%d)=%v)", before, here, before, distBefore[before][goal], here, dist[here][goal])
			}
			t.Count("steps_taken", 1)
		}
	} else if here != before {
		return fmt.Sprintf("UpdateWorld moved Here() from %d to %d", before, here)
	}
	if msg := st.checkPath(st.d, here, dist); msg != "" {
		return msg
	}
	if math.IsInf(dist[here][goal], 1) {
		t.Count("states_goal_unreachable", 1)
	}
	if here != e.w.s && last.kind == 2 {
		t.Count("updates_after_moving_away_from_start", 1)
	}
	f := dynamic.NewDStarLite(simple.Node(e.ids[here]), simple.Node(e.ids[goal]), st.view, e.h, e.newModel())
	if msg := st.checkPath(f, here, dist); msg != "" {
		return "fresh planner on the current world: " + msg
	}
	t.Count("fresh_planner_comparisons", 1)
	return ""
}

// consistentTables enumerates every integer table h with h(x,x) = 0,
// 0 <= h(x,y) <= min(d0(x,y), cap) (hUnreach allowed only where d0 = +Inf,
// there h in {0, hUnreach}) that satisfies the triangle inequality
// h(x,z) <= h(x,y) + h(y,z); together with h <= d0 this makes it an admissible,
// consistent heuristic for every world whose costs are >= the initial ones.
func consistentTables(w *hWorld, cap float64, f func(idx int, tab *[hMax][hMax]float64) bool) {
	g0 := w.grid()
	d0 := g0.allPairs(false)
	n := w.n
	var cells [][2]int
	var opts [][]float64
	for x := 0; x < n; x++ {
		for y := 0; y < n; y++ {
			if x == y {
				continue
			}
			cells = append(cells, [2]int{x, y})
			var o []float64
			if math.IsInf(d0[x][y], 1) {
				o = []float64{0, hUnreach}
			} else {
				for v := 0.0; v <= d0[x][y] && v <= cap; v++ {
					o = append(o, v)
				}
			}
			opts = append(opts, o)
		}
	}
	var tab [hMax][hMax]float64
	idx := 0
	var rec func(k int) bool
	rec = func(k int) bool {
		if k == len(cells) {
			for x := 0; x < n; x++ {
				for y := 0; y < n; y++ {
					for z := 0; z < n; z++ {
						if tab[x][z] > tab[x][y]+tab[y][z] {
							return true
						}
					}
				}
			}
			ok := f(idx, &tab)
			idx++
			return ok
		}
		for _, v := range opts[k] {
			tab[cells[k][0]][cells[k][1]] = v
			if !rec(k + 1) {
				return false
			}
		}
		return true
	}
	rec(0)
}

// hExplore registers the cases of one configuration: one case per first
// operation (first two operations for depth >= 5).
func hExplore(g *vlib.G, e *hEnv, label string, depth, prefixLen int, batches bool, raise []float64) {
	var gen func(prefix []dsOp, grid hGrid)
	gen = func(prefix []dsOp, grid hGrid) {
		if g.Stopped() {
			return
		}
		if len(prefix) < prefixLen {
			for _, o := range grid.ops(batches, raise) {
				ng := grid
				ng.apply(o)
				gen(append(append([]dsOp(nil), prefix...), o), ng)
			}
			return
		}
		key := label + ":"
		for _, o := range prefix {
			key += " " + o.String() + ";"
		}
		gcase(g, key, func(t *vlib.T) {
			t.Nontrivial()
			nviol := 0
			var rec func(ops []dsOp, grid hGrid)
			rec = func(ops []dsOp, grid hGrid) {
				t.Count("states", 1)
				t.Max("depth", int64(len(ops)))
				var msg string
				if p := try(func() { msg = e.runHistory(t, ops) }); p != "" {
					msg = "panic: " + p
				}
				if msg != "" {
					nviol++
					t.Count("violations:dstar-heur", 1)
					sub := ""
					for _, o := range ops {
						sub += o.String() + "; "
					}
					t.SubViolation(sub, "", map[string]any{"world": e.w, "ids": e.ids, "heuristic": e.table}, "after [%s]: %s", sub, msg)
					return
				}
				if len(ops) == depth || nviol >= 8 {
					return
				}
				for _, o := range grid.ops(batches, raise) {
					ng := grid
					ng.apply(o)
					rec(append(ops[:len(ops):len(ops)], o), ng)
				}
			}
			if prefixLen == 2 && prefix[1].kind == 0 {
				// the length-1 history is checked in the case of its Step extension
				if msg := e.runHistory(t, prefix[:1]); msg != "" {
					t.Count("violations:dstar-heur", 1)
					t.SubViolation(prefix[0].String(), "", nil, "after [%s]: %s", prefix[0], msg)
				}
				t.Count("states", 1)
			}
			if prefixLen == 0 {
				for _, o := range grid.ops(batches, raise) {
					ng := grid
					ng.apply(o)
					rec([]dsOp{o}, ng)
				}
			} else {
				rec(prefix, grid)
			}
			if nviol == 0 {
				t.Outcome("held")
			} else {
				t.Outcome("violated")
			}
		})
	}
	gen(nil, e.w.grid())
}

// hPairs are the node pairs of the enumerated worlds (start 0, goal 3).
var hPairs = [][2]int{{0, 1}, {0, 2}, {0, 3}, {1, 2}, {2, 1}, {1, 3}, {2, 3}}

func genDStarHeur(g *vlib.G) {
	thorough := g.Thorough()
	// (1) Enumerated worlds: every 4-node world whose edges are a subset of
	// hPairs with costs in {1,2} (thorough {1,2,5}), start 0, goal 3; quick:
	// exact0 at depth 2, exact0/hops0 alternating at depth 3; thorough: both;
	// every increase-only history without batches to depth 2 with raises to
	// 2, 3, 4, 5, +Inf, and, for the worlds with index = 1 mod 4, to depth 3
	// with raises to 2, 5, +Inf. One case per world, heuristic and depth.
	alpha := []float64{1, 2}
	if thorough {
		alpha = []float64{1, 2, 5}
	}
	odometer(len(hPairs), len(alpha)+1, func(idx int, digits []int) bool {
		w := &hWorld{name: "enum w=" + digitString(digits, alpha), n: 4, s: 0, t: 3}
		for k, d := range digits {
			if d > 0 {
				w.edges = append(w.edges, [3]int{hPairs[k][0], hPairs[k][1], int(alpha[d-1])})
			}
		}
		if len(w.edges) == 0 {
			return true
		}
		for kind := hExact0; kind <= hHops0; kind++ {
			e := newHEnv(w, idx%3, idx%3, kind, nil)
			// depth 2 with the fine raise alphabet {2,3,4,5,+Inf}
			if thorough || kind == hExact0 {
				hExplore(g, e, fmt.Sprintf("%s h=%s depth=2 fine", w.name, hKindNames[kind]), 2, 0, false, hRaiseFine)
			}
			// depth 3 with {2,5,+Inf}
			if idx%4 == 1 && (thorough || kind == idx/4%2) {
				hExplore(g, e, fmt.Sprintf("%s h=%s depth=3", w.name, hKindNames[kind]), 3, 0, false, hRaise)
			}
		}
		return !g.Stopped()
	})
	// (2) Hand-written 4- and 5-node worlds with batches: depth 3 (quick),
	// depth 4 (thorough).
	nw := vlib.Pick(g, 8, len(hWorlds))
	for wi := 0; wi < nw; wi++ {
		w := &hWorlds[wi]
		for kind := hExact0; kind <= hHops0; kind++ {
			depth := vlib.Pick(g, 3, 4)
			idk := (wi + kind) % 3
			e := newHEnv(w, idk, wi%3, kind, nil)
			prefixLen := 1
			if depth >= 5 {
				prefixLen = 2
			}
			hExplore(g, e, fmt.Sprintf("%s h=%s ids=%s depth=%d", w.name, hKindNames[kind], idMapNames[idk], depth), depth, prefixLen, true, hRaise)
		}
	}
	// (3) enumerated consistent integer tables with entries <= 2 on three
	// 4-node worlds: the tables with index = 1 modulo 400 (quick) / 20
	// (thorough), histories with batches to depth 3.
	for _, wi := range []int{5, 6, 4} {
		w := &hWorlds[wi]
		stride := vlib.Pick(g, 400, 20)
		consistentTables(w, 2, func(idx int, tab *[hMax][hMax]float64) bool {
			if idx%stride != 1 {
				return !g.Stopped()
			}
			tb := *tab
			e := newHEnv(w, idx%3, idx%3, hTable, &tb)
			hExplore(g, e, fmt.Sprintf("%s h=table#%d depth=3", w.name, idx), 3, 1, true, hRaise)
			return !g.Stopped()
		})
	}
}
