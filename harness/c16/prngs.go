package main

import (
	"bytes"
	"encoding/binary"
	"fmt"

	"gonum.org/v1/gonum/internal/verif/vlib"
	"gonum.org/v1/gonum/mathext/prng"
)

type gen interface {
	Uint64() uint64
	Seed(uint64)
	MarshalBinary() ([]byte, error)
	UnmarshalBinary([]byte) error
}

type genKind struct {
	name    string
	mk      func() gen // a generator in its "fresh" state
	blobLen int
	idxOff  int // offset of the position field in the blob, -1 if none
	idxLen  int
}

var genKinds = []genKind{
	{"MT19937", func() gen { return prng.NewMT19937() }, 625 * 4, 624 * 4, 4},
	{"MT19937_64", func() gen { return prng.NewMT19937_64() }, 313 * 8, 312 * 8, 8},
	{"SplitMix64", func() gen { return prng.NewSplitMix64(99) }, 8, -1, 0},
	{"Xoshiro256plus", func() gen { return prng.NewXoshiro256plus(99) }, 32, -1, 0},
	{"Xoshiro256plusplus", func() gen { return prng.NewXoshiro256plusplus(99) }, 32, -1, 0},
	{"Xoshiro256starstar", func() gen { return prng.NewXoshiro256starstar(99) }, 32, -1, 0},
}

var genSeedings = []struct {
	name string
	f    func(g gen)
}{
	{"unseeded", func(g gen) {}},
	{"seed0", func(g gen) { g.Seed(0) }},
	{"seed1", func(g gen) { g.Seed(1) }},
	{"seedbig", func(g gen) { g.Seed(0xdeadbeefcafef00d) }},
	{"keys", func(g gen) {
		switch g := g.(type) {
		case *prng.MT19937:
			g.SeedFromKeys([]uint32{0x123, 0x234, 0x345, 0x456})
		case *prng.MT19937_64:
			g.SeedFromKeys([]uint64{0x12345, 0x23456, 0x34567, 0x45678})
		default:
			g.Seed(7)
		}
	}},
}

var genDraws = []int{0, 1, 2, 311, 312, 313, 623, 624, 625, 1247, 1248, 1249}

// draw advances g by k steps; half selects the 32-bit step of MT19937.
func draw(g gen, k int, half bool) {
	if m, ok := g.(*prng.MT19937); ok && half {
		for i := 0; i < k; i++ {
			m.Uint32()
		}
		return
	}
	for i := 0; i < k; i++ {
		g.Uint64()
	}
}

func sameStream(a, b gen, n int) (int, bool) {
	for i := 0; i < n; i++ {
		if x, y := a.Uint64(), b.Uint64(); x != y {
			return i, false
		}
	}
	return 0, true
}

func genPRNGRoundTrip(g *vlib.G) {
	for ki := range genKinds {
		for si := range genSeedings {
			for _, k := range genDraws {
				for _, half := range []bool{false, true} {
					ki, si, k, half := ki, si, k, half
					gk := genKinds[ki]
					if half && gk.name != "MT19937" {
						continue
					}
					g.Case(fmt.Sprintf("%s %s draws=%d half=%v", gk.name, genSeedings[si].name, k, half), func(t *vlib.T) {
						r := newRep(t)
						src, twin := gk.mk(), gk.mk()
						genSeedings[si].f(src)
						genSeedings[si].f(twin)
						draw(src, k, half)
						draw(twin, k, half)
						blob, err := src.MarshalBinary()
						if err != nil || len(blob) != gk.blobLen {
							r.Failf("MarshalBinary: len=%d err=%v, want %d bytes", len(blob), err, gk.blobLen)
							return
						}
						dst := gk.mk()
						dst.Seed(424242) // make sure every word is overwritten
						draw(dst, 3, false)
						if err := dst.UnmarshalBinary(blob); err != nil {
							r.Failf("UnmarshalBinary: %v", err)
							return
						}
						blob2, err := dst.MarshalBinary()
						if err != nil || !bytes.Equal(blob, blob2) {
							r.Failf("state re-marshalled after unmarshal differs (err=%v)", err)
						}
						if i, ok := sameStream(dst, twin, 1300); !ok {
							r.Failf("decoded generator diverges from the original stream at draw %d after the state was taken at %d", i, k)
						}
						// marshalling did not disturb the source: src is now 0 draws past
						// the blob, twin and dst are 1300 past it.
						draw(src, 1300, false)
						if i, ok := sameStream(src, twin, 20); !ok {
							r.Failf("MarshalBinary disturbed the source generator (diverges %d draws later)", 1300+i)
						}
						t.Nontrivial()
						t.Outcome(gk.name)
					})
				}
			}
		}
	}
}

func genPRNGBlobs(g *vlib.G) {
	for ki := range genKinds {
		ki := ki
		gk := genKinds[ki]
		valid := func() []byte {
			s := gk.mk()
			s.Seed(5)
			draw(s, 10, false)
			b, _ := s.MarshalBinary()
			return b
		}
		for l := 0; l <= gk.blobLen+1; l++ {
			l := l
			if gk.blobLen > 100 && !g.Thorough() && l > 40 && l < gk.blobLen-40 && l%97 != 0 {
				continue
			}
			g.Case(fmt.Sprintf("%s len=%d of %d", gk.name, l, gk.blobLen), func(t *vlib.T) {
				r := newRep(t)
				blob := valid()
				if l <= len(blob) {
					blob = blob[:l]
				} else {
					blob = append(blob, 0xa5)
				}
				dst, twin := gk.mk(), gk.mk()
				dst.Seed(77)
				twin.Seed(77)
				draw(dst, 5, false)
				draw(twin, 5, false)
				var err error
				if p := catch(func() { err = dst.UnmarshalBinary(blob) }); p != "" {
					r.Failf("UnmarshalBinary of %d bytes panicked: %s", l, p)
					return
				}
				if l < gk.blobLen {
					if err == nil {
						r.Failf("UnmarshalBinary accepted %d of %d bytes", l, gk.blobLen)
					}
					if i, ok := sameStream(dst, twin, 700); !ok {
						r.Failf("a rejected blob changed the generator (diverges at draw %d)", i)
					}
					t.Outcome("rejected")
				} else {
					if err != nil {
						r.Failf("UnmarshalBinary of %d bytes (state is %d): %v", l, gk.blobLen, err)
						return
					}
					src := gk.mk()
					src.Seed(5)
					draw(src, 10, false)
					if i, ok := sameStream(dst, src, 700); !ok {
						r.Failf("decoded generator diverges at draw %d", i)
					}
					t.Outcome("accepted")
				}
				t.Nontrivial()
			})
		}
		if gk.idxOff < 0 {
			continue
		}
		// hostile position field and degenerate state words
		idxVals := []uint64{0, 1, 311, 312, 313, 314, 623, 624, 625, 626, 1 << 16, 1<<31 - 1, 1 << 31, 1<<32 - 1, 1 << 32, 1<<63 - 1, 1 << 63, 1<<64 - 1}
		for _, iv := range idxVals {
			for _, fill := range []string{"valid", "zeros", "ones"} {
				iv, fill := iv, fill
				if gk.idxLen == 4 && iv > 1<<32-1 {
					continue
				}
				g.Case(fmt.Sprintf("%s index=%d words=%s", gk.name, iv, fill), func(t *vlib.T) {
					r := newRep(t)
					blob := valid()
					switch fill {
					case "zeros":
						for i := 0; i < gk.idxOff; i++ {
							blob[i] = 0
						}
					case "ones":
						for i := 0; i < gk.idxOff; i++ {
							blob[i] = 0xff
						}
					}
					if gk.idxLen == 4 {
						binary.BigEndian.PutUint32(blob[gk.idxOff:], uint32(iv))
					} else {
						binary.BigEndian.PutUint64(blob[gk.idxOff:], iv)
					}
					a, b := gk.mk(), gk.mk()
					if p := catch(func() {
						if err := a.UnmarshalBinary(blob); err != nil {
							t.Outcome("rejected")
							return
						}
						t.Outcome("accepted")
						if err := b.UnmarshalBinary(blob); err != nil {
							r.Failf("second UnmarshalBinary of the same blob: %v", err)
							return
						}
						// well-formed value: usable, deterministic, and its own
						// encoding decodes to the same generator.
						if i, ok := sameStream(a, b, 1300); !ok {
							r.Failf("two generators decoded from one blob diverge at draw %d", i)
						}
						bb, err := a.MarshalBinary()
						c := gk.mk()
						if err != nil || c.UnmarshalBinary(bb) != nil {
							r.Failf("state of the decoded generator does not round trip: %v", err)
							return
						}
						if i, ok := sameStream(a, c, 700); !ok {
							r.Failf("re-encoded generator diverges at draw %d", i)
						}
					}); p != "" {
						r.Failf("generator decoded from a blob with position field %d panics: %s", iv, p)
					}
					t.Nontrivial()
				})
			}
		}
	}
}
