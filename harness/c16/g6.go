package main

import (
	"fmt"
	"math/big"
	"sort"

	"gonum.org/v1/gonum/graph"
	"gonum.org/v1/gonum/graph/encoding/digraph6"
	"gonum.org/v1/gonum/graph/encoding/graph6"
	"gonum.org/v1/gonum/graph/simple"
	"gonum.org/v1/gonum/internal/verif/vlib"
)

// g6codec abstracts over the graph6 and digraph6 packages.
type g6codec struct {
	name     string
	directed bool
	encode   func(graph.Graph) string
	valid    func(string) bool
	mk       func(string) graph.Graph
	goString func(string) string
}

var g6codecs = []*g6codec{
	{
		name:     "graph6",
		encode:   func(g graph.Graph) string { return string(graph6.Encode(g)) },
		valid:    func(s string) bool { return graph6.IsValid(graph6.Graph(s)) },
		mk:       func(s string) graph.Graph { return graph6.Graph(s) },
		goString: func(s string) string { return graph6.Graph(s).GoString() },
	},
	{
		name:     "digraph6",
		directed: true,
		encode:   func(g graph.Graph) string { return string(digraph6.Encode(g)) },
		valid:    func(s string) bool { return digraph6.IsValid(digraph6.Graph(s)) },
		mk:       func(s string) graph.Graph { return digraph6.Graph(s) },
		goString: func(s string) string { return digraph6.Graph(s).GoString() },
	},
}

// ---- reference codec, written from formats.txt ----

// refN6 is N(n) of formats.txt.
func refN6(n int64) []byte {
	switch {
	case n <= 62:
		return []byte{byte(n) + 63}
	case n <= 258047:
		return []byte{126, byte(n>>12&63) + 63, byte(n>>6&63) + 63, byte(n&63) + 63}
	default:
		b := []byte{126, 126}
		for s := 30; s >= 0; s -= 6 {
			b = append(b, byte(n>>uint(s)&63)+63)
		}
		return b
	}
}

// refBits lists the adjacency bits in format order.
func refBits(directed bool, n int, adj [][]bool) []bool {
	var bits []bool
	if directed {
		for i := 0; i < n; i++ {
			for j := 0; j < n; j++ {
				bits = append(bits, adj[i][j])
			}
		}
		return bits
	}
	for j := 1; j < n; j++ {
		for i := 0; i < j; i++ {
			bits = append(bits, adj[i][j] || adj[j][i])
		}
	}
	return bits
}

func refEncode6(directed bool, n int, adj [][]bool) string {
	var out []byte
	if directed {
		out = append(out, '&')
	}
	out = append(out, refN6(int64(n))...)
	bits := refBits(directed, n, adj)
	for len(bits)%6 != 0 {
		bits = append(bits, false)
	}
	for i := 0; i < len(bits); i += 6 {
		var c byte
		for k := 0; k < 6; k++ {
			c <<= 1
			if bits[i+k] {
				c |= 1
			}
		}
		out = append(out, c+63)
	}
	return string(out)
}

type g6ref struct {
	ok  bool
	n   int64
	hdr int // header length (after the '&' of digraph6)
	adj [][]bool
}

const g6AdjCap = 200 // adjacency is materialised only up to this order

// refDecode6 is the reference reader: printable bytes 63..126, N(n) in any
// of its three widths, then exactly ceil(bits/6) data bytes. Padding bits and
// (digraph6) diagonal bits are ignored.
func refDecode6(directed bool, s string) g6ref {
	if directed {
		if len(s) < 1 || s[0] != '&' {
			return g6ref{}
		}
		s = s[1:]
	}
	if len(s) < 1 {
		return g6ref{}
	}
	for i := 0; i < len(s); i++ {
		if s[i] < 63 || s[i] > 126 {
			return g6ref{}
		}
	}
	var r g6ref
	switch {
	case s[0] != 126:
		r.n, r.hdr = int64(s[0]-63), 1
	case len(s) < 4:
		return g6ref{}
	case s[1] != 126:
		r.n, r.hdr = int64(s[1]-63)<<12|int64(s[2]-63)<<6|int64(s[3]-63), 4
	case len(s) < 8:
		return g6ref{}
	default:
		r.hdr = 8
		for i := 2; i < 8; i++ {
			r.n = r.n<<6 | int64(s[i]-63)
		}
	}
	n := big.NewInt(r.n)
	bits := new(big.Int).Mul(n, n)
	if !directed {
		bits.Sub(bits, n)
		bits.Rsh(bits, 1)
	}
	need := new(big.Int).Add(bits, big.NewInt(5))
	need.Div(need, big.NewInt(6))
	if need.Cmp(big.NewInt(int64(len(s)-r.hdr))) != 0 {
		return g6ref{n: r.n, hdr: r.hdr}
	}
	r.ok = true
	if r.n > g6AdjCap {
		return r
	}
	data := s[r.hdr:]
	bit := func(k int) bool { return (data[k/6]-63)&(1<<uint(5-k%6)) != 0 }
	nn := int(r.n)
	r.adj = make([][]bool, nn)
	for i := range r.adj {
		r.adj[i] = make([]bool, nn)
	}
	if directed {
		for i := 0; i < nn; i++ {
			for j := 0; j < nn; j++ {
				if i != j {
					r.adj[i][j] = bit(i*nn + j)
				}
			}
		}
	} else {
		k := 0
		for j := 1; j < nn; j++ {
			for i := 0; i < j; i++ {
				if bit(k) {
					r.adj[i][j], r.adj[j][i] = true, true
				}
				k++
			}
		}
	}
	return r
}

// ---- audits ----

// collect drains it, checking the Len contract on the way.
func collectNodes(r *rep, what string, it graph.Nodes) (ids []int64, ok bool) {
	l := it.Len()
	for it.Next() {
		nd := it.Node()
		if nd == nil {
			r.Failf("%s: Node() nil after Next()=true", what)
			return nil, false
		}
		ids = append(ids, nd.ID())
		if len(ids) > 1<<16 {
			r.Failf("%s: iterator does not terminate", what)
			return nil, false
		}
		if rem := it.Len(); rem != l-len(ids) {
			r.Failf("%s: Len()=%d after %d of %d items", what, rem, len(ids), l)
			return nil, false
		}
	}
	if len(ids) != l {
		r.Failf("%s: Len()=%d but %d items", what, l, len(ids))
		return nil, false
	}
	if it.Next() {
		r.Failf("%s: Next()=true after exhaustion", what)
		return nil, false
	}
	return ids, true
}

// iterProtocol drives one graph.Nodes value through the whole iterator
// contract: a full pass (Len before/after every Next), Reset, a second full
// pass; then for every k a partial pass of k steps, Len, Reset and a full
// pass again. Every full pass must yield exactly want and Len must always be
// the number of items not yet returned. (k: all 0..len(want) up to 8 items,
// else 0, 1, the middle and the end.)
func iterProtocol(r *rep, what string, it graph.Nodes, want []int64) {
	if it == nil {
		r.Failf("%s is nil", what)
		return
	}
	for pass := 1; pass <= 2; pass++ {
		got, ok := collectNodes(r, fmt.Sprintf("%s pass %d", what, pass), it)
		if !ok {
			return
		}
		if !sameIDSet(got, want) {
			r.Failf("%s pass %d (after %d Reset) yields %v, want %v", what, pass, pass-1, got, want)
			return
		}
		it.Reset()
		if l := it.Len(); l != len(want) {
			r.Failf("%s: Len()=%d after Reset following pass %d, want %d", what, l, pass, len(want))
			return
		}
	}
	ks := []int{0, 1, len(want) / 2, len(want)}
	if len(want) <= 8 {
		ks = ks[:0]
		for k := 0; k <= len(want); k++ {
			ks = append(ks, k)
		}
	}
	for _, k := range ks {
		if k > len(want) {
			continue
		}
		it.Reset()
		for i := 0; i < k; i++ {
			if !it.Next() {
				r.Failf("%s: Next()=false at step %d of %d after Reset", what, i, len(want))
				return
			}
		}
		if l := it.Len(); l != len(want)-k {
			r.Failf("%s: Len()=%d after %d of %d steps, want %d", what, l, k, len(want), len(want)-k)
			return
		}
		it.Reset()
		got, ok := collectNodes(r, fmt.Sprintf("%s after a partial pass of %d and Reset", what, k), it)
		if !ok {
			return
		}
		if !sameIDSet(got, want) {
			r.Failf("%s after a partial pass of %d steps and Reset yields %v, want %v", what, k, got, want)
			return
		}
	}
}

func sameIDSet(got []int64, want []int64) bool {
	g := append([]int64(nil), got...)
	sort.Slice(g, func(i, j int) bool { return g[i] < g[j] })
	if len(g) != len(want) {
		return false
	}
	for i := range g {
		if g[i] != want[i] {
			return false
		}
	}
	return true
}

// auditNull6 checks that g behaves as the null graph for ids -1..2.
func auditNull6(r *rep, c *g6codec, s string) {
	g := c.mk(s)
	if p := catch(func() {
		it := g.Nodes()
		if it == nil {
			r.Failf("null graph: Nodes() is nil")
			return
		}
		if it.Len() != 0 || it.Next() {
			r.Failf("null graph %s has nodes", hexs(s))
		}
		for u := int64(-1); u <= 2; u++ {
			if g.Node(u) != nil {
				r.Failf("null graph %s: Node(%d) != nil", hexs(s), u)
			}
			f := g.From(u)
			if f == nil {
				r.Failf("null graph %s: From(%d) is nil", hexs(s), u)
			} else if f.Len() != 0 || f.Next() {
				r.Failf("null graph %s: From(%d) not empty", hexs(s), u)
			}
			if d, ok := g.(graph.Directed); ok {
				to := d.To(u)
				if to == nil {
					r.Failf("null graph %s: To(%d) is nil", hexs(s), u)
				} else if to.Len() != 0 || to.Next() {
					r.Failf("null graph %s: To(%d) not empty", hexs(s), u)
				}
			}
			for v := int64(-1); v <= 2; v++ {
				if g.HasEdgeBetween(u, v) || g.Edge(u, v) != nil {
					r.Failf("null graph %s has edge %d,%d", hexs(s), u, v)
				}
				if d, ok := g.(graph.Directed); ok && d.HasEdgeFromTo(u, v) {
					r.Failf("null graph %s has edge %d->%d", hexs(s), u, v)
				}
				if ug, ok := g.(graph.Undirected); ok && ug.EdgeBetween(u, v) != nil {
					r.Failf("null graph %s has edge between %d,%d", hexs(s), u, v)
				}
			}
		}
	}); p != "" {
		r.Failf("query on invalid (null) %s %s panicked: %s", c.name, hexs(s), p)
	}
	if p := catch(func() { _ = c.goString(s) }); p != "" {
		r.finding("g6-gostring-invalid-panics", c.name, "%s.Graph(%s).GoString() panics on an invalid encoding (documented to behave as the null graph): %s", c.name, q(s), p)
	}
}

// auditValid6 checks every query of g against the adjacency want on ids
// -1..n. us restricts the source ids examined (nil: all).
func auditValid6(r *rep, c *g6codec, s string, n int, want [][]bool, us []int64) {
	g := c.mk(s)
	in := func(u int64) bool { return u >= 0 && u < int64(n) }
	edge := func(u, v int64) bool { return in(u) && in(v) && u != v && want[u][v] }
	if p := catch(func() {
		all := make([]int64, n)
		for i := range all {
			all[i] = int64(i)
		}
		iterProtocol(r, "Nodes()", g.Nodes(), all)
	}); p != "" {
		r.Failf("Nodes() of valid %s panicked: %s", hexs(clip(s, 40)), p)
		return
	}
	if us == nil {
		for u := int64(-1); u <= int64(n); u++ {
			us = append(us, u)
		}
	}
	for _, u := range us {
		u := u
		if p := catch(func() {
			nd := g.Node(u)
			if (nd != nil) != in(u) {
				r.Failf("Node(%d) presence wrong (n=%d)", u, n)
			} else if nd != nil && nd.ID() != u {
				r.Failf("Node(%d).ID()=%d", u, nd.ID())
			}
			// From
			var wantFrom, wantTo []int64
			for v := int64(0); v < int64(n); v++ {
				if edge(u, v) {
					wantFrom = append(wantFrom, v)
				}
				if edge(v, u) {
					wantTo = append(wantTo, v)
				}
			}
			f := g.From(u)
			switch {
			case f == nil && !in(u):
				r.finding("graph6-from-nil", c.name, "%s.Graph(%s) is valid with %d nodes, From(%d) returns a nil graph.Nodes; graph.Graph requires \"From must not return nil\"", c.name, q(clip(s, 24)), n, u)
			case f == nil:
				r.Failf("From(%d) is nil for a node of the graph", u)
			default:
				iterProtocol(r, fmt.Sprintf("From(%d)", u), f, wantFrom)
			}
			if d, ok := g.(graph.Directed); ok {
				to := d.To(u)
				if to == nil {
					r.Failf("To(%d) is nil", u)
				} else {
					iterProtocol(r, fmt.Sprintf("To(%d)", u), to, wantTo)
				}
			}
			for v := int64(-1); v <= int64(n); v++ {
				between := edge(u, v) || edge(v, u)
				if got := g.HasEdgeBetween(u, v); got != between {
					r.Failf("HasEdgeBetween(%d,%d)=%v want %v", u, v, got, between)
				}
				e := g.Edge(u, v)
				wantE := edge(u, v)
				if (e != nil) != wantE {
					r.Failf("Edge(%d,%d) presence=%v want %v", u, v, e != nil, wantE)
				} else if e != nil && (e.From().ID() != u || e.To().ID() != v) {
					r.Failf("Edge(%d,%d) has ends %d,%d", u, v, e.From().ID(), e.To().ID())
				}
				if d, ok := g.(graph.Directed); ok {
					if got := d.HasEdgeFromTo(u, v); got != edge(u, v) {
						r.Failf("HasEdgeFromTo(%d,%d)=%v want %v", u, v, got, edge(u, v))
					}
				}
				if ug, ok := g.(graph.Undirected); ok {
					if eb := ug.EdgeBetween(u, v); (eb != nil) != between {
						r.Failf("EdgeBetween(%d,%d) presence=%v want %v", u, v, eb != nil, between)
					}
				}
			}
		}); p != "" {
			r.Failf("query with id %d on valid %s %s (n=%d) panicked: %s", u, c.name, hexs(clip(s, 40)), n, p)
		}
	}
	if p := catch(func() { _ = c.goString(s) }); p != "" {
		r.Failf("GoString of valid %s panicked: %s", hexs(clip(s, 40)), p)
	}
}

// auditAny6 decodes s with the reference reader and audits gonum's view of it.
// light selects the reduced source-id set for large orders.
func auditAny6(r *rep, c *g6codec, s string, light bool) g6ref {
	ref := refDecode6(c.directed, s)
	var valid bool
	if p := catch(func() { valid = c.valid(s) }); p != "" {
		r.Failf("IsValid(%s) panicked: %s", hexs(clip(s, 40)), p)
		return ref
	}
	if valid != ref.ok {
		if valid && ref.n >= 1<<31 {
			r.finding("g6-order-overflow", c.name, "%s.IsValid(%s)=true: header claims n=%d nodes but the string carries %d data bytes (n*n wraps in int)", c.name, q(s), ref.n, len(s)-ref.hdr-btoi(c.directed))
			// a few queries on the bogus graph
			g := c.mk(s)
			if p := catch(func() {
				g.Node(0)
				g.HasEdgeBetween(0, 1)
				g.Edge(1, 0)
				if f := g.From(0); f != nil {
					f.Next()
				}
			}); p != "" {
				r.finding("g6-order-overflow-panic", c.name, "%s.Graph(%s) passes IsValid and then a query panics: %s", c.name, q(s), p)
			}
			return ref
		}
		r.Failf("%s.IsValid(%s)=%v, reference reader says %v (n=%d)", c.name, hexs(clip(s, 40)), valid, ref.ok, ref.n)
		return ref
	}
	if !ref.ok {
		r.Outcome("null")
		auditNull6(r, c, s)
		return ref
	}
	if ref.adj == nil {
		// valid and larger than the adjacency cap: only the size is checked.
		r.Outcome("valid-large")
		g := c.mk(s)
		if p := catch(func() {
			if l := g.Nodes().Len(); int64(l) != ref.n {
				r.Failf("Nodes().Len()=%d want %d", l, ref.n)
			}
			if g.Node(ref.n) != nil || g.Node(ref.n-1) == nil || g.Node(-1) != nil {
				r.Failf("Node presence wrong at the ends (n=%d)", ref.n)
			}
		}); p != "" {
			r.Failf("query on large valid graph panicked: %s", p)
		}
		return ref
	}
	n := int(ref.n)
	var us []int64
	if light && n > 12 {
		us = []int64{-1, 0, 1, int64(n / 2), int64(n - 1), int64(n)}
		r.Outcome("valid-light")
	} else {
		r.Outcome(fmt.Sprintf("valid hdr=%d", ref.hdr))
	}
	auditValid6(r, c, s, n, ref.adj, us)
	return ref
}

func btoi(b bool) int {
	if b {
		return 1
	}
	return 0
}

// ---- generators ----

func newAdj(n int) [][]bool {
	a := make([][]bool, n)
	for i := range a {
		a[i] = make([]bool, n)
	}
	return a
}

// adjFromMask enumerates labelled graphs: bit k of mask is the k-th pair in
// row-major order over ordered pairs (directed) or pairs i<j (undirected).
func adjFromMask(directed bool, n int, mask uint64) [][]bool {
	a := newAdj(n)
	k := uint(0)
	for i := 0; i < n; i++ {
		for j := 0; j < n; j++ {
			if i == j || (!directed && j < i) {
				continue
			}
			if mask>>k&1 == 1 {
				a[i][j] = true
				if !directed {
					a[j][i] = true
				}
			}
			k++
		}
	}
	return a
}

func pairCount(directed bool, n int) int {
	if directed {
		return n * (n - 1)
	}
	return n * (n - 1) / 2
}

// buildSimple makes a gonum graph with the adjacency and node ids ids[i].
func buildSimple(directed bool, n int, adj [][]bool, ids []int64) graph.Graph {
	if directed {
		g := simple.NewDirectedGraph()
		for i := 0; i < n; i++ {
			g.AddNode(simple.Node(ids[i]))
		}
		for i := 0; i < n; i++ {
			for j := 0; j < n; j++ {
				if adj[i][j] {
					g.SetEdge(simple.Edge{F: simple.Node(ids[i]), T: simple.Node(ids[j])})
				}
			}
		}
		return g
	}
	g := simple.NewUndirectedGraph()
	for i := 0; i < n; i++ {
		g.AddNode(simple.Node(ids[i]))
	}
	for i := 0; i < n; i++ {
		for j := i + 1; j < n; j++ {
			if adj[i][j] {
				g.SetEdge(simple.Edge{F: simple.Node(ids[i]), T: simple.Node(ids[j])})
			}
		}
	}
	return g
}

func identityIDs(n int) []int64 {
	ids := make([]int64, n)
	for i := range ids {
		ids[i] = int64(i)
	}
	return ids
}

// sparseIDs is an increasing, non-contiguous labelling that starts below zero.
func sparseIDs(n int) []int64 {
	ids := make([]int64, n)
	for i := range ids {
		ids[i] = int64(i*i*3+2*i) - 3
	}
	return ids
}

func roundTrip6(t *vlib.T, c *g6codec, n int, adj [][]bool, ids []int64) {
	r := newRep(t)
	g := buildSimple(c.directed, n, adj, ids)
	want := refEncode6(c.directed, n, adj)
	var got string
	if p := catch(func() { got = c.encode(g) }); p != "" {
		r.Failf("Encode panicked: %s", p)
		return
	}
	if got != want {
		r.Failf("Encode=%s want %s", hexs(clip(got, 60)), hexs(clip(want, 60)))
		return
	}
	if !c.valid(got) {
		r.Failf("IsValid(Encode(g)) is false for %s", hexs(clip(got, 60)))
		return
	}
	ref := refDecode6(c.directed, got)
	if !ref.ok || int(ref.n) != n {
		r.Failf("harness: reference reader rejects %s", hexs(clip(got, 60)))
		return
	}
	auditValid6(r, c, got, n, adj, nil)
	if n >= 2 {
		t.Nontrivial()
	}
	t.Outcome(fmt.Sprintf("hdr=%d", ref.hdr))
}

func genG6Small(g *vlib.G) {
	for _, c := range g6codecs {
		c := c
		maxN := 5
		if c.directed {
			maxN = 4
		}
		for n := 0; n <= maxN; n++ {
			n := n
			pc := pairCount(c.directed, n)
			for mask := uint64(0); mask < 1<<uint(pc); mask++ {
				mask := mask
				for li, lab := range []func(int) []int64{identityIDs, sparseIDs} {
					lab := lab
					if li == 1 && n == 0 {
						continue
					}
					g.Case(fmt.Sprintf("%s n=%d mask=%#x ids=%d", c.name, n, mask, li), func(t *vlib.T) {
						roundTrip6(t, c, n, adjFromMask(c.directed, n, mask), lab(n))
					})
				}
			}
		}
	}
}

var g6Families = []struct {
	name string
	edge func(n, i, j int) bool // i -> j, i != j
}{
	{"empty", func(n, i, j int) bool { return false }},
	{"complete", func(n, i, j int) bool { return true }},
	{"path", func(n, i, j int) bool { return j == i+1 }},
	{"star", func(n, i, j int) bool { return i == 0 }},
	{"instar", func(n, i, j int) bool { return j == n-1 }},
}

func familyAdj(directed bool, fam int, n int) [][]bool {
	a := newAdj(n)
	for i := 0; i < n; i++ {
		for j := 0; j < n; j++ {
			if i != j && g6Families[fam].edge(n, i, j) {
				a[i][j] = true
				if !directed {
					a[j][i] = true
				}
			}
		}
	}
	return a
}

func genG6Families(g *vlib.G) {
	for _, c := range g6codecs {
		c := c
		for fam := range g6Families {
			fam := fam
			if !c.directed && g6Families[fam].name == "instar" {
				continue
			}
			for n := 0; n <= 70; n++ {
				n := n
				g.Case(fmt.Sprintf("%s %s n=%d", c.name, g6Families[fam].name, n), func(t *vlib.T) {
					roundTrip6(t, c, n, familyAdj(c.directed, fam, n), identityIDs(n))
				})
			}
		}
	}
}

var g6Hostile = []string{">", "?", "@", "~", "}", "\x7f"}

func genG6Strings(g *vlib.G) {
	strs := allStrings(g6Hostile, vlib.Pick(g, 4, 5))
	type variant struct {
		name   string
		c      *g6codec
		prefix string
	}
	for _, v := range []variant{{"graph6", g6codecs[0], ""}, {"digraph6", g6codecs[1], ""}, {"digraph6&", g6codecs[1], "&"}} {
		v := v
		for _, s := range strs {
			s := v.prefix + s
			g.Case(v.name+" "+hexs(s), func(t *vlib.T) {
				r := newRep(t)
				ref := auditAny6(r, v.c, s, false)
				if ref.ok {
					t.Nontrivial()
				}
			})
		}
	}
}

var g6Subst = []byte{'>', '?', '@', '~', '}', 0x7f, '&', '_', 0x00}

func genG6Mutate(g *vlib.G) {
	type base struct {
		name string
		c    *g6codec
		s    string
		big  bool
	}
	var bases []base
	for _, c := range g6codecs {
		for n := 0; n <= 3; n++ {
			pc := pairCount(c.directed, n)
			for mask := uint64(0); mask < 1<<uint(pc); mask++ {
				bases = append(bases, base{fmt.Sprintf("%s n=%d mask=%#x", c.name, n, mask), c, refEncode6(c.directed, n, adjFromMask(c.directed, n, mask)), false})
			}
		}
		fams := vlib.Pick(g, []int{2}, []int{0, 1, 2, 3})
		for _, n := range vlib.Pick(g, []int{5, 62, 63}, []int{4, 5, 6, 62, 63, 64}) {
			for _, fam := range fams {
				bases = append(bases, base{fmt.Sprintf("%s %s n=%d", c.name, g6Families[fam].name, n), c, refEncode6(c.directed, n, familyAdj(c.directed, fam, n)), n > 12})
			}
		}
	}
	for _, b := range bases {
		b := b
		ref := refDecode6(b.c.directed, b.s)
		hdrEnd := ref.hdr + btoi(b.c.directed)
		for pos := 0; pos <= len(b.s); pos++ {
			pos := pos
			if b.big && !g.Thorough() {
				// quick: header, the first and last two data bytes and the middle one
				d := pos - hdrEnd
				nd := len(b.s) - hdrEnd
				if pos < len(b.s) && d >= 2 && d < nd-2 && d != nd/2 {
					continue
				}
			}
			g.Case(fmt.Sprintf("%s pos=%d", b.name, pos), func(t *vlib.T) {
				r := newRep(t)
				// truncation to pos bytes
				auditAny6(r, b.c, b.s[:pos], true)
				muts := int64(1)
				if pos == len(b.s) {
					// one byte appended
					for _, x := range g6Subst {
						auditAny6(r, b.c, b.s+string([]byte{x}), true)
						muts++
					}
				} else {
					for _, x := range g6Subst {
						if b.s[pos] == x {
							continue
						}
						m := []byte(b.s)
						m[pos] = x
						auditAny6(r, b.c, string(m), true)
						muts++
					}
				}
				t.Count("g6_mutants", muts)
				t.Nontrivial()
			})
		}
	}
}

func genG6Header(g *vlib.G) {
	type form struct {
		width int
		ns    []int64
	}
	forms := []form{
		{1, []int64{0, 1, 2, 3, 61, 62}},
		{4, []int64{0, 1, 2, 62, 63, 64, 4095, 4096, 1<<18 - 1}},
		{8, []int64{0, 1, 2, 63, 1<<18 - 1, 1 << 18, 1 << 30, 1<<31 - 1, 1 << 31, 1<<32 - 1, 1 << 32, 1<<32 + 1, 1 << 33, 3 << 32, 1 << 34, 1 << 35, 1<<36 - 1}},
	}
	for _, c := range g6codecs {
		c := c
		for _, f := range forms {
			f := f
			for _, n := range f.ns {
				n := n
				var hdr []byte
				switch f.width {
				case 1:
					hdr = []byte{byte(n) + 63}
				case 4:
					hdr = []byte{126, byte(n>>12&63) + 63, byte(n>>6&63) + 63, byte(n&63) + 63}
				default:
					hdr = []byte{126, 126}
					for s := 30; s >= 0; s -= 6 {
						hdr = append(hdr, byte(n>>uint(s)&63)+63)
					}
				}
				lens := []int{0, 1, 2, 3}
				// the exact data length when it is small
				bn := big.NewInt(n)
				bits := new(big.Int).Mul(bn, bn)
				if !c.directed {
					bits.Sub(bits, bn)
					bits.Rsh(bits, 1)
				}
				need := bits.Add(bits, big.NewInt(5))
				need.Div(need, big.NewInt(6))
				if need.IsInt64() && need.Int64() > 3 && need.Int64() <= 4096 {
					lens = append(lens, int(need.Int64())-1, int(need.Int64()), int(need.Int64())+1)
				}
				for _, l := range lens {
					for _, fill := range []byte{'?', '~'} {
						l, fill := l, fill
						if l == 0 && fill == '~' {
							continue
						}
						g.Case(fmt.Sprintf("%s hdr=%d n=%d data=%d fill=%c", c.name, f.width, n, l, fill), func(t *vlib.T) {
							r := newRep(t)
							var s []byte
							if c.directed {
								s = append(s, '&')
							}
							s = append(s, hdr...)
							for i := 0; i < l; i++ {
								s = append(s, fill)
							}
							ref := auditAny6(r, c, string(s), true)
							if ref.ok {
								t.Nontrivial()
							}
						})
					}
				}
			}
		}
	}
}
