package main

import (
	"bytes"
	"encoding/json"
	"encoding/xml"
	"fmt"
	"reflect"
	"time"

	"gonum.org/v1/gonum/graph/formats/cytoscapejs"
	"gonum.org/v1/gonum/graph/formats/gexf12"
	"gonum.org/v1/gonum/graph/formats/sigmajs"
	"gonum.org/v1/gonum/internal/verif/vlib"
)

// The JSON/XML graph formats are thin layers over encoding/json and
// encoding/xml; what they add is the folding of id/source/target/parent into
// the attribute object and the xsd:date attribute of GEXF.

func jsonAttrMenu() []map[string]interface{} {
	return []map[string]interface{}{
		nil,
		{"k": "v"},
		{"n": 1.5, "b": true, "z": nil},
		{"nested": map[string]interface{}{"x": []interface{}{1.0, "a"}}, "é\"": "\\"},
	}
}

type jsonSubject struct {
	name string
	mk   func(id, aux string, attrs map[string]interface{}) interface{} // pointer to a fresh value
	zero func() interface{}
}

var jsonSubjects = []jsonSubject{
	{"sigmajs.Node", func(id, aux string, a map[string]interface{}) interface{} {
		return &sigmajs.Node{ID: id, Attributes: a}
	}, func() interface{} { return new(sigmajs.Node) }},
	{"sigmajs.Edge", func(id, aux string, a map[string]interface{}) interface{} {
		return &sigmajs.Edge{ID: id, Source: aux, Target: id + aux, Attributes: a}
	}, func() interface{} { return new(sigmajs.Edge) }},
	{"cytoscapejs.NodeData", func(id, aux string, a map[string]interface{}) interface{} {
		return &cytoscapejs.NodeData{ID: id, Parent: aux, Attributes: a}
	}, func() interface{} { return new(cytoscapejs.NodeData) }},
	{"cytoscapejs.EdgeData", func(id, aux string, a map[string]interface{}) interface{} {
		return &cytoscapejs.EdgeData{ID: id, Source: aux, Target: id + aux, Attributes: a}
	}, func() interface{} { return new(cytoscapejs.EdgeData) }},
	{"cytoscapejs.ElemData", func(id, aux string, a map[string]interface{}) interface{} {
		return &cytoscapejs.ElemData{ID: id, Source: aux, Target: aux + id, Parent: aux, Attributes: a}
	}, func() interface{} { return new(cytoscapejs.ElemData) }},
}

func genJSONFormats(g *vlib.G) {
	ids := allStrings(dotAlpha, vlib.Pick(g, 1, 2))
	for _, sub := range jsonSubjects {
		for ai := range jsonAttrMenu() {
			for _, id := range ids {
				for _, aux := range []string{"", "s", "\"\n"} {
					sub, ai, id, aux := sub, ai, id, aux
					g.Case(fmt.Sprintf("%s attrs=%d id=%s aux=%s", sub.name, ai, q(id), q(aux)), func(t *vlib.T) {
						r := newRep(t)
						v := sub.mk(id, aux, jsonAttrMenu()[ai])
						want := sub.mk(id, aux, jsonAttrMenu()[ai])
						var b1 []byte
						var err error
						if p := catch(func() { b1, err = json.Marshal(v) }); p != "" || err != nil {
							r.Failf("Marshal: %v %s", err, p)
							return
						}
						if !reflect.DeepEqual(v, want) {
							r.Failf("Marshal modified its receiver: %+v want %+v", v, want)
						}
						got := sub.zero()
						if p := catch(func() { err = json.Unmarshal(b1, got) }); p != "" || err != nil {
							r.Failf("Unmarshal(%s): %v %s", b1, err, p)
							return
						}
						if !reflect.DeepEqual(got, want) {
							r.Failf("round trip differs: %+v want %+v (json %s)", got, want, b1)
							return
						}
						b2, err := json.Marshal(got)
						if err != nil || !bytes.Equal(b1, b2) {
							r.Failf("second Marshal differs: %s vs %s (%v)", b1, b2, err)
						}
						// decoder totality on every truncation of the document
						for l := 0; l < len(b1); l++ {
							x := sub.zero()
							if p := catch(func() { err = json.Unmarshal(b1[:l], x) }); p != "" {
								r.Failf("Unmarshal(%s) panicked: %s", b1[:l], p)
							} else if err == nil {
								r.Failf("Unmarshal accepted the truncated document %s", b1[:l])
							}
						}
						t.Nontrivial()
					})
				}
			}
		}
		// documents without the mandatory members, and of the wrong JSON type
		sub := sub
		g.Case(sub.name+" hostile-documents", func(t *vlib.T) {
			r := newRep(t)
			for _, doc := range []string{``, `null`, `[]`, `1`, `"x"`, `{}`, `{"id":null}`, `{"id":{}}`, `{"id":[1]}`, `{"id":1e400}`, `{"source":"a"}`,
				`{"id":"a","source":null,"target":[],"parent":{}}`, `{"id":"a","id":"b"}`, `{"id":"a","source":"s","target":"t","x":{"id":1}}`, `{"id":"\ud800"}`, `{"id":"a"}}`, `{"ID":"a","Source":"s","Target":"t"}`} {
				x := sub.zero()
				var err error
				if p := catch(func() { err = json.Unmarshal([]byte(doc), x) }); p != "" {
					r.Failf("Unmarshal(%s) panicked: %s", doc, p)
					continue
				}
				if err != nil {
					continue
				}
				// what was accepted must marshal and come back equal
				b, err := json.Marshal(x)
				if err != nil {
					r.Failf("Marshal of the value decoded from %s: %v", doc, err)
					continue
				}
				y := sub.zero()
				if err := json.Unmarshal(b, y); err != nil || !reflect.DeepEqual(x, y) {
					r.Failf("value decoded from %s does not round trip: %+v vs %+v (%v)", doc, x, y, err)
				}
			}
			t.Nontrivial()
		})
	}
	// GEXF: the xsd:date attribute and the element structure
	for _, d := range []time.Time{{}, time.Date(2020, 2, 29, 0, 0, 0, 0, time.UTC), time.Date(1, 1, 1, 0, 0, 0, 0, time.UTC).AddDate(0, 0, 1), time.Date(1999, 12, 31, 0, 0, 0, 0, time.UTC), time.Date(9999, 12, 31, 0, 0, 0, 0, time.UTC)} {
		for _, text := range []string{"", "a", "<&>\"'", " x\ny "} {
			d, text := d, text
			g.Case(fmt.Sprintf("gexf date=%s text=%s", d.Format("2006-01-02"), q(text)), func(t *vlib.T) {
				r := newRep(t)
				c := gexf12.Content{
					Meta:    &gexf12.Meta{Creator: text, Keywords: "k", Description: text, LastModified: d},
					Version: "1.2",
					Graph: gexf12.Graph{
						DefaultEdgeType: "directed",
						Nodes:           gexf12.Nodes{Count: 2, Nodes: []gexf12.Node{{ID: "0", Label: text}, {ID: text + "1"}}},
						Edges:           gexf12.Edges{Count: 1, Edges: []gexf12.Edge{{ID: "e", Source: "0", Target: text + "1", Label: text}}},
					},
				}
				b1, err := xml.Marshal(&c)
				if err != nil {
					r.Failf("Marshal: %v", err)
					return
				}
				var got gexf12.Content
				if err := xml.Unmarshal(b1, &got); err != nil {
					r.Failf("Unmarshal(%s): %v", b1, err)
					return
				}
				b2, err := xml.Marshal(&got)
				if err != nil || !bytes.Equal(b1, b2) {
					r.Failf("second Marshal differs (%v)\n%s\n%s", err, b1, b2)
				}
				if got.Meta == nil || !got.Meta.LastModified.Equal(d) || got.Meta.Creator != c.Meta.Creator || got.Meta.Description != c.Meta.Description {
					r.Failf("meta differs: %+v want %+v", got.Meta, c.Meta)
				}
				if len(got.Graph.Nodes.Nodes) != 2 || got.Graph.Nodes.Nodes[0].Label != text || got.Graph.Nodes.Nodes[1].ID != text+"1" || len(got.Graph.Edges.Edges) != 1 || got.Graph.Edges.Edges[0].Target != text+"1" {
					r.Failf("graph differs: %+v", got.Graph)
				}
				for l := 0; l < len(b1); l++ {
					var x gexf12.Content
					if p := catch(func() { _ = xml.Unmarshal(b1[:l], &x) }); p != "" {
						r.Failf("Unmarshal of %d bytes panicked: %s", l, p)
					}
				}
				t.Nontrivial()
			})
		}
	}
}
