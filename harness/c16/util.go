package main

import (
	"fmt"
	"runtime"
	"strings"

	"gonum.org/v1/gonum/internal/verif/vlib"
)

// rep wraps the per-case handle. Suspected gonum defects are recorded with
// finding (own class, own sub-key) so that they never mask an unrelated
// failure of the same case; everything else goes through Failf.
type rep struct {
	*vlib.T
	seen map[string]bool
}

func newRep(t *vlib.T) *rep { return &rep{T: t, seen: map[string]bool{}} }

// finding records one violation of class per case (the first one seen).
func (r *rep) finding(class, sub, format string, a ...any) {
	if r.seen[class] {
		r.Count("finding:"+class, 1)
		return
	}
	r.seen[class] = true
	r.Count("finding:"+class, 1)
	r.SubViolation(" {"+sub+"}", class, nil, format, a...)
}

// catch runs f and returns a description of the panic it raised, or "".
func catch(f func()) (msg string) {
	defer func() {
		if e := recover(); e != nil {
			if re, ok := e.(runtime.Error); ok {
				msg = re.Error()
			} else {
				msg = fmt.Sprint(e)
			}
			if msg == "" {
				msg = "panic with empty message"
			}
		}
	}()
	f()
	return ""
}

// allStrings returns every string of length 0..maxLen over the alphabet
// (symbols may be multi-byte), shortest first, in odometer order.
func allStrings(alpha []string, maxLen int) []string {
	out := []string{""}
	prev := []string{""}
	for l := 1; l <= maxLen; l++ {
		var cur []string
		for _, p := range prev {
			for _, a := range alpha {
				cur = append(cur, p+a)
			}
		}
		out = append(out, cur...)
		prev = cur
	}
	return out
}

func q(s string) string { return fmt.Sprintf("%+q", s) }

// hexs renders arbitrary bytes compactly for keys.
func hexs(s string) string {
	var b strings.Builder
	for i := 0; i < len(s); i++ {
		c := s[i]
		if c > 0x20 && c < 0x7f && c != '%' {
			b.WriteByte(c)
		} else {
			fmt.Fprintf(&b, "%%%02x", c)
		}
	}
	return b.String()
}

// perms calls f with every permutation of 0..n-1 (lexicographic order).
func perms(n int, f func(p []int)) {
	p := make([]int, n)
	used := make([]bool, n)
	var rec func(k int)
	rec = func(k int) {
		if k == n {
			f(p)
			return
		}
		for i := 0; i < n; i++ {
			if used[i] {
				continue
			}
			used[i] = true
			p[k] = i
			rec(k + 1)
			used[i] = false
		}
	}
	rec(0)
}

func clip(s string, n int) string {
	if len(s) > n {
		return s[:n] + "..."
	}
	return s
}
